/-
XML round trip of changesets with discussions, part 2: `init_changeset` on the writer's attribute
list, the discussion run, the whole `<changeset>` element (helper lemmas for Props/C01Text.lean).
-/
import Osmium.Lemmas.XmlFmtCs

namespace Osmium.XmlFmt
open Osmium.Osm Osmium.TextFmt Osmium.Conv Osmium.Utf8

/-! ### `init_changeset` -/

set_option maxRecDepth 4000 in
/-- the attributes of `<changeset>` in the writer's order, each optional group present or not -/
theorem cs_chain (b1 b2 b3 b4 : Bool) (idv cav clv usr uv y1 x1 y2 x2 ncv ccv : Bytes) (idx cax clx ux ncx ccx : Nat)
    (Y1 X1 Y2 X2 : Int)
    (h_id : rUlong idv = .ok idx) (h_ca : rTimestamp cav = .ok cax) (h_cl : rTimestamp clv = .ok clx)
    (h_u : rUlong uv = .ok ux) (h_y1 : rCoord y1 = .ok Y1) (h_x1 : rCoord x1 = .ok X1) (h_y2 : rCoord y2 = .ok Y2)
    (h_x2 : rCoord x2 = .ok X2) (h_nc : rUlong ncv = .ok ncx) (h_cc : rUlong ccv = .ok ccx)
    (h_usr : usr.length ≤ 1024) :
    initChangesetAttrs ([("id", idv)] ++ optA b1 "created_at" cav ++
        (if b2 then [("closed_at", clv), ("open", bFalse)] else [("open", bTrue)]) ++
        (if b3 then [("user", usr), ("uid", uv)] else []) ++
        (if b4 then [("min_lat", y1), ("min_lon", x1)] ++ [("max_lat", y2), ("max_lon", x2)] else []) ++
        [("num_changes", ncv), ("comments_count", ccv)]) {} =
      .ok { id := idx, createdAt := if b1 then cax else 0, closedAt := if b2 then clx else 0, numChanges := ncx,
            numComments := ccx, uid := if b3 then ux else 0, user := if b3 then usr else [],
            bl := if b4 then ⟨X1, Y1⟩ else Location.undefined, tr := if b4 then ⟨X2, Y2⟩ else Location.undefined } := by
  have hlen : ¬ (1024 < usr.length) := by omega
  cases b1 <;> cases b2 <;> cases b3 <;> cases b4 <;>
    simp (config := { decide := true }) [optA, initChangesetAttrs, h_id, h_ca, h_cl, h_u, h_y1, h_x1, h_y2, h_x2, h_nc, h_cc,
      Location.undefined, OplFmt.maxString, hlen]

theorem toIso_of_ne (t : Nat) (h : (t != 0) = true) : toIso t = toIsoAll t := if_pos h

theorem isUndefined_iff (l : Location) : isUndefined l = true ↔ l = Location.undefined := by
  cases l with
  | mk x y => simp [isUndefined, Location.undefined, Location.undefinedCoordinate]

theorem decodeAttrs_two {n1 n2 : String} {r1 v1 r2 v2 : Bytes} (h1 : Xml.unescapeAttr r1 = some v1)
    (h2 : Xml.unescapeAttr r2 = some v2) : decodeAttrs [(n1, r1), (n2, r2)] = some [(n1, v1), (n2, v2)] :=
  decodeAttrs_append_some (decodeAttrs_one h1) (decodeAttrs_one h2)

/-- the writer's attribute list of `<changeset>`, decoded, and what `init_changeset` makes of it -/
theorem cs_attrs_spec (id ca cl nc ncm : Nat) (uid : Int) (user : Bytes) (bl tr : Location) (tags : List Tag)
    (cs : List Comment) (h : XCsOK id ca cl nc ncm uid user bl tr tags cs) :
    ∃ as as', (bindE (intAttr "id" id) fun aid =>
        bindE (if uid != 0 then bindE (intAttr "uid" uid) fun a => .ok [("user", Xml.escape user), a] else .ok []) fun au =>
        bindE (intAttr "num_changes" nc) fun anc =>
        bindE (intAttr "comments_count" ncm) fun acc =>
        (Except.ok ([aid] ++ (if ca != 0 then [("created_at", toIso ca)] else []) ++
          (if cl != 0 then [("closed_at", toIso cl), ("open", bFalse)] else [("open", bTrue)]) ++ au ++
          (if !isUndefined bl || !isUndefined tr then latLon "min_lat" "min_lon" bl ++ latLon "max_lat" "max_lon" tr else []) ++
          [anc, acc]) : Except WErr (List (String × Bytes)))) = .ok as ∧
      decodeAttrs as = some as' ∧
      initChangeset as' = .ok (.changeset id ca cl nc ncm (if uid != 0 then uid else 0) (if uid != 0 then user else [])
        bl tr [] []) := by
  obtain ⟨idv, hid, pid, rid⟩ := wInt_rUlong id h.id
  obtain ⟨ncv, hnc, pnc, rnc⟩ := wInt_rUlong nc h.nc
  obtain ⟨ccv, hcc, pcc, rcc⟩ := wInt_rUlong ncm h.ncm
  obtain ⟨uv, hu, pu, ru⟩ := wInt_rUlong uid.toNat (by have := h.uid1; omega)
  have huid : ((uid.toNat : Nat) : Int) = uid := Int.toNat_of_nonneg h.uid0
  rw [huid] at hu
  obtain ⟨bx0, bx1, by0, by1⟩ := h.bl
  obtain ⟨tx0, tx1, ty0, ty1⟩ := h.tr
  refine ⟨[("id", idv)] ++ optA (ca != 0) "created_at" (toIsoAll ca) ++
        (if cl != 0 then [("closed_at", toIsoAll cl), ("open", bFalse)] else [("open", bTrue)]) ++
        (if uid != 0 then [("user", Xml.escape user), ("uid", uv)] else []) ++
        (if !isUndefined bl || !isUndefined tr then [("min_lat", formatCoord bl.y), ("min_lon", formatCoord bl.x)] ++
          [("max_lat", formatCoord tr.y), ("max_lon", formatCoord tr.x)] else []) ++
        [("num_changes", ncv), ("comments_count", ccv)],
      [("id", idv)] ++ optA (ca != 0) "created_at" (toIsoAll ca) ++
        (if cl != 0 then [("closed_at", toIsoAll cl), ("open", bFalse)] else [("open", bTrue)]) ++
        (if uid != 0 then [("user", user), ("uid", uv)] else []) ++
        (if !isUndefined bl || !isUndefined tr then [("min_lat", formatCoord bl.y), ("min_lon", formatCoord bl.x)] ++
          [("max_lat", formatCoord tr.y), ("max_lon", formatCoord tr.x)] else []) ++
        [("num_changes", ncv), ("comments_count", ccv)], ?_, ?_, ?_⟩
  · have e1 : intAttr "id" (id : Int) = .ok ("id", idv) := by simp [intAttr, hid]
    have e2 : intAttr "num_changes" (nc : Int) = .ok ("num_changes", ncv) := by simp [intAttr, hnc]
    have e3 : intAttr "comments_count" (ncm : Int) = .ok ("comments_count", ccv) := by simp [intAttr, hcc]
    have e4 : intAttr "uid" uid = .ok ("uid", uv) := by simp [intAttr, hu]
    have hau : (if (uid != 0) = true then bindE (intAttr "uid" uid) fun a =>
          (Except.ok [("user", Xml.escape user), a] : Except WErr (List (String × Bytes))) else Except.ok []) =
        .ok (if (uid != 0) = true then [("user", Xml.escape user), ("uid", uv)] else []) := by
      by_cases hu0 : (uid != 0) = true
      · rw [if_pos hu0, if_pos hu0, e4]; rfl
      · rw [if_neg hu0, if_neg hu0]
    have f1 : (if (ca != 0) = true then [("created_at", toIso ca)] else []) = optA (ca != 0) "created_at" (toIsoAll ca) := by
      unfold optA
      by_cases hca : (ca != 0) = true
      · rw [if_pos hca, if_pos hca, toIso_of_ne ca hca]
      · rw [if_neg hca, if_neg hca]
    have f2 : (if (cl != 0) = true then [("closed_at", toIso cl), ("open", bFalse)] else [("open", bTrue)]) =
        (if (cl != 0) = true then [("closed_at", toIsoAll cl), ("open", bFalse)] else [("open", bTrue)]) := by
      by_cases hcl : (cl != 0) = true
      · rw [if_pos hcl, if_pos hcl, toIso_of_ne cl hcl]
      · rw [if_neg hcl, if_neg hcl]
    simp only [e1, e2, e3, hau, bindE_ok, latLon, f1, f2]
  · have hp := fun v h1 h2 => unescape_plain _ (formatCoord_plain v h1 h2)
    refine decodeAttrs_append_some (decodeAttrs_append_some (decodeAttrs_append_some (decodeAttrs_append_some
      (decodeAttrs_append_some (decodeAttrs_one (unescape_plain _ pid))
        (decodeAttrs_opt _ _ fun _ => unescape_plain _ (toIsoAll_plain _))) ?_) ?_) ?_) ?_
    · split
      · exact decodeAttrs_two (unescape_plain _ (toIsoAll_plain cl)) (unescape_plain _ bFalse_plain)
      · exact decodeAttrs_one (unescape_plain _ bTrue_plain)
    · split
      · exact decodeAttrs_two (unescape_escape _ h.user) (unescape_plain _ pu)
      · rfl
    · split
      · exact decodeAttrs_append_some (decodeAttrs_two (hp _ by0 by1) (hp _ bx0 bx1)) (decodeAttrs_two (hp _ ty0 ty1) (hp _ tx0 tx1))
      · rfl
    · exact decodeAttrs_two (unescape_plain _ pnc) (unescape_plain _ pcc)
  · have hch := cs_chain (ca != 0) (cl != 0) (uid != 0) (!isUndefined bl || !isUndefined tr) idv (toIsoAll ca) (toIsoAll cl)
      user uv (formatCoord bl.y) (formatCoord bl.x) (formatCoord tr.y) (formatCoord tr.x) ncv ccv id ca cl uid.toNat nc ncm
      bl.y bl.x tr.y tr.x rid (rTimestamp_toIsoAll ca h.ca) (rTimestamp_toIsoAll cl h.cl) ru
      (rCoord_formatCoord _ by0 by1) (rCoord_formatCoord _ bx0 bx1) (rCoord_formatCoord _ ty0 ty1)
      (rCoord_formatCoord _ tx0 tx1) rnc rcc (xstrOK_spec h.user).choose_spec.2.2
    unfold initChangeset
    rw [hch]
    simp only [bindE_ok]
    have c1 : (if (ca != 0) = true then ca else 0) = ca := by
      cases hca : (ca != 0)
      · simp at hca; simp [hca]
      · simp
    have c2 : (if (cl != 0) = true then cl else 0) = cl := by
      cases hcl : (cl != 0)
      · simp at hcl; simp [hcl]
      · simp
    have c3 : ((if (uid != 0) = true then uid.toNat else 0 : Nat) : Int) = (if (uid != 0) = true then uid else 0) := by
      cases hui : (uid != 0) <;> simp [huid]
    have c4 : (if (!isUndefined bl || !isUndefined tr) = true then (⟨bl.x, bl.y⟩ : Location) else Location.undefined) = bl := by
      cases hb : (!isUndefined bl || !isUndefined tr)
      · simp only [Bool.or_eq_false_iff, Bool.not_eq_false'] at hb
        simp [(isUndefined_iff bl).1 hb.1]
      · simp
    have c5 : (if (!isUndefined bl || !isUndefined tr) = true then (⟨tr.x, tr.y⟩ : Location) else Location.undefined) = tr := by
      cases hb : (!isUndefined bl || !isUndefined tr)
      · simp only [Bool.or_eq_false_iff, Bool.not_eq_false'] at hb
        simp [(isUndefined_iff tr).1 hb.2]
      · simp
    simp only [c1, c2, c3, c4, c5]

end Osmium.XmlFmt
