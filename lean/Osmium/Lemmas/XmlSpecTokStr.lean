/-
Leaf lemmas for the lexical half of `xml_decode_spec` (C02): attribute values and character data
written by `XmlSpec.esc` in any of its four escape modes, with either quote, are decoded by the
tokenizer's `tokAttrValue` / `tokText` to the original string.
-/
import Osmium.Lemmas.XmlSpecDefs
import Osmium.Lemmas.XmlFmt
import Osmium.Lemmas.XmlSpecTokStr0

namespace Osmium.XmlFmt.XmlSpec
open Osmium.Osm Osmium.TextFmt Osmium.Conv Osmium.Utf8 Osmium.XmlFmt

/-- UTF-8 encodings of XML `Char`s (any length) -/
def XChars (s : Bytes) : Prop := ∃ cps : List Nat, s = encodeStr cps ∧ C14.XmlCharStr cps

theorem XChars_of_xstrOK {s : Bytes} (h : xstrOK s = true) : XChars s := by
  obtain ⟨cps, h1, h2, _⟩ := xstrOK_spec h
  exact ⟨cps, h1, h2⟩

/-- plain ASCII (numbers, timestamps, keywords) are XML strings -/
theorem XChars_of_plain {s : Bytes} (h : AllPlain s) : XChars s := by
  have hp := fun b hb => plain_of_class b (h b hb)
  have hascii : ∀ b ∈ s, b.toNat < 0x80 := by
    intro b hb
    have := hp b hb
    simp only [plainB, Bool.and_eq_true, decide_eq_true_eq] at this
    exact this.1.1.2
  refine ⟨s.map (·.toNat), (XmlFmt.encodeStr_ascii s hascii).symm, ?_⟩
  intro c hc
  simp only [List.mem_map] at hc
  obtain ⟨b, hb, rfl⟩ := hc
  have := hp b hb
  simp only [plainB, Bool.and_eq_true] at this
  exact this.1.2

/-- every byte of an XML string is itself (as a number) an XML `Char`: ASCII characters are their
    own encoding, all other bytes are ≥ 0x80 -/
theorem xchars_bytes {s : Bytes} (hs : XChars s) : ∀ b ∈ s, Xml.charOk b.toNat = true := by
  obtain ⟨cps, rfl, hc⟩ := hs
  induction cps with
  | nil => intro b hb; simp [encodeStr] at hb
  | cons c cps ih =>
    intro b hb
    rw [encodeStr_cons] at hb
    rcases List.mem_append.1 hb with hb | hb
    · have hok := hc c (by simp)
      by_cases h80 : c < 0x80
      · rw [encode_ascii c h80] at hb
        simp only [List.mem_singleton] at hb; subst hb
        rw [UInt8.toNat_ofNat', Nat.mod_eq_of_lt (by omega)]; exact hok
      · have := encode_bytes_high c (by omega) (Xml.charOk_lt c hok) b hb
        have h2 := b.toNat_lt
        simp only [Xml.charOk, Bool.or_eq_true, Bool.and_eq_true, beq_iff_eq, decide_eq_true_eq]
        omega
    · exact ih (fun x hx => hc x (by simp [hx])) b hb

/-! ### modes 0 and 1: byte by byte -/

/-- the mode-1 replacement of one byte -/
def esc1 (q c : UInt8) : Bytes :=
  if c == 0x26 then str "&amp;" else if c == 0x3c then str "&lt;"
  else if c == q && q == 0x22 then str "&quot;" else if c == q && q == 0x27 then str "&apos;"
  else if c == 0x09 || c == 0x0a || c == 0x0d then charRef true c.toNat
  else [c]

/-- the replacement of one code point in modes 2 / 3 -/
def escCp (hex : Bool) (c : Nat) : Bytes :=
  if c < 0x80 && isAlnum (UInt8.ofNat c) then [UInt8.ofNat c] else charRef hex c

theorem esc_mode0 (ch : Choices) (q : UInt8) (s : Bytes) (h : ch.escMode = 0) : esc ch q s = s.flatMap Xml.escapeByte := by
  simp only [esc, h, if_true, Xml.escape]

theorem esc_mode1 (ch : Choices) (q : UInt8) (s : Bytes) (h : ch.escMode = 1) : esc ch q s = s.flatMap (esc1 q) := by
  simp only [esc, h, if_true]
  rfl

theorem esc_mode23 (ch : Choices) (q : UInt8) (cps : List Nat) (hc : C14.XmlCharStr cps) (h0 : ch.escMode ≠ 0) (h1 : ch.escMode ≠ 1) :
    esc ch q (encodeStr cps) = cps.flatMap (escCp (ch.escMode = 3)) := by
  have hd : decodeStr (encodeStr cps) = .ok cps :=
    decodeStr_encodeStr cps (fun c hx => Xml.charOk_lt c (hc c hx))
  simp only [esc, h0, h1, if_false, hd]
  rfl

def tbl0 (n : Nat) : Bool :=
  !Xml.charOk n ||
    (pieceOK 0 (Xml.escapeByte (UInt8.ofNat n)) (UInt8.ofNat n) && pieceOK 0x22 (Xml.escapeByte (UInt8.ofNat n)) (UInt8.ofNat n) &&
     pieceOK 0x27 (Xml.escapeByte (UInt8.ofNat n)) (UInt8.ofNat n))

def tbl1 (n : Nat) : Bool :=
  !Xml.charOk n ||
    (pieceOK 0 (esc1 0 (UInt8.ofNat n)) (UInt8.ofNat n) && pieceOK 0x22 (esc1 0x22 (UInt8.ofNat n)) (UInt8.ofNat n) &&
     pieceOK 0x27 (esc1 0x27 (UInt8.ofNat n)) (UInt8.ofNat n))

theorem tbl0_ok : ∀ n : Fin 256, tbl0 n.val = true := by decide +kernel
theorem tbl1_ok : ∀ n : Fin 256, tbl1 n.val = true := by decide +kernel


theorem piece0 (b : UInt8) (h : Xml.charOk b.toNat = true) :
    pieceOK 0 (Xml.escapeByte b) b = true ∧ pieceOK 0x22 (Xml.escapeByte b) b = true ∧ pieceOK 0x27 (Xml.escapeByte b) b = true := by
  have := tbl0_ok ⟨b.toNat, b.toNat_lt⟩
  simp only [tbl0, h, Bool.not_true, Bool.false_or, UInt8.ofNat_toNat, Bool.and_eq_true] at this
  exact ⟨this.1.1, this.1.2, this.2⟩

theorem piece1 (b : UInt8) (h : Xml.charOk b.toNat = true) :
    pieceOK 0 (esc1 0 b) b = true ∧ pieceOK 0x22 (esc1 0x22 b) b = true ∧ pieceOK 0x27 (esc1 0x27 b) b = true := by
  have := tbl1_ok ⟨b.toNat, b.toNat_lt⟩
  simp only [tbl1, h, Bool.not_true, Bool.false_or, UInt8.ofNat_toNat, Bool.and_eq_true] at this
  exact ⟨this.1.1, this.1.2, this.2⟩

/-! ### modes 2 and 3: code point by code point -/

def tblAlnum (n : Nat) : Bool :=
  !isAlnum (UInt8.ofNat n) || (litOK 0 (UInt8.ofNat n) && litOK 0x22 (UInt8.ofNat n) && litOK 0x27 (UInt8.ofNat n))

theorem tblAlnum_ok : ∀ n : Fin 256, tblAlnum n.val = true := by decide +kernel

theorem alnum_lit (c : Nat) (h : c < 0x80) (ha : isAlnum (UInt8.ofNat c) = true) :
    litOK 0 (UInt8.ofNat c) = true ∧ litOK 0x22 (UInt8.ofNat c) = true ∧ litOK 0x27 (UInt8.ofNat c) = true := by
  have := tblAlnum_ok ⟨c, by omega⟩
  simp only [tblAlnum, ha, Bool.not_true, Bool.false_or, Bool.and_eq_true] at this
  exact ⟨this.1.1, this.1.2, this.2⟩

theorem charRef_shape (hex : Bool) (c : Nat) (hc : Xml.charOk c = true) :
    ∃ body, charRef hex c = 0x26 :: (body ++ [0x3b]) ∧ (∀ b ∈ body, b ≠ 0x3b) ∧ Xml.refValue (body.map (·.toNat)) = some c := by
  cases hex with
  | true =>
    refine ⟨0x23 :: 0x78 :: hexUpper 8 c, by simp [charRef], ?_, refValue_hex c hc⟩
    intro b hb
    simp only [List.mem_cons] at hb
    rcases hb with rfl | rfl | hb
    · decide
    · decide
    · exact hexUpper_ne_semi 8 c b hb
  | false =>
    refine ⟨0x23 :: decDigits c, by simp [charRef], ?_, refValue_dec c hc⟩
    intro b hb
    simp only [List.mem_cons] at hb
    rcases hb with rfl | hb
    · decide
    · have := decDigits_digit c b hb
      intro e; subst e; simp at this

theorem stepA_cp (hex : Bool) (q : UInt8) (hq : q = 0x22 ∨ q = 0x27) (c : Nat) (hc : Xml.charOk c = true) :
    StepA q (escCp hex c) (encode c) := by
  unfold escCp
  split
  · rename_i h
    simp only [Bool.and_eq_true, decide_eq_true_eq] at h
    rw [encode_ascii c h.1]
    have := alnum_lit c h.1 h.2
    rcases hq with rfl | rfl
    · exact stepA_lit _ _ this.2.1
    · exact stepA_lit _ _ this.2.2
  · obtain ⟨body, e, h1, h2⟩ := charRef_shape hex c hc
    rw [e]
    exact stepA_ref q (by rcases hq with rfl | rfl <;> decide) body h1 c h2

theorem stepT_cp (hex : Bool) (c : Nat) (hc : Xml.charOk c = true) : StepT (escCp hex c) (encode c) := by
  unfold escCp
  split
  · rename_i h
    simp only [Bool.and_eq_true, decide_eq_true_eq] at h
    rw [encode_ascii c h.1]
    exact stepT_lit 0 _ (alnum_lit c h.1 h.2).1
  · obtain ⟨body, e, h1, h2⟩ := charRef_shape hex c hc
    rw [e]
    exact stepT_ref body h1 c h2

theorem escCp_ne_nil (hex : Bool) (c : Nat) : escCp hex c ≠ [] := by
  unfold escCp charRef
  split
  · simp
  · split <;> simp

theorem flatMap_single (s : Bytes) : s.flatMap (fun b => [b]) = s := by
  induction s with
  | nil => rfl
  | cons b s ih => rw [List.flatMap_cons, ih]; rfl

/-- an attribute value written with quote `q` in escape mode `ch.escMode`, up to its closing quote -/
theorem tokAttrValue_esc (ch : Choices) (q : UInt8) (hq : q = 0x22 ∨ q = 0x27) (s : Bytes) (hs : XChars s)
    (rest : Bytes) (f : Nat) (hf : (esc ch q s).length + 1 ≤ f) :
    tokAttrValue q f (esc ch q s ++ q :: rest) = some (s, rest) := by
  have hq26 : q ≠ 0x26 := by rcases hq with rfl | rfl <;> decide
  have hb := xchars_bytes hs
  by_cases h0 : ch.escMode = 0
  · rw [esc_mode0 ch q s h0] at hf ⊢
    have hp : ∀ b ∈ s, pieceOK q (Xml.escapeByte b) b = true := by
      intro b hx
      have := piece0 b (hb b hx)
      rcases hq with rfl | rfl
      · exact this.2.1
      · exact this.2.2
    have hl := length_le_flatMap Xml.escapeByte s (fun b hx => pieceOK_ne_nil q _ b (hp b hx))
    have := runA q Xml.escapeByte (fun b => [b]) rest s (fun b hx => stepA_piece q hq26 _ b (hp b hx)) f (by omega)
    rw [this, flatMap_single]
  by_cases h1 : ch.escMode = 1
  · rw [esc_mode1 ch q s h1] at hf ⊢
    have hp : ∀ b ∈ s, pieceOK q (esc1 q b) b = true := by
      intro b hx
      have := piece1 b (hb b hx)
      rcases hq with rfl | rfl
      · exact this.2.1
      · exact this.2.2
    have hl := length_le_flatMap (esc1 q) s (fun b hx => pieceOK_ne_nil q _ b (hp b hx))
    have := runA q (esc1 q) (fun b => [b]) rest s (fun b hx => stepA_piece q hq26 _ b (hp b hx)) f (by omega)
    rw [this, flatMap_single]
  · obtain ⟨cps, rfl, hc⟩ := hs
    rw [esc_mode23 ch q cps hc h0 h1] at hf ⊢
    have hl := length_le_flatMap (escCp (ch.escMode = 3)) cps (fun c _ => escCp_ne_nil _ c)
    have := runA q (escCp (ch.escMode = 3)) encode rest cps (fun c hx => stepA_cp _ q hq c (hc c hx)) f (by omega)
    rw [this]; rfl

/-- character data (`q = 0`) up to the next tag -/
theorem tokText_esc (ch : Choices) (s : Bytes) (hs : XChars s) (rest : Bytes) (f : Nat)
    (hf : (esc ch 0 s).length + 2 ≤ f) :
    tokText f (esc ch 0 s ++ 0x3c :: rest) = some (s, 0x3c :: rest) := by
  have hb := xchars_bytes hs
  by_cases h0 : ch.escMode = 0
  · rw [esc_mode0 ch 0 s h0] at hf ⊢
    have hp : ∀ b ∈ s, pieceOK 0 (Xml.escapeByte b) b = true := fun b hx => (piece0 b (hb b hx)).1
    have hl := length_le_flatMap Xml.escapeByte s (fun b hx => pieceOK_ne_nil 0 _ b (hp b hx))
    have := runT Xml.escapeByte (fun b => [b]) rest s (fun b hx => stepT_piece 0 _ b (hp b hx)) f (by omega)
    rw [this, flatMap_single]
  by_cases h1 : ch.escMode = 1
  · rw [esc_mode1 ch 0 s h1] at hf ⊢
    have hp : ∀ b ∈ s, pieceOK 0 (esc1 0 b) b = true := fun b hx => (piece1 b (hb b hx)).1
    have hl := length_le_flatMap (esc1 0) s (fun b hx => pieceOK_ne_nil 0 _ b (hp b hx))
    have := runT (esc1 0) (fun b => [b]) rest s (fun b hx => stepT_piece 0 _ b (hp b hx)) f (by omega)
    rw [this, flatMap_single]
  · obtain ⟨cps, rfl, hc⟩ := hs
    rw [esc_mode23 ch 0 cps hc h0 h1] at hf ⊢
    have hl := length_le_flatMap (escCp (ch.escMode = 3)) cps (fun c _ => escCp_ne_nil _ c)
    have := runT (escCp (ch.escMode = 3)) encode rest cps (fun c hx => stepT_cp _ c (hc c hx)) f (by omega)
    rw [this]; rfl


/-! ### no literal '<' -/

theorem tblLt0 : ∀ n : Fin 256, (Xml.escapeByte (UInt8.ofNat n.val)).all (· != 0x3c) = true := by decide +kernel

theorem escapeByte_no_lt (c : UInt8) : ∀ b ∈ Xml.escapeByte c, b ≠ 0x3c := by
  have := tblLt0 ⟨c.toNat, c.toNat_lt⟩
  simp only [UInt8.ofNat_toNat, List.all_eq_true, bne_iff_ne, ne_eq] at this
  exact this

theorem esc1_no_lt (q c : UInt8) : ∀ b ∈ esc1 q c, b ≠ 0x3c := by
  have e1 : str "&amp;" = [0x26, 0x61, 0x6d, 0x70, 0x3b] := by decide +kernel
  have e2 : str "&lt;" = [0x26, 0x6c, 0x74, 0x3b] := by decide +kernel
  have e3 : str "&quot;" = [0x26, 0x71, 0x75, 0x6f, 0x74, 0x3b] := by decide +kernel
  have e4 : str "&apos;" = [0x26, 0x61, 0x70, 0x6f, 0x73, 0x3b] := by decide +kernel
  have d : ∀ l : Bytes, l.all (· != 0x3c) = true → ∀ b ∈ l, b ≠ 0x3c := by
    intro l h; simpa using h
  unfold esc1
  split
  · rw [e1]; exact d _ (by decide)
  split
  · rw [e2]; exact d _ (by decide)
  split
  · rw [e3]; exact d _ (by decide)
  split
  · rw [e4]; exact d _ (by decide)
  split
  · rename_i h
    simp only [Bool.or_eq_true, beq_iff_eq] at h
    rcases h with (rfl | rfl) | rfl <;> exact d _ (by decide +kernel)
  · rename_i _ h _ _ _
    intro b hb
    simp only [List.mem_singleton] at hb; subst hb
    simpa using h

theorem escCp_no_lt (hex : Bool) (c : Nat) : ∀ b ∈ escCp hex c, b ≠ 0x3c := by
  unfold escCp
  split
  · rename_i h
    simp only [Bool.and_eq_true] at h
    intro b hb
    simp only [List.mem_singleton] at hb; subst hb
    intro e; rw [e] at h; exact absurd h.2 (by decide)
  · intro b hb
    unfold charRef at hb
    cases hex with
    | true =>
      simp only [if_true, List.mem_append, List.mem_cons, List.not_mem_nil, or_false] at hb
      rcases hb with ((rfl | rfl | rfl) | hb) | rfl
      · decide
      · decide
      · decide
      · exact hexUpper_ne_lt 8 c b hb
      · decide
    | false =>
      simp only [Bool.false_eq_true, if_false, List.mem_append, List.mem_cons, List.not_mem_nil, or_false] at hb
      rcases hb with ((rfl | rfl) | hb) | rfl
      · decide
      · decide
      · have := decDigits_digit c b hb
        intro e; subst e; simp at this
      · decide

theorem flatMap_forall {α : Type} (P : α → Bytes) (l : List α) (h : ∀ a ∈ l, ∀ b ∈ P a, b ≠ 0x3c) :
    ∀ b ∈ l.flatMap P, b ≠ 0x3c := by
  intro b hb
  obtain ⟨a, ha, hb⟩ := List.mem_flatMap.1 hb
  exact h a ha b hb

/-- the escaped form never contains '<' (so that `tokText` / the element scanner stop at the right place) -/
theorem esc_no_lt (ch : Choices) (q : UInt8) (s : Bytes) (hs : XChars s) : ∀ b ∈ esc ch q s, b ≠ 0x3c := by
  by_cases h0 : ch.escMode = 0
  · rw [esc_mode0 ch q s h0]
    exact flatMap_forall _ _ (fun c _ => escapeByte_no_lt c)
  by_cases h1 : ch.escMode = 1
  · rw [esc_mode1 ch q s h1]
    exact flatMap_forall _ _ (fun c _ => esc1_no_lt q c)
  · obtain ⟨cps, rfl, hc⟩ := hs
    rw [esc_mode23 ch q cps hc h0 h1]
    exact flatMap_forall _ _ (fun c _ => escCp_no_lt _ c)

end Osmium.XmlFmt.XmlSpec
