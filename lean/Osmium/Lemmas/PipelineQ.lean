/-
Pipeline ⊇ QueueSM: every pipeline step leaves a Reader queue alone or is a step of the queue
machine of C19, so both Reader queues of ANY pipeline run are runs of `QueueSM.machine`.
(Stable base file of the Pipeline lemma files.)
-/
import Osmium.Lemmas.PipelineDefs

namespace Osmium.Pipeline.Q

open Osmium.Mon Osmium.Pipeline

variable {α : Type} [DecidableEq α]

omit [DecidableEq α] in
@[simp] theorem afterPop_inq (s : State α) (l : List (List α)) : (afterPop s l).inq = s.inq := by
  unfold afterPop; split <;> (try split) <;> rfl
omit [DecidableEq α] in
@[simp] theorem afterPop_outq (s : State α) (l : List (List α)) : (afterPop s l).outq = s.outq := by
  unfold afterPop; split <;> (try split) <;> rfl
omit [DecidableEq α] in
@[simp] theorem afterClose_inq (s : State α) (k : CK) : (afterClose s k).inq = s.inq := by
  unfold afterClose; split <;> rfl
omit [DecidableEq α] in
@[simp] theorem afterClose_outq (s : State α) (k : CK) : (afterClose s k).outq = s.outq := by
  unfold afterClose; split <;> rfl

set_option maxHeartbeats 1600000 in
theorem step_inq (c : Cfg α) (s s' : State α) (e : Ev α) (h : step? c s e = some s') :
    s'.inq = s.inq ∨ ∃ qe, QueueSM.step? c.inqC s.inq qe = some s'.inq := by
  cases e with
  | qi e =>
    right
    refine ⟨e, ?_⟩
    cases e <;> simp only [step?] at h <;> (repeat' split at h) <;>
      simp only [Option.map_eq_some_iff, reduceCtorEq] at h <;>
      (try (obtain ⟨a, ha, rfl⟩ := h; first | exact ha | (split <;> exact ha)))
  | qo e =>
    left
    cases e <;> simp only [step?] at h <;> (repeat' split at h) <;>
      simp only [Option.map_eq_some_iff, reduceCtorEq] at h <;>
      (try (obtain ⟨a, ha, rfl⟩ := h; first | rfl | (split <;> rfl)))
  | _ =>
    left
    simp only [step?] at h
    repeat' split at h
    all_goals (simp only [Option.some.injEq, reduceCtorEq] at h)
    all_goals (try subst h)
    all_goals (first | rfl | simp)

set_option maxHeartbeats 1600000 in
theorem step_outq (c : Cfg α) (s s' : State α) (e : Ev α) (h : step? c s e = some s') :
    s'.outq = s.outq ∨ ∃ qe, QueueSM.step? c.outqC s.outq qe = some s'.outq := by
  cases e with
  | qo e =>
    right
    refine ⟨e, ?_⟩
    cases e <;> simp only [step?] at h <;> (repeat' split at h) <;>
      simp only [Option.map_eq_some_iff, reduceCtorEq] at h <;>
      (try (obtain ⟨a, ha, rfl⟩ := h; first | exact ha | (split <;> exact ha)))
  | qi e =>
    left
    cases e <;> simp only [step?] at h <;> (repeat' split at h) <;>
      simp only [Option.map_eq_some_iff, reduceCtorEq] at h <;>
      (try (obtain ⟨a, ha, rfl⟩ := h; first | rfl | (split <;> rfl)))
  | _ =>
    left
    simp only [step?] at h
    repeat' split at h
    all_goals (simp only [Option.some.injEq, reduceCtorEq] at h)
    all_goals (try subst h)
    all_goals (first | rfl | simp)

/-- The input queue of ANY pipeline run is a run of the queue machine of C19. -/
theorem reachable_inq (c : Cfg α) (s : State α) (h : (machine c).Reachable s) :
    (QueueSM.machine Nat c.inqC).Reachable s.inq := by
  induction h with
  | init => exact .init
  | step hr hst ih =>
    rcases step_inq c _ _ _ hst with h | ⟨qe, h⟩
    · rw [h]; exact ih
    · exact .step ih h

/-- The osmdata queue of ANY pipeline run is a run of the queue machine of C19. -/
theorem reachable_outq (c : Cfg α) (s : State α) (h : (machine c).Reachable s) :
    (QueueSM.machine Nat c.outqC).Reachable s.outq := by
  induction h with
  | init => exact .init
  | step hr hst ih =>
    rcases step_outq c _ _ _ hst with h | ⟨qe, h⟩
    · rw [h]; exact ih
    · exact .step ih h

end Osmium.Pipeline.Q
