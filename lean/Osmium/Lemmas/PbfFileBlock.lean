/-
One finished block: the PrimitiveBlock message `SerializeBlob` builds from a block that satisfies `BlockInv`
decodes (both passes of `PBFPrimitiveBlockDecoder`) to the projected objects — plain and dense groups.
-/
import Osmium.Lemmas.PbfFileInv

namespace Osmium.Pbf

open Osmium.Wire Osmium.Osm Osmium.PbfMsg
open Osmium.StringTable (Table lookup)

theorem encodeField_length_pos (f : Field) : 1 ≤ (encodeField f).length := by
  have := encodeField_ne_nil f
  cases h : encodeField f with
  | nil => exact absurd h this
  | cons _ _ => simp

theorem encodeFields_length_ge : ∀ (fs : List Field), fs.length ≤ (encodeFields fs).length
  | [] => by simp [encodeFields]
  | f :: fs => by
    have := encodeFields_length_ge fs
    have := encodeField_length_pos f
    simp only [encodeFields, List.flatMap_cons, List.length_append, List.length_cons] at *
    omega

/-- both passes of the block decoder over "string table, one dense group" -/
theorem block_decode_dense (o : Opts) (strs : List Bytes) (r : DenseRow) (rs : List DenseRow) (nodes : List (Meta × Location))
    (hs : ∀ s ∈ strs, StrOk s) (hrep : RowsRep o strs (r :: rs) nodes)
    (hlen : (encodeFields (encDense o (r :: rs))).length < 2 ^ 32) :
    decodeBlock {} [fBytes 1 (encodeFields (strs.map (fBytes 1))),
      fBytes 2 (encodeFields [fBytes 2 (encodeFields (encDense o (r :: rs)))])] =
      some (nodes.map fun n => projNode o n.1 n.2) := by
  have hwf : ∀ f ∈ [fBytes 2 (encodeFields (encDense o (r :: rs)))], f.WF := by
    intro f hf
    simp only [List.mem_cons, List.not_mem_nil, or_false] at hf
    subst hf
    exact wf_bytes 2 _ (by decide) (by decide) hlen
  have hmeta : decodeMsg blockMetaStep {} [fBytes 1 (encodeFields (strs.map (fBytes 1))),
      fBytes 2 (encodeFields [fBytes 2 (encodeFields (encDense o (r :: rs)))])] = some { strings := strs } := by
    simp [decodeMsg, blockMetaStep, fBytes, decodeStringTable_enc strs hs]
  have hd := dense_bytes_roundtrip o strs r rs nodes hrep hlen
  unfold decodeBlock
  rw [hmeta]
  simp only [decodeMsg, List.foldlM_cons, List.foldlM_nil, blockDataStep, fBytes, bind, Option.bind, pure]
  unfold withFields
  have hr := readFields_encodeFields _ hwf
  simp only [fBytes] at hr hd
  rw [hr]
  simp only [List.foldlM_cons, List.foldlM_nil, groupStep, bind, Option.bind, pure]
  simp [hd]

theorem flatten_map_encodeField (k : Nat) (pls : List Bytes) :
    (pls.map (fun pl => encodeField (fBytes k pl))).flatten = encodeFields (pls.map (fBytes k)) := by
  simp [encodeFields, List.flatMap_def, List.map_map, Function.comp_def]

/-- the PrimitiveBlock message of a non-empty block that passed the 32 MiB guard decodes to the projections of
    the objects it holds -/
theorem blockInv_message_decode (o : Opts) (b : Block) (dec : List Object) (hb : BlockInv o b dec) (hc : b.count ≠ 0)
    (hlen : (b.message o).length ≤ PbfFraming.maxUncompressedBlobSize) :
    withFields (b.message o) (decodeBlock {}) = some dec := by
  have h32 : PbfFraming.maxUncompressedBlobSize < 2 ^ 32 := by decide
  have hmsg : b.message o = encodeFields [fBytes 1 (encodeFields (b.table.strings.map (fBytes 1))), fBytes 2 (b.groupData o)] := rfl
  rw [hmsg] at hlen
  have hst : (encodeFields (b.table.strings.map (fBytes 1))).length ≤
      (encodeFields [fBytes 1 (encodeFields (b.table.strings.map (fBytes 1))), fBytes 2 (b.groupData o)]).length :=
    ld_payload_le (fBytes 1 (encodeFields (b.table.strings.map (fBytes 1)))) _ (List.mem_cons_self ..) rfl
  have hgd : (b.groupData o).length ≤
      (encodeFields [fBytes 1 (encodeFields (b.table.strings.map (fBytes 1))), fBytes 2 (b.groupData o)]).length :=
    ld_payload_le (fBytes 2 (b.groupData o)) _ (List.mem_cons_of_mem _ (List.mem_cons_self ..)) rfl
  have hwf : ∀ f ∈ [fBytes 1 (encodeFields (b.table.strings.map (fBytes 1))), fBytes 2 (b.groupData o)], f.WF := by
    intro f hf
    simp only [List.mem_cons, List.not_mem_nil, or_false] at hf
    rcases hf with rfl | rfl
    · exact wf_bytes 1 _ (by decide) (by decide) (by omega)
    · exact wf_bytes 2 _ (by decide) (by decide) (by omega)
  have hsz : b.table.size ≤ 2 ^ 31 := by
    have h1 := encodeFields_length_ge (b.table.strings.map (fBytes 1))
    have h2 : b.table.size = (b.table.strings.map (fBytes 1)).length := by simp [Table.size, Table.strings]
    have : PbfFraming.maxUncompressedBlobSize ≤ 2 ^ 31 := by decide
    omega
  have hstrs : ∀ s ∈ b.table.strings, StrOk s := by
    intro s hs
    simp only [Table.strings, List.mem_cons] at hs
    rcases hs with rfl | hs
    · exact strOk_nil
    · exact hb.tab s hs
  rw [hmsg]
  unfold withFields
  rw [readFields_encodeFields _ hwf]
  simp only
  by_cases hk : b.kind = 2
  · obtain ⟨nodes, hnodes, hrl, hrep⟩ := hb.dense hk
    have hrep' := hrep b.table.strings (Ext.refl _) hsz
    have hgd2 : b.groupData o = encodeFields [fBytes 2 (encodeFields (encDense o b.rows.reverse))] := by
      simp [Block.groupData, hk, encodeFields]
    cases hrows : b.rows.reverse with
    | nil =>
      have h0 : b.rows.length = 0 := by
        have := congrArg List.length hrows; simpa using this
      have : dec.length = 0 := by rw [hnodes, List.length_map, ← hrl, h0]
      exact absurd (hb.count.trans this) hc
    | cons r rs =>
      rw [hrows] at hrep' hgd2
      have hl : (encodeFields (encDense o (r :: rs))).length < 2 ^ 32 := by
        have : (encodeFields (encDense o (r :: rs))).length ≤
            (encodeFields [fBytes 2 (encodeFields (encDense o (r :: rs)))]).length :=
          ld_payload_le (fBytes 2 (encodeFields (encDense o (r :: rs)))) _ (List.mem_cons_self ..) rfl
        rw [← hgd2] at this
        omega
      rw [hgd2, hnodes]
      exact block_decode_dense o b.table.strings r rs nodes hstrs hrep' hl
  · obtain ⟨pls, hpls, hdec⟩ := hb.plain hk
    have hk' : b.kind = 1 ∨ b.kind = 3 ∨ b.kind = 4 := by
      rcases hb.kind with h | h | h | h
      · exact Or.inl h
      · exact absurd h hk
      · exact Or.inr (Or.inl h)
      · exact Or.inr (Or.inr h)
    have hk2 : (b.kind == 2) = false := by simpa using hk
    have hgd2 : b.groupData o = encodeFields (pls.map (fBytes b.kind)) := by
      simp only [Block.groupData, hk2, Bool.false_eq_true, ↓reduceIte, hpls]
      exact flatten_map_encodeField b.kind pls
    have hpl : ∀ pl ∈ pls, pl.length < 2 ^ 32 := by
      intro pl hp
      have : pl.length ≤ (b.groupData o).length := by
        rw [hgd2]
        exact ld_payload_le (fBytes b.kind pl) _ (List.mem_map.mpr ⟨pl, hp, rfl⟩) rfl
      omega
    rw [hgd2]
    exact block_decode b.kind hk' b.table.strings pls dec hstrs (hdec _ (Ext.refl _) hsz hpl) hpl

end Osmium.Pbf
