/-
Lemmas about condition-variable wait sets (Model/Mon.lean): membership and the counts of
notified / un-notified waiters under wait, remove, notify_one (mark) and notify_all.
-/
import Osmium.Model.Mon

namespace Osmium.Mon.CondVar

/-- the threads in the wait set -/
def keys (cv : CondVar) : List Tid := cv.map (fun w => w.1)

@[simp] theorem keys_wait (cv : CondVar) (t : Tid) : (cv.wait t).keys = cv.keys ++ [t] := by
  simp [keys, wait]

@[simp] theorem keys_notifyAll (cv : CondVar) : cv.notifyAll.keys = cv.keys := by
  simp [keys, notifyAll, Function.comp_def]

@[simp] theorem keys_mark (cv : CondVar) (w : Tid) : (cv.mark w).keys = cv.keys := by
  simp only [keys, mark, List.map_map]
  apply List.map_congr_left
  intro a _
  simp only [Function.comp]
  split <;> simp

theorem keys_notifyOne (cv : CondVar) (c : Option Tid) : (cv.notifyOne c).keys = cv.keys := by
  cases c <;> simp [notifyOne]

theorem mem_keys_remove (cv : CondVar) (t u : Tid) : u ∈ (cv.remove t).keys ↔ u ∈ cv.keys ∧ u ≠ t := by
  simp only [keys, remove, List.mem_map, List.mem_filter, bne_iff_ne, ne_eq]
  constructor
  · rintro ⟨a, ⟨ha, hne⟩, rfl⟩; exact ⟨⟨a, ha, rfl⟩, hne⟩
  · rintro ⟨⟨a, ha, rfl⟩, hne⟩; exact ⟨a, ⟨ha, hne⟩, rfl⟩

theorem nodup_keys_remove (cv : CondVar) (t : Tid) (h : cv.keys.Nodup) : (cv.remove t).keys.Nodup := by
  simp only [keys, remove] at *
  exact (List.filter_sublist.map _).nodup h

theorem waiting_iff (cv : CondVar) (t : Tid) : cv.waiting t = true ↔ t ∈ cv.keys := by
  simp only [waiting, List.any_eq_true, beq_iff_eq, keys, List.mem_map]

theorem notified_iff (cv : CondVar) (t : Tid) : cv.notified t = true ↔ (t, true) ∈ cv := by
  simp [notified]

/-! counts -/

@[simp] theorem numNotified_wait (cv : CondVar) (t : Tid) : (cv.wait t).numNotified = cv.numNotified := by
  simp [numNotified, wait, List.countP_append]

@[simp] theorem numUnnotified_notifyAll (cv : CondVar) : cv.notifyAll.numUnnotified = 0 := by
  simp [numUnnotified, notifyAll, List.countP_eq_zero]

theorem numUnnotified_remove_le (cv : CondVar) (t : Tid) : (cv.remove t).numUnnotified ≤ cv.numUnnotified := by
  simp only [numUnnotified, remove]
  exact List.Sublist.countP_le List.filter_sublist

theorem numNotified_remove_ge (cv : CondVar) (t : Tid) (h : cv.keys.Nodup) :
    cv.numNotified ≤ (cv.remove t).numNotified + 1 := by
  induction cv with
  | nil => simp [numNotified, remove]
  | cons a cv ih =>
    simp only [keys, List.map_cons, List.nodup_cons] at h
    have ih := ih h.2
    unfold numNotified remove at *
    by_cases hat : a.1 = t
    · have hnone : cv.filter (fun w => w.1 != t) = cv := by
        rw [List.filter_eq_self]
        intro b hb
        simp only [bne_iff_ne, ne_eq]
        intro hbt
        exact h.1 (List.mem_map.mpr ⟨b, hb, by rw [hbt, hat]⟩)
      have hf : (a :: cv).filter (fun w => w.1 != t) = cv := by
        rw [List.filter_cons_of_neg (by simp [hat]), hnone]
      rw [hf, List.countP_cons]
      split <;> omega
    · have hf : (a :: cv).filter (fun w => w.1 != t) = a :: cv.filter (fun w => w.1 != t) := by
        rw [List.filter_cons_of_pos (by simp [hat])]
      rw [hf, List.countP_cons, List.countP_cons]
      omega

theorem mark_cons (a : Tid × Bool) (cv : CondVar) (w : Tid) :
    mark (a :: cv) w = (if a.1 = w then (a.1, true) else a) :: mark cv w := by
  simp [mark]

theorem numUnnotified_mark_le (cv : CondVar) (w : Tid) : (cv.mark w).numUnnotified ≤ cv.numUnnotified := by
  induction cv with
  | nil => simp [numUnnotified, mark]
  | cons a cv ih =>
    rw [mark_cons]
    unfold numUnnotified at *
    rw [List.countP_cons, List.countP_cons]
    by_cases h : a.1 = w
    · simp only [h, if_true, Bool.not_true, Bool.false_eq_true, if_false]
      omega
    · simp only [h, if_false]
      split <;> omega

theorem numNotified_mark_mono (cv : CondVar) (w : Tid) : cv.numNotified ≤ (cv.mark w).numNotified := by
  induction cv with
  | nil => simp [numNotified, mark]
  | cons a cv ih =>
    rw [mark_cons]
    unfold numNotified at *
    rw [List.countP_cons, List.countP_cons]
    by_cases h : a.1 = w
    · simp only [h, if_true]
      split <;> omega
    · simp only [h, if_false]
      omega

theorem numNotified_mark_ge (cv : CondVar) (w : Tid) (h : (w, false) ∈ cv) :
    cv.numNotified + 1 ≤ (cv.mark w).numNotified := by
  induction cv with
  | nil => simp at h
  | cons a cv ih =>
    have mono := numNotified_mark_mono cv w
    rw [mark_cons]
    unfold numNotified at *
    rw [List.countP_cons, List.countP_cons]
    simp only [List.mem_cons] at h
    rcases h with h | h
    · subst h
      simp
      omega
    · have := ih h
      by_cases hb : a.1 = w
      · simp only [hb, if_true]
        split <;> omega
      · simp only [hb, if_false]
        omega

theorem numUnnotified_notifyOne_le (cv : CondVar) (c : Option Tid) :
    (cv.notifyOne c).numUnnotified ≤ cv.numUnnotified := by
  cases c with
  | none => simp [notifyOne]
  | some w => exact numUnnotified_mark_le cv w

theorem numUnnotified_eq_zero_iff (cv : CondVar) : cv.numUnnotified = 0 ↔ ∀ w ∈ cv, w.2 = true := by
  simp [numUnnotified, List.countP_eq_zero]

theorem exists_notified_of_pos (cv : CondVar) (h : 0 < cv.numNotified) : ∃ w, (w, true) ∈ cv := by
  simp only [numNotified, List.countP_pos_iff] at h
  obtain ⟨a, ha, hb⟩ := h
  exact ⟨a.1, by rw [← hb]; exact ha⟩

theorem all_or_unnotified (cv : CondVar) : cv.all (fun w => w.2) = true ∨ ∃ w, (w, false) ∈ cv := by
  by_cases h : cv.all (fun w => w.2) = true
  · exact .inl h
  · right
    simp only [List.all_eq_true, Classical.not_forall] at h
    obtain ⟨a, ha, hb⟩ := h
    refine ⟨a.1, ?_⟩
    have : a.2 = false := by simpa using hb
    rw [← this]; exact ha

end Osmium.Mon.CondVar
