/-
Direct-fd configuration, part 4: the simulation theorem `Direct.sim` and deadlock-freedom of the
direct-fd machine `Direct.no_stuck_state` (see PipelineDirect.lean).
-/
import Osmium.Lemmas.PipelineDirect3

set_option linter.unusedSimpArgs false
set_option linter.unusedVariables false
set_option linter.unnecessarySeqFocus false
set_option linter.unusedTactic false
set_option linter.unreachableTactic false

namespace Osmium.Pipeline

open Osmium.Mon

variable {α : Type} [DecidableEq α]

namespace Direct

/-- one step of the direct-fd machine is matched by the queue-fed machine: a step of the read thread by
    no step, every other step by the same event -/
theorem sim_step (c : Cfg α) (hd : IsDirect c) (sd sd' : State α) (e : Ev α) (hst : step? c sd e = some sd')
    (hI : DInv sd) (s : State α) (hs : Sim sd s) (hreach : (machine (fed c)).Reachable s) :
    ∃ s', (machine (fed c)).Reachable s' ∧ Sim sd' s' ∧
      ((isR e = true ∧ s' = s) ∨ (isR e = false ∧ (machine (fed c)).Step s e s')) := by
  have hrel := hs.rel
  have heq := hs.eq_emb
  cases hr : isR e with
  | true =>
    obtain ⟨h1, h2⟩ := r_step c hd sd sd' e hst hr hI s.inq s.fut s.want s.readsAtClose hrel
    refine ⟨s, hreach, ?_, .inl ⟨rfl, rfl⟩⟩
    have := sim_emb (ra := s.readsAtClose) h2
    rw [h1, ← heq] at this
    exact this
  | false =>
    have hodd1 : ∀ a, sd.cpc = .readGot a → a % 2 = 1 := fun a ha =>
      (Live.readGot_odd (fed c) s hreach a (by rw [hs.cpc]; exact ha)).1
    have hodd2 : ∀ t id, sd.wpc t = some id → id % 2 = 1 := fun t id ht =>
      ((Live.n_work (fed c) s hreach).2 t id (by rw [hs.wpc]; exact ht)).1
    have hsome : (step? c sd e).isSome = true := by simp [hst]
    have hen := p_en c sd e hsome hr hI s.inq s.fut s.want s.readsAtClose hrel hodd1
    obtain ⟨s', hs'⟩ := Option.isSome_iff_exists.mp hen
    have hstep : (machine (fed c)).Step s e s' := by
      show step? (fed c) s e = some s'
      rw [heq]; exact hs'
    refine ⟨s', .step hreach hstep, ?_, .inr ⟨rfl, hstep⟩⟩
    cases e with
    | qi qe => exact p_rel_i c sd sd' s' qe _ _ _ _ hst hs' hr hI hrel
    | qo qe => exact p_rel_o c sd sd' s' qe _ _ _ _ hst hs' hI hrel
    | _ => exact p_rel_a c sd sd' s' _ _ _ _ _ hst hs' (by intro qe; simp) hr hI hrel hodd2

omit [DecidableEq α] in
theorem dinv_init (c : Cfg α) : DInv (initD c) :=
  ⟨rfl, rfl, fun id v k h => by rcases h with h | h <;> cases h⟩

/-- `Direct.sim`: every reachable state of the direct-fd machine corresponds to a reachable state of the
    queue-fed machine `machine (fed c)` -/
theorem sim (c : Cfg α) (hd : IsDirect c) : ∀ sd, (machineD c).Reachable sd →
    DInv sd ∧ ∃ s, (machine (fed c)).Reachable s ∧ Sim sd s := by
  intro sd h
  induction h with
  | init =>
    obtain ⟨s0, h1, h2⟩ := start c hd
    exact ⟨dinv_init c, s0, h1, h2⟩
  | step hr hst ih =>
    obtain ⟨hI, s, hs1, hs2⟩ := ih
    obtain ⟨s', h1, h2, _⟩ := sim_step c hd _ _ _ hst hI s hs2 hs1
    exact ⟨dinv_step c _ _ _ hst hI, s', h1, h2⟩

end Direct

end Osmium.Pipeline
