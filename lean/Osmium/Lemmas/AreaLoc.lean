/-
C10 stage A — `create_locations_list` and `find_split_locations` (basic_assembler.hpp 512-528,
581-607) with the slocations `{item, reverse}` the code really sorts and scans.

* `locationsList` (the model of the sorted `m_locations`) is a permutation of all
  `(item, reverse)` pairs, sorted by location, ties in the order (item, reverse): that is what
  every stable sort produces, so `std::stable_sort` produces it as well.
* its locations are the list `endpointList` of AreaSplit.lean (the sorted list of all segment
  end points), so the pre-check model `openAndSplit` and the slocation-level scan agree.
* the scan for ALL sorted location lists (odd runs included): the reported open ends are the
  locations of odd multiplicity, `m_split_locations` is exactly the list of the distinct locations
  of multiplicity ≥ 4, in ascending order.
-/
import Osmium.Lemmas.AreaSplit

namespace Osmium.Area

/-! ## all slocations -/

theorem segAt_eq (segs : List Seg) (i : Nat) (h : i < segs.length) : segAt segs i = segs[i] := by
  simp [segAt, List.getD_eq_getElem?_getD, h]

theorem endpoints_append (l₁ l₂ : List Seg) : endpoints (l₁ ++ l₂) = endpoints l₁ ++ endpoints l₂ := by
  simp [endpoints, List.flatMap_append]

theorem allSLocs_map_loc_take (segs : List Seg) (k : Nat) (hk : k ≤ segs.length) :
    (allSLocs k).map (SLoc.loc segs) = endpoints (segs.take k) := by
  induction k with
  | zero => simp [allSLocs, endpoints]
  | succ k ih =>
    have hk' : k < segs.length := by omega
    rw [allSLocs, List.map_append, ih (by omega), List.take_add_one, endpoints_append]
    congr 1
    simp [SLoc.loc, segAt_eq segs k hk', endpoints, hk']

/-- the locations of all slocations are the end points of all segments, in list order -/
theorem allSLocs_map_loc (segs : List Seg) :
    (allSLocs segs.length).map (SLoc.loc segs) = endpoints segs := by
  rw [allSLocs_map_loc_take segs segs.length (Nat.le_refl _), List.take_length]

theorem mem_allSLocs (n : Nat) (x : SLoc) : x ∈ allSLocs n ↔ x.item < n := by
  induction n with
  | zero => simp [allSLocs]
  | succ n ih =>
    rw [allSLocs, List.mem_append, ih]
    obtain ⟨i, r⟩ := x
    simp only [List.mem_cons, SLoc.mk.injEq, List.not_mem_nil, or_false]
    constructor
    · rintro (h | ⟨h, _⟩ | ⟨h, _⟩) <;> omega
    · intro h
      by_cases hi : i = n
      · cases r <;> simp [hi]
      · left; omega

theorem allSLocs_nodup (n : Nat) : (allSLocs n).Nodup := by
  induction n with
  | zero => simp [allSLocs]
  | succ n ih =>
    rw [allSLocs, List.nodup_append]
    refine ⟨ih, by simp, ?_⟩
    intro a ha b hb
    rw [mem_allSLocs] at ha
    rintro rfl
    simp only [List.mem_cons, List.not_mem_nil, or_false] at hb
    rcases hb with rfl | rfl <;> simp at ha

/-! ## the sorted list -/

theorem insertSLoc_perm (segs : List Seg) (x : SLoc) (l : List SLoc) :
    (insertSLoc segs x l).Perm (x :: l) := by
  induction l with
  | nil => simp [insertSLoc]
  | cons h t ih =>
    simp only [insertSLoc]
    split
    · exact ((List.Perm.cons h ih).trans (List.Perm.swap x h t))
    · exact List.Perm.refl _

theorem foldr_insertSLoc_perm (segs : List Seg) (l : List SLoc) :
    (l.foldr (insertSLoc segs) []).Perm l := by
  induction l with
  | nil => simp
  | cons a t ih =>
    simp only [List.foldr_cons]
    exact (insertSLoc_perm segs a _).trans (List.Perm.cons a ih)

/-- `m_locations` holds every (item, reverse) pair exactly once -/
theorem locationsList_perm (segs : List Seg) :
    (locationsList segs).Perm (allSLocs segs.length) :=
  foldr_insertSLoc_perm segs _

theorem locationsList_nodup (segs : List Seg) : (locationsList segs).Nodup :=
  (locationsList_perm segs).nodup_iff.mpr (allSLocs_nodup _)

theorem mem_locationsList (segs : List Seg) (x : SLoc) :
    x ∈ locationsList segs ↔ x.item < segs.length := by
  rw [(locationsList_perm segs).mem_iff, mem_allSLocs]

/-- every slocation in `m_locations` refers to an existing segment -/
theorem locations_items_lt (segs : List Seg) : ∀ x ∈ locationsList segs, x.item < segs.length :=
  fun x hx => (mem_locationsList segs x).mp hx

/-- the order (item, reverse) in which `create_locations_list` pushes the slocations -/
def SLoc.before (a b : SLoc) : Prop := a.item < b.item ∨ (a.item = b.item ∧ a.reverse = false ∧ b.reverse = true)

/-- sorted by location, equal locations in push order: the result of ANY stable sort -/
def StableSorted (segs : List Seg) (l : List SLoc) : Prop :=
  l.Pairwise fun a b => (a.loc segs).lt (b.loc segs) = true ∨ (a.loc segs = b.loc segs ∧ a.before b)

theorem allSLocs_pairwise_before (n : Nat) : (allSLocs n).Pairwise SLoc.before := by
  induction n with
  | zero => simp [allSLocs]
  | succ n ih =>
    rw [allSLocs, List.pairwise_append]
    refine ⟨ih, by simp [SLoc.before], ?_⟩
    intro a ha b hb
    rw [mem_allSLocs] at ha
    simp only [List.mem_cons, List.not_mem_nil, or_false] at hb
    rcases hb with rfl | rfl <;> exact Or.inl ha

theorem insertSLoc_stable (segs : List Seg) (x : SLoc) (l : List SLoc)
    (hx : ∀ y ∈ l, x.before y) (hs : StableSorted segs l) : StableSorted segs (insertSLoc segs x l) := by
  induction l with
  | nil => simp [insertSLoc, StableSorted]
  | cons h t ih =>
    unfold StableSorted at hs ⊢
    rw [List.pairwise_cons] at hs
    simp only [insertSLoc]
    split
    · next hlt =>
      rw [List.pairwise_cons]
      refine ⟨?_, ih (fun y hy => hx y (List.mem_cons_of_mem _ hy)) hs.2⟩
      intro b hb
      rcases List.mem_cons.mp ((insertSLoc_perm segs x t).mem_iff.mp hb) with rfl | hb
      · exact Or.inl hlt
      · exact hs.1 b hb
    · next hlt =>
      have hlt' : (h.loc segs).lt (x.loc segs) = false := by simpa using hlt
      rw [List.pairwise_cons]
      refine ⟨?_, List.pairwise_cons.mpr hs⟩
      -- x ≤ h in location order, and h ≤ every later element
      have hxh : (x.loc segs).lt (h.loc segs) = true ∨ x.loc segs = h.loc segs := by
        cases hc : (x.loc segs).lt (h.loc segs) with
        | true => exact Or.inl rfl
        | false => exact Or.inr (vec_lt_total _ _ hc hlt')
      intro b hb
      rcases List.mem_cons.mp hb with rfl | hb
      · rcases hxh with h1 | h1
        · exact Or.inl h1
        · exact Or.inr ⟨h1, hx _ List.mem_cons_self⟩
      · rcases hs.1 b hb with h2 | ⟨h2, _⟩
        · rcases hxh with h1 | h1
          · exact Or.inl (vec_lt_trans _ _ _ h1 h2)
          · rw [h1]; exact Or.inl h2
        · rcases hxh with h1 | h1
          · rw [← h2]; exact Or.inl h1
          · exact Or.inr ⟨h1.trans h2, hx b (List.mem_cons_of_mem _ hb)⟩

theorem foldr_insertSLoc_stable (segs : List Seg) (l : List SLoc) (hl : l.Pairwise SLoc.before) :
    StableSorted segs (l.foldr (insertSLoc segs) []) := by
  induction l with
  | nil => simp [StableSorted]
  | cons a t ih =>
    rw [List.pairwise_cons] at hl
    simp only [List.foldr_cons]
    exact insertSLoc_stable segs a _
      (fun y hy => hl.1 y ((foldr_insertSLoc_perm segs t).mem_iff.mp hy)) (ih hl.2)

/-- `m_locations` is sorted by location and equal locations keep their push order — the
    specification of `std::stable_sort` -/
theorem locations_stable (segs : List Seg) : StableSorted segs (locationsList segs) :=
  foldr_insertSLoc_stable segs _ (allSLocs_pairwise_before _)

/-- sorted by location (what `std::lower_bound` / `std::equal_range` need) -/
abbrev SortedLoc (segs : List Seg) (l : List SLoc) : Prop :=
  l.Pairwise fun a b => (b.loc segs).lt (a.loc segs) = false

theorem locations_sorted (segs : List Seg) : SortedLoc segs (locationsList segs) := by
  refine List.Pairwise.imp ?_ (locations_stable segs)
  intro a b h
  rcases h with h | ⟨h, _⟩
  · exact vec_lt_asymm _ _ h
  · rw [h]; exact vec_lt_irrefl _

/-- `StableSorted` determines the list: two stable-sorted permutations are equal -/
theorem stableSorted_unique (segs : List Seg) (l l' : List SLoc) (hp : l.Perm l')
    (hs : StableSorted segs l) (hs' : StableSorted segs l') : l = l' := by
  induction l generalizing l' with
  | nil => exact (List.Perm.nil_eq hp)
  | cons a t ih =>
    cases l' with
    | nil => exact absurd hp.symm (List.Perm.nil_eq · |> fun e => by cases e)
    | cons b t' =>
      unfold StableSorted at hs hs'
      rw [List.pairwise_cons] at hs hs'
      have hbm : b ∈ a :: t := hp.mem_iff.mpr List.mem_cons_self
      have hab : a = b := by
        rcases List.mem_cons.mp hbm with e | hbt
        · exact e.symm
        · have ham : a ∈ b :: t' := hp.mem_iff.mp List.mem_cons_self
          rcases List.mem_cons.mp ham with e | hat'
          · exact e
          · exfalso
            have h1 := hs.1 b hbt
            have h2 := hs'.1 a hat'
            rcases h1 with h1 | ⟨h1, h1'⟩ <;> rcases h2 with h2 | ⟨h2, h2'⟩
            · rw [vec_lt_asymm _ _ h1] at h2; exact absurd h2 (by decide)
            · rw [h2, vec_lt_irrefl] at h1; exact absurd h1 (by decide)
            · rw [h1, vec_lt_irrefl] at h2; exact absurd h2 (by decide)
            · rcases h1' with h | ⟨h, hr1, _⟩ <;> rcases h2' with g | ⟨g, _, gr2⟩
              · omega
              · omega
              · omega
              · rw [hr1] at gr2; cases gr2
      subst hab
      rw [ih t' (List.Perm.cons_inv hp) hs.2 hs'.2]

/-! ## the locations of `m_locations` are the sorted end point list of the pre-check model -/

theorem sortedVec_unique (l l' : List Vec) (hp : l.Perm l') (hs : SortedVec l) (hs' : SortedVec l') :
    l = l' := by
  induction l generalizing l' with
  | nil => exact (List.Perm.nil_eq hp)
  | cons a t ih =>
    cases l' with
    | nil => exact absurd hp.symm (List.Perm.nil_eq · |> fun e => by cases e)
    | cons b t' =>
      unfold SortedVec at hs hs'
      rw [List.pairwise_cons] at hs hs'
      have hbm : b ∈ a :: t := hp.mem_iff.mpr List.mem_cons_self
      have hab : a = b := by
        rcases List.mem_cons.mp hbm with e | hbt
        · exact e.symm
        · have ham : a ∈ b :: t' := hp.mem_iff.mp List.mem_cons_self
          rcases List.mem_cons.mp ham with e | hat'
          · exact e
          · exact vec_lt_total a b (hs'.1 a hat') (hs.1 b hbt)
      subst hab
      rw [ih t' (List.Perm.cons_inv hp) hs.2 hs'.2]

theorem locationsList_map_loc (segs : List Seg) :
    (locationsList segs).map (SLoc.loc segs) = endpointList segs := by
  apply sortedVec_unique
  · refine (List.Perm.map _ (locationsList_perm segs)).trans ?_
    rw [allSLocs_map_loc]
    exact (endpointList_perm segs).symm
  · exact List.pairwise_map.mpr (locations_sorted segs)
  · exact endpointList_sorted segs

/-- the number of slocations at `v` is the degree of `v` -/
theorem count_loc_eq (segs : List Seg) (v : Vec) :
    (locationsList segs).countP (fun x => x.loc segs == v) = (endpoints segs).count v := by
  rw [← (endpointList_perm segs).count_eq, ← locationsList_map_loc, List.count_eq_countP, List.countP_map]
  rfl

/-! ## the scan on locations, with lists as results -/

/-- `findSplitScan` seen through the locations: (locations reported as open, split locations in
    push order) -/
def vscan : Vec → List Vec → List Vec → List Vec × List Vec
  | _, splits, [] => ([], splits)
  | _, splits, [a] => ([a], splits)
  | prev, splits, a :: b :: rest =>
    if a != b then
      ((vscan a splits (b :: rest)).1.cons a, (vscan a splits (b :: rest)).2)
    else
      vscan a (if a == prev && (splits.isEmpty || splits.getLast? != some prev)
               then splits ++ [prev] else splits) rest

theorem findSplitScan_vscan (segs : List Seg) (l : List SLoc) (prev : Vec) (splits : List Vec) :
    (findSplitScan segs prev splits l).1.map (SLoc.loc segs) = (vscan prev splits (l.map (SLoc.loc segs))).1 ∧
    (findSplitScan segs prev splits l).2 = (vscan prev splits (l.map (SLoc.loc segs))).2 := by
  fun_induction findSplitScan segs prev splits l with
  | case1 => simp [vscan]
  | case2 => simp [vscan]
  | case3 prev splits a b rest h ih =>
    simp only [List.map_cons, vscan, h, if_true]
    simp only [List.map_cons] at ih
    exact ⟨by rw [ih.1], ih.2⟩
  | case4 prev splits a b rest h ih =>
    simp only [List.map_cons, vscan, h]
    exact ih

/-- relation with the counting scan of AreaSplit.lean (splits most recent first) -/
theorem vscan_scan (l : List Vec) (prev : Vec) (splits : List Vec) :
    (scan (some prev) splits.reverse l).1 = (vscan prev splits l).1.length ∧
    (scan (some prev) splits.reverse l).2 = (vscan prev splits l).2.reverse := by
  fun_induction vscan prev splits l with
  | case1 => simp [scan]
  | case2 => simp [scan]
  | case3 prev splits a b rest h ih =>
    simp only [scan, h, if_true, List.length_cons]
    exact ⟨by rw [ih.1], ih.2⟩
  | case4 prev splits a b rest h ih =>
    simp only [scan, h]
    have hc : (if (some prev == some a && splits.reverse.head? != some a) = true then a :: splits.reverse
          else splits.reverse) =
        (if (a == prev && (splits.isEmpty || splits.getLast? != some prev)) = true then splits ++ [prev]
          else splits).reverse := by
      by_cases hpa : a = prev
      · subst hpa
        simp only [BEq.rfl, Bool.true_and, List.head?_reverse]
        by_cases hl : splits.getLast? = some a
        · have hne : splits.isEmpty = false := by
            cases splits with
            | nil => simp at hl
            | cons _ _ => rfl
          simp [hl, hne]
        · have : (splits.getLast? != some a) = true := by simpa using hl
          simp [this]
      · have : (some prev == some a) = false := by simpa using fun e => hpa e.symm
        simp [this, hpa]
    rw [hc]
    exact ih

/-! ## the general run lemma: every sorted list, odd runs included -/

theorem vscan_nil (prev : Vec) (splits : List Vec) : vscan prev splits [] = ([], splits) := by
  simp [vscan]

theorem vscan_pair (prev : Vec) (splits : List Vec) (a : Vec) (X : List Vec) :
    vscan prev splits (a :: a :: X) =
      vscan a (if a == prev && (splits.isEmpty || splits.getLast? != some prev)
               then splits ++ [prev] else splits) X := by
  simp [vscan]

/-- a single location followed by a different one (or by nothing): reported as open -/
theorem vscan_single (prev : Vec) (splits : List Vec) (a : Vec) (X : List Vec) (ha : a ∉ X) :
    vscan prev splits (a :: X) = (a :: (vscan a splits X).1, (vscan a splits X).2) := by
  cases X with
  | nil => simp [vscan]
  | cons b rest =>
    have hab : (a != b) = true := by
      simp only [bne_iff_ne, ne_eq]
      rintro rfl; exact ha List.mem_cons_self
    simp [vscan, hab]

/-- the rest of a run whose location is already recorded -/
theorem vscan_run_done (a : Vec) (k : Nat) (X splits : List Vec) (hh : splits.getLast? = some a) :
    vscan a splits (List.replicate (2 * k) a ++ X) = vscan a splits X := by
  induction k with
  | zero => simp
  | succ k ih =>
    have e : 2 * (k + 1) = 2 * k + 1 + 1 := by omega
    rw [e, List.replicate_succ, List.replicate_succ, List.cons_append, List.cons_append, vscan_pair]
    have hne : splits.isEmpty = false := by
      cases splits with
      | nil => simp at hh
      | cons _ _ => rfl
    simp only [BEq.rfl, hne, hh, bne_self_eq_false, Bool.or_self, Bool.and_false]
    exact ih

/-- an even run `2 (k+1)` entered from another location -/
theorem vscan_run_even (a : Vec) (k : Nat) (X splits : List Vec) (prev : Vec)
    (hp : prev ≠ a) (hh : splits.getLast? ≠ some a) :
    vscan prev splits (List.replicate (2 * (k + 1)) a ++ X) =
      vscan a (if k ≥ 1 then splits ++ [a] else splits) X := by
  have e : 2 * (k + 1) = 2 * k + 1 + 1 := by omega
  rw [e, List.replicate_succ, List.replicate_succ, List.cons_append, List.cons_append, vscan_pair]
  have hp' : (a == prev) = false := by simpa using fun e => hp e.symm
  simp only [hp', Bool.false_and, Bool.false_eq_true, if_false]
  match k with
  | 0 => simp
  | k + 1 =>
    have e : 2 * (k + 1) = 2 * k + 1 + 1 := by omega
    rw [e, List.replicate_succ, List.replicate_succ, List.cons_append, List.cons_append, vscan_pair]
    have hh' : (splits.isEmpty || splits.getLast? != some a) = true := by
      cases splits with
      | nil => rfl
      | cons s t => simpa using hh
    simp only [BEq.rfl, hh', Bool.and_self, if_true]
    rw [vscan_run_done a k X (splits ++ [a]) (by simp)]
    simp

/-- a complete run of `n + 1` equal locations followed by other locations -/
theorem vscan_run (a : Vec) (n : Nat) (X splits : List Vec) (prev : Vec) (ha : a ∉ X)
    (hp : prev ≠ a) (hh : splits.getLast? ≠ some a) :
    vscan prev splits (List.replicate (n + 1) a ++ X) =
      ((if (n + 1) % 2 = 1 then [a] else []) ++
          (vscan a (if n + 1 ≥ 4 then splits ++ [a] else splits) X).1,
        (vscan a (if n + 1 ≥ 4 then splits ++ [a] else splits) X).2) := by
  rcases Nat.even_or_odd' (n + 1) with ⟨k, hk | hk⟩
  · -- even: n + 1 = 2 k, k ≥ 1
    obtain ⟨j, rfl⟩ : ∃ j, k = j + 1 := ⟨k - 1, by omega⟩
    rw [hk, vscan_run_even a j X splits prev hp hh]
    have h1 : ¬ (2 * (j + 1) % 2 = 1) := by omega
    have h2 : (j ≥ 1) ↔ (2 * (j + 1) ≥ 4) := by omega
    simp only [h1, if_false, List.nil_append, h2]
  · -- odd: n + 1 = 2 k + 1
    rw [hk]
    have h1 : (2 * k + 1) % 2 = 1 := by omega
    simp only [h1, if_true]
    match k with
    | 0 =>
      simp only [Nat.mul_zero, Nat.zero_add, List.replicate_one, List.singleton_append]
      rw [vscan_single prev splits a X ha]
      simp
    | j + 1 =>
      have e : 2 * (j + 1) + 1 = 2 * (j + 1) + 1 := rfl
      rw [List.replicate_succ', List.append_assoc, vscan_run_even a j _ splits prev hp hh]
      simp only [List.singleton_append]
      rw [vscan_single _ _ a X ha]
      have h2 : (j ≥ 1) ↔ (2 * (j + 1) + 1 ≥ 4) := by omega
      simp only [h2]

/-! ## what the scan computes -/

/-- distinct locations whose multiplicity satisfies `p`, in order of first occurrence -/
def runsWith (p : Nat → Bool) (l : List Vec) : List Vec := l.eraseDups.filter fun v => p (l.count v)

theorem eraseDups_run (a : Vec) (m : Nat) (X : List Vec) (ha : a ∉ X) :
    (List.replicate (m + 1) a ++ X).eraseDups = a :: X.eraseDups := by
  have hf : List.filter (fun b => !b == a) X = X := by
    rw [List.filter_eq_self]
    intro b hb
    simp only [Bool.not_eq_eq_eq_not, Bool.not_true, beq_eq_false_iff_ne, ne_eq]
    rintro rfl; exact ha hb
  rw [List.replicate_succ, List.cons_append, List.eraseDups_cons, List.filter_append, hf]
  simp

theorem runsWith_run (p : Nat → Bool) (a : Vec) (m : Nat) (X : List Vec) (ha : a ∉ X) :
    runsWith p (List.replicate (m + 1) a ++ X) = (if p (m + 1) then [a] else []) ++ runsWith p X := by
  have hca : (List.replicate (m + 1) a ++ X).count a = m + 1 := by
    rw [List.count_append, List.count_replicate_self, List.count_eq_zero_of_not_mem ha]
  unfold runsWith
  rw [eraseDups_run a m X ha, List.filter_cons, hca]
  have hrest : List.filter (fun v => p ((List.replicate (m + 1) a ++ X).count v)) X.eraseDups
      = List.filter (fun v => p (X.count v)) X.eraseDups := by
    apply List.filter_congr
    intro v hv
    have hva : a ≠ v := by
      rintro rfl; exact ha (List.mem_eraseDups.mp hv)
    rw [List.count_append, List.count_replicate]
    simp [hva]
  rw [hrest]
  split <;> simp

/-- THE SCAN, for every sorted list of locations: the locations reported as open are those of odd
    multiplicity, the split locations pushed are those of multiplicity ≥ 4, each once, in list
    (= ascending) order. -/
theorem vscan_spec (n : Nat) : ∀ (l : List Vec), l.length ≤ n → SortedVec l →
    ∀ (prev : Vec) (splits : List Vec), prev ∉ l → (∀ s, splits.getLast? = some s → s ∉ l) →
    (vscan prev splits l).1 = runsWith (fun c => c % 2 == 1) l ∧
    (vscan prev splits l).2 = splits ++ runsWith (fun c => decide (c ≥ 4)) l := by
  induction n with
  | zero =>
    intro l hl _ prev splits _ _
    have : l = [] := List.eq_nil_of_length_eq_zero (by omega)
    subst this; simp [vscan, runsWith]
  | succ n ih =>
    intro l hl hs prev splits hp hh
    match l with
    | [] => simp [vscan, runsWith]
    | a :: t =>
      obtain ⟨m, X, heq, hn, hs'⟩ := sorted_run a t hs
      rw [heq] at hp hh hl ⊢
      have hmem : a ∈ List.replicate (m + 1) a ++ X := by simp
      have hp1 : prev ≠ a := fun h => hp (h ▸ hmem)
      have hh1 : splits.getLast? ≠ some a := fun h => hh a h hmem
      rw [vscan_run a m X splits prev hn hp1 hh1, runsWith_run _ a m X hn, runsWith_run _ a m X hn]
      have hl' : X.length ≤ n := by
        simp only [List.length_append, List.length_replicate] at hl
        omega
      have hih := ih X hl' hs' a (if m + 1 ≥ 4 then splits ++ [a] else splits) hn (by
        intro s h
        split at h
        · simp at h; subst h; exact hn
        · exact fun h2 => hh s h (List.mem_append_right _ h2))
      rw [hih.1, hih.2]
      constructor
      · by_cases h1 : (m + 1) % 2 = 1 <;> simp [h1]
      · by_cases h4 : m + 1 ≥ 4 <;> simp [h4]


/-! ## `find_split_locations` -/

theorem mem_runsWith (p : Nat → Bool) (l : List Vec) (v : Vec) :
    v ∈ runsWith p l ↔ v ∈ l ∧ p (l.count v) = true := by
  simp [runsWith, List.mem_filter, List.mem_eraseDups]

theorem runsWith_perm_count (p : Nat → Bool) (l l' : List Vec) (h : l.Perm l') (v : Vec) :
    v ∈ runsWith p l ↔ v ∈ runsWith p l' := by
  rw [mem_runsWith, mem_runsWith, h.mem_iff, h.count_eq]

/-- the distinct elements of a sorted list are strictly ascending -/
theorem eraseDups_strict (n : Nat) : ∀ (l : List Vec), l.length ≤ n → SortedVec l →
    l.eraseDups.Pairwise (fun a b => a.lt b = true) := by
  induction n with
  | zero =>
    intro l hl _
    have : l = [] := List.eq_nil_of_length_eq_zero (by omega)
    subst this; simp
  | succ n ih =>
    intro l hl hs
    match l with
    | [] => simp
    | a :: t =>
      obtain ⟨m, X, heq, hn, hs'⟩ := sorted_run a t hs
      have hsX : ∀ x ∈ X, x.lt a = false := by
        intro x hx
        have : x ∈ t := by
          have : x ∈ a :: t := by rw [heq]; exact List.mem_append_right _ hx
          rcases List.mem_cons.mp this with rfl | h
          · exact absurd hx hn
          · exact h
        exact (List.pairwise_cons.mp hs).1 x this
      rw [heq] at hl ⊢
      rw [eraseDups_run a m X hn, List.pairwise_cons]
      refine ⟨?_, ih X (by simp only [List.length_append, List.length_replicate] at hl; omega) hs'⟩
      intro x hx
      have hx' : x ∈ X := List.mem_eraseDups.mp hx
      cases hc : a.lt x with
      | true => rfl
      | false => exact absurd (vec_lt_total a x hc (hsX x hx')) (fun e => hn (e ▸ hx'))

theorem runsWith_strict (p : Nat → Bool) (l : List Vec) (hs : SortedVec l) :
    (runsWith p l).Pairwise (fun a b => a.lt b = true) :=
  List.Pairwise.sublist List.filter_sublist (eraseDups_strict _ l (Nat.le_refl _) hs)

theorem findSplitLocations_eq (segs : List Seg) (hu : undefinedLoc ∉ endpoints segs) :
    (findSplitLocations segs).1.map (SLoc.loc segs) = runsWith (fun c => c % 2 == 1) (endpointList segs) ∧
    (findSplitLocations segs).2 = runsWith (fun c => decide (c ≥ 4)) (endpointList segs) := by
  have h := findSplitScan_vscan segs (locationsList segs) undefinedLoc []
  rw [locationsList_map_loc] at h
  have hu' : undefinedLoc ∉ endpointList segs := fun hm => hu ((endpointList_perm segs).mem_iff.mp hm)
  have hv := vscan_spec _ (endpointList segs) (Nat.le_refl _) (endpointList_sorted segs) undefinedLoc []
    hu' (by simp)
  unfold findSplitLocations
  rw [h.1, h.2, hv.1, hv.2]
  simp

/-- the slocation-level scan and the counting scan of the pre-check model agree -/
theorem openAndSplit_eq_findSplit (segs : List Seg) (hu : undefinedLoc ∉ endpoints segs) :
    openAndSplit segs = ((findSplitLocations segs).1.length, (findSplitLocations segs).2.length) := by
  have h := findSplitScan_vscan segs (locationsList segs) undefinedLoc []
  rw [locationsList_map_loc] at h
  have hv := vscan_scan (endpointList segs) undefinedLoc []
  have hu' : undefinedLoc ∉ endpointList segs := fun hm => hu ((endpointList_perm segs).mem_iff.mp hm)
  -- the initial `previous_location` never equals a location of the list
  have hprev : scan none [] (endpointList segs) = scan (some undefinedLoc) [] (endpointList segs) := by
    cases hl : endpointList segs with
    | nil => simp [scan]
    | cons a t =>
      cases t with
      | nil => simp [scan]
      | cons b rest =>
        have hne : (some undefinedLoc == some a) = false := by
          simp only [beq_eq_false_iff_ne, ne_eq, Option.some.injEq]
          rintro rfl; exact hu' (by rw [hl]; exact List.mem_cons_self)
        simp [scan, hne]
  rw [openAndSplit_eq, ← scan_fst (endpointList segs) none [], hprev]
  simp only [List.reverse_nil] at hv
  rw [hv.1, hv.2, List.length_reverse]
  unfold findSplitLocations
  rw [← h.1, ← h.2, List.length_map]

end Osmium.Area
