/-
C04 built_content, part 9: field setters between the constructor and `set_user`.  They change the
fixed part (`ObjS.fixed`) and nothing else: the bridge `run (script) = build` holds for every fixed
part that the setters can produce.
-/
import Osmium.Lemmas.BufBridge

namespace Osmium.Buf

open Osmium.Layout
open Osmium.HostileLayout (subBytes subsBytes SubS ObjS OKind subScript headBody build objSize ctorFixed)

/-- the constructor alone -/
theorem ps_ctor (fill : UInt8) (aux : Bytes) (av : Bool) (k : Kind) (hk : k.isObj = true) :
    pStep fill aux av ([], []) (.open k) =
      some (P1 k.ty (k.sizeT + 8) (preOf k ++ leBytes 1 2 ++ midOf k ++ zeros (tlOf k)), [(0, k, none)]) := by
  obtain ⟨hsplit, hhdr, hlen, hpre, hge, hoff, htl, hsz, hs8⟩ := ctor_split k hk
  have hinit : objectInit k = itemHeader k.sizeT k.ty ++ (objectInit k).drop 8 := by
    rw [← hhdr, List.take_append_drop]
  have hdl : ((objectInit k).drop 8).length = k.sizeT - 8 := by simp [hlen]
  simp only [pStep, aSig, List.map_nil, plan, hk, List.isEmpty_nil, Bool.not_true, Bool.false_eq_true, and_false,
    ↓reduceIte, List.length_nil, Nat.zero_mod, ne_eq, not_true_eq_false, mCtor, pMicros, pList, pMicro, pBase,
    List.nil_append, aAfter, Option.map_some, addSizeChain, List.foldl, Nat.zero_add]
  refine congrArg some (Prod.ext ?_ rfl)
  simp only []
  have h1 : writeAt (List.replicate (k.sizeT + 8) fill) 0 (objectInit k) = objectInit k ++ List.replicate 8 fill := by
    rw [writeAt_zero_prefix _ _ (by simp [hlen])]
    simp [hlen]
  rw [h1, hinit]
  have h2 : itemHeader k.sizeT k.ty ++ List.drop 8 (objectInit k) ++ List.replicate 8 fill =
      P1 k.ty k.sizeT (List.drop 8 (objectInit k) ++ List.replicate 8 fill) := by simp [P1, List.append_assoc]
  rw [h2, addSizeAt_P1]
  have h3 := writeAt_P1 k.ty (k.sizeT + 8) (List.drop 8 (objectInit k)) (List.replicate 8 fill) 0 (zeros 8)
  rw [hdl] at h3
  have e3 : 8 + (k.sizeT - 8) + 0 = k.sizeT := by have := hsz; have := hoff; omega
  rw [e3] at h3
  rw [h3]
  have h4 : writeAt (List.replicate 8 fill) 0 (zeros 8) = zeros 8 := by
    rw [writeAt_zero_prefix _ _ (by simp [zeros])]; simp [zeros]
  rw [h4, hsplit]
  have h5 := writeAt_P1 k.ty (k.sizeT + 8) (preOf k) (zeros 2 ++ midOf k ++ zeros (tlOf k)) 0 (leBytes 1 2)
  have e5 : 8 + (preOf k).length + 0 = k.userSizeOff := by rw [hpre]; omega
  rw [e5] at h5
  simp only [setLE]
  have h6 : preOf k ++ zeros 2 ++ midOf k ++ zeros (tlOf k) = preOf k ++ (zeros 2 ++ midOf k ++ zeros (tlOf k)) := by
    simp [List.append_assoc]
  rw [h6, h5, List.append_assoc (zeros 2), writeAt_append_left _ _ _ 0 (by simp [leBytes_len, zeros]),
    writeAt_zeros_prefix 2 _ (by simp [leBytes_len])]
  simp [leBytes_len, zeros, List.append_assoc]

/-- `set_user(u)` on the object as the constructor (and any field setters) left it: `pre` is the fixed
    part in front of the user_size field -/
theorem ps_user (fill : UInt8) (aux : Bytes) (av : Bool) (k : Kind) (hk : k.isObj = true) (pre u : Bytes)
    (hpre : pre.length = k.userSizeOff - 8) :
    pStep fill aux av (P1 k.ty (k.sizeT + 8) (pre ++ leBytes 1 2 ++ midOf k ++ zeros (tlOf k)), [(0, k, none)]) (.user u) =
      some (P1 k.ty (k.sizeT + 8 + needOf k u.length)
              (pre ++ leBytes (u.length + 1) 2 ++ midOf k ++ u ++ zeros (tlOf k + needOf k u.length - u.length)),
            [(0, k, none)]) := by
  obtain ⟨_, _, _, hpre0, hge, hoff, htl, hsz, hs8⟩ := ctor_split k hk
  have hfit : u.length ≤ tlOf k + needOf k u.length := by
    unfold needOf; rw [htl]; split
    · have := padded_ge (u.length - k.userAvail); omega
    · omega
  simp only [pStep, aSig, List.map_cons, List.map_nil, plan, topIs, hk, ↓reduceIte, mSetUser, pMicros, pList, pMicro, pBase,
    Bool.false_eq_true, aAfter, Option.map_some, Nat.zero_add]
  refine congrArg some (Prod.ext ?_ rfl)
  simp only []
  show (let p := writeAt (P1 k.ty (k.sizeT + 8) (pre ++ leBytes 1 2 ++ midOf k ++ zeros (tlOf k)) ++
            List.replicate (needOf k u.length) fill)
          (P1 k.ty (k.sizeT + 8) (pre ++ leBytes 1 2 ++ midOf k ++ zeros (tlOf k))).length (zeros (needOf k u.length))
        let p := if needOf k u.length = 0 then p else addSizeChain [0] (needOf k u.length) p
        let p := writeAt p k.userOff u
        setLE p k.userSizeOff (u.length + 1) 2) = _
  simp only []
  have g1 := writeAt_reserved_full (P1 k.ty (k.sizeT + 8) (pre ++ leBytes 1 2 ++ midOf k ++ zeros (tlOf k)))
    (zeros (needOf k u.length)) fill
  rw [zeros_len] at g1
  rw [g1]
  have g2 : P1 k.ty (k.sizeT + 8) (pre ++ leBytes 1 2 ++ midOf k ++ zeros (tlOf k)) ++ zeros (needOf k u.length) =
      P1 k.ty (k.sizeT + 8) (pre ++ leBytes 1 2 ++ midOf k ++ zeros (tlOf k + needOf k u.length)) := by
    simp [P1, List.append_assoc, zeros_append]
  rw [g2]
  have g3 : (if needOf k u.length = 0 then
        P1 k.ty (k.sizeT + 8) (pre ++ leBytes 1 2 ++ midOf k ++ zeros (tlOf k + needOf k u.length))
      else addSizeChain [0] (needOf k u.length)
        (P1 k.ty (k.sizeT + 8) (pre ++ leBytes 1 2 ++ midOf k ++ zeros (tlOf k + needOf k u.length)))) =
      P1 k.ty (k.sizeT + 8 + needOf k u.length) (pre ++ leBytes 1 2 ++ midOf k ++ zeros (tlOf k + needOf k u.length)) := by
    split
    · rename_i h0; rw [h0]
    · simp only [addSizeChain, List.foldl]; rw [addSizeAt_P1]
  rw [g3]
  have g4 := writeAt_P1 k.ty (k.sizeT + 8 + needOf k u.length) (pre ++ leBytes 1 2 ++ midOf k)
    (zeros (tlOf k + needOf k u.length)) 0 u
  have e4 : 8 + (pre ++ leBytes 1 2 ++ midOf k).length + 0 = k.userOff := by
    simp only [List.length_append, leBytes_len]; omega
  rw [e4] at g4
  rw [g4, writeAt_zeros_prefix _ _ hfit]
  have g5 := writeAt_P1 k.ty (k.sizeT + 8 + needOf k u.length) pre
    (leBytes 1 2 ++ (midOf k ++ (u ++ zeros (tlOf k + needOf k u.length - u.length)))) 0 (leBytes (u.length + 1) 2)
  have e5 : 8 + pre.length + 0 = k.userSizeOff := by rw [hpre]; omega
  rw [e5] at g5
  simp only [setLE]
  have g6 : pre ++ leBytes 1 2 ++ midOf k ++ (u ++ zeros (tlOf k + needOf k u.length - u.length)) =
      pre ++ (leBytes 1 2 ++ (midOf k ++ (u ++ zeros (tlOf k + needOf k u.length - u.length)))) := by
    simp [List.append_assoc]
  rw [g6, g5, writeAt_append_left _ _ _ 0 (by simp [leBytes_len]), writeAt_zero_prefix _ _ (by simp [leBytes_len])]
  have g7 : List.drop (leBytes (u.length + 1) 2).length (leBytes 1 2) = [] := by
    rw [leBytes_len]; rfl
  rw [g7]
  simp [List.append_assoc]

/-! ### field setters -/

/-- effect of one field setter on the fixed part `pre` (offsets are relative to the item start, the
    item header is 8 bytes); `none` = not a field setter / outside the fixed part -/
def fieldStep (pre : Bytes) : Op → Option Bytes
  | .setField fo w v => if 8 ≤ fo ∧ fo + w ≤ 8 + pre.length then some (writeAt pre (fo - 8) (leBytesInt v w)) else none
  | _ => none

def fieldsRun (pre : Bytes) : List Op → Option Bytes
  | [] => some pre
  | op :: ops =>
    match fieldStep pre op with
    | none => none
    | some pre' => fieldsRun pre' ops

theorem fieldStep_len (pre pre' : Bytes) (op : Op) (h : fieldStep pre op = some pre') : pre'.length = pre.length := by
  cases op <;> simp only [fieldStep] at h <;> try (cases h; done)
  split at h
  · injection h with h; subst h; simp
  · cases h

theorem fieldsRun_len (ops : List Op) : ∀ (pre pre' : Bytes), fieldsRun pre ops = some pre' → pre'.length = pre.length := by
  induction ops with
  | nil => intro pre pre' h; simp only [fieldsRun, Option.some.injEq] at h; subst h; rfl
  | cons op r ih =>
    intro pre pre' h
    simp only [fieldsRun] at h
    cases hs : fieldStep pre op with
    | none => rw [hs] at h; cases h
    | some p1 => rw [hs] at h; rw [ih p1 pre' h, fieldStep_len pre p1 op hs]

theorem ps_field (fill : UInt8) (aux : Bytes) (av : Bool) (ty osz : Nat) (pre R : Bytes) (k : Kind) (hk : k.isObj = true)
    (op : Op) (pre' : Bytes) (h : fieldStep pre op = some pre') :
    pStep fill aux av (P1 ty osz (pre ++ R), [(0, k, none)]) op = some (P1 ty osz (pre' ++ R), [(0, k, none)]) := by
  cases op <;> simp only [fieldStep] at h <;> try (cases h; done)
  rename_i fo w v
  split at h
  · rename_i hc
    injection h with h; subst h
    simp only [pStep, aSig, List.map_cons, List.map_nil, plan, topIs, hk, ↓reduceIte, pMicros, pList, pMicro, pBase, aAfter,
      Option.map_some, Nat.zero_add]
    refine congrArg some (Prod.ext ?_ rfl)
    simp only []
    have h1 := writeAt_P1 ty osz [] (pre ++ R) (fo - 8) (leBytesInt v w)
    simp only [List.length_nil, Nat.add_zero, List.nil_append] at h1
    have e : 8 + (fo - 8) = fo := by omega
    rw [e] at h1
    rw [h1, writeAt_append_left _ _ _ _ (by rw [leBytesInt_len]; omega)]
  · cases h

theorem pr_fields (fill : UInt8) (aux : Bytes) (av : Bool) (ty osz : Nat) (R : Bytes) (k : Kind) (hk : k.isObj = true)
    (ops : List Op) : ∀ (pre pre' : Bytes), fieldsRun pre ops = some pre' →
    pRun fill aux av (P1 ty osz (pre ++ R), [(0, k, none)]) ops = some (P1 ty osz (pre' ++ R), [(0, k, none)]) := by
  induction ops with
  | nil => intro pre pre' h; simp only [fieldsRun, Option.some.injEq] at h; subst h; rfl
  | cons op r ih =>
    intro pre pre' h
    simp only [fieldsRun] at h
    cases hs : fieldStep pre op with
    | none => rw [hs] at h; cases h
    | some p1 =>
      rw [hs] at h
      simp only [pRun, ps_field fill aux av ty osz pre R k hk op p1 hs]
      exact ih p1 pre' h

/-! ### the object with field setters -/

/-- the fixed part of the description that corresponds to `pre` (for a changeset the struct goes on
    behind the user_size field: 2 + 6 bytes) -/
def fixedOf (k : OKind) (pre : Bytes) : Bytes :=
  match k with
  | .changeset => pre ++ [0, 0] ++ zeros 6
  | _ => pre

/-- constructor, field setters, `set_user`, the sub-builder blocks, destructor, commit -/
def scriptWith (fops : List Op) (o : ObjS) : List Op :=
  [.open o.kind.bufKind] ++ fops ++ [.user o.user] ++ ((o.subs.map subScript).flatten ++ [.close]) ++ [.commit]

theorem head_eq' (o : ObjS) (pre : Bytes) (hpre : pre.length = o.kind.bufKind.userSizeOff - 8)
    (hf : o.fixed = fixedOf o.kind pre) :
    P1 o.kind.bufKind.ty (o.kind.bufKind.sizeT + 8 + needOf o.kind.bufKind o.user.length)
        (pre ++ leBytes (o.user.length + 1) 2 ++ midOf o.kind.bufKind ++ o.user ++
          zeros (tlOf o.kind.bufKind + needOf o.kind.bufKind o.user.length - o.user.length)) =
      P1 o.kind.ty (o.kind.headLen o.user.length) (headBody o) := by
  cases hk : o.kind with
  | changeset =>
    rw [hk] at hf hpre
    have h := need_cs o.user.length
    have hl : pre.length = 40 := hpre
    have c1 : List.take 6 (List.drop 42 (pre ++ [0, 0] ++ zeros 6)) = zeros 6 := by
      rw [List.append_assoc, List.drop_append, hl]
      have : List.drop 42 pre = [] := List.drop_eq_nil_of_le (by omega)
      simp [zeros, this]
    have c2 : List.take 40 (pre ++ [0, 0] ++ zeros 6) = pre := by
      rw [List.append_assoc, List.take_left' hl]
    simp only [headBody, hk, hf, fixedOf, OKind.bufKind, OKind.ty, OKind.headLen, Kind.ty, Kind.sizeT, needOf_cs, tlOf, midOf,
      sizeofChangeset, c1, c2]
    refine P1_congr h.1 ?_
    rw [zeros_congr h.2]
  | node =>
    rw [hk] at hf hpre
    have h := need_obj o.user.length 40 rfl
    have hl : pre.length = 32 := hpre
    have c2 : List.take (40 - 8) pre = pre := List.take_of_length_le (by omega)
    simp only [headBody, hk, hf, fixedOf, OKind.bufKind, OKind.ty, OKind.headLen, OKind.sizeT, Kind.ty, Kind.sizeT, needOf_node,
      tlOf, midOf, sizeofNode, c2]
    refine P1_congr h.1 ?_
    rw [zeros_congr h.2]
    simp [List.append_assoc]
  | way =>
    rw [hk] at hf hpre
    have h := need_obj o.user.length 32 rfl
    have hl : pre.length = 24 := hpre
    have c2 : List.take (32 - 8) pre = pre := List.take_of_length_le (by omega)
    simp only [headBody, hk, hf, fixedOf, OKind.bufKind, OKind.ty, OKind.headLen, OKind.sizeT, Kind.ty, Kind.sizeT, needOf_way,
      tlOf, midOf, sizeofObject, c2]
    refine P1_congr h.1 ?_
    rw [zeros_congr h.2]
    simp [List.append_assoc]
  | relation =>
    rw [hk] at hf hpre
    have h := need_obj o.user.length 32 rfl
    have hl : pre.length = 24 := hpre
    have c2 : List.take (32 - 8) pre = pre := List.take_of_length_le (by omega)
    simp only [headBody, hk, hf, fixedOf, OKind.bufKind, OKind.ty, OKind.headLen, OKind.sizeT, Kind.ty, Kind.sizeT,
      needOf_relation, tlOf, midOf, sizeofObject, c2]
    refine P1_congr h.1 ?_
    rw [zeros_congr h.2]
    simp [List.append_assoc]
  | area =>
    rw [hk] at hf hpre
    have h := need_obj o.user.length 32 rfl
    have hl : pre.length = 24 := hpre
    have c2 : List.take (32 - 8) pre = pre := List.take_of_length_le (by omega)
    simp only [headBody, hk, hf, fixedOf, OKind.bufKind, OKind.ty, OKind.headLen, OKind.sizeT, Kind.ty, Kind.sizeT, needOf_area,
      tlOf, midOf, sizeofObject, c2]
    refine P1_congr h.1 ?_
    rw [zeros_congr h.2]
    simp [List.append_assoc]

/-- the builder calls of `scriptWith fops o` -/
def builderOpsWith (fops : List Op) (o : ObjS) : List Op :=
  [.open o.kind.bufKind] ++ (fops ++ ([.user o.user] ++ ((o.subs.map subScript).flatten ++ [.close])))

theorem scriptWith_eq (fops : List Op) (o : ObjS) : scriptWith fops o = builderOpsWith fops o ++ [.commit] := by
  simp [scriptWith, builderOpsWith, List.append_assoc]

theorem headBody_len' (o : ObjS) (pre : Bytes) (hpre : pre.length = o.kind.bufKind.userSizeOff - 8)
    (hf : o.fixed = fixedOf o.kind pre) : (headBody o).length % 8 = 0 := by
  have h := congrArg List.length (head_eq' o pre hpre hf)
  simp only [P1_len] at h
  have hm : o.kind.headLen o.user.length % 8 = 0 := by
    cases o.kind <;> simp only [OKind.headLen] <;> exact padded_mod _
  obtain ⟨hsplit, hhdr, hlen, hpre0, hge, hoff, htl, hsz, hs8⟩ := ctor_split o.kind.bufKind (bufKind_isObj _)
  have hfit : o.user.length ≤ tlOf o.kind.bufKind + needOf o.kind.bufKind o.user.length := by
    unfold needOf; rw [htl]; split
    · have := padded_ge (o.user.length - o.kind.bufKind.userAvail); omega
    · omega
  simp only [List.length_append, leBytes_len, zeros_len] at h
  have hsz' : o.kind.bufKind.sizeT + 8 + needOf o.kind.bufKind o.user.length = o.kind.headLen o.user.length := by
    cases hk : o.kind <;>
      simp only [OKind.bufKind, OKind.headLen, Kind.sizeT, sizeofNode, sizeofObject, sizeofChangeset, needOf_cs,
        needOf_node, needOf_way, needOf_relation, needOf_area]
    · exact (need_obj o.user.length 40 rfl).1
    · exact (need_obj o.user.length 32 rfl).1
    · exact (need_obj o.user.length 32 rfl).1
    · exact (need_obj o.user.length 32 rfl).1
    · exact (need_cs o.user.length).1
  omega

theorem pr_object_with (fill : UInt8) (aux : Bytes) (av : Bool) (o : ObjS) (fops : List Op) (pre : Bytes)
    (hfo : fieldsRun (preOf o.kind.bufKind) fops = some pre) (hf : o.fixed = fixedOf o.kind pre)
    (hs : ∀ s ∈ o.subs, SubOK s) :
    pRun fill aux av ([], []) (builderOpsWith fops o) = some (build fill o, []) := by
  have hk := bufKind_isObj o.kind
  obtain ⟨_, _, _, hpre0, _⟩ := ctor_split o.kind.bufKind hk
  have hpre : pre.length = o.kind.bufKind.userSizeOff - 8 := by rw [fieldsRun_len fops _ _ hfo, hpre0]
  unfold builderOpsWith
  rw [pRun_append]
  simp only [pRun, ps_ctor fill aux av _ hk, Option.bind_some]
  rw [pRun_append]
  have hR : ∀ (p : Bytes), p ++ leBytes 1 2 ++ midOf o.kind.bufKind ++ zeros (tlOf o.kind.bufKind) =
      p ++ (leBytes 1 2 ++ midOf o.kind.bufKind ++ zeros (tlOf o.kind.bufKind)) := by intro p; simp [List.append_assoc]
  rw [hR, pr_fields fill aux av _ _ _ _ hk fops _ pre hfo, ← hR]
  simp only [Option.bind_some]
  rw [pRun_append]
  simp only [pRun, ps_user fill aux av _ hk pre o.user hpre, Option.bind_some, head_eq' o pre hpre hf]
  rw [pRun_append, pr_subs fill aux av _ _ o.subs hs _ _ (headBody_len' o pre hpre hf)]
  simp only [Option.bind_some, pRun, ps_close_obj fill aux av _ _ hk]
  simp [build, objSize, P1, header_eq, List.append_assoc]

/-- State-level bridge with field setters -/
theorem run_script_with (s0 : St) (hr : Ref s0) (hd : s0.dead = none) (hv : s0.b0.valid = true) (hst : s0.stack = [])
    (hp : s0.b0.pend = []) (o : ObjS) (fops : List Op) (pre : Bytes)
    (hfo : fieldsRun (preOf o.kind.bufKind) fops = some pre) (hf : o.fixed = fixedOf o.kind pre)
    (hs : ∀ s ∈ o.subs, SubOK s) :
    (run s0 (scriptWith fops o)).dead = none ∧ (run s0 (scriptWith fops o)).stack = [] ∧
    (run s0 (scriptWith fops o)).b0.pend = [] ∧
    (run s0 (scriptWith fops o)).b0.done = s0.b0.done ++ build s0.b0.fill o := by
  have hpure := pr_object_with s0.b0.fill s0.b1.comm s0.b1.valid o fops pre hfo hf hs
  have hreach := run_pure (builderOpsWith fops o) s0 hr hd hv (build s0.b0.fill o, [])
    (by rw [hp, hst]; exact hpure)
  generalize hs1 : run s0 (builderOpsWith fops o) = s1 at hreach
  have hrun : run s0 (scriptWith fops o) = run s1 [.commit] := by rw [scriptWith_eq, run_append, hs1]
  have hst1 : s1.stack = [] := by
    have := hreach.stack
    cases h : s1.stack with
    | nil => rfl
    | cons f r => rw [h] at this; simp [absStack] at this
  have hd1 : s1.dead = none := by rw [hreach.keep.dead]; exact hd
  have hv1 : s1.b0.valid = true := by rw [hreach.keep.valid]; exact hv
  have hc := commit_done s1.b0 hreach.ref.bounds.1.1
  rw [hrun]
  simp only [run]
  rw [step_commit s1 hd1 hv1 hst1]
  refine ⟨hd1, hst1, hc.2, ?_⟩
  simp only []
  rw [hc.1, hreach.keep.done, hreach.pend]

end Osmium.Buf
