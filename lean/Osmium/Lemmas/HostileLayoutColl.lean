/-
C03 — lemmas (collections): decodeTags / decodeNodeRefs / decodeMembers / decodeComments over the
bodies the builders write, at any position of any buffer, for any sufficiently large fuel.
Helper file of Osmium/Lemmas/HostileLayout.lean.
-/
import Osmium.Lemmas.HostileLayoutBase

namespace Osmium.HostileLayout

open Osmium.Layout

theorem padTo_add (n : Nat) : n + padTo n = padded n := by
  unfold padTo; have := Buf.padded_ge n; omega

theorem padded_lt (n : Nat) : padded n < n + 8 := by unfold padded; omega

theorem zeros_length (n : Nat) : (zeros n).length = n := by simp [zeros]

theorem at_cast {b : Bytes} {p q : Nat} {x : Bytes} (h : At b p x) (e : p = q) : At b q x := e ▸ h

theorem tagsBody_cons (kv : Bytes × Bytes) (r : List (Bytes × Bytes)) :
    tagsBody (kv :: r) = kv.1 ++ [0] ++ (kv.2 ++ [0]) ++ tagsBody r := by
  simp [tagsBody, tagBytes]

theorem decodeTags_at {b : Bytes} (kvs : List (Bytes × Bytes)) :
    ∀ (pos endp fuel : Nat), At b pos (tagsBody kvs) → endp = pos + (tagsBody kvs).length →
      endp ≤ b.length → (∀ kv ∈ kvs, noNul kv.1 = true ∧ noNul kv.2 = true) → kvs.length + 1 ≤ fuel →
      decodeTags b endp fuel pos = .ok (tagStrs kvs) := by
  induction kvs with
  | nil =>
    intro pos endp fuel _ he _ _ hf
    obtain ⟨f, rfl⟩ : ∃ f, fuel = f + 1 := ⟨fuel - 1, by omega⟩
    simp [tagsBody] at he
    simp [decodeTags, he, tagStrs]
  | cons kv r ih =>
    intro pos endp fuel hat he hb hn hf
    obtain ⟨f, rfl⟩ : ∃ f, fuel = f + 1 := ⟨fuel - 1, by omega⟩
    rw [tagsBody_cons] at hat he
    rw [at_append, at_append] at hat
    obtain ⟨⟨h1, h2⟩, h3⟩ := hat
    simp only [List.length_append, List.length_cons, List.length_nil] at he h2 h3
    have hk := hn kv (by simp)
    have h2' := at_cast h2 (q := pos + kv.1.length + 1) (by omega)
    have h3' := at_cast h3 (q := pos + kv.1.length + 1 + kv.2.length + 1) (by omega)
    have c1 := cstr_at (lim := endp) h1 hk.1 (by omega) hb
    have c2 := cstr_at (lim := endp) h2' hk.2 (by omega) hb
    have := ih _ endp f h3' (by omega) hb
      (fun kv' h' => hn kv' (by simp [h'])) (by simp at hf; omega)
    rw [decodeTags, if_neg (by omega), if_neg (by omega), c1]
    simp only []
    rw [if_neg (by omega), c2]
    simp only []
    rw [this]
    rfl

/-! nodes -/

theorem nodesBody_cons (n : NodeRefS) (r : List NodeRefS) :
    nodesBody (n :: r) = leBytesInt n.ref 8 ++ (leBytesInt n.x 4 ++ (leBytesInt n.y 4 ++ nodesBody r)) := by
  simp [nodesBody, nodeRefBytes]

theorem nodesBody_length (ns : List NodeRefS) : (nodesBody ns).length = 16 * ns.length := by
  induction ns with
  | nil => rfl
  | cons n r ih =>
    rw [nodesBody_cons]
    simp only [List.length_append, leBytesInt_length, ih, List.length_cons]; omega

theorem decodeNodeRefs_at {b : Bytes} (ns : List NodeRefS) :
    ∀ (pos : Nat), At b pos (nodesBody ns) → decodeNodeRefs b pos ns.length = nodeInts ns := by
  induction ns with
  | nil => intros; rfl
  | cons n r ih =>
    intro pos hat
    rw [nodesBody_cons] at hat
    simp only [at_append, leBytesInt_length, Nat.add_assoc] at hat
    obtain ⟨h1, h2, h3, h4⟩ := hat
    simp only [List.length_cons, decodeNodeRefs, nodeInts]
    rw [leAt_at h1 8 (by simp [leBytesInt_length]), leAt_at h2 4 (by simp [leBytesInt_length]),
      leAt_at h3 4 (by simp [leBytesInt_length]), ih _ h4]

/-! members -/

theorem memberBytes_eq (fill : UInt8) (m : MemberS) :
    memberBytes fill m = leBytesInt m.ref 8 ++ (leBytes m.ty 2 ++ (leBytes 0 2 ++ (leBytes (m.role.length + 1) 2 ++
      ([fill, fill] ++ ((m.role ++ [0]) ++ zeros (padTo (16 + m.role.length + 1))))))) := by
  simp [memberBytes]

theorem memberBytes_length (fill : UInt8) (m : MemberS) :
    (memberBytes fill m).length = padded (16 + m.role.length + 1) := by
  rw [memberBytes_eq, ← padTo_add]
  simp only [List.length_append, leBytesInt_length, leBytes_length, zeros_length, List.length_cons, List.length_nil]
  omega

theorem membersBody_cons (fill : UInt8) (m : MemberS) (r : List MemberS) :
    membersBody fill (m :: r) = memberBytes fill m ++ membersBody fill r := by
  simp [membersBody]

theorem decodeMembers_at {b : Bytes} (fill : UInt8) (ms : List MemberS) :
    ∀ (pos endp fuel : Nat), At b pos (membersBody fill ms) → endp = pos + (membersBody fill ms).length →
      endp ≤ b.length → (∀ m ∈ ms, m.role.length ≤ maxStr ∧ noNul m.role = true) → ms.length + 1 ≤ fuel →
      decodeMembers b endp fuel pos = .ok (ms.map memberTree) := by
  induction ms with
  | nil =>
    intro pos endp fuel _ he _ _ hf
    obtain ⟨f, rfl⟩ : ∃ f, fuel = f + 1 := ⟨fuel - 1, by omega⟩
    simp [membersBody] at he
    simp [decodeMembers, he]
  | cons m r ih =>
    intro pos endp fuel hat he hb hn hf
    obtain ⟨f, rfl⟩ : ∃ f, fuel = f + 1 := ⟨fuel - 1, by omega⟩
    rw [membersBody_cons] at hat he
    rw [at_append] at hat
    obtain ⟨h1, hrest⟩ := hat
    rw [List.length_append] at he
    rw [memberBytes_length] at hrest he
    rw [memberBytes_eq] at h1
    simp only [at_append, leBytesInt_length, leBytes_length, Nat.add_assoc, List.length_cons, List.length_nil] at h1
    obtain ⟨a1, a2, a3, a4, _, ⟨a6, a7⟩, _⟩ := h1
    replace a2 := at_cast a2 (q := pos + 8) (by omega)
    replace a3 := at_cast a3 (q := pos + 10) (by omega)
    replace a4 := at_cast a4 (q := pos + 12) (by omega)
    replace a6 : At b (pos + 16) (m.role ++ [0]) :=
      at_append.mpr ⟨at_cast a6 (by omega), at_cast a7 (by omega)⟩
    have hm := hn m (by simp)
    have hml : m.role.length ≤ 1024 := hm.1
    have e1 := leAt_at a1 8 (by simp [leBytesInt_length])
    have e2 : u16At b (pos + 8) = m.ty % 65536 := leAt_at_leBytes a2
    have e3 : u16At b (pos + 10) = 0 := leAt_at_leBytes a3
    have e4 : u16At b (pos + 12) = m.role.length + 1 := u16At_at a4 (by omega)
    have hp := Buf.padded_ge (16 + m.role.length + 1)
    have hp' : padded (16 + (m.role.length + 1)) = padded (16 + m.role.length + 1) := by rw [Nat.add_assoc]
    have c := cstr_at (lim := pos + padded (16 + m.role.length + 1)) a6 hm.2 (by omega) (by omega)
    have := ih (pos + padded (16 + m.role.length + 1)) endp f hrest (by omega) hb
      (fun m' h' => hn m' (by simp [h'])) (by simp at hf; omega)
    rw [decodeMembers]
    simp only [e1, e2, e3, e4, hp']
    rw [if_neg (by omega), if_neg (by omega), if_neg (by omega), c]
    simp only [this]
    rfl

/-! comments -/

theorem commentBytes_eq (fill : UInt8) (c : CommentS) (t : Bytes) (ht : c.text = some t) :
    commentBytes fill c = leBytes c.date 4 ++ (leBytes c.uid 4 ++ (leBytes (t.length + 1) 4 ++
      (leBytes (c.user.length + 1) 2 ++ ([fill, fill] ++ ((c.user ++ [0]) ++ ((t ++ [0]) ++
        zeros (padTo (16 + (c.user.length + 1) + (t.length + 1))))))))) := by
  simp [commentBytes, ht]

theorem commentBytes_length (fill : UInt8) (c : CommentS) (t : Bytes) (ht : c.text = some t) :
    (commentBytes fill c).length = padded (16 + (c.user.length + 1) + (t.length + 1)) := by
  rw [commentBytes_eq fill c t ht, ← padTo_add]
  simp only [List.length_append, leBytes_length, zeros_length, List.length_cons, List.length_nil]
  omega

theorem commentsBodyRaw_cons (fill : UInt8) (c : CommentS) (r : List CommentS) :
    commentsBodyRaw fill (c :: r) = commentBytes fill c ++ commentsBodyRaw fill r := by
  simp [commentsBodyRaw]

def CommentOk (c : CommentS) : Prop :=
  c.user.length ≤ maxStr ∧ noNul c.user = true ∧ ∃ t, c.text = some t ∧ noNul t = true ∧ t.length + 1 < 2 ^ 32

theorem decodeComments_at {b : Bytes} (fill : UInt8) (cs : List CommentS) :
    ∀ (pos endp fuel : Nat), At b pos (commentsBodyRaw fill cs) → endp = pos + (commentsBodyRaw fill cs).length →
      endp ≤ b.length → (∀ c ∈ cs, CommentOk c) → cs.length + 1 ≤ fuel →
      decodeComments b endp fuel pos = .ok (cs.map commentTree) := by
  induction cs with
  | nil =>
    intro pos endp fuel _ he _ _ hf
    obtain ⟨f, rfl⟩ : ∃ f, fuel = f + 1 := ⟨fuel - 1, by omega⟩
    simp [commentsBodyRaw] at he
    simp [decodeComments, he]
  | cons c r ih =>
    intro pos endp fuel hat he hb hn hf
    obtain ⟨f, rfl⟩ : ∃ f, fuel = f + 1 := ⟨fuel - 1, by omega⟩
    obtain ⟨hul, hun, t, ht, htn, htl⟩ := hn c (by simp)
    have hul' : c.user.length ≤ 1024 := hul
    rw [commentsBodyRaw_cons] at hat he
    rw [at_append] at hat
    obtain ⟨h1, hrest⟩ := hat
    rw [List.length_append] at he
    rw [commentBytes_length fill c t ht] at hrest he
    rw [commentBytes_eq fill c t ht] at h1
    simp only [at_append, leBytes_length, Nat.add_assoc, List.length_cons, List.length_nil, List.length_append] at h1
    obtain ⟨a1, a2, a3, a4, _, ⟨a6, a7⟩, ⟨a8, a9⟩, _⟩ := h1
    replace a2 := at_cast a2 (q := pos + 4) (by omega)
    replace a3 := at_cast a3 (q := pos + 8) (by omega)
    replace a4 := at_cast a4 (q := pos + 12) (by omega)
    replace a6 : At b (pos + 16) (c.user ++ [0]) :=
      at_append.mpr ⟨at_cast a6 (by omega), at_cast a7 (by omega)⟩
    replace a8 : At b (pos + 16 + (c.user.length + 1)) (t ++ [0]) :=
      at_append.mpr ⟨at_cast a8 (by omega), at_cast a9 (by omega)⟩
    have e1 : u32At b pos = c.date % 2 ^ 32 := leAt_at_leBytes a1
    have e2 : u32At b (pos + 4) = c.uid % 2 ^ 32 := leAt_at_leBytes a2
    have e3 : u32At b (pos + 8) = t.length + 1 := u32At_at a3 htl
    have e4 : u16At b (pos + 12) = c.user.length + 1 := u16At_at a4 (by omega)
    have hp := Buf.padded_ge (16 + (c.user.length + 1) + (t.length + 1))
    have c1 := cstr_at (lim := pos + padded (16 + (c.user.length + 1) + (t.length + 1))) a6 hun (by omega) (by omega)
    have c2 := cstr_at (lim := pos + padded (16 + (c.user.length + 1) + (t.length + 1))) a8 htn (by omega) (by omega)
    have := ih (pos + padded (16 + (c.user.length + 1) + (t.length + 1))) endp f hrest (by omega) hb
      (fun m' h' => hn m' (by simp [h'])) (by simp at hf; omega)
    rw [decodeComments]
    simp only [e1, e2, e3, e4]
    rw [if_neg (by omega), if_neg (by omega), if_neg (by omega), c1]
    simp only [c2, this]
    simp [commentTree, ht]
    rfl

end Osmium.HostileLayout
