/-
C10 stage B, part 1 — counting segment ends, `get_next_segment`, and the loop of `add_new_ring`
(basic_assembler.hpp 232-245, 411-467).

For a set `ds` of segments (indices) that are already in rings and a location `v`:
  `deg v`    = number of segment ends at `v`             (number of slocations at `v`),
  `dc ds v`  = number of ends at `v` of segments in `ds`.
In the simple case every location has degree 2.  Between rings every location has `dc ∈ {0, 2}`
(`Closed`); while a ring is being built exactly its first and its last location have `dc = 1`
(`OpenAt`).  In that state `get_next_segment(last)` finds the unique segment at `last` that is not
yet in a ring (`getNext_spec`), the loop extends the ring by it, and the invariant is re-established
— until the ring returns to its first location.  The number of segments not yet in a ring is a
termination measure (`ringLoop_spec`: that much fuel is enough).
-/
import Osmium.Lemmas.AreaLoc

namespace Osmium.Area

/-! ## counting -/

/-- number of segment ends at `v` -/
def deg (segs : List Seg) (v : Vec) : Nat :=
  (allSLocs segs.length).countP fun x => x.loc segs == v

/-- number of ends at `v` of the segments in `ds` -/
def dc (segs : List Seg) (ds : List Nat) (v : Vec) : Nat :=
  (allSLocs segs.length).countP fun x => x.loc segs == v && ds.contains x.item

theorem deg_eq_count (segs : List Seg) (v : Vec) : deg segs v = (endpoints segs).count v := by
  rw [← allSLocs_map_loc, List.count_eq_countP, List.countP_map]
  rfl

theorem dc_le_deg (segs : List Seg) (ds : List Nat) (v : Vec) : dc segs ds v ≤ deg segs v := by
  apply List.countP_mono_left
  intro x _ h
  simp only [Bool.and_eq_true] at h
  exact h.1

theorem dc_nil (segs : List Seg) (v : Vec) : dc segs [] v = 0 := by
  simp [dc]

/-- general form of `dc_cons` for a prefix of the slocation list -/
theorem countP_allSLocs_cons (segs : List Seg) (ds : List Nat) (r : Nat) (hr : r ∉ ds) (v : Vec) (m : Nat) :
    (allSLocs m).countP (fun x => x.loc segs == v && (r :: ds).contains x.item) =
    (allSLocs m).countP (fun x => x.loc segs == v && ds.contains x.item) +
      (if r < m then (if (segAt segs r).first = v then 1 else 0) + (if (segAt segs r).second = v then 1 else 0) else 0) := by
  induction m with
  | zero => simp [allSLocs]
  | succ m ih =>
    rw [allSLocs, List.countP_append, List.countP_append, ih]
    by_cases hm : m = r
    · subst hm
      simp [List.countP_cons, SLoc.loc, hr]
      omega
    · have hc : (r :: ds).contains m = ds.contains m := by
        simp only [List.contains_cons]
        have : (m == r) = false := by simpa using hm
        simp [this]
      have h1 : (r < m + 1) ↔ (r < m) := by omega
      simp only [List.countP_cons, List.countP_nil, hc, h1]
      omega

/-- putting segment `r` into a ring adds one end at each of its two end points -/
theorem dc_cons (segs : List Seg) (ds : List Nat) (r : Nat) (hr : r ∉ ds) (hlt : r < segs.length) (v : Vec) :
    dc segs (r :: ds) v = dc segs ds v +
      ((if (segAt segs r).first = v then 1 else 0) + (if (segAt segs r).second = v then 1 else 0)) := by
  unfold dc
  rw [countP_allSLocs_cons segs ds r hr v segs.length]
  simp [hlt]

/-- `dc` of a disjoint union -/
theorem dc_append (segs : List Seg) (R ds : List Nat) (hR : R.Nodup) (hd : ∀ i ∈ R, i ∉ ds)
    (hlt : ∀ i ∈ R, i < segs.length) (v : Vec) :
    dc segs (R ++ ds) v = dc segs R v + dc segs ds v := by
  induction R with
  | nil => simp [dc_nil]
  | cons r R ih =>
    rw [List.nodup_cons] at hR
    have h1 : r ∉ R ++ ds := by
      rw [List.mem_append]
      rintro (h | h)
      · exact hR.1 h
      · exact hd r List.mem_cons_self h
    rw [List.cons_append, dc_cons segs (R ++ ds) r h1 (hlt r List.mem_cons_self),
      dc_cons segs R r hR.1 (hlt r List.mem_cons_self),
      ih hR.2 (fun i hi => hd i (List.mem_cons_of_mem _ hi)) (fun i hi => hlt i (List.mem_cons_of_mem _ hi))]
    omega

theorem dc_perm (segs : List Seg) (ds ds' : List Nat) (h : ds.Perm ds') (v : Vec) :
    dc segs ds v = dc segs ds' v := by
  unfold dc
  apply List.countP_congr
  intro x _
  have : ds.contains x.item = ds'.contains x.item := by
    rw [Bool.eq_iff_iff]; simp [h.mem_iff]
  rw [this]

/-- `dc` through the sorted list `m_locations` -/
theorem dc_eq_locs (segs : List Seg) (ds : List Nat) (v : Vec) :
    dc segs ds v = ((locationsList segs).filter fun x => x.loc segs == v).countP fun x => ds.contains x.item := by
  rw [List.countP_filter]
  unfold dc
  rw [(locationsList_perm segs).countP_eq]
  apply List.countP_congr
  intro x _
  rw [Bool.and_comm]

theorem deg_eq_locs (segs : List Seg) (v : Vec) :
    deg segs v = ((locationsList segs).filter fun x => x.loc segs == v).length := by
  rw [← List.countP_eq_length_filter]
  unfold deg
  rw [(locationsList_perm segs).countP_eq]

/-! ## `get_next_segment` -/

/-- in a sorted list `std::lower_bound` (first element not smaller) is where the elements equal to
    `v` start, followed by the larger ones -/
theorem dropWhile_sorted (segs : List Seg) (v : Vec) (l : List SLoc) (hs : SortedLoc segs l) :
    l.dropWhile (fun x => (x.loc segs).lt v) =
      l.filter (fun x => x.loc segs == v) ++ l.filter (fun x => v.lt (x.loc segs)) := by
  induction l with
  | nil => simp
  | cons a t ih =>
    unfold SortedLoc at hs
    rw [List.pairwise_cons] at hs
    rw [List.dropWhile_cons]
    by_cases h1 : (a.loc segs).lt v = true
    · have h2 : (a.loc segs == v) = false := by
        simp only [beq_eq_false_iff_ne, ne_eq]
        rintro e; rw [e, vec_lt_irrefl] at h1; exact absurd h1 (by decide)
      have h3 : v.lt (a.loc segs) = false := vec_lt_asymm _ _ h1
      simp only [h1, if_true, List.filter_cons, h2, h3, Bool.false_eq_true, if_false]
      exact ih hs.2
    · have h1' : (a.loc segs).lt v = false := by simpa using h1
      simp only [h1]
      -- every later element is ≥ a ≥ v, so dropWhile stops and nothing smaller follows
      have hall : ∀ b ∈ t, (b.loc segs).lt v = false := by
        intro b hb
        cases hc : (b.loc segs).lt v with
        | false => rfl
        | true =>
          have h4 := hs.1 b hb
          by_cases hav : a.loc segs = v
          · rw [hav] at h4; rw [h4] at hc; exact absurd hc (by decide)
          · have h5 : v.lt (a.loc segs) = true := by
              cases h6 : v.lt (a.loc segs) with
              | true => rfl
              | false => exact absurd (vec_lt_total _ _ h1' h6) hav
            rw [vec_lt_trans _ _ _ hc h5] at h4; exact absurd h4 (by decide)
      have hdrop : t.dropWhile (fun x => (x.loc segs).lt v) = t := by
        cases t with
        | nil => rfl
        | cons b t' =>
          rw [List.dropWhile_cons, hall b List.mem_cons_self]; simp
      have ih' := ih hs.2
      rw [hdrop] at ih'
      by_cases hav : a.loc segs = v
      · have h2 : (a.loc segs == v) = true := by simpa using hav
        have h3 : v.lt (a.loc segs) = false := by rw [hav]; exact vec_lt_irrefl _
        simp only [List.filter_cons, h2, if_true, h3, Bool.false_eq_true, if_false, List.cons_append]
        rw [← ih']
      · have h2 : (a.loc segs == v) = false := by simpa using hav
        have h5 : v.lt (a.loc segs) = true := by
          cases h6 : v.lt (a.loc segs) with
          | true => rfl
          | false => exact absurd (vec_lt_total _ _ h1' h6) hav
        -- no later element equals v
        have hnone : t.filter (fun x => x.loc segs == v) = [] := by
          rw [List.filter_eq_nil_iff]
          intro b hb hbv
          have hbv' : b.loc segs = v := by simpa using hbv
          have h4 := hs.1 b hb
          rw [hbv', h5] at h4; exact absurd h4 (by decide)
        simp only [List.filter_cons, h2, Bool.false_eq_true, if_false, h5, if_true, hnone, List.nil_append]
        rw [hnone, List.nil_append] at ih'
        rw [← ih']

/-- a well-formed segment list: every segment has two different end points -/
def WfSegs (segs : List Seg) : Prop := ∀ s ∈ segs, s.wf = true

theorem segAt_wf (segs : List Seg) (hw : WfSegs segs) (i : Nat) (hi : i < segs.length) :
    (segAt segs i).first ≠ (segAt segs i).second := by
  have := hw (segAt segs i) (by rw [segAt_eq segs i hi]; exact List.getElem_mem hi)
  unfold Seg.wf at this
  intro e
  rw [e, vec_lt_irrefl] at this
  exact absurd this (by decide)

/-- two slocations of the same segment lie at different locations -/
theorem loc_flip_ne (segs : List Seg) (hw : WfSegs segs) (a b : SLoc) (ha : a.item < segs.length)
    (hab : a ≠ b) (hi : a.item = b.item) : a.loc segs ≠ b.loc segs := by
  obtain ⟨i, r⟩ := a
  obtain ⟨j, q⟩ := b
  simp only at hi ha
  subst hi
  have hne := segAt_wf segs hw i ha
  have hrq : r ≠ q := fun e => hab (by rw [e])
  cases r <;> cases q <;> simp_all [SLoc.loc] <;> exact fun e => hne e.symm

/-- `get_next_segment(v)` where two segment ends meet and exactly one of the two segments is
    already in a ring: it returns the other one. -/
theorem getNext_spec (segs : List Seg) (hw : WfSegs segs) (ds : List Nat) (v : Vec)
    (hdeg : deg segs v = 2) (hdc : dc segs ds v = 1) :
    ∃ r, getNext segs (locationsList segs) ds v = some r ∧ r ∉ ds ∧ r < segs.length ∧
      ((segAt segs r).first = v ∨ (segAt segs r).second = v) := by
  have hE : ∃ a b, (locationsList segs).filter (fun x => x.loc segs == v) = [a, b] := by
    have := deg_eq_locs segs v
    rw [hdeg] at this
    rcases hl : (locationsList segs).filter (fun x => x.loc segs == v) with _ | ⟨a, _ | ⟨b, _ | ⟨c, t⟩⟩⟩
    · rw [hl] at this; simp at this
    · rw [hl] at this; simp at this
    · exact ⟨a, b, hl⟩
    · rw [hl] at this; simp at this
  obtain ⟨a, b, hab⟩ := hE
  have hma : a ∈ (locationsList segs).filter (fun x => x.loc segs == v) := by rw [hab]; simp
  have hmb : b ∈ (locationsList segs).filter (fun x => x.loc segs == v) := by rw [hab]; simp
  rw [List.mem_filter] at hma hmb
  have hla : a.loc segs = v := by simpa using hma.2
  have hlb : b.loc segs = v := by simpa using hmb.2
  have hia := (mem_locationsList segs a).mp hma.1
  have hib := (mem_locationsList segs b).mp hmb.1
  have hends : ∀ x : SLoc, x.loc segs = v → ((segAt segs x.item).first = v ∨ (segAt segs x.item).second = v) := by
    intro x hx
    unfold SLoc.loc at hx
    split at hx
    · exact Or.inr hx
    · exact Or.inl hx
  have hcnt := dc_eq_locs segs ds v
  rw [hdc, hab] at hcnt
  unfold getNext
  rw [dropWhile_sorted segs v _ (locations_sorted segs), hab]
  simp only [List.cons_append, List.nil_append]
  by_cases hda : ds.contains a.item = true
  · have hdb : ds.contains b.item = false := by
      cases hc : ds.contains b.item with
      | false => rfl
      | true =>
        have hda' : a.item ∈ ds := by simpa using hda
        have hc' : b.item ∈ ds := by simpa using hc
        simp [List.countP_cons, hda', hc'] at hcnt
    simp only [hda, if_true, hdb, Bool.false_eq_true]
    exact ⟨b.item, rfl, by simpa using hdb, hib, hends b hlb⟩
  · simp only [hda]
    exact ⟨a.item, rfl, by simpa using hda, hia, hends a hla⟩

/-! ## paths -/

/-- `r` is a chain of directed segments from `a` to `b` : every entry starts where the previous
    one stopped -/
def IsPath (segs : List Seg) : Vec → List SLoc → Vec → Prop
  | a, [], b => a = b
  | a, x :: r, b => x.loc segs = a ∧ IsPath segs (x.stop segs) r b

theorem isPath_snoc (segs : List Seg) (a b : Vec) (r : List SLoc) (x : SLoc) :
    IsPath segs a (r ++ [x]) b ↔ IsPath segs a r (x.loc segs) ∧ x.stop segs = b := by
  induction r generalizing a with
  | nil =>
    simp only [List.nil_append, IsPath]
    constructor
    · rintro ⟨h1, h2⟩; exact ⟨h1.symm, h2⟩
    · rintro ⟨h1, h2⟩; exact ⟨h1.symm, h2⟩
  | cons y r ih =>
    simp only [List.cons_append, IsPath, ih]
    constructor
    · rintro ⟨h1, h2, h3⟩; exact ⟨⟨h1, h2⟩, h3⟩
    · rintro ⟨⟨h1, h2⟩, h3⟩; exact ⟨h1, h2, h3⟩

theorem flip_loc (segs : List Seg) (x : SLoc) : x.flip.loc segs = x.stop segs := by
  cases hx : x.reverse <;> simp [SLoc.flip, SLoc.loc, SLoc.stop, hx]

theorem flip_stop (segs : List Seg) (x : SLoc) : x.flip.stop segs = x.loc segs := by
  cases hx : x.reverse <;> simp [SLoc.flip, SLoc.loc, SLoc.stop, hx]

/-- `ProtoRing::reverse()` turns a chain from `a` to `b` into a chain from `b` to `a` -/
theorem isPath_rev (segs : List Seg) (a b : Vec) (r : List SLoc) (h : IsPath segs a r b) :
    IsPath segs b (revEntries r) a := by
  induction r generalizing a with
  | nil => simp only [IsPath] at h; simp [revEntries, IsPath, h]
  | cons x r ih =>
    simp only [IsPath] at h
    have := ih _ h.2
    simp only [revEntries, List.map_cons, List.reverse_cons] at this ⊢
    rw [isPath_snoc, flip_loc, flip_stop]
    exact ⟨this, h.1⟩

/-! ## the loop of `add_new_ring` -/

/-- the done set is a duplicate-free list of segment numbers -/
def DoneOk (segs : List Seg) (ds : List Nat) : Prop := ds.Nodup ∧ ∀ i ∈ ds, i < segs.length

/-- between two rings: no location has exactly one of its ends in a ring -/
def Closed (segs : List Seg) (ds : List Nat) : Prop := ∀ v, dc segs ds v ≠ 1

/-- while a ring is being built: exactly its first and last location have one end in a ring -/
def OpenAt (segs : List Seg) (ds : List Nat) (first last : Vec) : Prop :=
  first ≠ last ∧ dc segs ds first = 1 ∧ dc segs ds last = 1 ∧
  ∀ v, v ≠ first → v ≠ last → dc segs ds v ≠ 1

/-- every location has degree 0 or 2: no open ring, no split location -/
def Deg2 (segs : List Seg) : Prop := ∀ v, deg segs v = 0 ∨ deg segs v = 2

theorem doneOk_length_lt (segs : List Seg) (ds : List Nat) (hd : DoneOk segs ds) (r : Nat)
    (hr : r ∉ ds) (hlt : r < segs.length) : ds.length < segs.length := by
  have hnd : (r :: ds).Nodup := List.nodup_cons.mpr ⟨hr, hd.1⟩
  have hsub : (r :: ds) ⊆ List.range segs.length := by
    intro i hi
    rw [List.mem_range]
    rcases List.mem_cons.mp hi with rfl | hi
    · exact hlt
    · exact hd.2 i hi
  have := List.Nodup.length_le_of_subset hnd hsub
  simp only [List.length_cons, List.length_range] at this
  omega

/-- one step of the loop: the state after adding the segment found at `last` -/
theorem open_step (segs : List Seg) (hw : WfSegs segs) (h2 : Deg2 segs) (ds : List Nat)
    (hd : DoneOk segs ds) (first last : Vec) (ho : OpenAt segs ds first last) :
    ∃ r, getNext segs (locationsList segs) ds last = some r ∧ r ∉ ds ∧ r < segs.length ∧
      let e : SLoc := ⟨r, (segAt segs r).first != last⟩
      e.loc segs = last ∧ DoneOk segs (r :: ds) ∧
      ((e.stop segs = first ∧ Closed segs (r :: ds)) ∨ OpenAt segs (r :: ds) first (e.stop segs)) := by
  obtain ⟨hfl, hdf, hdl, hoth⟩ := ho
  have hdeg : deg segs last = 2 := by
    have := dc_le_deg segs ds last
    rcases h2 last with h | h <;> omega
  obtain ⟨r, hget, hr, hlt, hend⟩ := getNext_spec segs hw ds last hdeg hdl
  refine ⟨r, hget, hr, hlt, ?_⟩
  have hne := segAt_wf segs hw r hlt
  have hdcc := dc_cons segs ds r hr hlt
  have hdok : DoneOk segs (r :: ds) := by
    refine ⟨List.nodup_cons.mpr ⟨hr, hd.1⟩, ?_⟩
    intro i hi
    rcases List.mem_cons.mp hi with rfl | hi
    · exact hlt
    · exact hd.2 i hi
  -- the other end `w` of the new segment
  have key : ∀ w, w ≠ last → ((segAt segs r).first = last ∧ (segAt segs r).second = w) ∨
      ((segAt segs r).first = w ∧ (segAt segs r).second = last) →
      DoneOk segs (r :: ds) ∧ ((w = first ∧ Closed segs (r :: ds)) ∨ OpenAt segs (r :: ds) first w) := by
    intro w hwl hw'
    have hcw : dc segs (r :: ds) w = dc segs ds w + 1 := by
      rw [hdcc w]; rcases hw' with ⟨h1, h2'⟩ | ⟨h1, h2'⟩
      · have : (segAt segs r).first ≠ w := by rw [h1]; exact fun e => hwl e.symm
        simp [h2', this]
      · have : (segAt segs r).second ≠ w := by rw [h2']; exact fun e => hwl e.symm
        simp [h1, this]
    have hcl : dc segs (r :: ds) last = dc segs ds last + 1 := by
      rw [hdcc last]; rcases hw' with ⟨h1, h2'⟩ | ⟨h1, h2'⟩
      · have : (segAt segs r).second ≠ last := by rw [h2']; exact hwl
        simp [h1, this]
      · have : (segAt segs r).first ≠ last := by rw [h1]; exact hwl
        simp [h2', this]
    have hco : ∀ v, v ≠ last → v ≠ w → dc segs (r :: ds) v = dc segs ds v := by
      intro v hv1 hv2
      rw [hdcc v]; rcases hw' with ⟨h1, h2'⟩ | ⟨h1, h2'⟩
      · have a1 : (segAt segs r).first ≠ v := by rw [h1]; exact fun e => hv1 e.symm
        have a2 : (segAt segs r).second ≠ v := by rw [h2']; exact fun e => hv2 e.symm
        simp [a1, a2]
      · have a1 : (segAt segs r).first ≠ v := by rw [h1]; exact fun e => hv2 e.symm
        have a2 : (segAt segs r).second ≠ v := by rw [h2']; exact fun e => hv1 e.symm
        simp [a1, a2]
    have hbw : dc segs (r :: ds) w ≤ 2 := by
      have := dc_le_deg segs (r :: ds) w
      rcases h2 w with h | h <;> omega
    refine ⟨hdok, ?_⟩
    by_cases hwf : w = first
    · left
      refine ⟨hwf, ?_⟩
      intro v
      by_cases hv1 : v = last
      · rw [hv1, hcl, hdl]; omega
      · by_cases hv2 : v = w
        · rw [hv2, hcw, hwf, hdf]; omega
        · rw [hco v hv1 hv2]; exact hoth v (by rw [← hwf]; exact hv2) hv1
    · right
      have hw1 : dc segs ds w ≠ 1 := hoth w hwf hwl
      have hw0 : dc segs ds w = 0 := by omega
      refine ⟨fun e => hwf e.symm, ?_, ?_, ?_⟩
      · rw [hco first hfl (fun e => hwf e.symm)]; exact hdf
      · rw [hcw, hw0]
      · intro v hv1 hv2
        by_cases hv3 : v = last
        · rw [hv3, hcl, hdl]; omega
        · rw [hco v hv3 hv2]; exact hoth v hv1 hv3
  by_cases hf : (segAt segs r).first = last
  · have hb : ((segAt segs r).first != last) = false := by simpa using hf
    simp only [hb, SLoc.loc, SLoc.stop, Bool.false_eq_true, if_false]
    refine ⟨hf, ?_⟩
    exact key _ (by rw [← hf]; exact fun e => hne e.symm) (Or.inl ⟨hf, rfl⟩)
  · have hb : ((segAt segs r).first != last) = true := by simpa using hf
    have hs : (segAt segs r).second = last := by
      rcases hend with h | h
      · exact absurd h hf
      · exact h
    simp only [hb, SLoc.loc, SLoc.stop, if_true]
    refine ⟨hs, ?_⟩
    exact key _ hf (Or.inr ⟨rfl, hs⟩)

/-- THE LOOP OF `add_new_ring` : started in the state "first and last location have one end in a
    ring", with fuel at least the number of segments not in a ring, it terminates without an
    assertion failure; the ring it returns is a closed chain that extends the initial one by
    segments that were not in a ring before, and the result state is `Closed` again. -/
theorem ringLoop_spec (segs : List Seg) (hw : WfSegs segs) (h2 : Deg2 segs) :
    ∀ (fuel : Nat) (first last : Vec) (ds : List Nat) (cur : List SLoc),
    DoneOk segs ds → segs.length ≤ fuel + ds.length →
    ((first = last ∧ Closed segs ds) ∨ OpenAt segs ds first last) →
    IsPath segs first cur last →
    ∃ ds' ext, ringLoop segs (locationsList segs) fuel first last ds cur = some (ds', cur ++ ext) ∧
      DoneOk segs ds' ∧ Closed segs ds' ∧ IsPath segs first (cur ++ ext) first ∧
      ds' = (ext.map SLoc.item).reverse ++ ds := by
  intro fuel
  induction fuel with
  | zero =>
    intro first last ds cur hd hf hst hp
    rcases hst with ⟨he, hc⟩ | ho
    · subst he
      exact ⟨ds, [], by simp [ringLoop], hd, hc, by simpa using hp, by simp⟩
    · exfalso
      obtain ⟨r, _, hr, hlt, _⟩ := open_step segs hw h2 ds hd first last ho
      have := doneOk_length_lt segs ds hd r hr hlt
      omega
  | succ fuel ih =>
    intro first last ds cur hd hf hst hp
    rcases hst with ⟨he, hc⟩ | ho
    · subst he
      exact ⟨ds, [], by simp [ringLoop], hd, hc, by simpa using hp, by simp⟩
    · obtain ⟨r, hget, hr, hlt, hloc, hdok, hnext⟩ := open_step segs hw h2 ds hd first last ho
      have hne : (first == last) = false := by simpa using ho.1
      have hp' : IsPath segs first (cur ++ [⟨r, (segAt segs r).first != last⟩])
          (SLoc.stop segs ⟨r, (segAt segs r).first != last⟩) := by
        rw [isPath_snoc]; exact ⟨by rw [hloc]; exact hp, rfl⟩
      have hst' : (first = SLoc.stop segs ⟨r, (segAt segs r).first != last⟩ ∧ Closed segs (r :: ds)) ∨
          OpenAt segs (r :: ds) first (SLoc.stop segs ⟨r, (segAt segs r).first != last⟩) := by
        rcases hnext with ⟨h1, h2'⟩ | h1
        · exact Or.inl ⟨h1.symm, h2'⟩
        · exact Or.inr h1
      obtain ⟨ds', ext, hrun, hd', hc', hp'', hds'⟩ :=
        ih first _ (r :: ds) _ hdok (by simp only [List.length_cons]; omega) hst' hp'
      refine ⟨ds', ⟨r, (segAt segs r).first != last⟩ :: ext, ?_, hd', hc', ?_, ?_⟩
      · simp only [ringLoop, hne, Bool.false_eq_true, if_false, hget]
        rw [hrun]; simp
      · simpa using hp''
      · rw [hds']; simp

end Osmium.Area
