/-
C10 — order laws of the segment comparator and soundness/completeness of the sweep.

* `Vec.lt` (Location::operator<) is a strict total order.
* `Seg.lt` (NodeRefSegment::operator<, node_ref_segment.hpp 232-262) is a strict total order
  (total up to `=`) on ALL well-formed segments (`Seg.wf`: first end point strictly before the
  second one in location order, which is what the constructor establishes).
* `sortSegs` (insertion sort) produces THE sorted permutation: any sorted permutation of
  well-formed segments is that list, so `std::sort` — whatever algorithm — produces it as well.
* `findIntersections` (SegmentList::find_intersections with its `break`) counts exactly the
  intersecting pairs of a sorted list, given that an intersection forces overlapping x and y
  ranges (hypothesis `hr`, proved elsewhere from the geometry).
-/
import Osmium.Model.Area
import Mathlib.Tactic.Ring

namespace Osmium.Area

/-! ## location order -/

theorem vec_lt_iff (a b : Vec) : a.lt b = true ↔ a.x < b.x ∨ (a.x = b.x ∧ a.y < b.y) := by
  cases a; cases b; simp [Vec.lt]; omega

theorem vec_lt_false_iff (a b : Vec) : a.lt b = false ↔ ¬ (a.x < b.x ∨ (a.x = b.x ∧ a.y < b.y)) := by
  rw [← vec_lt_iff]; simp

theorem vec_lt_irrefl (a : Vec) : a.lt a = false := by
  rw [vec_lt_false_iff]; omega

theorem vec_lt_trans (a b c : Vec) : a.lt b = true → b.lt c = true → a.lt c = true := by
  simp only [vec_lt_iff]; omega

theorem vec_lt_total (a b : Vec) : a.lt b = false → b.lt a = false → a = b := by
  simp only [vec_lt_false_iff]
  cases a; cases b
  simp only [Vec.mk.injEq]
  omega

theorem vec_lt_asymm (a b : Vec) : a.lt b = true → b.lt a = false := by
  rw [vec_lt_iff, vec_lt_false_iff]; omega

/-! ## the direction comparison (segments with the same first point) -/

/-- the `if (lhs.first().location() == rhs.first().location())` branch of `operator<`,
    as a function of the two direction vectors -/
def dirLt (p q : Vec) : Bool :=
  if p.x == 0 && q.x == 0 then decide (p.y < q.y)
  else if p.y * q.x == q.y * p.x then decide (p.x < q.x) else decide (p.y * q.x > q.y * p.x)

theorem seg_lt_eq_first (a b : Seg) (h : a.first = b.first) :
    a.lt b = dirLt (a.second.sub a.first) (b.second.sub b.first) := by
  simp [Seg.lt, dirLt, h]

theorem seg_lt_ne_first (a b : Seg) (h : a.first ≠ b.first) : a.lt b = a.first.lt b.first := by
  simp [Seg.lt, h]

/-- the half plane in which the direction vectors of well-formed segments lie -/
def HP (p : Vec) : Prop := 0 < p.x ∨ (p.x = 0 ∧ 0 < p.y)

theorem wf_hp (s : Seg) (h : s.wf = true) : HP (s.second.sub s.first) := by
  unfold Seg.wf at h
  rw [vec_lt_iff] at h
  simp only [HP, Vec.sub]
  omega

/-- key characterisation: verticals first (by length), then by slope descending, then by
    length -/
def DirKey (p q : Vec) : Prop :=
  (p.x = 0 ∧ q.x = 0 ∧ p.y < q.y) ∨ (p.x = 0 ∧ 0 < q.x) ∨
  (0 < p.x ∧ 0 < q.x ∧ (q.y * p.x < p.y * q.x ∨ (p.y * q.x = q.y * p.x ∧ p.x < q.x)))

theorem dirLt_iff (p q : Vec) (hp : HP p) (hq : HP q) : dirLt p q = true ↔ DirKey p q := by
  obtain ⟨px, py⟩ := p
  obtain ⟨qx, qy⟩ := q
  simp only [HP] at hp hq
  simp only [dirLt, DirKey]
  by_cases h1 : px = 0
  · subst h1
    by_cases h2 : qx = 0
    · subst h2; simp
    · have hq0 : 0 < qx := by omega
      have hpy : 0 < py := by omega
      have : 0 < py * qx := Int.mul_pos hpy hq0
      have hne : ¬ (py * qx = 0) := by omega
      simp [h2, hne, this, hq0]
  · have hp0 : 0 < px := by omega
    by_cases h2 : qx = 0
    · subst h2
      have hqy : 0 < qy := by omega
      have : 0 < qy * px := Int.mul_pos hqy hp0
      have hne : ¬ (0 = qy * px) := by omega
      simp [h1, hne]
      omega
    · have hq0 : 0 < qx := by omega
      by_cases h3 : py * qx = qy * px
      · simp [h1, h2, h3, hp0, hq0]
      · simp [h1, h2, h3, hp0, hq0]

theorem dirKey_irrefl (p : Vec) : ¬ DirKey p p := by
  simp only [DirKey]; omega

theorem dirKey_trans (p q r : Vec) : DirKey p q → DirKey q r → DirKey p r := by
  obtain ⟨px, py⟩ := p
  obtain ⟨qx, qy⟩ := q
  obtain ⟨rx, ry⟩ := r
  simp only [DirKey]
  rintro (⟨h1, h2, h3⟩ | ⟨h1, h2⟩ | ⟨h1, h2, h3⟩) (⟨g1, g2, g3⟩ | ⟨g1, g2⟩ | ⟨g1, g2, g3⟩)
  · left; omega
  · right; left; omega
  · omega
  · omega
  · omega
  · right; left; omega
  · omega
  · omega
  · right; right
    refine ⟨h1, g2, ?_⟩
    -- qx * (py*rx - ry*px) = rx * (py*qx - qy*px) + px * (qy*rx - ry*qx)
    have key : qx * (py * rx - ry * px) = rx * (py * qx - qy * px) + px * (qy * rx - ry * qx) := by
      ring
    rcases h3 with h3 | ⟨h3, h3'⟩ <;> rcases g3 with g3 | ⟨g3, g3'⟩
    · left
      have a1 : 0 < rx * (py * qx - qy * px) := Int.mul_pos g2 (by omega)
      have a2 : 0 < px * (qy * rx - ry * qx) := Int.mul_pos h1 (by omega)
      have a3 : 0 < qx * (py * rx - ry * px) := by omega
      have := Int.pos_of_mul_pos_right a3 h2
      omega
    · left
      have a1 : 0 < rx * (py * qx - qy * px) := Int.mul_pos g2 (by omega)
      have a2 : px * (qy * rx - ry * qx) = 0 := by
        have : qy * rx - ry * qx = 0 := by omega
        rw [this]; simp
      have a3 : 0 < qx * (py * rx - ry * px) := by omega
      have := Int.pos_of_mul_pos_right a3 h2
      omega
    · left
      have a1 : rx * (py * qx - qy * px) = 0 := by
        have : py * qx - qy * px = 0 := by omega
        rw [this]; simp
      have a2 : 0 < px * (qy * rx - ry * qx) := Int.mul_pos h1 (by omega)
      have a3 : 0 < qx * (py * rx - ry * px) := by omega
      have := Int.pos_of_mul_pos_right a3 h2
      omega
    · right
      have a1 : rx * (py * qx - qy * px) = 0 := by
        have : py * qx - qy * px = 0 := by omega
        rw [this]; simp
      have a2 : px * (qy * rx - ry * qx) = 0 := by
        have : qy * rx - ry * qx = 0 := by omega
        rw [this]; simp
      have a3 : qx * (py * rx - ry * px) = 0 := by omega
      have : py * rx - ry * px = 0 := by
        rcases Int.mul_eq_zero.mp a3 with h | h
        · omega
        · exact h
      constructor <;> omega

theorem dirKey_total (p q : Vec) (hp : HP p) (hq : HP q) : ¬ DirKey p q → ¬ DirKey q p → p = q := by
  obtain ⟨px, py⟩ := p
  obtain ⟨qx, qy⟩ := q
  simp only [HP] at hp hq
  simp only [DirKey, Vec.mk.injEq]
  intro h1 h2
  by_cases hpx : px = 0
  · by_cases hqx : qx = 0
    · omega
    · omega
  · by_cases hqx : qx = 0
    · omega
    · have hp0 : 0 < px := by omega
      have hq0 : 0 < qx := by omega
      have e1 : py * qx = qy * px := by omega
      have e2 : px = qx := by omega
      subst e2
      refine ⟨rfl, ?_⟩
      have : (py - qy) * px = 0 := by
        have : (py - qy) * px = py * px - qy * px := by ring
        omega
      rcases Int.mul_eq_zero.mp this with h | h
      · omega
      · omega

/-! ## `operator<` of segments -/

theorem seg_ext_of_dir (a b : Seg) (h : a.first = b.first)
    (hd : a.second.sub a.first = b.second.sub b.first) : a = b := by
  obtain ⟨⟨ax, ay⟩, ⟨bx, by'⟩⟩ := a
  obtain ⟨⟨cx, cy⟩, ⟨dx, dy⟩⟩ := b
  simp only [Vec.sub, Vec.mk.injEq] at h hd
  simp only [Seg.mk.injEq, Vec.mk.injEq]
  omega

theorem seg_lt_irrefl (a : Seg) : a.lt a = false := by
  rw [seg_lt_eq_first a a rfl]
  generalize a.second.sub a.first = p
  obtain ⟨px, py⟩ := p
  by_cases h : px = 0 <;> simp [dirLt, h]

theorem seg_lt_trans (a b c : Seg) (ha : a.wf = true) (hb : b.wf = true) (hc : c.wf = true) :
    a.lt b = true → b.lt c = true → a.lt c = true := by
  intro h1 h2
  by_cases e1 : a.first = b.first
  · by_cases e2 : b.first = c.first
    · rw [seg_lt_eq_first a b e1, dirLt_iff _ _ (wf_hp a ha) (wf_hp b hb)] at h1
      rw [seg_lt_eq_first b c e2, dirLt_iff _ _ (wf_hp b hb) (wf_hp c hc)] at h2
      rw [seg_lt_eq_first a c (e1.trans e2), dirLt_iff _ _ (wf_hp a ha) (wf_hp c hc)]
      exact dirKey_trans _ _ _ h1 h2
    · rw [seg_lt_ne_first b c e2] at h2
      rw [seg_lt_ne_first a c (e1 ▸ e2), e1]
      exact h2
  · rw [seg_lt_ne_first a b e1] at h1
    by_cases e2 : b.first = c.first
    · rw [seg_lt_ne_first a c (e2 ▸ e1), ← e2]
      exact h1
    · rw [seg_lt_ne_first b c e2] at h2
      have h3 := vec_lt_trans _ _ _ h1 h2
      have e3 : a.first ≠ c.first := by
        intro e; rw [e, vec_lt_irrefl] at h3; exact Bool.noConfusion h3
      rw [seg_lt_ne_first a c e3]
      exact h3

theorem seg_lt_asymm (a b : Seg) (ha : a.wf = true) (hb : b.wf = true) :
    a.lt b = true → b.lt a = false := by
  intro h
  cases h' : b.lt a
  · rfl
  · have := seg_lt_trans a b a ha hb ha h h'
    rw [seg_lt_irrefl] at this
    exact Bool.noConfusion this

/-- incomparable well-formed segments are equal: the order is total up to == -/
theorem seg_lt_total (a b : Seg) (ha : a.wf = true) (hb : b.wf = true) :
    a.lt b = false → b.lt a = false → a = b := by
  intro h1 h2
  by_cases e : a.first = b.first
  · rw [seg_lt_eq_first a b e, ← Bool.not_eq_true, dirLt_iff _ _ (wf_hp a ha) (wf_hp b hb)] at h1
    rw [seg_lt_eq_first b a e.symm, ← Bool.not_eq_true, dirLt_iff _ _ (wf_hp b hb) (wf_hp a ha)] at h2
    exact seg_ext_of_dir a b e (dirKey_total _ _ (wf_hp a ha) (wf_hp b hb) h1 h2)
  · rw [seg_lt_ne_first a b e] at h1
    rw [seg_lt_ne_first b a (Ne.symm e)] at h2
    exact absurd (vec_lt_total _ _ h1 h2) e

/-- negative transitivity (follows from trans + total) -/
theorem seg_lt_incomp_trans (a b c : Seg) (ha : a.wf = true) (hb : b.wf = true) (hc : c.wf = true) :
    a.lt b = false → b.lt a = false → b.lt c = false → c.lt b = false →
    a.lt c = false ∧ c.lt a = false := by
  intro h1 h2 h3 h4
  have e1 := seg_lt_total a b ha hb h1 h2
  have e2 := seg_lt_total b c hb hc h3 h4
  subst e1; subst e2
  exact ⟨seg_lt_irrefl a, seg_lt_irrefl a⟩

/-- `a` not after `c` whenever `a` not after `b` and `b` not after `c` -/
theorem seg_le_trans (a b c : Seg) (ha : a.wf = true) (hb : b.wf = true) (hc : c.wf = true) :
    b.lt a = false → c.lt b = false → c.lt a = false := by
  intro h1 h2
  cases h : c.lt a
  · rfl
  · -- c < a; compare a and b
    cases h3 : a.lt b
    · have := seg_lt_total a b ha hb h3 h1
      subst this
      rw [h] at h2; exact Bool.noConfusion h2
    · have := seg_lt_trans c a b hc ha hb h h3
      rw [this] at h2; exact Bool.noConfusion h2

/-! ## sorting -/

/-- sorted = no later element is strictly smaller than an earlier one -/
def SortedSegs (l : List Seg) : Prop := l.Pairwise (fun a b => Seg.lt b a = false)

theorem insertSeg_perm (s : Seg) (l : List Seg) : (insertSeg s l).Perm (s :: l) := by
  induction l with
  | nil => exact List.Perm.refl _
  | cons h t ih =>
    simp only [insertSeg]
    split
    · exact List.Perm.refl _
    · exact (List.Perm.cons h ih).trans (List.Perm.swap s h t)

theorem sortSegs_perm (l : List Seg) : (sortSegs l).Perm l := by
  induction l with
  | nil => exact List.Perm.refl _
  | cons h t ih =>
    show (insertSeg h (sortSegs t)).Perm (h :: t)
    exact (insertSeg_perm h _).trans (List.Perm.cons h ih)

theorem insertSeg_sorted (s : Seg) (l : List Seg) (hs : s.wf = true) (hwf : ∀ x ∈ l, x.wf = true)
    (hl : SortedSegs l) : SortedSegs (insertSeg s l) := by
  induction l with
  | nil => simp [insertSeg, SortedSegs]
  | cons h t ih =>
    have hh : h.wf = true := hwf h (List.mem_cons_self)
    have ht : ∀ x ∈ t, x.wf = true := fun x hx => hwf x (List.mem_cons_of_mem _ hx)
    unfold SortedSegs at hl ih ⊢
    rw [List.pairwise_cons] at hl
    simp only [insertSeg]
    cases hlt : s.lt h
    · -- s not before h : h :: insertSeg s t
      simp only [Bool.false_eq_true, if_false]
      rw [List.pairwise_cons]
      refine ⟨?_, ih ht hl.2⟩
      intro x hx
      rcases List.mem_cons.mp ((insertSeg_perm s t).mem_iff.mp hx) with rfl | hx'
      · exact hlt
      · exact hl.1 x hx'
    · simp only [if_true]
      rw [List.pairwise_cons]
      refine ⟨?_, List.pairwise_cons.mpr hl⟩
      intro x hx
      rcases List.mem_cons.mp hx with rfl | hx'
      · exact seg_lt_asymm s x hs hh hlt
      · -- s < h, h ≤ x  ⇒  ¬ x < s
        have hxw := ht x hx'
        have h1 : h.lt s = false := seg_lt_asymm s h hs hh hlt
        exact seg_le_trans s h x hs hh hxw h1 (hl.1 x hx')

theorem sortSegs_sorted (l : List Seg) (hwf : ∀ s ∈ l, s.wf = true) : SortedSegs (sortSegs l) := by
  induction l with
  | nil => simp [sortSegs, SortedSegs]
  | cons h t ih =>
    have ht : ∀ x ∈ t, x.wf = true := fun x hx => hwf x (List.mem_cons_of_mem _ hx)
    show SortedSegs (insertSeg h (sortSegs t))
    refine insertSeg_sorted h _ (hwf h List.mem_cons_self) ?_ (ih ht)
    intro x hx
    exact ht x ((sortSegs_perm t).mem_iff.mp hx)

/-- the sorted list is a function of the multiset: any two sorted permutations of well-formed
    segments are equal -/
theorem sorted_perm_eq (l l' : List Seg) (hwf : ∀ s ∈ l, s.wf = true) (hp : l.Perm l')
    (hs : SortedSegs l) (hs' : SortedSegs l') : l = l' := by
  induction l generalizing l' with
  | nil => exact (List.Perm.nil_eq hp)
  | cons a t ih =>
    cases l' with
    | nil => exact absurd hp.symm (List.Perm.nil_eq · |> fun e => by cases e)
    | cons b t' =>
      unfold SortedSegs at hs hs'
      rw [List.pairwise_cons] at hs hs'
      have ha : a.wf = true := hwf a List.mem_cons_self
      have hbm : b ∈ a :: t := hp.mem_iff.mpr List.mem_cons_self
      have hb : b.wf = true := hwf b hbm
      have hab : a = b := by
        rcases List.mem_cons.mp hbm with e | hbt
        · exact e.symm
        · have ham : a ∈ b :: t' := hp.mem_iff.mp List.mem_cons_self
          rcases List.mem_cons.mp ham with e | hat'
          · exact e
          · exact seg_lt_total a b ha hb (hs'.1 a hat') (hs.1 b hbt)
      subst hab
      have hp' : t.Perm t' := List.Perm.cons_inv hp
      rw [ih t' (fun x hx => hwf x (List.mem_cons_of_mem _ hx)) hp' hs.2 hs'.2]

theorem sortSegs_perm_invariant (l l' : List Seg) (hwf : ∀ s ∈ l, s.wf = true) (hp : l.Perm l') :
    sortSegs l = sortSegs l' := by
  have hwf' : ∀ s ∈ l', s.wf = true := fun s hs => hwf s (hp.mem_iff.mpr hs)
  refine sorted_perm_eq _ _ ?_ (((sortSegs_perm l).trans hp).trans (sortSegs_perm l').symm)
    (sortSegs_sorted l hwf) (sortSegs_sorted l' hwf')
  intro s hs
  exact hwf s ((sortSegs_perm l).mem_iff.mp hs)

/-! ## the sweep -/

theorem first_x_le_of_not_lt (a b : Seg) (h : b.lt a = false) : a.first.x ≤ b.first.x := by
  by_cases e : b.first = a.first
  · rw [e]
  · rw [seg_lt_ne_first b a e, vec_lt_false_iff] at h
    omega

/-- the sort key makes first.x ascending -/
theorem sorted_first_x (l : List Seg) (hs : SortedSegs l) :
    l.Pairwise (fun a b => a.first.x ≤ b.first.x) :=
  List.Pairwise.imp (fun {a b} h => first_x_le_of_not_lt a b h) hs

/-- number of later segments that intersect `s` (no `break`, no range pre-tests) -/
def countWith (s : Seg) : List Seg → Nat
  | [] => 0
  | t :: rest => (if s.intersect? t then 1 else 0) + countWith s rest

/-- number of pairs `i < j` with `intersect? l[i] l[j]` -/
def countPairs : List Seg → Nat
  | [] => 0
  | s :: rest => countWith s rest + countPairs rest

theorem countWith_eq_zero_iff (s : Seg) (l : List Seg) :
    countWith s l = 0 ↔ ∀ t ∈ l, s.intersect? t = false := by
  induction l with
  | nil => simp [countWith]
  | cons h t ih =>
    simp only [countWith, Nat.add_eq_zero_iff, ih, List.mem_cons, forall_eq_or_imp]
    cases s.intersect? h <;> simp

theorem countPairs_eq_zero_iff (l : List Seg) :
    countPairs l = 0 ↔ l.Pairwise (fun a b => a.intersect? b = false) := by
  induction l with
  | nil => simp [countPairs]
  | cons h t ih =>
    simp only [countPairs, Nat.add_eq_zero_iff, ih, List.pairwise_cons, countWith_eq_zero_iff]

/-- the inner loop with its `break` and its y-range pre-test counts exactly the later segments
    that intersect `s1`, when `first.x` ascends along `rest` -/
theorem countFrom_eq_countWith (s1 : Seg) (rest : List Seg)
    (hx : rest.Pairwise (fun a b => a.first.x ≤ b.first.x))
    (hr : ∀ t ∈ rest, s1.intersect? t = true →
        t.first.x ≤ s1.second.x ∧ s1.yRangeOverlap t = true) :
    countFrom s1 rest = countWith s1 rest := by
  induction rest with
  | nil => rfl
  | cons s2 rest ih =>
    rw [List.pairwise_cons] at hx
    have hr' : ∀ t ∈ rest, s1.intersect? t = true →
        t.first.x ≤ s1.second.x ∧ s1.yRangeOverlap t = true :=
      fun t ht => hr t (List.mem_cons_of_mem _ ht)
    simp only [countFrom]
    by_cases hout : s2.outsideXRange s1 = true
    · -- the `break`: nothing later can intersect s1
      rw [if_pos hout]
      symm
      rw [countWith_eq_zero_iff]
      have hgt : s1.second.x < s2.first.x := by
        simpa [Seg.outsideXRange] using hout
      intro t ht
      cases hi : s1.intersect? t
      · rfl
      · have h1 := (hr t ht hi).1
        rcases List.mem_cons.mp ht with rfl | ht'
        · omega
        · have := hx.1 t ht'
          omega
    · rw [if_neg hout, ih hx.2 hr']
      simp only [countWith]
      congr 1
      cases hi : s1.intersect? s2
      · simp
      · have := (hr s2 List.mem_cons_self hi).2
        simp [this]

/-- the count is exactly the number of intersecting pairs -/
theorem sweep_counts_of (l : List Seg) (hs : SortedSegs l)
    (hr : ∀ s ∈ l, ∀ t ∈ l, s.intersect? t = true →
        t.first.x ≤ s.second.x ∧ s.first.x ≤ t.second.x ∧ s.yRangeOverlap t = true) :
    findIntersections l = countPairs l := by
  induction l with
  | nil => rfl
  | cons s1 rest ih =>
    have hx := sorted_first_x _ hs
    unfold SortedSegs at hs
    rw [List.pairwise_cons] at hs hx
    simp only [findIntersections, countPairs]
    rw [ih hs.2 (fun s hs' t ht => hr s (List.mem_cons_of_mem _ hs') t (List.mem_cons_of_mem _ ht))]
    congr 1
    apply countFrom_eq_countWith s1 rest hx.2
    intro t ht hi
    have := hr s1 List.mem_cons_self t (List.mem_cons_of_mem _ ht) hi
    exact ⟨this.1, this.2.2⟩

/-- soundness and completeness of the sweep with its `break`, given that an intersection
    forces overlapping x and y ranges (hypothesis `hr`, proved elsewhere from the geometry) -/
theorem sweep_complete_of (l : List Seg) (hs : SortedSegs l)
    (hr : ∀ s ∈ l, ∀ t ∈ l, s.intersect? t = true →
        t.first.x ≤ s.second.x ∧ s.first.x ≤ t.second.x ∧ s.yRangeOverlap t = true) :
    findIntersections l = 0 ↔ l.Pairwise (fun a b => a.intersect? b = false) := by
  rw [sweep_counts_of l hs hr, countPairs_eq_zero_iff]

/-! ## non-vacuity -/

/-- well-formed segments sharing the first point, in `operator<` order: vertical, steep, flat
    short, flat long, descending -/
example :
    let o : Vec := ⟨0, 0⟩
    let l : List Seg := [⟨o, ⟨0, 5⟩⟩, ⟨o, ⟨1, 3⟩⟩, ⟨o, ⟨2, 2⟩⟩, ⟨o, ⟨4, 4⟩⟩, ⟨o, ⟨3, -1⟩⟩, ⟨⟨1, 0⟩, ⟨1, 1⟩⟩]
    l.all Seg.wf = true ∧ sortSegs l.reverse = l := by decide

/-- the hypotheses of `sweep_counts_of` are satisfiable with a non-zero count and a `break` -/
example :
    let l : List Seg := [⟨⟨0, 0⟩, ⟨2, 2⟩⟩, ⟨⟨0, 2⟩, ⟨2, 0⟩⟩, ⟨⟨5, 0⟩, ⟨6, 0⟩⟩]
    sortSegs l = l ∧ findIntersections l = 1 ∧ countPairs l = 1 := by decide

end Osmium.Area
