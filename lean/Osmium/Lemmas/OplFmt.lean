/-
Helper lemmas for the OPL round trip (Props/C01Text.lean): the attribute loop, the leaf
conversions of C13 / C14 re-packaged for the OPL parser wrappers, "no separator inside a
field" facts about what the writer emits.
-/
import Osmium.Model.OplFmt
import Osmium.Props.C13
import Osmium.Props.C14

namespace Osmium.OplFmt
open Osmium.Osm Osmium.TextFmt Osmium.Conv Osmium.Utf8
open Osmium.Conv.IntLemmas (digitsStr valMS AllDigits NoDigitHead)

/-! ### the domain of strings (from the property's quantifier text) -/

/-- a string of the domain: the UTF-8 encoding of scalar values other than NUL, at most 1024
    bytes; `lim` bounds the code points (0x110000 = all of Unicode) -/
def strOK (lim : Nat) (bs : Bytes) : Bool :=
  match decodeStr bs with
  | .ok s => s.all (fun c => decide (IsScalar c) && decide (c < lim)) && encodeStr s == bs && decide (bs.length ≤ 1024)
  | .error _ => false

theorem strOK_spec {lim : Nat} {bs : Bytes} (h : strOK lim bs = true) :
    ∃ s : List Nat, bs = encodeStr s ∧ (∀ c ∈ s, IsScalar c) ∧ (∀ c ∈ s, c < lim) ∧ bs.length ≤ 1024 := by
  unfold strOK at h
  split at h
  · rename_i s _
    simp only [Bool.and_eq_true, List.all_eq_true, decide_eq_true_eq, beq_iff_eq] at h
    exact ⟨s, h.1.2.symm, fun c hc => (h.1.1 c hc).1, fun c hc => (h.1.1 c hc).2, h.2⟩
  · cases h

/-! ### what may follow a field -/

/-- the rest of the line after a field: nothing, or the space in front of the next field -/
def Sep (r : Bytes) : Prop := r = [] ∨ ∃ t, r = 0x20 :: t

theorem Sep.noDigit {r : Bytes} (h : Sep r) : NoDigitHead r := by
  rcases h with rfl | ⟨t, rfl⟩ <;> simp [NoDigitHead, peek, isDigit]

theorem Sep.terminates {r : Bytes} (h : Sep r) : C13.Terminates r := by
  rcases h with rfl | ⟨t, rfl⟩ <;>
    exact ⟨by simp [NoDigitHead, peek, isDigit], by simp [peek, cDot], by simp [peek, ce], by simp [peek, cE]⟩

theorem Sep.atStop {r : Bytes} (h : Sep r) : Opl.AtStop r := by
  rcases h with rfl | ⟨t, rfl⟩
  · exact Or.inl rfl
  · exact Or.inr ⟨_, _, rfl, by decide⟩

theorem Sep.notNonEmpty {r : Bytes} (h : Sep r) : nonEmptyB (peek r) = false := by
  rcases h with rfl | ⟨t, rfl⟩ <;> simp [peek, nonEmptyB]

theorem Sep.tsStop {r : Bytes} (h : Sep r) : (peek r == 0 || peek r == 32 || peek r == 9) = true := by
  rcases h with rfl | ⟨t, rfl⟩ <;> simp [peek]

/-- all bytes are "section" bytes: no NUL, space, tab -/
def AllNE (s : Bytes) : Prop := ∀ b ∈ s, nonEmptyB b = true

theorem AllNE.nil : AllNE [] := by intro b hb; cases hb
theorem AllNE.append {a b : Bytes} (ha : AllNE a) (hb : AllNE b) : AllNE (a ++ b) := by
  intro x hx; rcases List.mem_append.1 hx with h | h; exact ha x h; exact hb x h
theorem AllNE.cons {c : UInt8} {a : Bytes} (hc : nonEmptyB c = true) (ha : AllNE a) : AllNE (c :: a) := by
  intro x hx; rcases List.mem_cons.1 hx with h | h; subst h; exact hc; exact ha x h

theorem skipSection_append {s r : Bytes} (hs : AllNE s) (hr : Sep r) : skipSection (s ++ r) = r := by
  unfold skipSection
  induction s with
  | nil => rcases hr with rfl | ⟨t, rfl⟩ <;> simp [nonEmptyB]
  | cons c s ih =>
    have hc : nonEmptyB c = true := hs c (by simp)
    simp only [List.cons_append, List.dropWhile_cons, hc, if_true]
    exact ih (fun b hb => hs b (by simp [hb]))

theorem sectionOf_append {s r : Bytes} (hs : AllNE s) (hr : Sep r) : sectionOf (s ++ r) = s := by
  unfold sectionOf
  induction s with
  | nil => rcases hr with rfl | ⟨t, rfl⟩ <;> simp [nonEmptyB]
  | cons c s ih =>
    have hc : nonEmptyB c = true := hs c (by simp)
    simp only [List.cons_append, List.takeWhile_cons, hc, if_true]
    rw [ih (fun b hb => hs b (by simp [hb]))]

theorem peek_append_ne {s r : Bytes} (hne : s ≠ []) (hs : AllNE s) : nonEmptyB (peek (s ++ r)) = true := by
  cases s with
  | nil => exact absurd rfl hne
  | cons c s => exact hs c (by simp)

/-! ### attribute loop -/

theorem attrLoop_mono {σ : Type} (field : σ → UInt8 → Bytes → Except PErr (σ × Bytes)) :
    ∀ (f : Nat) (st : σ) (s : Bytes) (r : σ), attrLoop field f st s = .ok r → attrLoop field (f + 1) st s = .ok r := by
  intro f
  induction f with
  | zero => intro st s r h; simp [attrLoop] at h
  | succ f ih =>
    intro st s r h
    rw [attrLoop] at h ⊢
    by_cases he : s.isEmpty = true
    · simpa [he] using h
    · simp only [he, Bool.false_eq_true, if_false] at h ⊢
      cases hp : pSpace s with
      | error e => rw [hp] at h; simp at h
      | ok s1 =>
        rw [hp] at h
        simp only [bindE_ok] at h ⊢
        cases s1 with
        | nil => simpa using h
        | cons c s2 =>
          simp only at h ⊢
          cases hf : field st c s2 with
          | error e => rw [hf] at h; simp at h
          | ok p =>
            rw [hf] at h
            simp only [bindE_ok] at h ⊢
            exact ih _ _ _ h

theorem attrLoop_mono_add {σ : Type} (field : σ → UInt8 → Bytes → Except PErr (σ × Bytes))
    (f k : Nat) (st : σ) (s : Bytes) (r : σ) (h : attrLoop field f st s = .ok r) :
    attrLoop field (f + k) st s = .ok r := by
  induction k with
  | zero => exact h
  | succ k ih => exact attrLoop_mono field _ _ _ _ ih

/-- one iteration: a space, the attribute character, its value -/
theorem attrLoop_step {σ : Type} (field : σ → UInt8 → Bytes → Except PErr (σ × Bytes)) (f : Nat) (st st' : σ)
    (c : UInt8) (s rest : Bytes) (hc : isSpTab c = false) (hf : field st c s = .ok (st', rest)) (r : σ)
    (h : attrLoop field f st' rest = .ok r) :
    attrLoop field (f + 1) st (0x20 :: c :: s) = .ok r := by
  rw [attrLoop]
  have hp : pSpace (0x20 :: c :: s) = .ok (c :: s) := by
    simp [pSpace, peek, isSpTab, List.dropWhile_cons] at hc ⊢
    simp [hc]
  simp only [List.isEmpty_cons, Bool.false_eq_true, if_false, hp, bindE_ok, hf]
  exact h

theorem attrLoop_nil {σ : Type} (field : σ → UInt8 → Bytes → Except PErr (σ × Bytes)) (f : Nat) (st : σ) :
    attrLoop field (f + 1) st [] = .ok st := by
  simp [attrLoop]

/-! ### leaf conversions -/

/-- bytes of numbers: '-', '.', digits -/
def NumByte (b : UInt8) : Prop := b = 0x2d ∨ b = 0x2e ∨ (48 ≤ b.toNat ∧ b.toNat ≤ 57)

theorem NumByte.facts {b : UInt8} (h : NumByte b) :
    nonEmptyB b = true ∧ b ≠ 0x2c ∧ b ≠ 0x40 ∧ b ≠ 0x78 ∧ b ≠ 0x79 ∧ b ≠ 0x3d ∧ b ≠ 0x25 := by
  rcases h with rfl | rfl | ⟨h1, h2⟩
  · decide
  · decide
  · have ne : ∀ c : UInt8, (c.toNat < 48 ∨ 57 < c.toNat) → b ≠ c := by
      intro c hc hbc; subst hbc; omega
    refine ⟨?_, ne _ (by decide), ne _ (by decide), ne _ (by decide), ne _ (by decide), ne _ (by decide), ne _ (by decide)⟩
    have a := ne 0 (by decide); have b' := ne 0x20 (by decide); have c := ne 9 (by decide)
    simp [nonEmptyB, a, b', c]

theorem digitsStr_num {ds : List Nat} (hd : AllDigits ds) : ∀ b ∈ digitsStr ds, NumByte b := by
  intro b hb
  simp only [digitsStr, List.mem_map] at hb
  obtain ⟨d, hd', rfl⟩ := hb
  right; right
  have := hd d hd'
  rw [IntLemmas.toNat_digitChar this]; omega

theorem outputInt_shape (v : Int) (h0 : int64Min < v) (h1 : v ≤ int64Max) :
    ∃ out, outputInt v = some out ∧ out ≠ [] ∧ ∀ b ∈ out, NumByte b := by
  simp only [int64Min, int64Max] at h0 h1
  have hnot : ¬ (v ≤ int64Min ∨ v > int64Max) := by simp only [int64Min, int64Max]; omega
  by_cases hneg : v < 0
  · obtain ⟨ds, e1, _, e3, e4⟩ := IntLemmas.revDigits64_20 (-v).toNat (by omega)
    refine ⟨cMinus :: digitsStr ds, by simp [outputInt, hnot, hneg, e1], by simp, ?_⟩
    intro b hb
    rcases List.mem_cons.1 hb with rfl | hb
    · left; rfl
    · exact digitsStr_num e4 b hb
  · obtain ⟨ds, e1, _, e3, e4⟩ := IntLemmas.revDigits64_20 v.toNat (by omega)
    refine ⟨digitsStr ds, by simp [outputInt, hnot, hneg, e1], ?_, digitsStr_num e4⟩
    cases ds with
    | nil => exact absurd rfl e3
    | cons d ds => simp [digitsStr]

theorem AllNE_of_num {s : Bytes} (h : ∀ b ∈ s, NumByte b) : AllNE s := fun b hb => (h b hb).facts.1

theorem wInt_pId (v : Int) (h0 : int64Min < v) (h1 : v ≤ int64Max) :
    ∃ out, wInt v = .ok out ∧ out ≠ [] ∧ (∀ b ∈ out, NumByte b) ∧
      ∀ rest, NoDigitHead rest → pId (out ++ rest) = .ok (v, rest) := by
  obtain ⟨out, ho, hne, hnum⟩ := outputInt_shape v h0 h1
  refine ⟨out, by simp [wInt, ho], hne, hnum, ?_⟩
  intro rest hr
  obtain ⟨out', ho', hp⟩ := IntLemmas.output_int_roundtrip v h0 h1 rest hr
  rw [ho] at ho'
  cases ho'
  simp [pId, pInt, hp]

theorem wInt_pU32 (v : Nat) (h1 : v ≤ 4294967295) :
    ∃ out, wInt (v : Int) = .ok out ∧ out ≠ [] ∧ (∀ b ∈ out, NumByte b) ∧
      ∀ rest, NoDigitHead rest → pU32 (out ++ rest) = .ok (v, rest) := by
  obtain ⟨out, ho, hne, hnum⟩ := outputInt_shape v (by simp only [int64Min]; omega) (by simp only [int64Max]; omega)
  refine ⟨out, by simp [wInt, ho], hne, hnum, ?_⟩
  intro rest hr
  obtain ⟨out', ho', hp⟩ := IntLemmas.output_int_roundtrip_u32 v (by omega) (by omega) rest hr
  rw [ho] at ho'
  cases ho'
  simp [pU32, pInt, u32Max, hp]

/-- strings: what `append_utf8_encoded_string` writes, `opl_parse_string` reads back, and it
    contains no structural byte (C14) -/
theorem wStr_pStr (bs : Bytes) (h : strOK 0x110000 bs = true) :
    ∃ e, wStr bs = .ok e ∧ (∀ b ∈ e, b.toNat ∉ Opl.structural) ∧
      ∀ rest, Opl.AtStop rest → pStr (e ++ rest) = .ok (bs, rest) := by
  obtain ⟨s, rfl, hsc, hlt, _⟩ := strOK_spec h
  obtain ⟨e, he, hns⟩ := C14.opl_no_structural s hsc
  refine ⟨e, by simp [wStr, he], hns, ?_⟩
  intro rest hr
  obtain ⟨e', he', hp⟩ := C14.opl_roundtrip s hsc rest hr
  rw [he] at he'
  cases he'
  simp [pStr, hp]

theorem AllNE_of_noStructural {e : Bytes} (h : ∀ b ∈ e, b.toNat ∉ Opl.structural) : AllNE e := by
  intro b hb
  have := h b hb
  simp only [Opl.structural, List.mem_cons, List.not_mem_nil, or_false, not_or] at this
  have h0 : b ≠ 0 := fun hh => this.1 (by rw [hh]; rfl)
  have h1 : b ≠ 0x20 := fun hh => this.2.2.2.2.1 (by rw [hh]; rfl)
  have h2 : b ≠ 9 := fun hh => this.2.1 (by rw [hh]; rfl)
  simp [nonEmptyB, h0, h1, h2]

theorem noStructural_ne {e : Bytes} (h : ∀ b ∈ e, b.toNat ∉ Opl.structural) :
    ∀ b ∈ e, b ≠ 0x2c ∧ b ≠ 0x3d ∧ b ≠ 0x40 := by
  intro b hb
  have := h b hb
  simp only [Opl.structural, List.mem_cons, List.not_mem_nil, or_false, not_or] at this
  exact ⟨fun hh => this.2.2.2.2.2.1 (by rw [hh]; rfl), fun hh => this.2.2.2.2.2.2.1 (by rw [hh]; rfl),
    fun hh => this.2.2.2.2.2.2.2 (by rw [hh]; rfl)⟩

theorem toIsoAll_length (t : Nat) : (toIsoAll t).length = 20 := by
  simp [toIsoAll_eq, fmt2, fmt4]

theorem toIsoAll_head (t : Nat) : ∃ d r, toIsoAll t = digitChar d :: r := by
  rw [toIsoAll_eq]; exact ⟨_, _, rfl⟩

theorem digitChar_num (d : Nat) : NumByte (digitChar d) := by
  right; right
  rw [← digitChar_mod, IntLemmas.toNat_digitChar (Nat.mod_lt _ (by decide))]
  have := Nat.mod_lt d (show 10 > 0 by decide)
  omega

/-- timestamps: `to_iso` then `opl_parse_timestamp` -/
theorem toIso_pTs (t : Nat) (ht : t < 4294967296) (rest : Bytes) (hr : Sep rest) :
    pTs (toIso t ++ rest) = .ok (t, rest) := by
  by_cases h0 : t = 0
  · subst h0
    have : toIso 0 = [] := by decide
    simp [this, pTs, oplParseTimestampV, hr.tsStop]
  · have hb : (t != 0) = true := by simpa using h0
    obtain ⟨d, r, hd⟩ := toIsoAll_head t
    have hpk : peek (toIsoAll t ++ rest) = digitChar d := by rw [hd]; rfl
    have hn := (digitChar_num d).facts
    have hstop : (peek (toIsoAll t ++ rest) == 0 || peek (toIsoAll t ++ rest) == 32 || peek (toIsoAll t ++ rest) == 9) = false := by
      rw [hpk]
      have := hn.1
      simp only [nonEmptyB, Bool.and_eq_true, bne_iff_ne, ne_eq] at this
      simp [this.1.1, this.1.2, this.2]
    have hdrop : (toIsoAll t ++ rest).drop 20 = rest := by
      rw [List.drop_append_of_le_length (by rw [toIsoAll_length])]
      simp [List.drop_of_length_le (Nat.le_of_eq (toIsoAll_length t))]
    simp [toIso, hb, pTs, oplParseTimestampV, hstop, (ts_roundtrip_fixed true true t ht rest).2, hdrop]

theorem formatCoord_shape (v : Int) (h1 : int32Min ≤ v) (h2 : v ≤ int32Max) :
    formatCoord v ≠ [] ∧ ∀ b ∈ formatCoord v, NumByte b := by
  simp only [int32Min, int32Max] at h1 h2
  unfold formatCoord
  by_cases hmin : v = int32Min
  · subst hmin
    have hb : (int32Min == int32Min) = true := by decide
    simp only [hb, if_true]
    refine ⟨by simp, ?_⟩
    intro b hb
    simp only [List.mem_cons, List.not_mem_nil, or_false] at hb
    rcases hb with rfl | rfl | rfl | rfl | rfl | rfl | rfl | rfl | rfl | rfl | rfl | rfl <;>
      first | (left; rfl) | (right; left; rfl) | (right; right; decide)
  · have hne : (v == int32Min) = false := by simpa using hmin
    simp only [int32Min] at hmin
    rw [hne]
    simp only [Bool.false_eq_true, if_false]
    have abs : ∀ n : Nat, n ≤ 2147483647 → formatCoordAbs n ≠ [] ∧ ∀ b ∈ formatCoordAbs n, NumByte b := by
      intro n hn
      obtain ⟨hi, kept, hhi, hk, hne, _, _, hfmt, _⟩ := formatCoordAbs_spec n hn
      rw [hfmt]
      constructor
      · cases hi with
        | nil => exact absurd rfl hne
        | cons d ds => simp [digitsStr]
      · intro b hb
        rcases List.mem_append.1 hb with hb | hb
        · exact digitsStr_num hhi b hb
        · split at hb
          · cases hb
          · rcases List.mem_cons.1 hb with rfl | hb
            · right; left; rfl
            · exact digitsStr_num hk b hb
    by_cases hneg : v < 0
    · rw [if_pos hneg]
      obtain ⟨_, hb⟩ := abs (-v).toNat (by omega)
      refine ⟨by simp, ?_⟩
      intro b hb'
      rcases List.mem_cons.1 hb' with rfl | hb'
      · left; rfl
      · exact hb b hb'
    · rw [if_neg hneg]
      exact abs v.toNat (by omega)

theorem formatCoord_pCoord (v : Int) (h1 : int32Min ≤ v) (h2 : v ≤ int32Max) (rest : Bytes)
    (hr : C13.Terminates rest) : pCoord (formatCoord v ++ rest) = .ok (v, rest) := by
  simp [pCoord, C13.coord_roundtrip .now v h1 h2 rest hr]

/-! ### tags section -/

def TagOK (t : Tag) : Prop := strOK 0x110000 t.key = true ∧ strOK 0x110000 t.value = true

theorem Sep.spOrEnd {r : Bytes} (h : Sep r) : (isSpTab (peek r) || peek r == 0) = true := by
  rcases h with rfl | ⟨t, rfl⟩ <;> simp [peek, isSpTab]

theorem strOK_len {lim : Nat} {bs : Bytes} (h : strOK lim bs = true) : bs.length ≤ 1024 := by
  obtain ⟨_, _, _, _, hl⟩ := strOK_spec h; exact hl

theorem joinSep_cons2 (sep : UInt8) (a b : Bytes) (l : List Bytes) :
    joinSep sep (a :: b :: l) = a ++ sep :: joinSep sep (b :: l) := rfl

/-- one rendered tag, in front of anything that stops a string -/
theorem wTag_spec (t : Tag) (h : TagOK t) :
    ∃ x, wTag t = .ok x ∧ x ≠ [] ∧ AllNE x ∧
      ∀ tail, Opl.AtStop tail →
        bindE (pStr (x ++ tail)) (fun (k, s1) => bindE (pChar 0x3d s1) fun s2 => bindE (pStr s2) fun (v, s3) =>
          (Except.ok (k, v, s3) : Except PErr (Bytes × Bytes × Bytes))) = .ok (t.key, t.value, tail) := by
  obtain ⟨k, hk, hkn, hkp⟩ := wStr_pStr t.key h.1
  obtain ⟨v, hv, hvn, hvp⟩ := wStr_pStr t.value h.2
  refine ⟨k ++ 0x3d :: v, by simp [wTag, hk, hv], by simp, ?_, ?_⟩
  · exact (AllNE_of_noStructural hkn).append (AllNE.cons (by decide) (AllNE_of_noStructural hvn))
  · intro tail ht
    have e1 : (k ++ 0x3d :: v) ++ tail = k ++ (0x3d :: (v ++ tail)) := by simp
    rw [e1, hkp _ (Or.inr ⟨_, _, rfl, by decide⟩)]
    simp [pChar, hvp tail ht]

theorem tags_spec (ts : List Tag) (h : ∀ t ∈ ts, TagOK t) :
    ∃ xs, mapE wTag ts = .ok xs ∧ AllNE (joinSep 0x2c xs) ∧ (ts ≠ [] → joinSep 0x2c xs ≠ []) ∧
      ts.length ≤ (joinSep 0x2c xs).length ∧
      ∀ rest, Sep rest → ∀ fuel, ts.length ≤ fuel → ts ≠ [] → pTags fuel (joinSep 0x2c xs ++ rest) = .ok ts := by
  induction ts with
  | nil => exact ⟨[], rfl, AllNE.nil, fun h => absurd rfl h, by simp [joinSep], fun _ _ _ _ h => absurd rfl h⟩
  | cons t ts ih =>
    obtain ⟨xs, hxs, hne, hnn, hlen, hp⟩ := ih (fun t' ht' => h t' (by simp [ht']))
    obtain ⟨x, hx, hxne, hxa, hxp⟩ := wTag_spec t (h t (by simp))
    have hkl := strOK_len (h t (by simp)).1
    have hvl := strOK_len (h t (by simp)).2
    have hlenchk : (t.key.length > maxString || t.value.length > maxString) = false := by
      simp [maxString]; omega
    have hx1 : 1 ≤ x.length := by cases x with | nil => exact absurd rfl hxne | cons _ _ => simp
    cases ts with
    | nil =>
      simp only [mapE] at hxs
      cases hxs
      refine ⟨[x], by simp [mapE, hx], by simpa [joinSep] using hxa, fun _ => by simpa [joinSep] using hxne,
        by simpa [joinSep] using hx1, ?_⟩
      intro rest hr fuel hf _
      cases fuel with
      | zero => simp at hf
      | succ f =>
        have := hxp rest hr.atStop
        simp only [joinSep, pTags]
        cases h1 : pStr (x ++ rest) with
        | error e => rw [h1] at this; simp at this
        | ok p1 =>
          rw [h1] at this
          obtain ⟨k, s1⟩ := p1
          simp only [bindE_ok] at this ⊢
          cases h2 : pChar 0x3d s1 with
          | error e => rw [h2] at this; simp at this
          | ok s2 =>
            rw [h2] at this
            simp only [bindE_ok] at this ⊢
            cases h3 : pStr s2 with
            | error e => rw [h3] at this; simp at this
            | ok p3 =>
              rw [h3] at this
              obtain ⟨v, s3⟩ := p3
              simp only [bindE_ok, Except.ok.injEq, Prod.mk.injEq] at this ⊢
              obtain ⟨rfl, rfl, rfl⟩ := this
              simp [hlenchk, hr.spOrEnd]
    | cons t2 ts2 =>
      cases xs with
      | nil => simp [mapE] at hxs; cases h2 : wTag t2 <;> simp [h2] at hxs; cases h3 : mapE wTag ts2 <;> simp [h3] at hxs
      | cons x2 xs2 =>
        have hnn' := hnn (by simp)
        refine ⟨x :: x2 :: xs2, by rw [mapE, hx, bindE_ok, hxs, bindE_ok], ?_, fun _ => by simp [joinSep_cons2, hxne], ?_, ?_⟩
        · rw [joinSep_cons2]; exact hxa.append (AllNE.cons (by decide) hne)
        · rw [joinSep_cons2]; simp only [List.length_append, List.length_cons] at hlen ⊢; omega
        · intro rest hr fuel hf _
          cases fuel with
          | zero => simp at hf
          | succ f =>
            have hrec := hp rest hr f (by simp at hf ⊢; omega) (by simp)
            have e1 : joinSep 0x2c (x :: x2 :: xs2) ++ rest = x ++ (0x2c :: (joinSep 0x2c (x2 :: xs2) ++ rest)) := by
              rw [joinSep_cons2]; simp
            have := hxp (0x2c :: (joinSep 0x2c (x2 :: xs2) ++ rest)) (Or.inr ⟨_, _, rfl, by decide⟩)
            rw [e1]
            simp only [pTags]
            cases h1 : pStr (x ++ (0x2c :: (joinSep 0x2c (x2 :: xs2) ++ rest))) with
            | error e => rw [h1] at this; simp at this
            | ok p1 =>
              rw [h1] at this
              obtain ⟨k, s1⟩ := p1
              simp only [bindE_ok] at this ⊢
              cases h2 : pChar 0x3d s1 with
              | error e => rw [h2] at this; simp at this
              | ok s2 =>
                rw [h2] at this
                simp only [bindE_ok] at this ⊢
                cases h3 : pStr s2 with
                | error e => rw [h3] at this; simp at this
                | ok p3 =>
                  rw [h3] at this
                  obtain ⟨v, s3⟩ := p3
                  simp only [bindE_ok, Except.ok.injEq, Prod.mk.injEq] at this ⊢
                  obtain ⟨rfl, rfl, rfl⟩ := this
                  simp [hlenchk, peek, isSpTab, pChar, hrec]

/-! ### comma separated sections (way nodes, relation members) -/

/-- what follows an item inside a section: the end of the section or a comma -/
def CommaOrEnd (t : Bytes) : Prop := t = [] ∨ ∃ m, t = 0x2c :: m

theorem CommaOrEnd.noDigit {r : Bytes} (h : CommaOrEnd r) : NoDigitHead r := by
  rcases h with rfl | ⟨t, rfl⟩ <;> simp [NoDigitHead, peek, isDigit]

theorem CommaOrEnd.terminates {r : Bytes} (h : CommaOrEnd r) : C13.Terminates r := by
  rcases h with rfl | ⟨t, rfl⟩ <;>
    exact ⟨by simp [NoDigitHead, peek, isDigit], by simp [peek, cDot], by simp [peek, ce], by simp [peek, cE]⟩

theorem CommaOrEnd.atStop {r : Bytes} (h : CommaOrEnd r) : Opl.AtStop r := by
  rcases h with rfl | ⟨t, rfl⟩
  · exact Or.inl rfl
  · exact Or.inr ⟨_, _, rfl, by decide⟩

theorem sepList_spec {α β : Type} (f : α → Except WErr Bytes) (item : Bytes → Except PErr (β × Bytes))
    (expect : α → β) (l : List α)
    (h : ∀ a ∈ l, ∃ x, f a = .ok x ∧ x ≠ [] ∧ AllNE x ∧
      ∀ tail, CommaOrEnd tail → item (x ++ tail) = .ok (expect a, tail)) :
    ∃ xs, mapE f l = .ok xs ∧ AllNE (joinSep 0x2c xs) ∧ l.length ≤ (joinSep 0x2c xs).length ∧
      ∀ fuel, l.length < fuel → pSepList item fuel (joinSep 0x2c xs) = .ok (l.map expect) := by
  induction l with
  | nil => exact ⟨[], rfl, AllNE.nil, by simp [joinSep], fun fuel hf => by cases fuel <;> simp_all [pSepList, joinSep]⟩
  | cons a l ih =>
    obtain ⟨xs, hxs, hne, hlen, hp⟩ := ih (fun a' ha' => h a' (by simp [ha']))
    obtain ⟨x, hx, hxne, hxa, hxp⟩ := h a (by simp)
    have hx1 : 1 ≤ x.length := by cases x with | nil => exact absurd rfl hxne | cons _ _ => simp
    cases l with
    | nil =>
      simp only [mapE] at hxs
      cases hxs
      refine ⟨[x], by simp [mapE, hx], by simpa [joinSep] using hxa, by simpa [joinSep] using hx1, ?_⟩
      intro fuel hf
      cases fuel with
      | zero => simp at hf
      | succ f =>
        have := hxp [] (Or.inl rfl)
        simp only [List.append_nil] at this
        have hxe : x.isEmpty = false := by cases x with | nil => exact absurd rfl hxne | cons _ _ => rfl
        simp [joinSep, pSepList, hxe, this]
    | cons a2 l2 =>
      cases xs with
      | nil =>
        exfalso
        simp only [mapE] at hxs
        cases h2 : f a2 with
        | error e => rw [h2] at hxs; simp at hxs
        | ok y =>
          rw [h2] at hxs
          cases h3 : mapE f l2 with
          | error e => rw [h3] at hxs; simp at hxs
          | ok ys => rw [h3] at hxs; simp at hxs
      | cons x2 xs2 =>
        refine ⟨x :: x2 :: xs2, by rw [mapE, hx, bindE_ok, hxs, bindE_ok], ?_, ?_, ?_⟩
        · rw [joinSep_cons2]; exact hxa.append (AllNE.cons (by decide) hne)
        · rw [joinSep_cons2]; simp only [List.length_append, List.length_cons] at hlen ⊢; omega
        · intro fuel hf
          cases fuel with
          | zero => simp at hf
          | succ f =>
            have hrec := hp f (by simp at hf ⊢; omega)
            have := hxp (0x2c :: joinSep 0x2c (x2 :: xs2)) (Or.inr ⟨_, rfl⟩)
            have hxe : (x ++ 0x2c :: joinSep 0x2c (x2 :: xs2)).isEmpty = false := by
              cases x with | nil => exact absurd rfl hxne | cons _ _ => rfl
            rw [joinSep_cons2]
            simp [pSepList, hxe, this, pChar, hrec]

/-! ### way nodes -/

/-- a node reference of the domain: id in (INT64_MIN, INT64_MAX], location undefined or valid -/
def RefOK (n : NodeRef) : Prop :=
  int64Min < n.ref ∧ n.ref ≤ int64Max ∧ (n.location = Location.undefined ∨ valid n.location = true)

theorem valid_range {l : Location} (h : valid l = true) :
    int32Min ≤ l.x ∧ l.x ≤ int32Max ∧ int32Min ≤ l.y ∧ l.y ≤ int32Max ∧ bothDefined l = true ∧ isUndefined l = false := by
  simp only [valid, Bool.and_eq_true, decide_eq_true_eq] at h
  obtain ⟨⟨⟨h1, h2⟩, h3⟩, h4⟩ := h
  refine ⟨by simp only [int32Min]; omega, by simp only [int32Max]; omega, by simp only [int32Min]; omega,
    by simp only [int32Max]; omega, ?_, ?_⟩
  · simp only [bothDefined, Location.undefinedCoordinate, Bool.and_eq_true, bne_iff_ne, ne_eq]
    constructor <;> omega
  · simp only [isUndefined, Location.undefinedCoordinate, Bool.and_eq_false_iff, beq_eq_false_iff_ne, ne_eq]
    left; omega

theorem head_num_peek {s t : Bytes} (hne : s ≠ []) (hs : ∀ b ∈ s, NumByte b) :
    NumByte (peek (s ++ t)) ∧ (s ++ t).isEmpty = false := by
  cases s with
  | nil => exact absurd rfl hne
  | cons c s => exact ⟨hs c (by simp), rfl⟩

theorem wPlainRef_spec (n : NodeRef) (h : RefOK n) :
    ∃ x, wPlainRef n = .ok x ∧ x ≠ [] ∧ AllNE x ∧
      ∀ tail, CommaOrEnd tail → pWayNode (x ++ tail) = .ok (({ n with location := Location.undefined } : NodeRef), tail) := by
  obtain ⟨r, hr, hrne, hrn, hrp⟩ := wInt_pId n.ref h.1 h.2.1
  refine ⟨0x6e :: r, by simp [wPlainRef, hr], by simp, AllNE.cons (by decide) (AllNE_of_num hrn), ?_⟩
  intro tail ht
  have he := (head_num_peek (t := tail) hrne hrn).2
  simp only [List.cons_append, pWayNode, pChar, if_true, bindE_ok, he, Bool.false_eq_true, if_false, hrp tail ht.noDigit]
  rcases ht with rfl | ⟨m, rfl⟩
  · simp
  · simp [pRefLocation, peek]

theorem wFieldRef_spec (n : NodeRef) (h : RefOK n) :
    ∃ x, wFieldRef n = .ok x ∧ x ≠ [] ∧ AllNE x ∧
      ∀ tail, CommaOrEnd tail → pWayNode (x ++ tail) = .ok (n, tail) := by
  obtain ⟨r, hr, hrne, hrn, hrp⟩ := wInt_pId n.ref h.1 h.2.1
  have he := fun tail => (head_num_peek (t := tail) hrne hrn).2
  rcases h.2.2 with hu | hv
  · -- undefined: "n<ref>xy"
    have hb : bothDefined n.location = false := by rw [hu]; decide
    refine ⟨0x6e :: r ++ [0x78, 0x79], by simp [wFieldRef, hr, hb], by simp,
      (AllNE.cons (by decide) (AllNE_of_num hrn)).append (AllNE.cons (by decide) (AllNE.cons (by decide) AllNE.nil)), ?_⟩
    intro tail ht
    have e1 : (0x6e :: r ++ [0x78, 0x79]) ++ tail = 0x6e :: (r ++ (0x78 :: 0x79 :: tail)) := by simp
    have hnd : NoDigitHead (0x78 :: 0x79 :: tail) := by simp [NoDigitHead, peek, isDigit]
    rw [e1]
    simp only [pWayNode, pChar, if_true, bindE_ok, he, Bool.false_eq_true, if_false, hrp _ hnd]
    have hn : n = ⟨n.ref, Location.undefined⟩ := by cases n; simp_all
    rcases ht with rfl | ⟨m, rfl⟩
    · simp [pRefLocation, peek, Location.undefined]; exact hn.symm
    · simp [pRefLocation, peek, Location.undefined]; exact hn.symm
  · -- valid: "n<ref>x<lon>y<lat>"
    obtain ⟨hx1, hx2, hy1, hy2, hb, _⟩ := valid_range hv
    obtain ⟨cxne, cxn⟩ := formatCoord_shape n.location.x hx1 hx2
    obtain ⟨cyne, cyn⟩ := formatCoord_shape n.location.y hy1 hy2
    refine ⟨0x6e :: r ++ 0x78 :: (formatCoord n.location.x ++ 0x79 :: formatCoord n.location.y),
      by simp [wFieldRef, hr, hb, hv], by simp, ?_, ?_⟩
    · exact (AllNE.cons (by decide) (AllNE_of_num hrn)).append (AllNE.cons (by decide)
        ((AllNE_of_num cxn).append (AllNE.cons (by decide) (AllNE_of_num cyn))))
    · intro tail ht
      have e1 : (0x6e :: r ++ 0x78 :: (formatCoord n.location.x ++ 0x79 :: formatCoord n.location.y)) ++ tail
          = 0x6e :: (r ++ (0x78 :: (formatCoord n.location.x ++ (0x79 :: (formatCoord n.location.y ++ tail))))) := by simp
      have hnd : NoDigitHead (0x78 :: (formatCoord n.location.x ++ (0x79 :: (formatCoord n.location.y ++ tail)))) := by
        simp [NoDigitHead, peek, isDigit]
      have hty : C13.Terminates (0x79 :: (formatCoord n.location.y ++ tail)) :=
        ⟨by simp [NoDigitHead, peek, isDigit], by simp [peek, cDot], by simp [peek, ce], by simp [peek, cE]⟩
      obtain ⟨px, pxe⟩ := head_num_peek (t := 0x79 :: (formatCoord n.location.y ++ tail)) cxne cxn
      obtain ⟨py, pye⟩ := head_num_peek (t := tail) cyne cyn
      have px1 := px.facts.2.2.2.2.1
      have px2 := px.facts.2.1
      have py2 := py.facts.2.1
      have c1 : (!(formatCoord n.location.x ++ 0x79 :: (formatCoord n.location.y ++ tail)).isEmpty &&
          peek (formatCoord n.location.x ++ 0x79 :: (formatCoord n.location.y ++ tail)) != 0x79 &&
          peek (formatCoord n.location.x ++ 0x79 :: (formatCoord n.location.y ++ tail)) != 0x2c) = true := by
        simp [pxe, px1, px2]
      have c2 : (!(formatCoord n.location.y ++ tail).isEmpty && peek (formatCoord n.location.y ++ tail) != 0x2c) = true := by
        simp [pye, py2]
      have hloc : pRefLocation (0x78 :: (formatCoord n.location.x ++ (0x79 :: (formatCoord n.location.y ++ tail))))
          = .ok (n.location, tail) := by
        unfold pRefLocation
        have p0 : peek (0x78 :: (formatCoord n.location.x ++ (0x79 :: (formatCoord n.location.y ++ tail)))) = 0x78 := rfl
        have p1 : peek (0x79 :: (formatCoord n.location.y ++ tail)) = 0x79 := rfl
        simp only [p0, beq_self_eq_true, if_true, List.tail_cons, c1, formatCoord_pCoord _ hx1 hx2 _ hty, bindE_ok, p1,
          c2, formatCoord_pCoord _ hy1 hy2 _ ht.terminates]
      rw [e1]
      simp only [pWayNode, pChar, if_true, bindE_ok, he, Bool.false_eq_true, if_false, hrp _ hnd, List.isEmpty_cons, hloc]

/-! ### relation members -/

def MemberOK (m : Member) : Prop :=
  (m.type = 1 ∨ m.type = 2 ∨ m.type = 3) ∧ int64Min < m.ref ∧ m.ref ≤ int64Max ∧ strOK 0x110000 m.role = true

theorem pStr_nil : pStr [] = .ok ([], []) := by
  simp [pStr, Opl.parseString, Opl.parseStringLoop]

theorem wMember_spec (m : Member) (h : MemberOK m) :
    ∃ x, wMember m = .ok x ∧ x ≠ [] ∧ AllNE x ∧
      ∀ tail, CommaOrEnd tail → pMember (x ++ tail) = .ok (m, tail) := by
  obtain ⟨ht, h0, h1, hs⟩ := h
  obtain ⟨r, hr, hrne, hrn, hrp⟩ := wInt_pId m.ref h0 h1
  obtain ⟨e, he, hen, hep⟩ := wStr_pStr m.role hs
  have hlen := strOK_len hs
  have htc : charType (typeChar m.type) = m.type ∧ nonEmptyB (typeChar m.type) = true := by
    rcases ht with h | h | h <;> rw [h] <;> decide
  refine ⟨typeChar m.type :: r ++ 0x40 :: e, by simp [wMember, hr, he], by simp, ?_, ?_⟩
  · exact (AllNE.cons htc.2 (AllNE_of_num hrn)).append (AllNE.cons (by decide) (AllNE_of_noStructural hen))
  · intro tail htl
    have e1 : (typeChar m.type :: r ++ 0x40 :: e) ++ tail = typeChar m.type :: (r ++ (0x40 :: (e ++ tail))) := by simp
    have hnd : NoDigitHead (0x40 :: (e ++ tail)) := by simp [NoDigitHead, peek, isDigit]
    have hre := (head_num_peek (t := 0x40 :: (e ++ tail)) hrne hrn).2
    have hc0 : ¬ (charType (typeChar m.type) = 0) := by rw [htc.1]; rcases ht with h | h | h <;> omega
    rw [e1]
    simp only [pMember, hre, Bool.false_eq_true, hrp _ hnd, bindE_ok, pChar, if_true, htc.1, if_false]
    have hp := hep tail htl.atStop
    by_cases hemp : (e ++ tail).isEmpty = true
    · have : e = [] ∧ tail = [] := by simpa using hemp
      obtain ⟨rfl, rfl⟩ := this
      rw [List.append_nil, pStr_nil] at hp
      have hrole : m.role = [] := by
        have := Except.ok.inj hp
        exact (congrArg Prod.fst this).symm
      have hc0' : ¬ (m.type = 0) := by rw [← htc.1]; exact hc0
      simp only [List.append_nil, List.isEmpty_nil, if_true, hc0', if_false]
      cases m; simp_all
    · have hlc : ¬ (m.role.length > maxString) := by simp [maxString]; omega
      have hc0' : ¬ (m.type = 0) := by rw [← htc.1]; exact hc0
      simp only [hemp, Bool.false_eq_true, if_false, hp, bindE_ok, hlc, hc0']

end Osmium.OplFmt
