/-
C17 helper lemmas about the specification `geomOf`: degenerate objects have no geometry;
the shape of the geometries it yields.  Core only.
-/
import Osmium.Lemmas.Geom

namespace Osmium.Geom

/-- the degenerate inputs of the property: an undefined/invalid location at any position, too
few distinct points, an area without rings -/
def Degenerate (obj : Obj) (o : Opts) : Prop :=
  match obj with
  | .node l => l.valid = false
  | .way nodes => (∃ l ∈ nodes, l.valid = false) ∨ (seqOf o nodes).length < 2
  | .wayPolygon nodes => (∃ l ∈ nodes, l.valid = false) ∨ (seqOf o nodes).length < 4
  | .area items =>
    items = [] ∨ ∃ it ∈ items, (∃ l ∈ it.2, l.valid = false) ∨ (dedup it.2).length < 4

theorem undefined_invalid : Location.undefined.valid = false := by decide

theorem mem_dedup (l : Location) (nodes : List Location) : l ∈ dedup nodes ↔ l ∈ nodes := by
  fun_induction dedup nodes <;> simp_all

theorem mem_seqOf (l : Location) (o : Opts) (nodes : List Location) :
    l ∈ seqOf o nodes ↔ l ∈ nodes := by
  unfold seqOf
  cases o.unique <;> cases o.backward <;> simp [mem_dedup]

section
variable {P : Type} (proj : Location → Except Err P)

theorem mapM_error_of_mem (ls : List Location) (l : Location) (hl : l ∈ ls)
    (he : ∃ e, proj l = .error e) : ∃ e, ls.mapM proj = .error e := by
  induction ls with
  | nil => cases hl
  | cons a ls ih =>
    simp only [List.mapM_cons, bind, Except.bind]
    cases ha : proj a with
    | error e => exact ⟨e, rfl⟩
    | ok p =>
      have : l ∈ ls := by
        rcases List.mem_cons.mp hl with h | h
        · subst h; obtain ⟨e, he⟩ := he; rw [ha] at he; cases he
        · exact h
      obtain ⟨e, h⟩ := ih this
      exact ⟨e, by simp [h]⟩

theorem mapM_error_mem {α β : Type} (f : α → Except Err β) (l : List α) (a : α) (ha : a ∈ l)
    (he : ∃ e, f a = .error e) : ∃ e, l.mapM f = .error e := by
  induction l with
  | nil => cases ha
  | cons b l ih =>
    simp only [List.mapM_cons, bind, Except.bind]
    cases hb : f b with
    | error e => exact ⟨e, rfl⟩
    | ok p =>
      have : a ∈ l := by
        rcases List.mem_cons.mp ha with h | h
        · subst h; obtain ⟨e, he⟩ := he; rw [hb] at he; cases he
        · exact h
      obtain ⟨e, h⟩ := ih this
      exact ⟨e, by simp [h]⟩

/-- the projection rejects invalid locations (`Location::lon()` throws `invalid_location`) -/
def RejectsInvalid : Prop := ∀ l : Location, l.valid = false → ∃ e, proj l = .error e

theorem way_degenerate (n : Nat) (seq : List Location) (hp : RejectsInvalid proj)
    (h : (∃ l ∈ seq, l.valid = false) ∨ seq.length < n) (k : List P → Geom P) :
    ∃ e, (do
      let ps ← projAll proj seq
      if ps.length < n then throw .geometry
      pure (k ps) : Except Err (Geom P)) = .error e := by
  cases hm : seq.mapM proj with
  | error e => exact ⟨e, by simp [projAll, hm, bind, Except.bind]⟩
  | ok ps =>
    rcases h with ⟨l, hl, hv⟩ | h
    · obtain ⟨e, he⟩ := mapM_error_of_mem proj seq l hl (hp l hv)
      rw [hm] at he; cases he
    · have := mapM_length _ _ _ hm
      have hlt : ps.length < n := by omega
      exact ⟨.geometry, by simp [projAll, hm, bind, Except.bind, hlt, throw, throwThe, MonadExceptOf.throw]⟩

theorem ringOf_degenerate (it : RingItem) (hp : RejectsInvalid proj)
    (h : (∃ l ∈ it.2, l.valid = false) ∨ (dedup it.2).length < 4) :
    ∃ e, ringOf proj it = .error e := by
  unfold ringOf
  cases hm : (dedup it.2).mapM proj with
  | error e => exact ⟨e, by simp [projAll, hm, bind, Except.bind]⟩
  | ok ps =>
    rcases h with ⟨l, hl, hv⟩ | h
    · obtain ⟨e, he⟩ := mapM_error_of_mem proj _ l ((mem_dedup l it.2).mpr hl) (hp l hv)
      rw [hm] at he; cases he
    · have := mapM_length _ _ _ hm
      have hlt : ps.length < 4 := by omega
      exact ⟨.geometry, by simp [projAll, hm, bind, Except.bind, hlt, throw, throwThe, MonadExceptOf.throw]⟩

/-- a degenerate object has no geometry -/
theorem geomOf_degenerate (obj : Obj) (o : Opts) (hp : RejectsInvalid proj) (h : Degenerate obj o) :
    ∃ e, geomOf proj obj o = .error e := by
  cases obj with
  | node l =>
    obtain ⟨e, he⟩ := hp l h
    exact ⟨e, by simp [geomOf, he, bind, Except.bind]⟩
  | way nodes =>
    refine way_degenerate proj 2 (seqOf o nodes) hp ?_ _
    rcases h with ⟨l, hl, hv⟩ | h
    · exact .inl ⟨l, (mem_seqOf l o nodes).mpr hl, hv⟩
    · exact .inr h
  | wayPolygon nodes =>
    refine way_degenerate proj 4 (seqOf o nodes) hp ?_ _
    rcases h with ⟨l, hl, hv⟩ | h
    · exact .inl ⟨l, (mem_seqOf l o nodes).mpr hl, hv⟩
    · exact .inr h
  | area items =>
    rcases h with h | ⟨it, hit, h⟩
    · subst h
      exact ⟨.geometry, rfl⟩
    · obtain ⟨e, he⟩ := mapM_error_mem (ringOf proj) items it hit (ringOf_degenerate proj it hp h)
      exact ⟨e, by simp [geomOf, he, bind, Except.bind]⟩

/-- a standalone polygon from `geomOf` has no inner rings -/
theorem geomOf_polygon_simple (obj : Obj) (o : Opts) (g : Geom P) (h : geomOf proj obj o = .ok g) :
    ∀ p, g = .polygon p → p.inners = [] := by
  intro p hp
  subst hp
  cases obj with
  | node l =>
    simp only [geomOf, bind, Except.bind] at h
    cases hl : proj l <;> simp [hl, pure, Except.pure] at h
  | way nodes =>
    simp only [geomOf, bind, Except.bind] at h
    cases hm : projAll proj (seqOf o nodes) with
    | error e => simp [hm] at h
    | ok ps =>
      simp only [hm] at h
      by_cases h2 : ps.length < 2 <;> simp [h2, pure, Except.pure, throw, throwThe, MonadExceptOf.throw] at h
  | wayPolygon nodes =>
    simp only [geomOf, bind, Except.bind] at h
    cases hm : projAll proj (seqOf o nodes) with
    | error e => simp [hm] at h
    | ok ps =>
      simp only [hm] at h
      by_cases h2 : ps.length < 4 <;> simp [h2, pure, Except.pure, throw, throwThe, MonadExceptOf.throw] at h
      cases h; rfl
  | area items =>
    simp only [geomOf, bind, Except.bind] at h
    cases hm : items.mapM (ringOf proj) with
    | error e => simp [hm] at h
    | ok rs =>
      simp only [hm] at h
      cases hr : rs.isEmpty <;> simp [hr, pure, Except.pure, throw, throwThe, MonadExceptOf.throw] at h

theorem Except.map_congr_ok {α β ε : Type} (x : Except ε α) (f g : α → β)
    (h : ∀ a, x = .ok a → f a = g a) : x.map f = x.map g := by
  cases x with
  | error e => rfl
  | ok a => simp [Except.map, h a rfl]

end
end Osmium.Geom
