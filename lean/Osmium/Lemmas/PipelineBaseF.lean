/-
Pipeline base lemmas, part F: the invariant of the consumer's status machine and its corollaries.
-/
import Osmium.Lemmas.PipelineBaseA

namespace Osmium.Pipeline

open Osmium.Mon

set_option linter.unusedSimpArgs false

variable {α : Type}
variable [DecidableEq α]

theorem status_inv (c : Cfg α) : ∀ s, (machine c).Reachable s → StatusInv s := by
  apply Machine.invariant
  · simp [StatusInv, machine, init, QueueSM.init, cpcLive]
  · intro s e s' _ ih hst
    obtain ⟨ih1, ih2, ih3⟩ := ih
    pl_cases e with hst q hq
    all_goals first | exact ⟨ih1, ih2, ih3⟩ | skip
    any_goals (revert hq; intro hq
               have hsd := q_pc_sd _ _ _ _ hq tC
               have hiu := q_inUse _ _ _ _ hq)
    all_goals simp only [StatusInv, afterPop_status, afterPop_stop, afterPop_outq, afterPop_cpc,
      afterClose_status, afterClose_stop, afterClose_outq, afterClose_cpc]
    all_goals (grind [cpcLive, cpcSdRun, cpcLive_sdRun])

/-- status okay: the read thread has not been told to stop, and the osmdata queue is in use, except
    inside the shutdown() that read() calls after it popped the end-of-data marker (status becomes
    eof only when that shutdown() returns). -/
theorem status_okay_stop (c : Cfg α) (s : State α) (h : (machine c).Reachable s) :
    s.status = .okay → s.stop = false ∧ (s.outq.inUse = true ∨ s.cpc = .eodSdRun) := by
  intro hs
  obtain ⟨h1, h2, h3⟩ := (status_inv c s h).1 hs
  exact ⟨h1, h3⟩

theorem status_okay_live (c : Cfg α) (s : State α) (h : (machine c).Reachable s) :
    s.status = .okay → cpcLive s.cpc = true := fun hs => ((status_inv c s h).1 hs).2.1

theorem status_error_cpc (c : Cfg α) (s : State α) (h : (machine c).Reachable s) :
    s.status = .error → s.cpc = .idle ∨ ∃ r, s.cpc = .ret r := (status_inv c s h).2.2

/-- the consumer is inside `m_osmdata_queue.shutdown()` only in the three `…SdRun` states -/
theorem outq_sd_cpc (c : Cfg α) (s : State α) (h : (machine c).Reachable s) :
    (s.outq.pc tC = .sdEntered ∨ s.outq.pc tC = .sdFlagged) → cpcSdRun s.cpc = true := (status_inv c s h).2.1

/-- status error is left only by close() / the destructor (status closed) -/
theorem error_is_final (c : Cfg α) (s : State α) (h : (machine c).Reachable s) (e : Ev α) (s' : State α)
    (hst : (machine c).Step s e s') : s.status = .error → s'.status = .error ∨ s'.status = .closed := by
  intro hs
  have h3 := status_error_cpc c s h hs
  pl_cases e with hst q hq
  all_goals first
    | (left; exact hs)
    | (simp only [afterPop_status, afterClose_status]; grind)

/-- after an error no read() hands out anything but what is still in the back buffers -/
theorem no_data_after_error (c : Cfg α) (s : State α) (h : (machine c).Reachable s) (e : Ev α) (s' : State α)
    (hst : (machine c).Step s e s') : s.status = .error → s.back = [] → s'.delivered = s.delivered := by
  intro hs hb
  have h3 := status_error_cpc c s h hs
  pl_cases e with hst q hq
  all_goals first
    | rfl
    | (simp only [afterPop_delivered, afterClose_delivered] <;> grind)

/-- read() on a Reader in status error throws io_error unless back buffers are left -/
theorem read_after_error (c : Cfg α) (s s' : State α) (hst : (machine c).Step s .cRead s') :
    s.status = .error → s'.cpc = .ret .ioError ∨ s.back ≠ [] := by
  intro hs
  simp only [Machine.Step, machine, step?] at hst
  repeat' split at hst
  all_goals (simp only [Option.some.injEq, reduceCtorEq] at hst)
  all_goals (subst hst; simp_all)

end Osmium.Pipeline
