/-
C10 — list-level lemmas for the area assembler model (Osmium/Model/Area.lean):
erase_duplicate_segments, ProtoRing sums / direction, segment extraction and the permutation
invariance of the specification, int64 magnitudes.
-/
import Osmium.Model.Area

namespace Osmium.Area

/-! ## erase_duplicate_segments -/

/-- no two adjacent elements are equal -/
def NoAdjEq : List Seg → Prop
  | [] => True
  | [_] => True
  | a :: b :: r => a ≠ b ∧ NoAdjEq (b :: r)

theorem eraseStep_cons_cons (a b : Seg) (rest : List Seg) :
    eraseStep (a :: b :: rest) =
      if a == b then some (rest, rest.head? == some a)
      else (eraseStep (b :: rest)).map fun (l, o) => (a :: l, o) := by
  rw [eraseStep]

/-- shape of one round: two adjacent copies of one segment are removed -/
theorem eraseStep_shape (l l' : List Seg) (o : Bool) (h : eraseStep l = some (l', o)) :
    ∃ p a q, l = p ++ a :: a :: q ∧ l' = p ++ q := by
  induction l generalizing l' o with
  | nil => simp [eraseStep] at h
  | cons a t ih =>
    cases t with
    | nil => simp [eraseStep] at h
    | cons b rest =>
      rw [eraseStep_cons_cons] at h
      split at h
      · rename_i hab
        simp at h hab
        exact ⟨[], a, rest, by simp [hab], by simp [h.1]⟩
      · simp only [Option.map_eq_some_iff] at h
        obtain ⟨⟨l1, o1⟩, h1, h2⟩ := h
        simp at h2
        obtain ⟨p, c, q, e1, e2⟩ := ih l1 o1 h1
        exact ⟨a :: p, c, q, by simp [e1], by simp [← h2.1, e2]⟩

theorem eraseStep_length (l l' : List Seg) (o : Bool) (h : eraseStep l = some (l', o)) :
    l'.length + 2 = l.length := by
  obtain ⟨p, a, q, rfl, rfl⟩ := eraseStep_shape l l' o h
  simp; omega

/-- one round removes two copies of one segment -/
theorem eraseStep_count (l l' : List Seg) (o : Bool) (h : eraseStep l = some (l', o)) (s : Seg) :
    l'.count s % 2 = l.count s % 2 := by
  obtain ⟨p, a, q, rfl, rfl⟩ := eraseStep_shape l l' o h
  simp only [List.count_append, List.count_cons]
  split <;> omega

theorem eraseStep_sublist (l l' : List Seg) (o : Bool) (h : eraseStep l = some (l', o)) :
    l'.Sublist l := by
  obtain ⟨p, a, q, rfl, rfl⟩ := eraseStep_shape l l' o h
  exact List.Sublist.append_left ((List.sublist_cons_self _ _).trans (List.sublist_cons_self _ _)) _

/-- eraseStep = none exactly when no two adjacent elements are equal -/
theorem eraseStep_none_iff (l : List Seg) : eraseStep l = none ↔ NoAdjEq l := by
  induction l with
  | nil => simp [eraseStep, NoAdjEq]
  | cons a t ih =>
    cases t with
    | nil => simp [eraseStep, NoAdjEq]
    | cons b rest =>
      rw [eraseStep_cons_cons, NoAdjEq]
      by_cases hab : a = b
      · simp [hab]
      · simp [hab, ih]

theorem eraseLoop_zero (l : List Seg) : eraseLoop 0 l = (l, 0, 0) := by rw [eraseLoop]

theorem eraseLoop_succ_none (n : Nat) (l : List Seg) (h : eraseStep l = none) :
    eraseLoop (n + 1) l = (l, 0, 0) := by
  rw [eraseLoop, h]

theorem eraseLoop_succ_some (n : Nat) (l l' : List Seg) (o : Bool) (h : eraseStep l = some (l', o)) :
    eraseLoop (n + 1) l =
      ((eraseLoop n l').1, (eraseLoop n l').2.1 + 1, (eraseLoop n l').2.2 + (if o then 1 else 0)) := by
  rw [eraseLoop, h]

theorem eraseLoop_count (n : Nat) (l : List Seg) (s : Seg) :
    (eraseLoop n l).1.count s % 2 = l.count s % 2 := by
  induction n generalizing l with
  | zero => rw [eraseLoop_zero]
  | succ n ih =>
    cases h : eraseStep l with
    | none => rw [eraseLoop_succ_none n l h]
    | some r =>
      obtain ⟨l', o⟩ := r
      rw [eraseLoop_succ_some n l l' o h]
      exact (ih l').trans (eraseStep_count l l' o h s)

theorem eraseLoop_sublist (n : Nat) (l : List Seg) : (eraseLoop n l).1.Sublist l := by
  induction n generalizing l with
  | zero => rw [eraseLoop_zero]; exact List.Sublist.refl _
  | succ n ih =>
    cases h : eraseStep l with
    | none => rw [eraseLoop_succ_none n l h]; exact List.Sublist.refl _
    | some r =>
      obtain ⟨l', o⟩ := r
      rw [eraseLoop_succ_some n l l' o h]
      exact (ih l').trans (eraseStep_sublist l l' o h)

theorem eraseLoop_noAdjEq (n : Nat) (l : List Seg) (hn : l.length ≤ n) :
    NoAdjEq (eraseLoop n l).1 := by
  induction n generalizing l with
  | zero =>
    rw [eraseLoop_zero]
    have : l = [] := List.length_eq_zero_iff.mp (by omega)
    subst this; trivial
  | succ n ih =>
    cases h : eraseStep l with
    | none => rw [eraseLoop_succ_none n l h]; exact (eraseStep_none_iff l).mp h
    | some r =>
      obtain ⟨l', o⟩ := r
      rw [eraseLoop_succ_some n l l' o h]
      have := eraseStep_length l l' o h
      exact ih l' (by omega)

theorem eraseLoop_length (n : Nat) (l : List Seg) :
    2 * (eraseLoop n l).2.1 + (eraseLoop n l).1.length = l.length := by
  induction n generalizing l with
  | zero => rw [eraseLoop_zero]; simp
  | succ n ih =>
    cases h : eraseStep l with
    | none => rw [eraseLoop_succ_none n l h]; simp
    | some r =>
      obtain ⟨l', o⟩ := r
      rw [eraseLoop_succ_some n l l' o h]
      have h1 := eraseStep_length l l' o h
      have h2 := ih l'
      simp only; omega

theorem eraseDuplicates_count_mod2 (l : List Seg) (s : Seg) :
    (eraseDuplicates l).count s % 2 = l.count s % 2 :=
  eraseLoop_count l.length l s

theorem eraseDuplicates_sublist (l : List Seg) : (eraseDuplicates l).Sublist l :=
  eraseLoop_sublist l.length l

/-- the fuel `l.length` suffices -/
theorem eraseDuplicates_noAdjEq (l : List Seg) : NoAdjEq (eraseDuplicates l) :=
  eraseLoop_noAdjEq l.length l (Nat.le_refl _)

/-- number of erased pairs: 2·pairs + remaining = original length -/
theorem eraseDuplicatesFull_length (l : List Seg) :
    2 * (eraseDuplicatesFull l).2.1 + (eraseDuplicatesFull l).1.length = l.length :=
  eraseLoop_length l.length l

/-- sorted (no later element strictly smaller) + no adjacent equal pair + antisymmetry of the
    order up to equality ⇒ no element occurs twice -/
theorem nodup_of_sorted_noAdjEq (l : List Seg)
    (hs : l.Pairwise (fun a b => Seg.lt b a = false))
    (hanti : ∀ a ∈ l, ∀ b ∈ l, Seg.lt a b = false → Seg.lt b a = false → a = b)
    (hn : NoAdjEq l) : l.Nodup := by
  induction l with
  | nil => exact List.nodup_nil
  | cons a t ih =>
    cases t with
    | nil => simp
    | cons b rest =>
      rw [NoAdjEq] at hn
      have hs' := List.pairwise_cons.mp hs
      have iht := ih hs'.2 (fun x hx y hy => hanti x (List.mem_cons_of_mem _ hx) y (List.mem_cons_of_mem _ hy)) hn.2
      refine List.nodup_cons.mpr ⟨?_, iht⟩
      intro hmem
      rcases List.mem_cons.mp hmem with hab | hin
      · exact hn.1 hab
      · -- a occurs after b: then b and a are incomparable
        have h1 : Seg.lt b a = false := hs'.1 b (List.mem_cons_self)
        have h2 : Seg.lt a b = false := (List.pairwise_cons.mp hs'.2).1 a hin
        exact hn.1 (hanti a (List.mem_cons_self) b (List.mem_cons_of_mem _ List.mem_cons_self) h2 h1)

theorem erase_nodup_of_sorted (l : List Seg)
    (hs : l.Pairwise (fun a b => Seg.lt b a = false))
    (hanti : ∀ a ∈ l, ∀ b ∈ l, Seg.lt a b = false → Seg.lt b a = false → a = b) :
    (eraseDuplicates l).Nodup := by
  have hsub := eraseDuplicates_sublist l
  exact nodup_of_sorted_noAdjEq _ (hs.sublist hsub)
    (fun a ha b hb => hanti a (hsub.subset ha) b (hsub.subset hb)) (eraseDuplicates_noAdjEq l)

/-- On a sorted list (no later element strictly smaller; `hanti`: incomparable elements are
    equal — proved elsewhere for well-formed segments) the result contains exactly the segments
    of odd multiplicity, each once. -/
theorem erase_parity_of_sorted (l : List Seg)
    (hs : l.Pairwise (fun a b => Seg.lt b a = false))
    (hanti : ∀ a ∈ l, ∀ b ∈ l, Seg.lt a b = false → Seg.lt b a = false → a = b) (s : Seg) :
    (eraseDuplicates l).count s = l.count s % 2 := by
  have h1 := eraseDuplicates_count_mod2 l s
  have h2 : (eraseDuplicates l).count s ≤ 1 :=
    List.nodup_iff_count.mp (erase_nodup_of_sorted l hs hanti) s
  omega

/-! ## rings -/

theorem cross_antisymm (a b : Vec) : a.cross b = - b.cross a := by
  simp only [Vec.cross, Int.mul_comm b.x a.y, Int.mul_comm b.y a.x]; omega

theorem dseg_flip_det (d : DSeg) : d.flip.det = - d.det := by
  obtain ⟨s, r⟩ := d
  cases r <;> simp [DSeg.flip, DSeg.det, DSeg.start, DSeg.stop] <;> exact cross_antisymm _ _

theorem dseg_flip_flip (d : DSeg) : d.flip.flip = d := by
  obtain ⟨s, r⟩ := d
  simp [DSeg.flip]

theorem Ring.sum_nil : Ring.sum [] = 0 := rfl
theorem Ring.sum_cons (d : DSeg) (r : Ring) : Ring.sum (d :: r) = d.det + Ring.sum r := rfl

theorem Ring.sum_append (r1 r2 : Ring) : Ring.sum (r1 ++ r2) = Ring.sum r1 + Ring.sum r2 := by
  induction r1 with
  | nil => simp [Ring.sum_nil]
  | cons d r ih => simp only [List.cons_append, Ring.sum_cons, ih]; omega

theorem Ring.sum_list_reverse (r : Ring) : Ring.sum (List.reverse r) = Ring.sum r := by
  induction r with
  | nil => rfl
  | cons d r ih =>
    simp only [List.reverse_cons, Ring.sum_append, Ring.sum_cons, Ring.sum_nil, ih]; omega

theorem Ring.sum_map_flip (r : Ring) : Ring.sum (List.map DSeg.flip r) = - Ring.sum r := by
  induction r with
  | nil => rfl
  | cons d r ih => simp only [List.map_cons, Ring.sum_cons, ih, dseg_flip_det]; omega

/-- the cached `m_sum = -m_sum` of `ProtoRing::reverse` is the sum of the reversed ring -/
theorem shoelace_reverse (r : Ring) : (Ring.reverse r).sum = - r.sum := by
  rw [Ring.reverse, Ring.sum_list_reverse, Ring.sum_map_flip]

theorem ring_reverse_reverse (r : Ring) : Ring.reverse (Ring.reverse r) = r := by
  simp only [Ring.reverse, List.map_reverse, List.reverse_reverse, List.map_map]
  have : (DSeg.flip ∘ DSeg.flip) = id := by funext d; exact dseg_flip_flip d
  rw [this, List.map_id]

/-- after fix_direction an outer ring has positive sum (counter-clockwise), an inner ring
    negative (clockwise), provided the ring is not degenerate (sum ≠ 0) -/
theorem fix_direction_orients (r : Ring) (h : r.sum ≠ 0) :
    (r.fixDirection true).sum > 0 ∧ (r.fixDirection false).sum < 0 := by
  simp only [Ring.fixDirection, Ring.isCw]
  by_cases hc : Ring.sum r ≤ 0
  · simp [hc, shoelace_reverse]; omega
  · simp [hc, shoelace_reverse]; omega

theorem fix_direction_idempotent (r : Ring) (o : Bool) (h : r.sum ≠ 0) :
    (r.fixDirection o).fixDirection o = r.fixDirection o := by
  have hne : (r.fixDirection o).isCw ≠ o := by
    have := fix_direction_orients r h
    cases o
    · simp [Ring.isCw]; omega
    · simp [Ring.isCw]; omega
  conv => lhs; rw [Ring.fixDirection]
  simp [hne]

theorem dseg_ofPoints_start (a b : Vec) : (DSeg.ofPoints a b).start = a := by
  simp only [DSeg.ofPoints, DSeg.start, Seg.ofEnds]
  by_cases h : a.lt b = true <;> simp [h]

theorem dseg_ofPoints_stop (a b : Vec) : (DSeg.ofPoints a b).stop = b := by
  simp only [DSeg.ofPoints, DSeg.stop, Seg.ofEnds]
  by_cases h : a.lt b = true <;> simp [h]

theorem dseg_ofPoints_det (a b : Vec) : (DSeg.ofPoints a b).det = a.cross b := by
  rw [DSeg.det, dseg_ofPoints_start, dseg_ofPoints_stop]

/-- the ring model agrees with the point-sequence shoelace formula used by the spec
    (no distinctness hypothesis is needed: `DSeg.ofPoints a b` has start `a` and stop `b`
    also when `a = b`) -/
theorem ringOfPoints_sum (pts : List Vec) : (ringOfPoints pts).sum = shoelace pts := by
  induction pts with
  | nil => rfl
  | cons a t ih =>
    cases t with
    | nil => rfl
    | cons b rest =>
      rw [ringOfPoints, shoelace, Ring.sum_cons, ih, dseg_ofPoints_det]

theorem shoelace_snoc (l : List Vec) (a b : Vec) :
    shoelace (l ++ [a, b]) = shoelace (l ++ [a]) + a.cross b := by
  induction l with
  | nil => simp [shoelace]
  | cons c t ih =>
    cases t with
    | nil => simp [shoelace]
    | cons d rest =>
      simp only [List.cons_append] at ih ⊢
      rw [shoelace, ih, shoelace]; omega

theorem shoelace_reverse_points (pts : List Vec) : shoelace pts.reverse = - shoelace pts := by
  induction pts with
  | nil => rfl
  | cons a t ih =>
    cases t with
    | nil => rfl
    | cons b rest =>
      have e : (a :: b :: rest).reverse = rest.reverse ++ [b, a] := by simp
      have e' : rest.reverse ++ [b] = (b :: rest).reverse := by simp
      rw [e, shoelace_snoc, e', ih, shoelace, cross_antisymm b a]; omega

/-! ## extraction and permutation invariance -/

theorem Vec.ext' (a b : Vec) (hx : a.x = b.x) (hy : a.y = b.y) : a = b := by
  cases a; cases b; simp_all

/-- `Location::operator<` is total on distinct locations -/
theorem Vec.lt_flip (a b : Vec) (h : a ≠ b) : b.lt a = !a.lt b := by
  have hne : ¬ (a.x = b.x ∧ a.y = b.y) := fun ⟨hx, hy⟩ => h (Vec.ext' a b hx hy)
  rw [Bool.eq_iff_iff]
  simp only [Vec.lt, Bool.or_eq_true, Bool.and_eq_true, beq_iff_eq, decide_eq_true_eq,
    Bool.not_eq_true', ← Bool.not_eq_true]
  omega

theorem ofEnds_comm (a b : Vec) (h : a ≠ b) : Seg.ofEnds a b = Seg.ofEnds b a := by
  simp only [Seg.ofEnds, Vec.lt_flip a b h]
  cases a.lt b <;> simp

theorem ofEnds_wf (a b : Vec) (h : a ≠ b) : (Seg.ofEnds a b).wf = true := by
  simp only [Seg.ofEnds, Seg.wf]
  by_cases hl : a.lt b = true
  · simp [hl]
  · simp [hl, Vec.lt_flip a b h]

theorem extractFrom_wf (prev : Option Node) (w : List Node) :
    ∀ s ∈ extractFrom prev w, s.wf = true := by
  induction w generalizing prev with
  | nil => simp [extractFrom]
  | cons nr rest ih =>
    intro s hs
    unfold extractFrom at hs
    split at hs
    · exact ih _ s hs
    · split at hs
      · split at hs
        · rename_i p hne
          rcases List.mem_cons.mp hs with rfl | hs
          · exact ofEnds_wf _ _ (by simpa using hne)
          · exact ih _ s hs
        · exact ih _ s hs
      · exact ih _ s hs

theorem extractSegments_wf (w : List Node) : ∀ s ∈ extractSegments w, s.wf = true :=
  extractFrom_wf none w

/-- segments between consecutive distinct locations -/
def pairsOf : List Vec → List Seg
  | a :: b :: r => if a != b then Seg.ofEnds a b :: pairsOf (b :: r) else pairsOf (b :: r)
  | _ => []

/-- locations of the nodes with a valid location, in order -/
def validLocs (w : List Node) : List Vec := (w.filter fun n => n.loc.valid).map Node.loc

theorem validLocs_cons (n : Node) (w : List Node) :
    validLocs (n :: w) = if n.loc.valid then n.loc :: validLocs w else validLocs w := by
  simp only [validLocs, List.filter_cons]; split <;> simp

theorem validLocs_append (u v : List Node) : validLocs (u ++ v) = validLocs u ++ validLocs v := by
  simp [validLocs]

theorem validLocs_reverse (w : List Node) : validLocs w.reverse = (validLocs w).reverse := by
  simp [validLocs, List.filter_reverse]

theorem extractFrom_some_eq (p : Node) (w : List Node) :
    extractFrom (some p) w = pairsOf (p.loc :: validLocs w) := by
  induction w generalizing p with
  | nil => simp [extractFrom, validLocs, pairsOf]
  | cons nr rest ih =>
    rw [extractFrom, validLocs_cons]
    by_cases hv : nr.loc.valid = true
    · simp only [hv, Bool.not_true, Bool.false_eq_true, if_false, if_true, pairsOf, ih]
    · simp only [Bool.not_eq_true] at hv
      simp [hv, ih]

theorem extractFrom_none_eq (w : List Node) : extractFrom none w = pairsOf (validLocs w) := by
  induction w with
  | nil => simp [extractFrom, validLocs, pairsOf]
  | cons nr rest ih =>
    rw [extractFrom, validLocs_cons]
    by_cases hv : nr.loc.valid = true
    · simp only [hv, Bool.not_true, Bool.false_eq_true, if_false, if_true, extractFrom_some_eq]
    · simp only [Bool.not_eq_true] at hv
      simp [hv, ih]

theorem extractSegments_eq (w : List Node) : extractSegments w = pairsOf (validLocs w) :=
  extractFrom_none_eq w

theorem pairsOf_snoc (l : List Vec) (a b : Vec) :
    pairsOf (l ++ [a, b]) = pairsOf (l ++ [a]) ++ (if a != b then [Seg.ofEnds a b] else []) := by
  induction l with
  | nil => simp [pairsOf]
  | cons c t ih =>
    cases t with
    | nil => simp only [List.cons_append, List.nil_append, pairsOf]; split <;> split <;> simp
    | cons d rest =>
      simp only [List.cons_append] at ih ⊢
      rw [pairsOf, ih, pairsOf]
      split <;> simp

theorem pairsOf_reverse (l : List Vec) : pairsOf l.reverse = (pairsOf l).reverse := by
  induction l with
  | nil => rfl
  | cons a t ih =>
    cases t with
    | nil => rfl
    | cons b rest =>
      have e : (a :: b :: rest).reverse = rest.reverse ++ [b, a] := by simp
      have e' : rest.reverse ++ [b] = (b :: rest).reverse := by simp
      rw [e, pairsOf_snoc, e', ih, pairsOf]
      by_cases hab : a = b
      · simp [hab]
      · have hba : ¬ b = a := fun h => hab h.symm
        simp [hab, hba, ofEnds_comm a b hab]

theorem pairsOf_cut (l m : List Vec) (a : Vec) :
    pairsOf (l ++ [a]) ++ pairsOf (a :: m) = pairsOf (l ++ a :: m) := by
  induction l with
  | nil => simp [pairsOf]
  | cons c t ih =>
    cases t with
    | nil => simp only [List.cons_append, List.nil_append, pairsOf]; split <;> simp
    | cons d rest =>
      simp only [List.cons_append] at ih ⊢
      rw [pairsOf, pairsOf, ← ih]
      split <;> simp

theorem extractSegments_reverse_eq (w : List Node) :
    extractSegments w.reverse = (extractSegments w).reverse := by
  rw [extractSegments_eq, extractSegments_eq, validLocs_reverse, pairsOf_reverse]

/-- reversing a way gives the same segments (as a multiset) -/
theorem extract_reverse (w : List Node) : (extractSegments w.reverse).Perm (extractSegments w) := by
  rw [extractSegments_reverse_eq]; exact List.reverse_perm _

/-- cutting a way at a node with a valid location gives the same segments -/
theorem extract_cut (u v : List Node) (n : Node) (hn : n.loc.valid = true) :
    extractSegments (u ++ [n]) ++ extractSegments (n :: v) = extractSegments (u ++ n :: v) := by
  simp only [extractSegments_eq, validLocs_append, validLocs_cons, hn, if_true]
  exact pairsOf_cut _ _ _

theorem allSegments_perm (ws ws' : List (List Node)) (h : ws.Perm ws') :
    (allSegments ws).Perm (allSegments ws') :=
  List.Perm.flatMap_right _ h

theorem allSegments_append (ws1 ws2 : List (List Node)) :
    allSegments (ws1 ++ ws2) = allSegments ws1 ++ allSegments ws2 := by
  simp [allSegments]

theorem allSegments_cons (w : List Node) (ws : List (List Node)) :
    allSegments (w :: ws) = extractSegments w ++ allSegments ws := by
  simp [allSegments]

theorem allSegments_reverse_one (ws1 ws2 : List (List Node)) (w : List Node) :
    (allSegments (ws1 ++ w.reverse :: ws2)).Perm (allSegments (ws1 ++ w :: ws2)) := by
  simp only [allSegments_append, allSegments_cons]
  exact List.Perm.append_left _ (List.Perm.append_right _ (extract_reverse w))

theorem allSegments_cut_one (ws1 ws2 : List (List Node)) (u v : List Node) (n : Node)
    (hn : n.loc.valid = true) :
    (allSegments (ws1 ++ (u ++ [n]) :: (n :: v) :: ws2)).Perm
      (allSegments (ws1 ++ (u ++ n :: v) :: ws2)) := by
  simp only [allSegments_append, allSegments_cons]
  rw [← extract_cut u v n hn, List.append_assoc]

/-- the spec depends on the input only through the multiset of its segments -/
theorem oddIn_perm (l l' : List Seg) (h : l.Perm l') (s : Seg) : oddIn l s = oddIn l' s := by
  simp only [oddIn, h.count_eq s]

theorem targetOk_perm (l l' segs : List Seg) (h : l.Perm l') : targetOk l segs = targetOk l' segs := by
  have e : oddIn l = oddIn l' := funext (oddIn_perm l l' h)
  simp only [targetOk, e]
  rw [h.all_eq]

theorem judge_perm (l l' : List Seg) (mp : MP) (h : l.Perm l') : judge l mp = judge l' mp := by
  simp only [judge, targetOk_perm l l' _ h]

theorem valid_perm (l l' : List Seg) (mp : MP) (h : l.Perm l') : Valid l mp = Valid l' mp := by
  simp only [Valid, judge_perm l l' mp h]

/-! ## int64 magnitudes -/

def I64 (z : Int) : Prop := -9223372036854775808 ≤ z ∧ z ≤ 9223372036854775807

/-- differences of in-range coordinates are bounded by 2^30; products of two such by 2^60;
    differences of two such products by 2^61 < 2^63 -/
theorem mul_bound (a b : Int) (ha : -1073741824 ≤ a ∧ a ≤ 1073741824)
    (hb : -1073741824 ≤ b ∧ b ≤ 1073741824) :
    -1152921504606846976 ≤ a * b ∧ a * b ≤ 1152921504606846976 := by
  have h1 := Int.mul_nonneg (a := 1073741824 - a) (b := 1073741824 - b) (by omega) (by omega)
  have h2 := Int.mul_nonneg (a := 1073741824 + a) (b := 1073741824 + b) (by omega) (by omega)
  have h3 := Int.mul_nonneg (a := 1073741824 - a) (b := 1073741824 + b) (by omega) (by omega)
  have h4 := Int.mul_nonneg (a := 1073741824 + a) (b := 1073741824 - b) (by omega) (by omega)
  simp only [Int.sub_mul, Int.mul_sub, Int.add_mul, Int.mul_add] at h1 h2 h3 h4
  omega

theorem inRange_bounds (v : Vec) (h : v.inRange = true) :
    -536870912 ≤ v.x ∧ v.x ≤ 536870912 ∧ -536870912 ≤ v.y ∧ v.y ≤ 536870912 := by
  simp only [Vec.inRange, Bool.and_eq_true, decide_eq_true_eq] at h
  have hc : coordBound = 536870912 := rfl
  omega

/-- every int64 intermediate of calculate_intersection, of operator<, of find_enclosing_ring's
    z and of det() stays inside int64 for coordinates within ±2^29 -/
theorem no_overflow_cross (p0 p1 q0 q1 : Vec) (h0 : p0.inRange = true) (h1 : p1.inRange = true)
    (h2 : q0.inRange = true) (h3 : q1.inRange = true) :
    I64 ((p1.x - p0.x) * (q1.y - q0.y)) ∧ I64 ((p1.y - p0.y) * (q1.x - q0.x)) ∧
    I64 ((p1.sub p0).cross (q1.sub q0)) ∧
    I64 ((q1.x - q0.x) * (p0.y - q0.y)) ∧ I64 ((q1.y - q0.y) * (p0.x - q0.x)) ∧
    I64 ((q1.x - q0.x) * (p0.y - q0.y) - (q1.y - q0.y) * (p0.x - q0.x)) ∧
    I64 ((p1.x - p0.x) * (p0.y - q0.y)) ∧ I64 ((p1.y - p0.y) * (p0.x - q0.x)) ∧
    I64 ((p1.x - p0.x) * (p0.y - q0.y) - (p1.y - p0.y) * (p0.x - q0.x)) ∧
    I64 ((p1.sub p0).cross (q0.sub p0)) ∧ I64 (p0.cross p1) := by
  have b0 := inRange_bounds p0 h0
  have b1 := inRange_bounds p1 h1
  have b2 := inRange_bounds q0 h2
  have b3 := inRange_bounds q1 h3
  have mA := mul_bound (p1.x - p0.x) (q1.y - q0.y) (by omega) (by omega)
  have mB := mul_bound (p1.y - p0.y) (q1.x - q0.x) (by omega) (by omega)
  have mC := mul_bound (q1.x - q0.x) (p0.y - q0.y) (by omega) (by omega)
  have mD := mul_bound (q1.y - q0.y) (p0.x - q0.x) (by omega) (by omega)
  have mE := mul_bound (p1.x - p0.x) (p0.y - q0.y) (by omega) (by omega)
  have mF := mul_bound (p1.y - p0.y) (p0.x - q0.x) (by omega) (by omega)
  have mG := mul_bound (p1.x - p0.x) (q0.y - p0.y) (by omega) (by omega)
  have mH := mul_bound (p1.y - p0.y) (q0.x - p0.x) (by omega) (by omega)
  have mI := mul_bound p0.x p1.y (by omega) (by omega)
  have mJ := mul_bound p0.y p1.x (by omega) (by omega)
  simp only [I64, Vec.cross, Vec.sub]
  refine ⟨?_, ?_, ?_, ?_, ?_, ?_, ?_, ?_, ?_, ?_, ?_⟩ <;> omega

/-! ## non-vacuity of the hypotheses -/

/-- a sorted list with a doubled and a tripled segment satisfies `hs` and `hanti` of
    `erase_parity_of_sorted`, and the result is what the theorem says -/
example :
    let a : Seg := ⟨⟨0, 0⟩, ⟨1, 0⟩⟩
    let b : Seg := ⟨⟨0, 0⟩, ⟨1, 1⟩⟩
    let c : Seg := ⟨⟨1, 0⟩, ⟨1, 1⟩⟩
    let l := [b, b, a, c, c, c]
    l.Pairwise (fun x y => Seg.lt y x = false) ∧
    (∀ x ∈ l, ∀ y ∈ l, Seg.lt x y = false → Seg.lt y x = false → x = y) ∧
    eraseDuplicates l = [a, c] ∧ eraseDuplicatesFull l = ([a, c], 2, 1) := by
  decide

/-- a non-degenerate clockwise ring (sum ≠ 0) is turned around for an outer ring -/
example :
    let r := ringOfPoints [⟨0, 0⟩, ⟨0, 1⟩, ⟨1, 1⟩, ⟨0, 0⟩]
    r.sum ≠ 0 ∧ r.isCw = true ∧ (r.fixDirection true).sum = 1 ∧ r.fixDirection false = r := by
  decide

/-- `extract_cut` / `no_overflow_cross` hypotheses are satisfiable -/
example : (⟨7, ⟨1800000000, -900000000⟩⟩ : Node).loc.valid = true ∧
    (⟨536870912, -536870912⟩ : Vec).inRange = true := by decide

end Osmium.Area
