/-
Helper lemmas for the UTF-8 model (property C14): bit operations as arithmetic,
`next (encode c ++ rest) = (c, |encode c|)`, decoding of encoded strings.  Core-only.
-/
import Osmium.Model.Utf8
namespace Osmium.Utf8

theorem or_c0 : ∀ x, x < 32 → x ||| 0xc0 = x + 0xc0 := by decide
theorem or_e0 : ∀ x, x < 16 → x ||| 0xe0 = x + 0xe0 := by decide
theorem or_f0 : ∀ x, x < 8 → x ||| 0xf0 = x + 0xf0 := by decide
theorem or_80 : ∀ x, x < 64 → x ||| 0x80 = x + 0x80 := by decide

theorem and_3f (c : Nat) : c &&& 0x3f = c % 64 := Nat.and_two_pow_sub_one_eq_mod c 6
theorem and_ff (c : Nat) : 0xff &&& c = c % 256 := by
  rw [Nat.and_comm]; exact Nat.and_two_pow_sub_one_eq_mod c 8
theorem and_7ff (c : Nat) : c &&& 0x7ff = c % 2048 := Nat.and_two_pow_sub_one_eq_mod c 11
theorem and_fff (c : Nat) : c &&& 0xfff = c % 4096 := Nat.and_two_pow_sub_one_eq_mod c 12
theorem and_ffff (c : Nat) : c &&& 0xffff = c % 65536 := Nat.and_two_pow_sub_one_eq_mod c 16
theorem and_3ffff (c : Nat) : c &&& 0x3ffff = c % 262144 := Nat.and_two_pow_sub_one_eq_mod c 18
theorem and_1fffff (c : Nat) : c &&& 0x1fffff = c % 2097152 := Nat.and_two_pow_sub_one_eq_mod c 21

theorem seqLen_arith (x : Nat) : seqLen x =
    if x < 0x80 then 1 else if x / 32 = 6 then 2 else if x / 16 = 14 then 3 else if x / 8 = 30 then 4 else 0 := by
  simp [seqLen, Nat.shiftRight_eq_div_pow]

theorem seqLen_1 (x : Nat) (h : x < 0x80) : seqLen x = 1 := by
  rw [seqLen_arith, if_pos h]
theorem seqLen_2 (x : Nat) (h1 : 0xc0 ≤ x) (h2 : x < 0xe0) : seqLen x = 2 := by
  rw [seqLen_arith, if_neg (by omega), if_pos (by omega)]
theorem seqLen_3 (x : Nat) (h1 : 0xe0 ≤ x) (h2 : x < 0xf0) : seqLen x = 3 := by
  rw [seqLen_arith, if_neg (by omega), if_neg (by omega), if_pos (by omega)]
theorem seqLen_4 (x : Nat) (h1 : 0xf0 ≤ x) (h2 : x < 0xf8) : seqLen x = 4 := by
  rw [seqLen_arith, if_neg (by omega), if_neg (by omega), if_neg (by omega), if_pos (by omega)]
theorem seqLen_0 (x : Nat) (h : (0x80 ≤ x ∧ x < 0xc0) ∨ 0xf8 ≤ x) : seqLen x = 0 := by
  rw [seqLen_arith, if_neg (by omega), if_neg (by omega), if_neg (by omega), if_neg (by omega)]

theorem next_1 (b0 : UInt8) (rest : List UInt8) (h : seqLen b0.toNat = 1) :
    next (b0 :: rest) = .ok (b0.toNat, 1) := by
  simp [next, rd, h]

theorem next_2 (b0 b1 : UInt8) (rest : List UInt8) (h : seqLen b0.toNat = 2) :
    next (b0 :: b1 :: rest) = .ok ((b0.toNat * 64) % 2048 + b1.toNat % 64, 2) := by
  simp [next, rd, h, Nat.shiftLeft_eq, and_3f, and_7ff]

theorem next_3 (b0 b1 b2 : UInt8) (rest : List UInt8) (h : seqLen b0.toNat = 3) :
    next (b0 :: b1 :: b2 :: rest) =
      .ok ((b0.toNat * 4096) % 65536 + (b1.toNat % 256 * 64) % 4096 + b2.toNat % 64, 3) := by
  simp [next, rd, h, Nat.shiftLeft_eq, and_3f, and_ffff, and_fff, and_ff]

theorem next_4 (b0 b1 b2 b3 : UInt8) (rest : List UInt8) (h : seqLen b0.toNat = 4) :
    next (b0 :: b1 :: b2 :: b3 :: rest) =
      .ok ((b0.toNat * 262144) % 2097152 + (b1.toNat % 256 * 4096) % 262144
            + (b2.toNat % 256 * 64) % 4096 + b3.toNat % 64, 4) := by
  simp [next, rd, h, Nat.shiftLeft_eq, and_3f, and_1fffff, and_3ffff, and_fff, and_ff]

/-- arithmetic form of `encode` on code points below 0x200000 -/
theorem encode_arith (c : Nat) (h : c < 0x200000) : encode c =
    if c < 0x80 then [UInt8.ofNat c]
    else if c < 0x800 then [UInt8.ofNat (c / 64 + 192), UInt8.ofNat (c % 64 + 128)]
    else if c < 0x10000 then
      [UInt8.ofNat (c / 4096 + 224), UInt8.ofNat (c / 64 % 64 + 128), UInt8.ofNat (c % 64 + 128)]
    else [UInt8.ofNat (c / 262144 + 240), UInt8.ofNat (c / 4096 % 64 + 128),
          UInt8.ofNat (c / 64 % 64 + 128), UInt8.ofNat (c % 64 + 128)] := by
  unfold encode
  simp only [Nat.shiftRight_eq_div_pow, and_3f]
  split
  · rfl
  · split
    · rw [or_c0 _ (by omega), or_80 _ (by omega)]
    · split
      · rw [or_e0 _ (by omega), or_80 _ (by omega), or_80 _ (by omega)]
      · rw [or_f0 _ (by omega), or_80 _ (by omega), or_80 _ (by omega), or_80 _ (by omega)]

theorem next_encode (c : Nat) (h : c < 0x200000) (rest : List UInt8) :
    next (encode c ++ rest) = .ok (c, (encode c).length) := by
  rw [encode_arith c h]
  by_cases h1 : c < 0x80
  · simp only [h1, if_true, List.cons_append, List.nil_append]
    rw [next_1 _ _ (seqLen_1 _ (by rw [UInt8.toNat_ofNat']; omega))]
    simp [UInt8.toNat_ofNat']; omega
  · by_cases h2 : c < 0x800
    · simp only [h1, h2, if_true, if_false, List.cons_append, List.nil_append]
      rw [next_2 _ _ _ (seqLen_2 _ (by rw [UInt8.toNat_ofNat']; omega) (by rw [UInt8.toNat_ofNat']; omega))]
      simp [UInt8.toNat_ofNat']; omega
    · by_cases h3 : c < 0x10000
      · simp only [h1, h2, h3, if_true, if_false, List.cons_append, List.nil_append]
        rw [next_3 _ _ _ _ (seqLen_3 _ (by rw [UInt8.toNat_ofNat']; omega) (by rw [UInt8.toNat_ofNat']; omega))]
        simp [UInt8.toNat_ofNat']; omega
      · simp only [h1, h2, h3, if_false, List.cons_append, List.nil_append]
        rw [next_4 _ _ _ _ _ (seqLen_4 _ (by rw [UInt8.toNat_ofNat']; omega) (by rw [UInt8.toNat_ofNat']; omega))]
        simp [UInt8.toNat_ofNat']; omega

theorem encode_ne_nil (c : Nat) : encode c ≠ [] := by
  unfold encode; repeat' split
  all_goals simp

theorem encode_ascii (c : Nat) (h : c < 0x80) : encode c = [UInt8.ofNat c] := by
  simp [encode, h]

/-- every byte of a multi-byte sequence has the high bit set -/
theorem encode_bytes_high (c : Nat) (h0 : 0x80 ≤ c) (h : c < 0x200000) :
    ∀ b ∈ encode c, 0x80 ≤ b.toNat := by
  rw [encode_arith c h, if_neg (by omega)]
  intro b hb
  by_cases h2 : c < 0x800
  · simp only [h2, if_true, List.mem_cons, List.not_mem_nil, or_false] at hb
    rcases hb with hb | hb <;> subst hb <;> rw [UInt8.toNat_ofNat'] <;> omega
  · by_cases h3 : c < 0x10000
    · simp only [h2, h3, if_true, if_false, List.mem_cons, List.not_mem_nil, or_false] at hb
      rcases hb with hb | hb | hb <;> subst hb <;> rw [UInt8.toNat_ofNat'] <;> omega
    · simp only [h2, h3, if_false, List.mem_cons, List.not_mem_nil, or_false] at hb
      rcases hb with hb | hb | hb | hb <;> subst hb <;> rw [UInt8.toNat_ofNat'] <;> omega

theorem encodeStr_cons (c : Nat) (s : List Nat) : encodeStr (c :: s) = encode c ++ encodeStr s := by
  simp [encodeStr]

theorem decodeAll_encodeStr (s : List Nat) (hs : ∀ c ∈ s, c < 0x200000) :
    ∀ fuel, (encodeStr s).length < fuel → decodeAll fuel (encodeStr s) = .ok s := by
  induction s with
  | nil => intro fuel hf; cases fuel with
    | zero => omega
    | succ f => simp [encodeStr, decodeAll]
  | cons c s ih =>
    intro fuel hf
    cases fuel with
    | zero => omega
    | succ f =>
      have hc := hs c (by simp)
      have hne := encode_ne_nil c
      rw [encodeStr_cons] at hf ⊢
      have hlen : 0 < (encode c).length := List.length_pos_iff.mpr hne
      simp only [decodeAll, List.isEmpty_iff, List.append_eq_nil_iff, hne, false_and, if_false,
        next_encode c hc, List.drop_left']
      rw [ih (fun x hx => hs x (by simp [hx])) f (by simp at hf; omega)]

theorem decodeStr_encodeStr (s : List Nat) (hs : ∀ c ∈ s, c < 0x200000) :
    decodeStr (encodeStr s) = .ok s :=
  decodeAll_encodeStr s hs _ (by omega)

theorem scalar_lt {c : Nat} (h : IsScalar c) : c < 0x200000 := by
  unfold IsScalar at h; omega

/-- the lead byte of an encoded code point announces exactly the encoded length -/
theorem seqLen_head_encode (c : Nat) (h : c < 0x200000) :
    ∃ b0 tl, encode c = b0 :: tl ∧ seqLen b0.toNat = (b0 :: tl).length := by
  rw [encode_arith c h]
  by_cases h1 : c < 0x80
  · rw [if_pos h1]
    exact ⟨_, _, rfl, seqLen_1 _ (by rw [UInt8.toNat_ofNat']; omega)⟩
  · by_cases h2 : c < 0x800
    · rw [if_neg h1, if_pos h2]
      exact ⟨_, _, rfl,
        seqLen_2 _ (by rw [UInt8.toNat_ofNat']; omega) (by rw [UInt8.toNat_ofNat']; omega)⟩
    · by_cases h3 : c < 0x10000
      · rw [if_neg h1, if_neg h2, if_pos h3]
        exact ⟨_, _, rfl,
          seqLen_3 _ (by rw [UInt8.toNat_ofNat']; omega) (by rw [UInt8.toNat_ofNat']; omega)⟩
      · rw [if_neg h1, if_neg h2, if_neg h3]
        exact ⟨_, _, rfl,
          seqLen_4 _ (by rw [UInt8.toNat_ofNat']; omega) (by rw [UInt8.toNat_ofNat']; omega)⟩

end Osmium.Utf8

/-- decidable equality of outcomes (for the concrete witnesses in Props/C14.lean) -/
instance {ε α : Type} [DecidableEq ε] [DecidableEq α] : DecidableEq (Except ε α)
  | .ok a, .ok b => if h : a = b then isTrue (by rw [h]) else isFalse (fun e => h (Except.ok.inj e))
  | .error a, .error b =>
    if h : a = b then isTrue (by rw [h]) else isFalse (fun e => h (Except.error.inj e))
  | .ok _, .error _ => isFalse (fun e => by cases e)
  | .error _, .ok _ => isFalse (fun e => by cases e)
