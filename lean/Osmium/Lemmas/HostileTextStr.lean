/-
C03 helper: `opl_parse_string` / `opl_parse_escaped` stop at the terminating NUL (used by Lemmas/HostileText.lean).
-/
import Osmium.Model.HostileText
import Osmium.Model.Escape

namespace Osmium.HostileText.Aux
open Osmium

theorem noNul_cons {c : UInt8} {s : Bytes} (h : NoNul (c :: s)) : c ≠ 0 ∧ NoNul s :=
  ⟨h c (List.mem_cons_self ..), fun b hb => h b (List.mem_cons_of_mem _ hb)⟩

theorem parseEscaped_mem (n v : Nat) (s junk : Bytes) (h : NoNul s) :
    Opl.parseEscaped n v (s ++ behind junk) = onMem junk (Opl.parseEscaped n v s) := by
  induction n generalizing v s with
  | zero => simp [Opl.parseEscaped, onMem]
  | succ n ih =>
    cases s with
    | nil => simp [Opl.parseEscaped, onMem, behind]
    | cons c s =>
      obtain ⟨hc, hs⟩ := noNul_cons h
      simp only [List.cons_append, Opl.parseEscaped, hc, if_false]
      split
      · rfl
      · cases Opl.hexVal c with
        | none => rfl
        | some d => exact ih _ _ hs

theorem parseEscaped_rest {n v : Nat} {s p r : Bytes} (h : Opl.parseEscaped n v s = .ok (p, r)) :
    r.length < s.length ∧ (NoNul s → NoNul r) := by
  induction n generalizing v s with
  | zero => simp [Opl.parseEscaped] at h
  | succ n ih =>
    cases s with
    | nil => simp [Opl.parseEscaped] at h
    | cons c s =>
      simp only [Opl.parseEscaped] at h
      split at h
      · cases h
      · split at h
        · cases h
          exact ⟨by simp, fun hn => (noNul_cons hn).2⟩
        · cases hv : Opl.hexVal c with
          | none => rw [hv] at h; cases h
          | some d =>
            rw [hv] at h
            have := ih h
            exact ⟨by simp only [List.length_cons]; omega, fun hn => this.2 (noNul_cons hn).2⟩

theorem isStop_zero : Opl.isStop 0 = true := by decide

theorem parseStringLoop_mem (f1 : Nat) : ∀ (f2 : Nat) (s junk : Bytes), NoNul s →
    s.length < f1 → s.length < f2 →
    Opl.parseStringLoop f2 (s ++ behind junk) = onMem junk (Opl.parseStringLoop f1 s) := by
  induction f1 with
  | zero => intro f2 s junk _ h1; omega
  | succ f1 ih =>
    intro f2 s junk hn h1 h2
    cases f2 with
    | zero => omega
    | succ f2 =>
      cases s with
      | nil => simp [Opl.parseStringLoop, behind, isStop_zero, onMem]
      | cons c s =>
        obtain ⟨hc, hs⟩ := noNul_cons hn
        simp only [List.length_cons] at h1 h2
        simp only [List.cons_append, Opl.parseStringLoop]
        split
        · rfl
        · split
          · rw [parseEscaped_mem 8 0 s junk hs]
            cases hpe : Opl.parseEscaped 8 0 s with
            | error e => rfl
            | ok pr =>
              obtain ⟨p, rest⟩ := pr
              have hr := parseEscaped_rest hpe
              simp only [onMem]
              rw [ih f2 rest junk (hr.2 hs) (by omega) (by omega)]
              cases Opl.parseStringLoop f1 rest with
              | error e => rfl
              | ok q => rfl
          · rw [ih f2 s junk hs (by omega) (by omega)]
            cases Opl.parseStringLoop f1 s with
            | error e => rfl
            | ok q => rfl

theorem oplParseString_stops : StopsAtNul Opl.parseString := by
  intro s junk hn
  unfold Opl.parseString
  exact parseStringLoop_mem _ _ s junk hn (by omega) (by simp [behind]; omega)

end Osmium.HostileText.Aux
