/-
Progress (C07): a busy wait is never forced.  `Prog.progress_possible`: in every reachable state of a
well-formed configuration in which an API call is in progress, an internal step that is NOT a
busy-wait iteration is enabled — at once, or after ONE busy-wait step (the 10 ms timed wait of a
bounded push() ending while the queue is no longer full).  So the endless busy wait that
`Term.call_returns_or_spins` leaves open can only happen when the scheduler / the timed wait for
ever withholds a step that is enabled; no state of the pipeline forces it.

Parts: `Prog.read_prog` (read thread), `Prog.pars_prog` (parser thread), `Prog.cons_prog` (consumer):
each thread can make progress or is in one of its wait states; `Prog.progress_possible` goes through
the combinations of wait states with the wait-for invariants of PipelineProgInv.lean and of the
no-stuck-state proof.
-/
import Osmium.Lemmas.PipelineProgInv
import Osmium.Lemmas.PipelineRank
import Osmium.Lemmas.PipelineTerm

set_option linter.unusedSimpArgs false
set_option linter.unusedVariables false
set_option linter.unnecessarySeqFocus false

namespace Osmium.Pipeline

open Osmium.Mon

variable {α : Type} [DecidableEq α]

namespace Prog

open Live

/-- an internal step that is not a busy-wait iteration is enabled -/
def Can (c : Cfg α) (s : State α) : Prop :=
  ∃ e s', e.isCall = false ∧ isStutter c s e = false ∧ (machine c).Step s e s'

theorem en2 (c : Cfg α) (s : State α) (ev : Ev α) (hc : ev.isCall = false) (hs : isStutter c s ev = false)
    (h : (step? c s ev).isSome = true) : Can c s := by
  obtain ⟨s', hs'⟩ := Option.isSome_iff_exists.mp h
  exact ⟨ev, s', hc, hs, hs'⟩

/-- thread `t` is in the polling loop of a bounded push() and its next step is a busy-wait iteration -/
def Spin (max : Nat) (q : QueueSM.State Nat) (t : Tid) : Prop :=
  (∃ x, q.pc t = .pushMustWait x) ∨ (∃ x, q.pc t = .pushPolling x ∧ max ≤ q.items.length)

/-- a thread inside push(): one of three non-busy-wait queue steps is enabled, or it spins -/
theorem q_push_prog (qc : QueueSM.Cfg) (q : QueueSM.State Nat) (t : Tid) (id : Nat) (h : inPush (q.pc t) id) :
    (QueueSM.step? qc q (.pushTest t q.inUse)).isSome = true ∨
    ((QueueSM.step? qc q (.pushSize t q.items.length)).isSome = true ∧ ¬ qc.max ≤ q.items.length) ∨
    (∃ w, (QueueSM.step? qc q (.pushLocked t (q.items.length + 1) w)).isSome = true) ∨
    Spin qc.max q t := by
  rcases h with h | h | h | h
  · left; simp only [QueueSM.step?, h]; cases q.inUse <;> simp <;> split <;> simp
  · by_cases hm : qc.max ≤ q.items.length
    · exact .inr (.inr (.inr (.inr ⟨id, h, hm⟩)))
    · right; left; refine ⟨?_, hm⟩; simp only [QueueSM.step?, h]; simp; split <;> simp
  · exact .inr (.inr (.inr (.inl ⟨id, h⟩)))
  · right; right; left
    rcases CondVar.all_or_unnotified q.waiters with hall | ⟨w, hw⟩
    · exact ⟨none, by simp [QueueSM.step?, h, CondVar.notifyOneOk, hall]⟩
    · exact ⟨some w, by simp [QueueSM.step?, h, CondVar.notifyOneOk, hw]⟩

/-! ## the read thread -/

theorem read_prog (c : Cfg α) (s : State α) (h : (machine c).Reachable s) (hr : s.rpc ≠ .done) :
    Can c s ∨ ∃ id v k, s.rpc = .pushing id v k ∧ Spin c.inqC.max s.inq tR := by
  have hpc := (pcInv c s h).rIn
  cases hrpc : s.rpc with
  | done => exact absurd hrpc hr
  | loop => exact .inl (en2 c s (.rTestDone s.stop) rfl rfl (by simp [step?, hrpc]))
  | reading =>
    left
    by_cases h1 : c.readFault = some s.reads
    · exact en2 c s (.rRead (.exc 1)) rfl rfl (by simp [step?, hrpc, h1])
    · by_cases h2 : s.reads < c.chunkEnd.length
      · exact en2 c s (.rRead (.chunk s.reads)) rfl rfl (by simp [step?, hrpc, h1, h2])
      · exact en2 c s (.rRead .eod) rfl rfl (by simp [step?, hrpc, h1, h2])
  | closing =>
    left
    refine en2 c s (.rCloseDec (!c.closeFault)) rfl rfl ?_
    simp only [step?, hrpc]; cases c.closeFault <;> simp
  | push v k =>
    rw [hrpc] at hpc
    simp only [rOk] at hpc
    exact .inl (en2 c s (.qi (.pushEnter tR (2 * s.nIn))) rfl rfl (by simp [step?, hrpc, QueueSM.step?, hpc]))
  | pushing id v k =>
    rw [hrpc] at hpc
    simp only [rOk] at hpc
    rcases q_push_prog c.inqC s.inq tR id hpc with h1 | ⟨h1, hm⟩ | ⟨w, h1⟩ | h1
    · exact .inl (en2 c s (.qi (.pushTest tR s.inq.inUse)) rfl rfl (by simpa [step?, hrpc] using h1))
    · exact .inl (en2 c s (.qi (.pushSize tR s.inq.items.length)) rfl (by simpa [isStutter] using hm)
        (by simpa [step?, hrpc] using h1))
    · exact .inl (en2 c s (.qi (.pushLocked tR (s.inq.items.length + 1) w)) rfl rfl (by simpa [step?, hrpc] using h1))
    · exact .inr ⟨id, v, k, rfl, h1⟩
  | pushed id v k => exact .inl (en2 c s .rSet rfl rfl (by simp [step?, hrpc]))

/-! ## the parser thread -/

/-- the wait states of the parser thread (those of `Live.ParserWaiting` and the polling loop) -/
def PWait (c : Cfg α) (s : State α) : Prop :=
  (s.ppc = .popWait ∧ s.inq.pc tP = .popWaiting) ∨
  (∃ id, s.ppc = .got id ∧ s.fut id = none) ∨
  (s.ppc = .run ∧ c.usePool = true ∧ c.wqMax ≠ 0 ∧ c.wqMax ≤ s.work.length) ∨
  (∃ id ov k, s.ppc = .pushing id ov k ∧ Spin c.outqC.max s.outq tP)

theorem pars_run_prog (c : Cfg α) (s : State α) (hd : RunData c s) (hp : s.ppc = .run) :
    Can c s ∨ PWait c s := by
  obtain ⟨hna, hal, hblob, hnoth⟩ := hd
  by_cases hid : s.inputDone = false
  · exact .inl (en2 c s (.pInUse s.inq.inUse) rfl rfl (by simp only [step?, hp, hid]; cases s.inq.inUse <;> simp))
  have hid : s.inputDone = true := by simpa using hid
  by_cases hh : s.hdr = none
  · exact .inl (en2 c s .pHeader rfl rfl (by simp [step?, hp, hh]))
  by_cases hf : c.parseFault = some s.next
  · exact .inl (en2 c s .pThrow rfl rfl (by simp [step?, hp, hf, hid]))
  by_cases hlt : s.next < s.avail
  · cases hpbf : c.pbf with
    | false =>
      have : s.next < c.file.length := by omega
      left
      refine en2 c s (.pObj false) rfl rfl ?_
      simp only [step?, hp, hpbf, hlt, List.getElem?_eq_getElem this]
      simp [hh, hf]
      split <;> simp
    | true =>
      obtain ⟨hb1, hb2, hb3⟩ := hblob hpbf hlt
      by_cases hno : c.nothing = true
      · exact .inl (en2 c s .pRunEnd rfl rfl (by simp [step?, hp, hh, hnoth hno, hno]))
      · have hno : c.nothing = false := by simpa using hno
        cases hup : c.usePool with
        | false =>
          left
          refine en2 c s (.pBlob [proj c (seg c s.next (nth c.blobEnd s.blob))]) rfl rfl ?_
          simp only [step?, hp, hpbf, hno, hup]
          simp [hh, hb1, hb2, hb3, hf, wfLevels_single]
          split <;> simp
        | true =>
          by_cases hw : c.wqMax = 0 ∨ s.work.length < c.wqMax
          · left
            refine en2 c s (.pBlob [proj c (seg c s.next (nth c.blobEnd s.blob))]) rfl rfl ?_
            simp only [step?, hp, hpbf, hno, hup]
            simp [hh, hb1, hb2, hb3, hf, wfLevels_single, hw]
          · right; right; right; left
            exact ⟨hp, hup, by omega, by omega⟩
  · have heq : s.next = s.avail := by omega
    by_cases hcur : s.cur = []
    · have hf' : ¬c.parseFault = some s.avail := heq ▸ hf
      exact .inl (en2 c s .pRunEnd rfl rfl (by simp [step?, hp, hh, hcur, hid, heq, hf']))
    · exact .inl (en2 c s .pFlushFinal rfl rfl (by simp [step?, hp, hid, heq, hcur]))

theorem pars_prog (c : Cfg α) (s : State α) (h : (machine c).Reachable s)
    (hd : RunData c s) (hty : Typed s) (hp : s.ppc ≠ .done) : Can c s ∨ PWait c s := by
  have hpc := pcInv c s h
  have hin := hpc.pIn
  have hout := hpc.pOut
  cases hppc : s.ppc with
  | done => exact absurd hppc hp
  | run => exact pars_run_prog c s hd hppc
  | popWait =>
    rw [hppc] at hin
    simp only [pOkIn] at hin
    rcases hin with hi | hi
    · left
      cases hpred : QueueSM.pred s.inq with
      | true => exact en2 c s (.qi (.popNow tP s.inq.items.length s.inq.items.head?)) rfl rfl
                  (by simp [step?, hppc, QueueSM.step?, hi, hpred])
      | false => exact en2 c s (.qi (.popBlock tP)) rfl rfl (by simp [step?, hppc, QueueSM.step?, hi, hpred])
    · exact .inr (.inl ⟨hppc, hi⟩)
  | got id =>
    cases hf : s.fut id with
    | none => exact .inr (.inr (.inl ⟨id, hppc, hf⟩))
    | some v =>
      left
      cases v with
      | buf l => exact absurd hf (hty.1 id l hppc)
      | chunk i => exact en2 c s (.pGet (.chunk i)) rfl rfl (by simp [step?, hppc, hf])
      | eod => exact en2 c s (.pGet .eod) rfl rfl (by simp [step?, hppc, hf])
      | exc code => exact en2 c s (.pGet (.exc code)) rfl rfl (by simp [step?, hppc, hf])
  | sdIn k =>
    rw [hppc] at hin
    simp only [pOkIn] at hin
    exact .inl (en2 c s (.qi (.sdEnter tP)) rfl rfl (by simp [step?, hppc, QueueSM.step?, hin]))
  | sdInRun k =>
    rw [hppc] at hin
    simp only [pOkIn] at hin
    left
    rcases q_sd_enabled c.inqC s.inq tP hin with h1 | h1
    · exact en2 c s (.qi (.sdFlag tP)) rfl rfl (by simpa [step?, hppc] using h1)
    · exact en2 c s (.qi (.sdLocked tP)) rfl rfl (by simpa [step?, hppc] using h1)
  | push v k =>
    rw [hppc] at hout
    simp only [pOkOut] at hout
    exact .inl (en2 c s (.qo (.pushEnter tP (2 * s.nOut + 1))) rfl rfl (by simp [step?, hppc, QueueSM.step?, hout]))
  | pushFut id k =>
    rw [hppc] at hout
    simp only [pOkOut] at hout
    exact .inl (en2 c s (.qo (.pushEnter tP id)) rfl rfl (by simp [step?, hppc, QueueSM.step?, hout]))
  | pushing id ov k =>
    rw [hppc] at hout
    simp only [pOkOut] at hout
    rcases q_push_prog c.outqC s.outq tP id hout with h1 | ⟨h1, hm⟩ | ⟨w, h1⟩ | h1
    · exact .inl (en2 c s (.qo (.pushTest tP s.outq.inUse)) rfl rfl (by simpa [step?, hppc] using h1))
    · exact .inl (en2 c s (.qo (.pushSize tP s.outq.items.length)) rfl (by simpa [isStutter] using hm)
        (by simpa [step?, hppc] using h1))
    · exact .inl (en2 c s (.qo (.pushLocked tP (s.outq.items.length + 1) w)) rfl rfl (by simpa [step?, hppc] using h1))
    · exact .inr (.inr (.inr (.inr ⟨id, ov, k, hppc, h1⟩)))
  | pushed id v k => exact .inl (en2 c s .pSet rfl rfl (by simp [step?, hppc]))
  | caught code => exact .inl (en2 c s .pCatch rfl rfl (by simp [step?, hppc]))

/-! ## the pool -/

theorem worker_prog (c : Cfg α) (s : State α) (hw : s.work ≠ []) (hne : c.workers ≠ []) : Can c s := by
  obtain ⟨w, hwm⟩ := List.exists_mem_of_ne_nil _ hne
  cases hwp : s.wpc w with
  | some id => exact en2 c s (.wDone w) rfl rfl (by simp [step?, hwp])
  | none =>
    cases hwk : s.work with
    | nil => exact absurd hwk hw
    | cons id rest => exact en2 c s (.wStart w) rfl rfl (by simp [step?, hwp, hwm, hwk])

theorem running_prog (c : Cfg α) (s : State α) (w : Tid) (id : Nat) (hwp : s.wpc w = some id) : Can c s :=
  en2 c s (.wDone w) rfl rfl (by simp [step?, hwp])

/-! ## the consumer -/

omit [DecidableEq α] in
theorem pOkOut_not (p : PPc α) (q : QueueSM.Pc Nat) (h : pOkOut p q) : q ≠ .popWaiting ∧ q ≠ .sdFlagged := by
  cases p <;> simp only [pOkOut, inPush] at h <;>
    (first | (subst h; simp) | (rcases h with h | h | h | h <;> subst h <;> simp))

omit [DecidableEq α] in
theorem rOk_not (p : RPc α) (q : QueueSM.Pc Nat) (h : rOk p q) : q ≠ .popWaiting ∧ q ≠ .sdFlagged := by
  cases p <;> simp only [rOk, inPush] at h <;>
    (first | (subst h; simp) | (rcases h with h | h | h | h <;> subst h <;> simp))

/-- the wait states of the consumer inside an API call -/
def CWait (s : State α) : Prop :=
  (s.cpc = .hdrWait ∧ s.hdr = none) ∨
  (s.cpc = .readWaitPop ∧ s.outq.pc tC = .popWaiting ∧ QueueSM.pred s.outq = false) ∨
  (∃ id, s.cpc = .readGot id ∧ s.fut id = none) ∨
  (joining s.cpc = true ∧ s.cpc ≠ .dtorJoinP ∧ s.rpc ≠ .done) ∨
  (s.cpc = .dtorJoinP ∧ s.ppc ≠ .done)

theorem cons_prog (c : Cfg α) (s : State α) (h : (machine c).Reachable s) (hty : Typed s)
    (h1 : s.cpc ≠ .idle) (h2 : s.cpc ≠ .dead) : Can c s ∨ CWait s := by
  have hpc := pcInv c s h
  have hco := hpc.cOut
  cases hc : s.cpc with
  | idle => exact absurd hc h1
  | dead => exact absurd hc h2
  | hdrWait =>
    cases hhd : s.hdr with
    | none => exact .inr (.inl ⟨hc, hhd⟩)
    | some o => cases o <;> exact .inl (en2 c s .cHeaderGet rfl rfl (by simp [step?, hc, hhd]))
  | readPop =>
    refine .inl (en2 c s (.cInUse s.outq.inUse) rfl rfl ?_)
    simp only [step?, hc]; cases s.outq.inUse <;> simp
  | readWaitPop =>
    rw [hc] at hco
    simp only [cOk] at hco
    rcases hco with hi | hi
    · left
      cases hpred : QueueSM.pred s.outq with
      | true => exact en2 c s (.qo (.popNow tC s.outq.items.length s.outq.items.head?)) rfl rfl
                  (by simp [step?, hc, QueueSM.step?, hi, hpred])
      | false => exact en2 c s (.qo (.popBlock tC)) rfl rfl (by simp [step?, hc, QueueSM.step?, hi, hpred])
    · cases hpred : QueueSM.pred s.outq with
      | false => exact .inr (.inr (.inl ⟨hc, hi, hpred⟩))
      | true =>
        left
        have := q_wake_enabled c.outqC s.outq (Q.reachable_outq c s h) tC hi hpred (by
          intro u hu
          by_cases hup : u = tP
          · subst hup; exact pOkOut_not _ _ hpc.pOut
          · rw [hpc.othOut u hup hu]; simp)
        exact en2 c s (.qo (.popWake tC s.outq.items.length s.outq.items.head?)) rfl rfl
          (by simpa [step?, hc] using this)
  | readGot id =>
    cases hf : s.fut id with
    | some v =>
      left
      cases v with
      | chunk i => exact absurd hf (hty.2 id i hc)
      | buf l => exact en2 c s (.cGet (.buf l)) rfl rfl (by simp [step?, hc, hf])
      | eod => exact en2 c s (.cGet .eod) rfl rfl (by simp [step?, hc, hf])
      | exc code => exact en2 c s (.cGet (.exc code)) rfl rfl (by simp [step?, hc, hf])
    | none => exact .inr (.inr (.inr (.inl ⟨id, hc, hf⟩)))
  | eodSd =>
    rw [hc] at hco; simp only [cOk] at hco
    exact .inl (en2 c s (.qo (.sdEnter tC)) rfl rfl (by simp [step?, hc, QueueSM.step?, hco]))
  | closeSd k =>
    rw [hc] at hco; simp only [cOk] at hco
    exact .inl (en2 c s (.qo (.sdEnter tC)) rfl rfl (by simp [step?, hc, QueueSM.step?, hco]))
  | dtorSd =>
    rw [hc] at hco; simp only [cOk] at hco
    exact .inl (en2 c s (.qo (.sdEnter tC)) rfl rfl (by simp [step?, hc, QueueSM.step?, hco]))
  | eodSdRun =>
    rw [hc] at hco; simp only [cOk] at hco
    left
    rcases q_sd_enabled c.outqC s.outq tC hco with g | g
    · exact en2 c s (.qo (.sdFlag tC)) rfl rfl (by simpa [step?, hc] using g)
    · exact en2 c s (.qo (.sdLocked tC)) rfl rfl (by simpa [step?, hc] using g)
  | closeSdRun k =>
    rw [hc] at hco; simp only [cOk] at hco
    left
    rcases q_sd_enabled c.outqC s.outq tC hco with g | g
    · exact en2 c s (.qo (.sdFlag tC)) rfl rfl (by simpa [step?, hc] using g)
    · exact en2 c s (.qo (.sdLocked tC)) rfl rfl (by simpa [step?, hc] using g)
  | dtorSdRun =>
    rw [hc] at hco; simp only [cOk] at hco
    left
    rcases q_sd_enabled c.outqC s.outq tC hco with g | g
    · exact en2 c s (.qo (.sdFlag tC)) rfl rfl (by simpa [step?, hc] using g)
    · exact en2 c s (.qo (.sdLocked tC)) rfl rfl (by simpa [step?, hc] using g)
  | eofJoin =>
    by_cases hr : s.rpc = .done
    · exact .inl (en2 c s .cJoinR rfl rfl (by simp [step?, hc, hr]))
    · exact .inr (.inr (.inr (.inr (.inl ⟨by rw [hc]; rfl, by rw [hc]; simp, hr⟩))))
  | closeJoin k =>
    by_cases hr : s.rpc = .done
    · exact .inl (en2 c s .cJoinR rfl rfl (by simp [step?, hc, hr]))
    · exact .inr (.inr (.inr (.inr (.inl ⟨by rw [hc]; rfl, by rw [hc]; simp, hr⟩))))
  | dtorJoinP =>
    by_cases hp : s.ppc = .done
    · exact .inl (en2 c s .cJoinP rfl rfl (by simp [step?, hc, hp]))
    · exact .inr (.inr (.inr (.inr (.inr ⟨hc, hp⟩))))
  | ret r => exact .inl (en2 c s (.cRet r) rfl rfl (by simp [step?, hc]))

/-! ## leaving the polling loop -/

/-- the read thread sits in the timed wait of push() and the input queue is no longer full -/
def QIn (c : Cfg α) (s : State α) : Prop :=
  ∃ x, s.inq.pc tR = .pushMustWait x ∧ s.inq.items.length < c.inqC.max

/-- the parser thread sits in the timed wait of push() and the osmdata queue is no longer full -/
def QOut (c : Cfg α) (s : State α) : Prop :=
  ∃ x, s.outq.pc tP = .pushMustWait x ∧ s.outq.items.length < c.outqC.max

/-- progress now, or as soon as a timed wait of push() has ended -/
def Soon (c : Cfg α) (s : State α) : Prop := Can c s ∨ QIn c s ∨ QOut c s

/-- `QIn`: the timed wait ends (a busy-wait step by definition), then `size()` sees room -/
theorem qin_step (c : Cfg α) (s : State α) (hq : QIn c s) :
    ∃ e s1, e.isCall = false ∧ (machine c).Step s e s1 ∧ Can c s1 := by
  obtain ⟨x, hx, hlt⟩ := hq
  have hstep : (machine c).Step s (.qi (.pushFullWaited tR s.inq.items.length))
      { s with inq := { s.inq with pc := setPc s.inq.pc tR (.pushPolling x) } } := by
    simp [Machine.Step, machine, step?, QueueSM.step?, hx]
  refine ⟨_, _, rfl, hstep, en2 c _ (.qi (.pushSize tR s.inq.items.length)) rfl ?_ ?_⟩
  · simp only [isStutter, decide_eq_false_iff_not]; omega
  · have : ¬ s.inq.items.length ≥ c.inqC.max := by omega
    simp [step?, QueueSM.step?, this]

theorem qout_step (c : Cfg α) (s : State α) (hq : QOut c s) :
    ∃ e s1, e.isCall = false ∧ (machine c).Step s e s1 ∧ Can c s1 := by
  obtain ⟨x, hx, hlt⟩ := hq
  have hstep : (machine c).Step s (.qo (.pushFullWaited tP s.outq.items.length))
      { s with outq := { s.outq with pc := setPc s.outq.pc tP (.pushPolling x) } } := by
    simp [Machine.Step, machine, step?, QueueSM.step?, hx]
  refine ⟨_, _, rfl, hstep, en2 c _ (.qo (.pushSize tP s.outq.items.length)) rfl ?_ ?_⟩
  · simp only [isStutter, decide_eq_false_iff_not]; omega
  · have : ¬ s.outq.items.length ≥ c.outqC.max := by omega
    simp [step?, QueueSM.step?, this]

/-- progress now, or after one more internal step -/
theorem Soon.two_steps {c : Cfg α} {s : State α} (h : Soon c s) :
    Can c s ∨ ∃ e s1, e.isCall = false ∧ (machine c).Step s e s1 ∧ Can c s1 := by
  rcases h with h | h | h
  · exact .inl h
  · exact .inr (qin_step c s h)
  · exact .inr (qout_step c s h)

/-- a spinning producer is in its timed wait while the queue has room, or the queue is full -/
theorem spin_cases {max : Nat} {q : QueueSM.State Nat} {t : Tid} (h : Spin max q t) :
    (∃ x, q.pc t = .pushMustWait x ∧ q.items.length < max) ∨ (polling (q.pc t) = true ∧ max ≤ q.items.length) := by
  rcases h with ⟨x, hx⟩ | ⟨x, hx, hm⟩
  · by_cases hl : q.items.length < max
    · exact .inl ⟨x, hx, hl⟩
    · exact .inr ⟨by rw [hx]; rfl, by omega⟩
  · exact .inr ⟨by rw [hx]; rfl, hm⟩

theorem spin_max {max : Nat} {q : QueueSM.State Nat} {t : Tid} (h : Spin max q t) :
    ∃ x, q.pc t = .pushPolling x ∨ q.pc t = .pushMustWait x := by
  rcases h with ⟨x, hx⟩ | ⟨x, hx, _⟩
  · exact ⟨x, .inr hx⟩
  · exact ⟨x, .inl hx⟩

/-- the read thread is blocked by a FULL input queue -/
def RFull (c : Cfg α) (s : State α) : Prop :=
  ∃ id v k, s.rpc = .pushing id v k ∧ polling (s.inq.pc tR) = true ∧ s.inq.items ≠ []

/-- the parser thread is blocked by a FULL osmdata queue -/
def PFull (c : Cfg α) (s : State α) : Prop :=
  ∃ id ov k, s.ppc = .pushing id ov k ∧ polling (s.outq.pc tP) = true ∧ s.outq.items ≠ []

theorem read_side (c : Cfg α) (s : State α) (h : (machine c).Reachable s) (hr : s.rpc ≠ .done) :
    Soon c s ∨ RFull c s := by
  rcases read_prog c s h hr with hc | ⟨id, v, k, hrp, hspin⟩
  · exact .inl (.inl hc)
  · obtain ⟨x0, hx0⟩ := spin_max hspin
    have hmax := q_polling_max c.inqC s.inq (Q.reachable_inq c s h) tR x0 hx0
    rcases spin_cases hspin with ⟨x, hx, hl⟩ | ⟨hpol, hfull⟩
    · exact .inl (.inr (.inl ⟨x, hx, hl⟩))
    · refine .inr ⟨id, v, k, hrp, hpol, fun h0 => ?_⟩
      rw [h0] at hfull; simp at hfull; exact hmax hfull

/-- the three genuine wait states of the parser thread -/
def PWait3 (c : Cfg α) (s : State α) : Prop :=
  (s.ppc = .popWait ∧ s.inq.pc tP = .popWaiting) ∨
  (∃ id, s.ppc = .got id ∧ s.fut id = none) ∨
  (s.ppc = .run ∧ c.usePool = true ∧ c.wqMax ≠ 0 ∧ c.wqMax ≤ s.work.length)

theorem pars_side (c : Cfg α) (s : State α) (h : (machine c).Reachable s)
    (hd : RunData c s) (hty : Typed s) (hp : s.ppc ≠ .done) : Soon c s ∨ PWait3 c s ∨ PFull c s := by
  rcases pars_prog c s h hd hty hp with hc | hw | hw | hw | ⟨id, ov, k, hpp, hspin⟩
  · exact .inl (.inl hc)
  · exact .inr (.inl (.inl hw))
  · exact .inr (.inl (.inr (.inl hw)))
  · exact .inr (.inl (.inr (.inr hw)))
  · obtain ⟨x0, hx0⟩ := spin_max hspin
    have hmax := q_polling_max c.outqC s.outq (Q.reachable_outq c s h) tP x0 hx0
    rcases spin_cases hspin with ⟨x, hx, hl⟩ | ⟨hpol, hfull⟩
    · exact .inl (.inr (.inr ⟨x, hx, hl⟩))
    · refine .inr (.inr ⟨id, ov, k, hpp, hpol, fun h0 => ?_⟩)
      rw [h0] at hfull; simp at hfull; exact hmax hfull

/-! ## the theorem -/

/-- `progress_possible`: in every reachable state of a well-formed configuration in which an API call is
    in progress, an internal step that is not a busy-wait iteration is enabled now, or the read thread
    (parser thread) sits in the timed wait of a bounded push() on a queue that is no longer full — then
    one is enabled after one more internal step, the timed wait ending (`Soon.two_steps`). -/
theorem progress_possible (c : Cfg α) (wf : c.WF) (s : State α) (h : (machine c).Reachable s)
    (h1 : s.cpc ≠ .idle) (h2 : s.cpc ≠ .dead) : Soon c s := by
  have hd := run_data c wf s h
  have hty := typed c s h
  have hpcv := pcInv c s h
  -- the pool
  by_cases hwk : s.work ≠ []
  · exact .inl (worker_prog c s hwk (wf.workers_ne (pool_off c s h hwk)))
  have hwk : s.work = [] := by simpa using hwk
  by_cases hrun : ∃ w j, s.wpc w = some j
  · obtain ⟨w, j, hw⟩ := hrun
    exact .inl (running_prog c s w j hw)
  -- the consumer
  rcases cons_prog c s h hty h1 h2 with hc | hcw
  · exact .inl hc
  by_cases hp : s.ppc = .done
  · -- the parser thread has returned
    rcases hcw with ⟨hc, hh⟩ | ⟨hc, hi, hpred⟩ | ⟨id, hc, hf⟩ | ⟨hj, hnd, hr⟩ | ⟨hc, hpn⟩
    · exact absurd hh (hdrSet c s h hp)
    · have := outq_marker c s h hp hc hi
      rw [hpred] at this; cases this
    · rcases out_fut_ready c s h hp id hc hf with ⟨hw, _⟩ | ⟨w, j, hw⟩
      · exact absurd hwk hw
      · exact absurd ⟨w, j, hw⟩ hrun
    · rcases read_side c s h hr with hs | ⟨id, v, k, hrp, hpol, hne⟩
      · exact hs
      · have hji := (Term.joined c s h).ji hp
        have hpi := hpcv.pIn
        rw [hp] at hpi
        simp only [pOkIn] at hpi
        exact absurd (inq_drained c s h hji (by rw [hpi]; simp) hpol) hne
    · exact absurd hp hpn
  · rcases pars_side c s h hd hty hp with hs | hpw | ⟨id, ov, k, hpp, hpol, hne⟩
    · exact hs
    · rcases hpw with ⟨hpp, hpi⟩ | ⟨id, hpp, hf⟩ | ⟨hpp, hup, hq0, hql⟩
      · -- blocked in wait_and_pop(m_input_queue)
        cases hpred : QueueSM.pred s.inq with
        | true =>
          have := q_wake_enabled c.inqC s.inq (Q.reachable_inq c s h) tP hpi hpred (by
            intro u hu
            by_cases hur : u = tR
            · subst hur; exact rOk_not _ _ hpcv.rIn
            · rw [hpcv.othIn u hur hu]; simp)
          exact .inl (en2 c s (.qi (.popWake tP s.inq.items.length s.inq.items.head?)) rfl rfl
            (by simpa [step?, hpp] using this))
        | false =>
          by_cases hr : s.rpc = .done
          · have := inq_marker c s h hr hpp hpi
            rw [hpred] at this; cases this
          · rcases read_side c s h hr with hs | ⟨id, v, k, hrp, hpol, hne⟩
            · exact hs
            · exact absurd (QueueSM.pred_false hpred).2 hne
      · -- holds a future of the input queue that is not ready
        by_cases hr : s.rpc = .done
        · exact absurd hf (inq_fut_ready c s h hr id hpp)
        · rcases read_prog c s h hr with hc | ⟨id', v, k, hrp, hspin⟩
          · exact .inl hc
          · obtain ⟨⟨y, hy, hid⟩, _⟩ := ShapeIn.pget_id s (ShapeIn.invPre c s h) (ShapeIn.invN c s h) id hpp
            have hfr := (ShapeIn.invFR c s h).fr y hy
            by_cases heq : id' = id
            · subst heq
              exact absurd hpp (in_fresh c s h id' (by rw [hrp]; simp)).2
            · have := hfr (by rw [hrp, hid]; simp [ShapeIn.rIn]; exact heq)
              rw [hid] at this
              exact absurd hf this
      · rw [hwk] at hql; simp at hql; exact absurd hql hq0
    · -- blocked by the full osmdata queue
      rcases hcw with ⟨hc, hh⟩ | ⟨hc, hi, hpred⟩ | ⟨id2, hc, hf⟩ | ⟨hj, hnd, hr⟩ | ⟨hc, hpn⟩
      · have := (hdr_none c s h hh).1
        rw [hpp] at this; simp [preHdr] at this
      · exact absurd (QueueSM.pred_false hpred).2 hne
      · have hodd := readGot_odd c s h id2 hc
        rcases pending c s h id2 hodd.1 hodd.2 hf with ⟨v, k', hq | hq⟩ | hq | ⟨w, hq⟩
        · rw [hpp] at hq
          simp only [PPc.pushing.injEq] at hq
          obtain ⟨hq, _, _⟩ := hq
          subst hq
          exact absurd hc (out_fresh c s h id (by rw [hpp]; simp)).2
        · rw [hpp] at hq; cases hq
        · rw [hwk] at hq; cases hq
        · exact absurd ⟨w, id2, hq⟩ hrun
      · obtain ⟨hu, hci⟩ := out_closed c s h hj
        exact absurd (outq_drained c s h hu (by rw [hci]; simp) hpol) hne
      · obtain ⟨hu, hci⟩ := out_closed c s h (by rw [hc]; rfl)
        exact absurd (outq_drained c s h hu (by rw [hci]; simp) hpol) hne

/-- the same as a run: from every such state there is a run of at most two internal steps that lowers
    the rank (its last step is not a busy-wait iteration) -/
theorem progress_run (c : Cfg α) (wf : c.WF) (s : State α) (h : (machine c).Reachable s)
    (h1 : s.cpc ≠ .idle) (h2 : s.cpc ≠ .dead) :
    ∃ tr s', tr.length ≤ 2 ∧ (∀ e ∈ tr, e.isCall = false) ∧ (machine c).run? s tr 0 = .ok s' ∧
      rank c s' < rank c s := by
  rcases (progress_possible c wf s h h1 h2).two_steps with ⟨e, s', hc, hs, hst⟩ | ⟨e1, s1, hc1, hst1, e, s', hc, hs, hst⟩
  · refine ⟨[e], s', by simp, by simpa using hc, ?_, rank_decreases c s s' e h hst hc hs⟩
    have : (machine c).step? s e = some s' := hst
    simp [Machine.run?, this]
  · have hr1 : (machine c).Reachable s1 := .step h hst1
    have hle : rank c s1 ≤ rank c s := by
      cases hs1 : isStutter c s e1 with
      | true => exact Nat.le_of_eq (rank_stutter c s s1 e1 h hst1 hs1)
      | false => exact Nat.le_of_lt (rank_decreases c s s1 e1 h hst1 hc1 hs1)
    have hlt := rank_decreases c s1 s' e hr1 hst hc hs
    refine ⟨[e1, e], s', by simp, ?_, ?_, by omega⟩
    · intro x hx
      simp only [List.mem_cons, List.not_mem_nil, or_false] at hx
      rcases hx with rfl | rfl <;> assumption
    · have a1 : (machine c).step? s e1 = some s1 := hst1
      have a2 : (machine c).step? s1 e = some s' := hst
      simp [Machine.run?, a1, a2]

end Prog

end Osmium.Pipeline
