/-
Run-long invariants of the relation manager model (C11).  Core-only.

Part 1: structural well-formedness `WF` (relation slots of the stash, handle ranges, skeleton of
the member databases) and its preservation by every primitive of the second pass.
-/
import Osmium.Lemmas.RelMgr

namespace Osmium.RelMgr

open Osmium.Order (Kind CheckState checkStep)

/-- what never changes in a members database after `prepare_for_lookup` -/
def skel (es : List Elem) : List (Int × Nat) := es.map (fun e => (e.mid, e.rpos))

/-- Structural invariant of the second pass.  `n` relations are stored, relation `p` at
    handle `p+1` (`Rm p` is its stash copy with the unwanted members marked); a relation slot is
    either untouched or cleared by `rel_handle.remove()`; object handles are invalid or lie
    above the relation handles and inside the stash. -/
structure WF (Rm : Nat → Rel) (n : Nat) (s : State) : Prop where
  rsize : s.rdb.size = n
  ssize : n ≤ s.stash.size
  hbound : ∀ k, ∀ e ∈ s.getDb k, e.h = 0 ∨ (n < e.h ∧ e.h ≤ s.stash.size)
  slot : ∀ p, p < n →
    ((∃ m, s.rdb[p]? = some ⟨p + 1, m⟩) ∧ s.stash[p]? = some (some (.rel (Rm p)))) ∨
    (∃ m, s.rdb[p]? = some ⟨0, m⟩)

theorem getDb_setDb (s : State) (k k' : Kind) (es : List Elem) :
    (s.setDb k es).getDb k' = if k' = k then es else s.getDb k' := by
  cases k <;> cases k' <;> simp [State.setDb, State.getDb]

theorem setDb_fields (s : State) (k : Kind) (es : List Elem) :
    (s.setDb k es).stash = s.stash ∧ (s.setDb k es).rdb = s.rdb ∧ (s.setDb k es).log = s.log ∧
    (s.setDb k es).chk = s.chk ∧ (s.setDb k es).ub = s.ub := by
  cases k <;> simp [State.setDb]

theorem splitRange_append (es : List Elem) (id : Int) :
    (splitRange es id).1 ++ (splitRange es id).2.1 ++ (splitRange es id).2.2 = es := by
  simp [splitRange, List.takeWhile_append_dropWhile]

theorem markFirst_skel (f : Nat → Option Int) (relid : Int) : ∀ l : List Elem, skel (markFirst f relid l) = skel l := by
  intro l
  induction l with
  | nil => rfl
  | cons a l ih =>
    simp only [markFirst]
    split
    · simp [skel]
    · simp only [skel, List.map_cons] at ih ⊢; rw [ih]

theorem stashRemove_size (st : Stash) (h : Nat) : (stashRemove st h).size = st.size := by
  unfold stashRemove; split <;> simp

theorem stashRemove_get (st : Stash) (h i : Nat) :
    (stashRemove st h)[i]? = if h ≠ 0 ∧ h - 1 = i ∧ i < st.size then some none else st[i]? := by
  unfold stashRemove
  split
  · simp [*]
  · rename_i h0
    rw [Array.getElem?_setIfInBounds]
    by_cases hi : h - 1 = i
    · subst hi
      by_cases hlt : h - 1 < st.size
      · simp [h0, hlt]
      · simp [h0, hlt]
    · simp [hi]

/-! #### dbRemove -/

/-- the database `dbRemove` writes back, and the stash it leaves -/
theorem dbRemove_cases (c : Cfg) (s : State) (k : Kind) (id relid : Int) :
    dbRemove c s k id relid = s ∨
    ∃ (pre mid post mid2 : List Elem) (e0 : Elem) (st : Stash) (ub : Bool),
      pre ++ mid ++ post = s.getDb k ∧ e0 ∈ mid ∧ skel mid2 = skel mid ∧
      (∀ e ∈ mid2, ∃ e' ∈ mid, e.mid = e'.mid ∧ (e.h = e'.h ∨ e.h = 0)) ∧
      (st = s.stash ∨ st = stashRemove s.stash e0.h) ∧
      dbRemove c s k id relid = ({ s with stash := st, ub := ub } : State).setDb k (pre ++ mid2 ++ post) := by
  unfold dbRemove
  have happ := splitRange_append (s.getDb k) id
  generalize splitRange (s.getDb k) id = sr at happ
  obtain ⟨pre, mid, post⟩ := sr
  simp only [] at happ ⊢
  cases mid with
  | nil => exact Or.inl rfl
  | cons e0 rest =>
    refine Or.inr ⟨pre, e0 :: rest, post, _, e0, _, _, happ, List.mem_cons_self .., ?_, ?_, ?_, rfl⟩
    · rw [markFirst_skel]
      split
      · simp [skel]
      · rfl
    · intro e he
      have := markFirst_keeps (fun p => (s.relAt p).map (·.id)) relid
        (fun m h => ∃ e' ∈ e0 :: rest, m = e'.mid ∧ (h = e'.h ∨ h = 0)) _ ?_ e he
      · exact this
      · intro e he
        split at he
        · rw [List.mem_map] at he
          obtain ⟨e', he', rfl⟩ := he
          exact ⟨e', he', rfl, Or.inr rfl⟩
        · exact ⟨e, he, rfl, Or.inl rfl⟩
    · split
      · exact Or.inr rfl
      · exact Or.inl rfl

theorem WF.dbRemove {Rm : Nat → Rel} {n : Nat} {s : State} (w : WF Rm n s) (c : Cfg) (k : Kind) (id relid : Int) :
    WF Rm n (dbRemove c s k id relid) ∧ (∀ k', skel ((dbRemove c s k id relid).getDb k') = skel (s.getDb k')) ∧
    (dbRemove c s k id relid).chk = s.chk := by
  rcases dbRemove_cases c s k id relid with h | ⟨pre, mid, post, mid2, e0, st, ub, happ, he0, hsk, hm2, hst, heq⟩
  · rw [h]; exact ⟨w, fun _ => rfl, rfl⟩
  · rw [heq]
    have hf := setDb_fields ({ s with stash := st, ub := ub } : State) k (pre ++ mid2 ++ post)
    have hsize : st.size = s.stash.size := by
      rcases hst with rfl | rfl
      · rfl
      · exact stashRemove_size _ _
    have he0b := w.hbound k e0 (by rw [← happ]; simp [he0])
    refine ⟨⟨?_, ?_, ?_, ?_⟩, ?_, hf.2.2.2.1⟩
    · rw [hf.2.1]; exact w.rsize
    · rw [hf.1]; simpa [hsize] using w.ssize
    · intro k' e he
      rw [hf.1]
      rw [getDb_setDb] at he
      show e.h = 0 ∨ (n < e.h ∧ e.h ≤ st.size)
      rw [hsize]
      split at he
      · rename_i hk; subst hk
        rcases List.mem_append.mp he with he | he
        · rcases List.mem_append.mp he with he | he
          · exact w.hbound k' e (by rw [← happ]; simp [he])
          · obtain ⟨e', he', _, hh⟩ := hm2 e he
            rcases hh with hh | hh
            · rw [hh]; exact w.hbound k' e' (by rw [← happ]; simp [he'])
            · exact Or.inl hh
        · exact w.hbound k' e (by rw [← happ]; simp [he])
      · exact w.hbound k' e he
    · intro p hp
      rw [hf.2.1, hf.1]
      show ((∃ m, s.rdb[p]? = some ⟨p + 1, m⟩) ∧ st[p]? = some (some (.rel (Rm p)))) ∨ (∃ m, s.rdb[p]? = some ⟨0, m⟩)
      rcases w.slot p hp with ⟨h1, h2⟩ | h
      · refine Or.inl ⟨h1, ?_⟩
        rcases hst with rfl | rfl
        · exact h2
        · rw [stashRemove_get]
          rcases he0b with h0 | ⟨hgt, _⟩
          · simp [h0, h2]
          · rw [if_neg (by omega)]; exact h2
      · exact Or.inr h
    · intro k'
      rw [getDb_setDb]
      split
      · rename_i hk; subst hk
        rw [← happ]
        unfold skel at hsk ⊢
        rw [List.map_append, List.map_append, List.map_append, List.map_append, hsk]
      · rfl

theorem WF.removeMembers {Rm : Nat → Rel} {n : Nat} (c : Cfg) (relid : Int) (ms : List Member) :
    ∀ {s : State}, WF Rm n s →
      WF Rm n (removeMembers c relid s ms) ∧ (∀ k', skel ((removeMembers c relid s ms).getDb k') = skel (s.getDb k')) ∧
      (removeMembers c relid s ms).chk = s.chk := by
  induction ms with
  | nil => intro s w; exact ⟨w, fun _ => rfl, rfl⟩
  | cons m ms ih =>
    intro s w
    simp only [Osmium.RelMgr.removeMembers]
    split
    · obtain ⟨w1, h1, c1⟩ := w.dbRemove c m.kind m.ref relid
      obtain ⟨w2, h2, c2⟩ := ih w1
      exact ⟨w2, fun k' => (h2 k').trans (h1 k'), c2.trans c1⟩
    · exact ih w

theorem WF.possiblyFlush {Rm : Nat → Rel} {n : Nat} {s : State} (w : WF Rm n s) (c : Cfg) :
    WF Rm n (s.possiblyFlush c) ∧ (∀ k', (s.possiblyFlush c).getDb k' = s.getDb k') ∧ (s.possiblyFlush c).chk = s.chk ∧
    (s.possiblyFlush c).stash = s.stash := by
  unfold State.possiblyFlush
  split
  · split
    · exact ⟨⟨w.rsize, w.ssize, w.hbound, w.slot⟩, fun k' => by cases k' <;> rfl, rfl, rfl⟩
    · exact ⟨w, fun _ => rfl, rfl, rfl⟩
  · exact ⟨w, fun _ => rfl, rfl, rfl⟩

theorem WF.flushOutput {Rm : Nat → Rel} {n : Nat} {s : State} (w : WF Rm n s) (c : Cfg) :
    WF Rm n (s.flushOutput c) ∧ (∀ k', (s.flushOutput c).getDb k' = s.getDb k') ∧ (s.flushOutput c).chk = s.chk := by
  unfold State.flushOutput
  split
  · exact ⟨⟨w.rsize, w.ssize, w.hbound, w.slot⟩, fun k' => by cases k' <;> rfl, rfl⟩
  · exact ⟨w, fun _ => rfl, rfl⟩

theorem WF.announce {Rm : Nat → Rel} {n : Nat} {s : State} (w : WF Rm n s) (c : Cfg) (pos : Nat) (r : Rel) :
    WF Rm n (announce c s pos r) ∧ (∀ k', (announce c s pos r).getDb k' = s.getDb k') ∧ (announce c s pos r).chk = s.chk :=
  ⟨⟨w.rsize, w.ssize, w.hbound, w.slot⟩, fun k' => by cases k' <;> rfl, rfl⟩

theorem WF.relAt {Rm : Nat → Rel} {n : Nat} {s : State} (w : WF Rm n s) (p m : Nat)
    (h : s.rdb[p]? = some ⟨p + 1, m⟩) : s.relAt p = some (Rm p) := by
  have hp : p < n := by
    rw [← w.rsize]
    rcases Nat.lt_or_ge p s.rdb.size with h' | h'
    · exact h'
    · rw [Array.getElem?_eq_none h'] at h; cases h
  rcases w.slot p hp with ⟨_, h2⟩ | h0
  · simp [State.relAt, h, stashGet, h2]
  · obtain ⟨m0, h0⟩ := h0
    rw [h0] at h; simp at h

theorem WF.relRemove {Rm : Nat → Rel} {n : Nat} {s : State} (w : WF Rm n s) (pos : Nat) (hpos : pos < n)
    (hlive : ∃ m, s.rdb[pos]? = some ⟨pos + 1, m⟩) :
    WF Rm n (relRemove s pos) ∧ (∀ k', (relRemove s pos).getDb k' = s.getDb k') ∧ (relRemove s pos).chk = s.chk ∧
    (relRemove s pos).rdb[pos]? = some ⟨0, 0⟩ := by
  obtain ⟨m, hm⟩ := hlive
  have heq : Osmium.RelMgr.relRemove s pos =
      { s with stash := stashRemove s.stash (pos + 1), rdb := s.rdb.setIfInBounds pos { h := 0, missing := 0 } } := by
    unfold Osmium.RelMgr.relRemove
    rw [hm]
  rw [heq]
  have hsz : pos < s.rdb.size := by rw [w.rsize]; exact hpos
  refine ⟨⟨?_, ?_, ?_, ?_⟩, fun k' => by cases k' <;> rfl, rfl, ?_⟩
  · simp [w.rsize]
  · simp [stashRemove_size]; exact w.ssize
  · intro k e he
    have : e ∈ s.getDb k := by cases k <;> exact he
    simpa [stashRemove_size] using w.hbound k e this
  · intro p hp
    show ((∃ m, (s.rdb.setIfInBounds pos ⟨0, 0⟩)[p]? = some ⟨p + 1, m⟩) ∧
        (stashRemove s.stash (pos + 1))[p]? = some (some (.rel (Rm p)))) ∨
      (∃ m, (s.rdb.setIfInBounds pos ⟨0, 0⟩)[p]? = some ⟨0, m⟩)
    rw [Array.getElem?_setIfInBounds]
    by_cases hpp : pos = p
    · subst hpp; exact Or.inr ⟨0, by simp [hsz]⟩
    · simp only [hpp, if_false]
      rcases w.slot p hp with ⟨h1, h2⟩ | h
      · refine Or.inl ⟨h1, ?_⟩
        rw [stashRemove_get, if_neg (by omega)]; exact h2
      · exact Or.inr h
  · show (s.rdb.setIfInBounds pos ⟨0, 0⟩)[pos]? = some ⟨0, 0⟩
    simp [Array.getElem?_setIfInBounds, hsz]

/-! ### Part 2: the dynamic invariant and the completion loop -/

/-- the relation slot `p` was cleared by `rel_handle.remove()` -/
def deadB (s : State) (p : Nat) : Bool :=
  match s.rdb[p]? with
  | some e => e.h == 0
  | none => false

/-- every logged completion is the completion of the relation stored at that position, and
    `complete_relation` was never called on a dead handle -/
def LogOK (Rm : Nat → Rel) (n : Nat) (l : List Event) : Prop :=
  ∀ e ∈ l, match e with
    | .complete p rid cont _ => p < n ∧ rid = (Rm p).id ∧ cont = (Rm p).content
    | .completeWild _ => False
    | _ => True

structure Inv2 (Rm : Nat → Rel) (n : Nat) (s : State) : Prop where
  wf : WF Rm n s
  logok : LogOK Rm n s.log
  fired : ∀ p, p < n → firedCount p s.log = if deadB s p then 1 else 0
  deadzero : ∀ p, p < n → deadB s p = true → missingAt s p = some 0

/-- events other than completions -/
def otherEvents (l : List Event) : List Event :=
  l.filter (fun e => match e with
    | .complete .. => false
    | .completeWild _ => false
    | _ => true)

theorem relRemove_log (s : State) (pos : Nat) : (relRemove s pos).log = s.log := by
  unfold relRemove; split <;> rfl

theorem live_of_missing {Rm : Nat → Rel} {n : Nat} {s : State} (i : Inv2 Rm n s) (q m : Nat) (hq : q < n)
    (hm : missingAt s q = some (m + 1)) : s.rdb[q]? = some ⟨q + 1, m + 1⟩ := by
  rcases i.wf.slot q hq with ⟨⟨m', h1⟩, _⟩ | ⟨m', h0⟩
  · simp [missingAt, h1] at hm; rw [h1, hm]
  · have : deadB s q = true := by simp [deadB, h0]
    have := i.deadzero q hq this
    rw [hm] at this; simp at this

/-- `handle_complete_relation` on a live relation slot -/
theorem inv2_handleComplete {Rm : Nat → Rel} {n : Nat} {s : State} (i : Inv2 Rm n s) (c : Cfg) (q : Nat) (hq : q < n)
    (hlive : s.rdb[q]? = some ⟨q + 1, 0⟩) :
    Inv2 Rm n (handleComplete c s q) ∧
    (∀ k', skel ((handleComplete c s q).getDb k') = skel (s.getDb k')) ∧
    (handleComplete c s q).chk = s.chk ∧
    (∀ p, p ≠ q → (handleComplete c s q).rdb[p]? = s.rdb[p]?) ∧
    (handleComplete c s q).rdb[q]? = some ⟨0, 0⟩ ∧
    otherEvents (handleComplete c s q).log = otherEvents s.log := by
  have hrel := i.wf.relAt q 0 hlive
  have heq : handleComplete c s q =
      relRemove (removeMembers c (Rm q).id ((announce c s q (Rm q)).possiblyFlush c) (Rm q).members) q := by
    unfold Osmium.RelMgr.handleComplete; rw [hrel]
  obtain ⟨w1, g1, c1⟩ := i.wf.announce c q (Rm q)
  obtain ⟨w2, g2, c2, _⟩ := w1.possiblyFlush c
  obtain ⟨w3, g3, c3⟩ := WF.removeMembers c (Rm q).id (Rm q).members w2
  have fr := removeMembers_frame c (Rm q).id (Rm q).members ((announce c s q (Rm q)).possiblyFlush c)
  have fp := possiblyFlush_frame c (announce c s q (Rm q))
  have hrdb3 : (removeMembers c (Rm q).id ((announce c s q (Rm q)).possiblyFlush c) (Rm q).members).rdb = s.rdb := by
    rw [fr.1, fp.1]; rfl
  have hlog3 : (removeMembers c (Rm q).id ((announce c s q (Rm q)).possiblyFlush c) (Rm q).members).log =
      Event.complete q (Rm q).id (Rm q).content
        (((Rm q).members.filter fun m => m.ref ≠ 0).map fun m => (m, s.lookup m.kind m.ref)) :: s.log := by
    rw [fr.2, fp.2]; rfl
  obtain ⟨w4, g4, c4, hdead⟩ := w3.relRemove q hq ⟨0, by rw [hrdb3]; exact hlive⟩
  have hlog4 : (handleComplete c s q).log = Event.complete q (Rm q).id (Rm q).content
        (((Rm q).members.filter fun m => m.ref ≠ 0).map fun m => (m, s.lookup m.kind m.ref)) :: s.log := by
    rw [heq, relRemove_log, hlog3]
  have hother : ∀ p, p ≠ q → (handleComplete c s q).rdb[p]? = s.rdb[p]? := by
    intro p hp
    rw [heq]
    unfold Osmium.RelMgr.relRemove
    rw [hrdb3, hlive]
    simp only [Array.getElem?_setIfInBounds]
    rw [if_neg (by omega)]
  rw [← heq] at w4 g4 c4 hdead
  refine ⟨⟨w4, ?_, ?_, ?_⟩, ?_, ?_, hother, hdead, ?_⟩
  · intro e he
    rw [hlog4] at he
    rcases List.mem_cons.mp he with rfl | he
    · exact ⟨hq, rfl, rfl⟩
    · exact i.logok e he
  · intro p hp
    rw [(handleComplete_frame c s q).1 p]
    by_cases hpq : p = q
    · subst hpq
      have h0 : deadB s p = false := by simp [deadB, hlive]
      have h1 : deadB (handleComplete c s p) p = true := by simp [deadB, hdead]
      rw [i.fired p hp, h0, h1]; simp
    · have : deadB (handleComplete c s q) p = deadB s p := by simp [deadB, hother p hpq]
      rw [this, i.fired p hp]; simp [hpq]
  · intro p hp hd
    by_cases hpq : p = q
    · subst hpq; simp [missingAt, hdead]
    · have : deadB (handleComplete c s q) p = deadB s p := by simp [deadB, hother p hpq]
      rw [this] at hd
      have := i.deadzero p hp hd
      simpa [missingAt, hother p hpq] using this
  · intro k'
    rw [g4 k', g3 k', g2 k', g1 k']
  · rw [c4, c3, c2, c1]
  · rw [hlog4]; simp [otherEvents]

/-- changing the counter of a live slot keeps the invariant -/
theorem inv2_setMissing {Rm : Nat → Rel} {n : Nat} {s : State} (i : Inv2 Rm n s) (q m m' : Nat) (hq : q < n)
    (hlive : s.rdb[q]? = some ⟨q + 1, m⟩) :
    Inv2 Rm n { s with rdb := s.rdb.setIfInBounds q ⟨q + 1, m'⟩ } := by
  have hsz : q < s.rdb.size := by rw [i.wf.rsize]; exact hq
  have hget : ∀ p, (s.rdb.setIfInBounds q ⟨q + 1, m'⟩)[p]? = if p = q then some ⟨q + 1, m'⟩ else s.rdb[p]? := by
    intro p
    rw [Array.getElem?_setIfInBounds]
    by_cases hp : q = p
    · subst hp; simp [hsz]
    · have : ¬ p = q := fun h => hp h.symm
      simp [hp, this]
  have hdead : ∀ p, deadB { s with rdb := s.rdb.setIfInBounds q ⟨q + 1, m'⟩ } p = deadB s p := by
    intro p
    simp only [deadB, hget]
    by_cases hp : p = q
    · subst hp; simp [hlive]
    · simp [hp]
  refine ⟨⟨?_, i.wf.ssize, ?_, ?_⟩, i.logok, ?_, ?_⟩
  · simp [i.wf.rsize]
  · intro k e he
    have : e ∈ s.getDb k := by cases k <;> exact he
    exact i.wf.hbound k e this
  · intro p hp
    show ((∃ m, (s.rdb.setIfInBounds q ⟨q + 1, m'⟩)[p]? = some ⟨p + 1, m⟩) ∧ s.stash[p]? = some (some (.rel (Rm p)))) ∨
      (∃ m, (s.rdb.setIfInBounds q ⟨q + 1, m'⟩)[p]? = some ⟨0, m⟩)
    rw [hget]
    by_cases hpq : p = q
    · subst hpq
      rcases i.wf.slot p hp with ⟨_, h2⟩ | ⟨m0, h0⟩
      · exact Or.inl ⟨⟨m', by simp⟩, h2⟩
      · rw [h0] at hlive; simp at hlive
    · simp only [hpq, if_false]; exact i.wf.slot p hp
  · intro p hp
    rw [hdead]; exact i.fired p hp
  · intro p hp hd
    rw [hdead] at hd
    have := i.deadzero p hp hd
    have hpq : p ≠ q := by
      intro h; subst h
      simp [deadB, hlive] at hd
    simpa [missingAt, hget, hpq] using this

/-- one iteration of the loop in `MembersDatabase::add`, for a relation with outstanding members -/
theorem inv2_completeStep {Rm : Nat → Rel} {n : Nat} {s : State} (i : Inv2 Rm n s) (c : Cfg) (q m : Nat) (hq : q < n)
    (hm : missingAt s q = some (m + 1)) :
    Inv2 Rm n (completeStep c s q) ∧
    (∀ k', skel ((completeStep c s q).getDb k') = skel (s.getDb k')) ∧
    (completeStep c s q).chk = s.chk ∧
    otherEvents (completeStep c s q).log = otherEvents s.log := by
  have hlive := live_of_missing i q m hq hm
  unfold Osmium.RelMgr.completeStep
  rw [hlive]
  simp only [Nat.add_one_ne_zero, if_false, Nat.add_sub_cancel]
  have i1 := inv2_setMissing i q (m + 1) m hq hlive
  split
  · rename_i hm0
    subst hm0
    have hsz : q < s.rdb.size := by rw [i.wf.rsize]; exact hq
    have hl1 : ({ s with rdb := s.rdb.setIfInBounds q ⟨q + 1, 0⟩ } : State).rdb[q]? = some ⟨q + 1, 0⟩ := by
      simp [Array.getElem?_setIfInBounds, hsz]
    obtain ⟨i2, g, cc, _, _, ho⟩ := inv2_handleComplete i1 c q hq hl1
    exact ⟨i2, fun k' => (g k').trans (by cases k' <;> rfl), cc, ho⟩
  · exact ⟨i1, fun k' => by cases k' <;> rfl, rfl, rfl⟩

/-- the whole loop over the range of an arriving object -/
theorem inv2_completeLoop {Rm : Nat → Rel} {n : Nat} (c : Cfg) (ps : List Nat) :
    ∀ {s : State}, Inv2 Rm n s → (∀ q ∈ ps, q < n) →
      (∀ p, p < n → ∃ m, missingAt s p = some m ∧ ps.count p ≤ m) →
      Inv2 Rm n (completeLoop c s ps) ∧
      (∀ k', skel ((completeLoop c s ps).getDb k') = skel (s.getDb k')) ∧
      (completeLoop c s ps).chk = s.chk ∧
      otherEvents (completeLoop c s ps).log = otherEvents s.log := by
  induction ps with
  | nil => intro s i _ _; exact ⟨i, fun _ => rfl, rfl, rfl⟩
  | cons q ps ih =>
    intro s i hlt hcnt
    simp only [Osmium.RelMgr.completeLoop]
    have hq : q < n := hlt q (List.mem_cons_self ..)
    obtain ⟨m, hm, hc⟩ := hcnt q hq
    have hc' : ps.count q + 1 ≤ m := by simpa using hc
    obtain ⟨m', rfl⟩ : ∃ m', m = m' + 1 := ⟨m - 1, by omega⟩
    obtain ⟨i1, g1, c1, o1⟩ := inv2_completeStep i c q m' hq hm
    have hf := completeStep_frame c s q
    have hcnt1 : ∀ p, p < n → ∃ m, missingAt (completeStep c s q) p = some m ∧ ps.count p ≤ m := by
      intro p hp
      by_cases hpq : p = q
      · subst hpq
        rcases Nat.eq_zero_or_pos m' with h0 | hpos
        · subst h0
          exact ⟨0, (hf.2.2 hm).1, by omega⟩
        · obtain ⟨m'', rfl⟩ : ∃ m'', m' = m'' + 1 := ⟨m' - 1, by omega⟩
          exact ⟨m'' + 1, (hf.2.1 m'' hm).1, by omega⟩
      · obtain ⟨mp, hmp, hcp⟩ := hcnt p hp
        refine ⟨mp, ((hf.1 p hpq).1).trans hmp, ?_⟩
        have : (q :: ps).count p = ps.count p := by
          simp [List.count_cons]; omega
        omega
    obtain ⟨i2, g2, c2, o2⟩ := ih i1 (fun q' hq' => hlt q' (List.mem_cons_of_mem _ hq')) hcnt1
    exact ⟨i2, fun k' => (g2 k').trans (g1 k'), c2.trans c1, o2.trans o1⟩

/-! ### Part 3: counting outstanding references; `memberAdd` and the whole second pass -/

abbrev Base := Kind → List (Int × Nat)

/-- tracked references (member_id, relation_pos) of kind `k` to relation `p` whose object is
    not in `S` -/
def pendK (base : Base) (S : List (Kind × Int)) (p : Nat) (k : Kind) : Nat :=
  (base k).countP (fun x => x.2 == p && decide ((k, x.1) ∉ S))

/-- outstanding wanted references of relation `p` -/
def pending (base : Base) (S : List (Kind × Int)) (p : Nat) : Nat :=
  pendK base S p .node + pendK base S p .way + pendK base S p .relation

/-- references to object (k, id) from relation `p` -/
def refCount (base : Base) (k : Kind) (id : Int) (p : Nat) : Nat :=
  (base k).countP (fun x => x.1 == id && x.2 == p)

theorem pendK_cons_same (base : Base) (S : List (Kind × Int)) (p : Nat) (k : Kind) (id : Int)
    (hnew : (k, id) ∉ S) :
    pendK base S p k = pendK base ((k, id) :: S) p k + refCount base k id p := by
  unfold pendK refCount
  have hpt : ∀ x : Int × Nat,
      (if (x.2 == p && decide ((k, x.1) ∉ S)) = true then 1 else 0) =
      (if (x.2 == p && decide ((k, x.1) ∉ (k, id) :: S)) = true then 1 else 0) +
      (if (x.1 == id && x.2 == p) = true then 1 else 0) := by
    intro x
    by_cases h1 : x.1 = id
    · have hx : (k, x.1) ∉ S := by rw [h1]; exact hnew
      by_cases h2 : x.2 = p <;> simp [h1, h2, hx, hnew]
    · by_cases h2 : x.2 = p <;> by_cases h3 : (k, x.1) ∈ S <;> simp [h1, h2, h3]
  generalize base k = l
  induction l with
  | nil => simp
  | cons x l ih =>
    simp only [List.countP_cons]
    rw [ih]
    have := hpt x
    omega

theorem pendK_cons_other (base : Base) (S : List (Kind × Int)) (p : Nat) (k k' : Kind) (id : Int) (hk : k' ≠ k) :
    pendK base ((k, id) :: S) p k' = pendK base S p k' := by
  unfold pendK
  apply List.countP_congr
  intro x _
  simp [List.mem_cons, hk]

theorem pending_cons (base : Base) (S : List (Kind × Int)) (p : Nat) (k : Kind) (id : Int) (hnew : (k, id) ∉ S) :
    pending base S p = pending base ((k, id) :: S) p + refCount base k id p := by
  unfold pending
  cases k
  · rw [pendK_cons_same base S p .node id hnew, pendK_cons_other base S p .node .way id (by decide),
      pendK_cons_other base S p .node .relation id (by decide)]; omega
  · rw [pendK_cons_same base S p .way id hnew, pendK_cons_other base S p .way .node id (by decide),
      pendK_cons_other base S p .way .relation id (by decide)]; omega
  · rw [pendK_cons_same base S p .relation id hnew, pendK_cons_other base S p .relation .node id (by decide),
      pendK_cons_other base S p .relation .way id (by decide)]; omega

theorem count_map_filter (es : List Elem) (id : Int) (p : Nat) :
    (((es.filter (fun e => e.mid == id)).map (·.rpos)).count p) =
      (skel es).countP (fun x => x.1 == id && x.2 == p) := by
  unfold skel
  induction es with
  | nil => simp
  | cons e es ih =>
    by_cases h1 : e.mid = id
    · have hf : (e.mid == id) = true := by simp [h1]
      rw [List.filter_cons_of_pos (p := fun e : Elem => e.mid == id) (by simpa using h1)]
      simp only [List.map_cons, List.count_cons, List.countP_cons]
      rw [ih]
      simp [h1]
    · have hf : ¬ (e.mid == id) = true := by simp [h1]
      rw [List.filter_cons_of_neg (p := fun e : Elem => e.mid == id) (by simpa using h1)]
      simp only [List.map_cons, List.countP_cons]
      rw [ih]
      simp [h1]

theorem pending_le_total (base : Base) (S : List (Kind × Int)) (p : Nat) : pending base S p ≤ pending base [] p := by
  have h : ∀ k, pendK base S p k ≤ pendK base [] p k := by
    intro k
    unfold pendK
    apply List.countP_mono_left
    intro x _ hx
    simp only [Bool.and_eq_true, beq_iff_eq] at hx
    simp [hx.1]
  unfold pending
  have := h .node; have := h .way; have := h .relation
  omega

/-- the run-long invariant of the second pass.  `S` = (type, id) of the objects of enabled types
    handled so far (newest first), `base k` = the (member_id, relation_pos) skeleton of the
    members database `k` as `prepare_for_lookup` left it. -/
structure Inv3 (Rm : Nat → Rel) (n : Nat) (base : Base) (S : List (Kind × Int)) (s : State) : Prop where
  inv2 : Inv2 Rm n s
  skelEq : ∀ k, skel (s.getDb k) = base k
  sorted0 : ∀ k, (base k).Pairwise (fun a b => a.1 ≤ b.1)
  rposlt : ∀ k, ∀ x ∈ base k, x.2 < n
  cnt : ∀ p, p < n → missingAt s p = some (pending base S p)
  firedJ : ∀ p, p < n → firedCount p s.log = if pending base S p = 0 ∧ 1 ≤ pending base [] p then 1 else 0
  notin : ∀ k id, Event.notIn k id ∈ otherEvents s.log ↔ ((k, id) ∈ S ∧ (base k).countP (fun x => x.1 == id) = 0)

theorem Inv3.sorted {Rm : Nat → Rel} {n : Nat} {base : Base} {S : List (Kind × Int)} {s : State}
    (i : Inv3 Rm n base S s) (k : Kind) : SortedById (s.getDb k) := by
  have h := i.sorted0 k
  rw [← i.skelEq k] at h
  unfold SortedById
  have : ((s.getDb k).map (fun e => (e.mid, e.rpos))).Pairwise (fun a b => a.1 ≤ b.1) := h
  exact (List.pairwise_map (f := fun e : Elem => (e.mid, e.rpos)) (R := fun a b => a.1 ≤ b.1)).mp this

theorem refCount_le_pending (base : Base) (S : List (Kind × Int)) (p : Nat) (k : Kind) (id : Int) (hnew : (k, id) ∉ S) :
    refCount base k id p ≤ pending base S p := by
  have := pending_cons base S p k id hnew
  omega

/-- `MembersDatabase::add` + callbacks for an object of an enabled type that was not seen before -/
theorem inv3_memberAdd {Rm : Nat → Rel} {n : Nat} {base : Base} {S : List (Kind × Int)} {s : State}
    (i : Inv3 Rm n base S s) (c : Cfg) (o : Obj) (hnew : (o.kind, o.id) ∉ S) :
    Inv3 Rm n base ((o.kind, o.id) :: S) (memberAdd c s o) ∧ (memberAdd c s o).chk = s.chk := by
  have hsplit := splitRange_sorted (s.getDb o.kind) o.id (i.sorted o.kind)
  unfold Osmium.RelMgr.memberAdd
  rw [hsplit]
  simp only []
  -- references in the range
  have hcount : ∀ p, (((s.getDb o.kind).filter (fun e => e.mid == o.id)).map (·.rpos)).count p = refCount base o.kind o.id p := by
    intro p; rw [count_map_filter, i.skelEq]; rfl
  have hpend := fun p => pending_cons base S p o.kind o.id hnew
  split
  · -- no relation needs this object
    rename_i hempty
    have hnil : (s.getDb o.kind).filter (fun e => e.mid == o.id) = [] := by simpa using hempty
    have hzero : ∀ p, refCount base o.kind o.id p = 0 := by
      intro p; rw [← hcount p, hnil]; rfl
    have hzero' : (base o.kind).countP (fun x => x.1 == o.id) = 0 := by
      rw [← i.skelEq o.kind]
      simp only [skel, List.countP_map]
      rw [List.countP_eq_zero]
      intro e he
      have : e ∉ (s.getDb o.kind).filter (fun e => e.mid == o.id) := by rw [hnil]; simp
      simpa [List.mem_filter, he] using this
    have i2 : Inv2 Rm n ({ s with log := Event.notIn o.kind o.id :: s.log } : State) := by
      refine ⟨⟨i.inv2.wf.rsize, i.inv2.wf.ssize, ?_, i.inv2.wf.slot⟩, ?_, ?_, i.inv2.deadzero⟩
      · intro k e he
        have : e ∈ s.getDb k := by cases k <;> exact he
        exact i.inv2.wf.hbound k e this
      · intro e he
        rcases List.mem_cons.mp he with rfl | he
        · trivial
        · exact i.inv2.logok e he
      · intro p hp
        have : firedCount p (Event.notIn o.kind o.id :: s.log) = firedCount p s.log := by simp [firedCount]
        rw [this]; exact i.inv2.fired p hp
    obtain ⟨w, g, cc, _⟩ := i2.wf.possiblyFlush c
    have fp := possiblyFlush_frame c ({ s with log := Event.notIn o.kind o.id :: s.log } : State)
    refine ⟨⟨⟨w, ?_, ?_, ?_⟩, ?_, i.sorted0, i.rposlt, ?_, ?_, ?_⟩, cc⟩
    · rw [fp.2]; exact i2.logok
    · intro p hp
      have hd : deadB (State.possiblyFlush c ({ s with log := Event.notIn o.kind o.id :: s.log } : State)) p = deadB s p := by
        simp [deadB, fp.1]
      rw [fp.2, hd]; exact i2.fired p hp
    · intro p hp hd
      have hd' : deadB s p = true := by simpa [deadB, fp.1] using hd
      have := i.inv2.deadzero p hp hd'
      simpa [missingAt, fp.1] using this
    · intro k
      rw [g k]
      have : ({ s with log := Event.notIn o.kind o.id :: s.log } : State).getDb k = s.getDb k := by cases k <;> rfl
      rw [this]; exact i.skelEq k
    · intro p hp
      have := i.cnt p hp
      have h1 := hpend p
      rw [hzero p] at h1
      simp only [missingAt, fp.1] at this ⊢
      rw [this, h1]; rfl
    · intro p hp
      have h1 := hpend p
      rw [hzero p] at h1
      have : firedCount p (Event.notIn o.kind o.id :: s.log) = firedCount p s.log := by simp [firedCount]
      rw [fp.2]
      show firedCount p (Event.notIn o.kind o.id :: s.log) = _
      rw [this, i.firedJ p hp, h1]; rfl
    · intro k id
      rw [fp.2]
      simp only [otherEvents, List.filter_cons, List.mem_cons, ite_true]
      have hn := i.notin k id
      simp only [otherEvents] at hn
      constructor
      · rintro (h | h)
        · cases h
          exact ⟨Or.inl rfl, hzero'⟩
        · have := hn.mp h
          exact ⟨Or.inr this.1, this.2⟩
      · rintro ⟨h1, h2⟩
        rcases h1 with h1 | h1
        · cases h1; exact Or.inl rfl
        · exact Or.inr (hn.mpr ⟨h1, h2⟩)
  · -- at least one relation needs it: store it, hand the handle out, run the loop
    rename_i hne
    have hmid_ne : (s.getDb o.kind).filter (fun e => e.mid == o.id) ≠ [] := by simpa using hne
    -- state before the loop
    have happ := splitRange_append (s.getDb o.kind) o.id
    rw [hsplit] at happ
    simp only [] at happ
    generalize hs1 : (({ s with stash := (stashAdd s.stash (Item.obj o)).1 } : State).setDb o.kind
      ((s.getDb o.kind).filter (fun e => decide (e.mid < o.id)) ++
        ((s.getDb o.kind).filter (fun e => e.mid == o.id)).map (fun e : Elem => { e with h := (stashAdd s.stash (Item.obj o)).2 }) ++
        (s.getDb o.kind).filter (fun e => decide (o.id < e.mid)))) = s1
    have hf := setDb_fields ({ s with stash := (stashAdd s.stash (Item.obj o)).1 } : State) o.kind
      ((s.getDb o.kind).filter (fun e => decide (e.mid < o.id)) ++
        ((s.getDb o.kind).filter (fun e => e.mid == o.id)).map (fun e : Elem => { e with h := (stashAdd s.stash (Item.obj o)).2 }) ++
        (s.getDb o.kind).filter (fun e => decide (o.id < e.mid)))
    rw [hs1] at hf
    have hstash : s1.stash = s.stash.push (some (Item.obj o)) := hf.1
    have hrdb : s1.rdb = s.rdb := hf.2.1
    have hlog : s1.log = s.log := hf.2.2.1
    have hchk : s1.chk = s.chk := hf.2.2.2.1
    have hdb : ∀ k', s1.getDb k' = if k' = o.kind then
        ((s.getDb o.kind).filter (fun e => decide (e.mid < o.id)) ++
        ((s.getDb o.kind).filter (fun e => e.mid == o.id)).map (fun e : Elem => { e with h := s.stash.size + 1 }) ++
        (s.getDb o.kind).filter (fun e => decide (o.id < e.mid))) else s.getDb k' := by
      intro k'
      rw [← hs1, getDb_setDb]
      split
      · rfl
      · cases k' <;> rfl
    have hskel1 : ∀ k', skel (s1.getDb k') = skel (s.getDb k') := by
      intro k'
      rw [hdb]
      split
      · rename_i hk; subst hk
        conv => rhs; rw [← happ]
        simp [skel, List.map_append, List.map_map, Function.comp_def]
      · rfl
    have i2 : Inv2 Rm n s1 := by
      refine ⟨⟨?_, ?_, ?_, ?_⟩, ?_, ?_, ?_⟩
      · rw [hrdb]; exact i.inv2.wf.rsize
      · rw [hstash]; simp; have := i.inv2.wf.ssize; omega
      · intro k e he
        rw [hstash]
        simp only [Array.size_push]
        rw [hdb] at he
        have old : ∀ e ∈ s.getDb k, e.h = 0 ∨ (n < e.h ∧ e.h ≤ s.stash.size + 1) := by
          intro e he
          rcases i.inv2.wf.hbound k e he with h | ⟨h1, h2⟩
          · exact Or.inl h
          · exact Or.inr ⟨h1, by omega⟩
        split at he
        · rename_i hk; subst hk
          rcases List.mem_append.mp he with he | he
          · rcases List.mem_append.mp he with he | he
            · exact old e (List.mem_filter.mp he).1
            · rw [List.mem_map] at he
              obtain ⟨e', _, rfl⟩ := he
              have := i.inv2.wf.ssize
              exact Or.inr ⟨by simp; omega, by simp⟩
          · exact old e (List.mem_filter.mp he).1
        · exact old e he
      · intro p hp
        rw [hrdb, hstash]
        rcases i.inv2.wf.slot p hp with ⟨h1, h2⟩ | h
        · refine Or.inl ⟨h1, ?_⟩
          rw [Array.getElem?_push]
          have := i.inv2.wf.ssize
          rw [if_neg (by omega)]; exact h2
        · exact Or.inr h
      · rw [hlog]; exact i.inv2.logok
      · intro p hp
        have : deadB s1 p = deadB s p := by simp [deadB, hrdb]
        rw [hlog, this]; exact i.inv2.fired p hp
      · intro p hp hd
        have hd' : deadB s p = true := by simpa [deadB, hrdb] using hd
        have := i.inv2.deadzero p hp hd'
        simpa [missingAt, hrdb] using this
    have hps_lt : ∀ q ∈ ((s.getDb o.kind).filter (fun e => e.mid == o.id)).map (·.rpos), q < n := by
      intro q hq
      rw [List.mem_map] at hq
      obtain ⟨e, he, rfl⟩ := hq
      have he' : e ∈ s.getDb o.kind := (List.mem_filter.mp he).1
      have : (e.mid, e.rpos) ∈ base o.kind := by
        rw [← i.skelEq o.kind]; exact List.mem_map.mpr ⟨e, he', rfl⟩
      exact i.rposlt o.kind _ this
    have hcnt1 : ∀ p, p < n → ∃ m, missingAt s1 p = some m ∧
        (((s.getDb o.kind).filter (fun e => e.mid == o.id)).map (·.rpos)).count p ≤ m := by
      intro p hp
      refine ⟨pending base S p, ?_, ?_⟩
      · have := i.cnt p hp
        simpa [missingAt, hrdb] using this
      · rw [hcount p]; exact refCount_le_pending base S p o.kind o.id hnew
    obtain ⟨i3, g3, c3, o3⟩ := inv2_completeLoop c _ i2 hps_lt hcnt1
    have hfire := fun p (hp : p < n) => completeLoop_fires c p
      (((s.getDb o.kind).filter (fun e => e.mid == o.id)).map (·.rpos)) s1 (pending base S p)
      (by have := i.cnt p hp; simpa [missingAt, hrdb] using this)
      (by rw [hcount p]; exact refCount_le_pending base S p o.kind o.id hnew)
    obtain ⟨w, g, cc, _⟩ := i3.wf.possiblyFlush c
    have fp := possiblyFlush_frame c (completeLoop c s1 (((s.getDb o.kind).filter (fun e => e.mid == o.id)).map (·.rpos)))
    refine ⟨⟨⟨w, ?_, ?_, ?_⟩, ?_, i.sorted0, i.rposlt, ?_, ?_, ?_⟩, ?_⟩
    · rw [fp.2]; exact i3.logok
    · intro p hp
      have hd : deadB (State.possiblyFlush c (completeLoop c s1 (((s.getDb o.kind).filter (fun e => e.mid == o.id)).map (·.rpos)))) p =
          deadB (completeLoop c s1 (((s.getDb o.kind).filter (fun e => e.mid == o.id)).map (·.rpos))) p := by
        simp [deadB, fp.1]
      rw [fp.2, hd]; exact i3.fired p hp
    · intro p hp hd
      have hd' : deadB (completeLoop c s1 (((s.getDb o.kind).filter (fun e => e.mid == o.id)).map (·.rpos))) p = true := by
        simpa [deadB, fp.1] using hd
      have := i3.deadzero p hp hd'
      simpa [missingAt, fp.1] using this
    · intro k
      rw [g k, g3 k, hskel1 k]; exact i.skelEq k
    · intro p hp
      have h1 := (hfire p hp).1
      have h2 := hpend p
      rw [hcount p] at h1
      simp only [missingAt, fp.1] at h1 ⊢
      rw [h1]; congr 1; omega
    · intro p hp
      have h1 := (hfire p hp).2
      have h2 := hpend p
      have h3 := pending_le_total base S p
      rw [hcount p, hlog, i.firedJ p hp] at h1
      rw [fp.2, h1]
      by_cases ha : pending base S p = 0
      · have hb : refCount base o.kind o.id p = 0 := by omega
        have hc : pending base ((o.kind, o.id) :: S) p = 0 := by omega
        simp [ha, hb, hc]
      · have hb : 1 ≤ pending base [] p := by omega
        by_cases hc : refCount base o.kind o.id p = pending base S p
        · have hd : pending base ((o.kind, o.id) :: S) p = 0 := by omega
          have he : 1 ≤ pending base S p := by omega
          simp [ha, hb, hc, hd, he]
        · have hd : pending base ((o.kind, o.id) :: S) p ≠ 0 := by omega
          simp [ha, hc, hd]
    · intro k id
      rw [fp.2, o3, hlog]
      have hn := i.notin k id
      have hpos : 0 < (base o.kind).countP (fun x => x.1 == o.id) := by
        rw [← i.skelEq o.kind]
        simp only [skel, List.countP_map]
        rw [List.countP_pos_iff]
        obtain ⟨e, he⟩ := List.exists_mem_of_ne_nil _ hmid_ne
        exact ⟨e, (List.mem_filter.mp he).1, by simpa using (List.mem_filter.mp he).2⟩
      constructor
      · intro h
        have := hn.mp h
        exact ⟨List.mem_cons_of_mem _ this.1, this.2⟩
      · rintro ⟨h1, h2⟩
        rcases List.mem_cons.mp h1 with h1 | h1
        · cases h1; omega
        · exact hn.mpr ⟨h1, h2⟩
    · rw [cc, c3, hchk]

/-! ### Part 4a: the whole second pass -/

/-- objects of enabled types among the ops (what the member handlers look at) -/
def seenObjs (c : Cfg) (ops : List Op) : List Obj :=
  ops.filterMap (fun op => match op with
    | .obj o => if c.enabled o.kind then some o else none
    | _ => none)

def seenIds (c : Cfg) (ops : List Op) : List (Kind × Int) := (seenObjs c ops).map (fun o => (o.kind, o.id))

theorem inv3_congr {Rm : Nat → Rel} {n : Nat} {base : Base} {S : List (Kind × Int)} {s t : State}
    (i : Inv3 Rm n base S s) (h1 : t.stash = s.stash) (h2 : t.rdb = s.rdb) (h3 : ∀ k, t.getDb k = s.getDb k)
    (h4 : otherEvents t.log = otherEvents s.log ∨ ∃ k id r, t.log = Event.query k id r :: s.log)
    (h5 : ∀ p, firedCount p t.log = firedCount p s.log) (h6 : LogOK Rm n s.log → LogOK Rm n t.log) :
    Inv3 Rm n base S t := by
  have hd : ∀ p, deadB t p = deadB s p := by intro p; simp [deadB, h2]
  have hm : ∀ p, missingAt t p = missingAt s p := by intro p; simp [missingAt, h2]
  refine ⟨⟨⟨?_, ?_, ?_, ?_⟩, h6 i.inv2.logok, ?_, ?_⟩, ?_, i.sorted0, i.rposlt, ?_, ?_, ?_⟩
  · rw [h2]; exact i.inv2.wf.rsize
  · rw [h1]; exact i.inv2.wf.ssize
  · intro k e he; rw [h3] at he; rw [h1]; exact i.inv2.wf.hbound k e he
  · intro p hp; rw [h1, h2]; exact i.inv2.wf.slot p hp
  · intro p hp; rw [h5, hd]; exact i.inv2.fired p hp
  · intro p hp hdp; rw [hd] at hdp; rw [hm]; exact i.inv2.deadzero p hp hdp
  · intro k; rw [h3]; exact i.skelEq k
  · intro p hp; rw [hm]; exact i.cnt p hp
  · intro p hp; rw [h5]; exact i.firedJ p hp
  · intro k id
    rcases h4 with h4 | ⟨k', id', r, h4⟩
    · rw [h4]; exact i.notin k id
    · rw [h4]
      have : otherEvents (Event.query k' id' r :: s.log) = Event.query k' id' r :: otherEvents s.log := by
        simp [otherEvents]
      rw [this]
      simp only [List.mem_cons, reduceCtorEq, false_or]
      exact i.notin k id

theorem checkRun_cons_some {s : CheckState} {k : Kind} {id : Int} {rest : List (Kind × Int)}
    (h : Osmium.Order.checkRun s ((k, id) :: rest) ≠ none) :
    ∃ s', checkStep s k id = some s' ∧ Osmium.Order.checkRun s' rest ≠ none := by
  simp only [Osmium.Order.checkRun] at h
  cases hs : checkStep s k id with
  | none => rw [hs] at h; exact absurd rfl h
  | some s' => rw [hs] at h; exact ⟨s', rfl, h⟩

theorem inv3_runOps {Rm : Nat → Rel} {n : Nat} {base : Base} (c : Cfg) (ops : List Op) :
    ∀ {S : List (Kind × Int)} {s : State}, Inv3 Rm n base S s →
      Osmium.Order.checkRun s.chk (seenIds c ops) ≠ none →
      (seenIds c ops).Nodup → (∀ x ∈ seenIds c ops, x ∉ S) →
      Inv3 Rm n base ((seenIds c ops).reverse ++ S) (runOps c s ops) := by
  induction ops with
  | nil => intro S s i _ _ _; simpa [runOps, seenIds, seenObjs] using i
  | cons op ops ih =>
    intro S s i hchk hnd hdisj
    cases op with
    | query k id =>
      have hs : seenIds c (Op.query k id :: ops) = seenIds c ops := by simp [seenIds, seenObjs]
      rw [hs] at hchk hnd hdisj ⊢
      simp only [runOps]
      have i' : Inv3 Rm n base S ({ s with log := Event.query k id (s.lookup k id) :: s.log } : State) := by
        refine inv3_congr i rfl rfl (fun k' => by cases k' <;> rfl) (Or.inr ⟨k, id, _, rfl⟩) (fun p => by simp [firedCount]) ?_
        intro hl e he
        rcases List.mem_cons.mp he with rfl | he
        · trivial
        · exact hl e he
      exact ih i' hchk hnd hdisj
    | flush =>
      have hs : seenIds c (Op.flush :: ops) = seenIds c ops := by simp [seenIds, seenObjs]
      rw [hs] at hchk hnd hdisj ⊢
      simp only [runOps]
      have hfl : (s.flushOutput c).stash = s.stash ∧ (s.flushOutput c).rdb = s.rdb ∧
          (∀ k, (s.flushOutput c).getDb k = s.getDb k) ∧ (s.flushOutput c).log = s.log ∧ (s.flushOutput c).chk = s.chk := by
        unfold State.flushOutput
        split
        · exact ⟨rfl, rfl, fun k => by cases k <;> rfl, rfl, rfl⟩
        · exact ⟨rfl, rfl, fun _ => rfl, rfl, rfl⟩
      have i' : Inv3 Rm n base S (s.flushOutput c) :=
        inv3_congr i hfl.1 hfl.2.1 hfl.2.2.1 (Or.inl (by rw [hfl.2.2.2.1])) (fun p => by rw [hfl.2.2.2.1])
          (fun h => by rw [hfl.2.2.2.1]; exact h)
      exact ih i' (by rw [hfl.2.2.2.2]; exact hchk) hnd hdisj
    | obj o =>
      simp only [runOps]
      by_cases hen : c.enabled o.kind = true
      · have hs : seenIds c (Op.obj o :: ops) = (o.kind, o.id) :: seenIds c ops := by
          simp [seenIds, seenObjs, hen]
        rw [hs] at hchk hnd hdisj ⊢
        obtain ⟨chk', hstep, hrest⟩ := checkRun_cons_some hchk
        have hobj : handleObj c s o = some (memberAdd c { s with chk := chk' } o) := by
          simp [handleObj, hen, hstep]
        rw [hobj]
        have i0 : Inv3 Rm n base S ({ s with chk := chk' } : State) :=
          inv3_congr i rfl rfl (fun k' => by cases k' <;> rfl) (Or.inl rfl) (fun _ => rfl) (fun h => h)
        have hnew : (o.kind, o.id) ∉ S := hdisj _ (List.mem_cons_self ..)
        obtain ⟨i1, c1⟩ := inv3_memberAdd i0 c o hnew
        rw [List.nodup_cons] at hnd
        have := ih i1 (by rw [c1]; exact hrest) hnd.2 (by
          intro x hx hmem
          rcases List.mem_cons.mp hmem with rfl | hmem
          · exact hnd.1 hx
          · exact hdisj x (List.mem_cons_of_mem _ hx) hmem)
        simpa [List.reverse_cons, List.append_assoc] using this
      · have hs : seenIds c (Op.obj o :: ops) = seenIds c ops := by
          simp [seenIds, seenObjs, hen]
        rw [hs] at hchk hnd hdisj ⊢
        have hobj : handleObj c s o = some s := by simp [handleObj, hen]
        rw [hobj]
        exact ih i hchk hnd hdisj

/-! ### Part 4b: the first pass establishes the invariant -/

/-- the stash copy of a relation: unwanted members marked with ref 0 -/
def markRel (c : Cfg) (r : Rel) : Rel := { r with members := markMembers c r }

/-- wanted members of `r` (type, ref), with multiplicity, in member order -/
def wantedRefs (c : Cfg) (r : Rel) : List (Kind × Int) :=
  (r.members.zipIdx.filter (fun p => wantedAt c r p.2 p.1)).map (fun p => (p.1.kind, p.1.ref))

/-- state after `relation()` was called for the interesting relations `L` (in this order) -/
structure FP (c : Cfg) (L : List Rel) (s : State) : Prop where
  rdb : s.rdb.toList = L.zipIdx.map (fun x => ⟨x.2 + 1, wantedCount c x.1⟩)
  stash : s.stash.toList = L.map (fun r => some (.rel (markRel c r)))
  elems : ∀ k, ∀ e ∈ s.getDb k, e.rpos < L.length ∧ e.h = 0
  counts : ∀ (k : Kind) (p : Nat) (Q : Int → Bool) (r : Rel), L[p]? = some r →
    (s.getDb k).countP (fun e => e.rpos == p && Q e.mid) =
      (wantedRefs c r).countP (fun w => w.1 == k && Q w.2)
  log : s.log = []

theorem trackElems_countP (c : Cfg) (r : Rel) (pos : Nat) (k : Kind) (Q : Int → Bool) :
    (trackElems c r pos k).countP (fun e => e.rpos == pos && Q e.mid) =
      (wantedRefs c r).countP (fun w => w.1 == k && Q w.2) := by
  simp only [trackElems, wantedRefs, List.countP_map, List.countP_filter]
  apply List.countP_congr
  intro x _
  by_cases h1 : x.1.kind = k <;> by_cases h2 : wantedAt c r x.2 x.1 = true <;>
    by_cases h3 : Q x.1.ref = true <;> simp [h1, h2, h3]

theorem FP.size {c : Cfg} {L : List Rel} {s : State} (f : FP c L s) : s.rdb.size = L.length ∧ s.stash.size = L.length := by
  constructor
  · have := congrArg List.length f.rdb; simpa using this
  · have := congrArg List.length f.stash; simpa using this

theorem FP.addRelation {c : Cfg} {L : List Rel} {s : State} (f : FP c L s) (r : Rel) (hr : c.newRel r = true) :
    FP c (L ++ [r]) (Osmium.RelMgr.addRelation c s r) := by
  have hsz := f.size
  have heq : Osmium.RelMgr.addRelation c s r =
      { s with
        stash := s.stash.push (some (.rel (markRel c r)))
        rdb := s.rdb.push { h := s.stash.size + 1, missing := wantedCount c r }
        ndb := s.ndb ++ trackElems c r s.rdb.size .node
        wdb := s.wdb ++ trackElems c r s.rdb.size .way
        rmdb := s.rmdb ++ trackElems c r s.rdb.size .relation } := by
    simp [Osmium.RelMgr.addRelation, hr, stashAdd, markRel]
  rw [heq]
  have hdb : ∀ k, ({ s with
        stash := s.stash.push (some (.rel (markRel c r)))
        rdb := s.rdb.push { h := s.stash.size + 1, missing := wantedCount c r }
        ndb := s.ndb ++ trackElems c r s.rdb.size .node
        wdb := s.wdb ++ trackElems c r s.rdb.size .way
        rmdb := s.rmdb ++ trackElems c r s.rdb.size .relation } : State).getDb k =
      s.getDb k ++ trackElems c r L.length k := by
    intro k; rw [← hsz.1]; cases k <;> rfl
  have htr : ∀ k, ∀ e ∈ trackElems c r L.length k, e.rpos = L.length ∧ e.h = 0 := by
    intro k e he
    simp only [trackElems, List.mem_map] at he
    obtain ⟨x, _, rfl⟩ := he
    exact ⟨rfl, rfl⟩
  refine ⟨?_, ?_, ?_, ?_, f.log⟩
  · show (s.rdb.push _).toList = _
    rw [Array.toList_push, f.rdb, List.zipIdx_append, List.map_append, hsz.2]
    simp
  · show (s.stash.push _).toList = _
    rw [Array.toList_push, f.stash, List.map_append]; rfl
  · intro k e he
    rw [hdb] at he
    rcases List.mem_append.mp he with he | he
    · have := f.elems k e he
      exact ⟨by simp; omega, this.2⟩
    · have := htr k e he
      exact ⟨by simp [this.1], this.2⟩
  · intro k p Q r' hp
    rw [hdb, List.countP_append]
    by_cases hlt : p < L.length
    · have hp' : L[p]? = some r' := by rw [List.getElem?_append_left hlt] at hp; exact hp
      rw [f.counts k p Q r' hp']
      have : (trackElems c r L.length k).countP (fun e => e.rpos == p && Q e.mid) = 0 := by
        rw [List.countP_eq_zero]
        intro e he
        have := (htr k e he).1
        simp [this]; omega
      omega
    · have hpe : p = L.length := by
        have : p < (L ++ [r]).length := by
          rcases Nat.lt_or_ge p (L ++ [r]).length with h | h
          · exact h
          · rw [List.getElem?_eq_none h] at hp; cases hp
        simp at this; omega
      subst hpe
      have hr' : r' = r := by simpa using hp.symm
      subst hr'
      have : (s.getDb k).countP (fun e => e.rpos == L.length && Q e.mid) = 0 := by
        rw [List.countP_eq_zero]
        intro e he
        have := (f.elems k e he).1
        simp; omega
      rw [this, trackElems_countP]; simp

theorem FP.foldl {c : Cfg} (rels : List Rel) : ∀ {L : List Rel} {s : State}, FP c L s →
    FP c (L ++ rels.filter c.newRel) (rels.foldl (Osmium.RelMgr.addRelation c) s) := by
  induction rels with
  | nil => intro L s f; simpa using f
  | cons r rels ih =>
    intro L s f
    simp only [List.foldl_cons]
    by_cases hr : c.newRel r = true
    · have := ih (f.addRelation r hr)
      simpa [List.filter_cons, hr, List.append_assoc] using this
    · have h0 : Osmium.RelMgr.addRelation c s r = s := by simp [Osmium.RelMgr.addRelation, hr]
      rw [h0]
      have := ih f
      simpa [List.filter_cons, hr] using this

theorem FP.init (c : Cfg) : FP c [] {} :=
  ⟨rfl, rfl, fun k e he => by cases k <;> simp [State.getDb] at he,
   fun k p Q r hp => by simp at hp, rfl⟩

theorem countP_kinds (l : List (Kind × Int)) (Q : Kind × Int → Bool) :
    l.countP (fun w => w.1 == Kind.node && Q w) + l.countP (fun w => w.1 == Kind.way && Q w) +
      l.countP (fun w => w.1 == Kind.relation && Q w) = l.countP Q := by
  induction l with
  | nil => simp
  | cons w l ih =>
    simp only [List.countP_cons]
    obtain ⟨k, id⟩ := w
    cases k
    · by_cases hq : Q (Kind.node, id) = true <;> simp [hq] <;> omega
    · by_cases hq : Q (Kind.way, id) = true <;> simp [hq] <;> omega
    · by_cases hq : Q (Kind.relation, id) = true <;> simp [hq] <;> omega

/-! ### Part 4c: the state after the first pass satisfies the run-long invariant -/

def interestingRels (c : Cfg) (rels : List Rel) : List Rel := rels.filter c.newRel

def RmOf (c : Cfg) (L : List Rel) (p : Nat) : Rel := markRel c (L[p]?.getD ⟨0, 0, []⟩)

def baseOf (s : State) : Base := fun k => skel (s.getDb k)

theorem prepare_fields (s : State) :
    (prepare s).rdb = s.rdb ∧ (prepare s).stash = s.stash ∧ (prepare s).log = s.log ∧
    ∀ k, (prepare s).getDb k = sortElems (s.getDb k) :=
  ⟨rfl, rfl, rfl, fun k => by cases k <;> rfl⟩

theorem firstPass_fp (c : Cfg) (rels : List Rel) :
    ∃ s', FP c (interestingRels c rels) s' ∧ firstPass c rels = prepare s' :=
  ⟨rels.foldl (addRelation c) {}, by simpa [interestingRels] using FP.foldl rels (FP.init c), rfl⟩

theorem FP.entry {c : Cfg} {L : List Rel} {s : State} (f : FP c L s) (p : Nat) (r : Rel) (hp : L[p]? = some r) :
    s.rdb[p]? = some ⟨p + 1, wantedCount c r⟩ ∧ s.stash[p]? = some (some (.rel (markRel c r))) := by
  constructor
  · rw [← Array.getElem?_toList, f.rdb, List.getElem?_map, List.getElem?_zipIdx, hp]; simp
  · rw [← Array.getElem?_toList, f.stash, List.getElem?_map, hp]; rfl

/-- outstanding references, in terms of the relation's wanted members -/
theorem pending_eq {c : Cfg} {L : List Rel} {s' : State} (f : FP c L s') (S : List (Kind × Int)) (p : Nat) (r : Rel)
    (hp : L[p]? = some r) :
    pending (baseOf (prepare s')) S p = (wantedRefs c r).countP (fun w => decide (w ∉ S)) := by
  have hk : ∀ k, pendK (baseOf (prepare s')) S p k =
      (wantedRefs c r).countP (fun w => w.1 == k && decide (w ∉ S)) := by
    intro k
    unfold pendK baseOf skel
    rw [List.countP_map, (prepare_fields s').2.2.2 k]
    rw [(sortElems_perm (s'.getDb k)).countP_eq]
    have := f.counts k p (fun m => decide ((k, m) ∉ S)) r hp
    simp only [Function.comp_def]
    rw [this]
    apply List.countP_congr
    intro w _
    obtain ⟨wk, wid⟩ := w
    by_cases h : wk = k
    · subst h; simp
    · simp [h]
  unfold pending
  rw [hk, hk, hk]
  exact countP_kinds _ _

theorem wantedRefs_length (c : Cfg) (r : Rel) : (wantedRefs c r).length = wantedCount c r := by
  simp [wantedRefs, wantedCount]

/-- no tracked element for (k, id) ⟺ no interesting relation wants (k, id) -/
theorem untracked_iff {c : Cfg} {L : List Rel} {s' : State} (f : FP c L s') (k : Kind) (id : Int) :
    (baseOf (prepare s') k).countP (fun x => x.1 == id) = 0 ↔ ∀ r ∈ L, (k, id) ∉ wantedRefs c r := by
  have hbase : (baseOf (prepare s') k).countP (fun x => x.1 == id) = (s'.getDb k).countP (fun e => e.mid == id) := by
    unfold baseOf skel
    rw [List.countP_map, (prepare_fields s').2.2.2 k, (sortElems_perm (s'.getDb k)).countP_eq]
    rfl
  rw [hbase]
  constructor
  · intro h0 r hr hw
    obtain ⟨p, hp⟩ := List.getElem?_of_mem hr
    have h1 : 0 < (wantedRefs c r).countP (fun w => w.1 == k && (fun m => m == id) w.2) := by
      rw [List.countP_pos_iff]
      exact ⟨(k, id), hw, by simp⟩
    rw [← f.counts k p (fun m => m == id) r hp, List.countP_pos_iff] at h1
    obtain ⟨e, he, hpe⟩ := h1
    rw [List.countP_eq_zero] at h0
    have := h0 e he
    simp only [Bool.and_eq_true, beq_iff_eq] at hpe
    exact this (by simpa using hpe.2)
  · intro hall
    rw [List.countP_eq_zero]
    intro e he hid
    have hlt := (f.elems k e he).1
    obtain ⟨r, hr⟩ : ∃ r, L[e.rpos]? = some r := ⟨L[e.rpos], by simp [hlt]⟩
    have h1 : 0 < (s'.getDb k).countP (fun x => x.rpos == e.rpos && (fun m => m == id) x.mid) := by
      rw [List.countP_pos_iff]
      exact ⟨e, he, by simpa using hid⟩
    rw [f.counts k e.rpos (fun m => m == id) r hr, List.countP_pos_iff] at h1
    obtain ⟨w, hw, hpw⟩ := h1
    simp only [Bool.and_eq_true, beq_iff_eq] at hpw
    have : w = (k, id) := by
      obtain ⟨a, b⟩ := w
      simp at hpw
      simp [hpw.1, hpw.2]
    subst this
    exact hall r (List.mem_of_getElem? hr) hw

theorem firstPass_inv3 (c : Cfg) (rels : List Rel) :
    Inv3 (RmOf c (interestingRels c rels)) (interestingRels c rels).length (baseOf (firstPass c rels)) []
      (firstPass c rels) := by
  obtain ⟨s', f, heq⟩ := firstPass_fp c rels
  rw [heq]
  generalize interestingRels c rels = L at f
  obtain ⟨p1, p2, p3, p4⟩ := prepare_fields s'
  have hsz := f.size
  have hmem : ∀ k e, e ∈ (prepare s').getDb k → e ∈ s'.getDb k := by
    intro k e he; rw [p4] at he; exact (sortElems_perm _).mem_iff.mp he
  have hentry : ∀ p, p < L.length → ∃ r, L[p]? = some r ∧
      (prepare s').rdb[p]? = some ⟨p + 1, wantedCount c r⟩ ∧
      (prepare s').stash[p]? = some (some (.rel (RmOf c L p))) := by
    intro p hp
    refine ⟨L[p], by simp [hp], ?_, ?_⟩
    · rw [p1]; exact (f.entry p L[p] (by simp [hp])).1
    · rw [p2, (f.entry p L[p] (by simp [hp])).2]; simp [RmOf, hp]
  have hdead : ∀ p, p < L.length → deadB (prepare s') p = false := by
    intro p hp
    obtain ⟨r, _, h2, _⟩ := hentry p hp
    simp [deadB, h2]
  refine ⟨⟨⟨?_, ?_, ?_, ?_⟩, ?_, ?_, ?_⟩, fun _ => rfl, ?_, ?_, ?_, ?_, ?_⟩
  · rw [p1]; exact hsz.1
  · rw [p2, hsz.2]; exact Nat.le_refl _
  · intro k e he; exact Or.inl (f.elems k e (hmem k e he)).2
  · intro p hp
    obtain ⟨r, _, h2, h3⟩ := hentry p hp
    exact Or.inl ⟨⟨_, h2⟩, h3⟩
  · rw [p3, f.log]; intro e he; simp at he
  · intro p hp; rw [p3, f.log, hdead p hp]; simp [firedCount]
  · intro p hp hd; rw [hdead p hp] at hd; cases hd
  · intro k
    show (skel ((prepare s').getDb k)).Pairwise (fun a b => a.1 ≤ b.1)
    rw [p4]
    exact (List.pairwise_map (f := fun e : Elem => (e.mid, e.rpos)) (R := fun a b => a.1 ≤ b.1)).mpr (sortElems_sorted _)
  · intro k x hx
    obtain ⟨e, he, rfl⟩ := List.mem_map.mp hx
    exact (f.elems k e (hmem k e he)).1
  · intro p hp
    obtain ⟨r, h1, h2, _⟩ := hentry p hp
    rw [pending_eq f [] p r h1]
    simp only [missingAt, h2, Option.map_some]
    congr 1
    rw [← wantedRefs_length]
    symm
    rw [List.countP_eq_length]
    intro w _; simp
  · intro p hp
    rw [p3, f.log]
    have : ¬ (pending (baseOf (prepare s')) [] p = 0 ∧ 1 ≤ pending (baseOf (prepare s')) [] p) := by omega
    simp [firedCount, this]
  · intro k id
    rw [p3, f.log]
    simp [otherEvents]

end Osmium.RelMgr
