/-
Lemmas for C08, part 4: the Writer in error/closed state, and "no stuck state" (the
threads always finish).  Core-only.
-/
import Osmium.Lemmas.WriterSMInv

namespace Osmium.WriterSM

open Osmium.Mon

variable {κ : Type} {cfg : Cfg κ} {enc : List Bytes → Bytes}

/-- a terminator (exception or end-of-data) will still be pushed by the code that remains
    reachable in the current call -/
def pendTerm : List Instr → Bool
  | [] => false
  | .push it :: rest => it.isTerm || pendTerm rest
  | .hdr :: rest => pendTerm rest
  | .setHdr :: rest => pendTerm rest
  | .poll :: rest => pendTerm rest
  | .throw _ :: rest => pendTerm rest
  | .setClosed :: rest => pendTerm rest
  | _ :: _ => false

/-- while m_status is okay, the remaining code reaches `setClosed` (or a throw) before it
    waits for the write thread -/
def okayAllowed : List Instr → Bool
  | [] => true
  | .futGet :: _ => false
  | .join :: _ => false
  | .rethrow _ :: _ => false
  | .setClosed :: _ => true
  | _ :: rest => okayAllowed rest

/-- every `setClosed` is followed by the push of the end-of-data marker -/
def closedOk : List Instr → Bool
  | [] => true
  | .setClosed :: rest => pendTerm rest && closedOk rest
  | _ :: rest => closedOk rest

def Instr.isFinal : Instr → Bool
  | .ret | .rethrow _ | .futGet | .join => true
  | _ => false

def endsFinal (code : List Instr) : Bool :=
  match code.getLast? with
  | some i => i.isFinal
  | none => false

def encLike (l : List Instr) : Prop := ∀ i ∈ l, (∃ it, i = .push it) ∨ (∃ x, i = .throw x)

theorem encLike_encInstrs (e : Enc) : encLike (encInstrs e) := fun _ h => mem_encInstrs h
theorem encLike_optEnc (e : Option Enc) : encLike (optEnc e) := fun _ h => mem_optEnc h

theorem encLike_cons {i : Instr} {l : List Instr} (h : encLike (i :: l)) :
    ((∃ it, i = .push it) ∨ (∃ x, i = .throw x)) ∧ encLike l :=
  ⟨h i (by simp), fun j hj => h j (List.mem_cons_of_mem _ hj)⟩

theorem okayAllowed_append {l r : List Instr} (h : encLike l) :
    okayAllowed (l ++ r) = okayAllowed r := by
  induction l with
  | nil => rfl
  | cons i l ih =>
    obtain ⟨hi, hl⟩ := encLike_cons h
    rcases hi with ⟨it, rfl⟩ | ⟨x, rfl⟩ <;> simp [okayAllowed, ih hl]

theorem closedOk_append {l r : List Instr} (h : encLike l) : closedOk (l ++ r) = closedOk r := by
  induction l with
  | nil => rfl
  | cons i l ih =>
    obtain ⟨hi, hl⟩ := encLike_cons h
    rcases hi with ⟨it, rfl⟩ | ⟨x, rfl⟩ <;> simp [closedOk, ih hl]

theorem pendTerm_append {l r : List Instr} (h : encLike l) (hr : pendTerm r = true) :
    pendTerm (l ++ r) = true := by
  induction l with
  | nil => exact hr
  | cons i l ih =>
    obtain ⟨hi, hl⟩ := encLike_cons h
    rcases hi with ⟨it, rfl⟩ | ⟨x, rfl⟩ <;> simp [pendTerm, ih hl]

theorem endsFinal_append {l r : List Instr} (hr : r ≠ []) : endsFinal (l ++ r) = endsFinal r := by
  unfold endsFinal
  rw [List.getLast?_append]
  cases h : r.getLast? with
  | none => simp [List.getLast?_eq_none_iff] at h; exact absurd h hr
  | some i => simp

theorem endsFinal_cons {i : Instr} {r : List Instr} (hr : r ≠ []) : endsFinal (i :: r) = endsFinal r :=
  endsFinal_append (l := [i]) hr

theorem okayAllowed_callCode (a : Api) : okayAllowed (callCode a) = true := by
  cases a with
  | put ib e =>
    simp only [callCode, List.cons_append, List.nil_append, List.append_assoc, okayAllowed]
    rw [okayAllowed_append (encLike_optEnc ib)]
    simp only [List.cons_append, okayAllowed]
    rw [okayAllowed_append (encLike_encInstrs e)]
    rfl
  | item f =>
    cases f with
    | none => rfl
    | some e =>
      simp only [callCode, List.cons_append, List.nil_append, List.append_assoc, okayAllowed]
      rw [okayAllowed_append (encLike_encInstrs e)]
      rfl
  | flush ib =>
    simp only [callCode, List.cons_append, List.nil_append, List.append_assoc, okayAllowed]
    rw [okayAllowed_append (encLike_optEnc ib)]
    rfl
  | close ib e =>
    simp only [callCode, List.cons_append, List.nil_append, List.append_assoc, okayAllowed]
    rw [okayAllowed_append (encLike_optEnc ib), okayAllowed_append (encLike_encInstrs e)]
    rfl
  | dtor ib e =>
    simp only [callCode, List.cons_append, List.nil_append, List.append_assoc, okayAllowed]
    rw [okayAllowed_append (encLike_optEnc ib), okayAllowed_append (encLike_encInstrs e)]
    rfl

theorem closedOk_callCode (a : Api) : closedOk (callCode a) = true := by
  cases a with
  | put ib e =>
    simp only [callCode, List.cons_append, List.nil_append, List.append_assoc, closedOk]
    rw [closedOk_append (encLike_optEnc ib)]
    simp only [List.cons_append, closedOk]
    rw [closedOk_append (encLike_encInstrs e)]
    rfl
  | item f =>
    cases f with
    | none => rfl
    | some e =>
      simp only [callCode, List.cons_append, List.nil_append, List.append_assoc, closedOk]
      rw [closedOk_append (encLike_encInstrs e)]
      rfl
  | flush ib =>
    simp only [callCode, List.cons_append, List.nil_append, List.append_assoc, closedOk]
    rw [closedOk_append (encLike_optEnc ib)]
    rfl
  | close ib e =>
    simp only [callCode, List.cons_append, List.nil_append, List.append_assoc, closedOk]
    rw [closedOk_append (encLike_optEnc ib), closedOk_append (encLike_encInstrs e)]
    rfl
  | dtor ib e =>
    simp only [callCode, List.cons_append, List.nil_append, List.append_assoc, closedOk]
    rw [closedOk_append (encLike_optEnc ib), closedOk_append (encLike_encInstrs e)]
    rfl

theorem endsFinal_callCode (a : Api) : endsFinal (callCode a) = true := by
  cases a with
  | put ib e =>
    simp only [callCode]
    rw [endsFinal_append (by simp)]; rfl
  | item f =>
    cases f with
    | none => rfl
    | some e => simp only [callCode]; rw [endsFinal_append (by simp)]; rfl
  | flush ib => simp only [callCode]; rw [endsFinal_append (by simp)]; rfl
  | close ib e => simp only [callCode]; rw [endsFinal_append (by simp)]; rfl
  | dtor ib e => simp only [callCode]; rw [endsFinal_append (by simp)]; rfl

theorem any_set_ready {q : List Item} {i : Nat} {it : Item} (h : q[i]? = some it) :
    (q.set i (setReady it)).any Item.isTerm = q.any Item.isTerm := by
  induction q generalizing i with
  | nil => simp at h
  | cons x xs ih =>
    cases i with
    | zero =>
      simp at h; subst h
      simp [List.set, setReady, Item.isTerm]
    | succ j =>
      simp at h
      simp [List.set, ih h]

/-- status bookkeeping and what "no stuck state" needs -/
structure TermInv (s : St κ) : Prop where
  okay : s.status = .okay → okayAllowed s.code = true
  closed : closedOk s.code = true
  term : s.status ≠ .okay → s.inUse = true →
    (s.wpc = .pop ∨ ∃ it, s.wpc = .got it ∧ it.isTerm = false) →
    s.q.any Item.isTerm = true ∨ pendTerm s.code = true
  busy : s.cur.isSome = true → endsFinal s.code = true
  dtorAhead : s.destroyed = true ∨ (∃ ib e, Api.dtor ib e ∈ s.script) ∨ isDtor s.cur = true
  rethrowErr : (∃ e, Instr.rethrow e ∈ s.code) → s.status ≠ .okay
  raisedErr : (∃ x ∈ s.results, ∃ e, x.2 = .raised e) → s.status ≠ .okay

theorem endsFinal_tail {i : Instr} {rest : List Instr} (h : endsFinal (i :: rest) = true)
    (hi : i.isFinal = false) : rest ≠ [] ∧ endsFinal rest = true := by
  have hne : rest ≠ [] := by
    intro h0; subst h0
    simp [endsFinal, hi] at h
  exact ⟨hne, by rw [← endsFinal_cons hne]; exact h⟩

theorem termInv_prod {s s' : St κ} (hp : ProdInv s) (h : TermInv s) (hs : ProdStep cfg s s') :
    TermInv s' := by
  obtain ⟨t1, t2, t3, t4, t5, t6, t7⟩ := h
  -- pop a plain head
  have pop : ∀ (i : Instr) (rest : List Instr) (a : Api), s.cur = some a → s.code = i :: rest →
      okayAllowed (i :: rest) = okayAllowed rest → closedOk (i :: rest) = closedOk rest →
      (pendTerm (i :: rest) = true → pendTerm rest = true) → i.isFinal = false →
      ∀ (s1 : St κ), s1.code = rest → s1.cur = s.cur → s1.results = s.results → s1.status = s.status →
      s1.script = s.script → s1.destroyed = s.destroyed → s1.q = s.q → s1.inUse = s.inUse →
      s1.wpc = s.wpc → TermInv s1 := by
    intro i rest a hc hcode f1 f2 f3 f4 s1 e1 e2 e3 e4 e5 e6 e7 e8 e9
    refine ⟨?_, ?_, ?_, ?_, ?_, ?_, ?_⟩
    · intro hst; rw [e1, ← f1, ← hcode]; exact t1 (e4 ▸ hst)
    · rw [e1, ← f2, ← hcode]; exact t2
    · intro hst hu hw
      rw [e7, e1]
      rcases t3 (e4 ▸ hst) (e8 ▸ hu) (e9 ▸ hw) with h | h
      · exact .inl h
      · exact .inr (f3 (hcode ▸ h))
    · intro _
      rw [e1]
      exact (endsFinal_tail (hcode ▸ t4 (by rw [hc]; rfl)) f4).2
    · rw [e5, e6, e2]; exact t5
    · intro ⟨e, he⟩
      rw [e4]; exact t6 ⟨e, by rw [hcode]; exact List.mem_cons_of_mem _ (e1 ▸ he)⟩
    · rw [e3, e4]; exact t7
  -- a call finishes
  have fin : ∀ (a : Api) (o : Outcome) (s0 : St κ) (i : Instr) (rest : List Instr),
      s.cur = some a → s.code = i :: rest → pendTerm (i :: rest) = false →
      s0.results = s.results → s0.status = s.status → s0.script = s.script → s0.q = s.q →
      s0.inUse = s.inUse → s0.wpc = s.wpc →
      (isDtor (some a) = true → s0.destroyed = true) → (isDtor (some a) = false → s0.destroyed = s.destroyed) →
      ((∃ e, o = .raised e) → s.status ≠ .okay) → TermInv (finish s0 a o) := by
    intro a o s0 i rest hc hcode f3 e3 e4 e5 e7 e8 e9 d1 d2 f7
    refine ⟨?_, ?_, ?_, ?_, ?_, ?_, ?_⟩ <;> dsimp only [finish]
    · intro _; rfl
    · rfl
    · intro hst hu hw
      rw [e7]
      rcases t3 (e4 ▸ hst) (e8 ▸ hu) (e9 ▸ hw) with h | h
      · exact .inl h
      · rw [hcode, f3] at h; cases h
    · intro hx; cases hx
    · rcases t5 with h | h | h
      · by_cases hd : isDtor (some a) = true
        · exact .inl (d1 hd)
        · exact .inl (by rw [d2 (by simpa using hd)]; exact h)
      · exact .inr (.inl (e5 ▸ h))
      · rw [hc] at h; exact .inl (d1 h)
    · intro ⟨e, he⟩; simp at he
    · intro ⟨x, hx, e, he⟩
      rw [e4]
      rw [e3] at hx
      rcases List.mem_append.mp hx with hx | hx
      · exact t7 ⟨x, hx, e, he⟩
      · simp at hx; subst hx
        exact f7 ⟨e, he⟩
  have raise : ∀ (a : Api) (e : Err) (s0 : St κ), s.cur = some a → s0.cur = s.cur →
      s0.script = s.script → s0.destroyed = s.destroyed → TermInv (raiseInTry s0 a e) := by
    intro a e s0 hc e2 e5 e6
    refine ⟨?_, ?_, ?_, ?_, ?_, ?_, ?_⟩ <;> dsimp only [raiseInTry]
    · intro hst; cases hst
    · cases a <;> rfl
    · intro _ _ _; right; cases a <;> rfl
    · intro _; cases a <;> rfl
    · rw [e5, e6, e2]; exact t5
    · intro _ hst; cases hst
    · intro _ hst; cases hst
  have notDtor : ∀ (a : Api) (i : Instr), s.cur = some a → i ∈ s.code →
      (okFor (some a) i = true → isDtor (some a) = false) → isDtor (some a) = false := by
    intro a i hc hi f
    have := hp.finals i hi
    rw [hc] at this
    exact f this
  cases hs with
  | call a rest hc hsc =>
    have hcode := hp.idle hc
    refine ⟨?_, ?_, ?_, ?_, ?_, ?_, ?_⟩ <;> dsimp only
    · intro _; exact okayAllowed_callCode a
    · exact closedOk_callCode a
    · intro hst hu hw
      rcases t3 hst hu hw with h | h
      · exact .inl h
      · rw [hcode] at h; cases h
    · intro _; exact endsFinal_callCode a
    · rcases t5 with h | ⟨ib, e, h⟩ | h
      · exact .inl h
      · rw [hsc] at h
        rcases List.mem_cons.mp h with h | h
        · exact .inr (.inr (by rw [← h]; rfl))
        · exact .inr (.inl ⟨ib, e, h⟩)
      · rw [hc] at h; cases h
    · intro ⟨e, he⟩; exact absurd he rethrow_not_mem_callCode
    · exact t7
  | chkFail a rest hc hcode hst =>
    have hd := notDtor a .chk hc (by rw [hcode]; simp) (by cases a <;> simp [okFor, isDtor, isClose])
    exact fin a _ s _ rest hc hcode rfl rfl rfl rfl rfl rfl rfl (fun h => by rw [hd] at h; cases h)
      (fun _ => rfl) (fun _ => hst)
  | chkOk a rest hc hcode hst =>
    exact pop _ rest a hc hcode rfl rfl (fun h => by cases h) rfl _ rfl rfl rfl rfl rfl rfl rfl rfl rfl
  | closeChkOk a rest hc hcode hst =>
    exact pop _ rest a hc hcode rfl rfl (fun h => by cases h) rfl _ rfl rfl rfl rfl rfl rfl rfl rfl rfl
  | closeChkSkip a rest hc hcode hst =>
    refine ⟨?_, ?_, ?_, ?_, ?_, ?_, ?_⟩ <;> dsimp only
    · intro h; exact absurd h hst
    · cases a <;> rfl
    · intro hst' hu hw
      rcases t3 hst' hu hw with h | h
      · exact .inl h
      · rw [hcode] at h; cases h
    · intro _; cases a <;> rfl
    · exact t5
    · intro _; exact hst
    · exact t7
  | hdrSkip a rest hc hcode hh =>
    exact pop _ rest a hc hcode rfl rfl (fun h => h) rfl _ rfl rfl rfl rfl rfl rfl rfl rfl rfl
  | hdrDo a rest hc hcode hh =>
    have hne := (endsFinal_tail (hcode ▸ t4 (by rw [hc]; rfl)) (i := .hdr) rfl)
    have hass : encInstrs cfg.hdrEnc ++ [Instr.setHdr] ++ rest = encInstrs cfg.hdrEnc ++ (.setHdr :: rest) := by
      simp
    refine ⟨?_, ?_, ?_, ?_, ?_, ?_, ?_⟩ <;> dsimp only
    · intro hst
      rw [hass, okayAllowed_append (encLike_encInstrs _)]
      have := t1 hst; rw [hcode] at this; exact this
    · rw [hass, closedOk_append (encLike_encInstrs _)]
      have := t2; rw [hcode] at this; exact this
    · intro hst hu hw
      rcases t3 hst hu hw with h | h
      · exact .inl h
      · right
        rw [hass]
        apply pendTerm_append (encLike_encInstrs _)
        rw [hcode] at h; exact h
    · intro _
      rw [endsFinal_append hne.1]; exact hne.2
    · exact t5
    · intro ⟨e, he⟩
      apply t6
      refine ⟨e, ?_⟩
      rw [hcode]
      simp only [List.mem_append, List.mem_cons, List.mem_nil_iff, or_false] at he
      rcases he with (he | he) | he
      · rcases mem_encInstrs he with ⟨_, h⟩ | ⟨_, h⟩ <;> cases h
      · cases he
      · exact List.mem_cons_of_mem _ he
    · exact t7
  | setHdr a rest hc hcode =>
    exact pop _ rest a hc hcode rfl rfl (fun h => h) rfl _ rfl rfl rfl rfl rfl rfl rfl rfl rfl
  | pollRaise a rest e hc hcode hn hv hp' => exact raise a e _ hc rfl rfl rfl
  | pollValue a rest n hc hcode hn hv hp' =>
    exact pop _ rest a hc hcode rfl rfl (fun h => h) rfl _ rfl rfl rfl rfl rfl rfl rfl rfl rfl
  | pollNothing a rest hc hcode hn =>
    exact pop _ rest a hc hcode rfl rfl (fun h => h) rfl _ rfl rfl rfl rfl rfl rfl rfl rfl rfl
  | pushDropped a rest it hc hcode hu =>
    have hne := (endsFinal_tail (hcode ▸ t4 (by rw [hc]; rfl)) (i := .push it) rfl)
    refine ⟨?_, ?_, ?_, ?_, ?_, ?_, ?_⟩ <;> dsimp only
    · intro hst; have := t1 hst; rw [hcode] at this; exact this
    · have := t2; rw [hcode] at this; exact this
    · intro _ hu'; rw [hu] at hu'; cases hu'
    · intro _; exact hne.2
    · exact t5
    · intro ⟨e, he⟩; exact t6 ⟨e, by rw [hcode]; exact List.mem_cons_of_mem _ he⟩
    · exact t7
  | pushDone a rest it hc hcode hu hroom =>
    have hne := (endsFinal_tail (hcode ▸ t4 (by rw [hc]; rfl)) (i := .push it) rfl)
    refine ⟨?_, ?_, ?_, ?_, ?_, ?_, ?_⟩ <;> dsimp only
    · intro hst; have := t1 hst; rw [hcode] at this; exact this
    · have := t2; rw [hcode] at this; exact this
    · intro hst hu' hw
      rcases t3 hst hu' hw with h | h
      · left; simp [h]
      · rw [hcode] at h
        simp only [pendTerm, Bool.or_eq_true] at h
        rcases h with h | h
        · left; simp [h]
        · exact .inr h
    · intro _; exact hne.2
    · exact t5
    · intro ⟨e, he⟩; exact t6 ⟨e, by rw [hcode]; exact List.mem_cons_of_mem _ he⟩
    · exact t7
  | throw a rest e hc hcode => exact raise a e _ hc rfl rfl rfl
  | setClosed a rest hc hcode =>
    have hne := (endsFinal_tail (hcode ▸ t4 (by rw [hc]; rfl)) (i := .setClosed) rfl)
    have h2 := t2; rw [hcode] at h2
    simp only [closedOk, Bool.and_eq_true] at h2
    refine ⟨?_, ?_, ?_, ?_, ?_, ?_, ?_⟩ <;> dsimp only
    · intro hst; cases hst
    · exact h2.2
    · intro _ _ _; exact .inr h2.1
    · intro _; exact hne.2
    · exact t5
    · intro _ hst; cases hst
    · intro _ hst; cases hst
  | rethrow a rest e hc hcode =>
    have hd := notDtor a (.rethrow e) hc (by rw [hcode]; simp) (by cases a <;> simp [okFor, isDtor])
    exact fin a _ s _ rest hc hcode rfl rfl rfl rfl rfl rfl rfl (fun h => by rw [hd] at h; cases h)
      (fun _ => rfl) (fun _ => t6 ⟨e, by rw [hcode]; simp⟩)
  | ret a rest hc hcode =>
    have hd := notDtor a .ret hc (by rw [hcode]; simp) (by cases a <;> simp [okFor, isDtor, isClose])
    exact fin a _ s _ rest hc hcode rfl rfl rfl rfl rfl rfl rfl (fun h => by rw [hd] at h; cases h)
      (fun _ => rfl) (fun ⟨e, he⟩ => by cases he)
  | futGetValid a rest o hc hcode hv hp' =>
    have hd := notDtor a .futGet hc (by rw [hcode]; simp) (by cases a <;> simp [okFor, isDtor, isClose])
    exact fin a _ _ _ rest hc hcode rfl rfl rfl rfl rfl rfl rfl (fun h => by rw [hd] at h; cases h)
      (fun _ => rfl) (fun _ hst => by have := t1 hst; rw [hcode] at this; cases this)
  | futGetInvalid a rest hc hcode hv =>
    have hd := notDtor a .futGet hc (by rw [hcode]; simp) (by cases a <;> simp [okFor, isDtor, isClose])
    exact fin a _ s _ rest hc hcode rfl rfl rfl rfl rfl rfl rfl (fun h => by rw [hd] at h; cases h)
      (fun _ => rfl) (fun ⟨e, he⟩ => by cases he)
  | join a rest hc hcode hw =>
    have := fin a (.ok 0) { s with destroyed := true } _ rest hc hcode rfl rfl rfl rfl rfl rfl rfl
      (fun _ => rfl) (fun h => by
        have := hp.finals .join (by rw [hcode]; simp)
        rw [hc] at this; simp only [okFor] at this; rw [this] at h; cases h)
      (fun ⟨e, he⟩ => by cases he)
    exact ⟨this.1, this.2, this.3, this.4, .inl rfl, this.6, this.7⟩

local macro "vac" : tactic =>
  `(tactic| (intro _ _ hw'; dsimp only [shutdownQ] at hw'; rcases hw' with h | ⟨_, h, _⟩ <;> cases h))

theorem termInv_wt {s s' : St κ} (h : TermInv s) (hs : WtStep cfg s s') : TermInv s' := by
  obtain ⟨t1, t2, t3, t4, t5, t6, t7⟩ := h
  cases hs with
  | popShutdown hw hu =>
    refine ⟨t1, t2, ?_, t4, t5, t6, t7⟩; vac
  | take it rest hw hu hq =>
    refine ⟨t1, t2, ?_, t4, t5, t6, t7⟩
    intro hst hu' hw'
    dsimp only at hw' ⊢
    rcases hw' with h | ⟨it', h, hterm⟩
    · cases h
    · simp at h; subst h
      rcases t3 hst hu (.inl hw) with h | h
      · rw [hq, List.any_cons, hterm, Bool.false_or] at h; exact .inl h
      · exact .inr h
  | getExc it e hw hr hres =>
    refine ⟨t1, t2, ?_, t4, t5, t6, t7⟩; vac
  | getEnd it hw hr hres =>
    refine ⟨t1, t2, ?_, t4, t5, t6, t7⟩; vac
  | writeOk it b bs k' os' hw hr hres hcw =>
    refine ⟨t1, t2, ?_, t4, t5, t6, t7⟩
    intro hst hu' _
    exact t3 hst hu' (.inr ⟨it, hw, by simp [Item.isTerm, hres]⟩)
  | writeFail it b bs e k' os' hw hr hres hcw =>
    refine ⟨t1, t2, ?_, t4, t5, t6, t7⟩; vac
  | closeOk k' os' hw hcc =>
    refine ⟨t1, t2, ?_, t4, t5, t6, t7⟩; vac
  | closeFail e k' os' hw hcc =>
    refine ⟨t1, t2, ?_, t4, t5, t6, t7⟩; vac
  | fail1 e hw =>
    refine ⟨t1, t2, ?_, t4, t5, t6, t7⟩; vac
  | fail2 e hw =>
    refine ⟨t1, t2, ?_, t4, t5, t6, t7⟩; vac
  | fail3 hw =>
    refine ⟨t1, t2, ?_, t4, t5, t6, t7⟩; vac
  | dtor hw =>
    refine ⟨t1, t2, ?_, t4, t5, t6, t7⟩; vac

theorem termInv_worker {s s' : St κ} (h : TermInv s) (hs : WorkerStep s s') : TermInv s' := by
  obtain ⟨t1, t2, t3, t4, t5, t6, t7⟩ := h
  cases hs with
  | held it hw hr =>
    refine ⟨t1, t2, ?_, t4, t5, t6, t7⟩
    intro hst hu hw'
    dsimp only at hw' ⊢
    rcases hw' with h | ⟨it', h, hterm⟩
    · cases h
    · simp at h; subst h
      exact t3 hst hu (.inr ⟨it, hw, by simpa [setReady, Item.isTerm] using hterm⟩)
  | queued i it hq hr =>
    refine ⟨t1, t2, ?_, t4, t5, t6, t7⟩
    intro hst hu hw'
    dsimp only at hw' ⊢
    rw [any_set_ready hq]
    exact t3 hst hu hw'

/-- everything proved about reachable states -/
structure Inv2 (S : CompSpec cfg.comp enc) (s : St κ) : Prop where
  inv1 : Inv1 S s
  term : TermInv s

theorem inv2_step (S : CompSpec cfg.comp enc) {s s' : St κ} {e : Ev} (h : Inv2 S s)
    (hs : step? cfg s e = some s') : Inv2 S s' := by
  refine ⟨inv1_step S h.inv1 hs, ?_⟩
  rcases step_cases hs with h1 | h1 | h1
  · exact termInv_prod h.inv1.prod h.term h1
  · exact termInv_wt h.term h1
  · exact termInv_worker h.term h1

theorem termInv_init {k0 : κ} {os0 : OS} (script : List Api)
    (hd : ∃ ib e, Api.dtor ib e ∈ script) : TermInv (initSt k0 os0 script) := by
  refine ⟨fun _ => rfl, rfl, ?_, ?_, .inr (.inl hd), ?_, ?_⟩
  · intro hst; exact absurd rfl hst
  · intro h; cases h
  · intro ⟨e, he⟩; simp [initSt] at he
  · intro ⟨x, hx, _⟩; simp [initSt] at hx

theorem inv2_reachable (S : CompSpec cfg.comp enc) {k0 : κ} {os0 : OS} {script : List Api}
    (h0 : S.Inv k0 os0 []) (hd : ∃ ib e, Api.dtor ib e ∈ script) {s : St κ}
    (hr : (machine cfg k0 os0 script).Reachable s) : Inv2 S s :=
  Machine.invariant (machine cfg k0 os0 script) (Inv2 S)
    ⟨inv1_init S script h0, termInv_init script hd⟩
    (fun _ _ _ _ hi hs => inv2_step S hi hs) s hr

theorem enabled_of_isSome {s : St κ} (e : Ev) (h : (step? cfg s e).isSome = true) :
    ∃ e s', step? cfg s e = some s' :=
  ⟨e, (step? cfg s e).get h, by simp⟩

/-- **No stuck state**: whenever the Writer has not been destroyed yet, some thread can move. -/
theorem inv2_enabled (S : CompSpec cfg.comp enc) {s : St κ} (h : Inv2 S s) (hnd : s.destroyed = false) :
    ∃ e s', step? cfg s e = some s' := by
  obtain ⟨⟨hw, hp, _⟩, ht⟩ := h
  -- the write thread (or a pool worker on its behalf) can move unless it waits on an empty,
  -- in-use queue or has finished
  have wtMoves : s.wpc ≠ .done → ¬ (s.wpc = .pop ∧ s.inUse = true ∧ s.q = []) →
      ∃ e s', step? cfg s e = some s' := by
    intro hnd' hnb
    rcases hwpc : s.wpc with _ | it | _ | e | e | _ | _ | _
    · -- pop
      by_cases hu : s.inUse = true
      · rcases hq : s.q with _ | ⟨it, rest⟩
        · exact absurd ⟨hwpc, hu, hq⟩ hnb
        · exact enabled_of_isSome .wt (by simp [step?, stepWt, hwpc, hu, hq])
      · exact enabled_of_isSome .wt (by simp [step?, stepWt, hwpc, hu])
    · -- got it
      by_cases hr : it.ready = true
      · rcases hres : it.res with d | e
        · cases d with
          | nil => exact enabled_of_isSome .wt (by simp [step?, stepWt, hwpc, hr, hres])
          | cons b bs =>
            rcases hcw : cfg.comp.write s.comp (b :: bs) s.os with ⟨r, k', os'⟩
            cases r with
            | none => exact enabled_of_isSome .wt (by simp [step?, stepWt, hwpc, hr, hres, hcw])
            | some e => exact enabled_of_isSome .wt (by simp [step?, stepWt, hwpc, hr, hres, hcw])
        · exact enabled_of_isSome .wt (by simp [step?, stepWt, hwpc, hr, hres])
      · exact enabled_of_isSome (.worker none) (by simp [step?, stepWorker, hwpc, hr])
    · rcases hcc : cfg.comp.close s.comp s.os with ⟨r, k', os'⟩
      cases r with
      | none => exact enabled_of_isSome .wt (by simp [step?, stepWt, hwpc, hcc])
      | some e => exact enabled_of_isSome .wt (by simp [step?, stepWt, hwpc, hcc])
    · exact enabled_of_isSome .wt (by simp [step?, stepWt, hwpc])
    · exact enabled_of_isSome .wt (by simp [step?, stepWt, hwpc])
    · exact enabled_of_isSome .wt (by simp [step?, stepWt, hwpc])
    · exact enabled_of_isSome .wt (by simp [step?, stepWt, hwpc])
    · exact absurd hwpc hnd'
  rcases hc : s.cur with _ | a
  · -- no call in progress: the destructor is still ahead
    rcases ht.dtorAhead with h | ⟨ib, e, h⟩ | h
    · rw [hnd] at h; cases h
    · rcases hs : s.script with _ | ⟨a, rest⟩
      · rw [hs] at h; cases h
      · exact enabled_of_isSome .prod (by simp [step?, stepProd, hc, hs])
    · rw [hc] at h; cases h
  · have hfin := ht.busy (by rw [hc]; rfl)
    rcases hcode : s.code with _ | ⟨i, rest⟩
    · rw [hcode] at hfin; cases hfin
    · -- when the producer waits for the write thread, m_status is not okay and the write
      -- thread is not parked on an empty queue
      have notParked : s.status ≠ .okay → i.isFinal = true →
          ¬ (s.wpc = .pop ∧ s.inUse = true ∧ s.q = []) := by
        intro hst hfi ⟨h1, h2, h3⟩
        rcases ht.term hst h2 (.inl h1) with h | h
        · rw [h3] at h; cases h
        · rw [hcode] at h; cases i <;> simp [pendTerm, Instr.isFinal] at h hfi
      cases i with
      | chk =>
        by_cases hst : s.status = .okay
        · exact enabled_of_isSome .prod (by simp [step?, stepProd, hc, hcode, hst])
        · exact enabled_of_isSome .prod (by simp [step?, stepProd, hc, hcode, hst])
      | closeChk =>
        by_cases hst : s.status = .okay
        · exact enabled_of_isSome .prod (by simp [step?, stepProd, hc, hcode, hst])
        · exact enabled_of_isSome .prod (by simp [step?, stepProd, hc, hcode, hst])
      | hdr =>
        by_cases hh : s.headerWritten = true
        · exact enabled_of_isSome .prod (by simp [step?, stepProd, hc, hcode, hh])
        · exact enabled_of_isSome .prod (by simp [step?, stepProd, hc, hcode, hh])
      | setHdr => exact enabled_of_isSome .prod (by simp [step?, stepProd, hc, hcode])
      | poll =>
        by_cases hn : s.notification = true ∧ s.futureValid = true
        · rcases hp' : s.promise with _ | o
          · exact enabled_of_isSome .prod (by simp [step?, stepProd, hc, hcode, hn, hp'])
          · cases o with
            | ok n => exact enabled_of_isSome .prod (by simp [step?, stepProd, hc, hcode, hn, hp'])
            | raised e => exact enabled_of_isSome .prod (by simp [step?, stepProd, hc, hcode, hn, hp'])
        · exact enabled_of_isSome .prod (by simp only [step?, stepProd, hc, hcode, hn, if_false]; rfl)
      | push it =>
        by_cases hu : s.inUse = true
        · by_cases hroom : cfg.qmax ≠ 0 ∧ s.q.length ≥ cfg.qmax
          · -- queue full and in use: the write thread is alive and has something to take
            apply wtMoves
            · intro hd
              have := hw.shut (.inr (.inr hd)); rw [hu] at this; cases this
            · intro ⟨_, _, hq⟩
              rw [hq] at hroom; simp at hroom
          · exact enabled_of_isSome .prod (by simp only [step?, stepProd, hc, hcode, hu, hroom]; rfl)
        · exact enabled_of_isSome .prod (by simp [step?, stepProd, hc, hcode, hu])
      | throw e => exact enabled_of_isSome .prod (by simp [step?, stepProd, hc, hcode])
      | setClosed => exact enabled_of_isSome .prod (by simp [step?, stepProd, hc, hcode])
      | rethrow e => exact enabled_of_isSome .prod (by simp [step?, stepProd, hc, hcode])
      | ret => exact enabled_of_isSome .prod (by simp [step?, stepProd, hc, hcode])
      | futGet =>
        by_cases hv : s.futureValid = true
        · rcases hp' : s.promise with _ | o
          · -- future.get() blocks: the write thread must be able to move
            have hst : s.status ≠ .okay := by
              intro hst; have := ht.okay hst; rw [hcode] at this; cases this
            apply wtMoves
            · intro hd
              have := hw.late (.inr (.inr hd)); rw [hp'] at this; cases this
            · exact notParked hst rfl
          · exact enabled_of_isSome .prod (by simp [step?, stepProd, hc, hcode, hv, hp'])
        · exact enabled_of_isSome .prod (by simp [step?, stepProd, hc, hcode, hv])
      | join =>
        by_cases hd : s.wpc = .done
        · exact enabled_of_isSome .prod (by simp [step?, stepProd, hc, hcode, hd])
        · have hst : s.status ≠ .okay := by
            intro hst; have := ht.okay hst; rw [hcode] at this; cases this
          apply wtMoves hd
          exact notParked hst rfl

end Osmium.WriterSM
