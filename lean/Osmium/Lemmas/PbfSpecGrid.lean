/-
C02, PBF: grid arithmetic of the block parameters (granularity, offsets, date_granularity) and the string-table
layout of the specification encoder.
-/
import Osmium.Lemmas.PbfSpecBase

namespace Osmium.Pbf

open Osmium.Wire Osmium.Osm Osmium.PbfMsg
open Osmium.PbfSpec (Choices)

/-- `convert_pbf_lon/lat` undoes the spec's `stored = (nanodegrees - offset) / granularity` on the grid -/
theorem spec_convCoord_coord (g off c7 : Int) (hg : 0 < g) (hoff : -(2:Int) ^ 61 ≤ off ∧ off ≤ (2:Int) ^ 61)
    (hc : -(2:Int) ^ 31 ≤ c7 ∧ c7 < (2:Int) ^ 31) (hr : CoordRep g off c7) :
    convCoord g off (PbfSpec.coord g off c7) = c7 := by
  have _ := hg
  unfold convCoord PbfSpec.coord wrap64
  have hmul : (100 * c7 - off) / g * g = 100 * c7 - off := Int.ediv_mul_cancel hr
  rw [hmul]
  have h1 : Delta.swrap 64 (100 * c7 - off) = 100 * c7 - off :=
    Delta.swrap64_id _ (by simp only [Int.reducePow] at *; omega) (by simp only [Int.reducePow] at *; omega)
  rw [h1]
  have h2 : Delta.swrap 64 (100 * c7 - off + off) = 100 * c7 :=
    by
      rw [Delta.swrap64_id _ (by simp only [Int.reducePow] at *; omega) (by simp only [Int.reducePow] at *; omega)]
      omega
  rw [h2, Int.mul_tdiv_cancel_left _ (by decide : (100:Int) ≠ 0)]
  unfold toInt32 u64
  simp only [Int.reducePow, Nat.reducePow] at *
  omega

theorem spec_ediv_abs (x g B : Int) (hg : 0 < g) (h1 : -B < x) (h2 : x < B) : -B < x / g ∧ x / g < B := by
  by_cases hx : 0 ≤ x
  · have a := Int.ediv_le_self g hx
    have b := Int.ediv_nonneg hx (Int.le_of_lt hg)
    omega
  · have hx' : x < 0 := by omega
    have a : x / g < 0 := Int.ediv_neg_of_neg_of_pos hx' hg
    have b : x ≤ x / g := by
      rw [Int.le_ediv_iff_mul_le hg]
      have : x * g ≤ x * 1 := Int.mul_le_mul_of_nonpos_left (by omega) (by omega)
      omega
    omega

/-- stored coordinates are far inside int64, so that differences of two of them are int64 values -/
theorem spec_coord_bound (g off c7 : Int) (hg : 0 < g) (hoff : -(2:Int) ^ 61 ≤ off ∧ off ≤ (2:Int) ^ 61)
    (hc : -(2:Int) ^ 31 ≤ c7 ∧ c7 < (2:Int) ^ 31) :
    -(2:Int) ^ 62 < PbfSpec.coord g off c7 ∧ PbfSpec.coord g off c7 < (2:Int) ^ 62 := by
  unfold PbfSpec.coord
  exact spec_ediv_abs _ g _ hg (by simp only [Int.reducePow] at *; omega) (by simp only [Int.reducePow] at *; omega)

theorem spec_stamp_bound (dg : Int) (ts : Nat) (hdg : 0 < dg) (hts : ts < 2 ^ 32) :
    0 ≤ PbfSpec.stamp dg ts ∧ PbfSpec.stamp dg ts < (2:Int) ^ 42 := by
  unfold PbfSpec.stamp
  have hx : (0:Int) ≤ 1000 * (ts : Int) := by omega
  have a := Int.ediv_le_self dg hx
  have b := Int.ediv_nonneg hx (Int.le_of_lt hdg)
  simp only [Int.reducePow, Nat.reducePow] at *
  omega

/-- `set_timestamp(v * date_factor / 1000)` undoes `stored = milliseconds / date_granularity` on the grid -/
theorem spec_convTimestamp_stamp (dg : Int) (ts : Nat) (hdg : 0 < dg ∧ dg < (2:Int) ^ 31) (hts : ts < 2 ^ 32)
    (hr : dg ∣ 1000 * (ts : Int)) : convTimestamp dg (PbfSpec.stamp dg ts) = ts := by
  have _ := hdg
  unfold convTimestamp PbfSpec.stamp wrap64
  have hmul : 1000 * (ts : Int) / dg * dg = 1000 * (ts : Int) := Int.ediv_mul_cancel hr
  rw [hmul]
  rw [Delta.swrap64_id _ (by simp only [Nat.reducePow, Int.reducePow] at *; omega)
    (by simp only [Nat.reducePow, Int.reducePow] at *; omega)]
  rw [Int.mul_tdiv_cancel_left _ (by decide : (1000:Int) ≠ 0)]
  rw [u64_nat ts (by simp only [Nat.reducePow] at *; omega)]
  exact Nat.mod_eq_of_lt hts

theorem spec_idxGo_mem (s : Bytes) : ∀ (l : List Bytes) (k : Nat), s ∈ l →
    k ≤ PbfSpec.idxGo s l k ∧ PbfSpec.idxGo s l k < k + l.length ∧ l[PbfSpec.idxGo s l k - k]? = some s := by
  intro l
  induction l with
  | nil => intro k h; simp at h
  | cons x xs ih =>
    intro k h
    unfold PbfSpec.idxGo
    by_cases hx : x = s
    · simp [hx]
    · simp only [hx, if_false]
      have hm : s ∈ xs := by
        rcases List.mem_cons.1 h with h | h
        · exact absurd h.symm hx
        · exact h
      obtain ⟨a, b, c⟩ := ih (k + 1) hm
      refine ⟨by omega, by simp only [List.length_cons]; omega, ?_⟩
      have : PbfSpec.idxGo s xs (k + 1) - k = (PbfSpec.idxGo s xs (k + 1) - (k + 1)) + 1 := by omega
      rw [this, List.getElem?_cons_succ]
      exact c

/-- every string of an object of the block is found in the block's table at an index ≥ 1 -/
theorem spec_tableFor_ok (ch : Choices) (os : List Object) (ob : Object) (hob : ob ∈ os)
    (hlen : (PbfSpec.tableFor ch os).length ≤ 2 ^ 31) :
    ∀ s ∈ PbfSpec.stringsOf ob, TableOk (PbfSpec.tableFor ch os) s := by
  intro s hs
  have hused : s ∈ os.flatMap PbfSpec.stringsOf := List.mem_flatMap.2 ⟨ob, hob, hs⟩
  unfold TableOk PbfSpec.idx
  generalize hr : ch.tablePrefix ++ os.flatMap PbfSpec.stringsOf ++
    (if ch.tableDup then os.flatMap PbfSpec.stringsOf else []) = rest
  have ht : PbfSpec.tableFor ch os = [] :: rest := by
    unfold PbfSpec.tableFor
    simp only [← hr, List.cons_append, List.append_assoc]
  have hm : s ∈ rest := by
    rw [← hr]
    exact List.mem_append_left _ (List.mem_append_right _ hused)
  rw [ht] at hlen ⊢
  simp only [List.tail_cons]
  obtain ⟨a, b, c⟩ := spec_idxGo_mem s rest 1 hm
  simp only [List.length_cons] at hlen
  refine ⟨by omega, by omega, ?_⟩
  have : PbfSpec.idxGo s rest 1 = (PbfSpec.idxGo s rest 1 - 1) + 1 := by omega
  rw [this, List.getElem?_cons_succ]
  exact c

/-- all table entries respect the string limit -/
theorem spec_tableFor_short (ch : Choices) (hch : ChoicesOk ch) (os : List Object)
    (hs : ∀ ob ∈ os, ∀ s ∈ PbfSpec.stringsOf ob, StrOk s) :
    ∀ s ∈ PbfSpec.tableFor ch os, StrOk s := by
  intro s h
  have hu : ∀ s ∈ os.flatMap PbfSpec.stringsOf, StrOk s := by
    intro s h
    obtain ⟨ob, hob, hsob⟩ := List.mem_flatMap.1 h
    exact hs ob hob s hsob
  unfold PbfSpec.tableFor at h
  simp only [List.cons_append, List.mem_cons, List.mem_append] at h
  rcases h with h | (h | h) | h
  · rw [h]; exact strOk_nil
  · exact hch.pad s h
  · exact hu s h
  · split at h
    · exact hu s h
    · simp at h

end Osmium.Pbf
