/-
C02, PBF: grid arithmetic of the block parameters (granularity, offsets, date_granularity) and the string-table
layout of the specification encoder.
-/
import Osmium.Lemmas.PbfSpecBase

namespace Osmium.Pbf

open Osmium.Wire Osmium.Osm Osmium.PbfMsg
open Osmium.PbfSpec (Choices)

/-- `convert_pbf_lon/lat` undoes the spec's `stored = (nanodegrees - offset) / granularity` on the grid -/
theorem spec_convCoord_coord (g off c7 : Int) (hg : 0 < g) (hoff : -(2:Int) ^ 61 ≤ off ∧ off ≤ (2:Int) ^ 61)
    (hc : -(2:Int) ^ 31 ≤ c7 ∧ c7 < (2:Int) ^ 31) (hr : CoordRep g off c7) :
    convCoord g off (PbfSpec.coord g off c7) = c7 := by
  sorry

/-- stored coordinates are far inside int64, so that differences of two of them are int64 values -/
theorem spec_coord_bound (g off c7 : Int) (hg : 0 < g) (hoff : -(2:Int) ^ 61 ≤ off ∧ off ≤ (2:Int) ^ 61)
    (hc : -(2:Int) ^ 31 ≤ c7 ∧ c7 < (2:Int) ^ 31) :
    -(2:Int) ^ 62 < PbfSpec.coord g off c7 ∧ PbfSpec.coord g off c7 < (2:Int) ^ 62 := by
  sorry

/-- `set_timestamp(v * date_factor / 1000)` undoes `stored = milliseconds / date_granularity` on the grid -/
theorem spec_convTimestamp_stamp (dg : Int) (ts : Nat) (hdg : 0 < dg ∧ dg < (2:Int) ^ 31) (hts : ts < 2 ^ 32)
    (hr : dg ∣ 1000 * (ts : Int)) : convTimestamp dg (PbfSpec.stamp dg ts) = ts := by
  sorry

theorem spec_stamp_bound (dg : Int) (ts : Nat) (hdg : 0 < dg) (hts : ts < 2 ^ 32) :
    0 ≤ PbfSpec.stamp dg ts ∧ PbfSpec.stamp dg ts < (2:Int) ^ 42 := by
  sorry

/-- every string of an object of the block is found in the block's table at an index ≥ 1 -/
theorem spec_tableFor_ok (ch : Choices) (os : List Object) (ob : Object) (hob : ob ∈ os)
    (hlen : (PbfSpec.tableFor ch os).length ≤ 2 ^ 31) :
    ∀ s ∈ PbfSpec.stringsOf ob, TableOk (PbfSpec.tableFor ch os) s := by
  sorry

/-- all table entries respect the string limit -/
theorem spec_tableFor_short (ch : Choices) (hch : ChoicesOk ch) (os : List Object)
    (hs : ∀ ob ∈ os, ∀ s ∈ PbfSpec.stringsOf ob, s.length ≤ 1024) :
    ∀ s ∈ PbfSpec.tableFor ch os, s.length ≤ 1024 := by
  sorry

end Osmium.Pbf
