/-
C13, coordinates: the decimal-arithmetic specification of the parser and the proof that the
arithmetic core of `string_to_location_coordinate` computes it (current code: under the
hypotheses that exclude findings F1 / F14).
-/
import Osmium.Lemmas.ConvCoord
import Osmium.Lemmas.ConvMul
import Osmium.Lemmas.ConvFmt

namespace Osmium.Conv

open IntLemmas (digitsStr valMS valFrom AllDigits NoDigitHead)

/-! ### the specification: exact decimal value, rounded half away from zero to 7 decimals -/

/-- `⌊num/den + 1/2⌋`: rounding half up of a non-negative fraction, in integer arithmetic -/
def roundHalfUp (num den : Nat) : Nat := (2 * num + den) / (2 * den)

/-- `roundHalfUp` is THE integer `r` with `r ≤ num/den + 1/2 < r + 1` -/
theorem roundHalfUp_spec (num den : Nat) (hd : 0 < den) :
    2 * den * roundHalfUp num den ≤ 2 * num + den ∧ 2 * num + den < 2 * den * (roundHalfUp num den + 1) := by
  unfold roundHalfUp
  have h2 : 0 < 2 * den := by omega
  constructor
  · exact Nat.mul_div_le _ _
  · exact Nat.lt_mul_div_succ _ h2

theorem roundHalfUp_unique (num den r : Nat) (hd : 0 < den)
    (h1 : 2 * den * r ≤ 2 * num + den) (h2 : 2 * num + den < 2 * den * (r + 1)) :
    r = roundHalfUp num den := by
  unfold roundHalfUp
  have hpos : 0 < 2 * den := by omega
  have a : r ≤ (2 * num + den) / (2 * den) :=
    (Nat.le_div_iff_mul_le hpos).2 (by rw [Nat.mul_comm r]; exact h1)
  have b : (2 * num + den) / (2 * den) < r + 1 :=
    (Nat.div_lt_iff_lt_mul hpos).2 (by rw [Nat.mul_comm (r + 1)]; exact h2)
  omega

/-- all digits of the mantissa (integer and fraction part) as one number -/
def mant (g : CoordStr) : Nat := valMS (g.ip ++ fracDigits g)

/-- the decimal exponent of `|value| * 10^7 = mant * 10^t7` -/
def t7 (g : CoordStr) : Int := 7 - (fracLen g : Int) + expVal g

/-- `|value| * 10^7` as the fraction `specNum / specDen` -/
def specNum (g : CoordStr) : Nat := mant g * 10 ^ (t7 g).toNat
def specDen (g : CoordStr) : Nat := 10 ^ (-(t7 g)).toNat

/-- the exact decimal value of the string, rounded half away from zero to 7 decimals, in
    units of 10^-7 -/
def specRounded (g : CoordStr) : Int :=
  (if g.neg then -1 else 1) * (roundHalfUp (specNum g) (specDen g) : Int)

/-- what the property demands of the parser on a grammar string -/
def specParse (g : CoordStr) (rest : List UInt8) : Except Err (Int × List UInt8) :=
  if int32Min ≤ specRounded g ∧ specRounded g ≤ int32Max then .ok (specRounded g, rest)
  else .error .invalidLocation

/-- the observable part of the model's result -/
def observe : Except Err CoordOut → Except Err (Int × List UInt8)
  | .error e => .error e
  | .ok o => .ok (o.value, o.rest)

/-! ### arithmetic of the rounding step -/

theorem round_mul (m k : Nat) : (m * 10 ^ (k + 1) + 5) / 10 = roundHalfUp (m * 10 ^ k) 1 := by
  unfold roundHalfUp
  rw [Nat.pow_succ, ← Nat.mul_assoc]
  generalize m * 10 ^ k = x
  omega

theorem round_div (m k : Nat) : (m / 10 ^ k + 5) / 10 = roundHalfUp m (10 ^ (k + 1)) := by
  unfold roundHalfUp
  have hD : 0 < 10 ^ k := Nat.pow_pos (by decide)
  rw [Nat.pow_succ]
  generalize 10 ^ k = D at hD
  have h1 : m / D + 5 = (m + 5 * D) / D := by
    rw [Nat.add_mul_div_right _ _ hD]
  have h2 : 2 * m + D * 10 = 2 * (m + 5 * D) := by omega
  have h3 : 2 * (D * 10) = 2 * (D * 10) := rfl
  rw [h1, Nat.div_div_eq_div_mul, h2, Nat.mul_div_mul_left _ _ (by decide : 0 < 2)]

/-- `⌊|value| * 10^8⌋`: what `result` must hold before the final `(result + 5) / 10` -/
def floor8 (g : CoordStr) : Nat :=
  if 0 ≤ t7 g + 1 then mant g * 10 ^ (t7 g + 1).toNat else mant g / 10 ^ (-(t7 g + 1)).toNat

theorem floor8_round (g : CoordStr) : (floor8 g + 5) / 10 = roundHalfUp (specNum g) (specDen g) := by
  unfold floor8 specNum specDen
  generalize t7 g = t
  by_cases ht : 0 ≤ t
  · have h1 : 0 ≤ t + 1 := by omega
    have h2 : (t + 1).toNat = t.toNat + 1 := by omega
    have h3 : (-t).toNat = 0 := by omega
    rw [if_pos h1, h2, h3, Nat.pow_zero]
    exact round_mul _ _
  · by_cases h1 : 0 ≤ t + 1
    · have ht1 : t = -1 := by omega
      subst ht1
      simp only [if_pos h1]
      have := round_div (mant g) 0
      simpa using this
    · have h2 : (-t).toNat = (-(t + 1)).toNat + 1 := by omega
      have h3 : t.toNat = 0 := by omega
      rw [if_neg h1, h2, h3, Nat.pow_zero, Nat.mul_one]
      exact round_div _ _

/-! ### the final step -/

theorem finishCoord_exact (r : Nat) (hr : r ≤ 9223372036854775802) (neg : Bool) (rest : List UInt8) :
    finishCoord (r : Int) false (if neg then -1 else 1) rest =
      (let res : Int := (if neg then -1 else 1) * (((r + 5) / 10 : Nat) : Int)
       if int32Min ≤ res ∧ res ≤ int32Max then .ok ⟨res, rest, false⟩ else .error .invalidLocation) := by
  have hw : wrap64 ((r : Int) + 5) = (r : Int) + 5 := by unfold wrap64; omega
  have hdiv : Int.tdiv ((r : Int) + 5) 10 = (((r + 5) / 10 : Nat) : Int) := by
    have : ((r : Int) + 5) = ((r + 5 : Nat) : Int) := by omega
    rw [this, Int.tdiv_eq_ediv_of_nonneg (by omega)]
    omega
  unfold finishCoord
  simp only [hw, hdiv, bne_self_eq_false, Bool.or_false, int32Min, int32Max]
  cases neg <;> simp <;> split <;> split <;> first | rfl | omega

/-! ### the current code computes the specification outside F1 / F14 -/

/-- hypothesis excluding F14: no fraction digit beyond the 8th is shifted in front of the 8th
    decimal place by a positive exponent -/
def NoDroppedDigits (g : CoordStr) : Prop := fracLen g ≤ 8 ∨ expVal g ≤ 0

/-- hypothesis excluding F1: the value scaled to 10^-8 units (plus the rounding constant) fits
    an int64, so the scaling loop `result *= 10` does not overflow -/
def NoOverflow (g : CoordStr) : Prop := 0 ≤ t7 g + 1 → mant g * 10 ^ (t7 g + 1).toNat ≤ 9223372036854775802

theorem fracDigits_len (g : CoordStr) : (fracDigits g).length = fracLen g := by
  unfold fracDigits fracLen; cases g.fp <;> rfl

theorem m8_lt (g : CoordStr) (hw : g.WellFormed) (hl : g.ip.length ≤ 10) :
    valMS (g.ip ++ (fracDigits g).take 8) < 10 ^ 18 := by
  have hfd : AllDigits (fracDigits g) := by
    unfold fracDigits
    match h : g.fp with
    | none => intro x hx; simp at hx
    | some f => exact hw.fp f h
  have had : AllDigits (g.ip ++ (fracDigits g).take 8) := by
    intro x hx
    rcases List.mem_append.1 hx with h | h
    · exact hw.ip x h
    · exact hfd x (List.mem_of_mem_take h)
  have := valMS_lt _ had
  have hlen : (g.ip ++ (fracDigits g).take 8).length ≤ 18 := by
    simp [List.length_take]; omega
  exact Nat.lt_of_lt_of_le this (Nat.pow_le_pow_right (by decide) hlen)

theorem coordCore_current (g : CoordStr) (hw : g.WellFormed) (hl : g.ip.length ≤ 10)
    (hA : NoDroppedDigits g) (hB : NoOverflow g) (rest : List UInt8) :
    coordCore Variant.old g.neg (valMS (g.ip ++ (fracDigits g).take 8)) (8 - fracLen g)
        (digitsStr ((fracDigits g).drop 8)) (expVal g) rest
      = finishCoord (floor8 g : Int) false (if g.neg then -1 else 1) rest := by
  have hfd : AllDigits (fracDigits g) := by
    unfold fracDigits
    match h : g.fp with
    | none => intro x hx; simp at hx
    | some f => exact hw.fp f h
  have hm8 := valMS_take g.ip (fracDigits g) hfd 8
  rw [fracDigits_len] at hm8
  have hm8lt := m8_lt g hw hl
  unfold coordCore
  simp only []
  unfold floor8 NoOverflow t7 at *
  unfold NoDroppedDigits at hA
  generalize hmant : mant g = M at *
  have hM : valMS (g.ip ++ fracDigits g) = M := hmant
  rw [hM] at hm8
  generalize valMS (g.ip ++ (fracDigits g).take 8) = m8 at *
  generalize expVal g = e at *
  generalize fracLen g = lf at *
  by_cases hlf : lf ≤ 8
  · -- all fraction digits are significant: m8 = M, scale = t8
    have h0 : lf - 8 = 0 := by omega
    rw [h0, Nat.pow_zero, Nat.div_one] at hm8
    subst hm8
    have hsc : ((8 - lf : Nat) : Int) + e = 7 - (lf : Int) + e + 1 := by omega
    rw [hsc]
    by_cases hneg : 7 - (lf : Int) + e + 1 < 0
    · have hn2 : ¬ (0 ≤ 7 - (lf : Int) + e + 1) := by omega
      have hk : (7 - (lf : Int) + e + 1).natAbs = (-(7 - (lf : Int) + e + 1)).toNat := by omega
      rw [if_pos hneg, if_neg hn2, divLoop_eq, hk]
    · have hn2 : 0 ≤ 7 - (lf : Int) + e + 1 := by omega
      rw [if_neg hneg, if_pos hn2]
      have hb := hB hn2
      rw [mulLoop_current_exact _ _ _ _ (by omega)]
  · -- more than 8 fraction digits, exponent ≤ 0: scale = e
    have he : e ≤ 0 := by rcases hA with h | h <;> omega
    have hsc : ((8 - lf : Nat) : Int) + e = e := by omega
    have hn2 : ¬ (0 ≤ 7 - (lf : Int) + e + 1) := by omega
    rw [hsc, if_neg hn2]
    by_cases hneg : e < 0
    · rw [if_pos hneg, divLoop_eq, hm8, Nat.div_div_eq_div_mul, ← Nat.pow_add]
      have : lf - 8 + e.natAbs = (-(7 - (lf : Int) + e + 1)).toNat := by omega
      rw [this]
    · have he0 : e = 0 := by omega
      subst he0
      rw [if_neg hneg]
      have : (0 : Int).toNat = 0 := rfl
      rw [this, mulLoop_current_exact 0 m8 false _ (by omega)]
      simp only [Nat.pow_zero, Nat.mul_one, hm8]
      have : lf - 8 = (-(7 - (lf : Int) + 0 + 1)).toNat := by omega
      rw [this]

theorem floor8_le (g : CoordStr) (hw : g.WellFormed) (hl : g.ip.length ≤ 10)
    (hA : NoDroppedDigits g) (hB : NoOverflow g) : floor8 g ≤ 9223372036854775802 := by
  unfold floor8
  by_cases h : 0 ≤ t7 g + 1
  · rw [if_pos h]; exact hB h
  · rw [if_neg h]
    -- a quotient of the mantissa by at least 10^(lf-8), i.e. at most the 18-digit prefix
    have hfd : AllDigits (fracDigits g) := by
      unfold fracDigits
      match h : g.fp with
      | none => intro x hx; simp at hx
      | some f => exact hw.fp f h
    have hm8 := valMS_take g.ip (fracDigits g) hfd 8
    rw [fracDigits_len] at hm8
    have hm8lt := m8_lt g hw hl
    rw [hm8] at hm8lt
    have hk : fracLen g - 8 ≤ (-(t7 g + 1)).toNat := by
      unfold t7 NoDroppedDigits at *
      rcases hA with h1 | h1 <;> omega
    have : mant g / 10 ^ (-(t7 g + 1)).toNat ≤ mant g / 10 ^ (fracLen g - 8) :=
      Nat.div_le_div_left (Nat.pow_le_pow_right (by decide) hk) (Nat.pow_pos (by decide))
    unfold mant at *
    omega

end Osmium.Conv
