import Osmium.Lemmas.PipelineCompleteN2

set_option linter.unusedSimpArgs false
set_option linter.unusedVariables false

namespace Osmium.Pipeline
open Osmium.Mon
variable {α : Type} [DecidableEq α]
namespace Complete

set_option maxHeartbeats 1600000 in
theorem invN3 (c : Cfg α) : ∀ s, (machine c).Reachable s → InvN3 s := by
  apply Machine.invariant
  · constructor <;> simp [machine, init, QueueSM.init]
  · intro s e s' hr ih hst
    have hf := (invN2 c s hr).n_ppcf
    obtain ⟨h1, h2, h3⟩ := ih
    pc_cases e with hst
    all_goals (refine ⟨?_, ?_, ?_⟩ <;> first
      | assumption
      | (simp only [QueueSM.take_called]; assumption)
      | (simp_all [setPc_apply, pCont, rCont]; done)
      | (simp only [setPc_apply, QueueSM.take_called, pCont, rCont]; grind)
      | skip)

end Complete
end Osmium.Pipeline
