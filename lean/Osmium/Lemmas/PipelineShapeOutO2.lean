/-
Transfer lemmas for the second half of the osmdata-queue shape invariant (`InvO2`: o_last, o_fin,
o_clean, o_push): `L1` (the parser does not move / moves inside its final phase), `L2` (the parser
moves before its end marker is handed to push()), `L5` (push() is called).  The inductive proof
`invO2` built on them is in PipelineShapeOutO3.lean.
-/
import Osmium.Lemmas.PipelineShapeOutO1

set_option linter.unusedSimpArgs false
set_option linter.unusedVariables false

namespace Osmium.Pipeline
open Osmium.Mon
variable {α : Type} [DecidableEq α]
namespace Complete

omit [DecidableEq α] in
@[simp] theorem pFin_pushing (id : Nat) (ov : Option (Val α)) (k : PK) : pFin (.pushing id ov k : PPc α) ↔ k = .dtor := by
  cases k <;> simp [pFin]
omit [DecidableEq α] in
@[simp] theorem pFin_pushed (id : Nat) (v : Val α) (k : PK) : pFin (.pushed id v k : PPc α) ↔ k = .dtor := by
  cases k <;> simp [pFin]
omit [DecidableEq α] in
@[simp] theorem pFin_sdIn (k : PK) : pFin (.sdIn k : PPc α) ↔ k = .exit := by
  cases k <;> simp [pFin]
omit [DecidableEq α] in
@[simp] theorem pFin_sdInRun (k : PK) : pFin (.sdInRun k : PPc α) ↔ k = .exit := by
  cases k <;> simp [pFin]

omit [DecidableEq α] in
@[simp] theorem pFin_pCont (k : PK) : pFin (pCont k : PPc α) ↔ (k = .dtor ∨ k = .exit) := by
  cases k <;> simp [pFin, pCont]
omit [DecidableEq α] in
theorem pCont_push (k k' : PK) (h : (pCont k : PPc α) = .push .eod k') : k = .eodNext := by
  cases k <;> simp [pCont] at h ⊢

omit [DecidableEq α] in
theorem outExc_of_pushed (s : State α) (hN : InvN s)
    (g1 : ∀ v k, (s.ppc = .push v k ∨ (∃ id, s.ppc = .pushing id (some v) k) ∨ (∃ id, s.ppc = .pushed id v k)) →
      (k = .eodNext → isExc v) ∧ (v = .eod → k = .dtor))
    (id : Nat) (v : Val α) (k : PK) (h : s.ppc = .pushed id v k) (hk : k = .eodNext) : OutExc s := by
  obtain ⟨y, hy, rfl⟩ := hN.n_pin2 id v k h
  exact ⟨y, hy, by rw [(hN.n_ppc _ v k (.inr h)).2.2]; exact (g1 v k (.inr (.inr ⟨_, h⟩))).1 hk⟩

structure InvO2 (c : Cfg α) (s : State α) : Prop where
  o_last : ∀ y ∈ s.outq.called.dropLast, s.want y.2 ≠ .eod
  o_fin : OutEod s → pFin s.ppc
  o_clean : OutEod s → OutExc s ∨ CleanEnd c s
  o_push : ∀ k, s.ppc = .push .eod k → OutExc s ∨ CleanEnd c s

omit [DecidableEq α] in
theorem outEod_back (s s' : State α) (hc : s'.outq.called = s.outq.called)
    (hw : ∀ y ∈ s.outq.called, s'.want y.2 = s.want y.2) (h : OutEod s') : OutEod s := by
  obtain ⟨y, hy, he⟩ := h
  rw [hc] at hy
  exact ⟨y, hy, by rw [← hw y hy]; exact he⟩

omit [DecidableEq α] in
theorem outExc_fwd (s s' : State α) (hc : ∀ y ∈ s.outq.called, y ∈ s'.outq.called)
    (hw : ∀ y ∈ s.outq.called, s'.want y.2 = s.want y.2) (h : OutExc s) : OutExc s' := by
  obtain ⟨y, hy, he⟩ := h
  exact ⟨y, hc y hy, by rw [hw y hy]; exact he⟩

omit [DecidableEq α] in
theorem cleanEnd_fwd (c : Cfg α) (s s' : State α) (h1 : s'.cur = s.cur) (h2 : s'.nested = s.nested) (h3 : s'.next = s.next)
    (h4 : s'.avail = s.avail) (h5 : s'.inputDone = s.inputDone)
    (h6 : s'.outq.inUse = s.outq.inUse ∨ s'.outq.inUse = false) (h : CleanEnd c s) : CleanEnd c s' := by
  unfold CleanEnd at *
  rw [h1, h2, h3, h4, h5]
  rcases h6 with h6 | h6 <;> rw [h6] <;> simp_all

omit [DecidableEq α] in
theorem last_keep (s s' : State α) (hc : s'.outq.called = s.outq.called)
    (hw : ∀ y ∈ s.outq.called, s'.want y.2 = s.want y.2) (h : ∀ y ∈ s.outq.called.dropLast, s.want y.2 ≠ .eod) :
    ∀ y ∈ s'.outq.called.dropLast, s'.want y.2 ≠ .eod := by
  intro y hy
  rw [hc] at hy
  rw [hw y (List.dropLast_subset _ hy)]
  exact h y hy

/-- L1: the parser does not move -/
theorem L1 (c : Cfg α) (s s' : State α) (hc : s'.outq.called = s.outq.called)
    (hw : ∀ y ∈ s.outq.called, s'.want y.2 = s.want y.2) (hp : s'.ppc = s.ppc ∨ (pFin s.ppc ∧ pFin s'.ppc))
    (h1 : s'.cur = s.cur) (h2 : s'.nested = s.nested) (h3 : s'.next = s.next)
    (h4 : s'.avail = s.avail) (h5 : s'.inputDone = s.inputDone)
    (h6 : s'.outq.inUse = s.outq.inUse ∨ s'.outq.inUse = false) (ih : InvO2 c s) : InvO2 c s' := by
  have hX : OutExc s ∨ CleanEnd c s → OutExc s' ∨ CleanEnd c s' := fun h => h.elim
    (fun h => .inl (outExc_fwd s s' (by rw [hc]; exact fun _ h => h) hw h))
    (fun h => .inr (cleanEnd_fwd c s s' h1 h2 h3 h4 h5 h6 h))
  refine ⟨last_keep s s' hc hw ih.o_last, fun h => ?_, fun h => hX (ih.o_clean (outEod_back s s' hc hw h)), fun k hk => ?_⟩
  · have := ih.o_fin (outEod_back s s' hc hw h)
    rcases hp with hp | hp
    · rw [hp]; exact this
    · exact hp.2
  · rcases hp with hp | hp
    · exact hX (ih.o_push k (by rw [← hp]; exact hk))
    · have := hp.2; rw [hk] at this; simp [pFin] at this

/-- L2/L4: the parser moves before its end marker is handed to push() -/
theorem L2 (c : Cfg α) (s s' : State α) (hc : s'.outq.called = s.outq.called)
    (hw : ∀ y ∈ s.outq.called, s'.want y.2 = s.want y.2) (hnf : ¬ pFin s.ppc)
    (hp' : ∀ k, s'.ppc = .push .eod k → OutExc s' ∨ CleanEnd c s') (ih : InvO2 c s) : InvO2 c s' :=
  ⟨last_keep s s' hc hw ih.o_last, fun h => absurd (ih.o_fin (outEod_back s s' hc hw h)) hnf,
   fun h => absurd (ih.o_fin (outEod_back s s' hc hw h)) hnf, hp'⟩

/-- L5: push() is called -/
theorem L5 (c : Cfg α) (s s' : State α) (z : QueueSM.Item Nat) (hc : s'.outq.called = s.outq.called ++ [z])
    (hw : ∀ y ∈ s.outq.called, s'.want y.2 = s.want y.2) (hnf : ¬ pFin s.ppc)
    (hz : s'.want z.2 = .eod → pFin s'.ppc ∧ (OutExc s ∨ CleanEnd c s'))
    (hp' : ∀ k, s'.ppc ≠ .push .eod k) (ih : InvO2 c s) : InvO2 c s' := by
  have hno : ∀ y ∈ s.outq.called, s.want y.2 ≠ .eod := fun y hy he => hnf (ih.o_fin ⟨y, hy, he⟩)
  have hE : OutEod s' → s'.want z.2 = .eod := by
    rintro ⟨y, hy, he⟩
    rw [hc, List.mem_append, List.mem_singleton] at hy
    rcases hy with hy | hy
    · rw [hw y hy] at he; exact absurd he (hno y hy)
    · rw [← hy]; exact he
  refine ⟨?_, fun h => (hz (hE h)).1, fun h => ?_, fun k hk => absurd hk (hp' k)⟩
  · intro y hy
    rw [hc, List.dropLast_concat] at hy
    rw [hw y hy]; exact hno y hy
  · rcases (hz (hE h)).2 with h1 | h1
    · exact .inl (outExc_fwd s s' (by rw [hc]; exact fun _ h => List.mem_append_left _ h) hw h1)
    · exact .inr h1


end Complete
end Osmium.Pipeline
