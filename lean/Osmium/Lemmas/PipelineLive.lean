/-
Progress (C07): no API call of the consumer can get stuck — in every reachable state in which a
call is in progress some internal step of the pipeline is enabled, also in the adversarial
condition-variable model without spurious wake-ups.

Top-level module of the progress proof; the parts:
* PipelineLiveBase   — pc correspondence `Live.pcInv`, `read_thread_enabled`, `Live.hdrSet`,
                       `Live.worker_enabled`, `Live.parser_enabled_or_waiting`, `no_stuck_state_partial`
                       (from the six facts `RunData`, `Typed`, `InqFutReady`, `InqMarker`, `OutqMarker`,
                       `OutFutReady` as hypotheses)
* PipelineLiveIds    — future ids (`Live.n_rpc`, `Live.n_ppc`, `Live.n_work`, `Live.n_fut`)
* PipelineLiveTyped  — `Live.typed`, `Live.out_fut_ready` (invariants over all reachable states)
* PipelineLiveData   — `Live.run_data` (needs `Cfg.WF`, in particular `chunk_blob` and `chunk_mono`; `next ≤ avail`
                       from the FIFO invariants `ShapeIn.invP` / `ShapeIn.pget_chunk` of the input queue)
* PipelineLiveMarker — `Live.outq_marker`
* PipelineShapeIn    — `inq_marker`, `inq_fut_ready`, `avail_le` (input side)
-/
import Osmium.Lemmas.PipelineLiveBase
import Osmium.Lemmas.PipelineLiveTyped
import Osmium.Lemmas.PipelineLiveData
import Osmium.Lemmas.PipelineLiveMarker
import Osmium.Lemmas.PipelineShapeIn

namespace Osmium.Pipeline

open Osmium.Mon

variable {α : Type} [DecidableEq α]

/-- `_partial` (kept for reference): `no_stuck_state'` from `Live.AvailMono c` (`next ≤ avail` in every
    reachable state) as a hypothesis; `Live.availMono` proves it. -/
theorem no_stuck_state'_partial (c : Cfg α) (wf : c.WF) (hmono : Live.AvailMono c) (s : State α)
    (h : (machine c).Reachable s) (i4 : Live.OutqMarker s) (h1 : s.cpc ≠ .idle) (h2 : s.cpc ≠ .dead) :
    ∃ e s', e.isCall = false ∧ (machine c).Step s e s' :=
  no_stuck_state_partial c wf s h (Live.run_data_partial c wf hmono s h) (Live.typed c s h) (inq_fut_ready c s h)
    (inq_marker c s h) i4 (Live.out_fut_ready c s h) h1 h2

/-- C07 `no_stuck_state` with the osmdata-queue marker fact as a hypothesis. -/
theorem no_stuck_state' (c : Cfg α) (wf : c.WF) (s : State α) (h : (machine c).Reachable s)
    (i4 : Live.OutqMarker s) (h1 : s.cpc ≠ .idle) (h2 : s.cpc ≠ .dead) :
    ∃ e s', e.isCall = false ∧ (machine c).Step s e s' :=
  no_stuck_state_partial c wf s h (Live.run_data c wf s h) (Live.typed c s h) (inq_fut_ready c s h)
    (inq_marker c s h) i4 (Live.out_fut_ready c s h) h1 h2

/-- C07 `no_stuck_state`: in every reachable state of the pipeline of a well-formed configuration in
    which an API call is in progress (the consumer is neither between calls nor destructed) some
    internal step of the pipeline is enabled. -/
theorem no_stuck_state (c : Cfg α) (wf : c.WF) (s : State α) (h : (machine c).Reachable s)
    (h1 : s.cpc ≠ .idle) (h2 : s.cpc ≠ .dead) :
    ∃ e s', e.isCall = false ∧ (machine c).Step s e s' :=
  no_stuck_state' c wf s h (Live.outq_marker c s h) h1 h2

/-- the same from `Live.AvailMono` (kept: earlier name) -/
theorem no_stuck_state_of_mono (c : Cfg α) (wf : c.WF) (hmono : Live.AvailMono c) (s : State α)
    (h : (machine c).Reachable s) (h1 : s.cpc ≠ .idle) (h2 : s.cpc ≠ .dead) :
    ∃ e s', e.isCall = false ∧ (machine c).Step s e s' :=
  no_stuck_state'_partial c wf hmono s h (Live.outq_marker c s h) h1 h2

end Osmium.Pipeline
