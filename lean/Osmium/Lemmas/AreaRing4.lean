/-
C10 stage C — orientation and the first ring of the simple case.

* every ring `add_new_ring` stores has been through `fix_direction()`: outer rings have a
  non-negative shoelace sum (counter-clockwise), inner rings a non-positive one (clockwise) —
  whatever `find_enclosing_ring` answered;
* on a SORTED segment list `m_locations` starts with `(0, false)`, so the first ring is built from
  the overall minimum segment, `find_enclosing_ring` is not even asked, and that ring is outer.

Which ring an inner ring is attached to is decided by `find_enclosing_ring`, which compares
`double`s: modelled executably (`findEnclosingRing`, checked against the real code by the
correspondence stream) and deliberately absent from these theorems.
-/
import Osmium.Lemmas.AreaRing3
import Osmium.Lemmas.AreaList

namespace Osmium.Area

/-! ## orientation -/

theorem ringOf_rev (segs : List Seg) (r : List SLoc) : ringOf segs (revEntries r) = Ring.reverse (ringOf segs r) := by
  simp [ringOf, revEntries, Ring.reverse, List.map_reverse, SLoc.flip, DSeg.flip, Function.comp_def]

theorem ringOf_fix (segs : List Seg) (r : List SLoc) (o : Bool) :
    ringOf segs (fixEntries segs r o) = (ringOf segs r).fixDirection o := by
  unfold fixEntries Ring.fixDirection
  split
  · exact ringOf_rev segs r
  · rfl

/-- what `fix_direction()` establishes -/
def Oriented (segs : List Seg) (r : PRing) : Prop :=
  (r.outer = none → 0 ≤ (ringOf segs r.segs).sum) ∧ (r.outer ≠ none → (ringOf segs r.segs).sum ≤ 0)

theorem oriented_fix (segs : List Seg) (cur : List SLoc) (o : Option Nat) :
    Oriented segs ⟨fixEntries segs cur o.isNone, o⟩ := by
  unfold Oriented
  simp only [ringOf_fix]
  unfold Ring.fixDirection Ring.isCw
  constructor
  · intro ho
    subst ho
    by_cases h : (ringOf segs cur).sum ≤ 0
    · simp only [h, decide_true, Option.isNone_none, BEq.rfl, if_true, shoelace_reverse]; omega
    · simp only [h, decide_false, Option.isNone_none]
      have : (false == true) = false := rfl
      simp only [this, Bool.false_eq_true, if_false]; omega
  · intro ho
    have hn : o.isNone = false := by
      cases o with
      | none => exact absurd rfl ho
      | some _ => rfl
    by_cases h : (ringOf segs cur).sum ≤ 0
    · simp only [h, decide_true, hn]
      have : (true == false) = false := rfl
      simp only [this, Bool.false_eq_true, if_false]; exact h
    · simp only [h, decide_false, hn, BEq.rfl, if_true, shoelace_reverse]; omega

/-- every ring `add_new_ring` appends has the shape `fix_direction` gives it -/
theorem addNewRing_shape (enc : Enclosing) (segs : List Seg) (locs : List SLoc) (rings : List PRing)
    (ds : List Nat) (node : SLoc) (rings' : List PRing) (ds' : List Nat) (k : Nat)
    (h : addNewRing enc segs locs rings ds node = some (rings', ds', k)) :
    ∃ ring, rings' = rings ++ [ring] ∧ Oriented segs ring ∧ node.item ∈ ringItems ring.segs ∧
      (node.item = 0 → ring.outer = none) := by
  unfold addNewRing at h
  split at h
  · cases h
  · next outer henc =>
    split at h
    · cases h
    · next dsx cur hrun =>
      simp only [Option.some.injEq, Prod.mk.injEq] at h
      refine ⟨_, h.1.symm, oriented_fix segs cur outer, ?_, ?_⟩
      · -- the ring starts with `node`; the loop only appends
        have hpre : ∀ (fuel : Nat) (first last : Vec) (d : List Nat) (c : List SLoc) d' c',
            ringLoop segs locs fuel first last d c = some (d', c') → ∃ ext, c' = c ++ ext := by
          intro fuel
          induction fuel with
          | zero =>
            intro first last d c d' c' hr
            simp only [ringLoop] at hr
            split at hr
            · simp only [Option.some.injEq, Prod.mk.injEq] at hr; exact ⟨[], by simp [hr.2]⟩
            · cases hr
          | succ fuel ih =>
            intro first last d c d' c' hr
            simp only [ringLoop] at hr
            split at hr
            · simp only [Option.some.injEq, Prod.mk.injEq] at hr; exact ⟨[], by simp [hr.2]⟩
            · split at hr
              · cases hr
              · obtain ⟨ext, he⟩ := ih _ _ _ _ _ _ hr
                exact ⟨_, by rw [he, List.append_assoc]⟩
        obtain ⟨ext, he⟩ := hpre _ _ _ _ _ _ _ hrun
        exact (ringItems_fix_perm segs _ _).mem_iff.mpr (by rw [he]; simp [ringItems])
      · intro h0
        simp only [h0, bne_self_eq_false, Bool.false_eq_true, if_false, Option.some.injEq] at henc
        exact henc.symm

/-- the loop of `create_rings_simple_case` only appends rings, each oriented by `fix_direction`;
    if it starts a ring at all, the first ring it appends contains the segment of the first
    slocation that is not done -/
theorem simpleFor_shape (enc : Enclosing) (segs : List Seg) (locs : List SLoc) :
    ∀ (rest : List SLoc) (rings : List PRing) (ds : List Nat) (cnt : Int) (rings' : List PRing) (ds' : List Nat),
    simpleFor enc segs locs rest rings ds cnt = some (rings', ds') →
    ∃ more, rings' = rings ++ more ∧ ∀ r ∈ more, Oriented segs r := by
  intro rest
  induction rest with
  | nil =>
    intro rings ds cnt rings' ds' h
    simp only [simpleFor, Option.some.injEq, Prod.mk.injEq] at h
    exact ⟨[], by simp [h.1], by simp⟩
  | cons sl rest ih =>
    intro rings ds cnt rings' ds' h
    simp only [simpleFor] at h
    split at h
    · exact ih _ _ _ _ _ h
    · split at h
      · cases h
      · next r1 d1 k hadd =>
        obtain ⟨ring, hr1, hor, _, _⟩ := addNewRing_shape enc segs locs rings ds sl r1 d1 k hadd
        split at h
        · simp only [Option.some.injEq, Prod.mk.injEq] at h
          refine ⟨[ring], by rw [← h.1, hr1], ?_⟩
          intro r hr; simp only [List.mem_cons, List.not_mem_nil, or_false] at hr; subst hr; exact hor
        · obtain ⟨more, hm, hmo⟩ := ih _ _ _ _ _ h
          refine ⟨ring :: more, by rw [hm, hr1]; simp, ?_⟩
          intro r hr
          rcases List.mem_cons.mp hr with rfl | hr
          · exact hor
          · exact hmo r hr

/-! ## the first ring -/

/-- in a sorted segment list the first segment starts in the smallest location -/
theorem sorted_first_min (segs : List Seg) (hw : WfSegs segs) (hs : SortedSegs segs) (hne : 0 < segs.length)
    (x : SLoc) (hx : x.item < segs.length) :
    (x.loc segs).lt ((⟨0, false⟩ : SLoc).loc segs) = false := by
  have h0 : (⟨0, false⟩ : SLoc).loc segs = (segs[0]).first := by simp [SLoc.loc, segAt_eq segs 0 hne]
  rw [h0]
  -- first of segment x.item is not smaller than first of segment 0
  have hfirst : ((segs[x.item]).first).lt (segs[0]).first = false := by
    by_cases hi : x.item = 0
    · simp only [hi]; exact vec_lt_irrefl _
    · have hlt := List.pairwise_iff_getElem.mp hs 0 x.item hne hx (by omega)
      by_cases he : (segs[x.item]).first = (segs[0]).first
      · rw [he]; exact vec_lt_irrefl _
      · rw [seg_lt_ne_first _ _ he] at hlt; exact hlt
  have hwf : ((segs[x.item]).first).lt (segs[x.item]).second = true := hw _ (List.getElem_mem hx)
  unfold SLoc.loc
  rw [segAt_eq segs _ hx]
  cases x.reverse with
  | false => simpa using hfirst
  | true =>
    simp only [if_true]
    cases hc : ((segs[x.item]).second).lt (segs[0]).first with
    | false => rfl
    | true => rw [vec_lt_trans _ _ _ hwf hc] at hfirst; exact absurd hfirst (by decide)

/-- `m_locations` of a sorted segment list starts with the first end of the first segment -/
theorem locationsList_head (segs : List Seg) (hw : WfSegs segs) (hs : SortedSegs segs) (hne : 0 < segs.length) :
    ∃ t, locationsList segs = ⟨0, false⟩ :: t := by
  have hmem : (⟨0, false⟩ : SLoc) ∈ locationsList segs := (mem_locationsList segs _).mpr hne
  match hl : locationsList segs, hmem with
  | h :: t, hmem =>
    refine ⟨t, ?_⟩
    rcases List.mem_cons.mp hmem with e | hin
    · rw [← e]
    · exfalso
      have hst := locations_stable segs
      rw [hl] at hst
      unfold StableSorted at hst
      have := (List.pairwise_cons.mp hst).1 _ hin
      have hh : h.item < segs.length := (mem_locationsList segs h).mp (by rw [hl]; exact List.mem_cons_self)
      rcases this with h1 | ⟨_, h1⟩
      · rw [sorted_first_min segs hw hs hne h hh] at h1; exact absurd h1 (by decide)
      · unfold SLoc.before at h1
        simp at h1

/-- on a sorted, non-empty segment list the first ring is an outer ring that contains segment 0
    (the overall minimum segment) -/
theorem first_ring_outer_of (enc : Enclosing) (segs : List Seg) (hw : WfSegs segs) (hs : SortedSegs segs)
    (hne : 0 < segs.length) (rings : List PRing) (ds : List Nat)
    (h : createRingsSimple enc segs = some (rings, ds)) :
    ∃ r more, rings = r :: more ∧ r.outer = none ∧ 0 ∈ ringItems r.segs := by
  obtain ⟨t, ht⟩ := locationsList_head segs hw hs hne
  unfold createRingsSimple at h
  rw [ht] at h
  simp only [simpleFor, List.contains_nil, Bool.false_eq_true, if_false] at h
  split at h
  · cases h
  · next r1 d1 k hadd =>
    obtain ⟨ring, hr1, _, hin, hout⟩ := addNewRing_shape enc segs _ [] [] ⟨0, false⟩ r1 d1 k hadd
    split at h
    · simp only [Option.some.injEq, Prod.mk.injEq] at h
      exact ⟨ring, [], by rw [← h.1, hr1]; rfl, hout rfl, hin⟩
    · obtain ⟨more, hm, _⟩ := simpleFor_shape enc segs _ _ _ _ _ _ _ h
      exact ⟨ring, more, by rw [hm, hr1]; rfl, hout rfl, hin⟩

end Osmium.Area
