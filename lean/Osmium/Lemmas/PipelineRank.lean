/-
Ranking function of the Reader pipeline (C07 progress): between two API calls of the client every
run makes at most `rank` many internal steps that are not busy-wait iterations.

* `rank_decreases`: every step of a reachable state that is neither the start of an API call
  (`Ev.isCall`) nor a busy-wait iteration (`isStutter`) strictly decreases `rank`;
* `rank_stutter`: a busy-wait iteration leaves `rank` unchanged.

Busy-wait iterations are exactly: `pushSize` seeing a full bounded queue (→ `pushMustWait`), the end
of the 10 ms timed wait (`pushFullWaited`, → `pushPolling`), and a consumer that wakes up with a
false predicate (`popRewait`).  They end when the other side of the queue moves (fairness and the
timed wait are the assumptions of the progress argument); everything else is bounded by `rank`.
Together with "no stuck state" (PipelineLive.lean) every API call returns.

No configuration hypothesis is needed (not even `Cfg.WF`): the only invariant used is that a thread
that runs a pool job is one of `c.workers` (`Rank.wpc_workers`).
-/
import Osmium.Lemmas.PipelineRankT

set_option linter.unusedSimpArgs false
set_option linter.unusedVariables false

namespace Osmium.Pipeline

open Osmium.Mon

variable {α : Type} [DecidableEq α]

namespace Rank

omit [DecidableEq α] in
theorem afterPop_wpc (s : State α) (lv : List (List α)) : (afterPop s lv).wpc = s.wpc := by
  unfold afterPop; split <;> (try split) <;> rfl
omit [DecidableEq α] in
theorem afterClose_wpc (s : State α) (k : CK) : (afterClose s k).wpc = s.wpc := by cases k <;> rfl

/-- only pool workers run jobs -/
theorem step_wpc (c : Cfg α) (s s' : State α) (e : Ev α) (hst : step? c s e = some s')
    (ih : ∀ w, s.wpc w ≠ none → w ∈ c.workers) : ∀ w, s'.wpc w ≠ none → w ∈ c.workers := by
  cases e <;> (try (rename_i qe; cases qe)) <;>
    simp only [step?] at hst <;> (repeat' split at hst) <;>
    simp only [Option.map_eq_some_iff, Option.some.injEq, reduceCtorEq, false_and, exists_false] at hst <;>
    first
      | (obtain ⟨q, hq, hst⟩ := hst; (repeat' split at hst) <;> subst hst <;> exact ih)
      | (subst hst; first
          | exact ih
          | (simp only [afterPop_wpc, afterClose_wpc]; exact ih)
          | (intro u hu
             simp only [setPc_apply] at hu
             split at hu
             · simp_all
             · exact ih u hu))

theorem wpc_workers (c : Cfg α) : ∀ s, (machine c).Reachable s → ∀ w, s.wpc w ≠ none → w ∈ c.workers := by
  apply Machine.invariant
  · simp [machine, init]
  · intro s e s' _ ih hst
    exact step_wpc c s s' e hst ih

end Rank

open Rank in
/-- Every internal step that is not a busy-wait iteration strictly decreases the rank. -/
theorem rank_decreases (c : Cfg α) (s s' : State α) (e : Ev α) (h : (machine c).Reachable s)
    (hst : (machine c).Step s e s') (hc : e.isCall = false) (hs : isStutter c s e = false) :
    rank c s' < rank c s := by
  simp only [Machine.Step, machine] at hst
  cases e with
  | qi e => exact dec_qi c s s' e hst hs
  | qo e => exact dec_qo c s s' e hst hs
  | rTestDone saw => exact dec_rTestDone c s s' saw hst
  | rRead v => exact dec_rRead c s s' v hst
  | rCloseDec ok => exact dec_rCloseDec c s s' ok hst
  | rSet => exact dec_rSet c s s' hst
  | pInUse saw => exact dec_pInUse c s s' saw hst
  | pGet v => exact dec_pGet c s s' v hst
  | pHeader => exact dec_pHeader c s s' hst
  | pObj g => exact dec_pObj c s s' g hst
  | pThrow => exact dec_pThrow c s s' hst
  | pFlushNested => exact dec_pFlushNested c s s' hst
  | pNewBuf => exact dec_pNewBuf c s s' hst
  | pFlushFinal => exact dec_pFlushFinal c s s' hst
  | pRunEnd => exact dec_pRunEnd c s s' hst
  | pBlob sp => exact dec_pBlob c s s' sp hst
  | pCatch => exact dec_pCatch c s s' hst
  | pSet => exact dec_pSet c s s' hst
  | wStart w => exact dec_wStart c s s' w hst
  | wDone w => exact dec_wDone c s s' w (wpc_workers c s h) hst
  | cHeader => cases hc
  | cHeaderGet => exact dec_cHeaderGet c s s' hst
  | cRead => cases hc
  | cInUse saw => exact dec_cInUse c s s' saw hst
  | cGet v => exact dec_cGet c s s' v hst
  | cClose => cases hc
  | cDtor => cases hc
  | cJoinR => exact dec_cJoinR c s s' hst
  | cJoinP => exact dec_cJoinP c s s' hst
  | cRet r => exact dec_cRet c s s' r hst

open Rank in
/-- A busy-wait iteration leaves the rank unchanged. -/
theorem rank_stutter (c : Cfg α) (s s' : State α) (e : Ev α) (h : (machine c).Reachable s)
    (hst : (machine c).Step s e s') (hs : isStutter c s e = true) : rank c s' = rank c s := by
  simp only [Machine.Step, machine] at hst
  cases e with
  | qi e => exact stut_qi c s s' e hst hs
  | qo e => exact stut_qo c s s' e hst hs
  | _ => simp [isStutter] at hs

omit [DecidableEq α] in
/-- a busy-wait iteration is never the start of an API call -/
theorem isStutter_not_call (c : Cfg α) (s : State α) (e : Ev α) (hs : isStutter c s e = true) :
    e.isCall = false := by
  cases e <;> first | rfl | simp [isStutter] at hs

omit [DecidableEq α] in
/-- `isStutter` is exact: an enabled event is a stutter iff it is an event of one of the two queues
    whose thread stays inside / returns to the polling loop of push() (`pushMustWait`, `pushPolling`
    after a timed wait) or goes back to sleep in wait_and_pop(). -/
theorem isStutter_iff (c : Cfg α) (s : State α) (e : Ev α) :
    isStutter c s e = true ↔
      (∃ t n, (e = .qi (.pushSize t n) ∧ n ≥ c.inqC.max) ∨ (e = .qo (.pushSize t n) ∧ n ≥ c.outqC.max)
        ∨ e = .qi (.pushFullWaited t n) ∨ e = .qo (.pushFullWaited t n)
        ∨ e = .qi (.popRewait t) ∨ e = .qo (.popRewait t)) := by
  constructor
  · intro h
    cases e with
    | qi e =>
      cases e with
      | pushSize t n => exact ⟨t, n, .inl ⟨rfl, by simpa [isStutter] using h⟩⟩
      | pushFullWaited t n => exact ⟨t, n, .inr (.inr (.inl rfl))⟩
      | popRewait t => exact ⟨t, 0, .inr (.inr (.inr (.inr (.inl rfl))))⟩
      | _ => simp [isStutter] at h
    | qo e =>
      cases e with
      | pushSize t n => exact ⟨t, n, .inr (.inl ⟨rfl, by simpa [isStutter] using h⟩)⟩
      | pushFullWaited t n => exact ⟨t, n, .inr (.inr (.inr (.inl rfl)))⟩
      | popRewait t => exact ⟨t, 0, .inr (.inr (.inr (.inr (.inr rfl))))⟩
      | _ => simp [isStutter] at h
    | _ => simp [isStutter] at h
  · rintro ⟨t, n, h | h | h | h | h | h⟩ <;> simp_all [isStutter]

omit [DecidableEq α] in
/-- `isStutter` does not look at the state -/
theorem isStutter_state (c : Cfg α) (s s1 : State α) (e : Ev α) : isStutter c s e = isStutter c s1 e := rfl

/-- Corollary (bounded internal work between API calls): along any run without call events the number
    of steps that are not busy-wait iterations is at most the rank of its first state minus the rank of
    its last state. -/
theorem internal_steps_bounded (c : Cfg α) (tr : List (Ev α)) :
    ∀ (s s' : State α) (i : Nat), (machine c).Reachable s → (∀ e ∈ tr, e.isCall = false) →
      (machine c).run? s tr i = .ok s' →
      (tr.filter fun e => !isStutter c s e).length + rank c s' ≤ rank c s := by
  induction tr with
  | nil =>
    intro s s' i _ _ hr
    simp only [Machine.run?, Except.ok.injEq] at hr
    subst hr
    simp
  | cons e rest ih =>
    intro s s' i h hcall hr
    unfold Machine.run? at hr
    split at hr
    · next s1 h1 =>
      have hstep : (machine c).Step s e s1 := h1
      have h' := ih s1 s' (i + 1) (.step h hstep) (fun e he => hcall e (List.mem_cons_of_mem _ he)) hr
      have hfe : (rest.filter fun e => !isStutter c s e) = (rest.filter fun e => !isStutter c s1 e) := rfl
      cases hs : isStutter c s e with
      | true =>
        have := rank_stutter c s s1 e h hstep hs
        simp only [List.filter_cons, hs, Bool.not_true, Bool.false_eq_true, if_false, hfe]
        omega
      | false =>
        have := rank_decreases c s s1 e h hstep (hcall e (List.mem_cons_self ..)) hs
        simp only [List.filter_cons, hs, Bool.not_false, if_true, List.length_cons, hfe]
        omega
    · cases hr

open Rank in
/-- The start of an API call raises the rank by at most 10 (the weight of the call's own path), so a
    whole run makes at most `rank c (init α) + 10 * (number of API calls)` internal steps that are not
    busy-wait iterations. -/
theorem rank_call (c : Cfg α) (s s' : State α) (e : Ev α) (hst : (machine c).Step s e s')
    (hc : e.isCall = true) : rank c s' ≤ rank c s + 10 := by
  simp only [Machine.Step, machine] at hst
  cases e <;> first
    | (cases hc; done)
    | (rk_cases hst <;> simp_all [rank] <;> omega)

open Rank in
omit [DecidableEq α] in
/-- the rank of the initial state -/
theorem rank_init (c : Cfg α) :
    rank c (init α) = 12 * c.chunkEnd.length + 12 * c.file.length + c.blobEnd.length * (c.workers.length + 12) + 59 := by
  simp [rank, init, QueueSM.init, blobsW, jobsW, running]
  omega

end Osmium.Pipeline
