/-
ReferenceTable ring (o5m part of C02): for every history of `add`/`clear` calls, `get i`
returns the slot that starts with the i-th most recent eligible string — across wrap-around.
-/
import Osmium.Model.O5m

namespace Osmium.O5m

/-- a call on the ReferenceTable -/
inductive TOp
  | add (s : Bytes)
  | clear
  deriving Repr, DecidableEq

def Table.apply (t : Table) : TOp → Table
  | .add s => t.add s
  | .clear => t.clear

/-- the table after a history of calls (oldest first) -/
def Table.run (t : Table) (h : List TOp) : Table := h.foldl Table.apply t

/-- the strings that can be referenced after a history: eligible (≤ 252 bytes) strings added
    since the last `clear`, most recent first -/
def eligibleFrom (rec : List Bytes) : List TOp → List Bytes
  | [] => rec
  | .clear :: h => eligibleFrom [] h
  | .add s :: h => eligibleFrom (if s.length ≤ maxLength then s :: rec else rec) h

def eligible (h : List TOp) : List Bytes := eligibleFrom [] h

/-- `(cur + n - idx) % n` without the modulo -/
theorem ring_index (cur n idx : Nat) (hc : cur < n) (h1 : 1 ≤ idx) (h2 : idx ≤ n) :
    (cur + n - idx) % n = if idx ≤ cur then cur - idx else cur + n - idx := by
  split
  · next h =>
    have : cur + n - idx = (cur - idx) + n := by omega
    rw [this, Nat.add_mod_right, Nat.mod_eq_of_lt (by omega)]
  · next h => exact Nat.mod_eq_of_lt (by omega)

/-- the invariant: sizes, and slot `(cur + n − (j+1)) mod n` starts with the j-th most recent string -/
structure TableInv (t : Table) (rec : List Bytes) : Prop where
  npos : 0 < t.n
  size : t.slots.size = 0 ∨ t.slots.size = t.n
  nonempty : rec ≠ [] → t.slots.size = t.n
  cur : t.cur < t.n
  len : ∀ i, (t.slot i).length ≤ maxLength
  pre : ∀ j s, j < t.n → rec[j]? = some s → s <+: t.slot ((t.cur + t.n - (j + 1)) % t.n)

theorem slot_set (slots : Array Bytes) (i j : Nat) (v : Bytes) :
    ((slots.setIfInBounds i v)[j]?).getD [] = if i = j ∧ i < slots.size then v else (slots[j]?).getD [] := by
  rw [Array.getElem?_setIfInBounds]
  by_cases h : i = j
  · subst h
    by_cases h2 : i < slots.size <;> simp [h2]
  · simp [h]

theorem slot_replicate (n i : Nat) : ((Array.replicate n ([] : Bytes))[i]?).getD [] = [] := by
  by_cases h : i < n <;> simp [h]

theorem TableInv.clear {t : Table} {rec : List Bytes} (h : TableInv t rec) : TableInv t.clear [] := by
  refine ⟨h.npos, h.size, by simp, by simp [Table.clear]; exact h.npos, ?_, ?_⟩
  · intro i; exact h.len i
  · intro j s _ hs; simp at hs

theorem TableInv.add {t : Table} {rec : List Bytes} (h : TableInv t rec) (s : Bytes) :
    TableInv (t.add s) (if s.length ≤ maxLength then s :: rec else rec) := by
  have hn := h.npos
  have hc := h.cur
  by_cases hs : s.length ≤ maxLength
  · simp only [hs, ↓reduceIte]
    -- the slots after resize
    generalize hsl : (if t.slots.size == 0 then Array.replicate t.n ([] : Bytes) else t.slots) = slots
    have hsize : slots.size = t.n := by
      rw [← hsl]
      rcases h.size with h0 | h0
      · simp [h0]
      · simp [h0, Nat.ne_of_gt hn]
    have hslot : ∀ i, (slots[i]?).getD [] = t.slot i := by
      intro i
      rw [← hsl]
      rcases h.size with h0 | h0
      · simp only [h0, beq_self_eq_true, ↓reduceIte, slot_replicate]
        have : t.slots = #[] := Array.eq_empty_of_size_eq_zero h0
        simp [Table.slot, this]
      · have : t.slots.size ≠ 0 := by omega
        simp [this, Table.slot]
    have hadd : t.add s = { t with slots := slots.setIfInBounds t.cur (s ++ ((slots[t.cur]?).getD []).drop s.length),
                                   cur := if t.cur + 1 == t.n then 0 else t.cur + 1 } := by
      simp only [Table.add, hs, ↓reduceIte, hsl]
    have hnslot : ∀ i, (t.add s).slot i = if t.cur = i then s ++ (t.slot t.cur).drop s.length else t.slot i := by
      intro i
      rw [hadd]
      simp only [Table.slot]
      rw [slot_set, hslot, hslot]
      simp only [hsize, hc, and_true]
      rfl
    have hncur : (t.add s).cur = if t.cur + 1 = t.n then 0 else t.cur + 1 := by
      rw [hadd]; simp
    have hnn : (t.add s).n = t.n := by rw [hadd]
    have hnsize : (t.add s).slots.size = t.n := by rw [hadd]; simp [hsize]
    refine ⟨by rw [hnn]; exact hn, Or.inr (by rw [hnsize, hnn]), fun _ => by rw [hnsize, hnn], ?_, ?_, ?_⟩
    · rw [hncur, hnn]; split <;> omega
    · intro i
      rw [hnslot]
      split
      · have := h.len t.cur
        simp only [List.length_append, List.length_drop]
        simp only [maxLength] at *
        omega
      · exact h.len i
    · intro j x hj hx
      rw [hnn] at hj ⊢
      rw [hnslot, hncur]
      cases j with
      | zero =>
        simp only [List.getElem?_cons_zero, Option.some.injEq] at hx
        subst hx
        have e : ((if t.cur + 1 = t.n then 0 else t.cur + 1) + t.n - (0 + 1)) % t.n = t.cur := by
          rw [ring_index _ _ _ (by split <;> omega) (by omega) (by omega)]
          split <;> split <;> omega
        rw [e]
        simp
      | succ j =>
        simp only [List.getElem?_cons_succ] at hx
        have ih := h.pre j x (by omega) hx
        have e1 : ((if t.cur + 1 = t.n then 0 else t.cur + 1) + t.n - (j + 1 + 1)) % t.n = (t.cur + t.n - (j + 1)) % t.n := by
          rw [ring_index _ _ _ (by split <;> omega) (by omega) (by omega), ring_index _ _ _ hc (by omega) (by omega)]
          split <;> split <;> split <;> omega
        have e2 : t.cur ≠ (t.cur + t.n - (j + 1)) % t.n := by
          rw [ring_index _ _ _ hc (by omega) (by omega)]
          split <;> omega
        rw [e1]
        simp only [e2, ↓reduceIte]
        exact ih
  · simp only [hs, ↓reduceIte]
    have hadd : t.add s = { t with slots := if t.slots.size == 0 then Array.replicate t.n ([] : Bytes) else t.slots } := by
      simp only [Table.add, hs, ↓reduceIte]
    have hslot : ∀ i, (t.add s).slot i = t.slot i := by
      intro i
      rw [hadd]
      simp only [Table.slot]
      rcases h.size with h0 | h0
      · simp only [h0, beq_self_eq_true, ↓reduceIte, slot_replicate]
        have : t.slots = #[] := Array.eq_empty_of_size_eq_zero h0
        simp [this]
      · have : t.slots.size ≠ 0 := by omega
        simp [this]
    have hsz : (t.add s).slots.size = t.n := by
      rw [hadd]
      rcases h.size with h0 | h0
      · simp [h0]
      · simp [h0, Nat.ne_of_gt hn]
    have hnn : (t.add s).n = t.n := by rw [hadd]
    have hnc : (t.add s).cur = t.cur := by rw [hadd]
    refine ⟨by rw [hnn]; exact hn, Or.inr (by rw [hsz, hnn]), fun _ => by rw [hsz, hnn], by rw [hnn, hnc]; exact hc, ?_, ?_⟩
    · intro i; rw [hslot]; exact h.len i
    · intro j x hj hx
      rw [hnn] at hj ⊢
      rw [hslot, hnc]
      exact h.pre j x hj hx

theorem TableInv.runFrom : ∀ (h : List TOp) (t : Table) (rec : List Bytes), TableInv t rec →
    TableInv (Table.run t h) (eligibleFrom rec h)
  | [], t, rec, inv => by simpa [Table.run, eligibleFrom] using inv
  | .clear :: h, t, rec, inv => by
    have := TableInv.runFrom h t.clear [] inv.clear
    simpa [Table.run, eligibleFrom, Table.apply] using this
  | .add s :: h, t, rec, inv => by
    have := TableInv.runFrom h (t.add s) _ (inv.add s)
    simpa [Table.run, eligibleFrom, Table.apply] using this

theorem TableInv.empty (n : Nat) (hn : 0 < n) : TableInv { n := n } [] := by
  refine ⟨hn, Or.inl rfl, by simp, hn, ?_, ?_⟩
  · intro i; simp [Table.slot]
  · intro j s _ hs; simp at hs

theorem TableInv.run (n : Nat) (hn : 0 < n) (h : List TOp) :
    TableInv (Table.run { n := n } h) (eligible h) :=
  TableInv.runFrom h _ _ (TableInv.empty n hn)

end Osmium.O5m
