/-
DenseNodes round trip, part 2: the loop over all rows (delta state generalised), `DenseNodes::add_node`
establishing the row representation, and `decode_dense_nodes` on `DenseNodes::serialize`.
-/
import Osmium.Lemmas.PbfDense

namespace Osmium.Pbf

open Osmium.Wire Osmium.Osm Osmium.PbfMsg
open Osmium.StringTable (Table lookup)

/-- the seven `DeltaDecode<int64_t>` states of the loop = the previous row's values -/
structure Prev where
  id : Int := 0
  lat : Int := 0
  lon : Int := 0
  ts : Int := 0
  cs : Int := 0
  uid : Int := 0
  sid : Int := 0

def PrevOk (pv : Prev) : Prop :=
  IdOk pv.id ∧ IdOk pv.lat ∧ IdOk pv.lon ∧ (0 ≤ pv.ts ∧ pv.ts < (2:Int)^32) ∧ (0 ≤ pv.cs ∧ pv.cs < (2:Int)^32) ∧
  (0 ≤ pv.uid ∧ pv.uid < (2:Int)^31) ∧ (0 ≤ pv.sid ∧ pv.sid < (2:Int)^31)

/-- the loop cursor for the rows still to come, as the writer's arrays present them -/
def curOf (o : Opts) (pv : Prev) (rows : List DenseRow) : DenseCur :=
  { ids := (Delta.encGo 64 pv.id (rows.map (·.id))).map zigzag64,
    lats := (Delta.encGo 64 pv.lat (rows.map (·.lat))).map zigzag64,
    lons := (Delta.encGo 64 pv.lon (rows.map (·.lon))).map zigzag64,
    tags := rows.flatMap fun r => r.tags.map fun i => u64 (toInt32 i),
    versions := if o.mdVersion then rows.map (fun r => u64 (toInt32 r.version)) else [],
    timestamps := if o.mdTimestamp then (Delta.encGo 64 pv.ts (rows.map fun r => (r.timestamp : Int))).map zigzag64 else [],
    changesets := if o.mdChangeset then (Delta.encGo 64 pv.cs (rows.map fun r => (r.changeset : Int))).map zigzag64 else [],
    uids := if o.mdUid then (Delta.encGo 32 pv.uid (rows.map fun r => (r.uid : Int))).map zigzag32 else [],
    userSids := if o.mdUser then (Delta.encGo 32 pv.sid (rows.map fun r => (r.userSid : Int))).map zigzag32 else [],
    visibles := if o.history then rows.map (fun r => if r.visible then 1 else 0) else [],
    dId := pv.id, dLat := pv.lat, dLon := pv.lon, dUid := pv.uid, dUserSid := pv.sid, dChangeset := pv.cs, dTimestamp := pv.ts }

def nextPrev (o : Opts) (pv : Prev) (r : DenseRow) : Prev :=
  { id := r.id, lat := r.lat, lon := r.lon,
    ts := if o.mdTimestamp then (r.timestamp : Int) else pv.ts,
    cs := if o.mdChangeset then (r.changeset : Int) else pv.cs,
    uid := if o.mdUid then (r.uid : Int) else pv.uid,
    sid := if o.mdUser then (r.userSid : Int) else pv.sid }

/-- a row of the DenseNodes vectors represents the node (m, l) for a reader with string table `T` -/
structure RowRep (o : Opts) (T : List Bytes) (r : DenseRow) (m : Meta) (l : Location) : Prop where
  id : r.id = m.id
  version : r.version = m.version
  timestamp : r.timestamp = m.timestamp
  changeset : r.changeset = m.changeset
  uid : r.uid = m.uid
  visible : r.visible = m.visible
  lat : r.lat = l.y
  lon : r.lon = l.x
  sid : r.userSid < 2 ^ 31
  user : o.mdUser = true → T[r.userSid]? = some m.user
  tags : ∃ kv : List Nat, r.tags = kv ++ [0] ∧
    kv.map (fun i => T[i]?) = (m.tags.flatMap fun tg => [tg.key, tg.value]).map some ∧ ∀ i ∈ kv, 0 < i ∧ i < 2 ^ 31

/-- the node as it comes back -/
def projNode (o : Opts) (m : Meta) (l : Location) : Object :=
  .node (projectMeta o m) (if o.history && !m.visible then Location.undefined else l)

theorem project_node (o : Opts) (m : Meta) (l : Location) : project o (.node m l) = some (projNode o m l) := rfl

theorem idOk_of_loc (x : Int) (h : -(2:Int)^31 ≤ x ∧ x < (2:Int)^31) : IdOk x := by
  unfold IdOk; simp only [Int.reducePow] at *; omega

theorem flatMap_pair_length : ∀ (tags : List Tag), (tags.flatMap fun tg => [tg.key, tg.value]).length = 2 * tags.length
  | [] => rfl
  | a :: t => by simp only [List.flatMap_cons, List.length_append, List.length_cons, List.length_nil, flatMap_pair_length t]; omega

/-- one iteration on the first row -/
theorem denseIter_row (o : Opts) (T : List Bytes) (pv : Prev) (r : DenseRow) (rs : List DenseRow) (m : Meta) (l : Location)
    (hrep : RowRep o T r m l) (hpv : PrevOk pv) (hd : MetaInDomain m) (hid : IdOk m.id) (hl : LocOk l) :
    denseIter { strings := T } (curOf o pv (r :: rs)) = some (curOf o (nextPrev o pv r) rs, projNode o m l) ∧
    PrevOk (nextPrev o pv r) := by
  obtain ⟨hpid, hplat, hplon, hpts, hpcs, hpuid, hpsid⟩ := hpv
  obtain ⟨hv, hui, hts, hcs⟩ := hd
  obtain ⟨kv, hkv, hres, hkb⟩ := hrep.tags
  have e1 := ds_version o.mdVersion r.version (rs.map fun r => u64 (toInt32 r.version)) (by rw [hrep.version]; exact hv)
  have e2 := ds_changeset o.mdChangeset pv.cs r.changeset
    ((Delta.encGo 64 (r.changeset : Int) (rs.map fun r => (r.changeset : Int))).map zigzag64) hpcs.1 hpcs.2 (by rw [hrep.changeset]; exact hcs)
  have e3 := ds_timestamp o.mdTimestamp pv.ts r.timestamp
    ((Delta.encGo 64 (r.timestamp : Int) (rs.map fun r => (r.timestamp : Int))).map zigzag64) hpts.1 hpts.2 (by rw [hrep.timestamp]; exact hts)
  have e4 := ds_uid o.mdUid pv.uid r.uid
    ((Delta.encGo 32 (r.uid : Int) (rs.map fun r => (r.uid : Int))).map zigzag32) hpuid.1 hpuid.2 (by rw [hrep.uid]; exact hui)
  have e5 := ds_visible o.history r.visible (rs.map fun r => if r.visible then 1 else 0)
  have e6 := ds_user o.mdUser T pv.sid r.userSid m.user
    ((Delta.encGo 32 (r.userSid : Int) (rs.map fun r => (r.userSid : Int))).map zigzag32) hpsid.1 hpsid.2 hrep.sid hrep.user
  have e7 : dsTags { strings := T } ((r.tags.map fun i => u64 (toInt32 i)) ++ rs.flatMap fun r => r.tags.map fun i => u64 (toInt32 i)) =
      some (m.tags, rs.flatMap fun r => r.tags.map fun i => u64 (toInt32 i)) := by
    unfold dsTags
    have hne : ((r.tags.map fun i => u64 (toInt32 i)) ++ rs.flatMap fun r => r.tags.map fun i => u64 (toInt32 i)).isEmpty = false := by
      rw [hkv]; simp
    rw [hne]
    simp only [Bool.false_eq_true, ↓reduceIte]
    rw [hkv]
    apply denseTags_group T m.tags kv _ _ hres hkb
    have hl2 : kv.length = 2 * m.tags.length := by
      have h1 := congrArg List.length hres
      simp only [List.length_map] at h1
      rw [h1, flatMap_pair_length]
    simp only [List.length_append, List.length_map, List.length_cons, List.length_nil]
    omega
  have hlx := hl.1
  have hly := hl.2
  have s1 := Delta.step64 pv.id r.id (by rw [hrep.id]; exact hid.1) (by rw [hrep.id]; exact hid.2) hpid.1 hpid.2
  have ilat : IdOk r.lat := by rw [hrep.lat]; exact idOk_of_loc _ hly
  have ilon : IdOk r.lon := by rw [hrep.lon]; exact idOk_of_loc _ hlx
  have s2 := Delta.step64 pv.lat r.lat ilat.1 ilat.2 hplat.1 hplat.2
  have s3 := Delta.step64 pv.lon r.lon ilon.1 ilon.2 hplon.1 hplon.2
  have cx := convCoord_default l.x hlx.1 hlx.2
  have cy := convCoord_default l.y hly.1 hly.2
  constructor
  · simp only [denseIter, curOf, List.map_cons, Delta.encGo, List.flatMap_cons]
    try simp only [apply_ite (List.map zigzag64), apply_ite (List.map zigzag32), List.map_cons, List.map_nil] at *
    rw [e1, e2, e3, e4, e5, e6, e7]
    simp only [Option.bind_some, unzigzag_zigzag, wrap64, s1, s2, s3, nextPrev, projNode, projectMeta]
    simp only [hrep.id, hrep.version, hrep.timestamp, hrep.changeset, hrep.uid, hrep.visible, hrep.lat, hrep.lon, cx, cy]
    obtain ⟨d, mv, mt, mc, mu, mus, hist, low⟩ := o
    cases mv <;> cases mt <;> cases mc <;> cases mu <;> cases mus <;> cases hist <;> cases hvis : m.visible <;>
      simp [curOf, hvis]
  · have q1 := hrep.timestamp
    have q2 := hrep.changeset
    have q3 := hrep.uid
    have q4 := hrep.sid
    refine ⟨by rw [show (nextPrev o pv r).id = r.id from rfl, hrep.id]; exact hid, ilat, ilon, ?_, ?_, ?_, ?_⟩ <;>
      (simp only [nextPrev]; split) <;> first | assumption | (constructor <;> (simp only [Int.reducePow, Nat.reducePow] at *; omega))

end Osmium.Pbf
