import Osmium.Lemmas.PipelineCompleteN

/-!
FIFO shape of the output queue of the pipeline: everything the parser ever handed to
`push()` is (in order) what was popped, then what is still queued, then the call in flight.
-/

namespace Osmium.Pipeline.Complete
open Osmium.Mon
variable {α : Type} [DecidableEq α]

theorem fifo_out (c : Cfg α) (s : State α) (h : (machine c).Reachable s) (hu : s.outq.inUse = true) :
    s.outq.called = s.outq.popped.map (fun p => p.2) ++ s.outq.items ++ QueueSM.inflight s.outq tP := by
  have hq := Q.reachable_outq c s h
  have hcons := QueueSM.inv_cons c.outqC s.outq hq
  have hpop := QueueSM.inv_popped c.outqC s.outq hq hu
  obtain ⟨_, hcall⟩ := QueueSM.inv_called c.outqC s.outq hq hu
  have hoc := (invN c s h).n_oc
  have h1 : QueueSM.byProd tP s.outq.called = s.outq.called := by
    unfold QueueSM.byProd
    rw [List.filter_eq_self]
    intro y hy
    simp [(hoc y hy).2.2]
  have h2 : QueueSM.byProd tP s.outq.pushed = s.outq.pushed := by
    unfold QueueSM.byProd
    rw [List.filter_eq_self]
    intro x hx
    have hx' : x ∈ QueueSM.byProd x.1 s.outq.called := by
      rw [hcall x.1]
      apply List.mem_append_left
      simp [QueueSM.byProd, hx]
    have hxc : x ∈ s.outq.called := (List.mem_filter.mp hx').1
    simp [(hoc x hxc).2.2]
  have h3 := hcall tP
  rw [h1, h2] at h3
  rw [h3, hcons, hpop]

theorem called_eq_popped (c : Cfg α) (s : State α) (h : (machine c).Reachable s) (hu : s.outq.inUse = true)
    (P : QueueSM.Item Nat → Prop) (hlast : ∀ y ∈ s.outq.called.dropLast, ¬ P y)
    (l : List (Tid × QueueSM.Item Nat)) (p : Tid × QueueSM.Item Nat) (hp : s.outq.popped = l ++ [p]) (hP : P p.2) :
    s.outq.called = s.outq.popped.map (fun p => p.2) := by
  have hf := fifo_out c s h hu
  rw [List.append_assoc] at hf
  by_cases hr : s.outq.items ++ QueueSM.inflight s.outq tP = []
  · rw [hr, List.append_nil] at hf
    exact hf
  · exfalso
    apply hlast p.2 _ hP
    rw [hf, List.dropLast_append_of_ne_nil hr, hp]
    simp

end Osmium.Pipeline.Complete
