/-
C02, PBF: `decode_node` on the specification encoder's Node message.
-/
import Osmium.Lemmas.PbfSpecMeta

namespace Osmium.Pbf

open Osmium.Wire Osmium.Osm Osmium.PbfMsg
open Osmium.PbfSpec (Choices)

theorem spec_node (ch : Choices) (hch : ChoicesOk ch) (table : List Bytes) (hist : Bool) (m : Meta) (l : Location)
    (hrep : ObjRep ch (.node m l)) (htab : ∀ s ∈ PbfSpec.stringsOf (.node m l), TableOk table s)
    (hlen : (PbfSpec.nodeMsg ch table hist m l).length < 2 ^ 32) :
    withFields (PbfSpec.nodeMsg ch table hist m l) (decodeNode (specParams ch table) {}) = some (.node m l) := by
  sorry

end Osmium.Pbf
