/-
C02, PBF: `decode_node` on the specification encoder's Node message.
-/
import Osmium.Lemmas.PbfSpecMeta

namespace Osmium.Pbf

open Osmium.Wire Osmium.Osm Osmium.PbfMsg
open Osmium.PbfSpec (Choices)

/-- the cases of `decode_node`'s `switch` for different (tag, wire type) commute: 1 / 8 / 9 set id / lat / lon,
    2 / 3 / 4 set keys / vals / (info, user), and `decode_info` reads the info slot only -/
theorem spec_nodeStep_commutes (p : Params) (r : ROpts) : CommutesOn (nodeStep p r) (fun _ => True) := by
  intro s f g _ _ hk
  obtain ⟨t1, w1, v1, p1⟩ := f
  obtain ⟨t2, w2, v2, p2⟩ := g
  simp only [key, ne_eq, Prod.mk.injEq, not_and] at hk
  unfold nodeStep metaStep
  dsimp only
  split <;> split <;> (try (simp_all; done)) <;> (try simp only [Option.bind_some])
  all_goals (repeat' split)
  all_goals (try (simp_all; done))
  all_goals (first
    | (rcases h : decodeInfo p s.info p2 with _ | x <;> simp_all <;> done)
    | (rcases h : decodeInfo p s.info p1 with _ | x <;> simp_all <;> done))

/-- the canonical field list of the spec's Node message -/
def specNodeFields (ch : Choices) (table : List Bytes) (hist : Bool) (m : Meta) (l : Location) : List Field :=
  [PbfSpec.fSInt 1 m.id] ++ PbfSpec.metaFields ch table hist m ++
    [PbfSpec.fSInt 8 (PbfSpec.coord ch.granularity ch.latOffset l.y),
     PbfSpec.fSInt 9 (PbfSpec.coord ch.granularity ch.lonOffset l.x)]

theorem spec_nodeMsg_eq (ch : Choices) (table : List Bytes) (hist : Bool) (m : Meta) (l : Location) :
    PbfSpec.nodeMsg ch table hist m l = PbfSpec.msg ch PbfSpec.kNode (specNodeFields ch table hist m l) := rfl

theorem spec_nodeFields_wf (ch : Choices) (hch : ChoicesOk ch) (table : List Bytes) (hist : Bool) (m : Meta) (l : Location)
    (hid : IdOk m.id) (hl : LocOk l)
    (hlen : (PbfSpec.nodeMsg ch table hist m l).length < 2 ^ 32) :
    ∀ f ∈ specNodeFields ch table hist m l, f.WF := by
  intro f hf
  have hf0 := hf
  have by8 := spec_coord_bound ch.granularity ch.latOffset l.y hch.gran.1 hch.latOff hl.2
  have bx9 := spec_coord_bound ch.granularity ch.lonOffset l.x hch.gran.1 hch.lonOff hl.1
  unfold specNodeFields at hf
  simp only [List.mem_append, List.mem_cons, List.not_mem_nil, or_false] at hf
  rcases hf with (hf | hf) | (hf | hf)
  · subst hf
    exact wf_varint 1 _ (by decide) (by decide) (zigzag_lt _ hid.1 hid.2)
  · obtain ⟨hw, ht, hv⟩ := spec_metaFields_shape ch table hist m f hf
    have hp := payload_le_msg ch PbfSpec.kNode _ f hf0 hw
    rw [← spec_nodeMsg_eq] at hp
    obtain ⟨tag, wt, val, payload⟩ := f
    simp only at hw ht hv hp
    subst hw hv
    rcases ht with rfl | rfl | rfl <;>
      exact ⟨by simp, by simp, by simp, rfl, Nat.lt_of_le_of_lt hp hlen⟩
  · subst hf
    exact wf_varint 8 _ (by decide) (by decide)
      (zigzag_lt _ (by simp only [Int.reducePow] at *; omega) (by simp only [Int.reducePow] at *; omega))
  · subst hf
    exact wf_varint 9 _ (by decide) (by decide)
      (zigzag_lt _ (by simp only [Int.reducePow] at *; omega) (by simp only [Int.reducePow] at *; omega))

theorem spec_node (ch : Choices) (hch : ChoicesOk ch) (table : List Bytes) (hist : Bool) (m : Meta) (l : Location)
    (hrep : ObjRep ch (.node m l)) (htab : ∀ s ∈ PbfSpec.stringsOf (.node m l), TableOk table s)
    (hlen : (PbfSpec.nodeMsg ch table hist m l).length < 2 ^ 32) :
    withFields (PbfSpec.nodeMsg ch table hist m l) (decodeNode (specParams ch table) {}) = some (.node m l) := by
  obtain ⟨⟨hmd, hid, hts, hstr⟩, hl, hvis⟩ := hrep
  have hwf := spec_nodeFields_wf ch hch table hist m l hid hl hlen
  unfold withFields
  rw [spec_nodeMsg_eq, readFields_msg ch _ _ hwf (hch.extrasWF PbfSpec.kNode)]
  simp only
  unfold decodeNode
  rw [decodeMsg_arrange' (nodeStep (specParams ch table) {}) nodeKnown (nodeStep_unknown _ _)
    (spec_nodeStep_commutes _ _) ch PbfSpec.kNode _ _ (hch.extrasUnknown PbfSpec.kNode)]
  have hstate : decodeMsg (nodeStep (specParams ch table) {}) {} (specNodeFields ch table hist m l) =
      some { id := m.id, keys := pack (m.tags.map fun t => PbfSpec.idx table t.key),
             vals := pack (m.tags.map fun t => PbfSpec.idx table t.value), info := infoOf m, user := m.user,
             lat := PbfSpec.coord ch.granularity ch.latOffset l.y,
             lon := PbfSpec.coord ch.granularity ch.lonOffset l.x } := by
    have hmeta := spec_meta ch hch table hist m (specParams ch table) rfl rfl hmd hts
      (htab m.user (by simp [PbfSpec.stringsOf])) { id := m.id } ⟨rfl, rfl, rfl, rfl⟩
    have hstep : decodeMsg (nodeStep (specParams ch table) {}) { id := m.id } (PbfSpec.metaFields ch table hist m) =
        decodeMsg (metaStep (specParams ch table) {}) { id := m.id } (PbfSpec.metaFields ch table hist m) :=
      decodeMsg_congr_step _ _ _ _ (fun f hf s => nodeStep_ld _ _ s f (spec_metaFields_shape ch table hist m f hf).1)
    have h0 : decodeMsg (nodeStep (specParams ch table) {}) {} [PbfSpec.fSInt 1 m.id] = some { id := m.id } := by
      simp [decodeMsg, nodeStep, spec_fSInt, fVarint, unzigzag_zigzag]
    unfold specNodeFields
    rw [decodeMsg_append, decodeMsg_append, h0, Option.bind_some, hstep, hmeta, Option.bind_some]
    simp [decodeMsg, nodeStep, spec_fSInt, fVarint, unzigzag_zigzag]
  rw [hstate]
  have htags := spec_finishTags table (specParams ch table) rfl m
    { id := m.id, keys := pack (m.tags.map fun t => PbfSpec.idx table t.key),
      vals := pack (m.tags.map fun t => PbfSpec.idx table t.value), info := infoOf m, user := m.user,
      lat := PbfSpec.coord ch.granularity ch.latOffset l.y,
      lon := PbfSpec.coord ch.granularity ch.lonOffset l.x } rfl rfl
    (fun t ht => ⟨htab t.key (by
        simp only [PbfSpec.stringsOf, List.mem_cons, List.mem_flatMap]
        exact Or.inr ⟨t, ht, by simp⟩),
      htab t.value (by
        simp only [PbfSpec.stringsOf, List.mem_cons, List.mem_flatMap]
        exact Or.inr ⟨t, ht, by simp⟩)⟩)
  have by8 := spec_coord_bound ch.granularity ch.latOffset l.y hch.gran.1 hch.latOff hl.2
  have bx9 := spec_coord_bound ch.granularity ch.lonOffset l.x hch.gran.1 hch.lonOff hl.1
  have nx : (PbfSpec.coord ch.granularity ch.lonOffset l.x == int64Max) = false := by
    simp only [int64Max, Int.reducePow, beq_eq_false_iff_ne, ne_eq] at *; omega
  have ny : (PbfSpec.coord ch.granularity ch.latOffset l.y == int64Max) = false := by
    simp only [int64Max, Int.reducePow, beq_eq_false_iff_ne, ne_eq] at *; omega
  have hmk : mkMeta
      { id := m.id, keys := pack (m.tags.map fun t => PbfSpec.idx table t.key),
        vals := pack (m.tags.map fun t => PbfSpec.idx table t.value), info := infoOf m, user := m.user,
        lat := PbfSpec.coord ch.granularity ch.latOffset l.y,
        lon := PbfSpec.coord ch.granularity ch.lonOffset l.x } m.tags = m := by
    cases m; rfl
  have hiv : (infoOf m).visible = m.visible := rfl
  have hpg : (specParams ch table).granularity = ch.granularity := rfl
  have hpx : (specParams ch table).lonOffset = ch.lonOffset := rfl
  have hpy : (specParams ch table).latOffset = ch.latOffset := rfl
  simp only [Option.bind_eq_bind, Option.bind_some, htags, hmk, nx, ny, hiv, hpg, hpx, hpy, Bool.or_self,
    Bool.false_eq_true, ↓reduceIte, pure]
  by_cases hv : m.visible = true
  · simp only [hv, ↓reduceIte] at hvis ⊢
    obtain ⟨_, hrx, hry⟩ := hvis
    rw [spec_convCoord_coord _ _ _ hch.gran.1 hch.lonOff hl.1 hrx,
      spec_convCoord_coord _ _ _ hch.gran.1 hch.latOff hl.2 hry]
  · simp only [hv, Bool.false_eq_true, ↓reduceIte] at hvis ⊢
    rw [hvis]

end Osmium.Pbf
