/-
Queue-of-futures order (C05), part F: the consumer-side equation.
-/
import Osmium.Lemmas.PipelineOrderE

namespace Osmium.Pipeline.Order

open Osmium.Mon Osmium.Pipeline

variable {α : Type} [DecidableEq α]

set_option maxHeartbeats 1600000 in
theorem consumer_side' (c : Cfg α) : ∀ s, (machine c).Reachable s →
    s.delivered ++ s.back.flatten ++ holding s = vals s (s.outq.popped.map (fun p => p.2)) := by
  apply Machine.invariant
  · simp [machine, init, QueueSM.init, vals, holding]
  · intro s e s' hr ih hst
    have hA := invA c s hr
    have hB := (invB c s hr).back
    have hpc := q_popped_called c.outqC s.outq (Q.reachable_outq c s hr)
    have hgot : ∀ id v, s.cpc = .readGot id → s.fut id = some v → s.want id = v :=
      fun id v h1 h2 => (hA.fut id v (hA.got id h1).1 h2).1.symm
    have hfr : ∀ x ∈ s.outq.popped.map (fun p => p.2), x.2 ≠ 2 * s.nOut + 1 := fun x hx h => by
      obtain ⟨p, hp, rfl⟩ := List.mem_map.mp hx
      have := (hA.called _ (hpc p hp)).2.2; omega
    have hfi : ∀ x ∈ s.outq.popped.map (fun p => p.2), x.2 ≠ 2 * s.nIn := fun x hx h => by
      obtain ⟨p, hp, rfl⟩ := List.mem_map.mp hx
      have := (hA.called _ (hpc p hp)).2.1; omega
    have hgo : ∀ id, s.cpc = .readGot id → id ≠ 2 * s.nOut + 1 := fun id h h' => by
      have := (hA.got id h).2; omega
    have hgi : ∀ id, s.cpc = .readGot id → id ≠ 2 * s.nIn := fun id h h' => by
      have := (hA.got id h).1; omega
    clear hA hpc
    simp only [vals, holding_eq] at ih
    po_cases e with hst q hq
    all_goals (try (have hqp := q_popped hq; simp only [evPopped, List.append_nil, Option.toList_none, Option.toList_some,
      List.map_cons, List.map_nil] at hqp))
    all_goals first
      | exact ih
      | (try simp only [hqp]
         simp only [holding_eq, vals, afterPop_want, Q.afterPop_outq, afterPop_cpc, afterPop_back, afterPop_delivered,
           afterClose_want, Q.afterClose_outq, afterClose_cpc, afterClose_back, afterClose_delivered, holdOf_ite,
           List.map_append, List.flatMap_append, List.map_cons, List.map_nil]
         first
          | exact ih
          | (subst_vars; rw [flatMap_setPc _ _ _ _ hfi, holdOf_setPc _ _ _ _ hgi]; exact ih)
          | (subst_vars; rw [flatMap_setPc _ _ _ _ hfr, holdOf_setPc _ _ _ _ hgo]; exact ih)
          | (rw [← ih]; simp_all [holdOf, flat]; done)
          | (rename_i hc _ _ hf
             rw [← ih, hB (.inr (.inr ⟨_, hc⟩)), hc]
             simp only [holdOf, hgot _ _ hc hf, flat, List.append_nil, List.flatten_nil, List.append_assoc]
             rw [headD_tail_flatten]; done)
          | (rw [← ih]; rename_i k hk; cases k <;> simp [hk, holdOf]; done))

end Osmium.Pipeline.Order
