/-
Helper lemmas for C12: the specification map, the abstract `Laws` an index implementation has
to satisfy, and the proofs that each modelled class satisfies them.
-/
import Osmium.Model.IndexMap

set_option linter.unusedSectionVars false

namespace Osmium.IndexMap

/-- the ids of a history are pairwise distinct -/
def DistinctIds {V : Type} (h : Hist V) : Prop := (h.map (·.1)).Nodup

/-- no inserted value is the "empty" value -/
def NonEmptyVals {V : Type} (e : V) (h : Hist V) : Prop := ∀ p ∈ h, p.2 ≠ e

section spec
variable {V : Type}

theorem specOf_mem {h : Hist V} {id : Nat} {v : V} (hs : specOf h id = some v) : (id, v) ∈ h := by
  induction h with
  | nil => simp [specOf] at hs
  | cons p t ih =>
    obtain ⟨k, w⟩ := p
    simp only [specOf] at hs
    split at hs
    · next hk => simp at hs; subst hk; subst hs; exact List.mem_cons_self
    · exact List.mem_cons_of_mem _ (ih hs)

theorem specOf_none {h : Hist V} {id : Nat} (hs : specOf h id = none) : ∀ v, (id, v) ∉ h := by
  induction h with
  | nil => simp
  | cons p t ih =>
    obtain ⟨k, w⟩ := p
    simp only [specOf] at hs
    split at hs
    · simp at hs
    · next hk =>
      intro v hv
      rcases List.mem_cons.1 hv with heq | hv
      · simp at heq; exact hk heq.1.symm
      · exact ih hs v hv

theorem DistinctIds.tail {p : Nat × V} {t : Hist V} (hd : DistinctIds (p :: t)) : DistinctIds t := by
  simp only [DistinctIds, List.map_cons, List.nodup_cons] at hd; exact hd.2

theorem DistinctIds.head_not_mem {p : Nat × V} {t : Hist V} (hd : DistinctIds (p :: t)) :
    ∀ q ∈ t, q.1 ≠ p.1 := by
  simp only [DistinctIds, List.map_cons, List.nodup_cons, List.mem_map, not_exists, not_and] at hd
  exact fun q hq => hd.1 q hq

theorem specOf_of_mem {h : Hist V} {id : Nat} {v : V} (hd : DistinctIds h) (hm : (id, v) ∈ h) :
    specOf h id = some v := by
  induction h with
  | nil => simp at hm
  | cons p t ih =>
    obtain ⟨k, w⟩ := p
    simp only [specOf]
    rcases List.mem_cons.1 hm with heq | hm'
    · simp at heq; simp [heq.1, heq.2]
    · have := hd.head_not_mem _ hm'
      simp at this
      simp [Ne.symm this, ih hd.tail hm']

/-- for distinct ids: lookup = exactly the inserted pairs -/
theorem specOf_iff_mem {h : Hist V} (hd : DistinctIds h) (id : Nat) (v : V) :
    specOf h id = some v ↔ (id, v) ∈ h := ⟨specOf_mem, specOf_of_mem hd⟩

theorem specOf_eq_none_iff {h : Hist V} (id : Nat) :
    specOf h id = none ↔ id ∉ h.map (·.1) := by
  induction h with
  | nil => simp [specOf]
  | cons p t ih =>
    obtain ⟨k, w⟩ := p
    simp only [specOf, List.map_cons, List.mem_cons, not_or]
    split
    · next hk => simp [hk]
    · next hk => rw [ih]; simp [Ne.symm hk]

theorem DistinctIds.perm {h h' : Hist V} (hp : h.Perm h') (hd : DistinctIds h) : DistinctIds h' :=
  (List.Perm.nodup_iff (hp.map _)).1 hd

theorem NonEmptyVals.perm {e : V} {h h' : Hist V} (hp : h.Perm h') (hn : NonEmptyVals e h) :
    NonEmptyVals e h' := fun p hp' => hn p (hp.mem_iff.2 hp')

/-- the order of a history with distinct ids is irrelevant -/
theorem specOf_perm {h h' : Hist V} (hd : DistinctIds h) (hp : h.Perm h') (id : Nat) :
    specOf h id = specOf h' id := by
  cases hs : specOf h' id with
  | some v => exact specOf_of_mem hd (hp.mem_iff.2 (specOf_mem hs))
  | none =>
    cases hs' : specOf h id with
    | none => rfl
    | some v => exact absurd (hp.mem_iff.1 (specOf_mem hs')) (specOf_none hs v)

theorem specOf_append (h1 h2 : Hist V) (id : Nat) :
    specOf (h1 ++ h2) id = (specOf h1 id).orElse (fun _ => specOf h2 id) := by
  induction h1 with
  | nil => simp [specOf]
  | cons p t ih =>
    obtain ⟨k, w⟩ := p
    simp only [List.cons_append, specOf]
    split <;> simp [ih]

theorem specOf_nonEmpty {e : V} {h : Hist V} (hn : NonEmptyVals e h) {id : Nat} {v : V}
    (hs : specOf h id = some v) : v ≠ e := hn _ (specOf_mem hs)

end spec

/-! ### the laws of an index implementation -/

/-- What an implementation must satisfy to behave as the map of its insertion history.
    `Rep m h`: the index holds exactly the entries `h`;  `Ready m`: lookups are valid (the
    documented sort step has been done or was not needed). -/
structure Laws {V : Type} (I : Impl V) (e : V) where
  Rep : I.M → Hist V → Prop
  Ready : I.M → Prop
  rep_init : Rep I.init []
  ready_init : Ready I.init
  rep_set : ∀ m h id v, Rep m h → DistinctIds ((id, v) :: h) → NonEmptyVals e ((id, v) :: h) →
    Rep (I.set m id v) ((id, v) :: h)
  rep_sort : ∀ m h, Rep m h → Rep (I.sort m) h
  ready_sort : ∀ m h, Rep m h → Ready (I.sort m)
  ready_set : ∀ m h id v, Rep m h → Ready m → (∀ p ∈ h, p.1 < id) → Ready (I.set m id v)
  get_ok : ∀ m h, Rep m h → Ready m → DistinctIds h → NonEmptyVals e h →
    ∀ id, I.get m id = specOf h id
  getNoexcept_ok : ∀ m h, Rep m h → Ready m → DistinctIds h → NonEmptyVals e h →
    ∀ id, I.getNoexcept m id = (specOf h id).getD e

section generic
variable {V : Type} {I : Impl V} {e : V}

theorem Laws.foldl_rep (L : Laws I e) : ∀ (h : Hist V) (m : I.M) (h0 : Hist V), L.Rep m h0 →
    DistinctIds (h.reverse ++ h0) → NonEmptyVals e (h.reverse ++ h0) →
    L.Rep (h.foldl (fun m p => I.set m p.1 p.2) m) (h.reverse ++ h0) := by
  intro h
  induction h with
  | nil => intro m h0 hr _ _; simpa using hr
  | cons p t ih =>
    intro m h0 hr hd hn
    have e1 : (p :: t).reverse ++ h0 = t.reverse ++ (p :: h0) := by simp
    rw [e1] at hd hn ⊢
    simp only [List.foldl_cons]
    refine ih _ _ (L.rep_set m h0 p.1 p.2 hr ?_ ?_) hd hn
    · simp only [DistinctIds, List.map_append, List.map_cons] at hd ⊢
      have h2 := (List.nodup_append.1 hd).2.1
      simpa using h2
    · intro q hq; exact hn q (by simp at hq ⊢; exact Or.inr hq)

theorem Laws.build_rep (L : Laws I e) (h : Hist V) (hd : DistinctIds h) (hn : NonEmptyVals e h) :
    L.Rep (I.build h) h.reverse := by
  have := L.foldl_rep h I.init [] L.rep_init
    (by simpa using hd.perm (List.reverse_perm h).symm)
    (by simpa using hn.perm (List.reverse_perm h).symm)
  simpa [Impl.build] using this

/-- The generic refinement theorem: insert a history with distinct ids in any order, do the
    documented sort step, and every lookup is the lookup in the mathematical map. -/
theorem Laws.refines (L : Laws I e) (h : Hist V) (hd : DistinctIds h) (hn : NonEmptyVals e h)
    (id : Nat) :
    I.get (I.sort (I.build h)) id = specOf h id ∧
    I.getNoexcept (I.sort (I.build h)) id = (specOf h id).getD e := by
  have hr := L.build_rep h hd hn
  have hd' := hd.perm (List.reverse_perm h).symm
  have hn' := hn.perm (List.reverse_perm h).symm
  have hs := specOf_perm hd' (List.reverse_perm h) id
  constructor
  · rw [L.get_ok _ _ (L.rep_sort _ _ hr) (L.ready_sort _ _ hr) hd' hn', hs]
  · rw [L.getNoexcept_ok _ _ (L.rep_sort _ _ hr) (L.ready_sort _ _ hr) hd' hn', hs]

end generic

/-! ### dense_mem_array -/

section dense
variable {V : Type} [DecidableEq V]

theorem Dense.getD_set (e : V) (a : Array V) (id : Nat) (v : V) (j : Nat) :
    (Dense.set e a id v).getD j e = if j = id then v else a.getD j e := by
  simp only [Dense.set, Array.getD_eq_getD_getElem?]
  split <;> simp only [Array.getElem?_setIfInBounds, Array.size_append, Array.size_replicate,
      Array.getElem?_append, Array.getElem?_replicate] <;> grind

theorem Dense.size_set (e : V) (a : Array V) (id : Nat) (v : V) :
    (Dense.set e a id v).size = max a.size (id + 1) := by
  simp only [Dense.set]
  split <;> simp <;> omega

theorem Dense.get_eq (e : V) (a : Array V) (id : Nat) :
    Dense.get e a id = if a.getD id e = e then none else some (a.getD id e) := by
  simp only [Dense.get]
  split
  · next h => simp [Array.getD_eq_getD_getElem?, Array.getElem?_eq_none h]
  · rfl

theorem Dense.getNoexcept_eq (e : V) (a : Array V) (id : Nat) :
    Dense.getNoexcept e a id = a.getD id e := by
  simp only [Dense.getNoexcept]
  split
  · next h => simp [Array.getD_eq_getD_getElem?, Array.getElem?_eq_none h]
  · rfl

/-- representation predicate shared by every dense-style implementation -/
def DenseRep (e : V) (view : Nat → V) (h : Hist V) : Prop := ∀ j, view j = (specOf h j).getD e

theorem DenseRep.set {e : V} {view view' : Nat → V} {h : Hist V} {id : Nat} {v : V}
    (hr : DenseRep e view h) (hv : ∀ j, view' j = if j = id then v else view j) :
    DenseRep e view' ((id, v) :: h) := by
  intro j
  rw [hv j]
  by_cases hj : j = id
  · simp [hj, specOf]
  · simp [hj, specOf, Ne.symm hj, hr j]

theorem DenseRep.get {e : V} {view : Nat → V} {h : Hist V} (hr : DenseRep e view h)
    (hn : NonEmptyVals e h) (id : Nat) :
    (if view id = e then none else some (view id)) = specOf h id := by
  rw [hr id]
  cases hs : specOf h id with
  | none => simp
  | some v => simp [specOf_nonEmpty hn hs]

/-- dense_mem_array (std::vector) — needs `vinit = e`: value-initialised slots must be "empty" -/
def denseLaws (e : V) : Laws (denseImpl e e) e where
  Rep := fun (a : Array V) h => DenseRep e (fun j => a.getD j e) h
  Ready := fun _ => True
  rep_init := by intro j; simp [denseImpl, specOf]
  ready_init := trivial
  rep_set := fun (m : Array V) h id v hr _ _ => hr.set (fun j => Dense.getD_set e m id v j)
  rep_sort := fun _ _ hr => hr
  ready_sort := fun _ _ _ => trivial
  ready_set := fun _ _ _ _ _ _ _ => trivial
  get_ok := fun (m : Array V) h hr _ _ hn id => by
    show Dense.get e m id = _
    rw [Dense.get_eq]; exact hr.get hn id
  getNoexcept_ok := fun (m : Array V) h hr _ _ _ id => by
    show Dense.getNoexcept e m id = _
    rw [Dense.getNoexcept_eq]; exact hr id

end dense

/-! ### sparse_mem_map (std::map) -/

section stdmap
variable {V : Type} [DecidableEq V]

def stdMapLaws (e : V) : Laws (stdMapImpl e) e where
  Rep := fun (t : Std.TreeMap Nat V compare) h => ∀ j, t[j]? = specOf h j
  Ready := fun _ => True
  rep_init := by intro j; simp [stdMapImpl, specOf]
  ready_init := trivial
  rep_set := fun (m : Std.TreeMap Nat V compare) h id v hr _ _ => by
    intro j
    show (m.insert id v)[j]? = _
    rw [Std.TreeMap.getElem?_insert, hr j]
    simp [specOf]
  rep_sort := fun _ _ hr => hr
  ready_sort := fun _ _ _ => trivial
  ready_set := fun _ _ _ _ _ _ _ => trivial
  get_ok := fun m h hr _ _ _ id => hr id
  getNoexcept_ok := fun (m : Std.TreeMap Nat V compare) h hr _ _ _ id => by
    show (m[id]?).getD e = _
    rw [hr id]

end stdmap

/-! ### std::lower_bound -/

theorem lbSearch_bounds (p : Nat → Bool) (first len : Nat) :
    first ≤ lbSearch p first len ∧ lbSearch p first len ≤ first + len := by
  fun_induction lbSearch p first len with
  | case1 first => omega
  | case2 first len h half middle hp ih => omega
  | case3 first len h half middle hp ih => omega

theorem lbSearch_congr (p q : Nat → Bool) (first len : Nat)
    (hpq : ∀ i, first ≤ i → i < first + len → p i = q i) :
    lbSearch p first len = lbSearch q first len := by
  fun_induction lbSearch p first len with
  | case1 first => rw [lbSearch]; simp
  | case2 first len h half middle hp ih =>
    rw [lbSearch.eq_def q]
    have hq : q (first + len / 2) = true := by rw [← hpq _ (by omega) (by omega)]; exact hp
    simp only [h, dite_false, hq, if_true]
    exact ih (fun i h1 h2 => hpq i (by omega) (by omega))
  | case3 first len h half middle hp ih =>
    rw [lbSearch.eq_def q]
    have hq : ¬ q (first + len / 2) = true := by rw [← hpq _ (by omega) (by omega)]; exact hp
    simp only [h, dite_false, hq]
    exact ih (fun i h1 h2 => hpq i (by omega) (by omega))

/-- on a partitioned range the halving loop returns the partition point -/
theorem lbSearch_spec (p : Nat → Bool) (first len : Nat)
    (hmono : ∀ i j, first ≤ i → i ≤ j → j < first + len → p j = true → p i = true) :
    (∀ i, first ≤ i → i < lbSearch p first len → p i = true) ∧
    (∀ i, lbSearch p first len ≤ i → i < first + len → p i = false) := by
  fun_induction lbSearch p first len with
  | case1 first => constructor <;> intro i h1 h2 <;> omega
  | case2 first len h half middle hp ih =>
    have ih' := ih (fun i j h1 h2 h3 h4 => hmono i j (by omega) h2 (by omega) h4)
    constructor
    · intro i h1 h2
      by_cases hi : i ≤ middle
      · exact hmono i middle h1 hi (by omega) hp
      · exact ih'.1 i (by omega) h2
    · intro i h1 h2
      exact ih'.2 i h1 (by omega)
  | case3 first len h half middle hp ih =>
    have ih' := ih (fun i j h1 h2 h3 h4 => hmono i j h1 h2 (by omega) h4)
    constructor
    · intro i h1 h2; exact ih'.1 i h1 h2
    · intro i h1 h2
      by_cases hi : i < first + half
      · exact ih'.2 i h1 hi
      · cases hpi : p i with
        | false => rfl
        | true => exact absurd (hmono middle i (by omega) (by omega) h2 hpi) hp

/-! ### sparse_mem_array -/

section sparse
variable {V : Type} [DecidableEq V]

/-- sorted by id (what `std::sort` establishes) -/
def SortedKeys (l : List (Nat × V)) : Prop := l.Pairwise (fun p q => p.1 ≤ q.1)

theorem Sparse.get_sorted (a : Array (Nat × V)) (h : Hist V) (hp : a.toList.Perm h)
    (hs : SortedKeys a.toList) (hd : DistinctIds h) (id : Nat) :
    Sparse.get a id = specOf h id := by
  have hsort : ∀ i j (hi : i < a.size) (hj : j < a.size), i < j → a[i].1 ≤ a[j].1 := by
    intro i j hi hj hij
    have := (List.pairwise_iff_getElem.1 hs) i j (by simpa using hi) (by simpa using hj) hij
    simpa using this
  have hmono : ∀ i j, 0 ≤ i → i ≤ j → j < 0 + a.size →
      Sparse.keyLt a id j = true → Sparse.keyLt a id i = true := by
    intro i j _ hij hj hpj
    have hj' : j < a.size := by omega
    have hi' : i < a.size := by omega
    simp only [Sparse.keyLt, Array.getElem?_eq_getElem hj', Array.getElem?_eq_getElem hi',
      decide_eq_true_eq] at hpj ⊢
    rcases Nat.lt_or_eq_of_le hij with h1 | h1
    · have := hsort i j hi' hj' h1; omega
    · subst h1; exact hpj
  have hb := lbSearch_bounds (Sparse.keyLt a id) 0 a.size
  have hspec := lbSearch_spec (Sparse.keyLt a id) 0 a.size hmono
  -- every occurrence of the id sits at or after the partition point
  have hidx : ∀ v, (id, v) ∈ h → ∃ j, ∃ hj : j < a.size, a[j] = (id, v) ∧
      lbSearch (Sparse.keyLt a id) 0 a.size ≤ j := by
    intro v hv
    have hm : (id, v) ∈ a.toList := hp.mem_iff.2 hv
    obtain ⟨j, hj, hjv⟩ := List.mem_iff_getElem.1 hm
    have hj' : j < a.size := by simpa using hj
    refine ⟨j, hj', by simpa using hjv, ?_⟩
    apply Nat.le_of_not_lt
    intro hlt
    have := hspec.1 j (Nat.zero_le _) hlt
    simp only [Sparse.keyLt, Array.getElem?_eq_getElem hj', decide_eq_true_eq] at this
    have e1 : a[j] = (id, v) := by simpa using hjv
    rw [e1] at this
    omega
  simp only [Sparse.get, Sparse.getN]
  generalize hr : lbSearch (Sparse.keyLt a id) 0 a.size = r at *
  split
  · next hrn =>
    -- not found: r = size
    cases hs' : specOf h id with
    | none => rfl
    | some v =>
      obtain ⟨j, hj, _, hle⟩ := hidx v (specOf_mem hs')
      omega
  · next hrn =>
    have hr' : r < a.size := by omega
    simp only [Array.getElem?_eq_getElem hr']
    have hnot := hspec.2 r (Nat.le_refl _) (by omega)
    simp only [Sparse.keyLt, Array.getElem?_eq_getElem hr', decide_eq_false_iff_not] at hnot
    split
    · next hk =>
      have hm : (id, a[r].2) ∈ h := by
        apply hp.mem_iff.1
        have : a[r] = (id, a[r].2) := by rw [← hk]
        rw [← this]; simp
      exact (specOf_of_mem hd hm).symm
    · next hk =>
      cases hs' : specOf h id with
      | none => rfl
      | some v =>
        exfalso
        obtain ⟨j, hj, hjv, hle⟩ := hidx v (specOf_mem hs')
        rcases Nat.lt_or_eq_of_le hle with h1 | h1
        · have := hsort r j hr' hj h1
          rw [hjv] at this
          simp at this
          omega
        · subst h1; rw [hjv] at hk; exact hk rfl

theorem sortedKeys_mergeSort (l : List (Nat × V)) :
    SortedKeys (l.mergeSort (fun p q => decide (p.1 ≤ q.1))) := by
  have := List.pairwise_mergeSort (le := fun (p q : Nat × V) => decide (p.1 ≤ q.1))
    (by intro a b c; simp; omega) (by intro a b; simp; omega) l
  simpa [SortedKeys] using this

theorem sortedKeys_push (a : Array (Nat × V)) (id : Nat) (v : V) (hs : SortedKeys a.toList)
    (hlt : ∀ p ∈ a.toList, p.1 < id) : SortedKeys (a.push (id, v)).toList := by
  simp only [SortedKeys, Array.toList_push, List.pairwise_append] at hs ⊢
  refine ⟨hs, by simp, ?_⟩
  intro p hp q hq
  simp at hq; subst hq
  exact Nat.le_of_lt (hlt p hp)

def sparseLaws (bs : Nat) (e : V) : Laws (sparseImpl bs e) e where
  Rep := fun (a : Array (Nat × V)) h => a.toList.Perm h
  Ready := fun (a : Array (Nat × V)) => SortedKeys a.toList
  rep_init := by simp [sparseImpl]
  ready_init := by simp [sparseImpl, SortedKeys]
  rep_set := fun (m : Array (Nat × V)) h id v hr _ _ => by
    show (m.push (id, v)).toList.Perm _
    rw [Array.toList_push]
    exact (List.perm_append_singleton _ _).trans (List.Perm.cons _ hr)
  rep_sort := fun (m : Array (Nat × V)) h hr => by
    show (Sparse.sort m).toList.Perm h
    simp only [Sparse.sort]
    exact (List.mergeSort_perm _ _).trans hr
  ready_sort := fun (m : Array (Nat × V)) h _ => by
    show SortedKeys (Sparse.sort m).toList
    simp only [Sparse.sort]
    exact sortedKeys_mergeSort _
  ready_set := fun (m : Array (Nat × V)) h id v hr hs hlt => by
    show SortedKeys (m.push (id, v)).toList
    exact sortedKeys_push m id v hs (fun p hp => hlt p (hr.mem_iff.1 hp))
  get_ok := fun (m : Array (Nat × V)) h hr hs hd _ id => Sparse.get_sorted m h hr hs hd id
  getNoexcept_ok := fun (m : Array (Nat × V)) h hr hs hd _ id => by
    show (Sparse.getN m m.size id).getD e = _
    have := Sparse.get_sorted m h hr hs hd id
    simp only [Sparse.get] at this
    rw [this]

end sparse

/-! ### flex_mem -/

section flex
variable {V : Type} [DecidableEq V]

def BlocksOk (P : FlexParams) (bl : Array (Array V)) : Prop :=
  ∀ k : Nat, (bl.getD k #[]).size = 0 ∨ (bl.getD k #[]).size = 2 ^ P.bits

theorem Flex.getDense_eq (P : FlexParams) (e : V) (bl : Array (Array V)) (j : Nat) :
    Flex.getDense P e bl j = (bl.getD (j / 2 ^ P.bits) #[]).getD (j % 2 ^ P.bits) e := by
  simp only [Flex.getDense, Array.getD_eq_getD_getElem?, Array.isEmpty_iff_size_eq_zero]
  split
  · next h =>
    rcases h with h | h
    · simp [Array.getElem?_eq_none h]
    · rw [Array.getElem?_eq_none (xs := (bl[j / 2 ^ P.bits]?.getD #[])) (by omega)]; rfl
  · rfl

theorem Flex.blockAt_assure (P : FlexParams) (e : V) (bl : Array (Array V)) (q k : Nat) :
    (Flex.assureBlock P e bl q).getD k #[] =
      if k = q then (if (bl.getD q #[]).isEmpty then Array.replicate (2 ^ P.bits) e else bl.getD q #[])
      else bl.getD k #[] := by
  simp only [Flex.assureBlock, Array.getD_eq_getD_getElem?]
  split <;> split <;> (try simp only [Array.getElem?_setIfInBounds, Array.size_append, Array.size_replicate,
      Array.getElem?_append, Array.getElem?_replicate]) <;> grind

theorem Flex.size_assure (P : FlexParams) (e : V) (bl : Array (Array V)) (q : Nat) :
    q < (Flex.assureBlock P e bl q).size := by
  simp only [Flex.assureBlock]
  split <;> split <;> (try simp) <;> omega

theorem Flex.blockAt_setDense (P : FlexParams) (e : V) (bl : Array (Array V)) (id : Nat) (v : V) (k : Nat) :
    (Flex.setDense P e bl id v).getD k #[] =
      if k = id / 2 ^ P.bits then
        (if (bl.getD (id / 2 ^ P.bits) #[]).isEmpty then Array.replicate (2 ^ P.bits) e
         else bl.getD (id / 2 ^ P.bits) #[]).setIfInBounds (id % 2 ^ P.bits) v
      else bl.getD k #[] := by
  have h1 := Flex.blockAt_assure P e bl (id / 2 ^ P.bits) k
  simp only [Flex.setDense]
  rw [Array.getD_eq_getD_getElem?, Array.getElem?_modify]
  rw [Array.getD_eq_getD_getElem?] at h1
  by_cases hk : k = id / 2 ^ P.bits
  · subst hk
    simp only [if_true] at h1 ⊢
    cases hb : (Flex.assureBlock P e bl (id / 2 ^ P.bits))[id / 2 ^ P.bits]? with
    | none => 
      have := Flex.size_assure P e bl (id / 2 ^ P.bits)
      rw [Array.getElem?_eq_none_iff] at hb; omega
    | some b => rw [hb] at h1; simp at h1; simp [h1]
  · simp only [hk, Ne.symm hk, if_false] at h1 ⊢
    exact h1

theorem Flex.getDense_setDense (P : FlexParams) (e : V) (bl : Array (Array V)) (id : Nat) (v : V)
    (hok : BlocksOk P bl) (j : Nat) :
    Flex.getDense P e (Flex.setDense P e bl id v) j = if j = id then v else Flex.getDense P e bl j := by
  have hB : 0 < 2 ^ P.bits := Nat.pow_pos (by omega)
  rw [Flex.getDense_eq, Flex.getDense_eq, Flex.blockAt_setDense]
  have hq := hok (id / 2 ^ P.bits)
  have hr : id % 2 ^ P.bits < 2 ^ P.bits := Nat.mod_lt _ hB
  by_cases hk : j / 2 ^ P.bits = id / 2 ^ P.bits
  · have hji : j = id ↔ j % 2 ^ P.bits = id % 2 ^ P.bits := by
      constructor
      · intro h; rw [h]
      · intro h
        have a1 := Nat.div_add_mod j (2 ^ P.bits)
        have a2 := Nat.div_add_mod id (2 ^ P.bits)
        rw [hk, h] at a1; omega
    simp only [hk, if_true, Array.getD_eq_getD_getElem?, Array.getElem?_setIfInBounds,
      Array.isEmpty_iff_size_eq_zero]
    by_cases hm : j % 2 ^ P.bits = id % 2 ^ P.bits
    · simp only [hji.2 hm, if_true]
      split
      · simp [hr]
      · next hne =>
        have : id % 2 ^ P.bits < (bl[id / 2 ^ P.bits]?.getD #[]).size := by
          rw [Array.getD_eq_getD_getElem?] at hq; omega
        simp [this]
    · have hne : ¬ j = id := fun h => hm (hji.1 h)
      simp only [hne, Ne.symm hm, if_false]
      split
      · next hz =>
        rw [Array.getElem?_replicate, Array.getElem?_eq_none (by omega)]
        split <;> rfl
      · rfl
  · have hne : ¬ j = id := fun h => hk (by rw [h])
    simp [hk, hne]

theorem Flex.blocksOk_setDense (P : FlexParams) (e : V) (bl : Array (Array V)) (id : Nat) (v : V)
    (hok : BlocksOk P bl) : BlocksOk P (Flex.setDense P e bl id v) := by
  intro k
  rw [Flex.blockAt_setDense]
  split
  · rw [Array.size_setIfInBounds]
    split
    · right; simp
    · next hne =>
      have := hok (id / 2 ^ P.bits)
      rw [Array.isEmpty_iff_size_eq_zero] at hne
      omega
  · exact hok k


theorem Flex.foldl_setDense (P : FlexParams) (e : V) : ∀ (es : List (Nat × V)) (bl : Array (Array V)),
    BlocksOk P bl →
    BlocksOk P (es.foldl (fun bl p => Flex.setDense P e bl p.1 p.2) bl) ∧
    ∀ j, Flex.getDense P e (es.foldl (fun bl p => Flex.setDense P e bl p.1 p.2) bl) j =
      (specOf es.reverse j).getD (Flex.getDense P e bl j) := by
  intro es
  induction es with
  | nil => intro bl hok; exact ⟨hok, fun j => by simp [specOf]⟩
  | cons p t ih =>
    intro bl hok
    obtain ⟨h1, h2⟩ := ih (Flex.setDense P e bl p.1 p.2) (Flex.blocksOk_setDense P e bl p.1 p.2 hok)
    refine ⟨h1, fun j => ?_⟩
    simp only [List.foldl_cons, List.reverse_cons]
    rw [h2 j, Flex.getDense_setDense P e bl p.1 p.2 hok, specOf_append]
    cases hs : specOf t.reverse j with
    | some w => simp
    | none =>
      obtain ⟨k, w⟩ := p
      by_cases hj : j = k
      · simp [specOf, hj]
      · simp [specOf, hj, Ne.symm hj]

/-- representation invariant of FlexMem -/
def FlexRep (P : FlexParams) (e : V) (s : Flex V) (h : Hist V) : Prop :=
  BlocksOk P s.blocks ∧
  (if s.dense then DenseRep e (Flex.getDense P e s.blocks) h
   else s.sparse.toList.Perm h ∧ ∀ j, Flex.getDense P e s.blocks j = e)

def FlexReady (s : Flex V) : Prop := s.dense = true ∨ SortedKeys s.sparse.toList

theorem FlexRep.dense_iff {P : FlexParams} {e : V} {s : Flex V} {h : Hist V} (hdn : s.dense = true) :
    FlexRep P e s h ↔ BlocksOk P s.blocks ∧ DenseRep e (Flex.getDense P e s.blocks) h := by
  unfold FlexRep; rw [if_pos hdn]

theorem FlexRep.sparse_iff {P : FlexParams} {e : V} {s : Flex V} {h : Hist V} (hdn : s.dense = false) :
    FlexRep P e s h ↔ BlocksOk P s.blocks ∧ s.sparse.toList.Perm h ∧
      ∀ j, Flex.getDense P e s.blocks j = e := by
  unfold FlexRep; rw [if_neg (by simp [hdn])]

/-- `switch_to_dense()` keeps the represented map -/
theorem Flex.switch_rep (P : FlexParams) (e : V) (s : Flex V) (h : Hist V)
    (hr : FlexRep P e s h) (hd : DistinctIds h) :
    FlexRep P e (Flex.switchToDense P e s) h ∧ (Flex.switchToDense P e s).dense = true := by
  unfold Flex.switchToDense
  cases hdn : s.dense with
  | true => rw [if_pos rfl]; exact ⟨hr, hdn⟩
  | false =>
    rw [if_neg (by simp)]
    obtain ⟨hok, hperm, hempty⟩ := (FlexRep.sparse_iff hdn).1 hr
    rw [← Array.foldl_toList]
    obtain ⟨h1, h2⟩ := Flex.foldl_setDense P e s.sparse.toList s.blocks hok
    refine ⟨(FlexRep.dense_iff rfl).2 ⟨h1, ?_⟩, rfl⟩
    intro j
    show Flex.getDense P e (List.foldl _ s.blocks s.sparse.toList) j = _
    rw [h2 j, hempty j]
    have hd' : DistinctIds s.sparse.toList.reverse :=
      hd.perm ((List.reverse_perm _).trans hperm).symm
    rw [specOf_perm hd' ((List.reverse_perm _).trans hperm) j]

theorem Flex.setSparse_cases (P : FlexParams) (e : V) (s : Flex V) (id : Nat) (v : V) :
    let s1 : Flex V := { s with sparse := s.sparse.push (id, v) }
    Flex.setSparse P e s id v = s1 ∨ Flex.setSparse P e s id v = { s1 with maxId := id } ∨
    Flex.setSparse P e s id v = Flex.switchToDense P e { s1 with maxId := id } := by
  intro s1
  unfold Flex.setSparse
  simp only
  split
  · split
    · split
      · exact Or.inr (Or.inr rfl)
      · exact Or.inr (Or.inl rfl)
    · exact Or.inr (Or.inl rfl)
  · exact Or.inl rfl

theorem Flex.set_rep (P : FlexParams) (e : V) (s : Flex V) (h : Hist V) (id : Nat) (v : V)
    (hr : FlexRep P e s h) (hd : DistinctIds ((id, v) :: h)) :
    FlexRep P e (Flex.set P e s id v) ((id, v) :: h) := by
  unfold Flex.set
  cases hdn : s.dense with
  | true =>
    rw [if_pos rfl]
    obtain ⟨hok, hrest⟩ := (FlexRep.dense_iff hdn).1 hr
    exact (FlexRep.dense_iff rfl).2
      ⟨Flex.blocksOk_setDense P e s.blocks id v hok,
       hrest.set (fun j => Flex.getDense_setDense P e s.blocks id v hok j)⟩
  | false =>
    rw [if_neg (by simp)]
    obtain ⟨hok, hperm, hempty⟩ := (FlexRep.sparse_iff hdn).1 hr
    have hp1 : (s.sparse.push (id, v)).toList.Perm ((id, v) :: h) := by
      rw [Array.toList_push]
      exact (List.perm_append_singleton _ _).trans (List.Perm.cons _ hperm)
    have h1 : ∀ n, FlexRep P e { s with sparse := s.sparse.push (id, v), maxId := n } ((id, v) :: h) :=
      fun n => (FlexRep.sparse_iff (s := { s with sparse := s.sparse.push (id, v), maxId := n }) hdn).2
        ⟨hok, hp1, hempty⟩
    rcases Flex.setSparse_cases P e s id v with hc | hc | hc
    · rw [hc]; exact h1 s.maxId
    · rw [hc]; exact h1 id
    · rw [hc]; exact (Flex.switch_rep P e _ _ (h1 id) hd).1

theorem Flex.set_ready (P : FlexParams) (e : V) (s : Flex V) (h : Hist V) (id : Nat) (v : V)
    (hr : FlexRep P e s h) (hrd : FlexReady s) (hlt : ∀ p ∈ h, p.1 < id) :
    FlexReady (Flex.set P e s id v) := by
  unfold Flex.set
  cases hdn : s.dense with
  | true => rw [if_pos rfl]; exact Or.inl rfl
  | false =>
    rw [if_neg (by simp)]
    obtain ⟨hok, hperm, hempty⟩ := (FlexRep.sparse_iff hdn).1 hr
    have hs : SortedKeys (s.sparse.push (id, v)).toList := by
      rcases hrd with h0 | h0
      · rw [hdn] at h0; exact absurd h0 (by simp)
      · exact sortedKeys_push _ id v h0 (fun p hp' => hlt p (hperm.mem_iff.1 hp'))
    rcases Flex.setSparse_cases P e s id v with hc | hc | hc
    · rw [hc]; exact Or.inr hs
    · rw [hc]; exact Or.inr hs
    · rw [hc]; left; unfold Flex.switchToDense; rw [if_neg (by simp [hdn])]

theorem Flex.getNoexcept_ok (P : FlexParams) (e : V) (s : Flex V) (h : Hist V)
    (hr : FlexRep P e s h) (hrd : FlexReady s) (hd : DistinctIds h) (id : Nat) :
    Flex.getNoexcept P e s id = (specOf h id).getD e := by
  unfold Flex.getNoexcept
  cases hdn : s.dense with
  | true => rw [if_pos rfl]; exact ((FlexRep.dense_iff hdn).1 hr).2 id
  | false =>
    rw [if_neg (by simp)]
    obtain ⟨hok, hperm, hempty⟩ := (FlexRep.sparse_iff hdn).1 hr
    rcases hrd with h0 | h0
    · rw [hdn] at h0; exact absurd h0 (by simp)
    · have := Sparse.get_sorted s.sparse h hperm h0 hd id
      simp only [Sparse.get] at this
      simp only [Sparse.getNoexceptN, this]

def flexLaws (P : FlexParams) (e : V) : Laws (flexImpl P e) e where
  Rep := fun (s : Flex V) h => FlexRep P e s h
  Ready := fun (s : Flex V) => FlexReady s
  rep_init := (FlexRep.sparse_iff (s := ({} : Flex V)) rfl).2
    ⟨fun k => Or.inl (by simp), by simp, fun j => by simp [Flex.getDense_eq]⟩
  ready_init := Or.inr (by simp [flexImpl, SortedKeys])
  rep_set := fun (m : Flex V) h id v hr hd _ => Flex.set_rep P e m h id v hr hd
  rep_sort := fun (m : Flex V) h hr => by
    show FlexRep P e (Flex.sort m) h
    cases hdn : m.dense with
    | true => exact (FlexRep.dense_iff (s := Flex.sort m) hdn).2 ((FlexRep.dense_iff hdn).1 hr)
    | false =>
      obtain ⟨hok, hperm, hempty⟩ := (FlexRep.sparse_iff hdn).1 hr
      exact (FlexRep.sparse_iff (s := Flex.sort m) hdn).2
        ⟨hok, (List.mergeSort_perm _ _).trans hperm, hempty⟩
  ready_sort := fun (m : Flex V) h _ => Or.inr (by
    show SortedKeys (Sparse.sort m.sparse).toList
    exact sortedKeys_mergeSort _)
  ready_set := fun (m : Flex V) h id v hr hrd hlt => Flex.set_ready P e m h id v hr hrd hlt
  getNoexcept_ok := fun (m : Flex V) h hr hrd hd _ id => Flex.getNoexcept_ok P e m h hr hrd hd id
  get_ok := fun (m : Flex V) h hr hrd hd hn id => by
    show Flex.get P e m id = _
    simp only [Flex.get, Flex.getNoexcept_ok P e m h hr hrd hd id]
    cases hs : specOf h id with
    | none => simp
    | some w => simp [specOf_nonEmpty hn hs]

end flex

/-! ### NodeLocationsForWays -/

section nlfw
variable {V : Type}

/-- the entries the storage for positive / negative ids must hold after the nodes `ns` -/
def posPart (ns : List (Int × V)) : Hist V :=
  (ns.filter (fun p => decide (p.1 ≥ 0))).map (fun p => (p.1.toNat, p.2))

def negPart (ns : List (Int × V)) : Hist V :=
  (ns.filter (fun p => !decide (p.1 ≥ 0))).map (fun p => ((-p.1).toNat, p.2))

/-- the location of the node with (signed) id `r` among the nodes `ns` -/
def specSigned : List (Int × V) → Int → Option V
  | [], _ => none
  | (k, v) :: t, r => if k = r then some v else specSigned t r

/-- domain of the handler: distinct node ids, defined locations, ids in (INT64_MIN, INT64_MAX] -/
def NodesOk (e : V) (ns : List (Int × V)) : Prop :=
  (ns.map (·.1)).Nodup ∧ (∀ p ∈ ns, p.2 ≠ e) ∧ (∀ p ∈ ns, p.1.natAbs ≤ idMax)

theorem NodesOk.suffix {e : V} {l1 l2 : List (Int × V)} (h : NodesOk e (l1 ++ l2)) : NodesOk e l2 := by
  obtain ⟨h1, h2, h3⟩ := h
  refine ⟨?_, fun p hp => h2 p (by simp [hp]), fun p hp => h3 p (by simp [hp])⟩
  rw [List.map_append] at h1
  exact (List.nodup_append.1 h1).2.1

theorem posPart_cons (id : Int) (loc : V) (ns : List (Int × V)) :
    posPart ((id, loc) :: ns) = if id ≥ 0 then (id.toNat, loc) :: posPart ns else posPart ns := by
  simp only [posPart, List.filter_cons]
  split <;> simp_all

theorem negPart_cons (id : Int) (loc : V) (ns : List (Int × V)) :
    negPart ((id, loc) :: ns) = if id ≥ 0 then negPart ns else ((-id).toNat, loc) :: negPart ns := by
  simp only [negPart, List.filter_cons]
  split <;> simp_all

theorem mem_posPart {ns : List (Int × V)} {p : Nat × V} (hp : p ∈ posPart ns) :
    ∃ q ∈ ns, q.1 ≥ 0 ∧ p = (q.1.toNat, q.2) := by
  simp only [posPart, List.mem_map, List.mem_filter, decide_eq_true_eq] at hp
  obtain ⟨q, ⟨hq, hge⟩, rfl⟩ := hp
  exact ⟨q, hq, hge, rfl⟩

theorem mem_negPart {ns : List (Int × V)} {p : Nat × V} (hp : p ∈ negPart ns) :
    ∃ q ∈ ns, q.1 < 0 ∧ p = ((-q.1).toNat, q.2) := by
  simp only [negPart, List.mem_map, List.mem_filter, Bool.not_eq_true', decide_eq_false_iff_not] at hp
  obtain ⟨q, ⟨hq, hge⟩, rfl⟩ := hp
  exact ⟨q, hq, by omega, rfl⟩

theorem distinct_posPart {e : V} : ∀ {ns : List (Int × V)}, NodesOk e ns → DistinctIds (posPart ns) := by
  intro ns
  induction ns with
  | nil => intro _; simp [posPart, DistinctIds]
  | cons a t ih =>
    intro h
    obtain ⟨id, loc⟩ := a
    have ht : NodesOk e t := NodesOk.suffix (l1 := [(id, loc)]) h
    rw [posPart_cons]
    split
    · next hge =>
      simp only [DistinctIds, List.map_cons, List.nodup_cons]
      refine ⟨?_, ih ht⟩
      intro hm
      obtain ⟨p, hp, hpe⟩ := List.mem_map.1 hm
      obtain ⟨q, hq, hq0, rfl⟩ := mem_posPart hp
      have hnd := h.1
      simp only [List.map_cons, List.nodup_cons, List.mem_map, not_exists, not_and] at hnd
      have : q.1 = id := by simp at hpe; omega
      exact hnd.1 q hq this
    · exact ih ht

theorem distinct_negPart {e : V} : ∀ {ns : List (Int × V)}, NodesOk e ns → DistinctIds (negPart ns) := by
  intro ns
  induction ns with
  | nil => intro _; simp [negPart, DistinctIds]
  | cons a t ih =>
    intro h
    obtain ⟨id, loc⟩ := a
    have ht : NodesOk e t := NodesOk.suffix (l1 := [(id, loc)]) h
    rw [negPart_cons]
    split
    · exact ih ht
    · next hge =>
      simp only [DistinctIds, List.map_cons, List.nodup_cons]
      refine ⟨?_, ih ht⟩
      intro hm
      obtain ⟨p, hp, hpe⟩ := List.mem_map.1 hm
      obtain ⟨q, hq, hq0, rfl⟩ := mem_negPart hp
      have hnd := h.1
      simp only [List.map_cons, List.nodup_cons, List.mem_map, not_exists, not_and] at hnd
      have : q.1 = id := by simp at hpe; omega
      exact hnd.1 q hq this

theorem nonEmpty_posPart {e : V} {ns : List (Int × V)} (h : NodesOk e ns) : NonEmptyVals e (posPart ns) := by
  intro p hp
  obtain ⟨q, hq, _, rfl⟩ := mem_posPart hp
  exact h.2.1 q hq

theorem nonEmpty_negPart {e : V} {ns : List (Int × V)} (h : NodesOk e ns) : NonEmptyVals e (negPart ns) := by
  intro p hp
  obtain ⟨q, hq, _, rfl⟩ := mem_negPart hp
  exact h.2.1 q hq

/-- lookup in the split storages = lookup by signed id -/
theorem specOf_parts (ns : List (Int × V)) (r : Int) :
    (if r ≥ 0 then specOf (posPart ns) r.toNat else specOf (negPart ns) (-r).toNat) = specSigned ns r := by
  induction ns with
  | nil => simp [posPart, negPart, specOf, specSigned]
  | cons a t ih =>
    obtain ⟨id, loc⟩ := a
    rw [posPart_cons, negPart_cons]
    simp only [specSigned]
    by_cases hid : id ≥ 0 <;> by_cases hr : r ≥ 0 <;> simp only [hid, hr, if_true, if_false, specOf] at ih ⊢
    · by_cases h : id = r
      · simp [h]
      · have : ¬ id.toNat = r.toNat := by omega
        simp [h, this, ih]
    · have : ¬ id = r := by omega
      simp [this, ih]
    · have : ¬ id = r := by omega
      simp [this, ih]
    · by_cases h : id = r
      · simp [h]
      · have : ¬ (-id).toNat = (-r).toNat := by omega
        simp [h, this, ih]

variable {Ip In : Impl V} {e : V}

/-- the handler's invariant: both storages hold the nodes seen so far, and whenever
    `m_must_sort` is false they are ready for lookups and no id exceeds `m_last_id` -/
structure NInv (Lp : Laws Ip e) (Ln : Laws In e) (ign : Bool) (s : NLFW Ip In) (ns : List (Int × V)) : Prop where
  rp : Lp.Rep s.pos (posPart ns)
  rn : Ln.Rep s.neg (negPart ns)
  ign_eq : s.ignoreErrors = ign
  ready : s.mustSort = false → Lp.Ready s.pos ∧ Ln.Ready s.neg ∧ ∀ p ∈ ns, p.1.natAbs ≤ s.lastId

theorem NInv.init (Lp : Laws Ip e) (Ln : Laws In e) (ign : Bool) :
    NInv Lp Ln ign (NLFW.init Ip In ign) [] :=
  ⟨by simpa [NLFW.init, posPart] using Lp.rep_init, by simpa [NLFW.init, negPart] using Ln.rep_init, rfl,
   fun _ => ⟨Lp.ready_init, Ln.ready_init, by simp⟩⟩

theorem NInv.node {Lp : Laws Ip e} {Ln : Laws In e} {ign : Bool} {s : NLFW Ip In} {ns : List (Int × V)}
    (hi : NInv Lp Ln ign s ns) (id : Int) (loc : V) (hok : NodesOk e ((id, loc) :: ns)) :
    NInv Lp Ln ign (s.node id loc) ((id, loc) :: ns) := by
  have hdp := distinct_posPart hok
  have hdn := distinct_negPart hok
  have hnp := nonEmpty_posPart hok
  have hnn := nonEmpty_negPart hok
  rw [posPart_cons] at hdp hnp
  rw [negPart_cons] at hdn hnn
  have hnd := hok.1
  simp only [List.map_cons, List.nodup_cons, List.mem_map, not_exists, not_and] at hnd
  by_cases hge : id ≥ 0
  · simp only [hge, if_true] at hdp hnp hdn hnn
    refine ⟨?_, ?_, ?_, ?_⟩
    · simp only [NLFW.node, hge, if_true]
      rw [posPart_cons, if_pos hge]
      split <;> exact Lp.rep_set _ _ _ _ hi.rp hdp hnp
    · simp only [NLFW.node, hge, if_true]
      rw [negPart_cons, if_pos hge]
      split <;> exact hi.rn
    · simp only [NLFW.node, hge, if_true]
      split <;> exact hi.ign_eq
    · simp only [NLFW.node, hge, if_true]
      split
      · intro h; simp at h
      · next hlt =>
        intro hms
        obtain ⟨r1, r2, r3⟩ := hi.ready hms
        refine ⟨Lp.ready_set _ _ _ _ hi.rp r1 ?_, r2, ?_⟩
        · intro p hp
          obtain ⟨q, hq, hq0, rfl⟩ := mem_posPart hp
          have h1 := r3 q hq
          have h2 : q.1 ≠ id := hnd.1 q hq
          simp only
          omega
        · intro p hp
          rcases List.mem_cons.1 hp with rfl | hp
          · simp
          · have := r3 p hp; omega
  · simp only [hge, if_false] at hdp hnp hdn hnn
    refine ⟨?_, ?_, ?_, ?_⟩
    · simp only [NLFW.node, hge, if_false]
      rw [posPart_cons, if_neg hge]
      split <;> exact hi.rp
    · simp only [NLFW.node, hge, if_false]
      rw [negPart_cons, if_neg hge]
      split <;> exact Ln.rep_set _ _ _ _ hi.rn hdn hnn
    · simp only [NLFW.node, hge, if_false]
      split <;> exact hi.ign_eq
    · simp only [NLFW.node, hge, if_false]
      split
      · intro h; simp at h
      · next hlt =>
        intro hms
        obtain ⟨r1, r2, r3⟩ := hi.ready hms
        refine ⟨r1, Ln.ready_set _ _ _ _ hi.rn r2 ?_, ?_⟩
        · intro p hp
          obtain ⟨q, hq, hq0, rfl⟩ := mem_negPart hp
          have h1 := r3 q hq
          have h2 : q.1 ≠ id := hnd.1 q hq
          simp only
          omega
        · intro p hp
          rcases List.mem_cons.1 hp with rfl | hp
          · simp
          · have := r3 p hp; omega

/-- after the sort step at the start of `way()` both storages are ready for lookups -/
theorem NInv.prepare {Lp : Laws Ip e} {Ln : Laws In e} {ign : Bool} {s : NLFW Ip In} {ns : List (Int × V)}
    (hi : NInv Lp Ln ign s ns) (hok : NodesOk e ns) :
    NInv Lp Ln ign s.prepare ns ∧ s.prepare.mustSort = false := by
  unfold NLFW.prepare
  cases hms : s.mustSort with
  | true =>
    rw [if_pos rfl]
    exact ⟨⟨Lp.rep_sort _ _ hi.rp, Ln.rep_sort _ _ hi.rn, hi.ign_eq,
      fun _ => ⟨Lp.ready_sort _ _ hi.rp, Ln.ready_sort _ _ hi.rn, hok.2.2⟩⟩, rfl⟩
  | false =>
    rw [if_neg (by simp)]
    exact ⟨hi, hms⟩

/-- what every node ref of a way must receive -/
def specLoc (e : V) (ns : List (Int × V)) (r : Int) : V := (specSigned ns r).getD e

theorem NInv.lookup {Lp : Laws Ip e} {Ln : Laws In e} {ign : Bool} {s : NLFW Ip In} {ns : List (Int × V)}
    (hi : NInv Lp Ln ign s ns) (hms : s.mustSort = false) (hok : NodesOk e ns) (r : Int) :
    s.getNodeLocation r = specLoc e ns r := by
  obtain ⟨r1, r2, _⟩ := hi.ready hms
  unfold NLFW.getNodeLocation specLoc
  rw [← specOf_parts]
  by_cases hr : r ≥ 0
  · simp only [hr, if_true]
    exact Lp.getNoexcept_ok _ _ hi.rp r1 (distinct_posPart hok) (nonEmpty_posPart hok) _
  · simp only [hr, if_false]
    exact Ln.getNoexcept_ok _ _ hi.rn r2 (distinct_negPart hok) (nonEmpty_negPart hok) _

theorem NInv.setIgnoreErrors {Lp : Laws Ip e} {Ln : Laws In e} {ign : Bool} {s : NLFW Ip In}
    {ns : List (Int × V)} (hi : NInv Lp Ln ign s ns) : NInv Lp Ln true s.setIgnoreErrors ns :=
  ⟨hi.rp, hi.rn, rfl, hi.ready⟩

/-- the loop of `way()` in closed form: every ref gets `get_node_location(ref)`, whatever it carried;
    `error` is set iff one of those locations is not `ok` -/
theorem NLFW.wayLoop_eq (ok : V → Bool) (s : NLFW Ip In) : ∀ (refs : List (NRef V)) (error : Bool),
    s.wayLoop ok refs error =
      (refs.map (fun r => (r.1, s.getNodeLocation r.1)),
       error || refs.any (fun r => !ok (s.getNodeLocation r.1))) := by
  intro refs
  induction refs with
  | nil => intro error; simp [NLFW.wayLoop]
  | cons r t ih =>
    intro error
    obtain ⟨ref, carried⟩ := r
    simp only [NLFW.wayLoop, ih, List.map_cons, List.any_cons]
    cases ok (s.getNodeLocation ref) <;> cases error <;> simp

/-- the ids of the node refs of a way -/
def refIds (refs : List (NRef V)) : List Int := refs.map (·.1)

/-- The property's clause for one way with the ref ids `ids`, after the nodes `ns`: every ref carries
    the location of the node with that id (`e` = undefined if there is none); `not_found` iff some
    ref ends without an `ok` location and errors are not ignored.  Nothing else enters. -/
def specWay (ok : V → Bool) (e : V) (ign : Bool) (ns : List (Int × V)) (ids : List Int) :
    List (NRef V) × Bool :=
  let out := ids.map (fun r => (r, specLoc e ns r))
  (out, !ign && out.any (fun r => !ok r.2))

theorem refIds_specWay (ok : V → Bool) (e : V) (ign : Bool) (ns : List (Int × V)) (ids : List Int) :
    refIds (specWay ok e ign ns ids).1 = ids := by
  simp [refIds, specWay, Function.comp_def]

theorem NInv.way {Lp : Laws Ip e} {Ln : Laws In e} {ign : Bool} {s : NLFW Ip In} {ns : List (Int × V)}
    (hi : NInv Lp Ln ign s ns) (hok : NodesOk e ns) (ok : V → Bool) (refs : List (NRef V)) :
    NInv Lp Ln ign (s.way ok refs).1 ns ∧ (s.way ok refs).2 = specWay ok e ign ns (refIds refs) := by
  obtain ⟨hp, hms⟩ := hi.prepare hok
  refine ⟨hp, ?_⟩
  simp only [NLFW.way, NLFW.wayLoop_eq, specWay, refIds, Bool.false_or, List.map_map, List.any_map]
  have hl : ∀ r : Int, s.prepare.getNodeLocation r = specLoc e ns r := fun r => hp.lookup hms hok r
  simp only [Function.comp_def, hl, hp.ign_eq]

/-- a permutation of the nodes (distinct ids) is the same map -/
theorem specSigned_perm {ns ns' : List (Int × V)} (hok : NodesOk e ns) (hp : ns.Perm ns') (r : Int) :
    specSigned ns r = specSigned ns' r := by
  have hok' : NodesOk e ns' :=
    ⟨(hp.map _).nodup_iff.1 hok.1, fun p h => hok.2.1 p (hp.mem_iff.2 h), fun p h => hok.2.2 p (hp.mem_iff.2 h)⟩
  rw [← specOf_parts ns r, ← specOf_parts ns' r]
  by_cases hr : r ≥ 0
  · simp only [hr, if_true]
    exact specOf_perm (distinct_posPart hok) ((hp.filter _).map _) _
  · simp only [hr, if_false]
    exact specOf_perm (distinct_negPart hok) ((hp.filter _).map _) _

theorem specWay_perm {ns ns' : List (Int × V)} (hok : NodesOk e ns) (hp : ns.Perm ns') (ok : V → Bool)
    (ign : Bool) (ids : List Int) : specWay ok e ign ns ids = specWay ok e ign ns' ids := by
  have : ∀ r, specLoc e ns r = specLoc e ns' r := fun r => by
    unfold specLoc; rw [specSigned_perm hok hp r]
  simp only [specWay, this]

/-- `specSigned` is "the node with that id": `some v` iff the node `(r, v)` arrived, `none` iff no node
    with id `r` arrived -/
theorem specSigned_iff_mem {ns : List (Int × V)} (hnd : (ns.map (·.1)).Nodup) (r : Int) (v : V) :
    specSigned ns r = some v ↔ (r, v) ∈ ns := by
  induction ns with
  | nil => simp [specSigned]
  | cons a t ih =>
    obtain ⟨k, w⟩ := a
    simp only [List.map_cons, List.nodup_cons, List.mem_map, not_exists, not_and] at hnd
    simp only [specSigned, List.mem_cons, Prod.mk.injEq]
    by_cases h : k = r
    · subst h
      simp only [if_true, Option.some.injEq, true_and]
      constructor
      · intro h; exact Or.inl h.symm
      · rintro (h | h)
        · exact h.symm
        · exact absurd rfl (hnd.1 (k, v) h)
    · simp only [h, if_false, ih hnd.2]
      constructor
      · intro hm; exact Or.inr hm
      · rintro (⟨h1, _⟩ | hm)
        · exact absurd h1.symm h
        · exact hm

theorem specSigned_eq_none_iff {ns : List (Int × V)} (r : Int) :
    specSigned ns r = none ↔ r ∉ ns.map (·.1) := by
  induction ns with
  | nil => simp [specSigned]
  | cons a t ih =>
    obtain ⟨k, w⟩ := a
    simp only [specSigned, List.map_cons, List.mem_cons, not_or]
    by_cases h : k = r
    · simp [h]
    · simp only [h, if_false, ih]
      constructor
      · intro hm; exact ⟨fun h' => h h'.symm, hm⟩
      · intro hm; exact hm.2

def nodesOf : List (Ev V) → List (Int × V)
  | [] => []
  | .node id loc :: rest => (id, loc) :: nodesOf rest
  | _ :: rest => nodesOf rest

/-- Domain of a stream: within one handler life (up to the next `fresh`) the node ids are distinct,
    the node locations are not the undefined location and |id| ≤ 2^64-1; no `clear()` (which makes the
    handler unusable).  `ns` = the nodes of the current handler life so far, newest first. -/
def EvsOk (e : V) : List (Int × V) → List (Ev V) → Prop
  | ns, [] => NodesOk e ns
  | ns, .node id loc :: rest => EvsOk e ((id, loc) :: ns) rest
  | ns, .way _ :: rest => EvsOk e ns rest
  | ns, .again _ :: rest => EvsOk e ns rest
  | ns, .ignoreErrors :: rest => EvsOk e ns rest
  | _, .clear :: _ => False
  | ns, .fresh :: rest => NodesOk e ns ∧ EvsOk e [] rest

theorem EvsOk.nodesOk : ∀ {evs : List (Ev V)} {ns : List (Int × V)}, EvsOk e ns evs → NodesOk e ns := by
  intro evs
  induction evs with
  | nil => intro ns h; exact h
  | cons ev rest ih =>
    intro ns h
    cases ev with
    | node id loc => exact NodesOk.suffix (l1 := [(id, loc)]) (ih (ns := (id, loc) :: ns) h)
    | way refs => exact ih (ns := ns) h
    | again k => exact ih (ns := ns) h
    | ignoreErrors => exact ih (ns := ns) h
    | clear => exact absurd h (by simp [EvsOk])
    | fresh => exact h.1

/-- The specification of a whole stream.  State: the `ignore_errors` setting, the nodes of the
    current handler life (newest first), and of every way object created so far ONLY ITS REF IDS —
    the locations a way object carries when it is passed to the handler (again) do not enter. -/
def specRun (ok : V → Bool) (e : V) :
    Bool → List (Int × V) → List (List Int) → List (Ev V) → List (List (NRef V) × Bool)
  | _, _, _, [] => []
  | ign, ns, ws, .node id loc :: rest => specRun ok e ign ((id, loc) :: ns) ws rest
  | ign, ns, ws, .way refs :: rest =>
    specWay ok e ign ns (refIds refs) :: specRun ok e ign ns (ws ++ [refIds refs]) rest
  | ign, ns, ws, .again k :: rest => specWay ok e ign ns (ws.getD k []) :: specRun ok e ign ns ws rest
  | _, ns, ws, .ignoreErrors :: rest => specRun ok e true ns ws rest
  | ign, ns, ws, .clear :: rest => specRun ok e ign ns ws rest
  | ign, _, ws, .fresh :: rest => specRun ok e ign [] ws rest

theorem map_setNth_same {α β : Type} (f : α → β) (d : α) : ∀ (ws : List α) (k : Nat) (x : α),
    f x = f (ws.getD k d) → (setNth ws k x).map f = ws.map f := by
  intro ws
  induction ws with
  | nil => intro k x _; simp [setNth]
  | cons a t ih =>
    intro k x h
    cases k with
    | zero => simp only [setNth, List.map_cons]; rw [h]; simp
    | succ k =>
      simp only [setNth, List.map_cons]
      rw [ih k x (by simpa using h)]

theorem getD_map_refIds (ws : List (List (NRef V))) (k : Nat) :
    (ws.map refIds).getD k [] = refIds (ws.getD k []) := by
  simp only [List.getD_eq_getElem?_getD, List.getElem?_map]
  cases ws[k]? <;> simp [refIds]

theorem NInv.run {Lp : Laws Ip e} {Ln : Laws In e} (ok : V → Bool) (ign0 : Bool) :
    ∀ (evs : List (Ev V)) (c : RunSt Ip In) (ign : Bool) (ns : List (Int × V)), NInv Lp Ln ign c.h ns →
      EvsOk e ns evs →
      (NLFW.run ok (NLFW.init Ip In ign0) c evs).2 = specRun ok e ign ns (c.ways.map refIds) evs := by
  intro evs
  induction evs with
  | nil => intro c ign ns _ _; simp [NLFW.run, specRun]
  | cons ev rest ih =>
    intro c ign ns hi hok
    cases ev with
    | node id loc =>
      simp only [NLFW.run, specRun]
      exact ih _ _ _ (hi.node id loc (EvsOk.nodesOk (ns := (id, loc) :: ns) hok)) hok
    | way refs =>
      have hok' : EvsOk e ns rest := hok
      obtain ⟨hp, hw⟩ := hi.way hok'.nodesOk ok refs
      simp only [NLFW.run, specRun]
      rw [hw, ih _ ign ns hp hok']
      simp only [List.map_append, List.map_cons, List.map_nil, refIds_specWay]
    | again k =>
      have hok' : EvsOk e ns rest := hok
      obtain ⟨hp, hw⟩ := hi.way hok'.nodesOk ok (c.ways.getD k [])
      simp only [NLFW.run, specRun]
      rw [hw, ih _ ign ns hp hok']
      simp only [getD_map_refIds]
      rw [map_setNth_same refIds [] c.ways k _ (by rw [refIds_specWay])]
    | ignoreErrors =>
      have hok' : EvsOk e ns rest := hok
      simp only [NLFW.run, specRun]
      exact ih _ _ _ hi.setIgnoreErrors hok'
    | clear => exact absurd hok (by simp [EvsOk])
    | fresh =>
      have hok' : EvsOk e [] rest := hok.2
      simp only [NLFW.run, specRun]
      have hf : NInv Lp Ln ign ({ NLFW.init Ip In ign0 with ignoreErrors := c.h.ignoreErrors }) [] := by
        have := NInv.init Lp Ln ign
        rw [← hi.ign_eq] at this ⊢
        exact this
      exact ih _ _ _ hf hok'

end nlfw

/-! ### mmap_vector_base (under the OS contract `GrowOk`) -/

section mmap
variable {T : Type} [DecidableEq T]

theorem size_fill (x : T) : ∀ (n lo : Nat) (a : Array T), (fill x n lo a).size = a.size := by
  intro n
  induction n with
  | zero => intro lo a; rfl
  | succ n ih => intro lo a; simp [fill, ih]

theorem getElem?_fill (x : T) : ∀ (n lo : Nat) (a : Array T) (j : Nat),
    (fill x n lo a)[j]? = if lo ≤ j ∧ j < lo + n ∧ j < a.size then some x else a[j]? := by
  intro n
  induction n with
  | zero => intro lo a j; simp [fill]; omega
  | succ n ih =>
    intro lo a j
    simp only [fill, ih, Array.size_setIfInBounds, Array.getElem?_setIfInBounds]
    grind

/-- what `reserve` leaves in the mapping: old content, then empty values -/
theorem reserve_spec (g : Grow T) (hg : GrowOk g) (e : T) (mv : MmapVec T) (newCap : Nat)
    (hc : newCap > mv.data.size) :
    (mv.reserve g e newCap).size = mv.size ∧ (mv.reserve g e newCap).data.size = newCap ∧
    ∀ j, (mv.reserve g e newCap).data[j]? =
      if j < mv.data.size then mv.data[j]? else if j < newCap then some e else none := by
  obtain ⟨h1, h2⟩ := hg mv.data newCap (Nat.le_of_lt hc)
  simp only [MmapVec.reserve, hc, if_true]
  refine ⟨trivial, by rw [size_fill, h1], fun j => ?_⟩
  rw [getElem?_fill, h1]
  by_cases hj : j < mv.data.size
  · rw [if_neg (by omega), if_pos hj]; exact h2 j hj
  · rw [if_neg hj]
    by_cases hj2 : j < newCap
    · rw [if_pos ⟨by omega, by omega, hj2⟩, if_pos hj2]
    · rw [if_neg (by omega), if_neg hj2]
      exact Array.getElem?_eq_none (by omega)

/-- `[m_size, capacity)` reads as the empty value -/
def MInv (e : T) (mv : MmapVec T) : Prop :=
  mv.size ≤ mv.data.size ∧ ∀ j, mv.size ≤ j → j < mv.data.size → mv.data[j]? = some e

theorem resize_spec (g : Grow T) (hg : GrowOk g) (inc : Nat) (e : T) (mv : MmapVec T) (n : Nat) :
    (mv.resize g inc e n).size = n ∧ n ≤ (mv.resize g inc e n).data.size ∧
    mv.data.size ≤ (mv.resize g inc e n).data.size ∧
    ∀ j, (mv.resize g inc e n).data[j]? =
      if j < mv.data.size then mv.data[j]?
      else if j < (mv.resize g inc e n).data.size then some e else none := by
  simp only [MmapVec.resize]
  by_cases hc : n > mv.data.size
  · simp only [hc, if_true]
    obtain ⟨_, h2, h3⟩ := reserve_spec g hg e mv (n + inc) (by omega)
    refine ⟨trivial, by omega, by omega, fun j => ?_⟩
    rw [h3 j, h2]
  · simp only [hc, if_false]
    refine ⟨trivial, by omega, Nat.le_refl _, fun j => ?_⟩
    by_cases hj : j < mv.data.size
    · simp [hj]
    · simp [hj]

end mmap

section mdense
variable {V : Type} [DecidableEq V]

theorem MDense.set_spec (g : Grow V) (hg : GrowOk g) (inc : Nat) (e : V) (mv : MmapVec V)
    (hi : MInv e mv) (id : Nat) (v : V) :
    MInv e (MDense.set g inc e mv id v) ∧
    ∀ j, (MDense.set g inc e mv id v).data.getD j e = if j = id then v else mv.data.getD j e := by
  obtain ⟨hsz, hfill⟩ := hi
  simp only [MDense.set]
  by_cases hle : mv.size ≤ id
  · simp only [hle, if_true]
    obtain ⟨r1, r2, r3, r4⟩ := resize_spec g hg inc e mv (id + 1)
    generalize mv.resize g inc e (id + 1) = mv' at *
    obtain ⟨d', s'⟩ := mv'
    simp only at r1 r2 r3 r4 ⊢
    subst r1
    refine ⟨⟨by simp only [Array.size_setIfInBounds]; omega, fun j h1 h2 => ?_⟩, fun j => ?_⟩
    · simp only [Array.size_setIfInBounds] at h1 h2
      simp only [Array.getElem?_setIfInBounds, r4 j]
      rw [if_neg (by omega)]
      by_cases hj : j < mv.data.size
      · rw [if_pos hj]; exact hfill j (by omega) hj
      · rw [if_neg hj, if_pos h2]
    · simp only [Array.getD_eq_getD_getElem?, Array.getElem?_setIfInBounds, r4 j]
      by_cases hj : j = id
      · have hlt : id < d'.size := by omega
        simp [hj, hlt]
      · rw [if_neg (Ne.symm hj), if_neg hj]
        by_cases hj2 : j < mv.data.size
        · rw [if_pos hj2]
        · rw [if_neg hj2, Array.getElem?_eq_none (Nat.le_of_not_lt hj2)]
          split <;> rfl
  · simp only [hle, if_false]
    refine ⟨⟨by simpa using hsz, fun j h1 h2 => ?_⟩, fun j => ?_⟩
    · simp only [Array.size_setIfInBounds] at h1 h2
      simp only [Array.getElem?_setIfInBounds]
      rw [if_neg (by omega)]; exact hfill j h1 h2
    · simp only [Array.getD_eq_getD_getElem?, Array.getElem?_setIfInBounds]
      by_cases hj : j = id
      · have hlt : id < mv.data.size := by omega
        simp [hj, hlt]
      · rw [if_neg (Ne.symm hj), if_neg hj]

theorem MDense.get_eq (e : V) (mv : MmapVec V) (hi : MInv e mv) (id : Nat) :
    MDense.get e mv id = if mv.data.getD id e = e then none else some (mv.data.getD id e) := by
  simp only [MDense.get]
  split
  · next h =>
    have : mv.data.getD id e = e := by
      rw [Array.getD_eq_getD_getElem?]
      by_cases h2 : id < mv.data.size
      · rw [hi.2 id h h2]; rfl
      · rw [Array.getElem?_eq_none (Nat.le_of_not_lt h2)]; rfl
    simp [this]
  · rfl

theorem MDense.getNoexcept_eq (e : V) (mv : MmapVec V) (hi : MInv e mv) (id : Nat) :
    MDense.getNoexcept e mv id = mv.data.getD id e := by
  simp only [MDense.getNoexcept]
  split
  · next h =>
    rw [Array.getD_eq_getD_getElem?]
    by_cases h2 : id < mv.data.size
    · rw [hi.2 id h h2]; rfl
    · rw [Array.getElem?_eq_none (Nat.le_of_not_lt h2)]; rfl
  · rfl

theorem MInv.init (g : Grow V) (hg : GrowOk g) (inc : Nat) (e : V) :
    MInv e (MmapVec.init g inc e) ∧ ∀ j, (MmapVec.init g inc e).data.getD j e = e := by
  obtain ⟨h1, _⟩ := hg #[] inc (Nat.zero_le _)
  have hget : ∀ j, (fill e inc 0 (g #[] inc))[j]? = if j < inc then some e else none := by
    intro j
    rw [getElem?_fill, h1]
    by_cases hj : j < inc
    · rw [if_pos ⟨Nat.zero_le _, by omega, hj⟩, if_pos hj]
    · rw [if_neg (by omega), if_neg hj]; exact Array.getElem?_eq_none (by omega)
  refine ⟨⟨Nat.zero_le _, fun j _ h2 => ?_⟩, fun j => ?_⟩
  · simp only [MmapVec.init, size_fill, h1] at h2 ⊢
    rw [hget j, if_pos h2]
  · simp only [MmapVec.init, Array.getD_eq_getD_getElem?, hget j]
    split <;> rfl

/-- dense_mmap_array / dense_file_array, under the OS contract -/
def mdenseLaws (g : Grow V) (hg : GrowOk g) (inc : Nat) (e : V) : Laws (mdenseImpl g inc e) e where
  Rep := fun (mv : MmapVec V) h => MInv e mv ∧ DenseRep e (fun j => mv.data.getD j e) h
  Ready := fun _ => True
  rep_init := ⟨(MInv.init g hg inc e).1, fun j => by
    show (MmapVec.init g inc e).data.getD j e = _
    rw [(MInv.init g hg inc e).2 j]; simp [specOf]⟩
  ready_init := trivial
  rep_set := fun (m : MmapVec V) h id v hr _ _ =>
    ⟨(MDense.set_spec g hg inc e m hr.1 id v).1, hr.2.set (MDense.set_spec g hg inc e m hr.1 id v).2⟩
  rep_sort := fun _ _ hr => hr
  ready_sort := fun _ _ _ => trivial
  ready_set := fun _ _ _ _ _ _ _ => trivial
  get_ok := fun (m : MmapVec V) h hr _ _ hn id => by
    show MDense.get e m id = _
    rw [MDense.get_eq e m hr.1]; exact hr.2.get hn id
  getNoexcept_ok := fun (m : MmapVec V) h hr _ _ _ id => by
    show MDense.getNoexcept e m id = _
    rw [MDense.getNoexcept_eq e m hr.1]; exact hr.2 id

end mdense

/-! ### dump_as_array of the sparse vector maps: window arithmetic -/

section dump
variable {V : Type} [DecidableEq V]

theorem dumpInner_nil (e : V) (n pos : Nat) (acc : Array V) : dumpInner e n pos [] acc = (acc, []) := by
  cases n <;> rfl

/-- two consecutive windows are one longer window: the buffer boundaries are invisible -/
theorem dumpInner_add (e : V) : ∀ (n m pos : Nat) (es : List (Nat × V)) (acc : Array V),
    dumpInner e (n + m) pos es acc =
      dumpInner e m (pos + n) (dumpInner e n pos es acc).2 (dumpInner e n pos es acc).1 := by
  intro n
  induction n with
  | zero => intro m pos es acc; simp [dumpInner]
  | succ n ih =>
    intro m pos es acc
    have e1 : n + 1 + m = (n + m) + 1 := by omega
    rw [e1]
    cases es with
    | nil => simp [dumpInner, dumpInner_nil]
    | cons p t =>
      obtain ⟨k, v⟩ := p
      have e2 : pos + (n + 1) = pos + 1 + n := by omega
      simp only [dumpInner, e2]
      split
      · exact ih m (pos + 1) t (acc.push v)
      · exact ih m (pos + 1) ((k, v) :: t) (acc.push e)

theorem dumpOuter_eq (bs : Nat) (e : V) : ∀ (f start : Nat) (es : List (Nat × V)) (acc : Array V),
    (dumpInner e (f * bs) start es acc).2 = [] →
    dumpOuter bs e f start es acc = some (dumpInner e (f * bs) start es acc).1 := by
  intro f
  induction f with
  | zero =>
    intro start es acc h
    simp only [Nat.zero_mul, dumpInner] at h
    subst h
    simp [dumpOuter, dumpInner]
  | succ f ih =>
    intro start es acc h
    cases es with
    | nil => simp [dumpOuter, dumpInner_nil]
    | cons p t =>
      have e1 : (f + 1) * bs = bs + f * bs := by rw [Nat.succ_mul, Nat.add_comm]
      rw [e1, dumpInner_add] at h ⊢
      simp only [dumpOuter]
      exact ih _ _ _ h

def StrictAsc (l : List (Nat × V)) : Prop := l.Pairwise (fun p q => p.1 < q.1)

/-- one past the last key (or `d` for the empty list) -/
def topKey : List (Nat × V) → Nat → Nat
  | [], d => d
  | (k, _) :: t, _ => topKey t (k + 1)

theorem topKey_bounds : ∀ (es : List (Nat × V)) (d : Nat), StrictAsc es → (∀ p ∈ es, d ≤ p.1) →
    d ≤ topKey es d ∧ ∀ p ∈ es, p.1 < topKey es d := by
  intro es
  induction es with
  | nil => intro d _ _; simp [topKey]
  | cons a t ih =>
    intro d hs hd
    obtain ⟨k, v⟩ := a
    simp only [StrictAsc, List.pairwise_cons] at hs
    obtain ⟨h1, h2⟩ := ih (k + 1) hs.2 (fun p hp => hs.1 p hp)
    have hk := hd (k, v) List.mem_cons_self
    simp only [topKey]
    refine ⟨by simp at hk; omega, fun p hp => ?_⟩
    rcases List.mem_cons.1 hp with rfl | hp
    · simp; omega
    · exact h2 p hp

theorem topKey_witness : ∀ (es : List (Nat × V)) (d : Nat),
    topKey es d = d ∧ es = [] ∨ ∃ p ∈ es, topKey es d = p.1 + 1 := by
  intro es
  induction es with
  | nil => intro d; simp [topKey]
  | cons a t ih =>
    intro d
    obtain ⟨k, v⟩ := a
    simp only [topKey]
    rcases ih (k + 1) with ⟨h, ht⟩ | ⟨p, hp, h⟩
    · exact Or.inr ⟨(k, v), List.mem_cons_self, h⟩
    · exact Or.inr ⟨p, List.mem_cons_of_mem _ hp, h⟩

theorem specOf_none_of_lt (es : List (Nat × V)) (pos : Nat) (h : ∀ p ∈ es, pos < p.1) :
    specOf es pos = none := by
  rw [specOf_eq_none_iff]
  intro hm
  obtain ⟨p, hp, rfl⟩ := List.mem_map.1 hm
  exact Nat.lt_irrefl _ (h p hp)

/-- the un-windowed loop writes exactly the dense image of the (strictly ascending) entries -/
theorem dumpInner_spec (e : V) : ∀ (N pos : Nat) (es : List (Nat × V)) (acc : Array V),
    StrictAsc es → (∀ p ∈ es, pos ≤ p.1) → (∀ p ∈ es, p.1 < pos + N) →
    (dumpInner e N pos es acc).2 = [] ∧
    (dumpInner e N pos es acc).1.size = acc.size + (topKey es pos - pos) ∧
    (∀ i, i < acc.size → (dumpInner e N pos es acc).1[i]? = acc[i]?) ∧
    (∀ i, i < topKey es pos - pos →
      (dumpInner e N pos es acc).1[acc.size + i]? = some ((specOf es (pos + i)).getD e)) := by
  intro N
  induction N with
  | zero =>
    intro pos es acc _ h1 h2
    cases es with
    | nil => simp [dumpInner, topKey]
    | cons p t => have a1 := h1 p List.mem_cons_self; have a2 := h2 p List.mem_cons_self; omega
  | succ N ih =>
    intro pos es acc hs h1 h2
    cases es with
    | nil => simp [dumpInner, topKey]
    | cons p t =>
      obtain ⟨k, v⟩ := p
      have hk1 := h1 (k, v) List.mem_cons_self
      have hk2 := h2 (k, v) List.mem_cons_self
      simp only at hk1 hk2
      have hs' := hs
      simp only [StrictAsc, List.pairwise_cons] at hs'
      simp only [dumpInner]
      by_cases hpk : pos = k
      · subst hpk
        rw [if_pos rfl]
        obtain ⟨r1, r2, r3, r4⟩ := ih (pos + 1) t (acc.push v) hs'.2
          (fun p hp => hs'.1 p hp) (fun p hp => by have := h2 p (List.mem_cons_of_mem _ hp); omega)
        have hT := (topKey_bounds t (pos + 1) hs'.2 (fun p hp => hs'.1 p hp)).1
        simp only [topKey]
        refine ⟨r1, by rw [r2, Array.size_push]; omega, fun i hi => ?_, fun i hi => ?_⟩
        · rw [r3 i (by rw [Array.size_push]; omega), Array.getElem?_push, if_neg (by omega)]
        · cases i with
          | zero =>
            simp only [Nat.add_zero]
            rw [r3 acc.size (by rw [Array.size_push]; omega), Array.getElem?_push, if_pos rfl]
            simp [specOf]
          | succ i =>
            have := r4 i (by omega)
            rw [Array.size_push] at this
            have e1 : acc.size + (i + 1) = acc.size + 1 + i := by omega
            have e2 : pos + (i + 1) = pos + 1 + i := by omega
            rw [e1, this, e2]
            simp only [specOf]
            rw [if_neg (by omega)]
      · rw [if_neg hpk]
        obtain ⟨r1, r2, r3, r4⟩ := ih (pos + 1) ((k, v) :: t) (acc.push e) hs
          (fun p hp => by
            rcases List.mem_cons.1 hp with rfl | hp'
            · simp only; omega
            · have := hs'.1 p hp'; omega)
          (fun p hp => by have := h2 p hp; omega)
        have hT := (topKey_bounds t (k + 1) hs'.2 (fun p hp => hs'.1 p hp)).1
        simp only [topKey] at r2 r4 ⊢
        refine ⟨r1, by rw [r2, Array.size_push]; omega, fun i hi => ?_, fun i hi => ?_⟩
        · rw [r3 i (by rw [Array.size_push]; omega), Array.getElem?_push, if_neg (by omega)]
        · cases i with
          | zero =>
            simp only [Nat.add_zero]
            rw [r3 acc.size (by rw [Array.size_push]; omega), Array.getElem?_push, if_pos rfl]
            rw [specOf_none_of_lt _ pos (fun p hp => by
              rcases List.mem_cons.1 hp with rfl | hp'
              · simp only; omega
              · have := hs'.1 p hp'; omega)]
            rfl
          | succ i =>
            have := r4 i (by omega)
            rw [Array.size_push] at this
            have e1 : acc.size + (i + 1) = acc.size + 1 + i := by omega
            have e2 : pos + (i + 1) = pos + 1 + i := by omega
            rw [e1, this, e2]

theorem foldl_max_ge : ∀ (es : List (Nat × V)) (m : Nat),
    m ≤ es.foldl (fun m p => max m p.1) m ∧ ∀ p ∈ es, p.1 ≤ es.foldl (fun m p => max m p.1) m := by
  intro es
  induction es with
  | nil => intro m; simp
  | cons a t ih =>
    intro m
    obtain ⟨h1, h2⟩ := ih (max m a.1)
    simp only [List.foldl_cons]
    refine ⟨by omega, fun p hp => ?_⟩
    rcases List.mem_cons.1 hp with rfl | hp
    · omega
    · exact h2 p hp

/-- `dump_as_array` of a sorted sparse vector terminates and writes, window after window
    (including the last partial one), the dense image of its entries. -/
theorem Sparse.dumpAsArray_spec (bs : Nat) (hbs : 0 < bs) (e : V) (a : Array (Nat × V))
    (hs : StrictAsc a.toList) :
    ∃ out, Sparse.dumpAsArray bs e a = some out ∧ out.size = topKey a.toList 0 ∧
      ∀ i, i < out.size → out[i]? = some ((specOf a.toList i).getD e) := by
  have hfuel : ∀ p ∈ a.toList, p.1 < 0 + dumpFuel bs a.toList * bs := by
    intro p hp
    have h1 := (foldl_max_ge a.toList 0).2 p hp
    have h2 := Nat.lt_mul_div_succ (a.toList.foldl (fun m p => max m p.1) 0) hbs
    simp only [dumpFuel, Nat.zero_add]
    rw [Nat.mul_comm]; omega
  obtain ⟨r1, r2, _, r4⟩ := dumpInner_spec e (dumpFuel bs a.toList * bs) 0 a.toList #[] hs
    (fun _ _ => Nat.zero_le _) hfuel
  refine ⟨(dumpInner e (dumpFuel bs a.toList * bs) 0 a.toList #[]).1, ?_, ?_, ?_⟩
  · simp only [Sparse.dumpAsArray]
    rw [if_neg (by omega)]
    exact dumpOuter_eq bs e _ 0 a.toList #[] r1
  · simpa using r2
  · intro i hi
    have := r4 i (by simp at r2; omega)
    simpa using this

theorem Dense.build_size (e : V) : ∀ (h : Hist V) (a : Array V),
    (h.foldl (fun m p => Dense.set e m p.1 p.2) a).size = h.foldl (fun m p => max m (p.1 + 1)) a.size := by
  intro h
  induction h with
  | nil => intro a; rfl
  | cons p t ih => intro a; simp only [List.foldl_cons]; rw [ih, Dense.size_set]

theorem foldl_max1 : ∀ (h : Hist V) (m : Nat),
    m ≤ h.foldl (fun m p => max m (p.1 + 1)) m ∧
    (∀ p ∈ h, p.1 < h.foldl (fun m p => max m (p.1 + 1)) m) ∧
    (h.foldl (fun m p => max m (p.1 + 1)) m = m ∨
      ∃ p ∈ h, h.foldl (fun m p => max m (p.1 + 1)) m = p.1 + 1) := by
  intro h
  induction h with
  | nil => intro m; simp
  | cons a t ih =>
    intro m
    obtain ⟨h1, h2, h3⟩ := ih (max m (a.1 + 1))
    simp only [List.foldl_cons]
    refine ⟨by omega, fun p hp => ?_, ?_⟩
    · rcases List.mem_cons.1 hp with rfl | hp
      · omega
      · exact h2 p hp
    · rcases h3 with h3 | ⟨p, hp, h3⟩
      · by_cases hm : m ≤ a.1 + 1
        · right; exact ⟨a, List.mem_cons_self, by omega⟩
        · left; omega
      · right; exact ⟨p, List.mem_cons_of_mem _ hp, h3⟩

theorem strictAsc_of_sorted_distinct (l : List (Nat × V)) (hs : SortedKeys l) (hd : DistinctIds l) :
    StrictAsc l := by
  have hne : l.Pairwise (fun p q => p.1 ≠ q.1) := by
    have := hd
    simp only [DistinctIds, List.Nodup, List.pairwise_map] at this
    exact this
  exact (hs.and hne).imp (fun ⟨h1, h2⟩ => by omega)

/-- Dumping a (sorted) sparse index as a dense array writes byte for byte what the dense index
    built from the same insertions holds: same length (largest id + 1), same slot contents. -/
theorem Sparse.dumpAsArray_eq_dense (bs : Nat) (hbs : 0 < bs) (e : V) (h : Hist V)
    (hd : DistinctIds h) (hn : NonEmptyVals e h) :
    Sparse.dumpAsArray bs e (Sparse.sort (h.foldl (fun (a : Array (Nat × V)) p => a.push (p.1, p.2)) #[])) =
      some (h.foldl (fun (m : Array V) p => Dense.set e m p.1 p.2) #[]) := by
  have hrev := (List.reverse_perm h)
  have hd' := hd.perm hrev.symm
  have hrs : (Sparse.sort (h.foldl (fun (a : Array (Nat × V)) p => a.push (p.1, p.2)) #[])).toList.Perm h.reverse :=
    (sparseLaws bs e).rep_sort _ _ ((sparseLaws bs e).build_rep h hd hn)
  have hss : SortedKeys (Sparse.sort (h.foldl (fun (a : Array (Nat × V)) p => a.push (p.1, p.2)) #[])).toList :=
    (sparseLaws bs e).ready_sort _ _ ((sparseLaws bs e).build_rep h hd hn)
  have hrd : DenseRep e (fun j => (h.foldl (fun (m : Array V) p => Dense.set e m p.1 p.2) #[]).getD j e) h.reverse :=
    (denseLaws e).build_rep h hd hn
  have hsz := Dense.build_size e h #[]
  generalize Sparse.sort (h.foldl (fun (a : Array (Nat × V)) p => a.push (p.1, p.2)) #[]) = a at hrs hss
  generalize h.foldl (fun (m : Array V) p => Dense.set e m p.1 p.2) #[] = D at hrd hsz
  have hda : DistinctIds a.toList := hd'.perm hrs.symm
  have hasc := strictAsc_of_sorted_distinct a.toList hss hda
  obtain ⟨out, ho1, ho2, ho3⟩ := Sparse.dumpAsArray_spec bs hbs e a hasc
  rw [ho1]
  congr 1
  obtain ⟨_, m2, m3⟩ := foldl_max1 h 0
  obtain ⟨_, t2⟩ := topKey_bounds a.toList 0 hasc (fun _ _ => Nat.zero_le _)
  have t3 := topKey_witness a.toList 0
  have hmem : ∀ p, p ∈ a.toList ↔ p ∈ h := fun p => (hrs.trans hrev).mem_iff
  have hsize : out.size = D.size := by
    rw [ho2, hsz]
    show _ = h.foldl (fun m p => max m (p.1 + 1)) 0
    rcases t3 with ⟨t3, hnil⟩ | ⟨p, hp, t3⟩
    · rcases m3 with m3 | ⟨q, hq, m3⟩
      · omega
      · have := (hmem q).2 hq; rw [hnil] at this; simp at this
    · have hp' := m2 p ((hmem p).1 hp)
      rcases m3 with m3 | ⟨q, hq, m3⟩
      · omega
      · have hq' := t2 q ((hmem q).2 hq); omega
  apply Array.ext_getElem?
  intro i
  by_cases hi : i < out.size
  · rw [ho3 i hi]
    have hi2 : i < D.size := by omega
    have := hrd i
    simp only [Array.getD_eq_getD_getElem?] at this
    rw [Array.getElem?_eq_getElem hi2] at this ⊢
    simp only [Option.getD_some] at this
    rw [this, specOf_perm hda hrs i]
  · rw [Array.getElem?_eq_none (by omega), Array.getElem?_eq_none (by omega)]

end dump

/-! ### dump → load -/

section load
variable {T : Type} [DecidableEq T]

theorem shrink_spec (e : T) (d : Array T) : ∀ n, shrink e d n ≤ n ∧
    (∀ j, shrink e d n ≤ j → j < n → d.getD j e = e) ∧
    (shrink e d n = 0 ∨ d.getD (shrink e d n - 1) e ≠ e) := by
  intro n
  induction n with
  | zero => simp [shrink]
  | succ n ih =>
    simp only [shrink]
    split
    · next h =>
      refine ⟨by omega, fun j h1 h2 => ?_, ih.2.2⟩
      by_cases hj : j = n
      · subst hj; exact h
      · exact ih.2.1 j h1 (by omega)
    · next h => exact ⟨Nat.le_refl _, fun j h1 h2 => by omega, Or.inr (by simpa using h)⟩

/-- the mapping after `mmap_vector_file(fd)`: the file's records, then empty values -/
theorem load_data (g : Grow T) (hg : GrowOk g) (inc : Nat) (e : T) (file : Array T) (j : Nat) :
    (MmapVec.load g inc e file).data[j]? =
      if j < file.size then file[j]? else if j < max inc file.size then some e else none := by
  obtain ⟨h1, h2⟩ := hg file (max inc file.size) (Nat.le_max_right _ _)
  simp only [MmapVec.load]
  rw [getElem?_fill, h1]
  by_cases hj : j < file.size
  · rw [if_neg (by omega), if_pos hj]; exact h2 j hj
  · rw [if_neg hj]
    by_cases hj2 : j < max inc file.size
    · rw [if_pos ⟨by omega, by omega, hj2⟩, if_pos hj2]
    · rw [if_neg (by omega), if_neg hj2]; exact Array.getElem?_eq_none (by omega)

theorem load_size_le (g : Grow T) (inc : Nat) (e : T) (file : Array T) :
    (MmapVec.load g inc e file).size ≤ file.size := by
  simp only [MmapVec.load]; exact (shrink_spec e _ file.size).1

end load

section loaddense
variable {V : Type} [DecidableEq V]

/-- dense dump → `dense_file_array` on that file: every lookup is unchanged (the loader drops
    trailing empty slots, which read as "not found" either way) -/
theorem Dense.dump_load (g : Grow V) (hg : GrowOk g) (inc : Nat) (e : V) (a : Array V) (id : Nat) :
    MDense.get e (MmapVec.load g inc e a) id = Dense.get e a id ∧
    MDense.getNoexcept e (MmapVec.load g inc e a) id = Dense.getNoexcept e a id := by
  have hd := load_data g hg inc e a
  have hsz := load_size_le g inc e a
  have hsh := (shrink_spec e (MmapVec.load g inc e a).data a.size).2.1
  have hsize : (MmapVec.load g inc e a).size = shrink e (MmapVec.load g inc e a).data a.size := rfl
  have hget : ∀ j, j < a.size → (MmapVec.load g inc e a).data.getD j e = a.getD j e := by
    intro j hj
    simp only [Array.getD_eq_getD_getElem?, hd j, if_pos hj]
  simp only [MDense.get, MDense.getNoexcept, Dense.get, Dense.getNoexcept]
  by_cases h1 : id ≥ a.size
  · have h2 : id ≥ (MmapVec.load g inc e a).size := by omega
    simp [h1, h2]
  · have hlt : id < a.size := by omega
    by_cases h2 : id ≥ (MmapVec.load g inc e a).size
    · have := hsh id (by rw [← hsize]; exact h2) hlt
      rw [hget id hlt] at this
      simp [h1, h2, this]
    · simp [h1, h2, hget id hlt]

end loaddense

/-! ### sparse_mmap_array / sparse_file_array: the sparse map over the mmap vector -/

section msparse
variable {V : Type} [DecidableEq V]

theorem view_getElem? {T : Type} (mv : MmapVec T) (hs : mv.size ≤ mv.data.size) (i : Nat) :
    mv.view[i]? = if i < mv.size then mv.data[i]? else none := by
  simp only [MmapVec.view, Array.getElem?_extract]
  have : min mv.size mv.data.size - 0 = mv.size := by omega
  rw [this]; simp

theorem view_size {T : Type} (mv : MmapVec T) (hs : mv.size ≤ mv.data.size) : mv.view.size = mv.size := by
  simp only [MmapVec.view, Array.size_extract]; omega

theorem Sparse.getN_congr (a b : Array (Nat × V)) (n id : Nat) (h : ∀ i, i < n → a[i]? = b[i]?) :
    Sparse.getN a n id = Sparse.getN b n id := by
  have hk : ∀ i, 0 ≤ i → i < 0 + n → Sparse.keyLt a id i = Sparse.keyLt b id i := by
    intro i _ hi; simp only [Sparse.keyLt, h i (by omega)]
  simp only [Sparse.getN, lbSearch_congr _ _ 0 n hk]
  have hb := lbSearch_bounds (Sparse.keyLt b id) 0 n
  split
  · rfl
  · rw [h _ (by omega)]

theorem MSparse.get_view (mv : MmapVec (Nat × V)) (hs : mv.size ≤ mv.data.size) (id : Nat) :
    Sparse.getN mv.data mv.size id = Sparse.get mv.view id := by
  simp only [Sparse.get, view_size mv hs]
  apply Sparse.getN_congr
  intro i hi
  rw [view_getElem? mv hs, if_pos hi]

theorem pushBack_view (g : Grow (Nat × V)) (hg : GrowOk g) (inc : Nat) (pe : Nat × V)
    (mv : MmapVec (Nat × V)) (hs : mv.size ≤ mv.data.size) (x : Nat × V) :
    (mv.pushBack g inc pe x).size ≤ (mv.pushBack g inc pe x).data.size ∧
    (mv.pushBack g inc pe x).view = mv.view.push x := by
  obtain ⟨r1, r2, r3, r4⟩ := resize_spec g hg inc pe mv (mv.size + 1)
  simp only [MmapVec.pushBack]
  generalize mv.resize g inc pe (mv.size + 1) = mv' at *
  obtain ⟨d', s'⟩ := mv'
  simp only at r1 r2 r3 r4 ⊢
  subst r1
  have hs' : mv.size + 1 ≤ (d'.setIfInBounds (mv.size + 1 - 1) x).size := by
    rw [Array.size_setIfInBounds]; exact r2
  refine ⟨hs', ?_⟩
  apply Array.ext_getElem?
  intro i
  have hv := view_getElem? (⟨d'.setIfInBounds (mv.size + 1 - 1) x, mv.size + 1⟩ : MmapVec (Nat × V)) hs' i
  rw [hv, Array.getElem?_push, view_size mv hs, view_getElem? mv hs]
  simp only [Array.getElem?_setIfInBounds, Nat.add_sub_cancel]
  by_cases h1 : i = mv.size
  · subst h1; simp; omega
  · rw [if_neg (Ne.symm h1), if_neg h1]
    by_cases h2 : i < mv.size
    · rw [if_pos (by omega), if_pos h2, r4 i, if_pos (by omega)]
    · rw [if_neg (by omega), if_neg h2]

theorem sort_view (mv : MmapVec (Nat × V)) (hs : mv.size ≤ mv.data.size) :
    (MSparse.sort mv).size ≤ (MSparse.sort mv).data.size ∧ (MSparse.sort mv).view = Sparse.sort mv.view := by
  have hsz : (Sparse.sort mv.view).size = mv.size := by
    simp [Sparse.sort, List.length_mergeSort, view_size mv hs]
  have hs' : (MSparse.sort mv).size ≤ (MSparse.sort mv).data.size := by
    simp only [MSparse.sort, Array.size_append, hsz]; omega
  refine ⟨hs', ?_⟩
  apply Array.ext_getElem?
  intro i
  rw [view_getElem? _ hs']
  simp only [MSparse.sort, Array.getElem?_append, hsz]
  by_cases h : i < mv.size
  · rw [if_pos h, if_pos h]
  · rw [if_neg h, Array.getElem?_eq_none (by omega)]

theorem init_view (g : Grow (Nat × V)) (hg : GrowOk g) (inc : Nat) (pe : Nat × V) :
    (MmapVec.init g inc pe).size ≤ (MmapVec.init g inc pe).data.size ∧ (MmapVec.init g inc pe).view = #[] := by
  refine ⟨Nat.zero_le _, ?_⟩
  simp [MmapVec.init, MmapVec.view]

/-- sparse_mmap_array / sparse_file_array, under the OS contract -/
def msparseLaws (g : Grow (Nat × V)) (hg : GrowOk g) (inc bs : Nat) (e : V) (pe : Nat × V) :
    Laws (msparseImpl g inc bs e pe) e where
  Rep := fun (mv : MmapVec (Nat × V)) h => mv.size ≤ mv.data.size ∧ mv.view.toList.Perm h
  Ready := fun (mv : MmapVec (Nat × V)) => SortedKeys mv.view.toList
  rep_init := ⟨(init_view g hg inc pe).1, by
    show (MmapVec.init g inc pe).view.toList.Perm []
    rw [(init_view g hg inc pe).2]⟩
  ready_init := by
    show SortedKeys (MmapVec.init g inc pe).view.toList
    rw [(init_view g hg inc pe).2]; simp [SortedKeys]
  rep_set := fun (m : MmapVec (Nat × V)) h id v hr _ _ => by
    obtain ⟨h1, h2⟩ := pushBack_view g hg inc pe m hr.1 (id, v)
    refine ⟨h1, ?_⟩
    show (m.pushBack g inc pe (id, v)).view.toList.Perm _
    rw [h2, Array.toList_push]
    exact (List.perm_append_singleton _ _).trans (List.Perm.cons _ hr.2)
  rep_sort := fun (m : MmapVec (Nat × V)) h hr => by
    obtain ⟨h1, h2⟩ := sort_view m hr.1
    refine ⟨h1, ?_⟩
    show (MSparse.sort m).view.toList.Perm h
    rw [h2]
    exact (List.mergeSort_perm _ _).trans hr.2
  ready_sort := fun (m : MmapVec (Nat × V)) h hr => by
    show SortedKeys (MSparse.sort m).view.toList
    rw [(sort_view m hr.1).2]
    exact sortedKeys_mergeSort _
  ready_set := fun (m : MmapVec (Nat × V)) h id v hr hs hlt => by
    show SortedKeys (m.pushBack g inc pe (id, v)).view.toList
    rw [(pushBack_view g hg inc pe m hr.1 (id, v)).2]
    exact sortedKeys_push m.view id v hs (fun p hp => hlt p (hr.2.mem_iff.1 hp))
  get_ok := fun (m : MmapVec (Nat × V)) h hr hs hd _ id => by
    show Sparse.getN m.data m.size id = _
    rw [MSparse.get_view m hr.1]
    exact Sparse.get_sorted m.view h hr.2 hs hd id
  getNoexcept_ok := fun (m : MmapVec (Nat × V)) h hr hs hd _ id => by
    show (Sparse.getN m.data m.size id).getD e = _
    rw [MSparse.get_view m hr.1, Sparse.get_sorted m.view h hr.2 hs hd id]

/-- list dump → `sparse_file_array` on that file: the loaded vector is the dumped one (no
    record equals `pair{}` because no value is empty), so every lookup is unchanged -/
theorem Sparse.dump_load_list (g : Grow (Nat × V)) (hg : GrowOk g) (inc : Nat) (pe : Nat × V)
    (a : Array (Nat × V)) (hne : ∀ p ∈ a.toList, p ≠ pe) :
    (MmapVec.load g inc pe a).size ≤ (MmapVec.load g inc pe a).data.size ∧
    (MmapVec.load g inc pe a).view = a := by
  have hd := load_data g hg inc pe a
  have hsp := shrink_spec pe (MmapVec.load g inc pe a).data a.size
  have hsize : (MmapVec.load g inc pe a).size = shrink pe (MmapVec.load g inc pe a).data a.size := rfl
  have hfull : (MmapVec.load g inc pe a).size = a.size := by
    rcases Nat.lt_or_ge (MmapVec.load g inc pe a).size a.size with hlt | hge
    · exfalso
      have h1 := hsp.2.1 (a.size - 1) (by rw [← hsize]; omega) (by omega)
      simp only [Array.getD_eq_getD_getElem?, hd (a.size - 1), if_pos (show a.size - 1 < a.size by omega)] at h1
      have hlt' : a.size - 1 < a.size := by omega
      rw [Array.getElem?_eq_getElem hlt'] at h1
      simp only [Option.getD_some] at h1
      exact hne _ (by simp) h1
    · have := hsp.1; omega
  have hcap : a.size ≤ (MmapVec.load g inc pe a).data.size := by
    obtain ⟨h1, _⟩ := hg a (max inc a.size) (Nat.le_max_right _ _)
    simp only [MmapVec.load, size_fill, h1]; omega
  refine ⟨by omega, ?_⟩
  apply Array.ext_getElem?
  intro i
  rw [view_getElem? _ (by omega), hfull, hd i]
  by_cases hi : i < a.size
  · rw [if_pos hi, if_pos hi]
  · rw [if_neg hi, Array.getElem?_eq_none (by omega)]

end msparse

end Osmium.IndexMap
