/-
C05 under a blob-decode fault, part Fr: single-step frame lemmas (what one scheduler step can do to
the ghost `want`, to the list of popped futures) and the creation-order invariant: the futures the
parser thread has handed to push() so far, plus the one it has created for a submitted blob and not
yet handed over, are exactly the futures 1, 3, …, 2·nOut−1 in this order.
-/
import Osmium.Lemmas.PipelineFaultDefs
import Osmium.Lemmas.PipelineOrderA

namespace Osmium.Pipeline.Fault

open Osmium.Mon Osmium.Pipeline Osmium.Pipeline.Order

variable {α : Type} [DecidableEq α]

set_option linter.unusedSimpArgs false

/-- a step never changes what an already created osmdata-queue future is going to hold, and never
    un-creates a future -/
theorem want_frame (c : Cfg α) (s s' : State α) (e : Ev α) (hst : (machine c).Step s e s') :
    s.nOut ≤ s'.nOut ∧ ∀ id, id % 2 = 1 → id < 2 * s.nOut → s'.want id = s.want id := by
  po_cases e with hst q hq
  all_goals first
    | exact ⟨Nat.le_refl _, fun _ _ _ => rfl⟩
    | (refine ⟨?_, fun _ _ _ => ?_⟩ <;>
         simp only [afterPop_nOut, afterClose_nOut, afterPop_want, afterClose_want] <;> first | done | exact Nat.le_refl _)
    | (refine ⟨by first | exact Nat.le_refl _ | exact Nat.le_succ _, fun id h1 h2 => ?_⟩
       dsimp only
       rw [setPc_apply]
       split
       · subst_vars; omega   -- (the equation is at type `Tid`)
       · rfl)

/-- a step leaves the list of popped futures alone, or read() (inside wait_and_pop) appends one -/
theorem popped_step (c : Cfg α) (s s' : State α) (e : Ev α) (hst : (machine c).Step s e s') :
    s'.outq.popped = s.outq.popped ∨
      (s.cpc = .readWaitPop ∧ s'.want = s.want ∧ ∃ p, s'.outq.popped = s.outq.popped ++ [p]) := by
  po_cases e with hst q hq
  all_goals (try (have hqp := q_popped hq; simp only [evPopped, List.append_nil, Option.toList_none, Option.toList_some,
      List.map_cons, List.map_nil] at hqp))
  all_goals first
    | (left; rfl)
    | (left; simp only [Q.afterPop_outq, Q.afterClose_outq]; done)
    | (left; exact hqp)
    | (right; refine ⟨?_, rfl, _, hqp⟩; apply And.right; assumption)

set_option maxHeartbeats 1600000 in
/-- creation order of the osmdata-queue futures -/
theorem ids_inv (c : Cfg α) : ∀ s, (machine c).Reachable s → s.outq.called ++ pendItems s = idsUpTo s.nOut := by
  apply Machine.invariant
  · simp [machine, init, QueueSM.init, pendItems, idsUpTo]
  · intro s e s' hr ih hst
    po_cases e with hst q hq
    all_goals (try (have hqc := q_called hq; simp only [evCalled, List.append_nil] at hqc))
    all_goals first
      | exact ih
      | (simp only [Q.afterPop_outq, Q.afterClose_outq, afterPop_ppc, afterClose_ppc, afterPop_nOut, afterClose_nOut, pendItems]
         exact ih)
      | (simp only [hqc, pendItems] at ih ⊢
         first
          | exact ih
          | (simp_all; done)
          | (simp_all [pendItems, idsUpTo, List.range_succ]; done))
      | (simp_all [pendItems, idsUpTo, List.range_succ]; done)

end Osmium.Pipeline.Fault
