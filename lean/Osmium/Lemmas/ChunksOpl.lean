/-
Lemmas for C06, OPL part: `line_by_line` over any chunking = split of the concatenation.
-/
import Osmium.Model.Chunks

namespace Osmium.Chunks

open Osmium.Wire

def NoNul (bs : Bytes) : Prop := ∀ b ∈ bs, b ≠ 0

def ne (l : Bytes) : Bool := !l.isEmpty

theorem cstr_of_noNul : ∀ (bs : Bytes), NoNul bs → cstr bs = bs
  | [], _ => rfl
  | b :: bs, h => by
    have hb : b ≠ 0 := h b (List.mem_cons_self)
    have ht : NoNul bs := fun x hx => h x (List.mem_cons_of_mem _ hx)
    simp [cstr, hb, cstr_of_noNul bs ht]

theorem segs_append : ∀ (a b cur : Bytes),
    segs (a ++ b) cur = ((segs a cur).1 ++ (segs b (segs a cur).2).1, (segs b (segs a cur).2).2)
  | [], b, cur => by simp [segs]
  | x :: a, b, cur => by
    by_cases hx : isBreak x
    · simp [segs, hx, segs_append a b []]
    · simp [segs, hx, segs_append a b (cur ++ [x])]

theorem segs_findBreak_none : ∀ (bs cur : Bytes), findBreak bs = none → segs bs cur = ([], cur ++ bs)
  | [], cur, _ => by simp [segs]
  | b :: bs, cur, h => by
    by_cases hb : isBreak b
    · simp [findBreak, hb] at h
    · simp only [findBreak, hb, Bool.false_eq_true, ↓reduceIte, Option.map_eq_none_iff] at h
      simp [segs, hb, segs_findBreak_none bs (cur ++ [b]) h]

theorem segs_findBreak_some : ∀ (bs cur : Bytes) (p : Nat), findBreak bs = some p →
    segs bs cur = ((cur ++ bs.take p) :: (segs (bs.drop (p + 1)) []).1, (segs (bs.drop (p + 1)) []).2)
  | [], _, _, h => by simp [findBreak] at h
  | b :: bs, cur, p, h => by
    by_cases hb : isBreak b
    · simp only [findBreak, hb, ↓reduceIte, Option.some.injEq] at h
      subst h
      simp [segs, hb]
    · simp only [findBreak, hb, Bool.false_eq_true, ↓reduceIte, Option.map_eq_some_iff] at h
      obtain ⟨q, hq, rfl⟩ := h
      simp [segs, hb, segs_findBreak_some bs (cur ++ [b]) q hq]

theorem findBreak_lt : ∀ (bs : Bytes) (p : Nat), findBreak bs = some p → p < bs.length
  | [], _, h => by simp [findBreak] at h
  | b :: bs, p, h => by
    by_cases hb : isBreak b
    · simp only [findBreak, hb, ↓reduceIte, Option.some.injEq] at h
      subst h; simp
    · simp only [findBreak, hb, Bool.false_eq_true, ↓reduceIte, Option.map_eq_some_iff] at h
      obtain ⟨q, hq, rfl⟩ := h
      have := findBreak_lt bs q hq
      simp; omega

theorem noNul_take {bs : Bytes} (n : Nat) (h : NoNul bs) : NoNul (bs.take n) :=
  fun b hb => h b (List.mem_of_mem_take hb)

theorem noNul_drop {bs : Bytes} (n : Nat) (h : NoNul bs) : NoNul (bs.drop n) :=
  fun b hb => h b (List.mem_of_mem_drop hb)

theorem noNul_append {a b : Bytes} (ha : NoNul a) (hb : NoNul b) : NoNul (a ++ b) := by
  intro x hx
  rcases List.mem_append.1 hx with h | h
  · exact ha x h
  · exact hb x h

theorem head_ne_zero_of_noNul {bs : Bytes} (h : NoNul bs) : (bs.head? == some 0) = false := by
  cases bs with
  | nil => rfl
  | cons b bs =>
    have : b ≠ 0 := h b (List.mem_cons_self)
    simp [this]

/-- The scan loop over (the rest of) one chunk computes the segments of that chunk. -/
theorem oplScan_spec : ∀ (fuel : Nat) (bs : Bytes), NoNul bs → bs.length ≤ fuel →
    oplScan fuel bs = ((segs bs []).1.filter ne, (segs bs []).2)
  | 0, bs, _, hl => by
    have : bs = [] := List.eq_nil_of_length_eq_zero (by omega)
    subst this; simp [oplScan, segs]
  | fuel + 1, bs, hn, hl => by
    unfold oplScan
    cases hf : findBreak bs with
    | none => simp [segs_findBreak_none bs [] hf]
    | some pos =>
      have hp := findBreak_lt bs pos hf
      rw [segs_findBreak_some bs [] pos hf]
      have htake : NoNul (bs.take pos) := noNul_take pos hn
      have hdrop : NoNul (bs.drop (pos + 1)) := noNul_drop (pos + 1) hn
      have hlen : (bs.drop (pos + 1)).length ≤ fuel := by simp; omega
      have ih := oplScan_spec fuel (bs.drop (pos + 1)) hdrop hlen
      simp only [head_ne_zero_of_noNul htake, Bool.false_or, cstr_of_noNul _ htake, List.nil_append]
      by_cases he : (bs.drop (pos + 1)).isEmpty
      · have : bs.drop (pos + 1) = [] := List.isEmpty_iff.1 he
        simp only [he, ↓reduceIte, this, segs, List.filter_cons, ne]
        by_cases h1 : (List.take pos bs).isEmpty = true <;> simp [h1]
      · simp only [he, Bool.false_eq_true, ↓reduceIte, ih, List.filter_cons, ne]
        by_cases h1 : (List.take pos bs).isEmpty = true <;> simp [h1]

/-- One loop iteration (with or without carried-over `rest`) computes the segments of
    `rest ++ input`, the carried part being the segment under construction. -/
theorem oplChunk_spec (rest input : Bytes) (hr : NoNul rest) (hi : NoNul input) :
    oplChunk rest input = ((segs input rest).1.filter ne, (segs input rest).2) := by
  unfold oplChunk
  by_cases hre : rest.isEmpty
  · have : rest = [] := List.isEmpty_iff.1 hre
    subst this
    simp [oplScan_spec input.length input hi (Nat.le_refl _)]
  · simp only [hre, Bool.not_false, ↓reduceIte]
    cases hf : findBreak input with
    | none => simp [segs_findBreak_none input rest hf]
    | some ppos =>
      have hp := findBreak_lt input ppos hf
      rw [segs_findBreak_some input rest ppos hf]
      have hdrop : NoNul (input.drop (ppos + 1)) := noNul_drop (ppos + 1) hi
      have hline : NoNul (rest ++ input.take ppos) := noNul_append hr (noNul_take ppos hi)
      have hlen : (input.drop (ppos + 1)).length ≤ input.length := by simp
      have hne : (rest ++ List.take ppos input).isEmpty = false := by
        cases rest with
        | nil => simp at hre
        | cons a as => simp
      simp [oplScan_spec input.length _ hdrop hlen, hne, cstr_of_noNul _ hline, List.filter_cons, ne]

/-- The whole loop from any intermediate state. -/
theorem oplRun_spec : ∀ (cs : List Bytes) (fuel : Nat) (rest : Bytes) (acc : List Bytes),
    (∀ c ∈ cs, c ≠ []) → NoNul cs.flatten → NoNul rest → cs.length + 2 ≤ fuel →
    oplRun fuel { chunks := cs, done := false } rest acc =
      acc ++ ((segs cs.flatten rest).1 ++ [(segs cs.flatten rest).2]).filter ne
  | [], fuel, rest, acc, _, _, hr, hf => by
    obtain ⟨f, rfl⟩ : ∃ f, fuel = f + 2 := ⟨fuel - 2, by omega⟩
    have h1 : oplChunk rest [] = ([], rest) := by
      rw [oplChunk_spec rest [] hr (by intro b hb; simp at hb)]; simp [segs]
    simp only [oplRun, Src.getInput, Bool.false_eq_true, ↓reduceIte, h1, List.append_nil, List.flatten_nil, segs,
      List.nil_append, List.filter_cons, List.filter_nil, ne]
    by_cases h2 : rest.isEmpty = true <;> simp [h2, cstr_of_noNul _ hr]
  | c :: cs, fuel, rest, acc, hne, hn, hr, hf => by
    obtain ⟨f, rfl⟩ : ∃ f, fuel = f + 1 := ⟨fuel - 1, by simp at hf; omega⟩
    have hc : c ≠ [] := hne c (List.mem_cons_self)
    have hce : c.isEmpty = false := by cases c <;> simp_all
    have hnc : NoNul c := fun b hb => hn b (by simp [hb])
    have hncs : NoNul cs.flatten := fun b hb => hn b (by simp only [List.flatten_cons, List.mem_append]; exact Or.inr hb)
    have hstep := oplChunk_spec rest c hr hnc
    have hr' : NoNul (segs c rest).2 := by
      -- the trailing partial segment consists of bytes of rest ++ c
      have key : ∀ (bs cur : Bytes), NoNul bs → NoNul cur → NoNul (segs bs cur).2 := by
        intro bs
        induction bs with
        | nil => intro cur _ h; simpa [segs] using h
        | cons b bs ih =>
          intro cur hb hcur
          have hb0 : b ≠ 0 := hb b (List.mem_cons_self)
          have hbs : NoNul bs := fun x hx => hb x (List.mem_cons_of_mem _ hx)
          by_cases hbr : isBreak b
          · simp only [segs, hbr, ↓reduceIte]; exact ih [] hbs (by intro x hx; simp at hx)
          · simp only [segs, hbr, Bool.false_eq_true, ↓reduceIte]
            exact ih _ hbs (noNul_append hcur (by intro x hx; simp at hx; subst hx; exact hb0))
      exact key c rest hnc hr
    have ih := oplRun_spec cs f (segs c rest).2 (acc ++ (segs c rest).1.filter ne)
      (fun x hx => hne x (List.mem_cons_of_mem _ hx)) hncs hr' (by simp at hf; omega)
    simp only [oplRun, Src.getInput, Bool.false_eq_true, ↓reduceIte, hstep, hce, ih, List.flatten_cons,
      segs_append c cs.flatten rest, List.filter_append, List.append_assoc]

end Osmium.Chunks
