/-
Queue-of-futures order (C05), part D: the parser-side equation.
-/
import Osmium.Lemmas.PipelineOrderB

namespace Osmium.Pipeline.Order

open Osmium.Mon Osmium.Pipeline

variable {α : Type} [DecidableEq α]

set_option maxHeartbeats 1600000 in
/-- a PBF parser never uses the object buffer of `ParserWithBuffer` -/
theorem pbf_no_buffer (c : Cfg α) : ∀ s, (machine c).Reachable s → c.pbf = true → s.nested = [] ∧ s.cur = [] := by
  apply Machine.invariant
  · simp [machine, init]
  · intro s e s' hr ih hst
    po_cases e with hst q hq
    all_goals first
      | exact ih
      | (simp only [afterPop_nested, afterPop_cur, afterClose_nested, afterClose_cur]; exact ih)
      | (intro hp; simp_all; done)

set_option maxHeartbeats 1600000 in
theorem parser_side' (c : Cfg α) (hb : c.blobFault = none) : ∀ s, (machine c).Reachable s →
    vals s s.outq.called ++ pend s ++ upstream c s = deliver c := by
  apply Machine.invariant
  · simp [machine, init, QueueSM.init, vals, pend, upstream, deliver]
  · intro s e s' hr ih hst
    have hA := invA c s hr
    have hnb := pbf_no_buffer c s hr
    have hfr : ∀ x ∈ s.outq.called, x.2 ≠ 2 * s.nOut + 1 := fun x hx h => by
      have := (hA.called x hx).2.2; omega
    have hfi : ∀ x ∈ s.outq.called, x.2 ≠ 2 * s.nIn := fun x hx h => by
      have := (hA.called x hx).2.1; omega
    have hpo : ∀ id k, s.ppc = .pushFut id k → id ≠ 2 * s.nOut + 1 := fun id k h h' => by
      have := (hA.pushFut id k h).2; omega
    have hpi : ∀ id k, s.ppc = .pushFut id k → id ≠ 2 * s.nIn := fun id k h h' => by
      have := (hA.pushFut id k h).1; omega
    clear hA
    po_cases e with hst q hq
    all_goals (try (have hqc := q_called hq; simp only [evCalled, List.append_nil] at hqc))
    all_goals first
      | exact ih
      | (rw [← ih]; clear ih
         try simp only [hqc]
         simp only [pend_eq, vals, upstream, afterPop_want, Q.afterPop_outq, afterPop_ppc, afterPop_nested, afterPop_cur,
           afterPop_next, afterClose_want, Q.afterClose_outq, afterClose_ppc, afterClose_nested, afterClose_cur, afterClose_next]
         try simp only [pendOf_pCont]
         first
          | done
          | (simp [pendOf, flat, *]; done)
          | (subst_vars; rw [flatMap_setPc _ _ _ _ hfi, pendOf_setPc _ _ _ _ hpi]; done)
          | (subst_vars; rw [List.flatMap_append, flatMap_setPc _ _ _ _ hfr]; simp [pendOf, flat, *]; done)
          | (rw [drop_next c _ _ ‹c.file[s.next]? = some _›]; simp_all [pendOf, flat, proj_cons]; done)
          | (exfalso; simp_all; done)
          | (obtain ⟨hp, hpbf, -, -, -, -, hle, -, -, hsp⟩ : s.ppc = PPc.run ∧ c.pbf = true ∧ s.hdr ≠ none ∧ c.nothing = false ∧
               s.blob < c.blobEnd.length ∧ nth c.blobEnd s.blob ≤ s.avail ∧ s.next ≤ nth c.blobEnd s.blob ∧
               c.parseFault ≠ some s.next ∧ wfLevels _ = true ∧ _ = proj c (seg c s.next (nth c.blobEnd s.blob)) := by assumption
             rw [← proj_seg_drop c _ _ hle, ← hsp]
             try rw [flatMap_setPc _ _ _ _ hfr]
             simp [pendOf, flat, hp, hnb hpbf]; done)
          | (simp_all [pendOf, flat]; done))

end Osmium.Pipeline.Order
