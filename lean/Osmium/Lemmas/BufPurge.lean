/-
Functional specification of `Buffer::purge_removed` (model: `purgeLoop` / `purgeBytes` in
Osmium/Model/Buf.lean) and the proof that the in-place loop computes it.
-/
import Osmium.Lemmas.Buf

namespace Osmium.Buf

open Osmium.Layout

/-- kept items, in order, with their new offsets (prefix sums of the padded sizes of the kept
    items before them) -/
def keptFrom (w : Nat) : List Hdr → List (Hdr × Nat)
  | [] => []
  | h :: hs => if h.removed then keptFrom w hs else (h, w) :: keptFrom (w + h.psize) hs

def specBytes (c : Bytes) (hs : List Hdr) : Bytes :=
  ((keptFrom 0 hs).map fun (h, _) => slice c h.off h.psize).flatten

def specCallbacks (hs : List Hdr) : List (Nat × Nat) :=
  ((keptFrom 0 hs).filter fun (h, n) => h.off ≠ n).map fun (h, n) => (h.off, n)

/-! ### reads depend only on the bytes read -/

theorem byteAt_eq (b : Bytes) (i : Nat) : byteAt b i = (b[i]?.getD 0).toNat := by
  simp [byteAt, List.getD_eq_getElem?_getD]

theorem leAt_congr (b c : Bytes) : ∀ (n off off' : Nat),
    (∀ i, i < n → b[off + i]? = c[off' + i]?) → leAt b off n = leAt c off' n
  | 0, _, _, _ => rfl
  | n + 1, off, off', h => by
    simp only [leAt, byteAt_eq]
    have h0 := h 0 (by omega)
    simp only [Nat.add_zero] at h0
    rw [h0, leAt_congr b c n (off + 1) (off' + 1) (fun i hi => by
      have := h (i + 1) (by omega)
      simpa [Nat.add_assoc, Nat.add_comm 1 i] using this)]

theorem leAt_eq_of_take_eq (b c : Bytes) (n off off' : Nat)
    (h : (b.drop off).take n = (c.drop off').take n) : leAt b off n = leAt c off' n := by
  apply leAt_congr
  intro i hi
  have := congrArg (fun l => l[i]?) h
  simpa [List.getElem?_take, List.getElem?_drop, hi] using this

theorem drop_eq_mono {b c : Bytes} {r off : Nat} (h : b.drop r = c.drop r) (hle : r ≤ off) :
    b.drop off = c.drop off := by
  have := congrArg (fun l => l.drop (off - r)) h
  simp only [List.drop_drop] at this
  have e : r + (off - r) = off := by omega
  rwa [e] at this

theorem leAt_eq_of_drop_eq {b c : Bytes} {r : Nat} (h : b.drop r = c.drop r) (off n : Nat)
    (hle : r ≤ off) : leAt b off n = leAt c off n :=
  leAt_eq_of_take_eq b c n off off (by rw [drop_eq_mono h hle])

/-! ### memmove -/

theorem writeAt_eq (d : Bytes) : ∀ (l : Bytes) (off : Nat), off + d.length ≤ l.length →
    writeAt l off d = l.take off ++ d ++ l.drop (off + d.length) := by
  induction d with
  | nil => intro l off _; simp [writeAt]
  | cons x xs ih =>
    intro l off h
    simp only [List.length_cons] at h
    have hlt : off < l.length := by omega
    simp only [writeAt]
    rw [ih _ _ (by simp only [List.length_set]; omega)]
    rw [List.set_eq_take_append_cons_drop, if_pos hlt]
    have hl1 : (l.take off ++ [x]).length = off + 1 := by
      simp only [List.length_append, List.length_take, List.length_cons, List.length_nil]; omega
    have e : l.take off ++ x :: l.drop (off + 1) = (l.take off ++ [x]) ++ l.drop (off + 1) := by simp
    rw [e, List.take_left' hl1]
    have e2 : off + 1 + xs.length = (l.take off ++ [x]).length + xs.length := by rw [hl1]
    rw [e2, List.drop_length_add_append, List.drop_drop]
    simp only [List.length_cons, List.append_assoc, List.cons_append, List.nil_append]
    have e3 : off + 1 + xs.length = off + (xs.length + 1) := by omega
    rw [e3]

theorem slice_length (b : Bytes) (r ps : Nat) (h : r + ps ≤ b.length) : (slice b r ps).length = ps := by
  simp only [slice, List.length_take, List.length_drop]; omega

/-- the memmove of one item to a position not after it -/
theorem move_spec (b : Bytes) (r w ps : Nat) (hw : w ≤ r) (h : r + ps ≤ b.length) :
    (writeAt b w (slice b r ps)).take (w + ps) = b.take w ++ slice b r ps ∧
    (writeAt b w (slice b r ps)).drop (r + ps) = b.drop (r + ps) := by
  have hl := slice_length b r ps h
  rw [writeAt_eq _ _ _ (by rw [hl]; omega), hl]
  have hl1 : (b.take w ++ slice b r ps).length = w + ps := by
    simp only [List.length_append, List.length_take, hl]; omega
  constructor
  · exact List.take_left' hl1
  · have e : r + ps = (b.take w ++ slice b r ps).length + (r - w) := by rw [hl1]; omega
    rw [e, List.drop_length_add_append, List.drop_drop]
    congr 1
    omega

theorem move_self (b : Bytes) (r ps : Nat) (h : r + ps ≤ b.length) :
    writeAt b r (slice b r ps) = b := by
  have hl := slice_length b r ps h
  rw [writeAt_eq _ _ _ (by rw [hl]; omega), hl, slice, List.append_assoc]
  rw [← List.drop_drop, List.take_append_drop, List.take_append_drop]

/-! ### the header chain -/

/-- what a successful header walk from `pos` says about the bytes -/
def Chain (c : Bytes) : Nat → List Hdr → Prop
  | pos, [] => pos = c.length
  | pos, h :: hs => h.off = pos ∧ pos + 8 ≤ c.length ∧ h.psize = padded (u32At c pos) ∧ h.psize ≠ 0 ∧
      pos + h.psize ≤ c.length ∧ h.ty = u16At c (pos + 4) ∧
      h.removed = (u16At c (pos + 6) % 2 == 1) ∧ Chain c (pos + h.psize) hs

theorem headers_chain (c : Bytes) : ∀ (fuel pos : Nat) (hs : List Hdr),
    headers c c.length fuel pos = .ok hs → Chain c pos hs
  | 0, _, _, h => by simp [headers] at h
  | fuel + 1, pos, hs, h => by
    simp only [headers] at h
    split at h
    · cases h; simpa [Chain]
    · split at h
      · cases h
      · split at h
        · cases h
        · rename_i h1 h2 h3
          cases hr : headers c c.length fuel (pos + padded (u32At c pos)) with
          | error e => rw [hr] at h; cases h
          | ok rest =>
            rw [hr] at h
            have ih := headers_chain c fuel _ rest hr
            simp only [bind, Except.bind, pure, Except.pure] at h
            cases h
            refine ⟨rfl, by omega, rfl, by simp only []; omega, by simp only []; omega, rfl, rfl, ih⟩

theorem chain_length (c : Bytes) : ∀ (hs : List Hdr) (pos : Nat), Chain c pos hs → pos + hs.length ≤ c.length
  | [], pos, h => by simp [Chain] at h; simp [h]
  | h :: hs, pos, hc => by
    obtain ⟨_, _, _, h0, _, _, _, hc'⟩ := hc
    have := chain_length c hs _ hc'
    simp only [List.length_cons]; omega

theorem skip_id (c b : Bytes) (r : Nat) (hs : List Hdr) (hc : Chain c r hs)
    (hent : ∀ h ∈ hs, isEntity h.ty = true) (hd : b.drop r = c.drop r) (fuel : Nat) :
    skipNonEntity b c.length fuel r = r := by
  cases fuel with
  | zero => rfl
  | succ f =>
    simp only [skipNonEntity]
    cases hs with
    | nil => simp only [Chain] at hc; simp [hc]
    | cons h hs =>
      obtain ⟨_, _, _, _, _, hty, _, _⟩ := hc
      have e : u16At b (r + 4) = u16At c (r + 4) := leAt_eq_of_drop_eq hd _ _ (by omega)
      have := hent h List.mem_cons_self
      rw [hty] at this
      simp [e, this]

/-! ### the loop -/

def emit (c : Bytes) (k : List (Hdr × Nat)) : Bytes := (k.map fun (h, _) => slice c h.off h.psize).flatten
def cbsOf (k : List (Hdr × Nat)) : List (Nat × Nat) :=
  (k.filter fun (h, n) => h.off ≠ n).map fun (h, n) => (h.off, n)

theorem padded_ge8 (n : Nat) (h : padded n ≠ 0) : 8 ≤ padded n := by
  unfold padded at *; omega

theorem purgeLoop_spec (c : Bytes) : ∀ (hs : List Hdr) (fuel : Nat) (b : Bytes) (r w : Nat)
    (cbs : List (Nat × Nat)),
    Chain c r hs → (∀ h ∈ hs, isEntity h.ty = true) → hs.length ≤ fuel → b.length = c.length →
    b.drop r = c.drop r → w ≤ r →
    (purgeLoop c.length fuel b r w cbs).1.take (purgeLoop c.length fuel b r w cbs).2.1
        = b.take w ++ emit c (keptFrom w hs) ∧
    (purgeLoop c.length fuel b r w cbs).2.2 = cbs ++ cbsOf (keptFrom w hs)
  | [], fuel, b, r, w, cbs, hc, _, _, _, _, _ => by
    simp only [Chain] at hc
    cases fuel <;> simp [purgeLoop, hc, keptFrom, emit, cbsOf]
  | h :: hs, 0, _, _, _, _, _, _, hf, _, _, _ => by simp at hf
  | h :: hs, fuel + 1, b, r, w, cbs, hc, hent, hf, hl, hd, hw => by
    obtain ⟨hoff, h8, hps, hps0, hlim, hty, hrm, hc'⟩ := hc
    have hne : r ≠ c.length := by omega
    have hsz : u32At b r = u32At c r := leAt_eq_of_drop_eq hd _ _ (Nat.le_refl _)
    have hfl : u16At b (r + 6) = u16At c (r + 6) := leAt_eq_of_drop_eq hd _ _ (by omega)
    have hent' : ∀ h ∈ hs, isEntity h.ty = true := fun x hx => hent x (List.mem_cons_of_mem _ hx)
    have hd' : b.drop (r + h.psize) = c.drop (r + h.psize) := drop_eq_mono hd (by omega)
    have hskip : skipNonEntity b c.length (c.length + 1) (r + h.psize) = r + h.psize :=
      skip_id c b _ hs hc' hent' hd' _
    have hf' : hs.length ≤ fuel := by simp only [List.length_cons] at hf; omega
    rw [purgeLoop]
    simp only [if_neg hne, hsz, ← hps, hskip, hfl]
    cases hr : h.removed with
    | true =>
      have hbit : (u16At c (r + 6) % 2 == 0) = false := by
        rw [hr] at hrm
        have := hrm.symm
        simp only [beq_iff_eq] at this
        simp [this]
      simp only [hbit, keptFrom, hr, if_true]
      exact purgeLoop_spec c hs fuel b _ w cbs hc' hent' hf' hl hd' (by omega)
    | false =>
      have hbit : (u16At c (r + 6) % 2 == 0) = true := by
        rw [hr] at hrm
        have := hrm.symm
        simp only [beq_eq_false_iff_ne] at this
        simp only [beq_iff_eq]; omega
      have hlimb : r + h.psize ≤ b.length := by omega
      have hmv : (if r ≠ w then (writeAt b w (slice b r h.psize), cbs ++ [(r, w)]) else (b, cbs))
          = (writeAt b w (slice b r h.psize), cbs ++ (if r ≠ w then [(r, w)] else [])) := by
        by_cases e : r = w
        · subst e; simp [move_self b r h.psize hlimb]
        · simp [e]
      simp only [hbit, keptFrom, hr, if_true, hmv]
      obtain ⟨mt, md⟩ := move_spec b r w h.psize hw hlimb
      have hsl : slice b r h.psize = slice c r h.psize := by simp only [slice, hd]
      generalize hb' : writeAt b w (slice b r h.psize) = b' at mt md
      rw [hsl] at mt
      have hl' : b'.length = c.length := by rw [← hb', writeAt_length, hl]
      have h8' : 8 ≤ h.psize := by rw [hps] at hps0 ⊢; exact padded_ge8 _ hps0
      have hsz' : u32At b' w = u32At c r := by
        apply leAt_eq_of_take_eq
        have := congrArg (fun l => (l.drop w).take 4) mt
        have hlw : (b.take w).length = w := by simp only [List.length_take]; omega
        simp only [List.drop_take, List.take_take, List.drop_left' hlw] at this
        have e4 : min 4 (w + h.psize - w) = 4 := by omega
        rw [e4] at this
        rw [this, slice, List.take_take]
        congr 1; omega
      rw [hsz', ← hps]
      have ih := purgeLoop_spec c hs fuel b' (r + h.psize) (w + h.psize)
        (cbs ++ (if r ≠ w then [(r, w)] else [])) hc' hent' hf' hl' (by rw [md, hd']) (by omega)
      rw [ih.1, ih.2, mt]
      constructor
      · simp [emit, hoff]
      · by_cases e : r = w <;> simp [cbsOf, hoff, e]

/-! ### the theorem -/

theorem purgeBytes_spec (c : Bytes) (hs : List Hdr)
    (hh : headersAll c = .ok hs) (hent : ∀ h ∈ hs, isEntity h.ty = true) :
    purgeBytes c = (specBytes c hs, specCallbacks hs) := by
  have hc : Chain c 0 hs := headers_chain c _ _ _ hh
  have hstart : skipNonEntity c c.length (c.length + 1) 0 = 0 := skip_id c c 0 hs hc hent rfl _
  simp only [purgeBytes, hstart]
  split
  · rename_i h0
    have hnil : c = [] := List.eq_nil_of_length_eq_zero h0.symm
    subst hnil
    cases hs with
    | nil => simp [specBytes, specCallbacks, keptFrom]
    | cons h hs => obtain ⟨_, h8, _⟩ := hc; simp at h8
  · have hlen := chain_length c hs 0 hc
    have sp := purgeLoop_spec c hs (c.length + 1) c 0 0 [] hc hent (by omega) rfl rfl (Nat.le_refl _)
    generalize purgeLoop c.length (c.length + 1) c 0 0 [] = res at sp
    obtain ⟨b, w, cbs⟩ := res
    simp only [List.take_zero, List.nil_append] at sp
    simp only [sp.1, sp.2]
    rfl

/-! ### corollaries about the specification -/

/-- the kept items are exactly the items that are not removed, in order -/
theorem keptFrom_items (w : Nat) (hs : List Hdr) :
    (keptFrom w hs).map (·.1) = hs.filter (fun h => !h.removed) := by
  induction hs generalizing w with
  | nil => rfl
  | cons h hs ih =>
    cases hr : h.removed <;> simp [keptFrom, hr, ih]

/-- the new offsets are the running sums of the padded sizes of the kept items -/
def runningSums (w : Nat) : List Nat → List Nat
  | [] => []
  | p :: ps => w :: runningSums (w + p) ps

theorem keptFrom_offsets (w : Nat) (hs : List Hdr) :
    (keptFrom w hs).map (·.2) = runningSums w ((hs.filter (fun h => !h.removed)).map (·.psize)) := by
  induction hs generalizing w with
  | nil => rfl
  | cons h hs ih =>
    cases hr : h.removed <;> simp [keptFrom, hr, ih, runningSums]

theorem emit_length (c : Bytes) : ∀ (hs : List Hdr) (r w : Nat), Chain c r hs →
    (emit c (keptFrom w hs)).length = ((hs.filter (fun h => !h.removed)).map (·.psize)).sum
  | [], _, _, _ => rfl
  | h :: hs, r, w, hc => by
    obtain ⟨hoff, _, _, _, hlim, _, _, hc'⟩ := hc
    cases hr : h.removed with
    | true => simpa [keptFrom, hr] using emit_length c hs _ w hc'
    | false =>
      have := emit_length c hs _ (w + h.psize) hc'
      simp only [emit] at this
      simp [keptFrom, hr, emit, this, slice_length c h.off h.psize (by omega)]

theorem specBytes_length (c : Bytes) (hs : List Hdr) (hh : headersAll c = .ok hs) :
    (specBytes c hs).length = ((hs.filter (fun h => !h.removed)).map (·.psize)).sum :=
  emit_length c hs 0 0 (headers_chain c _ _ _ hh)

end Osmium.Buf
