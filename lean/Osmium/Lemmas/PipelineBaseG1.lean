/-
Pipeline base lemmas, part G1: step case of the buffer invariant for the queue events and the events
of the read thread and the first parser events (the step case of `buf_inv` is split over two files by
event so that they check in parallel).
-/
import Osmium.Lemmas.PipelineBaseF

namespace Osmium.Pipeline

open Osmium.Mon

set_option linter.unusedSimpArgs false

variable {α : Type}
variable [DecidableEq α]

set_option maxHeartbeats 1000000 in
/-- step case of `buf_inv`: events `qi` … `pObj` (constructor index < 10) -/
theorem buf_inv_step_lo (c : Cfg α) (s : State α) (e : Ev α) (s' : State α) (hr : (machine c).Reachable s)
    (ih : BufInv s) (hst : (machine c).Step s e s') : e.ctorIdx < 10 → BufInv s' := by
  have herr := status_error_cpc c s hr
  pl_cases e with hst q hq
  all_goals first | exact fun he => absurd he (of_decide_eq_false rfl) | (intro he; clear he)
  all_goals first | exact ih | skip
  all_goals simp only [BufInv, NoBuf] at ih ⊢
  all_goals obtain ⟨i1, i2, i3, i4, i5, i6, i7, i8, i9⟩ := ih
  all_goals try simp only [afterPop_rpc, afterPop_nested, afterPop_want, afterPop_fut, afterPop_ppc, afterPop_status,
    afterPop_hdr, afterPop_cur, afterClose_rpc, afterClose_nested, afterClose_want, afterClose_fut, afterClose_ppc,
    afterClose_status, afterClose_hdr, afterClose_cur, afterClose_back, afterClose_cpc]
  all_goals have hh := hdr_cases s.hdr
  all_goals try simp only [ppcVal_pCont_iff, rpcVal_rCont_iff]
  all_goals (refine ⟨?_, ?_, ?_, ?_, ?_, ?_, ?_, ?_, ?_⟩)
  all_goals first
    | assumption
    | (grind [rpcVal, ppcVal, wfVal, isBuf, cpcBackNil, ppcPost, setPc_apply, isBuf_false_wfVal, ppcVal_pCont, rpcVal_rCont,
        ppcPost_pCont, cpcBackNil_closeSdRun, cpcBackNil_closeJoin, wfLevels_single, wfLevels_append_singleton, afterPop_backNil])

end Osmium.Pipeline
