import Osmium.Lemmas.PipelineCompleteN

set_option linter.unusedSimpArgs false
set_option linter.unusedVariables false

namespace Osmium.Pipeline
open Osmium.Mon
variable {α : Type} [DecidableEq α]
namespace Complete

/-- id ranges of everything in the osmdata queue -/
structure InvD1 (s : State α) : Prop where
  d_pop : ∀ p ∈ s.outq.popped, p.2.2 % 2 = 1 ∧ p.2.2 < 2 * s.nOut
  d_items : ∀ y ∈ s.outq.items, y.2 % 2 = 1 ∧ y.2 < 2 * s.nOut
  d_fl : ∀ y ∈ QueueSM.inflight s.outq tP, y.2 % 2 = 1 ∧ y.2 < 2 * s.nOut

set_option maxHeartbeats 1600000 in
theorem invD1 (c : Cfg α) : ∀ s, (machine c).Reachable s → InvD1 s := by
  apply Machine.invariant
  · constructor <;> simp [machine, init, QueueSM.init, QueueSM.inflight, QueueSM.carry]
  · intro s e s' hr ih hst
    have hN := (invN c s hr).n_ppcf
    obtain ⟨h1, h2, h3⟩ := ih
    pc_cases e with hst
    all_goals (refine ⟨?_, ?_, ?_⟩ <;> first
      | assumption
      | (simp_all [QueueSM.inflight, QueueSM.carry, setPc_apply]; done)
      | (simp only [QueueSM.inflight, QueueSM.carry, setPc_apply, QueueSM.take_popped, QueueSM.take_items, QueueSM.take_pc] at *; grind)
      | (simp only [QueueSM.inflight, QueueSM.carry, setPc_apply, QueueSM.take_popped, QueueSM.take_items, QueueSM.take_pc] at *
         grind [List.mem_of_mem_tail, List.mem_of_mem_head?])
      | skip)
    all_goals (intro y hy; simp only [QueueSM.take_items] at hy; exact h2 y (List.mem_of_mem_tail hy))

end Complete
end Osmium.Pipeline
