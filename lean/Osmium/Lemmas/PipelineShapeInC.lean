/-
Input side of the shape invariants, part C: program-counter discipline between the pipeline threads
and the input queue machine (`invK`): only tP shuts the input queue down, and only after the end
marker (or at the very end); while tP waits in wait_and_pop the queue is in use.
-/
import Osmium.Lemmas.PipelineShapeInA

set_option linter.unusedSimpArgs false
set_option linter.unusedVariables false

namespace Osmium.Pipeline.ShapeIn

open Osmium.Mon Osmium.Pipeline

variable {α : Type} [DecidableEq α]

/-- the parser thread is inside Parser::run() (not on the exception path, not past run()) -/
def running : PPc α → Bool
  | .run | .popWait | .got _ => true
  | .sdIn k | .sdInRun k | .push _ k | .pushFut _ k | .pushing _ _ k | .pushed _ _ k => decide (k = .run)
  | .caught _ | .done => false

omit [DecidableEq α] in
@[simp] theorem running_pCont (k : PK) : running (pCont k : PPc α) = decide (k = .run) := by cases k <;> rfl

structure InvK (s : State α) : Prop where
  k_sd : s.inq.pc tP = .sdEntered ∨ s.inq.pc tP = .sdFlagged → ∃ k, s.ppc = .sdInRun k
  k_l : s.ppc = .sdIn .run ∨ s.ppc = .sdInRun .run → s.inputDone = true
  k_j : running s.ppc = true → s.inq.inUse = false → s.inputDone = true
  k_m : s.ppc = .popWait ∨ (∃ id, s.ppc = .got id) → s.inq.inUse = true ∧ s.inputDone = false
  k_r : (∀ id v k, s.rpc ≠ .pushing id v k) → s.inq.pc tR = .idle

set_option maxHeartbeats 3200000 in
theorem invK (c : Cfg α) : ∀ s, (machine c).Reachable s → InvK s := by
  apply Machine.invariant
  · constructor <;> simp [machine, init, QueueSM.init, running]
  · intro s e s' hr ih hst
    obtain ⟨h1, h2, h3, h4, h5⟩ := ih
    si_cases e with hst
    all_goals (refine ⟨?_, ?_, ?_, ?_, ?_⟩ <;> first
      | assumption
      | (simp only [QueueSM.take_pc, QueueSM.take_inUse]; assumption)
      | ((try simp only [running_pCont, QueueSM.take_pc, QueueSM.take_inUse])
         simp_all [setPc_apply, running] <;> grind)
      | skip)

end Osmium.Pipeline.ShapeIn
