/-
Termination under PER-THREAD weak fairness (C07).  `Sched.ThreadFair`: every thread that has an enabled
internal step at every position from some position on eventually takes a step — the textbook weak
fairness of a scheduler; the timed wait of a bounded push() returning is a step of the waiting thread.
`Sched.threadFair_weakFair`: it implies the three conditions of `Sched.WeakFair`, hence
(`Sched.call_returns_thread_fair`) every API call returns.

The extra ingredient is that a thread never has the choice between a busy-wait iteration and another
step (`Sched.det`): a thread inside the polling loop of push() or blocked in wait_and_pop() can only
make steps of that call, and which one is determined by the queue.
-/
import Osmium.Lemmas.PipelineFair

set_option linter.unusedSimpArgs false
set_option linter.unusedVariables false
set_option linter.unnecessarySeqFocus false

namespace Osmium.Pipeline

open Osmium.Mon

variable {α : Type} [DecidableEq α]

namespace Sched

open Live Prog

/-! ## a thread inside a queue call only makes steps of that call -/

set_option maxHeartbeats 1600000 in
/-- read thread inside push() on the input queue -/
theorem only_R (c : Cfg α) (wf : c.WF) (s : State α) (hpc : PcInv s) (hw : ∀ w, s.wpc w ≠ none → w ∈ c.workers)
    (hne : s.inq.pc tR ≠ .idle) (e : Ev α) (ht : e.thread = tR) (hc : e.isCall = false)
    (h : (step? c s e).isSome = true) : ∃ qe, e = .qi qe ∧ qe.tid = tR := by
  have h1 := hpc.rIn
  have hf := wf.workers_fresh
  cases e with
  | qi qe => exact ⟨qe, rfl, ht⟩
  | qo qe =>
    exfalso
    cases qe <;> simp only [step?] at h <;> (repeat' split at h) <;> simp_all [Ev.thread, QueueSM.Ev.tid, tR, tP, tC]
  | _ =>
    exfalso
    simp only [step?] at h <;> (repeat' split at h) <;> simp_all [Ev.thread, rOk, tR, tP, tC, Ev.isCall]

set_option maxHeartbeats 1600000 in
/-- parser thread inside push() on the osmdata queue -/
theorem only_P_out (c : Cfg α) (wf : c.WF) (s : State α) (hpc : PcInv s) (hw : ∀ w, s.wpc w ≠ none → w ∈ c.workers)
    (hne : s.outq.pc tP ≠ .idle) (e : Ev α) (ht : e.thread = tP) (hc : e.isCall = false)
    (h : (step? c s e).isSome = true) : ∃ qe, e = .qo qe ∧ qe.tid = tP := by
  have h1 := hpc.pOut
  have h2 := hpc.pIn
  have hf := wf.workers_fresh
  cases e with
  | qo qe => exact ⟨qe, rfl, ht⟩
  | qi qe =>
    exfalso
    cases qe <;> simp only [step?] at h <;> (repeat' split at h) <;>
      simp_all [Ev.thread, QueueSM.Ev.tid, pOkOut, tR, tP, tC] <;>
      (cases hpp : s.ppc <;> simp_all [QueueSM.step?, pOkIn, pOkOut, inPush])
  | _ =>
    exfalso
    simp only [step?] at h <;> (repeat' split at h) <;> simp_all [Ev.thread, pOkOut, tR, tP, tC, Ev.isCall]

set_option maxHeartbeats 1600000 in
/-- parser thread blocked in wait_and_pop() on the input queue -/
theorem only_P_in (c : Cfg α) (wf : c.WF) (s : State α) (hpc : PcInv s) (hw : ∀ w, s.wpc w ≠ none → w ∈ c.workers)
    (hne : s.inq.pc tP = .popWaiting) (e : Ev α) (ht : e.thread = tP) (hc : e.isCall = false)
    (h : (step? c s e).isSome = true) : ∃ qe, e = .qi qe ∧ qe.tid = tP := by
  have h1 := hpc.pIn
  have h2 := hpc.pOut
  have hf := wf.workers_fresh
  cases e with
  | qi qe => exact ⟨qe, rfl, ht⟩
  | qo qe =>
    exfalso
    cases qe <;> simp only [step?] at h <;> (repeat' split at h) <;>
      simp_all [Ev.thread, QueueSM.Ev.tid, pOkIn, tR, tP, tC] <;>
      (cases hpp : s.ppc <;> simp_all [QueueSM.step?, pOkIn, pOkOut, inPush])
  | _ =>
    exfalso
    simp only [step?] at h <;> (repeat' split at h) <;> simp_all [Ev.thread, pOkIn, tR, tP, tC, Ev.isCall]

set_option maxHeartbeats 1600000 in
/-- consumer blocked in wait_and_pop() on the osmdata queue -/
theorem only_C (c : Cfg α) (wf : c.WF) (s : State α) (hpc : PcInv s) (hw : ∀ w, s.wpc w ≠ none → w ∈ c.workers)
    (hne : s.outq.pc tC = .popWaiting) (e : Ev α) (ht : e.thread = tC) (hc : e.isCall = false)
    (h : (step? c s e).isSome = true) : ∃ qe, e = .qo qe ∧ qe.tid = tC := by
  have h1 := hpc.cOut
  have hf := wf.workers_fresh
  cases e with
  | qo qe => exact ⟨qe, rfl, ht⟩
  | qi qe =>
    exfalso
    cases qe <;> simp only [step?] at h <;> (repeat' split at h) <;>
      simp_all [Ev.thread, QueueSM.Ev.tid, cOk, tR, tP, tC]
  | _ =>
    exfalso
    simp only [step?] at h <;> (repeat' split at h) <;> simp_all [Ev.thread, cOk, tR, tP, tC, Ev.isCall]

/-! ## … and which step is determined by the queue -/

set_option maxHeartbeats 1600000 in
theorem stut_in_push (c : Cfg α) (s : State α) (qe : QueueSM.Ev Nat) (ht : qe.tid = tR)
    (hx : (∃ x, s.inq.pc tR = .pushPolling x ∧ c.inqC.max ≤ s.inq.items.length) ∨ ∃ x, s.inq.pc tR = .pushMustWait x)
    (h : (step? c s (.qi qe)).isSome = true) : isStutter c s (.qi qe) = true := by
  rcases hx with ⟨x, hx, hfull⟩ | ⟨x, hx⟩ <;>
    cases qe <;> simp only [step?] at h <;> (repeat' split at h) <;>
      simp_all [QueueSM.step?, QueueSM.Ev.tid, isStutter, tR, tP, tC]

set_option maxHeartbeats 1600000 in
theorem stut_out_push (c : Cfg α) (s : State α) (qe : QueueSM.Ev Nat) (ht : qe.tid = tP)
    (hx : (∃ x, s.outq.pc tP = .pushPolling x ∧ c.outqC.max ≤ s.outq.items.length) ∨ ∃ x, s.outq.pc tP = .pushMustWait x)
    (h : (step? c s (.qo qe)).isSome = true) : isStutter c s (.qo qe) = true := by
  rcases hx with ⟨x, hx, hfull⟩ | ⟨x, hx⟩ <;>
    cases qe <;> simp only [step?] at h <;> (repeat' split at h) <;>
      simp_all [QueueSM.step?, QueueSM.Ev.tid, isStutter, tR, tP, tC]

set_option maxHeartbeats 1600000 in
theorem stut_in_pop (c : Cfg α) (s : State α) (qe : QueueSM.Ev Nat) (ht : qe.tid = tP)
    (hpc : s.inq.pc tP = .popWaiting) (hpred : QueueSM.pred s.inq = false)
    (h : (step? c s (.qi qe)).isSome = true) : isStutter c s (.qi qe) = true := by
  cases qe <;> simp only [step?] at h <;> (repeat' split at h) <;>
    simp_all [QueueSM.step?, QueueSM.Ev.tid, isStutter, tR, tP, tC]

set_option maxHeartbeats 1600000 in
theorem stut_out_pop (c : Cfg α) (s : State α) (qe : QueueSM.Ev Nat) (ht : qe.tid = tC)
    (hpc : s.outq.pc tC = .popWaiting) (hpred : QueueSM.pred s.outq = false)
    (h : (step? c s (.qo qe)).isSome = true) : isStutter c s (.qo qe) = true := by
  cases qe <;> simp only [step?] at h <;> (repeat' split at h) <;>
    simp_all [QueueSM.step?, QueueSM.Ev.tid, isStutter, tR, tP, tC]

/-- `det`: a thread never has the choice between a busy-wait iteration and another step -/
theorem det (c : Cfg α) (wf : c.WF) (s : State α) (h : (machine c).Reachable s) (e1 e2 : Ev α) (s1 s2 : State α)
    (t : Tid) (hst1 : (machine c).Step s e1 s1) (hs1 : isStutter c s e1 = true) (ht1 : e1.thread = t)
    (hst2 : (machine c).Step s e2 s2) (hc2 : e2.isCall = false) (ht2 : e2.thread = t) :
    isStutter c s e2 = true := by
  have hpc := pcInv c s h
  have hw := Rank.wpc_workers c s h
  have hsome := can_some hst2
  revert ht2 ht1
  plv_cases e1 with hst1 q hq
  all_goals (try (simp [isStutter] at hs1; done))
  all_goals q_unfold hq
  all_goals (try (simp [isStutter] at hs1; omega))
  all_goals intro ht1
  all_goals simp only [Ev.thread, QueueSM.Ev.tid] at ht1
  all_goals (try subst_vars)
  all_goals intro ht2
  · have hx := ‹s.inq.pc tR = QueueSM.Pc.pushPolling _›
    obtain ⟨qe, rfl, hq⟩ := only_R c wf s hpc hw (by rw [hx]; simp) e2 ht2 hc2 hsome
    exact stut_in_push c s qe hq (.inl ⟨_, hx, by omega⟩) hsome
  · have hx := ‹s.inq.pc tR = QueueSM.Pc.pushMustWait _›
    obtain ⟨qe, rfl, hq⟩ := only_R c wf s hpc hw (by rw [hx]; simp) e2 ht2 hc2 hsome
    exact stut_in_push c s qe hq (.inr ⟨_, hx⟩) hsome
  · rename_i g1 g2
    obtain ⟨rfl, _⟩ := g1
    obtain ⟨qe, rfl, hq⟩ := only_P_in c wf s hpc hw g2.1 e2 ht2 hc2 hsome
    exact stut_in_pop c s qe hq g2.1 g2.2.2 hsome
  · have hx := ‹s.outq.pc tP = QueueSM.Pc.pushPolling _›
    obtain ⟨qe, rfl, hq⟩ := only_P_out c wf s hpc hw (by rw [hx]; simp) e2 ht2 hc2 hsome
    exact stut_out_push c s qe hq (.inl ⟨_, hx, by omega⟩) hsome
  · have hx := ‹s.outq.pc tP = QueueSM.Pc.pushMustWait _›
    obtain ⟨qe, rfl, hq⟩ := only_P_out c wf s hpc hw (by rw [hx]; simp) e2 ht2 hc2 hsome
    exact stut_out_push c s qe hq (.inr ⟨_, hx⟩) hsome
  · rename_i g1 g2
    obtain ⟨rfl, _⟩ := g1
    obtain ⟨qe, rfl, hq⟩ := only_C c wf s hpc hw g2.1 e2 ht2 hc2 hsome
    exact stut_out_pop c s qe hq g2.1 g2.2.2 hsome

/-! ## per-thread weak fairness -/

/-- thread `t` has an enabled internal step -/
def EnabledT (c : Cfg α) (t : Tid) (s : State α) : Prop :=
  ∃ e s', e.thread = t ∧ e.isCall = false ∧ (machine c).Step s e s'

/-- Weak fairness of the scheduler: a thread that has an enabled internal step at every position from
    some position on eventually takes a step. -/
def ThreadFair (c : Cfg α) (σ : Nat → State α) (ε : Nat → Option (Ev α)) : Prop :=
  ∀ t i, (∀ j, i ≤ j → EnabledT c t (σ j)) → ∃ j e, i ≤ j ∧ ε j = some e ∧ e.thread = t

open Term in
/-- per-thread weak fairness implies the three conditions of `WeakFair` -/
theorem threadFair_weakFair (c : Cfg α) (wf : c.WF) (σ : Nat → State α) (ε : Nat → Option (Ev α))
    (hrun : MaxRun c σ ε) (h0 : (machine c).Reachable (σ 0)) (hf : ThreadFair c σ ε) : WeakFair c σ ε := by
  have hreach := hrun.reachable h0
  refine ⟨fun i hall => ?_, fun i hall => ?_, fun i hall => ?_⟩
  · -- progress
    apply Classical.byContradiction
    intro hno
    have hno : ∀ j, i ≤ j → progressAt c σ ε j = false := by
      intro j hj
      cases hp : progressAt c σ ε j
      · rfl
      · exact absurd ⟨j, hj, hp⟩ hno
    -- every position from i on is a busy-wait step
    have hstep : ∀ j, i ≤ j → ∃ e, (machine c).Step (σ j) e (σ (j + 1)) ∧ isStutter c (σ j) e = true ∧ ε j = some e := by
      intro j hj
      cases he : ε j with
      | none =>
        obtain ⟨e, s', hc, _, hst⟩ := hall j hj
        exact absurd hst ((hrun.halt j he).2 e s' hc)
      | some e =>
        have := hno j hj
        simp only [progressAt, he, Bool.not_eq_false'] at this
        exact ⟨e, (hrun.step j e he).2, this, rfl⟩
    obtain ⟨t, hct⟩ := (can_iff c (σ i)).mp (hall i (Nat.le_refl _))
    have hctP : ∀ k, i ≤ k → CanT c t (σ k) := by
      intro k hk
      induction k with
      | zero => have : i = 0 := by omega
                subst this; exact hct
      | succ k ih =>
        by_cases hik : i = k + 1
        · subst hik; exact hct
        · obtain ⟨e, hst, hs, _⟩ := hstep k (by omega)
          exact canT_frame c t _ _ e hst hs (ih (by omega))
    obtain ⟨j, e, hj, he, hte⟩ := hf t i (fun k hk => by
      obtain ⟨e, s', h1, h2, _, h4⟩ := hctP k hk
      exact ⟨e, s', h1, h2, h4⟩)
    obtain ⟨e', hst, hs, he'⟩ := hstep j hj
    rw [he] at he'
    simp only [Option.some.injEq] at he'
    subst he'
    obtain ⟨e2, s2, ht2, hc2, hns2, hst2⟩ := hctP j hj
    have := det c wf (σ j) (hreach j) e e2 _ s2 t hst hs hte hst2 hc2 ht2
    rw [hns2] at this
    cases this
  · -- the timed wait of the read thread's push()
    obtain ⟨j, e, hj, he, hte⟩ := hf tR i (fun k hk => by
      obtain ⟨x, hx⟩ := hall k hk
      refine ⟨.qi (.pushFullWaited tR (σ k).inq.items.length), _, rfl, rfl,
        (show (machine c).Step (σ k) _ { σ k with inq := { (σ k).inq with pc := setPc (σ k).inq.pc tR (.pushPolling x) } } from ?_)⟩
      simp [Machine.Step, machine, step?, QueueSM.step?, hx])
    refine ⟨j, e, hj, he, ?_⟩
    obtain ⟨x, hx⟩ := hall j hj
    obtain ⟨hc, hst⟩ := hrun.step j e he
    obtain ⟨qe, rfl, hq⟩ := only_R c wf (σ j) (pcInv c _ (hreach j)) (Rank.wpc_workers c _ (hreach j))
      (by rw [hx]; simp) e hte hc (can_some hst)
    have hsome := can_some hst
    cases qe <;> simp only [step?] at hsome <;> (repeat' split at hsome) <;>
      simp_all [QueueSM.step?, QueueSM.Ev.tid, isTwIn, tR, tP, tC]
  · -- the timed wait of the parser thread's push()
    obtain ⟨j, e, hj, he, hte⟩ := hf tP i (fun k hk => by
      obtain ⟨x, hx⟩ := hall k hk
      refine ⟨.qo (.pushFullWaited tP (σ k).outq.items.length), _, rfl, rfl,
        (show (machine c).Step (σ k) _ { σ k with outq := { (σ k).outq with pc := setPc (σ k).outq.pc tP (.pushPolling x) } } from ?_)⟩
      simp [Machine.Step, machine, step?, QueueSM.step?, hx])
    refine ⟨j, e, hj, he, ?_⟩
    obtain ⟨x, hx⟩ := hall j hj
    obtain ⟨hc, hst⟩ := hrun.step j e he
    obtain ⟨qe, rfl, hq⟩ := only_P_out c wf (σ j) (pcInv c _ (hreach j)) (Rank.wpc_workers c _ (hreach j))
      (by rw [hx]; simp) e hte hc (can_some hst)
    have hsome := can_some hst
    cases qe <;> simp only [step?] at hsome <;> (repeat' split at hsome) <;>
      simp_all [QueueSM.step?, QueueSM.Ev.tid, isTwOut, tR, tP, tC]

open Term in
/-- `call_returns_thread_fair`: under weak fairness of the scheduler towards every thread, every maximal run
    without further API calls reaches a state in which the call has returned, after at most
    `rank c (σ 0)` steps that are not busy-wait iterations. -/
theorem call_returns_thread_fair (c : Cfg α) (wf : c.WF) (σ : Nat → State α) (ε : Nat → Option (Ev α))
    (hrun : MaxRun c σ ε) (h0 : (machine c).Reachable (σ 0)) (hf : ThreadFair c σ ε) :
    ∃ n, ¬ InCall (σ n) ∧ (∀ i, i < n → InCall (σ i)) ∧ work c σ ε n + rank c (σ n) ≤ rank c (σ 0) :=
  call_returns_weak_fair c wf σ ε hrun h0 (threadFair_weakFair c wf σ ε hrun h0 hf)

/-- satisfiable: the run that follows a finite trace to a state without enabled internal step -/
theorem threadFair_of_trace (c : Cfg α) (s0 sf : State α) (tr : List (Ev α))
    (hrun : runTr c s0 tr = some sf)
    (hq : ∀ e s', e.isCall = false → ¬ (machine c).Step sf e s') :
    ThreadFair c (Term.runSt c s0 tr) (fun i => tr[i]?) := by
  intro t i hall
  exfalso
  obtain ⟨e, s', _, hc, hst⟩ := hall (max i tr.length) (Nat.le_max_left _ _)
  rw [Term.runSt_end c tr s0 sf hrun _ (Nat.le_max_right _ _)] at hst
  exact hq e s' hc hst

end Sched

end Osmium.Pipeline
