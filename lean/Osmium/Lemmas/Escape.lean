/-
Helper lemmas for the escaping model (property C14), OPL part: hex formatting is undone by
`parseEscaped`, pass-through bytes are copied by `parseStringLoop`, round trip on escaped
strings, shape of the escaped form, cursor statements.  Every statement about the
pass-through table takes the table check `passSafe = true` as a hypothesis; the check
itself is decided in Props/C14.lean against the regenerated table.  Core-only.
-/
import Osmium.Lemmas.Utf8
import Osmium.Model.Escape
namespace Osmium.Opl
open Osmium.Utf8

theorem nib_eq (v k : Nat) : nib v k = v / 2 ^ k % 16 := by
  unfold nib; rw [Nat.shiftRight_eq_div_pow]; exact Nat.and_two_pow_sub_one_eq_mod _ 4

theorem hexVal_hexDigit : ∀ n, n < 16 → hexVal (hexDigit n) = some n := by decide
theorem hexDigit_ne_zero : ∀ n, n < 16 → hexDigit n ≠ 0 := by decide
theorem hexDigit_ne_pct : ∀ n, n < 16 → hexDigit n ≠ 0x25 := by decide

theorem hexVal_hexDigit_mod (n : Nat) : hexVal (hexDigit (n % 16)) = some (n % 16) :=
  hexVal_hexDigit _ (Nat.mod_lt _ (by decide))

/-- one digit step of `parseEscaped` -/
theorem parseEscaped_digit (n value d : Nat) (hd : d < 16) (s : List UInt8) :
    parseEscaped (n + 1) value (hexDigit d :: s) = parseEscaped n (((value <<< 4) % 2 ^ 32) + d) s := by
  simp [parseEscaped, hexDigit_ne_zero d hd, hexDigit_ne_pct d hd, hexVal_hexDigit d hd]

theorem parseEscaped_end (n value : Nat) (s : List UInt8) :
    parseEscaped (n + 1) value (0x25 :: s) = .ok (if value = 0 then [0x25] else encode value, s) := by
  simp [parseEscaped]

/-- the parser undoes the `%hex%` form (after the leading '%') for every code point up to
    U+10FFFF -/
theorem parseEscaped_hex (c : Nat) (h0 : 0 < c) (h : c < 0x110000) (t : List UInt8) :
    parseEscaped 8 0 ((if c ≤ 0xff then hex2 c else hexMin4 c) ++ 0x25 :: t) = .ok (encode c, t) := by
  have m16 : ∀ x, x % 16 < 16 := fun x => Nat.mod_lt _ (by decide)
  by_cases h1 : c ≤ 0xff
  · simp only [h1, if_true, hex2, nib_eq, List.cons_append, List.nil_append]
    rw [parseEscaped_digit _ _ _ (m16 _), parseEscaped_digit _ _ _ (m16 _), parseEscaped_end]
    simp only [Nat.shiftLeft_eq]
    have : (0 * 2 ^ 4 % 2 ^ 32 + c / 2 ^ 4 % 16) * 2 ^ 4 % 2 ^ 32 + c / 2 ^ 0 % 16 = c := by omega
    rw [this, if_neg (by omega)]
  · have e28 : c / 2 ^ 28 % 16 = 0 := by omega
    have e24 : c / 2 ^ 24 % 16 = 0 := by omega
    by_cases h2 : c < 0x10000
    · have e20 : c / 2 ^ 20 % 16 = 0 := by omega
      have e16 : c / 2 ^ 16 % 16 = 0 := by omega
      simp only [h1, if_false, hexMin4, hexLead, nib_eq, e28, e24, e20, e16, ne_eq, not_true_eq_false,
        Bool.false_eq_true, or_self, List.cons_append, List.nil_append]
      rw [parseEscaped_digit _ _ _ (m16 _), parseEscaped_digit _ _ _ (m16 _),
        parseEscaped_digit _ _ _ (m16 _), parseEscaped_digit _ _ _ (m16 _), parseEscaped_end]
      simp only [Nat.shiftLeft_eq]
      have : (((0 * 2 ^ 4 % 2 ^ 32 + c / 2 ^ 12 % 16) * 2 ^ 4 % 2 ^ 32 + c / 2 ^ 8 % 16) * 2 ^ 4 % 2 ^ 32 +
          c / 2 ^ 4 % 16) * 2 ^ 4 % 2 ^ 32 + c / 2 ^ 0 % 16 = c := by omega
      rw [this, if_neg (by omega)]
    · by_cases h3 : c < 0x100000
      · have e20 : c / 2 ^ 20 % 16 = 0 := by omega
        have e16 : c / 2 ^ 16 % 16 ≠ 0 := by omega
        simp only [h1, if_false, hexMin4, hexLead, nib_eq, e28, e24, e20, e16, ne_eq, not_true_eq_false,
          not_false_eq_true, Bool.false_eq_true, or_self, or_false, if_true,
          List.cons_append, List.nil_append]
        rw [parseEscaped_digit _ _ _ (m16 _), parseEscaped_digit _ _ _ (m16 _),
          parseEscaped_digit _ _ _ (m16 _), parseEscaped_digit _ _ _ (m16 _),
          parseEscaped_digit _ _ _ (m16 _), parseEscaped_end]
        simp only [Nat.shiftLeft_eq]
        have : ((((0 * 2 ^ 4 % 2 ^ 32 + c / 2 ^ 16 % 16) * 2 ^ 4 % 2 ^ 32 + c / 2 ^ 12 % 16) * 2 ^ 4 % 2 ^ 32 +
            c / 2 ^ 8 % 16) * 2 ^ 4 % 2 ^ 32 + c / 2 ^ 4 % 16) * 2 ^ 4 % 2 ^ 32 + c / 2 ^ 0 % 16 = c := by omega
        rw [this, if_neg (by omega)]
      · have e20 : c / 2 ^ 20 % 16 ≠ 0 := by omega
        simp only [h1, if_false, hexMin4, hexLead, nib_eq, e28, e24, e20, ne_eq, not_true_eq_false,
          not_false_eq_true, Bool.false_eq_true, or_self, or_false, or_true, if_true,
          List.cons_append, List.nil_append]
        rw [parseEscaped_digit _ _ _ (m16 _), parseEscaped_digit _ _ _ (m16 _),
          parseEscaped_digit _ _ _ (m16 _), parseEscaped_digit _ _ _ (m16 _),
          parseEscaped_digit _ _ _ (m16 _), parseEscaped_digit _ _ _ (m16 _), parseEscaped_end]
        simp only [Nat.shiftLeft_eq]
        have : (((((0 * 2 ^ 4 % 2 ^ 32 + c / 2 ^ 20 % 16) * 2 ^ 4 % 2 ^ 32 + c / 2 ^ 16 % 16) * 2 ^ 4 % 2 ^ 32 +
            c / 2 ^ 12 % 16) * 2 ^ 4 % 2 ^ 32 + c / 2 ^ 8 % 16) * 2 ^ 4 % 2 ^ 32 + c / 2 ^ 4 % 16) * 2 ^ 4 % 2 ^ 32 +
            c / 2 ^ 0 % 16 = c := by omega
        rw [this, if_neg (by omega)]

/-! ### the pass-through table -/

/-- bytes the parser treats specially (stop characters and '%'), '@' and line breaks:
    no interval of the pass-through table may contain one of them -/
def passSafe : Bool :=
  Generated.oplPass.all fun p => (0x25 :: structural).all fun x => x < p.1 || p.2 < x

theorem pass_not_special (hsafe : passSafe = true) (c : Nat) (hp : pass c = true) :
    c ∉ (0x25 :: structural) := by
  intro hc
  simp only [pass, List.any_eq_true, Bool.and_eq_true, decide_eq_true_eq] at hp
  obtain ⟨p, hpm, h1, h2⟩ := hp
  simp only [passSafe, List.all_eq_true, Bool.or_eq_true, decide_eq_true_eq] at hsafe
  have := hsafe p hpm c hc
  omega

/-- a byte `opl_parse_string` copies unchanged and that is no structural character -/
def SafeByte (b : UInt8) : Prop := b.toNat ∉ (0x25 :: structural)

theorem safeByte_of_high (b : UInt8) (h : 0x80 ≤ b.toNat) : SafeByte b := by
  simp [SafeByte, structural]; omega

theorem SafeByte.not_stop {b : UInt8} (h : SafeByte b) : isStop b = false := by
  simp only [SafeByte, structural, List.mem_cons, List.not_mem_nil, or_false, not_or] at h
  simp only [isStop, ← UInt8.toNat_inj, Bool.or_eq_false_iff, decide_eq_false_iff_not]
  simp; omega

theorem SafeByte.ne_pct {b : UInt8} (h : SafeByte b) : b ≠ 0x25 := by
  simp only [SafeByte, structural, List.mem_cons, List.not_mem_nil, or_false, not_or] at h
  intro hb; subst hb; simp at h

theorem encode_safe_of_pass (hsafe : passSafe = true) (c : Nat) (h : c < 0x200000)
    (hp : pass c = true) : ∀ b ∈ encode c, SafeByte b := by
  by_cases h1 : c < 0x80
  · rw [encode_ascii c h1]
    intro b hb
    simp only [List.mem_cons, List.not_mem_nil, or_false] at hb
    subst hb
    have := pass_not_special hsafe c hp
    simp only [SafeByte, UInt8.toNat_ofNat']
    rwa [show c % 2 ^ 8 = c by omega]
  · intro b hb
    exact safeByte_of_high b (encode_bytes_high c (by omega) h b hb)

theorem parseStringLoop_raw (raw : List UInt8) (hraw : ∀ b ∈ raw, SafeByte b) (t : List UInt8) :
    ∀ fuel, parseStringLoop (fuel + raw.length) (raw ++ t) =
      match parseStringLoop fuel t with
      | .error e => .error e
      | .ok (r, rest') => .ok (raw ++ r, rest') := by
  induction raw with
  | nil => intro fuel; simp; cases parseStringLoop fuel t <;> rfl
  | cons b raw ih =>
    intro fuel
    have hb := hraw b (by simp)
    have := ih (fun x hx => hraw x (by simp [hx])) fuel
    simp only [List.length_cons, ← Nat.add_assoc, List.cons_append, parseStringLoop, hb.not_stop,
      hb.ne_pct, if_false, this, Bool.false_eq_true]
    cases parseStringLoop fuel t with
    | error e => rfl
    | ok v => rfl

theorem escapeStr_cons (c : Nat) (s : List Nat) : escapeStr (c :: s) = escapeCp c ++ escapeStr s := by
  simp [escapeStr]

/-- where the parser stops: end of the string or a stop character -/
def AtStop (t : List UInt8) : Prop := t = [] ∨ ∃ d t', t = d :: t' ∧ isStop d = true

theorem parseStringLoop_stop (t : List UInt8) (ht : AtStop t) (fuel : Nat) :
    parseStringLoop (fuel + 1) t = .ok ([], t) := by
  rcases ht with rfl | ⟨d, t', rfl, hd⟩
  · simp [parseStringLoop]
  · simp [parseStringLoop, hd]

theorem parseStringLoop_escapeStr (hsafe : passSafe = true) (s : List Nat)
    (hs : ∀ c ∈ s, 0 < c ∧ c < 0x110000) (t : List UInt8) (ht : AtStop t) :
    ∀ fuel, (escapeStr s ++ t).length < fuel →
      parseStringLoop fuel (escapeStr s ++ t) = .ok (encodeStr s, t) := by
  induction s with
  | nil =>
    intro fuel hf
    cases fuel with
    | zero => omega
    | succ f => simpa [escapeStr, encodeStr] using parseStringLoop_stop t ht f
  | cons c s ih =>
    intro fuel hf
    have ⟨hc0, hc⟩ := hs c (by simp)
    have ih' := ih (fun x hx => hs x (by simp [hx]))
    rw [escapeStr_cons, encodeStr_cons, List.append_assoc] at *
    by_cases hp : pass c = true
    · simp only [escapeCp, piece, hp, if_true] at hf ⊢
      have hlen : fuel = (fuel - (encode c).length) + (encode c).length := by
        simp at hf; omega
      rw [hlen, parseStringLoop_raw _ (encode_safe_of_pass hsafe c (by omega) hp),
        ih' _ (by simp at hf ⊢; omega)]
    · simp only [escapeCp, piece, hp, escaped, Bool.false_eq_true, if_false, List.cons_append,
        List.append_assoc, List.nil_append] at hf ⊢
      cases fuel with
      | zero => omega
      | succ f =>
        simp only [parseStringLoop, show isStop 0x25 = false by decide, Bool.false_eq_true,
          if_false, if_true, parseEscaped_hex c hc0 hc]
        rw [ih' f (by simp at hf ⊢; omega)]

/-! ### byte-level escape = code-point-level escape on encoded strings -/

theorem escapeLoop_encodeStr (s : List Nat) (hs : ∀ c ∈ s, c < 0x200000) :
    ∀ fuel, (encodeStr s).length < fuel → escapeLoop fuel (encodeStr s) = .ok (escapeStr s) := by
  induction s with
  | nil => intro fuel hf; cases fuel with
    | zero => omega
    | succ f => simp [encodeStr, escapeStr, escapeLoop]
  | cons c s ih =>
    intro fuel hf
    cases fuel with
    | zero => omega
    | succ f =>
      have hc := hs c (by simp)
      have hne := encode_ne_nil c
      rw [encodeStr_cons] at hf ⊢
      have hlen : 0 < (encode c).length := List.length_pos_iff.mpr hne
      simp only [escapeLoop, List.isEmpty_iff, List.append_eq_nil_iff, hne, false_and, if_false,
        next_encode c hc, List.drop_left', List.take_left']
      rw [ih (fun x hx => hs x (by simp [hx])) f (by simp at hf; omega), escapeStr_cons]
      rfl

theorem escape_encodeStr (s : List Nat) (hs : ∀ c ∈ s, c < 0x200000) :
    escape (encodeStr s) = .ok (escapeStr s) :=
  escapeLoop_encodeStr s hs _ (by omega)

/-! ### shape of the escaped form -/

theorem hex2_digits (v : Nat) : ∀ b ∈ hex2 v, ∃ n, n < 16 ∧ b = hexDigit n := by
  intro b hb
  have m16 : ∀ x, x % 16 < 16 := fun x => Nat.mod_lt _ (by decide)
  simp only [hex2, nib_eq, List.mem_cons, List.not_mem_nil, or_false] at hb
  rcases hb with hb | hb <;> exact ⟨_, m16 _, hb⟩

theorem hexLead_digits (ks : List Nat) (v : Nat) :
    ∀ started, ∀ b ∈ hexLead ks v started, ∃ n, n < 16 ∧ b = hexDigit n := by
  have m16 : ∀ x, x % 16 < 16 := fun x => Nat.mod_lt _ (by decide)
  induction ks with
  | nil => intro _ b hb; simp [hexLead] at hb
  | cons k ks ih =>
    intro started b hb
    unfold hexLead at hb
    split at hb
    · simp only [List.mem_cons] at hb
      rcases hb with hb | hb
      · exact ⟨_, by rw [nib_eq]; exact m16 _, hb⟩
      · exact ih true b hb
    · exact ih false b hb

theorem hexMin4_digits (v : Nat) : ∀ b ∈ hexMin4 v, ∃ n, n < 16 ∧ b = hexDigit n := by
  intro b hb
  have m16 : ∀ x, x % 16 < 16 := fun x => Nat.mod_lt _ (by decide)
  simp only [hexMin4, List.mem_append] at hb
  rcases hb with hb | hb
  · exact hexLead_digits _ v false b hb
  · simp only [nib_eq, List.mem_cons, List.not_mem_nil, or_false] at hb
    rcases hb with hb | hb | hb | hb <;> exact ⟨_, m16 _, hb⟩

theorem hexDigit_not_structural : ∀ n, n < 16 → (hexDigit n).toNat ∉ (0x25 :: structural) := by decide

theorem escaped_shape (c : Nat) : ∃ h, escaped c = 0x25 :: (h ++ [0x25]) ∧ h ≠ [] ∧
    ∀ b ∈ h, ∃ n, n < 16 ∧ b = hexDigit n := by
  refine ⟨if c ≤ 0xff then hex2 c else hexMin4 c, rfl, ?_, ?_⟩
  · split
    · simp [hex2]
    · simp [hexMin4]
  · split
    · exact hex2_digits c
    · exact hexMin4_digits c

theorem escapeCp_no_structural (hsafe : passSafe = true) (c : Nat) (h : c < 0x200000) :
    ∀ b ∈ escapeCp c, b.toNat ∉ structural := by
  intro b hb
  by_cases hp : pass c = true
  · simp only [escapeCp, piece, hp, if_true] at hb
    have := encode_safe_of_pass hsafe c h hp b hb
    simp only [SafeByte, List.mem_cons, not_or] at this
    exact this.2
  · simp only [escapeCp, piece, hp, Bool.false_eq_true, if_false] at hb
    obtain ⟨hx, he, _, hd⟩ := escaped_shape c
    rw [he] at hb
    simp only [List.mem_cons, List.mem_append, List.not_mem_nil, or_false] at hb
    rcases hb with hb | hb | hb
    · subst hb; decide
    · obtain ⟨n, hn, rfl⟩ := hd b hb
      have := hexDigit_not_structural n hn
      simp only [List.mem_cons, not_or] at this
      exact this.2
    · subst hb; decide

/-! ### cursor statements -/

theorem rd_ok (bs : List UInt8) (i : Nat) (h : i ≤ bs.length) : ∃ v, rd bs i = .ok v := by
  unfold rd
  cases hb : bs[i]? with
  | some b => exact ⟨_, rfl⟩
  | none =>
    have : bs.length ≤ i := by simpa using hb
    simp [show i = bs.length by omega]

theorem seqLen_cases (x : Nat) : seqLen x = 0 ∨ seqLen x = 1 ∨ seqLen x = 2 ∨ seqLen x = 3 ∨ seqLen x = 4 := by
  rw [seqLen_arith]; repeat' split
  all_goals simp

/-- `next_utf8_codepoint` never reads beyond the terminating NUL, whatever the bytes -/
theorem next_ne_oob (bs : List UInt8) : next bs ≠ .error .oob := by
  unfold next
  obtain ⟨v0, h0⟩ := rd_ok bs 0 (by omega)
  simp only [h0]
  rcases seqLen_cases v0 with h | h | h | h | h <;> simp only [h]
  · simp
  · by_cases hl : bs.length < 1
    · simp [hl]
    · simp [hl]
  · by_cases hl : bs.length < 2
    · simp [hl]
    · obtain ⟨v1, h1⟩ := rd_ok bs 1 (by omega)
      simp [hl, h1]
  · by_cases hl : bs.length < 3
    · simp [hl]
    · obtain ⟨v1, h1⟩ := rd_ok bs 1 (by omega)
      obtain ⟨v2, h2⟩ := rd_ok bs 2 (by omega)
      simp [hl, h1, h2]
  · by_cases hl : bs.length < 4
    · simp [hl]
    · obtain ⟨v1, h1⟩ := rd_ok bs 1 (by omega)
      obtain ⟨v2, h2⟩ := rd_ok bs 2 (by omega)
      obtain ⟨v3, h3⟩ := rd_ok bs 3 (by omega)
      simp [hl, h1, h2, h3]

theorem next_len (bs : List UInt8) (c len : Nat) (h : next bs = .ok (c, len)) :
    1 ≤ len ∧ len ≤ bs.length := by
  unfold next at h
  obtain ⟨v0, h0⟩ := rd_ok bs 0 (by omega)
  simp only [h0] at h
  rcases seqLen_cases v0 with hs | hs | hs | hs | hs <;> simp only [hs] at h
  · simp at h
  · by_cases hl : bs.length < 1
    · simp [hl] at h
    · simp [hl] at h; omega
  · by_cases hl : bs.length < 2
    · simp [hl] at h
    · obtain ⟨v1, h1⟩ := rd_ok bs 1 (by omega)
      simp [hl, h1] at h; omega
  · by_cases hl : bs.length < 3
    · simp [hl] at h
    · obtain ⟨v1, h1⟩ := rd_ok bs 1 (by omega)
      obtain ⟨v2, h2⟩ := rd_ok bs 2 (by omega)
      simp [hl, h1, h2] at h; omega
  · by_cases hl : bs.length < 4
    · simp [hl] at h
    · obtain ⟨v1, h1⟩ := rd_ok bs 1 (by omega)
      obtain ⟨v2, h2⟩ := rd_ok bs 2 (by omega)
      obtain ⟨v3, h3⟩ := rd_ok bs 3 (by omega)
      simp [hl, h1, h2, h3] at h; omega

theorem escapeLoop_ne_oob : ∀ fuel (bs : List UInt8), bs.length < fuel → escapeLoop fuel bs ≠ .error .oob := by
  intro fuel
  induction fuel with
  | zero => intro bs h; omega
  | succ f ih =>
    intro bs hf
    unfold escapeLoop
    split
    · simp
    · cases hn : next bs with
      | error e =>
        have := next_ne_oob bs
        rw [hn] at this
        simpa using this
      | ok v =>
        obtain ⟨c, len⟩ := v
        have hl := next_len bs c len hn
        have := ih (bs.drop len) (by simp; omega)
        simp only
        cases hr : escapeLoop f (bs.drop len) with
        | error e => rw [hr] at this; simpa using this
        | ok r => simp

theorem next_incomplete (b0 : UInt8) (tail : List UInt8)
    (h : (b0 :: tail).length < seqLen b0.toNat) : next (b0 :: tail) = .error .incomplete := by
  unfold next
  simp only [rd, List.getElem?_cons_zero]
  rw [if_neg (by omega), if_pos h]

theorem escapeLoop_truncated (s : List Nat) (hs : ∀ c ∈ s, c < 0x200000) (b0 : UInt8)
    (tail : List UInt8) (h : (b0 :: tail).length < seqLen b0.toNat) :
    ∀ fuel, (encodeStr s ++ b0 :: tail).length < fuel →
      escapeLoop fuel (encodeStr s ++ b0 :: tail) = .error .incomplete := by
  induction s with
  | nil =>
    intro fuel hf
    cases fuel with
    | zero => omega
    | succ f => simp [encodeStr, escapeLoop, next_incomplete b0 tail h]
  | cons c s ih =>
    intro fuel hf
    cases fuel with
    | zero => omega
    | succ f =>
      have hc := hs c (by simp)
      have hne := encode_ne_nil c
      rw [encodeStr_cons, List.append_assoc] at hf ⊢
      have hlen : 0 < (encode c).length := List.length_pos_iff.mpr hne
      simp only [escapeLoop, List.isEmpty_iff, List.append_eq_nil_iff, hne, false_and, if_false,
        next_encode c hc, List.drop_left']
      rw [ih (fun x hx => hs x (by simp [hx])) f (by simp at hf ⊢; omega)]

end Osmium.Opl

/-! ## XML part: table checks (as hypotheses), byte-level escape = code-point-level escape,
the expat-contract reader undoes the references, no structural character. -/
namespace Osmium.Xml
open Osmium.Utf8

/-! ### table checks (decided in Props/C14.lean against the regenerated table) -/

/-- keys and replacement bytes are ASCII -/
def tableAscii : Bool := Generated.xmlEntities.all fun p => decide (p.1 < 0x80) && p.2.all fun x => decide (x < 0x80)

/-- body of the reference `&body;` an entry claims to be -/
def bodyOf (p : Nat × List Nat) : List Nat := (p.2.drop 1).dropLast

/-- every replacement is a reference `&body;` whose value (under the expat contract) is the
    replaced byte -/
def tableRefs : Bool := Generated.xmlEntities.all fun p =>
  decide (p.2 = 0x26 :: (bodyOf p ++ [0x3b])) && !(bodyOf p).contains 0x3b && (refValue (bodyOf p) == some p.1)

/-- every character that may not appear literally in an attribute value (or would be
    changed by normalisation) is replaced -/
def tableCovers : Bool := ([0x26] ++ structural).all fun c => (entity c).isSome

/-- no replacement contains a structural character -/
def tableClean : Bool := Generated.xmlEntities.all fun p => p.2.all fun x => !structural.contains x

theorem entity_mem {n : Nat} {r : List Nat} (h : entity n = some r) : (n, r) ∈ Generated.xmlEntities := by
  simp only [entity, Option.map_eq_some_iff] at h
  obtain ⟨p, hp, rfl⟩ := h
  have hm := List.mem_of_find?_eq_some hp
  have hk := List.find?_some hp
  simp only [beq_iff_eq] at hk
  subst hk
  exact hm

theorem entity_key_ascii (ha : tableAscii = true) {n : Nat} {r : List Nat} (h : entity n = some r) :
    n < 0x80 ∧ ∀ x ∈ r, x < 0x80 := by
  have hm := entity_mem h
  simp only [tableAscii, List.all_eq_true, Bool.and_eq_true, decide_eq_true_eq] at ha
  exact ha _ hm

theorem entity_none_of_high (ha : tableAscii = true) (n : Nat) (h : 0x80 ≤ n) : entity n = none := by
  cases he : entity n with
  | none => rfl
  | some r => have := (entity_key_ascii ha he).1; omega

theorem encodeStr_ascii (r : List Nat) (h : ∀ x ∈ r, x < 0x80) : encodeStr r = r.map UInt8.ofNat := by
  induction r with
  | nil => rfl
  | cons x r ih =>
    rw [encodeStr_cons, encode_ascii x (h x (by simp)), ih (fun y hy => h y (by simp [hy]))]
    rfl

theorem escape_append (a b : List UInt8) : escape (a ++ b) = escape a ++ escape b := by
  simp [escape]

/-- bytes with the high bit set are copied -/
theorem escape_high (ha : tableAscii = true) (bs : List UInt8) (h : ∀ b ∈ bs, 0x80 ≤ b.toNat) :
    escape bs = bs := by
  induction bs with
  | nil => rfl
  | cons b bs ih =>
    have : escape (b :: bs) = escapeByte b ++ escape bs := by simp [escape]
    rw [this, ih (fun x hx => h x (by simp [hx]))]
    simp [escapeByte, entity_none_of_high ha _ (h b (by simp))]

theorem escape_encode (ha : tableAscii = true) (c : Nat) (h : c < 0x200000) :
    escape (encode c) = encodeStr (escapeCp c) := by
  by_cases h1 : c < 0x80
  · rw [encode_ascii c h1]
    have : escape [UInt8.ofNat c] = escapeByte (UInt8.ofNat c) := by simp [escape]
    rw [this]
    have hn : (UInt8.ofNat c).toNat = c := by rw [UInt8.toNat_ofNat']; omega
    simp only [escapeByte, escapeCp, hn]
    cases he : entity c with
    | none => simp [encodeStr, encode_ascii c h1]
    | some r => simp only; rw [encodeStr_ascii r (entity_key_ascii ha he).2]
  · rw [escape_high ha _ (encode_bytes_high c (by omega) h)]
    simp [escapeCp, entity_none_of_high ha c (by omega), encodeStr]

theorem escape_encodeStr (ha : tableAscii = true) (s : List Nat) (hs : ∀ c ∈ s, c < 0x200000) :
    escape (encodeStr s) = encodeStr (s.flatMap escapeCp) := by
  induction s with
  | nil => rfl
  | cons c s ih =>
    rw [encodeStr_cons, escape_append, escape_encode ha c (hs c (by simp)),
      ih (fun x hx => hs x (by simp [hx]))]
    simp [encodeStr]

/-! ### the expat-contract parser undoes the references -/

theorem takeWhile_body (body rest : List Nat) (h : 0x3b ∉ body) :
    (body ++ 0x3b :: rest).takeWhile (· != 0x3b) = body := by
  induction body with
  | nil => simp
  | cons x xs ih =>
    have hx : x ≠ 0x3b := fun e => h (by simp [e])
    simp [hx, ih (fun m => h (by simp [m]))]

theorem dropWhile_body (body rest : List Nat) (h : 0x3b ∉ body) :
    (body ++ 0x3b :: rest).dropWhile (· != 0x3b) = 0x3b :: rest := by
  induction body with
  | nil => simp
  | cons x xs ih =>
    have hx : x ≠ 0x3b := fun e => h (by simp [e])
    simp [hx, ih (fun m => h (by simp [m]))]

theorem unescapeCps_ref (ok : Nat → Bool) (hamp : ok 0x26 = true) (fuel : Nat) (body rest : List Nat)
    (v : Nat) (h : 0x3b ∉ body) (hv : refValue body = some v) :
    unescapeCpsWith ok (fuel + 1) (0x26 :: (body ++ 0x3b :: rest)) =
      (unescapeCpsWith ok fuel rest).map (v :: ·) := by
  simp [unescapeCpsWith, hamp, takeWhile_body body rest h, dropWhile_body body rest h, hv]

theorem unescapeCps_plain (ok : Nat → Bool) (fuel c : Nat) (rest : List Nat) (hok : ok c = true)
    (hc : c ∉ ([0x26] ++ structural)) :
    unescapeCpsWith ok (fuel + 1) (c :: rest) = (unescapeCpsWith ok fuel rest).map (c :: ·) := by
  simp only [structural, List.cons_append, List.nil_append, List.mem_cons, List.not_mem_nil,
    or_false, not_or] at hc
  simp [unescapeCpsWith, hok, hc]

theorem entity_shape (hr : tableRefs = true) {c : Nat} {r : List Nat} (he : entity c = some r) :
    ∃ body, r = 0x26 :: (body ++ [0x3b]) ∧ 0x3b ∉ body ∧ refValue body = some c := by
  have hm := entity_mem he
  simp only [tableRefs, List.all_eq_true, Bool.and_eq_true, decide_eq_true_eq, Bool.not_eq_true',
    beq_iff_eq] at hr
  obtain ⟨⟨h1, h2⟩, h3⟩ := hr _ hm
  refine ⟨bodyOf (c, r), h1, ?_, h3⟩
  intro hmem
  have : (bodyOf (c, r)).contains 0x3b = true := by simpa using hmem
  rw [this] at h2
  cases h2

theorem entity_none_plain (hc : tableCovers = true) {c : Nat} (he : entity c = none) :
    c ∉ ([0x26] ++ structural) := by
  intro hm
  simp only [tableCovers, List.all_eq_true] at hc
  have := hc c hm
  rw [he] at this
  cases this

theorem escapeCp_length_pos (c : Nat) (hr : tableRefs = true) : 0 < (escapeCp c).length := by
  unfold escapeCp
  cases he : entity c with
  | none => simp
  | some r =>
    obtain ⟨body, rfl, _, _⟩ := entity_shape hr he
    simp

theorem unescapeCps_escape (ok : Nat → Bool) (hamp : ok 0x26 = true) (hr : tableRefs = true)
    (hc : tableCovers = true) (s : List Nat) (hs : ∀ c ∈ s, ok c = true) :
    ∀ fuel, (s.flatMap escapeCp).length < fuel →
      unescapeCpsWith ok fuel (s.flatMap escapeCp) = some s := by
  induction s with
  | nil => intro fuel hf; cases fuel with
    | zero => omega
    | succ f => simp [unescapeCpsWith]
  | cons c s ih =>
    intro fuel hf
    cases fuel with
    | zero => omega
    | succ f =>
      have ih' := ih (fun x hx => hs x (by simp [hx])) f
      simp only [List.flatMap_cons, List.length_append] at hf ⊢
      cases he : entity c with
      | none =>
        have e1 : escapeCp c = [c] := by simp [escapeCp, he]
        rw [e1] at hf ⊢
        rw [List.cons_append, List.nil_append, unescapeCps_plain ok f c _ (hs c (by simp)) (entity_none_plain hc he),
          ih' (by simp only [List.length_cons, List.length_nil] at hf; omega)]
        rfl
      | some r =>
        obtain ⟨body, rfl, hb, hv⟩ := entity_shape hr he
        have e1 : escapeCp c = 0x26 :: (body ++ [0x3b]) := by simp [escapeCp, he]
        rw [e1] at hf ⊢
        rw [List.cons_append, List.append_assoc, List.cons_append, List.nil_append,
          unescapeCps_ref ok hamp f body _ c hb hv, ih' (by simp only [List.length_cons, List.length_nil, List.length_append] at hf; omega)]
        rfl

/-- round trip under the expat contract, for strings of XML `Char`s -/
theorem unescapeBytes_escape (ok : Nat → Bool) (hamp : ok 0x26 = true) (ha : tableAscii = true)
    (hr : tableRefs = true) (hc : tableCovers = true)
    (s : List Nat) (hs : ∀ c ∈ s, ok c = true) (h1 : ∀ c ∈ s, c < 0x200000) :
    unescapeBytesWith ok (escape (encodeStr s)) = some (encodeStr s) := by
  have h2 : ∀ x ∈ s.flatMap escapeCp, x < 0x200000 := by
    intro x hx
    simp only [List.mem_flatMap] at hx
    obtain ⟨c, hcm, hx⟩ := hx
    unfold escapeCp at hx
    cases he : entity c with
    | none => simp only [he, List.mem_cons, List.not_mem_nil, or_false] at hx; rw [hx]; exact h1 c hcm
    | some r =>
      simp only [he] at hx
      have := (entity_key_ascii ha he).2 x hx
      omega
  rw [escape_encodeStr ha s h1]
  simp only [unescapeBytesWith, decodeStr_encodeStr _ h2]
  rw [unescapeCps_escape ok hamp hr hc s hs _ (by omega)]
  rfl

theorem charOk_lt (c : Nat) (h : charOk c = true) : c < 0x200000 := by
  simp only [charOk, Bool.or_eq_true, Bool.and_eq_true, beq_iff_eq, decide_eq_true_eq] at h
  omega

/-! ### no structural character in the escaped form -/

theorem escape_no_structural (ha : tableAscii = true) (hc : tableCovers = true) (hk : tableClean = true)
    (bs : List UInt8) : ∀ b ∈ escape bs, b.toNat ∉ structural := by
  intro b hb
  simp only [escape, List.mem_flatMap] at hb
  obtain ⟨a, _, hb⟩ := hb
  unfold escapeByte at hb
  cases he : entity a.toNat with
  | none =>
    simp only [he, List.mem_cons, List.not_mem_nil, or_false] at hb
    subst hb
    intro hm
    exact entity_none_plain hc he (by simp [hm])
  | some r =>
    simp only [he, List.mem_map] at hb
    obtain ⟨x, hx, rfl⟩ := hb
    have hx80 := (entity_key_ascii ha he).2 x hx
    have hm := entity_mem he
    simp only [tableClean, List.all_eq_true, Bool.not_eq_true', List.contains_eq_mem,
      decide_eq_false_iff_not] at hk
    have := hk _ hm x hx
    rw [UInt8.toNat_ofNat', show x % 2 ^ 8 = x by omega]
    exact this

/-- a literal '&' is never copied: it is always replaced by a reference -/
theorem escape_amp (hc : tableCovers = true) (b : UInt8) (h : escapeByte b = [b]) (hr : tableRefs = true) :
    b.toNat ≠ 0x26 := by
  intro hb
  unfold escapeByte at h
  cases he : entity b.toNat with
  | none => exact entity_none_plain hc he (by simp [hb])
  | some r =>
    obtain ⟨body, rfl, _, _⟩ := entity_shape hr he
    simp only [he, List.map_cons, List.map_append] at h
    have := congrArg List.length h
    simp at this

end Osmium.Xml
