/-
C03 — helper lemmas for Lemmas/HostilePbf.lean: fold invariants, string table, info/tags/members.
-/
import Osmium.Model.HostilePbf

namespace Osmium.HostilePbf

open Osmium.Osm Osmium.Pbf Osmium.PbfMsg Osmium.Wire
open Osmium.StringTable (lookup)

/-- generic invariant of a `switch` loop -/
theorem decodeMsg_inv {σ : Type} (step : σ → Field → Option σ) (Inv : σ → Prop)
    (hstep : ∀ s f s', Inv s → step s f = some s' → Inv s') :
    ∀ (fs : List Field) (init r : σ), Inv init → decodeMsg step init fs = some r → Inv r := by
  intro fs
  induction fs with
  | nil =>
    intro init r hi h
    simp [decodeMsg] at h
    subst h; exact hi
  | cons f fs ih =>
    intro init r hi h
    simp only [decodeMsg, List.foldlM_cons] at h
    cases hs : step init f with
    | none => simp [hs] at h
    | some s' =>
      simp only [hs] at h
      exact ih s' r (hstep _ _ _ hi hs) h

theorem foldlM_inv {σ α : Type} (step : σ → α → Option σ) (Inv : σ → Prop)
    (hstep : ∀ s f s', Inv s → step s f = some s' → Inv s') :
    ∀ (fs : List α) (init r : σ), Inv init → fs.foldlM step init = some r → Inv r := by
  intro fs
  induction fs with
  | nil =>
    intro init r hi h
    simp at h
    subst h; exact hi
  | cons f fs ih =>
    intro init r hi h
    simp only [List.foldlM_cons] at h
    cases hs : step init f with
    | none => simp [hs] at h
    | some s' =>
      simp only [hs] at h
      exact ih s' r (hstep _ _ _ hi hs) h

/-- what `decode_stringtable` guarantees of every entry it lets through: at most
    `max_osm_string_length` bytes AND (repair da64936) no embedded NUL byte -/
def LenOk (s : Bytes) : Prop := s.length ≤ maxOsmStringLength ∧ HostileLayout.noNul s = true

def TableOk (p : Params) : Prop := ∀ s ∈ p.strings, LenOk s

/-- not a changeset (the PBF decoder only builds nodes, ways and relations) -/
def NotCs : Object → Prop
  | .changeset .. => False
  | _ => True

def ObjOk (o : Object) : Prop := (∀ s ∈ strsOf o, LenOk s) ∧ NotCs o

theorem lenOk_nil : LenOk [] := ⟨by simp, rfl⟩

theorem lookup_mem (strs : List Bytes) (i : Int) (s : Bytes) (h : lookup strs i = some s) : s ∈ strs := by
  unfold lookup at h
  split at h
  · cases h
  · exact List.mem_of_getElem? h

theorem lookup_ok {p : Params} (hp : TableOk p) {i : Int} {s : Bytes} (h : lookup p.strings i = some s) :
    LenOk s := hp s (lookup_mem _ _ _ h)

/-! ### string table -/

theorem decodeStringTable_ok (cur : List Bytes) (payload : Bytes) (ss : List Bytes)
    (h : decodeStringTable cur payload = some ss) : ∀ s ∈ ss, LenOk s := by
  unfold decodeStringTable withFields at h
  split at h
  · cases h
  · split at h
    · cases h
    · dsimp only at h
      split at h
      · cases h
      · injection h with h
        subst h
        rename_i hany
        intro s hs
        have := List.any_eq_false.mp (Bool.eq_false_iff.mpr hany) s hs
        simp only [Bool.or_eq_true, decide_eq_true_eq, not_or, Bool.not_eq_true] at this
        exact ⟨by omega, by unfold HostileLayout.noNul; rw [this.2]; rfl⟩

theorem blockMetaStep_ok (p : Params) (f : Field) (p' : Params) (hp : TableOk p)
    (h : blockMetaStep p f = some p') : TableOk p' := by
  unfold blockMetaStep at h
  split at h
  · cases hd : decodeStringTable p.strings f.payload with
    | none => simp [hd] at h
    | some ss =>
      simp only [hd, Option.map_some, Option.some.injEq] at h
      subst h
      exact decodeStringTable_ok _ _ _ hd
  all_goals (injection h with h; subst h; exact hp)

theorem blockMeta_ok (fs : List Field) (p : Params) (h : decodeMsg blockMetaStep {} fs = some p) : TableOk p :=
  decodeMsg_inv blockMetaStep TableOk blockMetaStep_ok fs {} p (by intro s hs; cases hs) h

/-! ### info -/

theorem infoStep_ok (p : Params) (hp : TableOk p) (s : InfoAcc × Bytes) (f : Field) (s' : InfoAcc × Bytes)
    (hs : LenOk s.2) (h : infoStep p s f = some s') : LenOk s'.2 := by
  unfold infoStep at h
  split at h
  · cases hv : versionOf (toInt32 f.val) with
    | none => simp [hv] at h
    | some v => simp only [hv, Option.map_some, Option.some.injEq] at h; subst h; exact hs
  · injection h with h; subst h; exact hs
  · cases hv : changesetOf (toInt64 f.val) with
    | none => simp [hv] at h
    | some v => simp only [hv, Option.map_some, Option.some.injEq] at h; subst h; exact hs
  · injection h with h; subst h; exact hs
  · simp only [Option.map_eq_some_iff] at h
    obtain ⟨v, hv, rfl⟩ := h
    exact lookup_ok hp hv
  · injection h with h; subst h; exact hs
  · injection h with h; subst h; exact hs

theorem decodeInfo_ok (p : Params) (hp : TableOk p) (acc : InfoAcc) (payload : Bytes) (r : InfoAcc × Bytes)
    (h : decodeInfo p acc payload = some r) : LenOk r.2 := by
  unfold decodeInfo at h
  split at h
  · cases h
  · exact decodeMsg_inv (infoStep p) (fun s => LenOk s.2) (fun s f s' => infoStep_ok p hp s f s') _ _ _ lenOk_nil h

theorem metaStep_ok (p : Params) (hp : TableOk p) (r : ROpts) (s : ObjAcc) (f : Field) (s' : ObjAcc)
    (hs : LenOk s.user) (h : metaStep p r s f = some s') : LenOk s'.user := by
  unfold metaStep at h
  split at h
  · injection h with h; subst h; exact hs
  · injection h with h; subst h; exact hs
  · split at h
    · cases hv : decodeInfo p s.info f.payload with
      | none => simp [hv] at h
      | some v =>
        simp only [hv, Option.map_some, Option.some.injEq] at h; subst h
        exact decodeInfo_ok p hp _ _ _ hv
    · injection h with h; subst h; exact hs
  · injection h with h; subst h; exact hs

theorem nodeStep_ok (p : Params) (hp : TableOk p) (r : ROpts) (s : ObjAcc) (f : Field) (s' : ObjAcc)
    (hs : LenOk s.user) (h : nodeStep p r s f = some s') : LenOk s'.user := by
  unfold nodeStep at h
  split at h
  · injection h with h; subst h; exact hs
  · injection h with h; subst h; exact hs
  · injection h with h; subst h; exact hs
  · exact metaStep_ok p hp r s f s' hs h

theorem wayStep_ok (p : Params) (hp : TableOk p) (r : ROpts) (s : ObjAcc) (f : Field) (s' : ObjAcc)
    (hs : LenOk s.user) (h : wayStep p r s f = some s') : LenOk s'.user := by
  unfold wayStep at h
  split at h
  · injection h with h; subst h; exact hs
  · injection h with h; subst h; exact hs
  · injection h with h; subst h; exact hs
  · injection h with h; subst h; exact hs
  · exact metaStep_ok p hp r s f s' hs h

theorem relationStep_ok (p : Params) (hp : TableOk p) (r : ROpts) (s : ObjAcc) (f : Field) (s' : ObjAcc)
    (hs : LenOk s.user) (h : relationStep p r s f = some s') : LenOk s'.user := by
  unfold relationStep at h
  split at h
  · injection h with h; subst h; exact hs
  · injection h with h; subst h; exact hs
  · injection h with h; subst h; exact hs
  · injection h with h; subst h; exact hs
  · exact metaStep_ok p hp r s f s' hs h

/-! ### tags, members -/

def TagsOk (ts : List Tag) : Prop := ∀ s ∈ tagStrings ts, LenOk s

theorem tagsOk_nil : TagsOk [] := by intro s hs; simp [tagStrings] at hs

theorem tagsOk_cons {k v : Bytes} {ts : List Tag} (hk : LenOk k) (hv : LenOk v) (ht : TagsOk ts) :
    TagsOk (⟨k, v⟩ :: ts) := by
  intro s hs
  simp only [tagStrings, List.flatMap_cons, List.mem_append, List.mem_cons, List.not_mem_nil, or_false] at hs
  rcases hs with (rfl | rfl) | hs
  · exact hk
  · exact hv
  · exact ht s hs

theorem buildTags_ok (p : Params) (hp : TableOk p) : ∀ (ks vs : List Nat) (ts : List Tag),
    buildTags p ks vs = some ts → TagsOk ts := by
  intro ks
  induction ks with
  | nil => intro vs ts h; simp [buildTags] at h; subst h; exact tagsOk_nil
  | cons k ks ih =>
    intro vs ts h
    cases vs with
    | nil => simp [buildTags] at h; subst h; exact tagsOk_nil
    | cons v vs =>
      simp only [buildTags, Option.bind_eq_bind, Option.bind_eq_some_iff, Option.pure_def, Option.some.injEq] at h
      obtain ⟨key, hk, val, hv, rest, hr, rfl⟩ := h
      exact tagsOk_cons (lookup_ok hp hk) (lookup_ok hp hv) (ih vs rest hr)

theorem finishTags_ok (p : Params) (hp : TableOk p) (s : ObjAcc) (ts : List Tag)
    (h : finishTags p s = some ts) : TagsOk ts := by
  simp only [finishTags, Option.bind_eq_bind, Option.bind_eq_some_iff] at h
  obtain ⟨ks, _, vs, _, h⟩ := h
  exact buildTags_ok p hp _ _ _ h

theorem buildMembers_ok (p : Params) (hp : TableOk p) : ∀ (rs : List Nat) (fs : List Int) (ts : List Nat) (ms : List Member),
    buildMembers p rs fs ts = some ms → ∀ m ∈ ms, LenOk m.role := by
  intro rs
  induction rs with
  | nil => intro fs ts ms h; simp [buildMembers] at h; subst h; intro m hm; cases hm
  | cons r rs ih =>
    intro fs ts ms h
    cases fs with
    | nil => simp [buildMembers] at h; subst h; intro m hm; cases hm
    | cons f fs =>
      cases ts with
      | nil => simp [buildMembers] at h; subst h; intro m hm; cases hm
      | cons t ts =>
        simp only [buildMembers, Option.bind_eq_bind, Option.bind_eq_some_iff, Option.pure_def] at h
        obtain ⟨role, hrole, h⟩ := h
        split at h
        · simp at h
        · simp only [Option.bind_eq_some_iff, Option.some.injEq] at h
          obtain ⟨rest, hrest, rfl⟩ := h
          intro m hm
          rcases List.mem_cons.mp hm with rfl | hm
          · exact lookup_ok hp hrole
          · exact ih fs ts _ hrest m hm

end Osmium.HostilePbf
