/-
C03 — the OPL line parser, as a cursor program over the memory (Model/HostileOpl.lean), never reads past the
NUL that terminates the line:

  parseLineF_mem :  NoNul s → parseLineF F types (s ++ 0 :: junk) = parseLineF F types s      (same fuel)

for EVERY `junk`: nothing behind the terminator is looked at.  The proof is a simulation between the run on the
C string `s` and the run on the memory `s ++ 0 :: junk`:

  * cursors correspond by `r ↦ r ++ 0 :: junk` with `r` NUL-free: the cursor of the memory run is in front of
    the NUL (the leaf parsers stop there: `StopsAtNul`, Lemmas/HostileText.lean; the cursor they return is a
    suffix of the one they got: Lemmas/HostileOplA.lean);
  * the states correspond by `liftObjSt junk` / `liftCsSt junk`: every pointer the attribute loop stores
    (`tags_begin`, `nodes_begin`, `nodes_end`, `members_begin`, `members_end`) is the pointer of the string
    run with the same `0 :: junk` behind it, and where a cursor is started again from a stored pointer
    (`tags_begin`, `nodes_begin`, `members_begin`) that pointer is NUL-free (`ObjInv`, `CsInv`);
  * `attrLoopC_mem`: the attribute loop preserves the correspondence, for any field function that does
    (`BranchOK`), by induction on the fuel;
  * the code after the loop (`opl_parse_tags`, `opl_parse_way_nodes`, `opl_parse_relation_members`:
    Lemmas/HostileOplB.lean) gives equal results on corresponding pointers.
-/
import Osmium.Lemmas.HostileOplB

namespace Osmium.HostileOpl
open Osmium.Conv Osmium.HostileText Osmium.HostileText.Aux Osmium.OplFmt Osmium.TextFmt Osmium.Osm

/-- the result of one `case` of the attribute switch, moved from the C string to the memory -/
def liftR {σ : Type} (lift : σ → σ) (junk : Bytes) : Except PErr (σ × Bytes) → Except PErr (σ × Bytes)
  | .ok (st, r) => .ok (lift st, r ++ behind junk)
  | .error e => .error e

@[simp] theorem liftR_ok {σ : Type} (lift : σ → σ) (junk : Bytes) (st : σ) (r : Bytes) :
    liftR lift junk (.ok (st, r)) = .ok (lift st, r ++ behind junk) := rfl

@[simp] theorem liftR_error {σ : Type} (lift : σ → σ) (junk : Bytes) (e : PErr) :
    liftR lift junk (.error e : Except PErr (σ × Bytes)) = .error e := rfl

/-- a leaf parser: it stops at the terminator and the cursor it returns is a suffix of its input -/
structure Leaf {α : Type} (f : Bytes → Except PErr (α × Bytes)) : Prop where
  stops : StopsAtNul f
  suffix : ∀ {s : Bytes} {q : α × Bytes}, f s = .ok q → q.2 <:+ s

theorem leaf_pU32 : Leaf pU32 := ⟨pU32_stops, pU32_suffix⟩
theorem leaf_pVisible : Leaf pVisible := ⟨pVisible_stops, pVisible_suffix⟩
theorem leaf_pTs : Leaf pTs := ⟨pTs_stops, pTs_suffix⟩
theorem leaf_pStr : Leaf pStr := ⟨pStr_stops, pStr_suffix⟩
theorem leaf_pCoord : Leaf pCoord := ⟨pCoord_stops, pCoord_suffix⟩

/-- `x'` (a computation on the memory) corresponds to `x` (the same computation on the C string): same
    outcome with state and cursor lifted, and the string run keeps the invariant and a NUL-free cursor -/
def BranchOK {σ : Type} (Inv : σ → Prop) (lift : σ → σ) (junk : Bytes) (x' x : Except PErr (σ × Bytes)) : Prop :=
  x' = liftR lift junk x ∧ ∀ q, x = .ok q → Inv q.1 ∧ NoNul q.2

theorem BranchOK.error {σ : Type} {Inv : σ → Prop} {lift : σ → σ} {junk : Bytes} (e : PErr) :
    BranchOK Inv lift junk (.error e) (.error e) :=
  ⟨rfl, fun _ h => by cases h⟩

/-- `if (has_x) throw opl_error{"Duplicate attribute"}` -/
theorem BranchOK.dup {σ : Type} {Inv : σ → Prop} {lift : σ → σ} {junk : Bytes} (b : Bool)
    {x' x : Except PErr (σ × Bytes)} (h : BranchOK Inv lift junk x' x) :
    BranchOK Inv lift junk (if b = true then .error .opl else x') (if b = true then .error .opl else x) := by
  cases b with
  | true => exact BranchOK.error _
  | false => exact h

theorem BranchOK.ite {σ : Type} {Inv : σ → Prop} {lift : σ → σ} {junk : Bytes} (b : Bool)
    {x' x y' y : Except PErr (σ × Bytes)} (hx : BranchOK Inv lift junk x' x) (hy : BranchOK Inv lift junk y' y) :
    BranchOK Inv lift junk (if b = true then x' else y') (if b = true then x else y) := by
  cases b with
  | true => exact hx
  | false => exact hy

theorem BranchOK.ok {σ : Type} {Inv : σ → Prop} {lift : σ → σ} {junk : Bytes} {st' st : σ} {r : Bytes}
    (hl : st' = lift st) (hi : Inv st) (hn : NoNul r) :
    BranchOK Inv lift junk (.ok (st', r ++ behind junk)) (.ok (st, r)) := by
  subst hl
  exact ⟨rfl, fun q h => by cases h; exact ⟨hi, hn⟩⟩

/-- `builder.set_x(parse(data))` -/
theorem BranchOK.setField {α σ : Type} {Inv : σ → Prop} {lift : σ → σ} {junk : Bytes}
    {f : Bytes → Except PErr (α × Bytes)} (hf : Leaf f) {upd' upd : α → σ}
    (hl : ∀ a, upd' a = lift (upd a)) (hi : ∀ a, Inv (upd a)) {s : Bytes} (hn : NoNul s) :
    BranchOK Inv lift junk (setField f upd' (s ++ behind junk)) (setField f upd s) := by
  unfold HostileOpl.setField
  rw [hf.stops s junk hn]
  cases h : f s with
  | error e => exact BranchOK.error e
  | ok p =>
    obtain ⟨a, r⟩ := p
    simp only [onMem_ok, bindE_ok]
    exact BranchOK.ok (hl a) (hi a) (noNul_of_suffix (hf.suffix h) hn)

/-- `if (has_x) throw …; has_x = true; builder.set_x(parse(data));` -/
local macro "leaf_case " l:ident hn:ident hinv:ident : tactic =>
  `(tactic| (refine BranchOK.dup _ (BranchOK.setField $l ?_ ?_ $hn)
             · intro _; rfl
             · intro _; exact $hinv))

local macro "set_case " l:ident hn:ident hinv:ident : tactic =>
  `(tactic| (refine BranchOK.setField $l ?_ ?_ $hn
             · intro _; rfl
             · intro _; exact $hinv))

/-! ### the attribute loop -/

/-- The attribute loop on the memory simulates the attribute loop on the C string, for every field function
    whose cases do: the final states correspond by `lift junk` (every stored pointer has the same
    `0 :: junk` behind it) and the invariant (stored pointers NUL-free) holds at the end. -/
theorem attrLoopC_mem {σ : Type} {Inv : σ → Prop} {lift : Bytes → σ → σ}
    {field : σ → UInt8 → Bytes → Except PErr (σ × Bytes)}
    (hf : ∀ (junk : Bytes) (st : σ) (c : UInt8) (s : Bytes), NoNul s → Inv st →
      BranchOK Inv (lift junk) junk (field (lift junk st) c (s ++ behind junk)) (field st c s))
    (junk : Bytes) : ∀ (F : Nat) (st : σ) (s : Bytes), NoNul s → Inv st →
      attrLoopC field F (lift junk st) (s ++ behind junk) = mapOk (lift junk) (attrLoopC field F st s) ∧
      ∀ st', attrLoopC field F st s = .ok st' → Inv st' := by
  intro F
  induction F with
  | zero => intro st s _ _; exact ⟨rfl, fun _ h => by cases h⟩
  | succ F ih =>
    intro st s hn hinv
    simp only [attrLoopC]
    rw [peek_mem, pSpaceC_mem]
    by_cases h0 : (peek s == 0) = true
    · rw [if_pos h0, if_pos h0]
      exact ⟨rfl, fun _ h => by cases h; exact hinv⟩
    · rw [if_neg h0, if_neg h0]
      cases h1 : pSpaceC s with
      | error e => exact ⟨rfl, fun _ h => by cases h⟩
      | ok s1 =>
        have hn1 : NoNul s1 := noNul_of_suffix (pSpaceC_suffix h1) hn
        simp only [mapOk_ok, bindE_ok]
        rw [peek_mem]
        by_cases h2 : (peek s1 == 0) = true
        · rw [if_pos h2, if_pos h2]
          exact ⟨rfl, fun _ h => by cases h; exact hinv⟩
        · rw [if_neg h2, if_neg h2]
          have hne : s1 ≠ [] := by
            rintro rfl; exact h2 rfl
          have hnt : NoNul s1.tail := noNul_tail hn1
          rw [tail_mem junk hne]
          obtain ⟨hsim, hkeep⟩ := hf junk st (peek s1) s1.tail hnt hinv
          rw [hsim]
          cases h3 : field st (peek s1) s1.tail with
          | error e => exact ⟨rfl, fun _ h => by cases h⟩
          | ok p =>
            obtain ⟨st2, s3⟩ := p
            have hk := hkeep (st2, s3) h3
            simp only [liftR_ok, bindE_ok]
            exact ih st2 s3 hk.2 hk.1

/-! ### opl_parse_node / opl_parse_way / opl_parse_relation -/

/-- the pointers from which a cursor is started again after the loop are NUL-free -/
def ObjInv (st : ObjStC) : Prop := (∀ p, st.tagsBegin = some p → NoNul p) ∧ SecOK st.sec

theorem objInv_init : ObjInv {} := ⟨(fun _ h => by cases h), (fun _ h => by cases h)⟩

theorem objFieldC_ok (k : Kind) (junk : Bytes) (st : ObjStC) (c : UInt8) (s : Bytes) (hn : NoNul s) (hinv : ObjInv st) :
    BranchOK ObjInv (liftObjSt junk) junk (objFieldC k (liftObjSt junk st) c (s ++ behind junk)) (objFieldC k st c s) := by
  unfold objFieldC
  by_cases h1 : c = 0x76
  · rw [if_pos h1, if_pos h1]
    leaf_case leaf_pU32 hn hinv
  rw [if_neg h1, if_neg h1]
  by_cases h2 : c = 0x64
  · rw [if_pos h2, if_pos h2]
    leaf_case leaf_pVisible hn hinv
  rw [if_neg h2, if_neg h2]
  by_cases h3 : c = 0x63
  · rw [if_pos h3, if_pos h3]
    leaf_case leaf_pU32 hn hinv
  rw [if_neg h3, if_neg h3]
  by_cases h4 : c = 0x74
  · rw [if_pos h4, if_pos h4]
    leaf_case leaf_pTs hn hinv
  rw [if_neg h4, if_neg h4]
  by_cases h5 : c = 0x69
  · rw [if_pos h5, if_pos h5]
    leaf_case leaf_pU32 hn hinv
  rw [if_neg h5, if_neg h5]
  by_cases h6 : c = 0x75
  · rw [if_pos h6, if_pos h6]
    leaf_case leaf_pStr hn hinv
  rw [if_neg h6, if_neg h6]
  by_cases h7 : c = 0x54
  · rw [if_pos h7, if_pos h7, peek_mem, skipSectionC_mem]
    refine BranchOK.dup st.hasTags (BranchOK.ite _ ?_ ?_)
    · exact BranchOK.ok rfl ⟨fun p hp => by cases hp; exact hn, hinv.2⟩
        (noNul_of_suffix (skipSectionC_suffix s) hn)
    · exact BranchOK.ok rfl hinv hn
  rw [if_neg h7, if_neg h7]
  by_cases h8 : (decide (c = 0x78) && k == Kind.node) = true
  · rw [if_pos h8, if_pos h8, peek_mem]
    refine BranchOK.dup st.hasLon (BranchOK.ite _ ?_ ?_)
    · set_case leaf_pCoord hn hinv
    · exact BranchOK.ok rfl hinv hn
  rw [if_neg h8, if_neg h8]
  by_cases h9 : (decide (c = 0x79) && k == Kind.node) = true
  · rw [if_pos h9, if_pos h9, peek_mem]
    refine BranchOK.dup st.hasLat (BranchOK.ite _ ?_ ?_)
    · set_case leaf_pCoord hn hinv
    · exact BranchOK.ok rfl hinv hn
  rw [if_neg h9, if_neg h9]
  by_cases h10 : (decide (c = 0x4e) && k == Kind.way || decide (c = 0x4d) && k == Kind.relation) = true
  · have hs : (liftObjSt junk st).sec.isSome = st.sec.isSome := by simp [liftObjSt]
    rw [if_pos h10, if_pos h10, skipSectionC_mem, hs]
    refine BranchOK.dup st.sec.isSome ?_
    exact BranchOK.ok rfl ⟨hinv.1, fun p hp => by cases hp; exact hn⟩
      (noNul_of_suffix (skipSectionC_suffix s) hn)
  rw [if_neg h10, if_neg h10]
  exact BranchOK.error _

theorem finishObjectC_mem (junk : Bytes) (F : Nat) (k : Kind) (id : Int) (st : ObjStC) (hinv : ObjInv st) :
    finishObjectC F k id (liftObjSt junk st) = finishObjectC F k id st := by
  have ht := finishTagsC_mem junk F st.tagsBegin hinv.1
  cases k with
  | node =>
    simp only [finishObjectC, liftObjSt, metaOfC]
    rw [ht]
    rfl
  | way =>
    have hw := pWayNodesC_mem junk F st.sec hinv.2
    simp only [finishObjectC, liftObjSt, metaOfC]
    rw [ht, hw]
  | relation =>
    have hm := pMembersC_mem junk F st.sec hinv.2
    simp only [finishObjectC, liftObjSt, metaOfC]
    rw [ht, hm]

theorem pObjectC_mem (F : Nat) (k : Kind) (s junk : Bytes) (hn : NoNul s) :
    pObjectC F k (s ++ behind junk) = pObjectC F k s := by
  unfold pObjectC
  rw [pId_stops s junk hn]
  cases h1 : pId s with
  | error e => rfl
  | ok p1 =>
    obtain ⟨id, s1⟩ := p1
    have hn1 : NoNul s1 := noNul_of_suffix (pId_suffix h1) hn
    simp only [onMem_ok, bindE_ok]
    have hl := attrLoopC_mem (objFieldC_ok k) junk F {} s1 hn1 objInv_init
    have h2 : attrLoopC (objFieldC k) F {} (s1 ++ behind junk) =
        mapOk (liftObjSt junk) (attrLoopC (objFieldC k) F {} s1) := hl.1
    rw [h2]
    cases h3 : attrLoopC (objFieldC k) F {} s1 with
    | error e => rfl
    | ok st =>
      simp only [mapOk_ok, bindE_ok]
      exact finishObjectC_mem junk F k id st (hl.2 st h3)

/-! ### opl_parse_changeset -/

def CsInv (st : CsStC) : Prop := ∀ p, st.tagsBegin = some p → NoNul p

theorem csInv_init : CsInv {} := fun _ h => by cases h

theorem csFieldC_ok (junk : Bytes) (st : CsStC) (c : UInt8) (s : Bytes) (hn : NoNul s) (hinv : CsInv st) :
    BranchOK CsInv (liftCsSt junk) junk (csFieldC (liftCsSt junk st) c (s ++ behind junk)) (csFieldC st c s) := by
  unfold csFieldC
  by_cases h1 : c = 0x6b
  · rw [if_pos h1, if_pos h1]
    leaf_case leaf_pU32 hn hinv
  rw [if_neg h1, if_neg h1]
  by_cases h2 : c = 0x73
  · rw [if_pos h2, if_pos h2]
    leaf_case leaf_pTs hn hinv
  rw [if_neg h2, if_neg h2]
  by_cases h3 : c = 0x65
  · rw [if_pos h3, if_pos h3]
    leaf_case leaf_pTs hn hinv
  rw [if_neg h3, if_neg h3]
  by_cases h4 : c = 0x64
  · rw [if_pos h4, if_pos h4]
    leaf_case leaf_pU32 hn hinv
  rw [if_neg h4, if_neg h4]
  by_cases h5 : c = 0x69
  · rw [if_pos h5, if_pos h5]
    leaf_case leaf_pU32 hn hinv
  rw [if_neg h5, if_neg h5]
  by_cases h6 : c = 0x75
  · rw [if_pos h6, if_pos h6]
    leaf_case leaf_pStr hn hinv
  rw [if_neg h6, if_neg h6]
  by_cases h7 : c = 0x78
  · rw [if_pos h7, if_pos h7, peek_mem]
    refine BranchOK.dup st.hasMinX (BranchOK.ite _ ?_ ?_)
    · set_case leaf_pCoord hn hinv
    · exact BranchOK.ok rfl hinv hn
  rw [if_neg h7, if_neg h7]
  by_cases h8 : c = 0x79
  · rw [if_pos h8, if_pos h8, peek_mem]
    refine BranchOK.dup st.hasMinY (BranchOK.ite _ ?_ ?_)
    · set_case leaf_pCoord hn hinv
    · exact BranchOK.ok rfl hinv hn
  rw [if_neg h8, if_neg h8]
  by_cases h9 : c = 0x58
  · rw [if_pos h9, if_pos h9, peek_mem]
    refine BranchOK.dup st.hasMaxX (BranchOK.ite _ ?_ ?_)
    · set_case leaf_pCoord hn hinv
    · exact BranchOK.ok rfl hinv hn
  rw [if_neg h9, if_neg h9]
  by_cases h10 : c = 0x59
  · rw [if_pos h10, if_pos h10, peek_mem]
    refine BranchOK.dup st.hasMaxY (BranchOK.ite _ ?_ ?_)
    · set_case leaf_pCoord hn hinv
    · exact BranchOK.ok rfl hinv hn
  rw [if_neg h10, if_neg h10]
  by_cases h11 : c = 0x54
  · rw [if_pos h11, if_pos h11, peek_mem, skipSectionC_mem]
    refine BranchOK.dup st.hasTags (BranchOK.ite _ ?_ ?_)
    · exact BranchOK.ok rfl (fun p hp => by cases hp; exact hn) (noNul_of_suffix (skipSectionC_suffix s) hn)
    · exact BranchOK.ok rfl hinv hn
  rw [if_neg h11, if_neg h11]
  exact BranchOK.error _

theorem finishChangesetC_mem (junk : Bytes) (F : Nat) (id : Nat) (st : CsStC) (hinv : CsInv st) :
    finishChangesetC F id (liftCsSt junk st) = finishChangesetC F id st := by
  have ht := finishTagsC_mem junk F st.tagsBegin hinv
  simp only [finishChangesetC, liftCsSt]
  rw [ht]

theorem pChangesetC_mem (F : Nat) (s junk : Bytes) (hn : NoNul s) :
    pChangesetC F (s ++ behind junk) = pChangesetC F s := by
  unfold pChangesetC
  rw [pU32_stops s junk hn]
  cases h1 : pU32 s with
  | error e => rfl
  | ok p1 =>
    obtain ⟨id, s1⟩ := p1
    have hn1 : NoNul s1 := noNul_of_suffix (pU32_suffix h1) hn
    simp only [onMem_ok, bindE_ok]
    have hl := attrLoopC_mem csFieldC_ok junk F {} s1 hn1 csInv_init
    have h2 : attrLoopC csFieldC F {} (s1 ++ behind junk) =
        mapOk (liftCsSt junk) (attrLoopC csFieldC F {} s1) := hl.1
    rw [h2]
    cases h3 : attrLoopC csFieldC F {} s1 with
    | error e => rfl
    | ok st =>
      simp only [mapOk_ok, bindE_ok]
      exact finishChangesetC_mem junk F id st (hl.2 st h3)

/-! ### opl_parse_line -/

/-- **The OPL line parser never reads past the terminating NUL.**  Run on the memory `s ++ 0 :: junk` that
    holds the NUL-free line `s`, the cursor program gives (with the same fuel) exactly what it gives on `s`
    alone, whatever `junk` lies behind the terminator. -/
theorem parseLineF_mem (F : Nat) (types : OplFmt.Types) (s junk : Bytes) (h : HostileText.NoNul s) :
    parseLineF F types (s ++ HostileText.behind junk) = parseLineF F types s := by
  unfold parseLineF
  simp only
  rw [peek_mem]
  by_cases h0 : peek s = 0
  · rw [if_pos h0, if_pos h0]
  · have hne : s ≠ [] := peek_ne_zero_ne_nil h0
    have hnt : NoNul s.tail := noNul_tail h
    rw [tail_mem junk hne, pObjectC_mem F .node s.tail junk hnt, pObjectC_mem F .way s.tail junk hnt,
      pObjectC_mem F .relation s.tail junk hnt, pChangesetC_mem F s.tail junk hnt]

/-- the same for the self-fuelled program: on the memory it computes what the cursor program computes on
    the line (with the fuel of the memory, which is more than the line needs) -/
theorem parseLineCur_mem (types : OplFmt.Types) (s junk : Bytes) (h : HostileText.NoNul s) :
    parseLineCur types (s ++ HostileText.behind junk) =
      parseLineF ((s ++ HostileText.behind junk).length + 16) types s :=
  parseLineF_mem _ types s junk h

/-- nothing behind the terminator influences the result: two memories that hold the same line and are
    equally long behind it give the same result -/
theorem parseLineCur_junk_irrelevant (types : OplFmt.Types) (s junk junk' : Bytes) (h : HostileText.NoNul s)
    (hl : junk.length = junk'.length) :
    parseLineCur types (s ++ HostileText.behind junk) = parseLineCur types (s ++ HostileText.behind junk') := by
  rw [parseLineCur_mem types s junk h, parseLineCur_mem types s junk' h]
  simp [behind, hl]

/-- non-vacuity / illustration: the line "w1 Nn1" with ",n2 Ta=b" behind its NUL (bytes that would continue the
    node list and add a tag if the terminator were passed) parses to the way with the single node 1 -/
example :
    parseLineCur {} ([0x77, 0x31, 0x20, 0x4e, 0x6e, 0x31] ++ behind [0x2c, 0x6e, 0x32, 0x20, 0x54, 0x61, 0x3d, 0x62]) =
      .ok (some (.way { id := 1 } [⟨1, Osm.Location.undefined⟩])) := by rfl

example : NoNul [0x77, 0x31, 0x20, 0x4e, 0x6e, 0x31] := by unfold NoNul; decide

end Osmium.HostileOpl
