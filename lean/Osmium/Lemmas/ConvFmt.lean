/-
Helper lemmas for C13 (coordinate formatter): `append_location_coordinate_to_string` writes
"<integer digits>[.<fraction digits>]" and these digits denote `value / 10^7` exactly.
-/
import Osmium.Lemmas.ConvInt

namespace Osmium.Conv

open IntLemmas

/-! ### vocabulary: fixed-width digit lists, least significant first -/

/-- the `k` least significant decimal digits of `n`, least significant first -/
def lsd : Nat → Nat → List Nat
  | 0, _ => []
  | k + 1, n => n % 10 :: lsd k (n / 10)

/-- the number a list of digit values (least significant first) denotes -/
def valLS : List Nat → Nat
  | [] => 0
  | d :: ds => d + 10 * valLS ds

@[simp] theorem lsd_length (k n : Nat) : (lsd k n).length = k := by
  induction k generalizing n with
  | zero => rfl
  | succ k ih => simp [lsd, ih]

theorem lsd_allDigits (k n : Nat) : AllDigits (lsd k n) := by
  induction k generalizing n with
  | zero => intro d hd; simp [lsd] at hd
  | succ k ih =>
    intro d hd
    simp only [lsd, List.mem_cons] at hd
    rcases hd with rfl | hd
    · omega
    · exact ih _ d hd

theorem lsd_zero (k : Nat) : lsd k 0 = List.replicate k 0 := by
  induction k with
  | zero => rfl
  | succ k ih => simp [lsd, ih, List.replicate_succ]

theorem lsd_add (a b n : Nat) : lsd (a + b) n = lsd a n ++ lsd b (n / 10 ^ a) := by
  induction a generalizing n with
  | zero => simp [lsd]
  | succ a ih =>
    rw [Nat.add_right_comm]
    simp only [lsd, List.cons_append, ih, Nat.div_div_eq_div_mul, Nat.pow_succ']

theorem valLS_append (a b : List Nat) : valLS (a ++ b) = valLS a + 10 ^ a.length * valLS b := by
  induction a with
  | nil => simp [valLS]
  | cons d ds ih =>
    simp only [List.cons_append, valLS, ih, List.length_cons, Nat.pow_succ']
    rw [Nat.mul_add, Nat.mul_assoc, Nat.add_assoc]

theorem valMS_reverse (ds : List Nat) : valMS ds.reverse = valLS ds := by
  induction ds with
  | nil => rfl
  | cons d ds ih => rw [List.reverse_cons, valMS_snoc, ih, valLS]; omega

theorem valLS_lsd (k n : Nat) : valLS (lsd k n) = n % 10 ^ k := by
  induction k generalizing n with
  | zero => simp [lsd, valLS, Nat.mod_one]
  | succ k ih => simp only [lsd, valLS, ih, Nat.pow_succ', Nat.mod_mul]

/-- stripping the low zero digits divides by the corresponding power of ten -/
theorem valLS_dropWhile (l : List Nat) :
    valLS l = 10 ^ (l.length - (l.dropWhile (· == 0)).length) * valLS (l.dropWhile (· == 0)) := by
  induction l with
  | nil => simp [valLS]
  | cons d ds ih =>
    by_cases hd : d = 0
    · subst hd
      have hle : (ds.dropWhile (· == 0)).length ≤ ds.length := (List.dropWhile_sublist _).length_le
      have e : (0 :: ds).length - (ds.dropWhile (· == 0)).length
          = (ds.length - (ds.dropWhile (· == 0)).length) + 1 := by
        simp only [List.length_cons]; omega
      simp only [List.dropWhile_cons, beq_self_eq_true, if_true, e, Nat.pow_succ', valLS,
        Nat.zero_add]
      rw [Nat.mul_assoc, ← ih]
    · have : (d == 0) = false := by simp [hd]
      simp [this]

/-! ### characters -/

private theorem fin10z : ∀ d : Fin 10, (digitChar d.val == cZero) = (d.val == 0) := by decide

theorem digitChar_beq_cZero {d : Nat} (h : d < 10) : (digitChar d == cZero) = (d == 0) :=
  fin10z ⟨d, h⟩

theorem digitsStr_dropWhile (l : List Nat) (h : AllDigits l) :
    (digitsStr l).dropWhile (· == cZero) = digitsStr (l.dropWhile (· == 0)) := by
  induction l with
  | nil => rfl
  | cons d ds ih =>
    obtain ⟨hd, hds⟩ := allDigits_cons h
    simp only [digitsStr_cons, List.dropWhile_cons, digitChar_beq_cZero hd]
    by_cases h0 : (d == 0) = true
    · simp only [h0, if_true]; exact ih hds
    · simp only [h0, Bool.false_eq_true, if_false, digitsStr_cons]

theorem digitsStr_reverse (l : List Nat) : (digitsStr l).reverse = digitsStr l.reverse := by
  simp [digitsStr]

@[simp] theorem digitsStr_length (l : List Nat) : (digitsStr l).length = l.length := by
  simp [digitsStr]

theorem allDigits_reverse {l : List Nat} (h : AllDigits l) : AllDigits l.reverse :=
  fun d hd => h d (by simpa using hd)

theorem allDigits_dropWhile {l : List Nat} (p : Nat → Bool) (h : AllDigits l) :
    AllDigits (l.dropWhile p) :=
  fun d hd => h d ((List.dropWhile_sublist p).subset hd)

/-! ### the `temp` buffer -/

/-- a number with exactly `k + 1` digits: the do-while loop writes exactly these digits -/
theorem revDigits_exact (k : Nat) : ∀ fuel n, k + 1 ≤ fuel → 10 ^ k ≤ n → n < 10 ^ (k + 1) →
    revDigits fuel n = digitsStr (lsd (k + 1) n) := by
  induction k with
  | zero =>
    intro fuel n hf h1 h2
    obtain ⟨f, rfl⟩ : ∃ f, fuel = f + 1 := ⟨fuel - 1, by omega⟩
    have : n / 10 = 0 := by omega
    simp [revDigits, lsd, this]
  | succ k ih =>
    intro fuel n hf h1 h2
    obtain ⟨f, rfl⟩ : ∃ f, fuel = f + 1 := ⟨fuel - 1, by omega⟩
    have hp : 0 < 10 ^ k := Nat.pow_pos (by omega)
    rw [Nat.pow_succ'] at h1
    rw [Nat.pow_succ'] at h2
    have hne : (n / 10 != 0) = true := by simp; omega
    have := ih f (n / 10) (by omega) (by omega) (by omega)
    rw [revDigits, hne, if_pos rfl, this]
    rfl

/-- a number with at most `k + 1` digits: padding the loop output with zeros to width `k + 1`
    gives the fixed-width digit list -/
theorem revDigits_pad (k : Nat) : ∀ fuel n, k + 1 ≤ fuel → n < 10 ^ (k + 1) →
    revDigits fuel n ++ List.replicate (k + 1 - (revDigits fuel n).length) cZero
      = digitsStr (lsd (k + 1) n) := by
  induction k with
  | zero =>
    intro fuel n hf h2
    obtain ⟨f, rfl⟩ : ∃ f, fuel = f + 1 := ⟨fuel - 1, by omega⟩
    have : n / 10 = 0 := by omega
    simp [revDigits, lsd, this]
  | succ k ih =>
    intro fuel n hf h2
    obtain ⟨f, rfl⟩ : ∃ f, fuel = f + 1 := ⟨fuel - 1, by omega⟩
    rw [Nat.pow_succ'] at h2
    by_cases h0 : n / 10 = 0
    · have hne : (n / 10 != 0) = false := by simp [h0]
      rw [revDigits, hne]
      simp only [Bool.false_eq_true, if_false, List.length_singleton, lsd, h0,
        digitsStr_cons]
      simp [digitsStr, digitChar, cZero, lsd_zero, List.replicate_succ]
    · have hne : (n / 10 != 0) = true := by simp [h0]
      have := ih f (n / 10) (by omega) (by omega)
      rw [revDigits, hne, if_pos rfl]
      simp only [List.length_cons, List.cons_append, lsd, digitsStr_cons] at this ⊢
      rw [← this]
      have e : k + 1 + 1 - ((revDigits f (n / 10)).length + 1) = k + 1 - (revDigits f (n / 10)).length := by
        omega
      rw [e]

/-! ### the formatter -/

/-- what the formatter does with the integer-part characters and the 7 fraction characters
    (least significant first) -/
def render (hiC lowC : List UInt8) : List UInt8 :=
  let kept := lowC.dropWhile (· == cZero)
  if kept.isEmpty then hiC else hiC ++ cDot :: kept.reverse

/-- number of digits popped in front of the decimal point -/
def npop (v : Nat) : Nat :=
  if v ≥ 10000000 then (if v ≥ 100000000 then (if v ≥ 1000000000 then 3 else 2) else 1) else 0

theorem temp_eq (v : Nat) (hv : v < 10 ^ 10) :
    pad7 (revDigits 10 v) = digitsStr (lsd 7 v ++ lsd (npop v) (v / 10 ^ 7)) := by
  by_cases h7 : v < 10 ^ 7
  · have hn : npop v = 0 := by unfold npop; (repeat' split) <;> omega
    have := revDigits_pad 6 10 v (by omega) h7
    simpa [pad7, hn, lsd] using this
  · by_cases h8 : v < 10 ^ 8
    · have hn : npop v = 1 := by unfold npop; (repeat' split) <;> omega
      rw [hn, ← lsd_add, revDigits_exact 7 10 v (by omega) (by omega) h8]
      simp [pad7]
    · by_cases h9 : v < 10 ^ 9
      · have hn : npop v = 2 := by unfold npop; (repeat' split) <;> omega
        rw [hn, ← lsd_add, revDigits_exact 8 10 v (by omega) (by omega) h9]
        simp [pad7]
      · have hn : npop v = 3 := by unfold npop; (repeat' split) <;> omega
        rw [hn, ← lsd_add, revDigits_exact 9 10 v (by omega) (by omega) hv]
        simp [pad7]

theorem formatCoordAbs_render (v : Nat) (hv : v < 10 ^ 10) :
    formatCoordAbs v =
      render (digitsStr (if v ≥ 10000000 then (lsd (npop v) (v / 10 ^ 7)).reverse else [0]))
        (digitsStr (lsd 7 v)) := by
  have hT := temp_eq v hv
  unfold formatCoordAbs
  simp only [← npop.eq_1, hT]
  have hlen : (digitsStr (lsd 7 v ++ lsd (npop v) (v / 10 ^ 7))).length - npop v = 7 := by
    simp
  rw [hlen, digitsStr_append]
  have h7 : (digitsStr (lsd 7 v)).length = 7 := by simp
  rw [List.take_left' h7, List.drop_left' h7, digitsStr_reverse]
  unfold render
  by_cases h : v ≥ 10000000 <;> simp [h, digitsStr, digitChar, cZero]

theorem formatCoordAbs_spec (v : Nat) (hv : v ≤ 2147483647) :
    ∃ hi kept : List Nat, IntLemmas.AllDigits hi ∧ IntLemmas.AllDigits kept ∧ hi ≠ [] ∧
      hi.length ≤ 3 ∧ kept.length ≤ 7 ∧
      formatCoordAbs v = IntLemmas.digitsStr hi ++
        (if kept = [] then [] else cDot :: IntLemmas.digitsStr kept) ∧
      IntLemmas.valMS (hi ++ kept) * 10 ^ (7 - kept.length) = v := by
  have hv10 : v < 10 ^ 10 := by omega
  refine ⟨if v ≥ 10000000 then (lsd (npop v) (v / 10 ^ 7)).reverse else [0],
    ((lsd 7 v).dropWhile (· == 0)).reverse, ?_, ?_, ?_, ?_, ?_, ?_, ?_⟩
  · split
    · exact allDigits_reverse (lsd_allDigits _ _)
    · intro d hd; simp at hd; omega
  · exact allDigits_reverse (allDigits_dropWhile _ (lsd_allDigits _ _))
  · split
    · rename_i h
      have : npop v ≠ 0 := by unfold npop; (repeat' split) <;> omega
      intro hnil
      have := congrArg List.length hnil
      simp at this
      omega
    · simp
  · split
    · simp only [List.length_reverse, lsd_length]; unfold npop; (repeat' split) <;> omega
    · simp
  · have := (List.dropWhile_sublist (· == (0 : Nat)) (l := lsd 7 v)).length_le
    simpa using this
  · rw [formatCoordAbs_render v hv10, render, digitsStr_dropWhile _ (lsd_allDigits _ _),
      digitsStr_reverse]
    by_cases hk : (lsd 7 v).dropWhile (· == 0) = []
    · simp [hk]
    · have : (digitsStr (List.dropWhile (· == 0) (lsd 7 v))).isEmpty = false := by
        cases h : List.dropWhile (· == 0) (lsd 7 v) with
        | nil => exact absurd h hk
        | cons a b => rfl
      simp [this, hk]
  · -- the value
    have key : ∀ hiLS : List Nat,
        valMS (hiLS.reverse ++ ((lsd 7 v).dropWhile (· == 0)).reverse) *
          10 ^ (7 - (((lsd 7 v).dropWhile (· == 0)).reverse).length)
        = v % 10 ^ 7 + 10 ^ 7 * valLS hiLS := by
      intro hiLS
      have hle := (List.dropWhile_sublist (· == (0 : Nat)) (l := lsd 7 v)).length_le
      rw [lsd_length] at hle
      have hd := valLS_dropWhile (lsd 7 v)
      rw [valLS_lsd, lsd_length] at hd
      rw [← List.reverse_append, valMS_reverse, valLS_append, List.length_reverse, hd]
      generalize ((lsd 7 v).dropWhile (· == 0)).length = n at hle ⊢
      generalize valLS ((lsd 7 v).dropWhile (· == 0)) = a
      generalize valLS hiLS = b
      have hp : (10 : Nat) ^ 7 = 10 ^ n * 10 ^ (7 - n) := by
        rw [← Nat.pow_add]; congr 1; omega
      rw [hp]
      generalize (10 : Nat) ^ n = P
      generalize (10 : Nat) ^ (7 - n) = Q
      rw [Nat.add_mul]
      ac_rfl
    by_cases h : v ≥ 10000000
    · have hn : v / 10 ^ 7 < 10 ^ npop v := by
        unfold npop; (repeat' split) <;> omega
      simp only [h, if_true]
      rw [key, valLS_lsd, Nat.mod_eq_of_lt hn]
      omega
    · simp only [h, if_false]
      have := key [0]
      simp only [List.reverse_cons, List.reverse_nil, List.nil_append, valLS] at this
      rw [this]
      omega

end Osmium.Conv
