/-
Helper lemmas for C20 (handler dispatch, filtering iterators, diff iterator).
-/
import Osmium.Model.Dispatch

namespace Osmium.Dispatch

open Osmium.Generated.C20

theorem flatMap_congr' {α β : Type} (l : List α) (f g : α → List β) (h : ∀ x ∈ l, f x = g x) :
    l.flatMap f = l.flatMap g := by
  induction l with
  | nil => rfl
  | cons x rest ih =>
    simp only [List.flatMap_cons]
    rw [h x List.mem_cons_self, ih (fun y hy => h y (List.mem_cons_of_mem _ hy))]

/-! ### apply loop -/

theorem applyItem_ok (cls : ItemClass) (k : Constness) (it : PItem) (calls : List (Callback × Bool))
    (h : dispatchOn cls k it.2.ty = some calls) (hs : List (Nat × Handler)) :
    applyItem cls k it hs =
      (hs.flatMap (fun hd => calls.flatMap fun c => handlerOn hd.2 hd.1 k it.2.ty c.1 c.2 it.1), false) := by
  induction hs with
  | nil => rfl
  | cons hd rest ih => simp [applyItem, applyItemImpl, h, ih]

theorem applyItem_throw (cls : ItemClass) (k : Constness) (it : PItem)
    (h : dispatchOn cls k it.2.ty = none) (hd : Nat × Handler) (hs : List (Nat × Handler)) :
    applyItem cls k it (hd :: hs) = ([], true) := by
  simp [applyItem, applyItemImpl, h]

theorem applyLoop_ok (cls : ItemClass) (k : Constness) (hs : List (Nat × Handler)) (items : List PItem)
    (hok : ∀ it ∈ items, (dispatchOn cls k it.2.ty).isSome = true) :
    applyLoop cls k hs items =
      (items.flatMap (fun it => hs.flatMap fun hd =>
          ((dispatchOn cls k it.2.ty).getD []).flatMap fun c => handlerOn hd.2 hd.1 k it.2.ty c.1 c.2 it.1),
       false) := by
  induction items with
  | nil => rfl
  | cons it rest ih =>
    have h1 := hok it (List.mem_cons_self)
    obtain ⟨calls, hc⟩ := Option.isSome_iff_exists.1 h1
    have ih' := ih (fun x hx => hok x (List.mem_cons_of_mem _ hx))
    simp [applyLoop, applyItem_ok cls k it calls hc, ih', hc]

/-! ### ItemIterator -/

theorem advance_filter (c : FilterClass) (data : List PItem) :
    (advance c data).filter (fun p => compat c p.2.ty) = data.filter (fun p => compat c p.2.ty) := by
  induction data with
  | nil => rfl
  | cons x rest ih =>
    by_cases h : compat c x.2.ty = true
    · simp [advance, h]
    · simp [advance, h, ih]

theorem advance_head (c : FilterClass) (data : List PItem) (y : PItem) (ys : List PItem)
    (h : advance c data = y :: ys) : compat c y.2.ty = true := by
  induction data with
  | nil => simp [advance] at h
  | cons x rest ih =>
    by_cases hx : compat c x.2.ty = true
    · simp [advance, hx] at h
      rw [← h.1]; exact hx
    · simp [advance, hx] at h
      exact ih h

theorem advance_length (c : FilterClass) (data : List PItem) : (advance c data).length ≤ data.length := by
  induction data with
  | nil => simp [advance]
  | cons x rest ih =>
    by_cases hx : compat c x.2.ty = true
    · simp [advance, hx]
    · simp [advance, hx]; omega

theorem collect_advance (c : FilterClass) (data : List PItem) :
    ∀ fuel, data.length < fuel →
      ItemIter.collect c fuel (advance c data) = data.filter (fun p => compat c p.2.ty) := by
  induction data with
  | nil =>
    intro fuel _
    cases fuel <;> simp [advance, ItemIter.collect]
  | cons x rest ih =>
    intro fuel hf
    by_cases hx : compat c x.2.ty = true
    · cases fuel with
      | zero => simp at hf
      | succ f =>
        simp only [advance, hx, if_true, ItemIter.collect, ItemIter.incr, List.tail_cons]
        rw [ih f (by simp at hf; omega)]
        simp [hx]
    · have hadv : advance c (x :: rest) = advance c rest := by simp [advance, hx]
      rw [hadv, ih fuel (by simp at hf; omega)]
      simp [hx]

/-! ### InputIterator -/

theorem totalLen_cons (b : List PItem) (rest : List (List PItem)) :
    totalLen (b :: rest) = b.length + totalLen rest := by
  simp [totalLen]

/-- inner loop: inside one buffer, then on to the remaining buffers -/
theorem inCollect_inner (c : FilterClass) (rest : List (List PItem))
    (H : ∀ fuel, totalLen rest < fuel →
      InIter.collect c fuel (updateBuffer c rest) = rest.flatten.filter (fun p => compat c p.2.ty)) :
    ∀ n (cur : List PItem), cur.length ≤ n → ∀ x xs, cur = x :: xs → compat c x.2.ty = true →
      ∀ fuel, cur.length + totalLen rest < fuel →
        InIter.collect c fuel ⟨rest, some cur⟩ =
          cur.filter (fun p => compat c p.2.ty) ++ rest.flatten.filter (fun p => compat c p.2.ty) := by
  intro n
  induction n with
  | zero =>
    intro cur hn x xs hc
    subst hc
    simp at hn
  | succ n ih =>
    intro cur hn x xs hc hx fuel hf
    subst hc
    cases fuel with
    | zero => simp at hf
    | succ f =>
      simp only [InIter.collect, InIter.incr, ItemIter.incr, List.tail_cons]
      cases hadv : advance c xs with
      | nil =>
        have hfil : xs.filter (fun p => compat c p.2.ty) = [] := by
          rw [← advance_filter, hadv]; rfl
        simp only [List.filter_cons, hx, if_true, hfil, List.cons_append, List.nil_append]
        rw [H f (by simp at hf; omega)]
      | cons y ys =>
        have hy := advance_head c xs y ys hadv
        have hlen : (y :: ys).length ≤ xs.length := by rw [← hadv]; exact advance_length c xs
        have hfil : xs.filter (fun p => compat c p.2.ty) = (y :: ys).filter (fun p => compat c p.2.ty) := by
          rw [← advance_filter, hadv]
        simp only [List.filter_cons, hx, if_true, List.cons_append]
        have := ih (y :: ys) (by simp at hn hlen ⊢; omega) y ys rfl hy f (by simp at hf hlen ⊢; omega)
        rw [this, hfil]

theorem inCollect_spec (c : FilterClass) (bufs : List (List PItem)) :
    ∀ fuel, totalLen bufs < fuel →
      InIter.collect c fuel (updateBuffer c bufs) = bufs.flatten.filter (fun p => compat c p.2.ty) := by
  induction bufs with
  | nil =>
    intro fuel hf
    cases fuel with
    | zero => simp at hf
    | succ f => simp [updateBuffer, InIter.collect]
  | cons b rest ih =>
    intro fuel hf
    rw [totalLen_cons] at hf
    simp only [updateBuffer, ItemIter.mk]
    cases hadv : advance c b with
    | nil =>
      have hfil : b.filter (fun p => compat c p.2.ty) = [] := by
        rw [← advance_filter, hadv]; rfl
      simp only [List.flatten_cons, List.filter_append, hfil, List.nil_append]
      exact ih fuel (by omega)
    | cons y ys =>
      have hy := advance_head c b y ys hadv
      have hlen : (y :: ys).length ≤ b.length := by rw [← hadv]; exact advance_length c b
      have hfil : b.filter (fun p => compat c p.2.ty) = (y :: ys).filter (fun p => compat c p.2.ty) := by
        rw [← advance_filter, hadv]
      simp only [List.flatten_cons, List.filter_append, hfil]
      exact inCollect_inner c rest ih (y :: ys).length (y :: ys) (Nat.le_refl _) y ys rfl hy fuel
        (by simp at hlen ⊢; omega)

/-! ### DiffIterator -/

/-- the iterator state while it stands on position `i` of a range of length `n` -/
def diffState (n i : Nat) : DiffIter :=
  { prev := i - 1, curr := i, next := min (i + 1) n, «end» := n }

theorem diffIter_mk_eq (xs : List Obj) : DiffIter.mk xs = diffState xs.length 0 := by
  simp only [DiffIter.mk, diffState]
  by_cases h : xs.length = 0
  · simp [h]
  · have : (0 == xs.length) = false := by simp; omega
    simp [this]; omega

theorem diffState_incr (n i : Nat) (h : i < n) : (diffState n i).incr = diffState n (i + 1) := by
  simp only [DiffIter.incr, diffState]
  have h1 : min (i + 1) n = i + 1 := by omega
  by_cases h2 : i + 1 = n
  · simp [h2]; omega
  · have : min (i + 1 + 1) n = i + 1 + 1 := by omega
    simp [h1, h2, this]

theorem key_ne (p c : Obj) : (p.ty != c.ty || p.id != c.id) = !(p.same c) := by
  simp [Obj.same, bne, Bool.not_and]

theorem same_comm (a b : Obj) : a.same b = b.same a := by
  have e1 : (a.ty == b.ty) = (b.ty == a.ty) := by
    rw [Bool.eq_iff_iff, beq_iff_eq, beq_iff_eq]; exact eq_comm
  have e2 : (a.id == b.id) = (b.id == a.id) := by
    rw [Bool.eq_iff_iff, beq_iff_eq, beq_iff_eq]; exact eq_comm
  simp only [Obj.same, e1, e2]

theorem same_iff_key (a b : Obj) : a.same b = true ↔ a.key = b.key := by
  simp [Obj.same, Obj.key]

theorem deref_diffState (xs : List Obj) (i : Nat) (h : i < xs.length) :
    DiffIter.deref xs (diffState xs.length i) = some (diffAt xs i) := by
  have hc : xs[i]? = some xs[i] := List.getElem?_eq_getElem h
  have hp : xs[i - 1]? = some xs[i - 1] := List.getElem?_eq_getElem (by omega)
  have hmin : min (i + 1) xs.length = i + 1 := by omega
  have hF : isFirst xs i = (i == 0 || !(xs[i - 1].same xs[i])) := by
    simp [isFirst, sameObj, hc, hp]
  simp only [DiffIter.deref, diffState, hmin, hc, hp, key_ne, diffAt, hF]
  by_cases h1 : i + 1 = xs.length
  · have hL : isLast xs i = true := by simp [isLast, h1]
    have h1' : (i + 1 == xs.length) = true := by simp [h1]
    simp only [hL, h1', Bool.true_or, if_true]
    by_cases h0 : i = 0
    · subst h0; simp
    · have e0 : (i == 0) = false := by simp [h0]
      have e1 : (i - 1 == i) = false := by simp; omega
      by_cases ha : xs[i - 1].same xs[i] = true <;> simp [e0, e1, ha]
  · have hn : xs[i + 1]? = some xs[i + 1] := List.getElem?_eq_getElem (by omega)
    have hL : isLast xs i = !(xs[i].same xs[i + 1]) := by
      simp [isLast, sameObj, hc, hn, h1]
    have h1' : (i + 1 == xs.length) = false := by simp [h1]
    simp only [hn, hL, h1', Bool.false_or, same_comm xs[i + 1] xs[i]]
    by_cases h0 : i = 0
    · subst h0
      by_cases hb : xs[0].same xs[0 + 1] = true <;> simp [hb]
    · have e0 : (i == 0) = false := by simp [h0]
      have e1 : (i - 1 == i) = false := by simp; omega
      by_cases ha : xs[i - 1].same xs[i] = true <;> by_cases hb : xs[i].same xs[i + 1] = true <;>
        simp [e0, e1, ha, hb]

theorem diffCollect_spec (xs : List Obj) :
    ∀ m i fuel, i + m = xs.length → m < fuel →
      DiffIter.collect xs fuel (diffState xs.length i) = (List.range' i m).map (fun j => some (diffAt xs j)) := by
  intro m
  induction m with
  | zero =>
    intro i fuel hi hf
    cases fuel with
    | zero => simp at hf
    | succ f =>
      have : i = xs.length := by omega
      simp [DiffIter.collect, diffState, this]
  | succ m ih =>
    intro i fuel hi hf
    cases fuel with
    | zero => simp at hf
    | succ f =>
      have hlt : i < xs.length := by omega
      have hne : ((diffState xs.length i).curr == (diffState xs.length i).«end») = false := by
        simp [diffState]; omega
      simp only [DiffIter.collect, hne]
      rw [deref_diffState xs i hlt, diffState_incr _ _ hlt, ih (i + 1) f (by omega) (by omega)]
      simp [List.range'_succ]

/-! ### apply_diff -/

theorem applyDiffOne_ok (ty : Nat) (d : Diff) (cb : DiffCb) (h : diffCbOf ty = some cb) (hs : List Nat) :
    applyDiffOne ty d hs = (hs.map (fun h => ⟨h, cb, d⟩), false) := by
  induction hs with
  | nil => rfl
  | cons x rest ih => simp [applyDiffOne, h, ih]

theorem applyDiffLoop_ok (xs : List Obj) (hs : List Nat) (ds : List Diff) (f : Obj → DiffCb)
    (hok : ∀ d ∈ ds, diffCbOf ((xs[d.curr]?.map Obj.ty).getD 0) = some (f (xs[d.curr]?.getD default))) :
    applyDiffLoop xs hs (ds.map some) =
      (ds.flatMap (fun d => hs.map fun h => ⟨h, f (xs[d.curr]?.getD default), d⟩), false) := by
  induction ds with
  | nil => rfl
  | cons d rest ih =>
    have h1 := hok d List.mem_cons_self
    have ih' := ih (fun x hx => hok x (List.mem_cons_of_mem _ hx))
    simp [applyDiffLoop, applyDiffOne_ok _ d _ h1, ih']

/-! ### driving patterns -/

/-- the invariant: both objects stand on their positions (whatever their `m_diff` holds) -/
def DriveRep (n : Nat) (s : DriveState) (p : DrivePos) : Prop :=
  s.a.it = diffState n p.a ∧ s.b.it = diffState n p.b ∧ p.a ≤ n ∧ p.b ≤ n

theorem driveRep_init (xs : List Obj) : DriveRep xs.length (DriveState.init xs) ⟨0, 0⟩ := by
  simp [DriveRep, DriveState.init, diffIter_mk_eq]

theorem obj_atEnd (n i : Nat) (d : Option Diff) :
    (DiffIterObj.mk (diffState n i) d).atEnd = (i == n) := rfl

theorem obj_incr (n i : Nat) (d : Option Diff) (h : i < n) :
    (DiffIterObj.mk (diffState n i) d).incr = DiffIterObj.mk (diffState n (i + 1)) d := by
  simp [DiffIterObj.incr, diffState_incr n i h]

theorem obj_star (xs : List Obj) (i : Nat) (d : Option Diff) (h : i < xs.length) :
    (DiffIterObj.mk (diffState xs.length i) d).star xs =
      (DiffIterObj.mk (diffState xs.length i) (some (diffAt xs i)), some (diffAt xs i)) := by
  simp [DiffIterObj.star, deref_diffState xs i h]

theorem driveStep_spec (xs : List Obj) (s : DriveState) (p : DrivePos) (op : DriveOp)
    (h : DriveRep xs.length s p) :
    (driveStep xs s op).2 = (specStep xs p op).2 ∧
      DriveRep xs.length (driveStep xs s op).1 (specStep xs p op).1 := by
  obtain ⟨⟨ia, da⟩, ⟨ib, db⟩⟩ := s
  obtain ⟨pa, pb⟩ := p
  obtain ⟨h1, h2, ha, hb⟩ := h
  simp only at h1 h2 ha hb
  subst h1 h2
  have eqA : pa < xs.length → (pa == xs.length) = false := by intro h; simp; omega
  have eqB : pb < xs.length → (pb == xs.length) = false := by intro h; simp; omega
  have neA : ¬ pa < xs.length → (pa == xs.length) = true := by intro h; simp; omega
  have neB : ¬ pb < xs.length → (pb == xs.length) = true := by intro h; simp; omega
  cases op <;> simp only [driveStep, specStep, obj_atEnd]
  case deref | arrow | inc | post =>
    by_cases h : pa < xs.length
    · simp [eqA h, h, obj_star xs pa da h, obj_incr _ pa da h, DriveRep, presentAt]; omega
    · simp [neA h, h, DriveRep, ha, hb]
  case derefB | incB | postB =>
    by_cases h : pb < xs.length
    · simp [eqB h, h, obj_star xs pb db h, obj_incr _ pb db h, DriveRep, presentAt]; omega
    · simp [neB h, h, DriveRep, ha, hb]
  case adv2 =>
    by_cases h : pa + 1 < xs.length
    · have h0 : pa < xs.length := by omega
      have e1 : (pa + 1 == xs.length) = false := by simp; omega
      simp [eqA h0, h, obj_incr _ pa da h0, obj_incr _ (pa + 1) da h, obj_atEnd, e1, DriveRep]; omega
    · by_cases h0 : pa < xs.length
      · have e1 : (pa + 1 == xs.length) = true := by simp; omega
        simp [eqA h0, h, obj_incr _ pa da h0, obj_atEnd, e1, DriveRep, ha, hb]
      · simp [neA h0, h, DriveRep, ha, hb]
  case copy | assign => simp [DriveRep, ha, hb]
  case cmpEnd => simp [DriveRep, ha, hb]
  case cmpAB =>
    simp only [DriveRep, ha, hb, and_true, DiffIterObj.eq, diffState]
    simp

theorem driveRun_spec (xs : List Obj) (ops : List DriveOp) :
    ∀ (s : DriveState) (p : DrivePos), DriveRep xs.length s p → driveRun xs s ops = specRun xs p ops := by
  induction ops with
  | nil => intros; rfl
  | cons op rest ih =>
    intro s p h
    obtain ⟨h1, h2⟩ := driveStep_spec xs s p op h
    simp only [driveRun, specRun, h1, ih _ _ h2]


theorem specRun_append (xs : List Obj) (l1 l2 : List DriveOp) :
    ∀ p, specRun xs p (l1 ++ l2) = specRun xs p l1 ++ specRun xs (specPos xs p l1) l2 := by
  induction l1 with
  | nil => intro p; rfl
  | cons op rest ih => intro p; simp [specRun, specPos, ih]

/-! ### driving patterns of ItemIterator -/

/-- the iterator stands on the `i`-th of the items `F` it has to visit -/
def ItemRep (c : FilterClass) (F : List PItem) (s : List PItem) (i : Nat) : Prop :=
  (∃ d, s = advance c d) ∧ s.filter (fun p => compat c p.2.ty) = F.drop i ∧ i ≤ F.length

theorem itemRep_cases (c : FilterClass) (F s : List PItem) (i : Nat) (h : ItemRep c F s i) :
    (s = [] ∧ i = F.length) ∨
      (∃ y ys, s = y :: ys ∧ i < F.length ∧ F[i]? = some y ∧
        ys.filter (fun p => compat c p.2.ty) = F.drop (i + 1)) := by
  obtain ⟨⟨d, hd⟩, hf, hi⟩ := h
  cases s with
  | nil =>
    left
    simp only [List.filter_nil] at hf
    have := congrArg List.length hf
    simp at this
    exact ⟨rfl, by omega⟩
  | cons y ys =>
    right
    have hy : compat c y.2.ty = true := advance_head c d y ys hd.symm
    simp only [List.filter_cons, hy, if_true] at hf
    have hlt : i < F.length := by
      have := congrArg List.length hf
      simp at this
      omega
    refine ⟨y, ys, rfl, hlt, ?_, ?_⟩
    · have := congrArg List.head? hf
      simpa [List.head?_drop] using this.symm
    · have := congrArg List.tail hf
      simpa [List.tail_drop] using this

theorem itemRep_incr (c : FilterClass) (F : List PItem) (y : PItem) (ys : List PItem) (i : Nat)
    (hi : i < F.length) (hf : ys.filter (fun p => compat c p.2.ty) = F.drop (i + 1)) :
    ItemRep c F (ItemIter.incr c (y :: ys)) (i + 1) :=
  ⟨⟨ys, rfl⟩, by simp [ItemIter.incr, advance_filter, hf], by omega⟩

theorem itemStep_spec (c : FilterClass) (F : List PItem) (s : List PItem × List PItem) (p : DrivePos)
    (op : DriveOp) (hop : op ≠ .cmpAB) (ha : ItemRep c F s.1 p.a) (hb : ItemRep c F s.2 p.b) :
    (gdriveStep (itemIterOps c) s op).2 = (fspecStep (F.map (·.1)) p op).2 ∧
      ItemRep c F (gdriveStep (itemIterOps c) s op).1.1 (fspecStep (F.map (·.1)) p op).1.a ∧
      ItemRep c F (gdriveStep (itemIterOps c) s op).1.2 (fspecStep (F.map (·.1)) p op).1.b := by
  obtain ⟨sa, sb⟩ := s
  obtain ⟨pa, pb⟩ := p
  simp only at ha hb
  cases op <;> simp only [gdriveStep, fspecStep, itemIterOps, List.length_map]
  case cmpAB => exact absurd rfl hop
  case copy | assign => simp [ha, hb]
  case cmpEnd =>
    rcases itemRep_cases c F sa pa ha with ⟨h1, h2⟩ | ⟨y, ys, h1, h2, h3, h4⟩
    · subst h1; subst h2; simp [ha, hb]
    · have : (pa == F.length) = false := by simp; omega
      subst h1; simp [this, ha, hb]
  case deref | arrow | inc | post =>
    rcases itemRep_cases c F sa pa ha with ⟨h1, h2⟩ | ⟨y, ys, h1, h2, h3, h4⟩
    · subst h1; subst h2; simp [ha, hb]
    · have hg : F[pa] = y := by rw [List.getElem?_eq_getElem h2] at h3; exact Option.some.inj h3
      subst h1; simp [h2, hg, ha, hb, itemRep_incr c F y ys pa h2 h4]
  case derefB | incB | postB =>
    rcases itemRep_cases c F sb pb hb with ⟨h1, h2⟩ | ⟨y, ys, h1, h2, h3, h4⟩
    · subst h1; subst h2; simp [ha, hb]
    · have hg : F[pb] = y := by rw [List.getElem?_eq_getElem h2] at h3; exact Option.some.inj h3
      subst h1; simp [h2, hg, ha, hb, itemRep_incr c F y ys pb h2 h4]
  case adv2 =>
    rcases itemRep_cases c F sa pa ha with ⟨h1, h2⟩ | ⟨y, ys, h1, h2, h3, h4⟩
    · subst h1; subst h2
      have : ¬ F.length + 1 < F.length := by omega
      simp [this, ha, hb]
    · subst h1
      have hr := itemRep_incr c F y ys pa h2 h4
      rcases itemRep_cases c F _ _ hr with ⟨h1', h2'⟩ | ⟨y', ys', h1', h2', h3', h4'⟩
      · have : ¬ pa + 1 < F.length := by omega
        simp [h1', this, ha, hb]
      · simp [h1', h2', hb]
        exact itemRep_incr c F y' ys' (pa + 1) h2' h4'

theorem itemRun_spec (c : FilterClass) (F : List PItem) (ops : List DriveOp) (hops : DriveOp.cmpAB ∉ ops) :
    ∀ (s : List PItem × List PItem) (p : DrivePos), ItemRep c F s.1 p.a → ItemRep c F s.2 p.b →
      gdriveRun (itemIterOps c) s ops = fspecRun (F.map (·.1)) p ops := by
  induction ops with
  | nil => intros; rfl
  | cons op rest ih =>
    intro s p ha hb
    have hop : op ≠ .cmpAB := fun h => hops (by simp [h])
    obtain ⟨h1, h2, h3⟩ := itemStep_spec c F s p op hop ha hb
    simp only [gdriveRun, fspecRun, h1, ih (fun h => hops (List.mem_cons_of_mem _ h)) _ _ h2 h3]

theorem itemRep_init (c : FilterClass) (buf : List PItem) :
    ItemRep c (buf.filter fun p => compat c p.2.ty) (ItemIter.mk c buf) 0 :=
  ⟨⟨buf, rfl⟩, by simp [ItemIter.mk, advance_filter], by omega⟩

end Osmium.Dispatch
