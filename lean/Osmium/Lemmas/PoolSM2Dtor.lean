/-
PoolSM2Dtor — the destructor of the pool (C19): a worker only exits after popping a stop
task, the destructor joins distinct exited workers, so when it returns N stop tasks have been
popped; only N were ever called, and by FIFO (`pushed = jobs ++ stops`) the queue is empty:
every job enqueued before the destruction was popped before the last stop task.
-/
import Osmium.Lemmas.PoolSM2Once

namespace Osmium.PoolSM

open Osmium.Mon

/-- worker `w` has received a stop task -/
def StopHeld (wpc : Tid → WPc) (w : Tid) : Prop :=
  wpc w = .got (some .stop) ∨ wpc w = .stopping ∨ wpc w = .exited

/-- a worker only stops after popping a stop task from the work queue -/
theorem inv_stop_link (c : Cfg) : ∀ s, (machine c).Reachable s →
    ∀ w, StopHeld s.wpc w → ∃ t, (w, (t, Task.stop)) ∈ s.q.popped := by
  apply Machine.invariant
  · simp [machine, init, StopHeld]
  · intro s e s' hr ih hst
    psm_cases e with hst <;> psm_frame ih
    all_goals (intro u hu)
    · -- popNow
      rename_i w n r hg1 hg2
      obtain ⟨_, _, _, rfl⟩ := hg2
      simp only [QueueSM.take_popped, StopHeld, setPc_apply] at hu ⊢
      by_cases huw : u = w
      · subst huw
        simp only [if_true, WPc.got.injEq, reduceCtorEq, or_false] at hu
        cases hh : s.q.items.head? with
        | none => simp [hh] at hu
        | some x =>
          obtain ⟨t, tk⟩ := x
          simp only [hh, Option.map_some, Option.some.injEq] at hu
          subst hu
          exact ⟨t, by simp⟩
      · simp only [huw, if_false] at hu
        obtain ⟨t, ht⟩ := ih u hu
        exact ⟨t, List.mem_append_left _ ht⟩
    · -- popWake
      rename_i w n r hg1 hg2
      obtain ⟨_, _, _, _, rfl⟩ := hg2
      simp only [QueueSM.take_popped, StopHeld, setPc_apply] at hu ⊢
      by_cases huw : u = w
      · subst huw
        simp only [if_true, WPc.got.injEq, reduceCtorEq, or_false] at hu
        cases hh : s.q.items.head? with
        | none => simp [hh] at hu
        | some x =>
          obtain ⟨t, tk⟩ := x
          simp only [hh, Option.map_some, Option.some.injEq] at hu
          subst hu
          exact ⟨t, by simp⟩
      · simp only [huw, if_false] at hu
        obtain ⟨t, ht⟩ := ih u hu
        exact ⟨t, List.mem_append_left _ ht⟩
    · -- workerGot
      rename_i w b _ r hw hb
      apply ih u
      simp only [StopHeld, setPc_apply] at hu ⊢
      by_cases huw : u = w
      · subst huw
        simp only [if_true] at hu
        rcases r with _ | (_ | _) <;> simp_all [afterGot]
      · simpa [huw] using hu
    · -- taskRun
      rename_i w id _ id' out hw hid
      apply ih u
      simp only [StopHeld, setPc_apply] at hu ⊢
      by_cases huw : u = w
      · subst huw; simp at hu
      · simpa [huw] using hu
    · -- workerExit
      rename_i w hw
      apply ih u
      simp only [StopHeld, setPc_apply] at hu ⊢
      by_cases huw : u = w
      · subst huw; simp [hw]
      · simpa [huw] using hu

/-- `exitedL` lists the workers whose thread function has returned, once each -/
theorem inv_exitedL (c : Cfg) : ∀ s, (machine c).Reachable s →
    (∀ w, w ∈ s.exitedL ↔ s.wpc w = .exited) ∧ s.exitedL.Nodup := by
  apply Machine.invariant
  · simp [machine, init]
  · intro s e s' hr ih hst
    psm_cases e with hst <;> psm_frame ih
    all_goals (obtain ⟨ih1, ih2⟩ := ih; refine ⟨fun u => ?_, ?_⟩)
    all_goals (simp only [setPc_apply, List.mem_cons, List.nodup_cons])
    all_goals first
      | exact ih2
      | (split <;> rename_i huw <;> (try subst huw) <;> simp_all; done)
      | (rename_i r _ _; rcases r with _ | (_ | _) <;> split <;> rename_i huw <;> (try subst huw) <;>
          simp_all [afterGot]; done)
      | (simp_all; done)
      | skip

/-- the destructor joins distinct exited workers and returns after one join per worker -/
theorem inv_joined (c : Cfg) : ∀ s, (machine c).Reachable s →
    s.joined.Nodup ∧ (∀ w ∈ s.joined, w ∈ s.exitedL ∧ w ∈ c.workers) ∧
    (s.dtor = .done → s.joined.length = c.workers.length) := by
  apply Machine.invariant
  · simp [machine, init]
  · intro s e s' hr ih hst
    psm_cases e with hst <;> psm_frame ih
    all_goals (obtain ⟨ih1, ih2, ih3⟩ := ih)
    all_goals (simp_all; done)

theorem suffix_no_stop {β : Type} {l1 l2 J S : List β} {p : β → Bool} (e : l1 ++ l2 = J ++ S)
    (hS : ∀ x ∈ S, p x = true) (h2 : ∀ x ∈ l2, p x = false) (hne : S ≠ []) : l2 = [] := by
  rcases List.append_eq_append_iff.mp e with ⟨a, rfl, rfl⟩ | ⟨a, rfl, rfl⟩
  · obtain ⟨x, hx⟩ := List.exists_mem_of_ne_nil _ hne
    have := h2 x (List.mem_append_right _ hx)
    rw [hS x hx] at this
    cases this
  · rw [List.eq_nil_iff_forall_not_mem]
    intro x hx
    have := h2 x hx
    rw [hS x (List.mem_append_right _ hx)] at this
    cases this

theorem length_le_of_fst_cover {β : Type} {l : List Tid} {L : List (Tid × β)} (hn : l.Nodup)
    (hc : ∀ w ∈ l, ∃ b, (w, b) ∈ L) : l.length ≤ L.length := by
  have hsub : l ⊆ L.map (·.1) := by
    intro w hw
    obtain ⟨b, hb⟩ := hc w hw
    exact List.mem_map.mpr ⟨_, hb, rfl⟩
  have := (List.subperm_of_subset hn hsub).length_le
  simpa using this

section done

variable (c : Cfg) (s : State) (h : (machine c).Reachable s) (hd : s.dtor = .done)
include h hd

/-- when the destructor has returned every worker has been joined after it exited -/
theorem done_all_exited (w : Tid) (hw : w ∈ c.workers) : w ∈ s.joined ∧ s.wpc w = .exited := by
  obtain ⟨j1, j2, j3⟩ := inv_joined c s h
  have hp : s.joined.Perm c.workers :=
    (List.subperm_of_subset j1 (fun u hu => (j2 u hu).2)).perm_of_length_le (by rw [j3 hd]; exact Nat.le_refl _)
  have hj : w ∈ s.joined := hp.symm.subset hw
  exact ⟨hj, ((inv_exitedL c s h).1 w).mp (j2 w hj).1⟩

/-- … N stop tasks have been popped, as many as were ever called: the queue holds no stop … -/
theorem done_no_stop_queued : ∀ x ∈ s.q.items, isStop x = false := by
  have hq := reachable_q c s h
  have hu := inv_inUse c s h
  obtain ⟨j1, j2, j3⟩ := inv_joined c s h
  obtain ⟨e1, e2⟩ := inv_exitedL c s h
  -- N = joined ≤ exited ≤ stop entries of `popped`
  have h1 : s.joined.length ≤ s.exitedL.length :=
    (List.subperm_of_subset j1 (fun u hu => (j2 u hu).1)).length_le
  have h2 : s.exitedL.length ≤ (s.q.popped.filter (fun p => isStop p.2)).length := by
    apply length_le_of_fst_cover e2
    intro w hw
    obtain ⟨t, ht⟩ := inv_stop_link c s h w (.inr (.inr ((e1 w).mp hw)))
    exact ⟨(t, Task.stop), List.mem_filter.mpr ⟨ht, rfl⟩⟩
  have h3 : (s.q.popped.filter (fun p => isStop p.2)).length
      = ((s.q.popped.map (fun p => p.2)).filter isStop).length := by
    rw [List.filter_map, List.length_map]; rfl
  -- stops enqueued ≤ stops called = N
  have h4 : (s.q.pushed.filter isStop).length ≤ (s.q.called.filter isStop).length :=
    ((QueueSM.pushed_subperm_called c.qc s.q hq hu).filter isStop).length_le
  have h5 := (inv_stops_called c s h).1
  rw [hd] at h5
  simp only [dtorK] at h5
  have h6 : s.q.pushed.filter isStop
      = (s.q.popped.map (fun p => p.2)).filter isStop ++ s.q.items.filter isStop := by
    rw [QueueSM.pushed_eq c.qc s.q hq hu, List.filter_append]
  have h7 := congrArg List.length h6
  rw [List.length_append] at h7
  have h8 : (s.q.items.filter isStop).length = 0 := by have := j3 hd; omega
  intro x hx
  rw [List.length_eq_zero_iff, List.filter_eq_nil_iff] at h8
  simpa using h8 x hx

/-- … and at least one was enqueued if the pool has a worker -/
theorem done_stops_pushed : (s.q.pushed.filter isStop).length = c.workers.length := by
  have hq := reachable_q c s h
  have hu := inv_inUse c s h
  obtain ⟨j1, j2, j3⟩ := inv_joined c s h
  obtain ⟨e1, e2⟩ := inv_exitedL c s h
  have h1 : s.joined.length ≤ s.exitedL.length :=
    (List.subperm_of_subset j1 (fun u hu => (j2 u hu).1)).length_le
  have h2 : s.exitedL.length ≤ (s.q.popped.filter (fun p => isStop p.2)).length := by
    apply length_le_of_fst_cover e2
    intro w hw
    obtain ⟨t, ht⟩ := inv_stop_link c s h w (.inr (.inr ((e1 w).mp hw)))
    exact ⟨(t, Task.stop), List.mem_filter.mpr ⟨ht, rfl⟩⟩
  have h3 : (s.q.popped.filter (fun p => isStop p.2)).length
      = ((s.q.popped.map (fun p => p.2)).filter isStop).length := by
    rw [List.filter_map, List.length_map]; rfl
  have h4 : (s.q.pushed.filter isStop).length ≤ (s.q.called.filter isStop).length :=
    ((QueueSM.pushed_subperm_called c.qc s.q hq hu).filter isStop).length_le
  have h5 := (inv_stops_called c s h).1
  rw [hd] at h5
  simp only [dtorK] at h5
  have h6 : s.q.pushed.filter isStop
      = (s.q.popped.map (fun p => p.2)).filter isStop ++ s.q.items.filter isStop := by
    rw [QueueSM.pushed_eq c.qc s.q hq hu, List.filter_append]
  have h7 := congrArg List.length h6
  rw [List.length_append] at h7
  have := j3 hd
  omega

/-- by FIFO (`pushed = jobs ++ stops`) the work queue is empty: nothing queued is lost -/
theorem done_queue_empty (hw : c.workers ≠ []) : s.q.items = [] := by
  have hq := reachable_q c s h
  have hu := inv_inUse c s h
  have e : s.q.popped.map (fun p => p.2) ++ s.q.items
      = s.q.pushed.filter (fun x => !isStop x) ++ s.q.pushed.filter isStop := by
    rw [← QueueSM.pushed_eq c.qc s.q hq hu]; exact inv_pushed_shape c s h
  refine suffix_no_stop (p := isStop) e (fun x hx => (List.mem_filter.mp hx).2) (done_no_stop_queued c s h hd) ?_
  intro hnil
  have := done_stops_pushed c s h hd
  rw [hnil] at this
  exact hw (List.length_eq_zero_iff.mp this.symm)

/-- … so every submitted job has run exactly once and its future holds its outcome -/
theorem done_all_ran (hw : c.workers ≠ []) {id : Nat} {out : Outcome} (hs : (id, out) ∈ s.submitted) :
    RanOnce s id out := by
  have hempty := done_queue_empty c s h hd hw
  have hnofl := inv_noInflight_joining c s h (.inr hd)
  rcases job_place c s h hs with ⟨⟨t, ht⟩, _⟩ | ⟨_, ⟨t, ht⟩, _⟩ | ⟨_, _, ⟨w, hh⟩, _⟩ | ⟨_, _, _, hr⟩
  · rw [hnofl t] at ht; cases ht
  · rw [hempty] at ht; cases ht
  · exfalso
    have hwk : w ∈ c.workers := by
      by_contra hn
      have := inv_wpc c s h w hn
      rcases hh with hh | hh <;> rw [this] at hh <;> cases hh
    have := (done_all_exited c s h hd w hwk).2
    rcases hh with hh | hh <;> rw [this] at hh <;> cases hh
  · exact hr

end done

end Osmium.PoolSM
