/-
C04 built_content, part 3: what each micro program of the builders computes, in closed form, on the
shapes `P1` (object under construction at offset 0) and `P2` (… with an open list builder).
-/
import Osmium.Lemmas.BufBuildBytes

namespace Osmium.Buf

open Osmium.Layout

theorem P2_append (ty osz : Nat) (A : Bytes) (lty lsz : Nat) (B d : Bytes) :
    P2 ty osz A lty lsz B ++ d = P2 ty osz A lty lsz (B ++ d) := by simp [P2, List.append_assoc]

theorem P2_as_P1 (ty osz : Nat) (A : Bytes) (lty lsz : Nat) (B : Bytes) :
    P2 ty osz A lty lsz B = P1 ty osz (A ++ (itemHeader lsz lty ++ B)) := by simp [P2, P1, List.append_assoc]

/-- `append(d)` + `add_size` with a list builder open inside the object -/
theorem pm_append (fill : UInt8) (ty osz : Nat) (A : Bytes) (lty lsz : Nat) (B d : Bytes) (st : List AFrame) :
    pMicros fill (P2 ty osz A lty lsz B, st) (mAppend [8 + A.length, 0] d) =
      some (P2 ty (osz + d.length) A lty (lsz + d.length) (B ++ d), st) := by
  simp only [pMicros, mAppend, pList, pMicro, pBase, Bool.false_eq_true, ↓reduceIte]
  rw [writeAt_reserved_full, P2_append, addSizeChain_P2]

/-- `add_padding(true)` -/
theorem pm_padSelf (fill : UInt8) (ty osz : Nat) (A : Bytes) (lty lsz : Nat) (B : Bytes) (st : List AFrame) :
    pMicros fill (P2 ty osz A lty lsz B, st) (mPadding [8 + A.length, 0] true) =
      some (P2 ty (osz + padOf lsz) A lty (lsz + padOf lsz) (B ++ zeros (padOf lsz)), st) := by
  simp only [pMicros, mPadding, pList, pMicro, pBase, Bool.false_eq_true, ↓reduceIte, u32At_P2_list, padOf_mod]
  have hl : (P2 ty osz A lty lsz B ++ List.replicate (padOf lsz) fill).length - (P2 ty osz A lty lsz B).length = padOf lsz := by simp
  rw [hl]
  have := writeAt_reserved_full (P2 ty osz A lty lsz B) (zeros (padOf lsz)) fill
  rw [zeros_len] at this
  rw [this, P2_append, addSizeChain_P2]

/-- `add_padding()` of the list builder's destructor: only the parent's size grows; the list item
    is complete and becomes part of the object's content -/
theorem pm_padClose (fill : UInt8) (ty osz : Nat) (A : Bytes) (lty lsz : Nat) (B : Bytes) (st : List AFrame) :
    pMicros fill (P2 ty osz A lty lsz B, st) (mPadding [8 + A.length, 0] false) =
      some (P1 ty (osz + padOf lsz) (A ++ (itemHeader lsz lty ++ B ++ zeros (padOf lsz))), st) := by
  simp only [pMicros, mPadding, pList, pMicro, pBase, Bool.false_eq_true, ↓reduceIte, u32At_P2_list, padOf_mod]
  have hl : (P2 ty osz A lty lsz B ++ List.replicate (padOf lsz) fill).length - (P2 ty osz A lty lsz B).length = padOf lsz := by simp
  rw [hl]
  have := writeAt_reserved_full (P2 ty osz A lty lsz B) (zeros (padOf lsz)) fill
  rw [zeros_len] at this
  rw [this, P2_append, P2_as_P1]
  simp only [addSizeChain, List.foldl]
  rw [addSizeAt_P1]
  simp [List.append_assoc]

/-- reserve a 16-byte struct, write its first `|d|` bytes, `add_size(16)`, keep its offset -/
theorem pm_struct (fill : UInt8) (ty osz : Nat) (A : Bytes) (lty lsz : Nat) (B d : Bytes) (lk k : Kind) (pt : Option Nat)
    (hd : d.length ≤ 16) :
    pMicros fill (P2 ty osz A lty lsz B, [(8 + A.length, lk, pt), (0, k, none)])
      [.alloc (fun _ => 16) true (fun off p => addSizeChain [8 + A.length, 0] 16 (writeAt p off d))] =
      some (P2 ty (osz + 16) A lty (lsz + 16) (B ++ (d ++ List.replicate (16 - d.length) fill)),
            [(8 + A.length, lk, some (8 + A.length + (8 + B.length))), (0, k, none)]) := by
  simp only [pMicros, pList, pMicro, pBase, ↓reduceIte, aSetTop]
  rw [writeAt_reserved _ _ _ _ hd, List.append_assoc, P2_append, addSizeChain_P2, P2_len]

/-- a write through the saved offset -/
theorem pm_deref (fill : UInt8) (ty osz : Nat) (A : Bytes) (lty lsz : Nat) (B0 S T : Bytes) (lk k : Kind) (keep : Bool)
    (c v n : Nat) (h : c + n ≤ S.length) :
    pMicros fill (P2 ty osz A lty lsz (B0 ++ S ++ T), [(8 + A.length, lk, some (8 + A.length + (8 + B0.length))), (0, k, none)])
      [.deref keep (fun o p => setLE p (o + c) v n)] =
      some (P2 ty osz A lty lsz (B0 ++ writeAt S c (leBytes v n) ++ T),
            [(8 + A.length, lk, if keep then some (8 + A.length + (8 + B0.length)) else none), (0, k, none)]) := by
  simp only [pMicros, pList, pMicro, pBase]
  rw [setLE_P2 _ _ _ _ _ _ _ _ _ _ _ h]
  cases keep <;> rfl

/-- constructor of a list builder inside the object -/
theorem pm_listCtor (fill : UInt8) (ty osz : Nat) (A : Bytes) (lk k : Kind) (hk : lk.isObj = false) :
    pMicros fill (P1 ty osz A, [(0, k, none)]) (mCtor lk [0]) =
      some (P2 ty (osz + 8) A lk.ty 8 [], [(0, k, none)]) := by
  simp only [pMicros, mCtor, hk, Bool.false_eq_true, ↓reduceIte, pList, pMicro, pBase]
  have h1 : P1 ty osz A ++ List.replicate 8 fill = P1 ty osz (A ++ List.replicate 8 fill) := by simp [P1, List.append_assoc]
  simp only [addSizeChain, List.foldl]
  rw [h1, addSizeAt_P1]
  have h2 : P1 ty (osz + 8) (A ++ List.replicate 8 fill) = P1 ty (osz + 8) A ++ List.replicate 8 fill := by
    simp [P1, List.append_assoc]
  have h3 : (P1 ty osz A).length = (P1 ty (osz + 8) A).length := by simp [P1_len]
  rw [h2, h3]
  have := writeAt_reserved_full (P1 ty (osz + 8) A) (itemHeader 8 lk.ty) fill
  rw [itemHeader_len] at this
  rw [this]
  simp [P1, P2, List.append_assoc]

theorem pMicros_append (fill : UInt8) (x : PSt) (a b : List Micro) :
    pMicros fill x (a ++ b) = (pMicros fill x a).bind fun x' => pMicros fill x' b := by
  unfold pMicros
  induction a generalizing x with
  | nil => rfl
  | cons m ms ih =>
    simp only [List.cons_append, pList]
    cases pMicro fill x m with
    | none => rfl
    | some x' => exact ih x'

end Osmium.Buf
