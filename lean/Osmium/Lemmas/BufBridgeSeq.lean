/-
C04 built_content, part 8: the item sequence.  The decode lemmas of C03 (Lemmas/HostileLayout*.lean)
for ONE built object filling the whole buffer, generalised to an object sitting at any offset of a
longer buffer, and from there to the concatenation of any number of built objects.
-/
import Osmium.Lemmas.BufBridge
import Osmium.Lemmas.HostileLayout

namespace Osmium.Buf

open Osmium.Layout
open Osmium.HostileLayout

theorem decodeItem_obj_at {b : Bytes} (off lim ty szT size : Nat)
    (hty : (ty = 1 ∧ szT = 40) ∨ (ty = 2 ∧ szT = 32) ∨ (ty = 3 ∧ szT = 32) ∨ (ty = 4 ∧ szT = 32))
    (user : Bytes) (f : Nat) (trees : List Tree)
    (e1 : u32At b off = size) (e2 : u16At b (off + 4) = ty) (e3 : u16At b (off + 6) = 0)
    (hmod : size % 8 = 0) (hlim : off + size ≤ lim) (hb : lim ≤ b.length)
    (e4 : u16At b (off + szT) = user.length + 1)
    (hu : At b (off + szT + 2) (user ++ [0])) (hun : noNul user = true) (hlt : szT + 2 + user.length < size)
    (hsub : decodeItems b f (off + padded (szT + 2 + (user.length + 1))) (off + size) = .ok trees) :
    ∃ fields, decodeItem b (f + 1) off lim = .ok (.mk ty false fields [user] trees, size) := by
  have c := cstr_at (lim := off + size) hu hun (by omega) (by omega)
  rw [decodeItem]
  simp only [e1, e2, e3, padded_of_mod _ hmod]
  rw [if_neg (by omega), if_neg (by omega)]
  rcases hty with ⟨rfl, rfl⟩ | ⟨rfl, rfl⟩ | ⟨rfl, rfl⟩ | ⟨rfl, rfl⟩
  all_goals
    rw [if_pos (by decide)]
    simp only [show (1 == tyNode) = true from rfl, show (2 == tyNode) = false from rfl,
      show (3 == tyNode) = false from rfl, show (4 == tyNode) = false from rfl, if_true, if_false,
      Bool.false_eq_true, sizeofNode, sizeofObject] at *
    rw [if_neg (by omega), c]
    simp only [e4, hsub]
    exact ⟨_, rfl⟩

theorem decodeItem_cs_at {b : Bytes} (off lim size : Nat) (user : Bytes) (f : Nat) (trees : List Tree)
    (e1 : u32At b off = size) (e2 : u16At b (off + 4) = 5) (e3 : u16At b (off + 6) = 0)
    (hmod : size % 8 = 0) (hlim : off + size ≤ lim) (hb : lim ≤ b.length)
    (e4 : u16At b (off + 48) = user.length + 1)
    (hu : At b (off + sizeofChangeset) (user ++ [0])) (hun : noNul user = true) (hlt : sizeofChangeset + user.length < size)
    (hsub : decodeItems b f (off + padded (sizeofChangeset + (user.length + 1))) (off + size) = .ok trees) :
    ∃ fields, decodeItem b (f + 1) off lim = .ok (.mk 5 false fields [user] trees, size) := by
  have c := cstr_at (lim := off + size) hu hun (by omega) (by omega)
  have h56 : sizeofChangeset = 56 := rfl
  refine ⟨[(u32At b (off + 32) : Nat), (u32At b (off + 44) : Nat), (u32At b (off + 24) : Nat),
         (u32At b (off + 28) : Nat), (u32At b (off + 36) : Nat), (u32At b (off + 40) : Nat),
         toSigned (u32At b (off + 8)) 32, toSigned (u32At b (off + 12)) 32,
         toSigned (u32At b (off + 16)) 32, toSigned (u32At b (off + 20)) 32], ?_⟩
  rw [decodeItem]
  simp only [e1, e2, e3, padded_of_mod _ hmod]
  rw [if_neg (by omega), if_neg (by omega), if_neg (by decide), if_pos (by decide)]
  rw [if_neg (by omega), c]
  simp only [e4, hsub]
  rfl

/-- `At` is translation invariant -/
theorem at_shift {b x : Bytes} {off p : Nat} (h : At b off x) (y : Bytes) (hy : At x p y) : At b (off + p) y := by
  obtain ⟨t, ht⟩ := h
  obtain ⟨t', ht'⟩ := hy
  by_cases hp : p ≤ x.length
  · refine ⟨t' ++ t, ?_⟩
    rw [← List.drop_drop, ← ht, List.drop_append_of_le_length hp, ← ht']
    simp
  · have hnil : x.drop p = [] := List.drop_eq_nil_of_le (by omega)
    rw [hnil] at ht'
    have : y = [] := by
      cases y with
      | nil => rfl
      | cons a r => simp at ht'
    subst this
    exact at_nil

/-- a built object sitting at offset `off` of `b` decodes, with any limit behind its end -/
theorem decodeItem_build_at (fill : UInt8) (o : ObjS) (g : Guards fill o) {b : Bytes} (off lim f : Nat)
    (hat : At b off (build fill o)) (hlim : off + (build fill o).length ≤ lim) (hb : lim ≤ b.length)
    (hf : (subsBytes fill o.subs).length + 2 ≤ f) :
    ∃ fields, decodeItem b (f + 1) off lim =
      .ok (.mk o.kind.ty false fields [o.user] (o.subs.map subTree), (build fill o).length) := by
  have hlen := build_length fill o g.fixedLen
  have hmod := objSize_mod fill o
  have htot := g.total
  have hul := g.userLen
  have hsz : objSize fill o = o.kind.headLen o.user.length + (subsBytes fill o.subs).length := rfl
  have sh : ∀ {p : Nat} {y : Bytes}, At (build fill o) p y → At b (off + p) y := fun hy => at_shift hat _ hy
  by_cases hk : o.kind = .changeset
  · obtain ⟨h0, h1, h2, h3⟩ := build_at_cs fill o (at_self _) hk g.fixedLen
    simp only [header, at_append, leBytes_length, Nat.zero_add] at h0
    obtain ⟨⟨a1, a2⟩, a3⟩ := h0
    have hhl : o.kind.headLen o.user.length = padded (sizeofChangeset + (o.user.length + 1)) := by
      rw [hk]; rfl
    have hp := Buf.padded_ge (sizeofChangeset + (o.user.length + 1))
    have hty : o.kind.ty = 5 := by rw [hk]; rfl
    rw [hty] at a2 ⊢
    have hsub := decodeItems_subs fill o.subs (off + o.kind.headLen o.user.length) (off + (build fill o).length) f
      (sh h3) (by omega) (by omega) (guards_subs g) (by omega) hf
    rw [hhl] at hsub
    rw [hlen] at hsub hlim ⊢
    exact decodeItem_cs_at off lim _ o.user f _ (u32At_at (sh a1) htot) (leAt_at_leBytes (sh a2))
      (leAt_at_leBytes (sh a3)) hmod hlim hb (u16At_at (sh h1) hul) (sh h2) g.userNoNul (by omega) hsub
  · obtain ⟨h0, h1, h2, h3⟩ := build_at_obj fill o (at_self _) hk g.fixedLen
    simp only [header, at_append, leBytes_length, Nat.zero_add] at h0
    obtain ⟨⟨a1, a2⟩, a3⟩ := h0
    have hhl : o.kind.headLen o.user.length = padded (o.kind.sizeT + 2 + (o.user.length + 1)) := by
      cases hk' : o.kind <;> first | exact absurd hk' hk | rfl
    have hp := Buf.padded_ge (o.kind.sizeT + 2 + (o.user.length + 1))
    have hsub := decodeItems_subs fill o.subs (off + o.kind.headLen o.user.length) (off + (build fill o).length) f
      (sh h3) (by omega) (by omega) (guards_subs g) (by omega) hf
    rw [hhl] at hsub
    rw [hlen] at hsub hlim ⊢
    refine decodeItem_obj_at off lim o.kind.ty o.kind.sizeT _ ?_ o.user f _ (u32At_at (sh a1) htot) ?_
      (leAt_at_leBytes (sh a3)) hmod hlim hb (u16At_at (sh h1) hul) ?_ g.userNoNul (by omega) hsub
    · cases hk' : o.kind <;> first | exact absurd hk' hk | decide
    · rw [u16At, leAt_at_leBytes (sh a2)]
      cases hk' : o.kind <;> first | exact absurd hk' hk | rfl
    · have := sh h2; rwa [Nat.add_assoc]

/-- what the traversal must deliver for the object description `o` -/
def IsTreeOf (o : ObjS) (t : Tree) : Prop :=
  ∃ fields, t = .mk o.kind.ty false fields [o.user] (o.subs.map subTree)

/-- tree by tree: same number of items, the i-th tree is the one of the i-th object description -/
def TreesOf : List ObjS → List Tree → Prop
  | [], [] => True
  | o :: os, t :: ts => IsTreeOf o t ∧ TreesOf os ts
  | _, _ => False

theorem build_len_ge (fill : UInt8) (o : ObjS) (g : Guards fill o) :
    (subsBytes fill o.subs).length + 8 ≤ (build fill o).length ∧ (build fill o).length % 8 = 0 := by
  have hlen := build_length fill o g.fixedLen
  have hmod := objSize_mod fill o
  have hsz : objSize fill o = o.kind.headLen o.user.length + (subsBytes fill o.subs).length := rfl
  have h8 : 8 ≤ o.kind.headLen o.user.length := by
    rw [← headBody_length o g.fixedLen]; omega
  omega

/-- the concatenation of built objects decodes item by item -/
theorem decodeItems_builds (fill : UInt8) (os : List ObjS) (hg : ∀ o ∈ os, Guards fill o) {b : Bytes} :
    ∀ (pos lim fuel : Nat), At b pos (os.map (build fill)).flatten → lim = pos + ((os.map (build fill)).flatten).length →
      lim ≤ b.length → ((os.map (build fill)).flatten).length + 2 ≤ fuel →
      ∃ trees, decodeItems b fuel pos lim = .ok trees ∧ TreesOf os trees := by
  induction os with
  | nil =>
    intro pos lim fuel _ he _ hf
    obtain ⟨f, rfl⟩ : ∃ f, fuel = f + 1 := ⟨fuel - 1, by omega⟩
    simp at he
    exact ⟨[], by simp [decodeItems, he], trivial⟩
  | cons o r ih =>
    intro pos lim fuel hat he hb hf
    obtain ⟨f, rfl⟩ : ∃ f, fuel = f + 1 := ⟨fuel - 1, by omega⟩
    simp only [List.map_cons, List.flatten_cons] at hat he hf
    rw [at_append] at hat
    obtain ⟨h1, hrest⟩ := hat
    rw [List.length_append] at he hf
    have g := hg o List.mem_cons_self
    obtain ⟨hl8, hm8⟩ := build_len_ge fill o g
    obtain ⟨f', rfl⟩ : ∃ f', f = f' + 1 := ⟨f - 1, by omega⟩
    obtain ⟨fields, hd⟩ := decodeItem_build_at fill o g pos lim f' h1 (by omega) hb (by omega)
    obtain ⟨trees, ht, hfa⟩ := ih (fun o' h' => hg o' (List.mem_cons_of_mem _ h')) (pos + (build fill o).length) lim (f' + 1)
      hrest (by omega) hb (by omega)
    refine ⟨.mk o.kind.ty false fields [o.user] (o.subs.map subTree) :: trees, ?_, ⟨⟨fields, rfl⟩, hfa⟩⟩
    rw [decodeItems, if_neg (by omega), if_neg (by omega), hd]
    simp only [bind, Except.bind]
    rw [padded_of_mod _ hm8, ht]
    rfl

theorem decodeAll_builds (fill : UInt8) (os : List ObjS) (hg : ∀ o ∈ os, Guards fill o) :
    ∃ trees, decodeAll (os.map (build fill)).flatten = .ok trees ∧ TreesOf os trees := by
  unfold decodeAll
  exact decodeItems_builds fill os hg 0 _ _ (at_self _) (by simp) (Nat.le_refl _) (Nat.le_refl _)

theorem builds_length_mod (fill : UInt8) (os : List ObjS) (hg : ∀ o ∈ os, Guards fill o) :
    ((os.map (build fill)).flatten).length % 8 = 0 := by
  induction os with
  | nil => rfl
  | cons o r ih =>
    simp only [List.map_cons, List.flatten_cons, List.length_append]
    have := (build_len_ge fill o (hg o List.mem_cons_self)).2
    have := ih (fun o' h' => hg o' (List.mem_cons_of_mem _ h'))
    omega

end Osmium.Buf
