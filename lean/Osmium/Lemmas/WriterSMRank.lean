/-
Lemmas for C08, part 7: a ranking function.  EVERY step of the machine (any thread) strictly
decreases a natural-number measure, so every run is finite; together with "no stuck state"
every maximal run ends with the Writer destroyed and all threads finished — under ANY
scheduler that keeps running some enabled thread (no fairness assumption is needed, because
a blocked thread has no step at all: there is no busy waiting in the model).  Core-only.
-/
import Osmium.Lemmas.WriterSMLive

namespace Osmium.WriterSM

open Osmium.Mon

variable {κ : Type}

/-- weight of an instruction, `hdr` excepted -/
def baseW : Instr → Nat
  | .hdr => 0
  | .closeChk => 2
  | .throw _ => 4
  | .poll => 5
  | _ => 1

def sumW (f : Instr → Nat) (l : List Instr) : Nat := (l.map f).sum

/-- weight of `hdr`: it may expand to write_header's pushes plus `setHdr` -/
def hdrW (cfg : Cfg κ) : Nat := sumW baseW (encInstrs cfg.hdrEnc) + 2

def instrW (cfg : Cfg κ) (i : Instr) : Nat :=
  match i with
  | .hdr => hdrW cfg
  | i => baseW i

def codeW (cfg : Cfg κ) (l : List Instr) : Nat := sumW (instrW cfg) l

def scriptW (cfg : Cfg κ) (l : List Api) : Nat := (l.map fun a => codeW cfg (callCode a) + 1).sum

def unready (l : List Item) : Nat := l.countP fun it => !it.ready

def wpcRank : WPc → Nat
  | .done => 0
  | .dtor => 1
  | .fail3 => 2
  | .fail2 _ => 3
  | .fail1 _ => 4
  | .closing => 5
  | .pop => 6
  | .got it => 7 + (if it.ready then 0 else 1)

/-- the ranking function -/
def rank (cfg : Cfg κ) (s : St κ) : Nat :=
  4 * (codeW cfg s.code + scriptW cfg s.script) + 2 * s.q.length + unready s.q + wpcRank s.wpc

theorem codeW_cons (cfg : Cfg κ) (i : Instr) (l : List Instr) :
    codeW cfg (i :: l) = instrW cfg i + codeW cfg l := by simp [codeW, sumW]

@[simp] theorem codeW_nil (cfg : Cfg κ) : codeW cfg [] = 0 := rfl

theorem codeW_append (cfg : Cfg κ) (l r : List Instr) : codeW cfg (l ++ r) = codeW cfg l + codeW cfg r := by
  simp [codeW, sumW]

theorem codeW_enc (cfg : Cfg κ) (e : Enc) : codeW cfg (encInstrs e) = sumW baseW (encInstrs e) := by
  unfold codeW sumW
  congr 1
  apply List.map_congr_left
  intro i hi
  rcases mem_encInstrs hi with ⟨it, rfl⟩ | ⟨x, rfl⟩ <;> rfl

theorem instrW_pos (cfg : Cfg κ) (i : Instr) : 1 ≤ instrW cfg i := by
  cases i <;> simp [instrW, baseW, hdrW]

theorem codeW_catch (cfg : Cfg κ) (a : Api) (e : Err) : codeW cfg (catchCode a e) = 3 := by
  cases a <;> simp [catchCode, codeW, sumW, instrW, baseW]

theorem codeW_final (cfg : Cfg κ) (a : Api) : codeW cfg [finalInstr a] = 1 := by
  cases a <;> simp [finalInstr, codeW, sumW, instrW, baseW]

theorem unready_append (l : List Item) (it : Item) :
    unready (l ++ [it]) = unready l + (if it.ready then 0 else 1) := by
  simp [unready, List.countP_append, List.countP_cons]
  cases it.ready <;> simp

theorem unready_set {q : List Item} {i : Nat} {it : Item} (h : q[i]? = some it) (hr : it.ready = false) :
    unready (q.set i (setReady it)) + 1 = unready q := by
  induction q generalizing i with
  | nil => simp at h
  | cons x xs ih =>
    cases i with
    | zero =>
      simp at h; subst h
      simp [unready, List.set, setReady, List.countP_cons, hr]
    | succ j =>
      simp at h
      have := ih h
      simp only [unready, List.set, List.countP_cons] at this ⊢
      omega

theorem rank_prod {cfg : Cfg κ} {s s' : St κ} (hidle : s.cur = none → s.code = [])
    (hs : ProdStep cfg s s') : rank cfg s' < rank cfg s := by
  cases hs with
  | call a rest hc hsc =>
    have := hidle hc
    simp only [rank, this, hsc, scriptW, List.map_cons, List.sum_cons, codeW_nil]
    omega
  | chkFail a rest hc hcode hst =>
    simp only [rank, finish, hcode, codeW_cons, codeW_nil]
    have := instrW_pos cfg .chk
    omega
  | chkOk a rest hc hcode hst => simp only [rank, hcode, codeW_cons]; have := instrW_pos cfg .chk; omega
  | closeChkOk a rest hc hcode hst =>
    simp only [rank, hcode, codeW_cons]; have := instrW_pos cfg .closeChk; omega
  | closeChkSkip a rest hc hcode hst =>
    simp only [rank, hcode, codeW_cons, codeW_nil]
    have : instrW cfg .closeChk = 2 := rfl
    have h1 : instrW cfg (finalInstr a) = 1 := by cases a <;> rfl
    omega
  | hdrSkip a rest hc hcode hh => simp only [rank, hcode, codeW_cons]; have := instrW_pos cfg .hdr; omega
  | hdrDo a rest hc hcode hh =>
    simp only [rank, hcode, codeW_cons, codeW_append, codeW_enc, codeW_nil]
    have h1 : instrW cfg .hdr = sumW baseW (encInstrs cfg.hdrEnc) + 2 := rfl
    have h2 : instrW cfg .setHdr = 1 := rfl
    omega
  | setHdr a rest hc hcode => simp only [rank, hcode, codeW_cons]; have := instrW_pos cfg .setHdr; omega
  | pollRaise a rest e hc hcode hn hv hp =>
    simp only [rank, raiseInTry, hcode, codeW_cons, codeW_catch]
    have : instrW cfg .poll = 5 := rfl
    omega
  | pollValue a rest n hc hcode hn hv hp =>
    simp only [rank, hcode, codeW_cons]; have := instrW_pos cfg .poll; omega
  | pollNothing a rest hc hcode hn =>
    simp only [rank, hcode, codeW_cons]; have := instrW_pos cfg .poll; omega
  | pushDropped a rest it hc hcode hu =>
    simp only [rank, hcode, codeW_cons]; have := instrW_pos cfg (.push it); omega
  | pushDone a rest it hc hcode hu hroom =>
    simp only [rank, hcode, codeW_cons, List.length_append, List.length_singleton, unready_append]
    have : instrW cfg (.push it) = 1 := rfl
    split <;> omega
  | throw a rest e hc hcode =>
    simp only [rank, raiseInTry, hcode, codeW_cons, codeW_catch]
    have : instrW cfg (.throw e) = 4 := rfl
    omega
  | setClosed a rest hc hcode =>
    simp only [rank, hcode, codeW_cons]; have := instrW_pos cfg .setClosed; omega
  | rethrow a rest e hc hcode =>
    simp only [rank, finish, hcode, codeW_cons, codeW_nil]
    have := instrW_pos cfg (.rethrow e)
    omega
  | ret a rest hc hcode =>
    simp only [rank, finish, hcode, codeW_cons, codeW_nil]
    have := instrW_pos cfg .ret
    omega
  | futGetValid a rest o hc hcode hv hp =>
    simp only [rank, finish, hcode, codeW_cons, codeW_nil]
    have := instrW_pos cfg .futGet
    omega
  | futGetInvalid a rest hc hcode hv =>
    simp only [rank, finish, hcode, codeW_cons, codeW_nil]
    have := instrW_pos cfg .futGet
    omega
  | join a rest hc hcode hw =>
    simp only [rank, finish, hcode, codeW_cons, codeW_nil]
    have := instrW_pos cfg .join
    omega

theorem rank_wt {cfg : Cfg κ} {s s' : St κ} (hs : WtStep cfg s s') : rank cfg s' < rank cfg s := by
  cases hs with
  | popShutdown hw hu => simp only [rank, hw, wpcRank]; omega
  | take it rest hw hu hq =>
    simp only [rank, hw, hq, wpcRank, List.length_cons, unready, List.countP_cons]
    cases it.ready <;> simp <;> omega
  | getExc it e hw hr hres => simp only [rank, hw, wpcRank]; omega
  | getEnd it hw hr hres =>
    simp only [rank, shutdownQ, hw, wpcRank, List.length_nil, unready, List.countP_nil]; omega
  | writeOk it b bs k' os' hw hr hres hcw => simp only [rank, hw, wpcRank]; omega
  | writeFail it b bs e k' os' hw hr hres hcw => simp only [rank, hw, wpcRank]; omega
  | closeOk k' os' hw hcc => simp only [rank, hw, wpcRank]; omega
  | closeFail e k' os' hw hcc => simp only [rank, hw, wpcRank]; omega
  | fail1 e hw => simp only [rank, hw, wpcRank]; omega
  | fail2 e hw => simp only [rank, hw, wpcRank]; omega
  | fail3 hw => simp only [rank, shutdownQ, hw, wpcRank, List.length_nil, unready, List.countP_nil]; omega
  | dtor hw => simp only [rank, shutdownQ, hw, wpcRank, List.length_nil, unready, List.countP_nil]; omega

theorem rank_worker {cfg : Cfg κ} {s s' : St κ} (hs : WorkerStep s s') : rank cfg s' < rank cfg s := by
  cases hs with
  | held it hw hr => simp only [rank, hw, wpcRank, setReady, hr]; simp
  | queued i it hq hr =>
    have := unready_set hq hr
    simp only [rank, List.length_set]
    omega

/-- every step of every thread strictly decreases `rank` -/
theorem rank_step {cfg : Cfg κ} {s s' : St κ} {e : Ev} (hidle : s.cur = none → s.code = [])
    (hs : step? cfg s e = some s') : rank cfg s' < rank cfg s := by
  rcases step_cases hs with h | h | h
  · exact rank_prod hidle h
  · exact rank_wt h
  · exact rank_worker h

end Osmium.WriterSM
