/-
Line level of `opl_decode_spec` (C02), part 5: changesets, and the theorem for all four object
kinds: `renderLine_parse`.
-/
import Osmium.Lemmas.OplSpecLine4

namespace Osmium.OplFmt
open Osmium.Osm Osmium.TextFmt Osmium.Conv Osmium.Utf8
open Osmium.Conv.IntLemmas (NoDigitHead)

/-! ### the `csField` cases that look at what follows, for `Sep'` -/

theorem csField_T_empty' (st : CsSt) (hst : st.hasTags = false) (rest : Bytes) (hr : Sep' rest) :
    csField st 0x54 rest = .ok ({ st with hasTags := true }, rest) := by
  simp [csField, hst, hr.notNonEmpty]

theorem csField_T' (st : CsSt) (hst : st.hasTags = false) (sec rest : Bytes) (hne : sec ≠ []) (hs : AllNE sec)
    (hr : Sep' rest) :
    csField st 0x54 (sec ++ rest) = .ok ({ st with hasTags := true, tagsBegin := some (sec ++ rest) }, rest) := by
  simp [csField, hst, peek_append_ne hne hs, skipSection_append' hs hr]

theorem csField_x_empty' (st : CsSt) (hst : st.hasMinX = false) (rest : Bytes) (hr : Sep' rest) :
    csField st 0x78 rest = .ok ({ st with hasMinX := true }, rest) := by
  simp [csField, hst, hr.notNonEmpty]

theorem csField_y_empty' (st : CsSt) (hst : st.hasMinY = false) (rest : Bytes) (hr : Sep' rest) :
    csField st 0x79 rest = .ok ({ st with hasMinY := true }, rest) := by
  simp [csField, hst, hr.notNonEmpty]

theorem csField_X_empty' (st : CsSt) (hst : st.hasMaxX = false) (rest : Bytes) (hr : Sep' rest) :
    csField st 0x58 rest = .ok ({ st with hasMaxX := true }, rest) := by
  simp [csField, hst, hr.notNonEmpty]

theorem csField_Y_empty' (st : CsSt) (hst : st.hasMaxY = false) (rest : Bytes) (hr : Sep' rest) :
    csField st 0x59 rest = .ok ({ st with hasMaxY := true }, rest) := by
  simp [csField, hst, hr.notNonEmpty]

theorem csField_x' (ch : OplSpec.Choices) (st : CsSt) (hst : st.hasMinX = false) (v : Int) (h1 : int32Min ≤ v)
    (h2 : v ≤ int32Max) (rest : Bytes) (hr : Sep' rest) :
    csField st 0x78 (OplSpec.coord ch v ++ rest) = .ok ({ st with hasMinX := true, blx := v }, rest) := by
  obtain ⟨⟨hne, hn⟩, hp⟩ := specCoord_pCoord ch v h1 h2
  simp [csField, hst, peek_append_ne hne (AllNE_of_num hn), hp rest hr.terminates]

theorem csField_y' (ch : OplSpec.Choices) (st : CsSt) (hst : st.hasMinY = false) (v : Int) (h1 : int32Min ≤ v)
    (h2 : v ≤ int32Max) (rest : Bytes) (hr : Sep' rest) :
    csField st 0x79 (OplSpec.coord ch v ++ rest) = .ok ({ st with hasMinY := true, bly := v }, rest) := by
  obtain ⟨⟨hne, hn⟩, hp⟩ := specCoord_pCoord ch v h1 h2
  simp [csField, hst, peek_append_ne hne (AllNE_of_num hn), hp rest hr.terminates]

theorem csField_X' (ch : OplSpec.Choices) (st : CsSt) (hst : st.hasMaxX = false) (v : Int) (h1 : int32Min ≤ v)
    (h2 : v ≤ int32Max) (rest : Bytes) (hr : Sep' rest) :
    csField st 0x58 (OplSpec.coord ch v ++ rest) = .ok ({ st with hasMaxX := true, trx := v }, rest) := by
  obtain ⟨⟨hne, hn⟩, hp⟩ := specCoord_pCoord ch v h1 h2
  simp [csField, hst, peek_append_ne hne (AllNE_of_num hn), hp rest hr.terminates]

theorem csField_Y' (ch : OplSpec.Choices) (st : CsSt) (hst : st.hasMaxY = false) (v : Int) (h1 : int32Min ≤ v)
    (h2 : v ≤ int32Max) (rest : Bytes) (hr : Sep' rest) :
    csField st 0x59 (OplSpec.coord ch v ++ rest) = .ok ({ st with hasMaxY := true, try_ := v }, rest) := by
  obtain ⟨⟨hne, hn⟩, hp⟩ := specCoord_pCoord ch v h1 h2
  simp [csField, hst, peek_append_ne hne (AllNE_of_num hn), hp rest hr.terminates]

/-! ### slots -/

inductive CSlot | k | s | e | d | i | u | x | y | X | Y | T
  deriving DecidableEq

def cContent : CSlot → CsSt → CsSt
  | .k, st => { numChanges := st.numChanges }
  | .s, st => { createdAt := st.createdAt }
  | .e, st => { closedAt := st.closedAt }
  | .d, st => { numComments := st.numComments }
  | .i, st => { uid := st.uid }
  | .u, st => { user := st.user }
  | .x, st => { hasMinX := st.hasMinX, blx := st.blx }
  | .y, st => { hasMinY := st.hasMinY, bly := st.bly }
  | .X, st => { hasMaxX := st.hasMaxX, trx := st.trx }
  | .Y, st => { hasMaxY := st.hasMaxY, try_ := st.try_ }
  | .T, st => { hasTags := st.hasTags, tagsBegin := st.tagsBegin }

def cSys : Sys CsSt CSlot := ⟨csField, cContent, {}⟩

/-- the coordinate text after the attribute letter -/
def cBody (ch : OplSpec.Choices) (l : Location) (c : Int) : Bytes := if isUndefined l then [] else OplSpec.coord ch c

def gK (v : Nat) : FSpec CsSt CSlot := ⟨.k, 0x6b, OplSpec.int v, fun c => c.numChanges = some v⟩
def gS (v : Nat) : FSpec CsSt CSlot := ⟨.s, 0x73, toIso v, fun c => c.createdAt = some v⟩
def gE (v : Nat) : FSpec CsSt CSlot := ⟨.e, 0x65, toIso v, fun c => c.closedAt = some v⟩
def gD (v : Nat) : FSpec CsSt CSlot := ⟨.d, 0x64, OplSpec.int v, fun c => c.numComments = some v⟩
def gI (v : Int) : FSpec CsSt CSlot := ⟨.i, 0x69, OplSpec.int v, fun c => c.uid = some v.toNat⟩
def gU (ch : OplSpec.Choices) (u : Bytes) : FSpec CsSt CSlot := ⟨.u, 0x75, OplSpec.str ch u, fun c => c.user = some u⟩
def gx (ch : OplSpec.Choices) (l : Location) : FSpec CsSt CSlot := ⟨.x, 0x78, cBody ch l l.x, fun c => c.blx = l.x⟩
def gy (ch : OplSpec.Choices) (l : Location) : FSpec CsSt CSlot := ⟨.y, 0x79, cBody ch l l.y, fun c => c.bly = l.y⟩
def gX (ch : OplSpec.Choices) (l : Location) : FSpec CsSt CSlot := ⟨.X, 0x58, cBody ch l l.x, fun c => c.trx = l.x⟩
def gY (ch : OplSpec.Choices) (l : Location) : FSpec CsSt CSlot := ⟨.Y, 0x59, cBody ch l l.y, fun c => c.try_ = l.y⟩
def gT (ch : OplSpec.Choices) (ts : List Tag) : FSpec CsSt CSlot :=
  ⟨.T, 0x54, OplSpec.tagsBody ch ts, fun c => finishTags c.tagsBegin = .ok ts⟩

/-- closed facts about the attribute letter -/
macro "gs_dec" : tactic =>
  `(tactic| first
    | (simp only [gK, gS, gE, gD, gI, gU, gx, gy, gX, gY, gT]; decide)
    | decide)

theorem good_k (v : Nat) (hv : v ≤ 4294967295) : cSys.Good (gK v) := by
  obtain ⟨_, hn, hp⟩ := int_pU32 v hv
  refine Sys.Good.of_eff _ _ (fun _ st => { st with numChanges := some v }) (by gs_dec) ?_ ?_
    (clean_cons (by gs_dec) (clean_of_AllNE_num hn))
  · intro st rest hu hr
    have h0 : st.numChanges = none := congrArg CsSt.numChanges hu
    exact ⟨csField_k st h0 v _ rest (hp rest hr.noDigit), rfl⟩
  · intro _ sl st hs; cases sl <;> first | rfl | exact absurd rfl hs

theorem good_s (v : Nat) (hv : v < 4294967296) : cSys.Good (gS v) := by
  refine Sys.Good.of_eff _ _ (fun _ st => { st with createdAt := some v }) (by gs_dec) ?_ ?_
    (clean_cons (by gs_dec) (toIso_clean v))
  · intro st rest hu hr
    have h0 : st.createdAt = none := congrArg CsSt.createdAt hu
    exact ⟨csField_s st h0 v _ rest (toIso_pTs' v hv rest hr), rfl⟩
  · intro _ sl st hs; cases sl <;> first | rfl | exact absurd rfl hs

theorem good_e (v : Nat) (hv : v < 4294967296) : cSys.Good (gE v) := by
  refine Sys.Good.of_eff _ _ (fun _ st => { st with closedAt := some v }) (by gs_dec) ?_ ?_
    (clean_cons (by gs_dec) (toIso_clean v))
  · intro st rest hu hr
    have h0 : st.closedAt = none := congrArg CsSt.closedAt hu
    exact ⟨csField_e st h0 v _ rest (toIso_pTs' v hv rest hr), rfl⟩
  · intro _ sl st hs; cases sl <;> first | rfl | exact absurd rfl hs

theorem good_d (v : Nat) (hv : v ≤ 4294967295) : cSys.Good (gD v) := by
  obtain ⟨_, hn, hp⟩ := int_pU32 v hv
  refine Sys.Good.of_eff _ _ (fun _ st => { st with numComments := some v }) (by gs_dec) ?_ ?_
    (clean_cons (by gs_dec) (clean_of_AllNE_num hn))
  · intro st rest hu hr
    have h0 : st.numComments = none := congrArg CsSt.numComments hu
    exact ⟨csField_d st h0 v _ rest (hp rest hr.noDigit), rfl⟩
  · intro _ sl st hs; cases sl <;> first | rfl | exact absurd rfl hs

theorem good_i (v : Int) (h0 : 0 ≤ v) (h1 : v < 2147483648) : cSys.Good (gI v) := by
  have hv : ((v.toNat : Nat) : Int) = v := by omega
  obtain ⟨_, hn, hp⟩ := int_pU32 v.toNat (by omega)
  rw [hv] at hn hp
  refine Sys.Good.of_eff _ _ (fun _ st => { st with uid := some v.toNat }) (by gs_dec) ?_ ?_
    (clean_cons (by gs_dec) (clean_of_AllNE_num hn))
  · intro st rest hu hr
    have h0 : st.uid = none := congrArg CsSt.uid hu
    exact ⟨csField_i st h0 v.toNat _ rest (hp rest hr.noDigit), rfl⟩
  · intro _ sl st hs; cases sl <;> first | rfl | exact absurd rfl hs

theorem good_u (ch : OplSpec.Choices) (u : Bytes) (hu : strOK 0x110000 u = true) : cSys.Good (gU ch u) := by
  obtain ⟨hn, hp⟩ := specStr_pStr ch u hu
  refine Sys.Good.of_eff _ _ (fun _ st => { st with user := some u }) (by gs_dec) ?_ ?_
    (clean_cons (by gs_dec) (clean_of_noStructural hn))
  · intro st rest hus hr
    have h0 : st.user = none := congrArg CsSt.user hus
    exact ⟨csField_u st h0 u _ rest (hp rest hr.atStop), rfl⟩
  · intro _ sl st hs; cases sl <;> first | rfl | exact absurd rfl hs

theorem good_T (ch : OplSpec.Choices) (ts : List Tag) (hts : ∀ t ∈ ts, TagOK t) : cSys.Good (gT ch ts) := by
  obtain ⟨hne, hcl, hnn, hlen, hp⟩ := tagsBody_spec ch ts hts
  refine Sys.Good.of_eff _ _
    (fun rest st => if ts = [] then { st with hasTags := true }
      else { st with hasTags := true, tagsBegin := some (OplSpec.tagsBody ch ts ++ rest) }) (by gs_dec) ?_ ?_
    (clean_cons (by gs_dec) hcl)
  · intro st rest hu hr
    have h0 : st.hasTags = false := congrArg CsSt.hasTags hu
    have h1 : st.tagsBegin = none := congrArg CsSt.tagsBegin hu
    by_cases ht : ts = []
    · subst ht
      simp only [if_true]
      refine ⟨csField_T_empty' st h0 rest hr, ?_⟩
      show finishTags st.tagsBegin = .ok []
      rw [h1]; rfl
    · simp only [ht, if_false]
      refine ⟨csField_T' st h0 _ rest (hnn ht) hne hr, ?_⟩
      show finishTags (some (OplSpec.tagsBody ch ts ++ rest)) = .ok ts
      simp only [finishTags]
      exact hp rest hr _ (by simp only [List.length_append]; omega) ht
  · intro rest sl st hs
    by_cases ht : ts = []
    · simp only [ht, if_true]; cases sl <;> first | rfl | exact absurd rfl hs
    · simp only [ht, if_false]; cases sl <;> first | rfl | exact absurd rfl hs

theorem cBody_clean (ch : OplSpec.Choices) (l : Location) (hl : LocOK l) (c : Int) (hc : c = l.x ∨ c = l.y) :
    ∀ b ∈ cBody ch l c, CleanB b := by
  unfold cBody
  cases hiu : isUndefined l
  · obtain ⟨r1, r2, r3, r4⟩ := hl.range hiu
    simp only [Bool.false_eq_true, if_false]
    rcases hc with rfl | rfl
    · exact coord_clean ch _ r1 r2
    · exact coord_clean ch _ r3 r4
  · intro b hb; simp at hb

theorem good_gx (ch : OplSpec.Choices) (l : Location) (hl : LocOK l) : cSys.Good (gx ch l) := by
  refine Sys.Good.of_eff _ _ (fun _ st => { st with hasMinX := true, blx := l.x }) (by gs_dec) ?_ ?_
    (clean_cons (by gs_dec) (cBody_clean ch l hl l.x (Or.inl rfl)))
  · intro st rest hu hr
    have h0 : st.hasMinX = false := congrArg CsSt.hasMinX hu
    have h1 : st.blx = Location.undefinedCoordinate := congrArg CsSt.blx hu
    refine ⟨?_, rfl⟩
    cases hiu : isUndefined l
    · obtain ⟨r1, r2, _, _⟩ := hl.range hiu
      simp only [gx, cBody, hiu, Bool.false_eq_true, if_false]
      exact csField_x' ch st h0 l.x r1 r2 rest hr
    · have hx : l.x = st.blx := by rw [isUndefined_eq hiu, h1]; rfl
      simp only [gx, cBody, hiu, if_true, List.nil_append]
      show csField st 0x78 rest = _
      rw [csField_x_empty' st h0 rest hr, hx]
  · intro _ sl st hs; cases sl <;> first | rfl | exact absurd rfl hs

theorem good_gy (ch : OplSpec.Choices) (l : Location) (hl : LocOK l) : cSys.Good (gy ch l) := by
  refine Sys.Good.of_eff _ _ (fun _ st => { st with hasMinY := true, bly := l.y }) (by gs_dec) ?_ ?_
    (clean_cons (by gs_dec) (cBody_clean ch l hl l.y (Or.inr rfl)))
  · intro st rest hu hr
    have h0 : st.hasMinY = false := congrArg CsSt.hasMinY hu
    have h1 : st.bly = Location.undefinedCoordinate := congrArg CsSt.bly hu
    refine ⟨?_, rfl⟩
    cases hiu : isUndefined l
    · obtain ⟨_, _, r1, r2⟩ := hl.range hiu
      simp only [gy, cBody, hiu, Bool.false_eq_true, if_false]
      exact csField_y' ch st h0 l.y r1 r2 rest hr
    · have hx : l.y = st.bly := by rw [isUndefined_eq hiu, h1]; rfl
      simp only [gy, cBody, hiu, if_true, List.nil_append]
      show csField st 0x79 rest = _
      rw [csField_y_empty' st h0 rest hr, hx]
  · intro _ sl st hs; cases sl <;> first | rfl | exact absurd rfl hs

theorem good_gX (ch : OplSpec.Choices) (l : Location) (hl : LocOK l) : cSys.Good (gX ch l) := by
  refine Sys.Good.of_eff _ _ (fun _ st => { st with hasMaxX := true, trx := l.x }) (by gs_dec) ?_ ?_
    (clean_cons (by gs_dec) (cBody_clean ch l hl l.x (Or.inl rfl)))
  · intro st rest hu hr
    have h0 : st.hasMaxX = false := congrArg CsSt.hasMaxX hu
    have h1 : st.trx = Location.undefinedCoordinate := congrArg CsSt.trx hu
    refine ⟨?_, rfl⟩
    cases hiu : isUndefined l
    · obtain ⟨r1, r2, _, _⟩ := hl.range hiu
      simp only [gX, cBody, hiu, Bool.false_eq_true, if_false]
      exact csField_X' ch st h0 l.x r1 r2 rest hr
    · have hx : l.x = st.trx := by rw [isUndefined_eq hiu, h1]; rfl
      simp only [gX, cBody, hiu, if_true, List.nil_append]
      show csField st 0x58 rest = _
      rw [csField_X_empty' st h0 rest hr, hx]
  · intro _ sl st hs; cases sl <;> first | rfl | exact absurd rfl hs

theorem good_gY (ch : OplSpec.Choices) (l : Location) (hl : LocOK l) : cSys.Good (gY ch l) := by
  refine Sys.Good.of_eff _ _ (fun _ st => { st with hasMaxY := true, try_ := l.y }) (by gs_dec) ?_ ?_
    (clean_cons (by gs_dec) (cBody_clean ch l hl l.y (Or.inr rfl)))
  · intro st rest hu hr
    have h0 : st.hasMaxY = false := congrArg CsSt.hasMaxY hu
    have h1 : st.try_ = Location.undefinedCoordinate := congrArg CsSt.try_ hu
    refine ⟨?_, rfl⟩
    cases hiu : isUndefined l
    · obtain ⟨_, _, r1, r2⟩ := hl.range hiu
      simp only [gY, cBody, hiu, Bool.false_eq_true, if_false]
      exact csField_Y' ch st h0 l.y r1 r2 rest hr
    · have hx : l.y = st.try_ := by rw [isUndefined_eq hiu, h1]; rfl
      simp only [gY, cBody, hiu, if_true, List.nil_append]
      show csField st 0x59 rest = _
      rw [csField_Y_empty' st h0 rest hr, hx]
  · intro _ sl st hs; cases sl <;> first | rfl | exact absurd rfl hs

/-! ### the changeset line -/

/-- the attribute list of `OplSpec.objectFields` for a changeset, with the parser-side meaning -/
def cfCs (ch : OplSpec.Choices) (ca cl nc ncm : Nat) (uid : Int) (user : Bytes) (bl tr : Location) (tags : List Tag) :
    List (Bool × FSpec CsSt CSlot) :=
  [(nc == 0, gK nc), (ca == 0, gS ca), (cl == 0, gE cl), (ncm == 0, gD ncm), (uid == 0, gI uid),
   (user.isEmpty, gU ch user)] ++ [(isUndefined bl, gx ch bl), (isUndefined bl, gy ch bl)] ++
   [(isUndefined tr, gX ch tr), (isUndefined tr, gY ch tr)] ++ [(tags.isEmpty, gT ch tags)]

theorem locFields_gen (ch : OplSpec.Choices) (l : Location) (cx cy : UInt8) :
    OplSpec.locFields ch l cx cy = [(isUndefined l, cx :: cBody ch l l.x), (isUndefined l, cy :: cBody ch l l.y)] := by
  unfold OplSpec.locFields cBody
  cases h : isUndefined l <;> simp

theorem renderLine_cs_eq (ch : OplSpec.Choices) (id ca cl nc ncm : Nat) (uid : Int) (user : Bytes) (bl tr : Location)
    (tags : List Tag) (cs : List Comment) :
    OplSpec.renderLine ch (.changeset id ca cl nc ncm uid user bl tr tags cs) =
      0x63 :: (OplSpec.int id ++ OplSpec.withSeps ch.seps
        ((OplSpec.pick ch.order (kept ch.omitDefaults (cfCs ch ca cl nc ncm uid user bl tr tags))).map FSpec.bytes)) := by
  have hF : (cfCs ch ca cl nc ncm uid user bl tr tags).map (fun p => (p.1, p.2.bytes))
      = [(nc == 0, 0x6b :: OplSpec.int nc), (ca == 0, 0x73 :: toIso ca), (cl == 0, 0x65 :: toIso cl),
         (ncm == 0, 0x64 :: OplSpec.int ncm), (uid == 0, 0x69 :: OplSpec.int uid), (user.isEmpty, 0x75 :: OplSpec.str ch user)] ++
        OplSpec.locFields ch bl 0x78 0x79 ++ OplSpec.locFields ch tr 0x58 0x59 ++
        [(tags.isEmpty, 0x54 :: OplSpec.tagsBody ch tags)] := by
    rw [locFields_gen, locFields_gen]; rfl
  rw [← kept_bytes, hF]
  rfl

theorem renderLine_changeset (ch : OplSpec.Choices) (id ca cl nc ncm : Nat) (uid : Int) (user : Bytes) (bl tr : Location)
    (tags : List Tag) (cs : List Comment) (h : CsOK id ca cl nc ncm uid user bl tr tags) :
    parseLine {} (OplSpec.renderLine ch (.changeset id ca cl nc ncm uid user bl tr tags cs))
        = .ok (some (.changeset id ca cl nc ncm uid user bl tr tags [])) ∧
      ∀ b ∈ OplSpec.renderLine ch (.changeset id ca cl nc ncm uid user bl tr tags cs), CleanB b := by
  have hgood : ∀ p ∈ cfCs ch ca cl nc ncm uid user bl tr tags, cSys.Good p.2 := by
    intro p hp
    simp only [cfCs, List.cons_append, List.nil_append, List.mem_cons, List.not_mem_nil, or_false] at hp
    rcases hp with rfl | rfl | rfl | rfl | rfl | rfl | rfl | rfl | rfl | rfl | rfl
    · exact good_k _ h.nc
    · exact good_s _ h.ca
    · exact good_e _ h.cl
    · exact good_d _ h.ncm
    · exact good_i _ h.uid0 h.uid1
    · exact good_u ch _ h.user
    · exact good_gx ch _ h.bl
    · exact good_gy ch _ h.bl
    · exact good_gX ch _ h.tr
    · exact good_gY ch _ h.tr
    · exact good_T ch _ h.tags
  obtain ⟨fin, hloop, hall, hclean⟩ := cSys.run (cfCs ch ca cl nc ncm uid user bl tr tags) hgood
    (by show ([.k, .s, .e, .d, .i, .u, .x, .y, .X, .Y, .T] : List CSlot).Nodup; decide)
    ch.omitDefaults ch.order ch.seps
  obtain ⟨_, hidn, hidp⟩ := int_pU32 id h.id
  rw [renderLine_cs_eq]
  refine ⟨?_, clean_cons (by decide) (fun b hb => ?_)⟩
  · have hsep := withSeps_sep ch.seps
      ((OplSpec.pick ch.order (kept ch.omitDefaults (cfCs ch ca cl nc ncm uid user bl tr tags))).map FSpec.bytes)
    generalize OplSpec.withSeps ch.seps
      ((OplSpec.pick ch.order (kept ch.omitDefaults (cfCs ch ca cl nc ncm uid user bl tr tags))).map FSpec.bytes) = rest
      at hloop hsep
    have hfuel : attrLoop csField (loopFuel rest) {} rest = .ok fin :=
      loopFuel_ge csField 12 (by decide) {} rest fin hloop
    have mem : ∀ p, p ∈ cfCs ch ca cl nc ncm uid user bl tr tags →
        p.2.post (cContent p.2.slot fin) ∨ (p.1 = true ∧ cContent p.2.slot fin = cContent p.2.slot {}) := hall
    have hnc : fin.numChanges.getD 0 = nc := by
      rcases mem (nc == 0, gK nc) (by simp [cfCs]) with h | ⟨hd, h⟩
      · have h : fin.numChanges = some nc := h
        simp [h]
      · have h : fin.numChanges = none := congrArg CsSt.numChanges h
        have hd : nc = 0 := by simpa using hd
        simp [h, hd]
    have hca : fin.createdAt.getD 0 = ca := by
      rcases mem (ca == 0, gS ca) (by simp [cfCs]) with h | ⟨hd, h⟩
      · have h : fin.createdAt = some ca := h
        simp [h]
      · have h : fin.createdAt = none := congrArg CsSt.createdAt h
        have hd : ca = 0 := by simpa using hd
        simp [h, hd]
    have hcl : fin.closedAt.getD 0 = cl := by
      rcases mem (cl == 0, gE cl) (by simp [cfCs]) with h | ⟨hd, h⟩
      · have h : fin.closedAt = some cl := h
        simp [h]
      · have h : fin.closedAt = none := congrArg CsSt.closedAt h
        have hd : cl = 0 := by simpa using hd
        simp [h, hd]
    have hncm : fin.numComments.getD 0 = ncm := by
      rcases mem (ncm == 0, gD ncm) (by simp [cfCs]) with h | ⟨hd, h⟩
      · have h : fin.numComments = some ncm := h
        simp [h]
      · have h : fin.numComments = none := congrArg CsSt.numComments h
        have hd : ncm = 0 := by simpa using hd
        simp [h, hd]
    have huid : ((fin.uid.getD 0 : Nat) : Int) = uid := by
      rcases mem (uid == 0, gI uid) (by simp [cfCs]) with h' | ⟨hd, h'⟩
      · have h' : fin.uid = some uid.toNat := h'
        have := h.uid0
        simp only [h', Option.getD_some]; omega
      · have h' : fin.uid = none := congrArg CsSt.uid h'
        have hd : uid = 0 := by simpa using hd
        simp [h', hd]
    have huser : fin.user.getD [] = user := by
      rcases mem (user.isEmpty, gU ch user) (by simp [cfCs]) with h | ⟨hd, h⟩
      · have h : fin.user = some user := h
        simp [h]
      · have h : fin.user = none := congrArg CsSt.user h
        have hd : user = [] := by simpa using hd
        simp [h, hd]
    have hblx : fin.blx = bl.x := by
      rcases mem (isUndefined bl, gx ch bl) (by simp [cfCs]) with h | ⟨hd, h⟩
      · exact h
      · have h : fin.blx = Location.undefinedCoordinate := congrArg CsSt.blx h
        rw [h, isUndefined_eq hd]; rfl
    have hbly : fin.bly = bl.y := by
      rcases mem (isUndefined bl, gy ch bl) (by simp [cfCs]) with h | ⟨hd, h⟩
      · exact h
      · have h : fin.bly = Location.undefinedCoordinate := congrArg CsSt.bly h
        rw [h, isUndefined_eq hd]; rfl
    have htrx : fin.trx = tr.x := by
      rcases mem (isUndefined tr, gX ch tr) (by simp [cfCs]) with h | ⟨hd, h⟩
      · exact h
      · have h : fin.trx = Location.undefinedCoordinate := congrArg CsSt.trx h
        rw [h, isUndefined_eq hd]; rfl
    have htry : fin.try_ = tr.y := by
      rcases mem (isUndefined tr, gY ch tr) (by simp [cfCs]) with h | ⟨hd, h⟩
      · exact h
      · have h : fin.try_ = Location.undefinedCoordinate := congrArg CsSt.try_ h
        rw [h, isUndefined_eq hd]; rfl
    have htags : finishTags fin.tagsBegin = .ok tags := by
      rcases mem (tags.isEmpty, gT ch tags) (by simp [cfCs]) with h | ⟨hd, h⟩
      · exact h
      · have h : fin.tagsBegin = none := congrArg CsSt.tagsBegin h
        have hd : tags = [] := by simpa using hd
        rw [h, hd]; rfl
    have hsu : setUserCheck user = .ok () := by
      have hl := strOK_len h.user
      unfold setUserCheck; simp [maxString]; omega
    rw [parseLine_changeset, pChangeset, hidp rest hsep.noDigit]
    simp only [bindE_ok]
    rw [hfuel]
    simp only [bindE_ok, hsu, htags, hnc, hca, hcl, hncm, huid, huser, hblx, hbly, htrx, htry]
  · rcases List.mem_append.1 hb with h | h
    · exact (hidn b h).clean
    · exact hclean b h

/-! ### all object kinds -/

/-- the value domain of the property (the hypotheses `Props/C01Text.opl_roundtrip` feeds to the
    writer-side round-trip lemmas): ids in (−2^63, 2^63), version and uid < 2^31, uint32 timestamps /
    changesets / counts, strings = UTF-8 of scalar values without NUL of ≤ 1024 bytes, locations
    undefined or valid, member types node / way / relation -/
def SpecObjOK : Object → Prop
  | .node m l => MetaOK m ∧ LocOK l
  | .way m ns => MetaOK m ∧ ∀ n ∈ ns, RefOK n
  | .relation m ms => MetaOK m ∧ ∀ x ∈ ms, MemberOK x
  | .changeset id ca cl nc ncm uid user bl tr tags _ => CsOK id ca cl nc ncm uid user bl tr tags

/-- **`opl_decode_spec`, line level.**  For EVERY choice vector of the specification renderer —
    any attribute order (`order`), any separators (space, TAB, two spaces, space + TAB), attributes with
    default values omitted or not, each of the three escape styles, padded coordinates or not — the
    rendered line of an object of the domain is read back by `opl_parse_line` as that object
    (changeset discussions are not part of the format), contains no LF / CR / NUL, and is not empty. -/
theorem renderLine_parse (ch : OplSpec.Choices) (obj : Object) (h : SpecObjOK obj) :
    parseLine {} (OplSpec.renderLine ch obj) = .ok (some (project { locationsOnWays := true } obj)) ∧
    (∀ b ∈ OplSpec.renderLine ch obj, b ≠ 0x0a ∧ b ≠ 0x0d ∧ b ≠ 0) ∧ OplSpec.renderLine ch obj ≠ [] := by
  cases obj with
  | node m l =>
    obtain ⟨h1, h2⟩ := renderLine_node ch m l h.1 h.2
    refine ⟨by simpa only [project, projectMeta_all] using h1, h2, ?_⟩
    rw [renderLine_node_eq]; simp
  | way m ns =>
    obtain ⟨h1, h2⟩ := renderLine_way ch m ns h.1 h.2
    refine ⟨by simpa only [project, projectMeta_all, if_true] using h1, h2, ?_⟩
    rw [renderLine_way_eq]; simp
  | relation m ms =>
    obtain ⟨h1, h2⟩ := renderLine_relation ch m ms h.1 h.2
    refine ⟨by simpa only [project, projectMeta_all] using h1, h2, ?_⟩
    rw [renderLine_relation_eq]; simp
  | changeset id ca cl nc ncm uid user bl tr tags cs =>
    obtain ⟨h1, h2⟩ := renderLine_changeset ch id ca cl nc ncm uid user bl tr tags cs h
    refine ⟨by simpa only [project] using h1, h2, ?_⟩
    rw [renderLine_cs_eq]; simp

/-- non-vacuity: objects of the domain (negative id, default and non-default attributes, a tag with
    empty key and value, undefined and valid locations, an anonymous changeset) -/
example : SpecObjOK (.node { id := -7, version := 3, visible := false, user := [0x61, 0x20], tags := [⟨[], []⟩, ⟨[0x6b], [0x3d]⟩] }
    ⟨1800000000, -1⟩) :=
  ⟨⟨by decide, by decide, by decide, by decide, by decide, by decide, by decide +kernel,
    by intro t ht; simp only [List.mem_cons, List.not_mem_nil, or_false] at ht
       rcases ht with rfl | rfl <;> exact ⟨by decide +kernel, by decide +kernel⟩⟩,
   Or.inr (by decide)⟩

example : SpecObjOK (.way { id := 1 } [⟨5, Location.undefined⟩, ⟨-6, ⟨0, 0⟩⟩]) :=
  ⟨⟨by decide, by decide, by decide, by decide, by decide, by decide, by decide +kernel, by intro t ht; cases ht⟩,
   by intro n hn; simp only [List.mem_cons, List.not_mem_nil, or_false] at hn
      rcases hn with rfl | rfl
      · exact ⟨by decide, by decide, Or.inl rfl⟩
      · exact ⟨by decide, by decide, Or.inr (by decide)⟩⟩

example : SpecObjOK (.changeset 4294967295 0 5 0 2 0 [] Location.undefined ⟨1, 2⟩ [] [⟨1, 2, [0x41], [0x42]⟩]) :=
  ⟨by decide, by decide, by decide, by decide, by decide, by decide, by decide, by decide +kernel, Or.inl rfl,
   Or.inr (by decide), by intro t ht; cases ht⟩

end Osmium.OplFmt
