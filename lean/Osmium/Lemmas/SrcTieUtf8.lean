/-
`src_tie_*` lemmas for `osmium::io::detail::utf8_sequence_length` and `next_utf8_codepoint(char const**, const char*)`
(io/detail/string_util.hpp), TRANSLATED by tools/cxx2lean.py (`Src.StringUtil.…`; the `switch` over the sequence length
becomes an `if` chain, `std::distance` a pointer difference, the `reinterpret_cast`s to `const uint8_t*` unsigned reads),
against the model `Utf8.seqLen` / `Utf8.next` (Osmium/Model/Utf8.lean) of the C14 theorems.
The byte array is `s ++ 0 :: t`; `*begin` is the index `i ≤ s.length`, `end` is `s.length` (`data + strlen(data)`, what
the callers pass), the model's `bs` is `s.drop i`.
-/
import Osmium.Model.Utf8
import Osmium.Lemmas.SrcTieCoord

set_option Elab.async false
set_option linter.unusedSimpArgs false

namespace Osmium.SrcTie.Utf8T

open Osmium.Generated Osmium.CxxSem Osmium.Conv Osmium.Cursor Osmium.SrcTie.Coord
open Src.StringUtil

theorem src_tie_utf8_seqlen_table : ∀ n : Fin 256, utf8_sequence_length ((n.val : Nat) : Int) = ((Utf8.seqLen n.val : Nat) : Int) ∧
    utf8_sequence_length_defined ((n.val : Nat) : Int) = true := by decide +kernel

/-- `utf8_sequence_length` = `Utf8.seqLen` on every byte value -/
theorem src_tie_utf8_sequence_length (n : Nat) (h : n < 256) :
    utf8_sequence_length (n : Int) = ((Utf8.seqLen n : Nat) : Int) ∧ utf8_sequence_length_defined (n : Int) = true :=
  src_tie_utf8_seqlen_table ⟨n, h⟩

/-- the byte `k` positions behind the cursor, as a number -/
def bt (s : List UInt8) (i k : Nat) : Nat := (peek (s.drop (i + k))).toNat

theorem bt_lt (s : List UInt8) (i k : Nat) : bt s i k < 256 := (peek (s.drop (i + k))).toNat_lt

theorem rdU_off (s t : List UInt8) (i : Nat) (kI : Int) (h0 : 0 ≤ kI) (h : i + kI.toNat ≤ s.length) :
    rdU (s ++ 0 :: t) ((i : Int) + kI) = ((bt s i kI.toNat : Nat) : Int) := by
  have e : (i : Int) + kI = ((i + kI.toNat : Nat) : Int) := by omega
  rw [e]; exact rdU_cbuf s t _ h

theorem inB_off (s t : List UInt8) (i : Nat) (kI : Int) (h0 : 0 ≤ kI) (h : i + kI.toNat ≤ s.length) :
    inB (s ++ 0 :: t) ((i : Int) + kI) = true := by
  have e : (i : Int) + kI = ((i + kI.toNat : Nat) : Int) := by omega
  rw [e]; exact inB_cbuf s t _ h

theorem ptrOk_off (s t : List UInt8) (i : Nat) (kI : Int) (h0 : 0 ≤ kI) (h : i + kI.toNat ≤ s.length + 1) :
    ptrOk (s ++ 0 :: t) ((i : Int) + kI) = true := by
  have e : (i : Int) + kI = ((i + kI.toNat : Nat) : Int) := by omega
  rw [e]; exact ptrOk_cbuf s t _ h

/-- the model's `*(it + k)` inside the string or at its NUL -/
theorem rd_drop (s : List UInt8) (i k : Nat) (h : i + k ≤ s.length) : Utf8.rd (s.drop i) k = .ok (bt s i k) := by
  unfold Utf8.rd bt
  by_cases hk : k < (s.drop i).length
  · rw [List.getElem?_eq_getElem hk]
    have : s.drop (i + k) = (s.drop i)[k] :: s.drop (i + k + 1) := by
      rw [← List.drop_drop, List.drop_eq_getElem_cons hk, List.drop_drop, Nat.add_assoc]
    simp only [this, peek_cons]
  · have hl : (s.drop i).length = k := by rw [List.length_drop] at hk ⊢; omega
    have hnone : (s.drop i)[k]? = none := List.getElem?_eq_none (by omega)
    have hnil : s.drop (i + k) = [] := List.drop_eq_nil_of_le (by rw [List.length_drop] at hl; omega)
    simp [hnone, hl, hnil, peek]

theorem mask6 (x : Nat) : x &&& 63 = x % 64 := Nat.and_two_pow_sub_one_eq_mod x 6
theorem mask8 (x : Nat) : x &&& 255 = x % 256 := Nat.and_two_pow_sub_one_eq_mod x 8
theorem mask8' (x : Nat) : 255 &&& x = x % 256 := by rw [Nat.and_comm]; exact mask8 x
theorem mask11 (x : Nat) : x &&& 2047 = x % 2048 := Nat.and_two_pow_sub_one_eq_mod x 11
theorem mask12 (x : Nat) : x &&& 4095 = x % 4096 := Nat.and_two_pow_sub_one_eq_mod x 12
theorem mask16 (x : Nat) : x &&& 65535 = x % 65536 := Nat.and_two_pow_sub_one_eq_mod x 16
theorem mask18 (x : Nat) : x &&& 262143 = x % 262144 := Nat.and_two_pow_sub_one_eq_mod x 18
theorem mask21 (x : Nat) : x &&& 2097151 = x % 2097152 := Nat.and_two_pow_sub_one_eq_mod x 21

/-- bit arithmetic of the code-point assembly → `%`, `*` (for `omega`) -/
macro "cp_arith" : tactic => `(tactic| (
  simp only [band, shl, wrapU, Int.toNat_natCast, Int.reduceToNat, mask6, mask8, mask8', mask11, mask12, mask16, mask18, mask21,
    Nat.shiftLeft_eq, Nat.reducePow]
  omega))

theorem bt_zero (s : List UInt8) (i : Nat) : (peek (s.drop i)).toNat = bt s i 0 := by simp [bt]

theorem seqLen_le (n : Nat) : Utf8.seqLen n ≤ 4 := by
  unfold Utf8.seqLen; (repeat' split) <;> omega

/-- a model result as the outcome of the translated function (`*begin` afterwards = start + sequence length; on an
    error `*begin` is left alone) -/
def utfOut (i : Nat) : Except Utf8.Err (Nat × Nat) → Outcome Int Int
  | .ok (cp, n) => .normal ((i + n : Nat) : Int) (cp : Int)
  | .error .invalid => .thrown "std::runtime_error" (i : Int)
  | .error .incomplete => .thrown "std::out_of_range" (i : Int)
  | .error .oob => .nofuel

theorem normal_congr {σ ρ : Type} {a a' : σ} {b b' : ρ} (h1 : a = a') (h2 : b = b') :
    (Outcome.normal a b : Outcome σ ρ) = Outcome.normal a' b' := by subst h1 h2; rfl

/-- closes `Outcome.normal a b = utfOut i (.ok (cp, n))`: the cursor by `omega`, the code point by `cp_arith` -/
macro "utf_leaf" : tactic => `(tactic| (
  simp only [utfOut]
  refine normal_congr ?_ ?_
  · omega
  · first | rfl | (push_cast; cp_arith)))

theorem hcp_byte (n : Nat) (h : n < 256) : band 255 ((n : Nat) : Int) = ((n : Nat) : Int) := by
  simp only [band, Int.toNat_natCast, Int.reduceToNat, mask8', Nat.mod_eq_of_lt h]

/-- what every case of the proof starts from -/
structure Setup (s t : List UInt8) (i : Nat) : Prop where
  hi : i ≤ s.length
  hlen : (s.drop i).length = s.length - i
  h0 : Utf8.rd (s.drop i) 0 = .ok (bt s i 0)
  hseq : utf8_sequence_length ((bt s i 0 : Nat) : Int) = ((Utf8.seqLen (bt s i 0) : Nat) : Int)
  hseqd : utf8_sequence_length_defined ((bt s i 0 : Nat) : Int) = true
  hcp : band 255 ((bt s i 0 : Nat) : Int) = ((bt s i 0 : Nat) : Int)
  hin0 : inB (s ++ 0 :: t) (i : Int) = true

theorem src_tie_utf8_setup (s t : List UInt8) (i : Nat) (hi : i ≤ s.length) : Setup s t i :=
  ⟨hi, List.length_drop, rd_drop s i 0 (by omega), (src_tie_utf8_sequence_length _ (bt_lt s i 0)).1,
   (src_tie_utf8_sequence_length _ (bt_lt s i 0)).2, hcp_byte _ (bt_lt s i 0), inB_cbuf s t i hi⟩

/-- the statement of the tie -/
def Tie (s t : List UInt8) (i : Nat) : Prop :=
  next_utf8_codepoint (s ++ 0 :: t) i s.length = utfOut i (Utf8.next (s.drop i)) ∧
  next_utf8_codepoint_defined (s ++ 0 :: t) i s.length = true ∧
  Utf8.next (s.drop i) ≠ .error .oob

/-- invalid first byte -/
theorem src_tie_next_utf8_invalid (s t : List UInt8) (i : Nat) (hi : i ≤ s.length) (hL : Utf8.seqLen (bt s i 0) = 0) : Tie s t i := by
  obtain ⟨hi, hlen, h0, hseq, hseqd, hcp, hin0⟩ := src_tie_utf8_setup s t i hi
  unfold Tie Utf8.next
  simp only [h0, hL, if_true]
  refine ⟨?_, ?_, by simp⟩
  · unfold next_utf8_codepoint
    simp only [rdU_cbuf s t i hi, bt_zero, hcp, hseq, hL]
    repeat' split_ok
    all_goals rfl
  · unfold next_utf8_codepoint_defined
    simp only [rdU_cbuf s t i hi, bt_zero, hcp, hseq, hseqd, hL, hin0]
    repeat' split_ok
    all_goals simp

/-- truncated sequence: the distance check throws before any continuation byte is read -/
theorem src_tie_next_utf8_short (s t : List UInt8) (i k : Nat) (hi : i ≤ s.length) (hL : Utf8.seqLen (bt s i 0) = k) (hk : 0 < k)
    (hshort : s.length - i < k) : Tie s t i := by
  obtain ⟨hi, hlen, h0, hseq, hseqd, hcp, hin0⟩ := src_tie_utf8_setup s t i hi
  unfold Tie Utf8.next
  have hk0 : ¬ k = 0 := by omega
  simp only [h0, hL, hlen, hk0, if_false, hshort, if_true]
  refine ⟨?_, ?_, by simp⟩
  · unfold next_utf8_codepoint
    simp only [rdU_cbuf s t i hi, bt_zero, hcp, hseq, hL]
    repeat' split_ok
    all_goals rfl
  · unfold next_utf8_codepoint_defined
    simp only [rdU_cbuf s t i hi, bt_zero, hcp, hseq, hseqd, hL, hin0]
    repeat' split_ok
    all_goals simp

/-- a complete 1-byte sequence: value -/
theorem src_tie_next_utf8_len1_val (s t : List UInt8) (i : Nat) (hi : i ≤ s.length) (hL : Utf8.seqLen (bt s i 0) = 1)
    (hlong : ¬ s.length - i < 1) :
    next_utf8_codepoint (s ++ 0 :: t) i s.length = utfOut i (Utf8.next (s.drop i)) ∧ Utf8.next (s.drop i) ≠ .error .oob := by
  obtain ⟨hi, hlen, h0, hseq, hseqd, hcp, hin0⟩ := src_tie_utf8_setup s t i hi
  have hb0 := bt_lt s i 0; have hb1 := bt_lt s i 1; have hb2 := bt_lt s i 2; have hb3 := bt_lt s i 3
  unfold Utf8.next
  simp (disch := omega) only [h0, hL, hlen, Nat.reduceEqDiff, if_false, hlong, rd_drop s i, if_true]
  refine ⟨?_, by simp⟩
  unfold next_utf8_codepoint
  simp only [rdU_cbuf s t i hi, bt_zero, hcp, hseq, hL]
  repeat' split_ok
  all_goals (try simp only [Int.add_assoc, Int.reduceAdd])
  all_goals (try simp (disch := omega) only [rdU_off s t i, Int.reduceToNat])
  all_goals utf_leaf

/-- a complete 1-byte sequence: no undefined behaviour -/
theorem src_tie_next_utf8_len1_def (s t : List UInt8) (i : Nat) (hi : i ≤ s.length) (hL : Utf8.seqLen (bt s i 0) = 1)
    (hlong : ¬ s.length - i < 1) :
    next_utf8_codepoint_defined (s ++ 0 :: t) i s.length = true := by
  obtain ⟨hi, hlen, h0, hseq, hseqd, hcp, hin0⟩ := src_tie_utf8_setup s t i hi
  unfold next_utf8_codepoint_defined
  simp only [rdU_cbuf s t i hi, bt_zero, hcp, hseq, hseqd, hL, hin0]
  repeat' split_ok
  all_goals (try simp only [Int.add_assoc, Int.reduceAdd])
  all_goals (try simp (disch := omega) only [rdU_off s t i, inB_off s t i, ptrOk_off s t i, Int.reduceToNat])
  all_goals simp [shiftOk]

/-- a complete 2-byte sequence: value -/
theorem src_tie_next_utf8_len2_val (s t : List UInt8) (i : Nat) (hi : i ≤ s.length) (hL : Utf8.seqLen (bt s i 0) = 2)
    (hlong : ¬ s.length - i < 2) :
    next_utf8_codepoint (s ++ 0 :: t) i s.length = utfOut i (Utf8.next (s.drop i)) ∧ Utf8.next (s.drop i) ≠ .error .oob := by
  obtain ⟨hi, hlen, h0, hseq, hseqd, hcp, hin0⟩ := src_tie_utf8_setup s t i hi
  have hb0 := bt_lt s i 0; have hb1 := bt_lt s i 1; have hb2 := bt_lt s i 2; have hb3 := bt_lt s i 3
  unfold Utf8.next
  simp (disch := omega) only [h0, hL, hlen, Nat.reduceEqDiff, if_false, hlong, rd_drop s i, if_true]
  refine ⟨?_, by simp⟩
  unfold next_utf8_codepoint
  simp only [rdU_cbuf s t i hi, bt_zero, hcp, hseq, hL]
  repeat' split_ok
  all_goals (try simp only [Int.add_assoc, Int.reduceAdd])
  all_goals (try simp (disch := omega) only [rdU_off s t i, Int.reduceToNat])
  all_goals utf_leaf

/-- a complete 2-byte sequence: no undefined behaviour -/
theorem src_tie_next_utf8_len2_def (s t : List UInt8) (i : Nat) (hi : i ≤ s.length) (hL : Utf8.seqLen (bt s i 0) = 2)
    (hlong : ¬ s.length - i < 2) :
    next_utf8_codepoint_defined (s ++ 0 :: t) i s.length = true := by
  obtain ⟨hi, hlen, h0, hseq, hseqd, hcp, hin0⟩ := src_tie_utf8_setup s t i hi
  unfold next_utf8_codepoint_defined
  simp only [rdU_cbuf s t i hi, bt_zero, hcp, hseq, hseqd, hL, hin0]
  repeat' split_ok
  all_goals (try simp only [Int.add_assoc, Int.reduceAdd])
  all_goals (try simp (disch := omega) only [rdU_off s t i, inB_off s t i, ptrOk_off s t i, Int.reduceToNat])
  all_goals simp [shiftOk]

/-- a complete 3-byte sequence: value -/
theorem src_tie_next_utf8_len3_val (s t : List UInt8) (i : Nat) (hi : i ≤ s.length) (hL : Utf8.seqLen (bt s i 0) = 3)
    (hlong : ¬ s.length - i < 3) :
    next_utf8_codepoint (s ++ 0 :: t) i s.length = utfOut i (Utf8.next (s.drop i)) ∧ Utf8.next (s.drop i) ≠ .error .oob := by
  obtain ⟨hi, hlen, h0, hseq, hseqd, hcp, hin0⟩ := src_tie_utf8_setup s t i hi
  have hb0 := bt_lt s i 0; have hb1 := bt_lt s i 1; have hb2 := bt_lt s i 2; have hb3 := bt_lt s i 3
  unfold Utf8.next
  simp (disch := omega) only [h0, hL, hlen, Nat.reduceEqDiff, if_false, hlong, rd_drop s i, if_true]
  refine ⟨?_, by simp⟩
  unfold next_utf8_codepoint
  simp only [rdU_cbuf s t i hi, bt_zero, hcp, hseq, hL]
  repeat' split_ok
  all_goals (try simp only [Int.add_assoc, Int.reduceAdd])
  all_goals (try simp (disch := omega) only [rdU_off s t i, Int.reduceToNat])
  all_goals utf_leaf

/-- a complete 3-byte sequence: no undefined behaviour -/
theorem src_tie_next_utf8_len3_def (s t : List UInt8) (i : Nat) (hi : i ≤ s.length) (hL : Utf8.seqLen (bt s i 0) = 3)
    (hlong : ¬ s.length - i < 3) :
    next_utf8_codepoint_defined (s ++ 0 :: t) i s.length = true := by
  obtain ⟨hi, hlen, h0, hseq, hseqd, hcp, hin0⟩ := src_tie_utf8_setup s t i hi
  unfold next_utf8_codepoint_defined
  simp only [rdU_cbuf s t i hi, bt_zero, hcp, hseq, hseqd, hL, hin0]
  repeat' split_ok
  all_goals (try simp only [Int.add_assoc, Int.reduceAdd])
  all_goals (try simp (disch := omega) only [rdU_off s t i, inB_off s t i, ptrOk_off s t i, Int.reduceToNat])
  all_goals simp [shiftOk]

/-- a complete 4-byte sequence: value -/
theorem src_tie_next_utf8_len4_val (s t : List UInt8) (i : Nat) (hi : i ≤ s.length) (hL : Utf8.seqLen (bt s i 0) = 4)
    (hlong : ¬ s.length - i < 4) :
    next_utf8_codepoint (s ++ 0 :: t) i s.length = utfOut i (Utf8.next (s.drop i)) ∧ Utf8.next (s.drop i) ≠ .error .oob := by
  obtain ⟨hi, hlen, h0, hseq, hseqd, hcp, hin0⟩ := src_tie_utf8_setup s t i hi
  have hb0 := bt_lt s i 0; have hb1 := bt_lt s i 1; have hb2 := bt_lt s i 2; have hb3 := bt_lt s i 3
  unfold Utf8.next
  simp (disch := omega) only [h0, hL, hlen, Nat.reduceEqDiff, if_false, hlong, rd_drop s i, if_true]
  refine ⟨?_, by simp⟩
  unfold next_utf8_codepoint
  simp only [rdU_cbuf s t i hi, bt_zero, hcp, hseq, hL]
  repeat' split_ok
  all_goals (try simp only [Int.add_assoc, Int.reduceAdd])
  all_goals (try simp (disch := omega) only [rdU_off s t i, Int.reduceToNat])
  all_goals utf_leaf

/-- a complete 4-byte sequence: no undefined behaviour -/
theorem src_tie_next_utf8_len4_def (s t : List UInt8) (i : Nat) (hi : i ≤ s.length) (hL : Utf8.seqLen (bt s i 0) = 4)
    (hlong : ¬ s.length - i < 4) :
    next_utf8_codepoint_defined (s ++ 0 :: t) i s.length = true := by
  obtain ⟨hi, hlen, h0, hseq, hseqd, hcp, hin0⟩ := src_tie_utf8_setup s t i hi
  unfold next_utf8_codepoint_defined
  simp only [rdU_cbuf s t i hi, bt_zero, hcp, hseq, hseqd, hL, hin0]
  repeat' split_ok
  all_goals (try simp only [Int.add_assoc, Int.reduceAdd])
  all_goals (try simp (disch := omega) only [rdU_off s t i, inB_off s t i, ptrOk_off s t i, Int.reduceToNat])
  all_goals simp [shiftOk]

/-- `next_utf8_codepoint(&begin, end)` with `end = begin + strlen(begin)`: for EVERY NUL-terminated byte string and start
    position, the translated function returns what `Utf8.next` returns on the suffix (code point and length, or the
    exception: `runtime_error` for an invalid first byte, `out_of_range` for a truncated sequence), every read stays
    inside the array (continuation bytes are only read after the distance check), and the model never leaves it -/
theorem src_tie_next_utf8_codepoint_main (s t : List UInt8) (i : Nat) (hi : i ≤ s.length) : Tie s t i := by
  have hL4 := seqLen_le (bt s i 0)
  rcases (by omega : Utf8.seqLen (bt s i 0) = 0 ∨ Utf8.seqLen (bt s i 0) = 1 ∨ Utf8.seqLen (bt s i 0) = 2 ∨
      Utf8.seqLen (bt s i 0) = 3 ∨ Utf8.seqLen (bt s i 0) = 4) with hL | hL | hL | hL | hL
  · exact src_tie_next_utf8_invalid s t i hi hL
  · by_cases h : s.length - i < 1
    · exact src_tie_next_utf8_short s t i 1 hi hL (by omega) h
    · exact ⟨(src_tie_next_utf8_len1_val s t i hi hL h).1, src_tie_next_utf8_len1_def s t i hi hL h, (src_tie_next_utf8_len1_val s t i hi hL h).2⟩
  · by_cases h : s.length - i < 2
    · exact src_tie_next_utf8_short s t i 2 hi hL (by omega) h
    · exact ⟨(src_tie_next_utf8_len2_val s t i hi hL h).1, src_tie_next_utf8_len2_def s t i hi hL h, (src_tie_next_utf8_len2_val s t i hi hL h).2⟩
  · by_cases h : s.length - i < 3
    · exact src_tie_next_utf8_short s t i 3 hi hL (by omega) h
    · exact ⟨(src_tie_next_utf8_len3_val s t i hi hL h).1, src_tie_next_utf8_len3_def s t i hi hL h, (src_tie_next_utf8_len3_val s t i hi hL h).2⟩
  · by_cases h : s.length - i < 4
    · exact src_tie_next_utf8_short s t i 4 hi hL (by omega) h
    · exact ⟨(src_tie_next_utf8_len4_val s t i hi hL h).1, src_tie_next_utf8_len4_def s t i hi hL h, (src_tie_next_utf8_len4_val s t i hi hL h).2⟩

end Osmium.SrcTie.Utf8T
