/-
NodeLocationsForWays::clear() (property C12, outside the Laws: "After this you can not use the storage
container any more"): what the nine index implementations answer after `clear()`, and what `way()` then
writes.  Model: Osmium/Model/IndexMap.lean; the handler invariant and the stream theorem are in
Osmium/Lemmas/IndexMap.lean (section nlfw).
-/
import Osmium.Lemmas.IndexMap

set_option linter.unusedSectionVars false
namespace Osmium.IndexMap
section clearlaw
variable {V : Type} [DecidableEq V]

/-- after `clear()` — and the sort step `way()` may still do — every lookup answers "not found" -/
def ClearLaw (I : Impl V) (e : V) : Prop :=
  ∀ m id, I.getNoexcept (I.clear m) id = e ∧ I.getNoexcept (I.sort (I.clear m)) id = e

theorem lbSearch_zero (p : Nat → Bool) (first : Nat) : lbSearch p first 0 = first := by
  unfold lbSearch; simp

theorem Sparse.getN_zero (a : Array (Nat × V)) (id : Nat) : Sparse.getN a 0 id = none := by
  simp [Sparse.getN, lbSearch_zero]

theorem dense_clearLaw (vinit e : V) : ClearLaw (denseImpl vinit e) e := by
  intro m id; simp [denseImpl, Dense.getNoexcept]

theorem mdense_clearLaw (g : Grow V) (inc : Nat) (e : V) : ClearLaw (mdenseImpl g inc e) e := by
  intro m id; simp [mdenseImpl, MDense.getNoexcept]

theorem sparse_clearLaw (bs : Nat) (e : V) : ClearLaw (sparseImpl bs e) e := by
  intro m id
  simp [sparseImpl, Sparse.getNoexceptN, Sparse.getN_zero, Sparse.sort]

theorem msparse_clearLaw (g : Grow (Nat × V)) (inc bs : Nat) (e : V) (pe : Nat × V) :
    ClearLaw (msparseImpl g inc bs e pe) e := by
  intro m id
  simp [msparseImpl, Sparse.getNoexceptN, Sparse.getN_zero, MSparse.sort]

theorem stdmap_clearLaw (e : V) : ClearLaw (stdMapImpl e) e := by
  intro m id; simp [stdMapImpl]

theorem flex_clearLaw (P : FlexParams) (e : V) : ClearLaw (flexImpl P e) e := by
  intro m id
  simp [flexImpl, Flex.getNoexcept, Flex.sort, Sparse.getNoexceptN, Sparse.getN_zero, Sparse.sort]

theorem dummy_clearLaw (e : V) : ClearLaw (dummyImpl e) e := by
  intro m id; simp [dummyImpl]

end clearlaw

section
variable {V : Type} {Ip In : Impl V} {e : V}
theorem NLFW.clear_way (hp : ClearLaw Ip e) (hn : ClearLaw In e) (ok : V → Bool) (s : NLFW Ip In)
    (refs : List (NRef V)) :
    (s.clear.way ok refs).2 =
      (refs.map (fun r => (r.1, e)), !s.ignoreErrors && (!refs.isEmpty && !ok e)) := by
  have hl : ∀ r : Int, s.clear.prepare.getNodeLocation r = e := by
    intro r
    unfold NLFW.getNodeLocation NLFW.prepare NLFW.clear
    by_cases hms : s.mustSort = true <;> by_cases hr : r ≥ 0 <;>
      simp [hms, hr, (hp s.pos _).1, (hp s.pos _).2, (hn s.neg _).1, (hn s.neg _).2]
  have hi : s.clear.prepare.ignoreErrors = s.ignoreErrors := by
    unfold NLFW.prepare NLFW.clear; split <;> rfl
  simp only [NLFW.way, NLFW.wayLoop_eq, hl, hi, Bool.false_or]
  congr 2
  cases refs <;> simp
end
end Osmium.IndexMap
