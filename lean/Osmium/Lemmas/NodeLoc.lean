/-
NodeLocationsForWays::clear() (property C12, outside the Laws: "After this you can not use the storage
container any more"): what the nine index implementations answer after `clear()`, and what `way()` then
writes.  Model: Osmium/Model/IndexMap.lean; the handler invariant and the stream theorem are in
Osmium/Lemmas/IndexMap.lean (section nlfw).
-/
import Osmium.Lemmas.IndexMap

set_option linter.unusedSectionVars false
namespace Osmium.IndexMap
section clearlaw
variable {V : Type} [DecidableEq V]

/-- after `clear()` — and the sort step `way()` may still do — every lookup answers "not found" -/
def ClearLaw (I : Impl V) (e : V) : Prop :=
  ∀ m id, I.getNoexcept (I.clear m) id = e ∧ I.getNoexcept (I.sort (I.clear m)) id = e

theorem lbSearch_zero (p : Nat → Bool) (first : Nat) : lbSearch p first 0 = first := by
  unfold lbSearch; simp

theorem Sparse.getN_zero (a : Array (Nat × V)) (id : Nat) : Sparse.getN a 0 id = none := by
  simp [Sparse.getN, lbSearch_zero]

theorem dense_clearLaw (vinit e : V) : ClearLaw (denseImpl vinit e) e := by
  intro m id; simp [denseImpl, Dense.getNoexcept]

theorem mdense_clearLaw (g : Grow V) (inc : Nat) (e : V) : ClearLaw (mdenseImpl g inc e) e := by
  intro m id; simp [mdenseImpl, MDense.getNoexcept]

theorem sparse_clearLaw (bs : Nat) (e : V) : ClearLaw (sparseImpl bs e) e := by
  intro m id
  simp [sparseImpl, Sparse.getNoexceptN, Sparse.getN_zero, Sparse.sort]

theorem msparse_clearLaw (g : Grow (Nat × V)) (inc bs : Nat) (e : V) (pe : Nat × V) :
    ClearLaw (msparseImpl g inc bs e pe) e := by
  intro m id
  simp [msparseImpl, Sparse.getNoexceptN, Sparse.getN_zero, MSparse.sort]

theorem stdmap_clearLaw (e : V) : ClearLaw (stdMapImpl e) e := by
  intro m id; simp [stdMapImpl]

theorem flex_clearLaw (P : FlexParams) (e : V) : ClearLaw (flexImpl P e) e := by
  intro m id
  simp [flexImpl, Flex.getNoexcept, Flex.sort, Sparse.getNoexceptN, Sparse.getN_zero, Sparse.sort]

theorem dummy_clearLaw (e : V) : ClearLaw (dummyImpl e) e := by
  intro m id; simp [dummyImpl]

end clearlaw

section
variable {V : Type} {Ip In : Impl V} {e : V}
theorem NLFW.clear_way (hp : ClearLaw Ip e) (hn : ClearLaw In e) (ok : V → Bool) (s : NLFW Ip In)
    (refs : List (NRef V)) :
    (s.clear.way ok refs).2 =
      (refs.map (fun r => (r.1, e)), !s.ignoreErrors && (!refs.isEmpty && !ok e)) := by
  have hl : ∀ r : Int, s.clear.prepare.getNodeLocation r = e := by
    intro r
    unfold NLFW.getNodeLocation NLFW.prepare NLFW.clear
    by_cases hms : s.mustSort = true <;> by_cases hr : r ≥ 0 <;>
      simp [hms, hr, (hp s.pos _).1, (hp s.pos _).2, (hn s.neg _).1, (hn s.neg _).2]
  have hi : s.clear.prepare.ignoreErrors = s.ignoreErrors := by
    unfold NLFW.prepare NLFW.clear; split <;> rfl
  simp only [NLFW.way, NLFW.wayLoop_eq, hl, hi, Bool.false_or]
  congr 2
  cases refs <;> simp
end
/-! ### nodes that arrive AFTER a way (seed C12-7): the handler invariant along whole event streams -/
section interleave
variable {V : Type} {Ip In : Impl V} {e : V}

/-- the nodes of the current handler life after the events `evs` (newest first), starting from `ns` -/
def lifeNodes : List (Int × V) → List (Ev V) → List (Int × V)
  | ns, [] => ns
  | ns, .node id loc :: rest => lifeNodes ((id, loc) :: ns) rest
  | _, .fresh :: rest => lifeNodes [] rest
  | ns, _ :: rest => lifeNodes ns rest

/-- the `ignore_errors` setting after the events -/
def ignAfter : Bool → List (Ev V) → Bool
  | ign, [] => ign
  | _, .ignoreErrors :: rest => ignAfter true rest
  | ign, _ :: rest => ignAfter ign rest

/-- The invariant of the `m_must_sort` / `m_last_id` state machine holds after EVERY prefix of EVERY stream in the
    domain — nodes, ways, more nodes, more ways, in any order: whenever `m_must_sort` is false both indexes are
    ready for lookups and no node seen in this handler life has |id| above `m_last_id`. -/
theorem NInv.run_state {Lp : Laws Ip e} {Ln : Laws In e} (ok : V → Bool) (ign0 : Bool) :
    ∀ (evs : List (Ev V)) (c : RunSt Ip In) (ign : Bool) (ns : List (Int × V)), NInv Lp Ln ign c.h ns →
      EvsOk e ns evs →
      NInv Lp Ln (ignAfter ign evs) (NLFW.run ok (NLFW.init Ip In ign0) c evs).1.h (lifeNodes ns evs) := by
  intro evs
  induction evs with
  | nil => intro c ign ns hi _; simpa [NLFW.run, lifeNodes, ignAfter] using hi
  | cons ev rest ih =>
    intro c ign ns hi hok
    cases ev with
    | node id loc =>
      simp only [NLFW.run, lifeNodes, ignAfter]
      exact ih _ _ _ (hi.node id loc (EvsOk.nodesOk (ns := (id, loc) :: ns) hok)) hok
    | way refs =>
      have hok' : EvsOk e ns rest := hok
      simp only [NLFW.run, lifeNodes, ignAfter]
      exact ih _ ign ns (hi.way hok'.nodesOk ok refs).1 hok'
    | again k =>
      have hok' : EvsOk e ns rest := hok
      simp only [NLFW.run, lifeNodes, ignAfter]
      exact ih _ ign ns (hi.way hok'.nodesOk ok (c.ways.getD k [])).1 hok'
    | ignoreErrors =>
      have hok' : EvsOk e ns rest := hok
      simp only [NLFW.run, lifeNodes, ignAfter]
      exact ih _ _ _ hi.setIgnoreErrors hok'
    | clear => exact absurd hok (by simp [EvsOk])
    | fresh =>
      have hok' : EvsOk e [] rest := hok.2
      simp only [NLFW.run, lifeNodes, ignAfter]
      have hf : NInv Lp Ln ign ({ NLFW.init Ip In ign0 with ignoreErrors := c.h.ignoreErrors }) [] := by
        have := NInv.init Lp Ln ign
        rw [← hi.ign_eq] at this ⊢
        exact this
      exact ih _ _ _ hf hok'

/-- a batch of nodes as events -/
def nodeEvs (ns : List (Int × V)) : List (Ev V) := ns.map fun p => Ev.node p.1 p.2

theorem evsOk_nodeEvs : ∀ (b : List (Int × V)) (ns : List (Int × V)) (rest : List (Ev V)),
    EvsOk e ns (nodeEvs b ++ rest) ↔ EvsOk e (b.reverse ++ ns) rest := by
  intro b
  induction b with
  | nil => intro ns rest; simp [nodeEvs]
  | cons p t ih =>
    intro ns rest
    have := ih (p :: ns) rest
    simp only [nodeEvs, List.map_cons, List.cons_append, EvsOk, List.reverse_cons, List.append_assoc] at this ⊢
    exact this

theorem specRun_nodeEvs (ok : V → Bool) : ∀ (b : List (Int × V)) (ign : Bool) (ns : List (Int × V))
    (ws : List (List Int)) (rest : List (Ev V)),
    specRun ok e ign ns ws (nodeEvs b ++ rest) = specRun ok e ign (b.reverse ++ ns) ws rest := by
  intro b
  induction b with
  | nil => intro ign ns ws rest; simp [nodeEvs]
  | cons p t ih =>
    intro ign ns ws rest
    have := ih ign (p :: ns) ws rest
    simp only [nodeEvs, List.map_cons, List.cons_append, specRun, List.reverse_cons, List.append_assoc] at this ⊢
    exact this

end interleave

end Osmium.IndexMap
