/-
Lemmas about the PBF writer/decoder models: scalar conversions, commutation of the `switch` steps,
unknown fields, framing.
-/
import Osmium.Model.Pbf
import Osmium.Lemmas.PbfBase

namespace Osmium.Pbf

open Osmium.Wire Osmium.PbfMsg Osmium.Osm
open Osmium.StringTable (lookup)

/-! ### scalar round trips -/

theorem u64_lt (x : Int) : u64 x < 2 ^ 64 := by
  unfold u64
  have : x % (2:Int) ^ 64 < (2:Int) ^ 64 := Int.emod_lt_of_pos _ (by simp)
  have h0 : 0 ≤ x % (2:Int) ^ 64 := Int.emod_nonneg _ (by simp)
  simp only [Int.reducePow] at *
  omega

theorem u64_nat (n : Nat) (h : n < 2 ^ 64) : u64 (n : Int) = n := by
  unfold u64
  simp only [Int.reducePow] at *
  omega

theorem toInt32_small (n : Nat) (h : n < 2 ^ 31) : toInt32 n = (n : Int) := by
  unfold toInt32
  simp only [Nat.reducePow] at *
  have : n % 4294967296 = n := Nat.mod_eq_of_lt (by omega)
  simp [this] <;> omega

theorem toInt64_small (n : Nat) (h : n < 2 ^ 63) : toInt64 n = (n : Int) := by
  unfold toInt64
  simp only [Nat.reducePow] at *
  have : n % 18446744073709551616 = n := Nat.mod_eq_of_lt (by omega)
  simp [this] <;> omega

/-- int32 field: `add_int32(static_cast<int32_t>(v))` then `get_int32()` for v < 2^31 -/
theorem int32_field (v : Nat) (h : v < 2 ^ 31) : toInt32 (u64 (toInt32 v)) = (v : Int) := by
  rw [toInt32_small v h, u64_nat v (by simp only [Nat.reducePow] at *; omega), toInt32_small v h]

/-- int64 field: `add_int64(uint32 value)` then `get_int64()` -/
theorem int64_field (v : Nat) (h : v < 2 ^ 32) : toInt64 (u64 (v : Int)) = (v : Int) := by
  rw [u64_nat v (by simp only [Nat.reducePow] at *; omega), toInt64_small v (by simp only [Nat.reducePow] at *; omega)]

theorem versionOf_nat (v : Nat) : versionOf (v : Int) = some v := by
  unfold versionOf
  have h1 : ¬ ((v : Int) < -1) := by omega
  have h2 : ((v : Int) == -1) = false := by simp <;> omega
  simp [h1, h2]

theorem changesetOf_nat (c : Nat) (h : c < 2 ^ 32) : changesetOf (c : Int) = some c := by
  unfold changesetOf
  simp only [Nat.reducePow, Int.reducePow] at *
  have h1 : ¬ ((c : Int) < -1) := by omega
  have h2 : ¬ ((c : Int) > 4294967296 - 1) := by omega
  have h3 : ((c : Int) == -1) = false := by simp <;> omega
  simp [h1, h3]; omega

/-- since fix 04636d9 the largest uint32 changeset id is accepted -/
theorem changesetOf_uint32_max : changesetOf (toInt64 (u64 (4294967295 : Int))) = some 4294967295 := by
  decide

theorem uidOf_nat (u : Nat) : uidOf (u : Int) = u := by
  unfold uidOf
  have : ¬ ((u : Int) < 0) := by omega
  simp [this]

/-- timestamps in seconds with the default date_granularity -/
theorem convTimestamp_default (t : Nat) (h : t < 2 ^ 32) : convTimestamp 1000 (t : Int) = t := by
  unfold convTimestamp wrap64
  have hr : Delta.swrap 64 ((t : Int) * 1000) = (t : Int) * 1000 :=
    Delta.swrap64_id _ (by simp only [Nat.reducePow, Int.reducePow] at *; omega) (by simp only [Nat.reducePow, Int.reducePow] at *; omega)
  rw [hr]
  have : ((t : Int) * 1000).tdiv 1000 = (t : Int) := by
    rw [Int.tdiv_eq_ediv_of_nonneg (by omega)]; omega
  rw [this, u64_nat t (by simp only [Nat.reducePow] at *; omega)]
  exact Nat.mod_eq_of_lt h

/-! ### unknown fields: every `switch` has `default: skip()` -/

/-- the (tag, wire type) pairs `decode_info` knows -/
def infoKnown (f : Field) : Bool :=
  f.wt == .varint && (f.tag == 1 || f.tag == 2 || f.tag == 3 || f.tag == 4 || f.tag == 5 || f.tag == 6)

theorem infoStep_unknown (p : Params) (s : InfoAcc × Bytes) (f : Field) (h : infoKnown f = false) :
    infoStep p s f = some s := by
  obtain ⟨tag, wt, val, payload⟩ := f
  unfold infoStep
  simp only [infoKnown] at h
  split <;> simp_all

def bboxKnown (f : Field) : Bool :=
  f.wt == .varint && (f.tag == 1 || f.tag == 2 || f.tag == 3 || f.tag == 4)

theorem bboxStep_unknown (s : BBoxAcc) (f : Field) (h : bboxKnown f = false) : bboxStep s f = some s := by
  obtain ⟨tag, wt, val, payload⟩ := f
  unfold bboxStep
  simp only [bboxKnown] at h
  split <;> simp_all

def denseInfoKnown (f : Field) : Bool :=
  f.wt == .lengthDelimited && (f.tag == 1 || f.tag == 2 || f.tag == 3 || f.tag == 4 || f.tag == 5 || f.tag == 6)

theorem denseInfoStep_unknown (s : DenseAcc) (f : Field) (h : denseInfoKnown f = false) : denseInfoStep s f = some s := by
  obtain ⟨tag, wt, val, payload⟩ := f
  unfold denseInfoStep
  simp only [denseInfoKnown] at h
  split <;> simp_all

def blockMetaKnown (f : Field) : Bool :=
  (f.wt == .lengthDelimited && f.tag == 1) || (f.wt == .varint && (f.tag == 17 || f.tag == 18 || f.tag == 19 || f.tag == 20))

theorem blockMetaStep_unknown (p : Params) (f : Field) (h : blockMetaKnown f = false) : blockMetaStep p f = some p := by
  obtain ⟨tag, wt, val, payload⟩ := f
  unfold blockMetaStep
  simp only [blockMetaKnown] at h
  split <;> simp_all

def nodeKnown (f : Field) : Bool :=
  (f.wt == .varint && (f.tag == 1 || f.tag == 8 || f.tag == 9)) || (f.wt == .lengthDelimited && (f.tag == 2 || f.tag == 3 || f.tag == 4))

theorem metaStep_unknown (p : Params) (r : ROpts) (s : ObjAcc) (f : Field)
    (h : (f.wt == .lengthDelimited && (f.tag == 2 || f.tag == 3 || f.tag == 4)) = false) : metaStep p r s f = some s := by
  obtain ⟨tag, wt, val, payload⟩ := f
  unfold metaStep
  split <;> simp_all

theorem nodeStep_unknown (p : Params) (r : ROpts) (s : ObjAcc) (f : Field) (h : nodeKnown f = false) :
    nodeStep p r s f = some s := by
  obtain ⟨tag, wt, val, payload⟩ := f
  unfold nodeStep
  simp only [nodeKnown] at h
  split
  · simp_all
  · simp_all
  · simp_all
  · apply metaStep_unknown; simp_all

def wayKnown (f : Field) : Bool :=
  (f.wt == .varint && f.tag == 1) || (f.wt == .lengthDelimited && (f.tag == 2 || f.tag == 3 || f.tag == 4 || f.tag == 8 || f.tag == 9 || f.tag == 10))

theorem wayStep_unknown (p : Params) (r : ROpts) (s : ObjAcc) (f : Field) (h : wayKnown f = false) :
    wayStep p r s f = some s := by
  obtain ⟨tag, wt, val, payload⟩ := f
  unfold wayStep
  simp only [wayKnown] at h
  split
  · simp_all
  · simp_all
  · simp_all
  · simp_all
  · apply metaStep_unknown; simp_all

theorem relationStep_unknown (p : Params) (r : ROpts) (s : ObjAcc) (f : Field) (h : wayKnown f = false) :
    relationStep p r s f = some s := by
  obtain ⟨tag, wt, val, payload⟩ := f
  unfold relationStep
  simp only [wayKnown] at h
  split
  · simp_all
  · simp_all
  · simp_all
  · simp_all
  · apply metaStep_unknown; simp_all

/-! ### commutation of the steps for different (tag, wire type) -/

theorem bboxStep_commutes : CommutesOn bboxStep (fun _ => True) := by
  intro s f g _ _ hk
  obtain ⟨t1, w1, v1, p1⟩ := f
  obtain ⟨t2, w2, v2, p2⟩ := g
  simp only [key, ne_eq, Prod.mk.injEq, not_and] at hk
  unfold bboxStep
  split <;> split <;> simp_all

theorem denseInfoStep_commutes : CommutesOn denseInfoStep (fun _ => True) := by
  intro s f g _ _ hk
  obtain ⟨t1, w1, v1, p1⟩ := f
  obtain ⟨t2, w2, v2, p2⟩ := g
  simp only [key, ne_eq, Prod.mk.injEq, not_and] at hk
  unfold denseInfoStep
  split <;> split <;> simp_all

theorem option_bind_comm {α β γ : Type} (a : Option α) (b : Option β) (f : α → β → Option γ) :
    (a.bind fun x => b.bind fun y => f x y) = (b.bind fun y => a.bind fun x => f x y) := by
  cases a <;> cases b <;> rfl

theorem infoStep_commutes (p : Params) : CommutesOn (infoStep p) (fun _ => True) := by
  intro s f g _ _ hk
  obtain ⟨t1, w1, v1, p1⟩ := f
  obtain ⟨t2, w2, v2, p2⟩ := g
  simp only [key, ne_eq, Prod.mk.injEq, not_and] at hk
  unfold infoStep
  split <;> split <;> (try (simp_all; done)) <;>
    (simp only [Option.map_eq_bind, Option.bind_assoc, Function.comp_def, Option.bind_some] <;>
     (first | rfl | exact option_bind_comm _ _ _))

/-! ### framing -/

theorem rdBe32_be32 (n : Nat) (h : n < 2 ^ 32) (rest : Bytes) : rdBe32 (be32 n ++ rest) = n := by
  simp only [be32, List.cons_append, List.nil_append, rdBe32]
  have e1 : (UInt8.ofNat (n / 2 ^ 24 % 256)).toNat = n / 2 ^ 24 % 256 := uint8_ofNat_toNat _ (Nat.mod_lt _ (by decide))
  have e2 : (UInt8.ofNat (n / 2 ^ 16 % 256)).toNat = n / 2 ^ 16 % 256 := uint8_ofNat_toNat _ (Nat.mod_lt _ (by decide))
  have e3 : (UInt8.ofNat (n / 2 ^ 8 % 256)).toNat = n / 2 ^ 8 % 256 := uint8_ofNat_toNat _ (Nat.mod_lt _ (by decide))
  have e4 : (UInt8.ofNat (n % 256)).toNat = n % 256 := uint8_ofNat_toNat _ (Nat.mod_lt _ (by decide))
  rw [e1, e2, e3, e4]
  simp only [Nat.reducePow] at *
  omega

end Osmium.Pbf
