/-
Round-trip lemmas for the protobuf wire level (shared by C01/C02/C03/C06 models).
-/
import Osmium.Model.Wire

namespace Osmium.Wire

theorem uint8_ofNat_toNat (n : Nat) (h : n < 256) : (UInt8.ofNat n).toNat = n := by
  simp [UInt8.toNat_ofNat, Nat.mod_eq_of_lt h]

/-- decoding what `encodeVarintGo` wrote, from byte index `i` with accumulator `acc` -/
theorem decode_encode_go : ∀ (fuel v i acc : Nat) (rest : Bytes), i ≤ 9 → v * 2 ^ (7 * i) < 2 ^ 64 →
    v < 128 ^ (fuel + 1) →
    decodeVarintGo (encodeVarintGo fuel v ++ rest) i acc = .ok (acc + v * 2 ^ (7 * i), rest)
  | 0, v, i, acc, rest, hi, hv, hf => by
    have hv128 : v < 128 := by simpa using hf
    have hm : v % 128 = v := Nat.mod_eq_of_lt hv128
    have hb : (UInt8.ofNat (v % 128)).toNat = v := by
      rw [uint8_ofNat_toNat _ (by omega)]; omega
    generalize UInt8.ofNat (v % 128) = b at hb
    simp only [encodeVarintGo, List.cons_append, List.nil_append, decodeVarintGo, hb, hv128, ↓reduceIte]
    by_cases h9 : i = 9
    · subst h9
      have h2 : v < 2 := by omega
      have : v % 2 = v := Nat.mod_eq_of_lt h2
      simp [this]
      omega
    · have : (i == 9) = false := by simp [h9]
      simp [this, hm]
      intro h; omega
  | fuel + 1, v, i, acc, rest, hi, hv, hf => by
    by_cases hv128 : v < 128
    · have hm : v % 128 = v := Nat.mod_eq_of_lt hv128
      have hb : (UInt8.ofNat v).toNat = v := uint8_ofNat_toNat _ (by omega)
      generalize UInt8.ofNat v = b at hb
      simp only [encodeVarintGo, hv128, ↓reduceIte, List.cons_append, List.nil_append, decodeVarintGo, hb]
      by_cases h9 : i = 9
      · subst h9
        have h2 : v < 2 := by omega
        have : v % 2 = v := Nat.mod_eq_of_lt h2
        simp [this]
        omega
      · have : (i == 9) = false := by simp [h9]
        simp [this, hm]
        intro h; omega
    · have hb : (UInt8.ofNat (v % 128 + 128)).toNat = v % 128 + 128 := uint8_ofNat_toNat _ (by omega)
      have hi8 : i ≤ 8 := by
        have : i = 0 ∨ i = 1 ∨ i = 2 ∨ i = 3 ∨ i = 4 ∨ i = 5 ∨ i = 6 ∨ i = 7 ∨ i = 8 ∨ i = 9 := by omega
        rcases this with h | h | h | h | h | h | h | h | h | h <;> subst h <;> omega
      have hn9 : (i == 9) = false := by simp; omega
      have hlt : ¬ (v % 128 + 128 < 128) := by omega
      have hge : ¬ (i ≥ 9) := by omega
      simp only [encodeVarintGo, hv128, ↓reduceIte, List.cons_append, decodeVarintGo, hb, hn9, hlt, hge,
        Bool.false_eq_true]
      have hp : 2 ^ (7 * (i + 1)) = 128 * 2 ^ (7 * i) := by
        rw [show 7 * (i + 1) = 7 * i + 7 by omega, Nat.pow_add]; omega
      have hv' : v / 128 * 2 ^ (7 * (i + 1)) < 2 ^ 64 := by
        rw [hp]
        have : v / 128 * (128 * 2 ^ (7 * i)) ≤ v * 2 ^ (7 * i) := by
          rw [← Nat.mul_assoc]
          exact Nat.mul_le_mul_right _ (Nat.div_mul_le_self v 128)
        omega
      have hf' : v / 128 < 128 ^ (fuel + 1) := by
        rw [Nat.div_lt_iff_lt_mul (by omega)]
        rw [show 128 ^ (fuel + 1 + 1) = 128 ^ (fuel + 1) * 128 by rw [Nat.pow_succ]] at hf
        exact hf
      rw [decode_encode_go fuel (v / 128) (i + 1) _ rest (by omega) hv' hf', hp]
      congr 2
      have h1 : (v % 128 + 128) % 128 = v % 128 := by omega
      rw [h1]
      have h2 : v / 128 * (128 * 2 ^ (7 * i)) = (128 * (v / 128)) * 2 ^ (7 * i) := by
        rw [← Nat.mul_assoc, Nat.mul_comm (v / 128) 128]
      rw [h2, Nat.add_assoc, ← Nat.add_mul]
      congr 2
      omega

/-- `decode_varint (write_varint v) = v` for every uint64, with any bytes following. -/
theorem decodeVarint_encodeVarint (v : Nat) (hv : v < 2 ^ 64) (rest : Bytes) :
    decodeVarint (encodeVarint v ++ rest) = .ok (v, rest) := by
  have h := decode_encode_go 10 v 0 0 rest (by omega) (by simpa using hv)
    (by have : (2:Nat) ^ 64 < 128 ^ 11 := by decide
        omega)
  simpa [decodeVarint, encodeVarint, Nat.mod_eq_of_lt hv] using h

theorem unzigzag_zigzag (x : Int) : unzigzag64 (zigzag64 x) = x := by
  unfold zigzag64 unzigzag64
  by_cases h : x ≥ 0
  · simp only [h, ↓reduceIte]
    have : (2 * x).toNat % 2 = 0 := by omega
    simp [this]; omega
  · simp only [h, ↓reduceIte]
    have : (-2 * x - 1).toNat % 2 = 1 := by omega
    simp [this]; omega

theorem zigzag_lt (x : Int) (h1 : -(2 : Int) ^ 63 ≤ x) (h2 : x < (2 : Int) ^ 63) : zigzag64 x < 2 ^ 64 := by
  unfold zigzag64
  split <;> omega

/-- a field written by the writer is read back unchanged, whatever follows -/
theorem readField_encodeField (f : Field) (hf : f.WF) (rest : Bytes) :
    readField (encodeField f ++ rest) = .ok (f, rest) := by
  obtain ⟨tag, wt, val, payload⟩ := f
  obtain ⟨h0, h29, h19, hw⟩ := hf
  simp only at h0 h29 h19 hw
  have hkey : tag * 8 + wt.code < 2 ^ 64 := by
    cases wt <;> simp [WireType.code] <;> omega
  have hk32 : (tag * 8 + wt.code) % 2 ^ 32 = tag * 8 + wt.code := by
    apply Nat.mod_eq_of_lt
    cases wt <;> simp [WireType.code] <;> omega
  have htag : (tag * 8 + wt.code) / 8 = tag := by
    cases wt <;> simp [WireType.code] <;> omega
  have hwt : (tag * 8 + wt.code) % 8 = wt.code := by
    cases wt <;> simp [WireType.code] <;> omega
  have hinv : (tag == 0 || (decide (19000 ≤ tag) && decide (tag ≤ 19999))) = false := by
    simp; omega
  unfold readField encodeField
  simp only [List.append_assoc]
  rw [decodeVarint_encodeVarint _ hkey]
  simp only [bind, Except.bind, hk32, htag, hwt, hinv, Bool.false_eq_true, ↓reduceIte]
  cases wt with
  | varint =>
    obtain ⟨hv, hp⟩ := hw
    subst hp
    simp [WireType.code, decodeVarint_encodeVarint _ hv, pure, Except.pure]
  | fixed64 =>
    obtain ⟨hv, hp⟩ := hw
    subst hv
    have hlt : ¬ (8 + rest.length < 8) := by omega
    simp [WireType.code, splitAtChecked, hp, pure, Except.pure, hlt]
  | lengthDelimited =>
    obtain ⟨hv, hp⟩ := hw
    subst hv
    have : payload.length < 2 ^ 64 := by omega
    have hlt : ¬ (payload.length + rest.length < payload.length) := by omega
    simp [WireType.code, decodeVarint_encodeVarint _ this, splitAtChecked, Nat.mod_eq_of_lt hp, pure, Except.pure, hlt]
  | fixed32 =>
    obtain ⟨hv, hp⟩ := hw
    subst hv
    have hlt : ¬ (4 + rest.length < 4) := by omega
    simp [WireType.code, splitAtChecked, hp, pure, Except.pure, hlt]

theorem encodeField_ne_nil (f : Field) : encodeField f ≠ [] := by
  unfold encodeField encodeVarint encodeVarintGo
  split <;> simp

theorem readFieldsGo_encodeFields : ∀ (fs : List Field) (fuel : Nat) (acc : List Field),
    (∀ f ∈ fs, f.WF) → fs.length ≤ fuel →
    readFieldsGo fuel (encodeFields fs) acc = .ok (acc.reverse ++ fs)
  | [], fuel, acc, _, _ => by cases fuel <;> simp [encodeFields, readFieldsGo]
  | f :: fs, fuel, acc, hw, hl => by
    obtain ⟨fu, rfl⟩ : ∃ fu, fuel = fu + 1 := ⟨fuel - 1, by simp at hl; omega⟩
    have hne := encodeField_ne_nil f
    have he : encodeFields (f :: fs) = encodeField f ++ encodeFields fs := by simp [encodeFields]
    rw [he]
    cases hc : encodeField f ++ encodeFields fs with
    | nil => simp at hc; exact absurd hc.1 hne
    | cons b bs =>
      rw [← hc]
      have := readField_encodeField f (hw f (List.mem_cons_self)) (encodeFields fs)
      have ih := readFieldsGo_encodeFields fs fu (f :: acc) (fun x hx => hw x (List.mem_cons_of_mem _ hx))
        (by simp at hl; omega)
      rw [hc] at this ⊢
      simp only [readFieldsGo, this, bind, Except.bind]
      rw [ih]; simp

/-- a whole message: `while (msg.next())` over the writer's output yields the writer's fields -/
theorem readFields_encodeFields (fs : List Field) (hw : ∀ f ∈ fs, f.WF) :
    readFields (encodeFields fs) = .ok fs := by
  have hl : fs.length ≤ (encodeFields fs).length := by
    induction fs with
    | nil => simp
    | cons f fs ih =>
      have : 1 ≤ (encodeField f).length := by
        have := encodeField_ne_nil f
        cases h : encodeField f with
        | nil => exact absurd h this
        | cons _ _ => simp
      simp only [encodeFields, List.flatMap_cons, List.length_append, List.length_cons] at *
      have := ih (fun x hx => hw x (List.mem_cons_of_mem _ hx))
      omega
  simpa [readFields] using readFieldsGo_encodeFields fs _ [] hw hl

end Osmium.Wire
