/-
Queue-of-futures order (C05), part A (common helpers): the `po_cases` macro, `afterPop`/`afterClose`
projections, continuation lemmas, per-event projections of the queue machine, list facts, the
definition of invariant A and the helper lemmas of the parser-side / consumer-side equations.
(Split of PipelineOrder.lean; every name/statement/proof unchanged.)
-/
import Osmium.Lemmas.PipelineQ

namespace Osmium.Pipeline.Order

open Osmium.Mon Osmium.Pipeline

variable {α : Type} [DecidableEq α]

/-- Case split of one pipeline step over all events (queue events split into the thirteen QueueSM
    events); `q`/`hq` name the new queue state and its QueueSM step. -/
syntax "po_cases " ident " with " ident ident ident : tactic
macro_rules
  | `(tactic| po_cases $e:ident with $h:ident $q:ident $hq:ident) => `(tactic|
      ((try simp only [Machine.Step, machine] at $h:ident)
       cases $e:ident <;> (try (rename_i qe; cases qe)) <;>
         simp only [step?] at $h:ident <;> (repeat' split at $h:ident) <;>
         simp only [Option.map_eq_some_iff, Option.some.injEq, reduceCtorEq, false_and, exists_false] at $h:ident <;>
         first
           | (obtain ⟨$q:ident, $hq:ident, $h:ident⟩ := $h:ident; (try split at $h:ident) <;> subst $h:ident)
           | subst $h:ident))

/-! ## `afterPop` / `afterClose` field by field -/
section fields
omit [DecidableEq α]
variable (s : State α) (lv : List (List α)) (k : CK)

@[simp] theorem afterPop_fut : (afterPop s lv).fut = s.fut := by
  unfold afterPop; split <;> (try split) <;> rfl
@[simp] theorem afterPop_want : (afterPop s lv).want = s.want := by
  unfold afterPop; split <;> (try split) <;> rfl
@[simp] theorem afterPop_nIn : (afterPop s lv).nIn = s.nIn := by
  unfold afterPop; split <;> (try split) <;> rfl
@[simp] theorem afterPop_nOut : (afterPop s lv).nOut = s.nOut := by
  unfold afterPop; split <;> (try split) <;> rfl
@[simp] theorem afterPop_rpc : (afterPop s lv).rpc = s.rpc := by
  unfold afterPop; split <;> (try split) <;> rfl
@[simp] theorem afterPop_ppc : (afterPop s lv).ppc = s.ppc := by
  unfold afterPop; split <;> (try split) <;> rfl
@[simp] theorem afterPop_next : (afterPop s lv).next = s.next := by
  unfold afterPop; split <;> (try split) <;> rfl
@[simp] theorem afterPop_nested : (afterPop s lv).nested = s.nested := by
  unfold afterPop; split <;> (try split) <;> rfl
@[simp] theorem afterPop_cur : (afterPop s lv).cur = s.cur := by
  unfold afterPop; split <;> (try split) <;> rfl
@[simp] theorem afterPop_work : (afterPop s lv).work = s.work := by
  unfold afterPop; split <;> (try split) <;> rfl
@[simp] theorem afterPop_wpc : (afterPop s lv).wpc = s.wpc := by
  unfold afterPop; split <;> (try split) <;> rfl
@[simp] theorem afterPop_back : (afterPop s lv).back = if lv.length ≤ 1 then s.back else lv.tail := by
  unfold afterPop; split <;> (try split) <;> simp_all
  all_goals (rename_i h _; cases ‹List (List α)› <;> simp_all)
@[simp] theorem afterPop_cpc : (afterPop s lv).cpc =
    if (lv.headD []).isEmpty then .readPop else .ret (.data (lv.headD [])) := by
  unfold afterPop; split <;> (try split) <;> simp_all
@[simp] theorem afterPop_delivered : (afterPop s lv).delivered = s.delivered ++ lv.headD [] := by
  unfold afterPop; split <;> (try split) <;> simp_all

@[simp] theorem afterClose_fut : (afterClose s k).fut = s.fut := by cases k <;> rfl
@[simp] theorem afterClose_want : (afterClose s k).want = s.want := by cases k <;> rfl
@[simp] theorem afterClose_nIn : (afterClose s k).nIn = s.nIn := by cases k <;> rfl
@[simp] theorem afterClose_nOut : (afterClose s k).nOut = s.nOut := by cases k <;> rfl
@[simp] theorem afterClose_rpc : (afterClose s k).rpc = s.rpc := by cases k <;> rfl
@[simp] theorem afterClose_ppc : (afterClose s k).ppc = s.ppc := by cases k <;> rfl
@[simp] theorem afterClose_next : (afterClose s k).next = s.next := by cases k <;> rfl
@[simp] theorem afterClose_nested : (afterClose s k).nested = s.nested := by cases k <;> rfl
@[simp] theorem afterClose_cur : (afterClose s k).cur = s.cur := by cases k <;> rfl
@[simp] theorem afterClose_work : (afterClose s k).work = s.work := by cases k <;> rfl
@[simp] theorem afterClose_wpc : (afterClose s k).wpc = s.wpc := by cases k <;> rfl
@[simp] theorem afterClose_back : (afterClose s k).back = s.back := by cases k <;> rfl
@[simp] theorem afterClose_delivered : (afterClose s k).delivered = s.delivered := by cases k <;> rfl
@[simp] theorem afterClose_cpc :
    (afterClose s k).cpc = match k with | .ret => .ret .ok | .rethrow c => .ret (.exc c) | .dtor => .dtorJoinP := by
  cases k <;> rfl

end fields


/-! ## continuations -/
section conts
omit [DecidableEq α]

@[simp] theorem pCont_pushFut (k : PK) (id : Nat) (k' : PK) : (pCont k : PPc α) = .pushFut id k' ↔ False := by
  cases k <;> simp [pCont]
@[simp] theorem pCont_pushing (k : PK) (id : Nat) (ov : Option (Val α)) (k' : PK) :
    (pCont k : PPc α) = .pushing id ov k' ↔ False := by
  cases k <;> simp [pCont]
@[simp] theorem pCont_pushed (k : PK) (id : Nat) (v : Val α) (k' : PK) : (pCont k : PPc α) = .pushed id v k' ↔ False := by
  cases k <;> simp [pCont]
theorem pCont_push (k : PK) (v : Val α) (k' : PK) (h : (pCont k : PPc α) = .push v k') : v = .eod := by
  cases k <;> simp_all [pCont]
@[simp] theorem rCont_pushing (k : RK) (id : Nat) (v : Val α) (k' : RK) : (rCont k : RPc α) = .pushing id v k' ↔ False := by
  cases k <;> simp [rCont]
@[simp] theorem rCont_pushed (k : RK) (id : Nat) (v : Val α) (k' : RK) : (rCont k : RPc α) = .pushed id v k' ↔ False := by
  cases k <;> simp [rCont]
theorem rCont_push (k : RK) (v : Val α) (k' : RK) (h : (rCont k : RPc α) = .push v k') : v = .eod := by
  cases k <;> simp_all [rCont]

end conts

/-! ## per-event projections of the queue machine -/
section queue
variable {β : Type} [DecidableEq β]

def evCalled : QueueSM.Ev β → List (QueueSM.Item β)
  | .pushEnter t x => [(t, x)]
  | _ => []

def evPopped : QueueSM.Ev β → List (Tid × QueueSM.Item β)
  | .popNow t _ r | .popWake t _ r | .tryPop t _ r => r.toList.map (fun x => (t, x))
  | _ => []

theorem q_called {qc : QueueSM.Cfg} {s q : QueueSM.State β} {e : QueueSM.Ev β}
    (h : QueueSM.step? qc s e = some q) : q.called = s.called ++ evCalled e := by
  cases e <;> simp only [QueueSM.step?] at h <;> (repeat' split at h) <;>
    simp only [Option.some.injEq, reduceCtorEq] at h <;> subst h <;> simp [evCalled]

theorem q_popped {qc : QueueSM.Cfg} {s q : QueueSM.State β} {e : QueueSM.Ev β}
    (h : QueueSM.step? qc s e = some q) : q.popped = s.popped ++ evPopped e := by
  cases e <;> simp only [QueueSM.step?] at h <;> (repeat' split at h) <;>
    simp only [Option.some.injEq, reduceCtorEq] at h <;> subst h <;> simp_all [evPopped]

/-- a pop hands out the front of the queue -/
theorem q_pop_head {qc : QueueSM.Cfg} {s q : QueueSM.State β} {e : QueueSM.Ev β}
    (h : QueueSM.step? qc s e = some q) : ∀ p ∈ evPopped e, s.items.head? = some p.2 := by
  cases e <;> simp only [QueueSM.step?] at h <;> (repeat' split at h) <;>
    simp only [Option.some.injEq, reduceCtorEq] at h <;> subst h <;> simp_all [evPopped]

theorem q_pop_mem {qc : QueueSM.Cfg} {s q : QueueSM.State β} {e : QueueSM.Ev β}
    (h : QueueSM.step? qc s e = some q) : ∀ p ∈ evPopped e, p.2 ∈ s.items := by
  intro p hp
  exact List.mem_of_mem_head? (by rw [q_pop_head h p hp]; rfl)

theorem q_sdEntered {qc : QueueSM.Cfg} {s q : QueueSM.State β} {e : QueueSM.Ev β}
    (h : QueueSM.step? qc s e = some q) (u : Tid) (hu : q.pc u = .sdEntered) :
    (s.pc u = .sdEntered ∧ e.tid ≠ u) ∨ e = .sdEnter u := by
  cases e <;> simp only [QueueSM.step?] at h <;> (repeat' split at h) <;>
    simp only [Option.some.injEq, reduceCtorEq] at h <;> subst h <;>
    simp only [setPc_apply, QueueSM.take_pc, QueueSM.Ev.tid] at hu ⊢ <;> (try split at hu) <;> simp_all <;> grind

theorem q_inUse {qc : QueueSM.Cfg} {s q : QueueSM.State β} {e : QueueSM.Ev β}
    (h : QueueSM.step? qc s e = some q) :
    q.inUse = s.inUse ∨ ∃ t, e = .sdFlag t ∧ s.pc t = .sdEntered := by
  cases e <;> simp only [QueueSM.step?] at h <;> (repeat' split at h) <;>
    simp only [Option.some.injEq, reduceCtorEq] at h <;> subst h <;> simp_all

end queue

/-! ## list facts -/
section lists
omit [DecidableEq α]

theorem proj_append (c : Cfg α) (a b : List α) : proj c (a ++ b) = proj c a ++ proj c b := by
  simp [proj]

theorem proj_cons (c : Cfg α) (o : α) (l : List α) :
    proj c (o :: l) = if c.sel o then c.strip o :: proj c l else proj c l := by
  simp only [proj, List.filter_cons]; split <;> simp

theorem drop_next (c : Cfg α) (n : Nat) (o : α) (h : c.file[n]? = some o) :
    c.file.drop n = o :: c.file.drop (n + 1) := by
  obtain ⟨hn, rfl⟩ := List.getElem?_eq_some_iff.mp h
  exact List.drop_eq_getElem_cons hn

theorem seg_drop (c : Cfg α) (a b : Nat) (h : a ≤ b) : seg c a b ++ c.file.drop b = c.file.drop a := by
  have := List.take_append_drop (b - a) (c.file.drop a)
  rw [List.drop_drop] at this
  have e : a + (b - a) = b := by omega
  rw [e] at this
  exact this

theorem proj_seg_drop (c : Cfg α) (a b : Nat) (h : a ≤ b) :
    proj c (seg c a b) ++ proj c (c.file.drop b) = proj c (c.file.drop a) := by
  rw [← proj_append, seg_drop c a b h]

theorem wfLevels_snoc (n : List (List α)) (x : List α) (h : ∀ l ∈ n, l ≠ []) : wfLevels (n ++ [x]) = true := by
  induction n with
  | nil => rfl
  | cons a n ih =>
    cases n with
    | nil => simp_all [wfLevels]
    | cons b n => simp_all [wfLevels]

theorem wfLevels_head (l r : List α) (rest : List (List α)) (h : wfLevels (l :: r :: rest) = true) : l ≠ [] := by
  simp [wfLevels] at h; exact h.1

end lists


/-- `id` is an osmdata-queue future that has been created -/
def Fresh (s : State α) (id : Nat) : Prop := id % 2 = 1 ∧ id < 2 * s.nOut + 1

structure InvA (s : State α) : Prop where
  called : ∀ x ∈ s.outq.called, x.1 = tP ∧ Fresh s x.2
  pushFut : ∀ id k, s.ppc = .pushFut id k → Fresh s id
  pushing : ∀ id ov k, s.ppc = .pushing id ov k → Fresh s id ∧ ∀ v, ov = some v → s.want id = v
  pushed : ∀ id v k, s.ppc = .pushed id v k → Fresh s id ∧ s.want id = v
  work : ∀ id ∈ s.work, Fresh s id
  wpc : ∀ w id, s.wpc w = some id → Fresh s id
  rpc : ∀ id v k, (s.rpc = .pushing id v k ∨ s.rpc = .pushed id v k) → id % 2 = 0
  fut : ∀ id v, id % 2 = 1 → s.fut id = some v → v = s.want id ∧ id < 2 * s.nOut + 1
  got : ∀ id, s.cpc = .readGot id → Fresh s id

section valsLemmas
omit [DecidableEq α]
theorem flatMap_setPc (w : Nat → Val α) (id : Nat) (v : Val α) (l : List (QueueSM.Item Nat))
    (h : ∀ x ∈ l, x.2 ≠ id) :
    List.flatMap (fun x => flat (setPc w id v x.2)) l = List.flatMap (fun x => flat (w x.2)) l := by
  induction l with
  | nil => rfl
  | cons a l ih =>
    simp only [List.flatMap_cons]
    rw [ih (fun x hx => h x (List.mem_cons_of_mem _ hx)), setPc_other _ _ _ _ (h a (List.mem_cons_self))]

theorem vals_append (s : State α) (a b : List (QueueSM.Item Nat)) : vals s (a ++ b) = vals s a ++ vals s b := by
  simp [vals]
end valsLemmas


section pendLemmas
omit [DecidableEq α]
def pendOf (p : PPc α) (w : Nat → Val α) : List α :=
  match p with
  | .push v _ => flat v
  | .pushFut id _ => flat (w id)
  | _ => []

theorem pend_eq (s : State α) : pend s = pendOf s.ppc s.want := by
  cases h : s.ppc <;> simp [pend, pendOf, h]

@[simp] theorem pendOf_pCont (k : PK) (w : Nat → Val α) : pendOf (pCont k) w = [] := by
  cases k <;> simp [pendOf, pCont, flat]

theorem pendOf_setPc (p : PPc α) (w : Nat → Val α) (x : Nat) (v : Val α)
    (h : ∀ id k, p = .pushFut id k → id ≠ x) : pendOf p (setPc w x v) = pendOf p w := by
  cases p <;> simp [pendOf]
  rename_i id k
  rw [setPc_other _ _ _ _ (h id k rfl)]

theorem flatten_snoc (l : List (List α)) (x : List α) : (l ++ [x]).flatten = l.flatten ++ x := by simp
end pendLemmas

section pushBuf
omit [DecidableEq α]
@[simp] theorem pCont_push_buf (k : PK) (lv : List (List α)) (k' : PK) : (pCont k : PPc α) = .push (.buf lv) k' ↔ False := by
  cases k <;> simp [pCont]
@[simp] theorem rCont_push_buf (k : RK) (lv : List (List α)) (k' : RK) : (rCont k : RPc α) = .push (.buf lv) k' ↔ False := by
  cases k <;> simp [rCont]

theorem afterPop_back_inv (s : State α) (lv : List (List α)) (hw : wfLevels lv = true) (hb : s.back = [])
    (h : (afterPop s lv).cpc = .readPop ∨ (afterPop s lv).cpc = .readWaitPop ∨ ∃ id, (afterPop s lv).cpc = .readGot id) :
    (afterPop s lv).back = [] := by
  match lv, hw with
  | [], _ => simpa using hb
  | [t], _ => simpa using hb
  | l :: r :: rest, hw =>
    have := wfLevels_head l r rest hw
    simp [this] at h

theorem headD_tail_flatten (lv : List (List α)) :
    lv.headD [] ++ (if lv.length ≤ 1 then [] else lv.tail).flatten = lv.flatten := by
  match lv with
  | [] => simp
  | [t] => simp
  | l :: r :: rest => simp
end pushBuf

section holdLemmas
omit [DecidableEq α]
def holdOf (p : CPc α) (w : Nat → Val α) : List α :=
  match p with
  | .readGot id => flat (w id)
  | _ => []

theorem holding_eq (s : State α) : holding s = holdOf s.cpc s.want := by
  cases h : s.cpc <;> simp [holding, holdOf, h]

theorem holdOf_setPc (p : CPc α) (w : Nat → Val α) (x : Nat) (v : Val α)
    (h : ∀ id, p = .readGot id → id ≠ x) : holdOf p (setPc w x v) = holdOf p w := by
  cases p <;> simp [holdOf]
  rename_i id
  rw [setPc_other _ _ _ _ (h id rfl)]

@[simp] theorem holdOf_ite (b : Prop) [Decidable b] (r : Res α) (w : Nat → Val α) :
    holdOf (if b then .readPop else .ret r) w = [] := by
  split <;> rfl

@[simp] theorem holdOf_afterClose (k : CK) (w : Nat → Val α) :
    holdOf (match k with | .ret => .ret .ok | .rethrow c => .ret (.exc c) | .dtor => .dtorJoinP : CPc α) w = [] := by
  cases k <;> rfl

end holdLemmas

end Osmium.Pipeline.Order
