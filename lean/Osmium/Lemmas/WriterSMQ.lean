/-
WriterSMQ ⊑ WriterSM: every run of the Writer machine with a LOCK-GRANULAR output queue
(Model/WriterSMQ.lean: the queue is a copy of C19's `QueueSM`) is matched, step by step, by a
run of the atomic-queue machine `WriterSM.machine` on the abstraction `abs` — which keeps the
API outcomes (`results`), the OS / file, the compressor and all ghost histories.  Hence every
safety theorem of C08 (they are statements about reachable states of `WriterSM.machine`)
holds for the lock-granular machine; and its queue component is a run of `QueueSM.machine`.
-/
import Osmium.Model.WriterSMQ

namespace Osmium.WriterSMQ

open Osmium.Mon Osmium.WriterSM

variable {κ : Type} {cfg : Cfg κ} {sp : Bool}

/-! ## the producer's non-queue steps do not look at the queue -/

theorem stepProd_frame (b b' : St κ) (Q : List Item) (U : Bool) (W : WPc)
    (hp : ∀ a it rest, b.cur = some a → b.code ≠ .push it :: rest)
    (hj : ∀ a rest, b.cur = some a → b.code ≠ .join :: rest)
    (h : stepProd cfg b = some b') :
    stepProd cfg { b with q := Q, inUse := U, wpc := W } =
      some { b' with q := Q, inUse := U, wpc := W } := by
  unfold stepProd at h ⊢
  rcases hc : b.cur with _ | a
  · simp only [hc] at h ⊢
    split at h
    · cases h
    · next a rest hs =>
      simp only [Option.some.injEq] at h
      subst h
      simp
  · simp only [hc] at h ⊢
    have hp' := hp a
    have hj' := hj a
    split at h
    all_goals first
      | (cases h; done)
      | (exfalso; exact hp' _ _ hc (by assumption); done)
      | (exfalso; exact hj' _ hc (by assumption); done)
      | (try simp only [finish, raiseInTry] at h ⊢
         repeat' split at h
         all_goals first
           | (cases h; done)
           | (simp only [Option.some.injEq] at h; subst h; simp_all; done)
           | skip)

/-! ## the queue component is a run of C19's queue machine -/

theorem step_queue {s s' : FSt κ} {e : FEv} (h : step? cfg sp s e = some s') :
    s'.qs = s.qs ∨ ∃ qe, QueueSM.step? (qcfg cfg sp) s.qs qe = some s'.qs := by
  cases e with
  | prod =>
    left
    simp only [step?, stepProdF] at h
    split at h
    · cases h
    · split at h <;> simp at h
      subst h; rfl
    · simp only [Option.map_eq_some_iff] at h
      obtain ⟨b, _, rfl⟩ := h; rfl
  | wt =>
    left
    simp only [step?, stepWtF] at h
    split at h
    · split at h <;> (simp only [Option.some.injEq] at h; subst h; rfl)
    · simp only [Option.map_eq_some_iff] at h
      obtain ⟨b, _, rfl⟩ := h; rfl
    · simp only [Option.some.injEq] at h; subst h; rfl
    · cases h
  | worker i =>
    left
    cases i with
    | none =>
      simp only [step?, stepWorkerF] at h
      split at h
      · split at h <;> simp at h
        subst h; rfl
      · cases h
    | some i =>
      simp only [step?, stepWorkerF] at h
      split at h
      · split at h <;> simp at h
        subst h; rfl
      · cases h
  | q e =>
    right
    refine ⟨e, ?_⟩
    simp only [step?, stepQ] at h
    cases e <;> simp only at h <;> (repeat' split at h) <;>
      simp only [Option.map_eq_some_iff, reduceCtorEq] at h <;>
      (try (obtain ⟨a, ha, rfl⟩ := h; first | exact ha | (split <;> exact ha)))

/-- The output queue of ANY run of the lock-granular Writer machine is a run of the queue
    machine of C19 — so C19's theorems (conservation, FIFO, no lost wake-up, shutdown wakes
    all) hold for it as they stand. -/
theorem reachable_queue {k0 : κ} {os0 : OS} {script : List Api} {s : FSt κ}
    (h : (machine cfg sp k0 os0 script).Reachable s) :
    (QueueSM.machine Nat (qcfg cfg sp)).Reachable s.qs := by
  induction h with
  | init => exact .init
  | step hr hst ih =>
    rcases step_queue hst with h | ⟨qe, h⟩
    · rw [h]; exact ih
    · exact .step ih h

/-! ## invariants of the lock-granular machine -/

/-- write-thread pcs that are only reached after the queue was shut down -/
def FW.shut : FW → Bool
  | .at .closing | .at .dtor | .sdDtor | .dtor2 | .at .done => true
  | _ => false

@[simp] theorem setPc_prod_at_wt {π : Type} (pc : Tid → π) (p : π) : setPc pc prodT p wtT = pc wtT := by
  simp [setPc]
@[simp] theorem setPc_wt_at_prod {π : Type} (pc : Tid → π) (p : π) : setPc pc wtT p prodT = pc prodT := by
  simp [setPc]

theorem prod_ne_wt : prodT ≠ wtT := by decide
theorem wt_ne_prod : wtT ≠ prodT := by decide

structure KInv (cfg : Cfg κ) (s : FSt κ) : Prop where
  /-- `m_in_use = false;` is the first statement of shutdown() -/
  flagged : s.qs.pc wtT = .sdFlagged → s.qs.inUse = false
  /-- the write thread leaves its loop only over a shut-down queue -/
  closed : s.fw.shut = true → s.qs.inUse = false
  /-- only the write thread shuts the queue down, and not while it is inside wait_and_pop -/
  popping : s.fw = .popping → s.qs.inUse = true
  /-- the future the producer carries through push() is the one its code is pushing -/
  carry : ∀ x, QueueSM.inflight s.qs prodT = [(prodT, x)] →
    x < s.futs.length ∧ ∃ a rest, s.base.cur = some a ∧ s.base.code = .push (look s.futs x) :: rest
  /-- single producer: the room seen by size() is still there at the enqueue -/
  room : ∀ x, s.qs.pc prodT = .pushReady x → cfg.qmax ≠ 0 → s.qs.items.length < cfg.qmax
  ids : ∀ y ∈ s.qs.items, y.2 < s.futs.length
  nodup : ((s.qs.items ++ QueueSM.inflight s.qs prodT).map (·.2)).Nodup

theorem kinv_init (k0 : κ) (os0 : OS) (script : List Api) : KInv cfg (initF k0 os0 script) := by
  refine ⟨?_, ?_, ?_, ?_, ?_, ?_, ?_⟩
  · intro h; simp [initF, QueueSM.init] at h
  · intro h; simp [initF, FW.shut] at h
  · intro h; simp [initF] at h
  · intro x h; simp [initF, QueueSM.init, QueueSM.inflight, QueueSM.carry] at h
  · intro x h; simp [initF, QueueSM.init] at h
  · intro y h; simp [initF, QueueSM.init] at h
  · simp [initF, QueueSM.init, QueueSM.inflight, QueueSM.carry]

theorem wtLocal_frame {b b' : St κ} {p p' : WPc} (h : wtLocal cfg b p = some (b', p')) :
    b'.cur = b.cur ∧ b'.code = b.code := by
  unfold wtLocal at h
  repeat' split at h
  all_goals first
    | (cases h; done)
    | (simp only [Option.some.injEq, Prod.mk.injEq] at h; obtain ⟨rfl, _⟩ := h; exact ⟨rfl, rfl⟩)

theorem look_set_ne (futs : List Item) (fid x : Nat) (v : Item) (h : x ≠ fid) :
    look (futs.set fid v) x = look futs x := by
  simp [look, Ne.symm h]

theorem look_append_lt (futs : List Item) (x : Nat) (v : Item) (h : x < futs.length) :
    look (futs ++ [v]) x = look futs x := by
  simp [look, List.getElem?_append_left h]

theorem look_append_self (futs : List Item) (v : Item) : look (futs ++ [v]) futs.length = v := by
  simp [look]

theorem kinv_prod {s s' : FSt κ} (hI : KInv cfg s) (h : stepProdF cfg s = some s') : KInv cfg s' := by
  have hq : s'.qs = s.qs ∧ s'.futs = s.futs ∧ s'.fw = s.fw := by
    simp only [stepProdF] at h
    split at h
    · cases h
    · split at h <;> simp at h
      subst h; exact ⟨rfl, rfl, rfl⟩
    · simp only [Option.map_eq_some_iff] at h
      obtain ⟨b, _, rfl⟩ := h; exact ⟨rfl, rfl, rfl⟩
  obtain ⟨h1, h2, h3⟩ := hq
  refine ⟨by rw [h1]; exact hI.flagged, by rw [h1, h3]; exact hI.closed, by rw [h1, h3]; exact hI.popping,
    ?_, by rw [h1]; exact hI.room, by rw [h1, h2]; exact hI.ids, by rw [h1]; exact hI.nodup⟩
  intro x hx
  rw [h1] at hx
  obtain ⟨_, a, rest, hc, hcode⟩ := hI.carry x hx
  simp [stepProdF, hc, hcode] at h

theorem kinv_wt {s s' : FSt κ} (hI : KInv cfg s) (h : stepWtF cfg s = some s') : KInv cfg s' := by
  have hq : s'.qs = s.qs ∧ s'.futs = s.futs ∧ s'.base.cur = s.base.cur ∧ s'.base.code = s.base.code ∧
      (s'.fw.shut = true → s.qs.inUse = false) ∧ (s'.fw = .popping → s.qs.inUse = true) := by
    simp only [stepWtF] at h
    split at h
    · split at h <;> (simp only [Option.some.injEq] at h; subst h)
      · next hu => exact ⟨rfl, rfl, rfl, rfl, by simp [FW.shut], fun _ => hu⟩
      · next hu => exact ⟨rfl, rfl, rfl, rfl, fun _ => by simpa using hu, by simp⟩
    · next p hnp hfw =>
      simp only [Option.map_eq_some_iff] at h
      obtain ⟨⟨b, p'⟩, hl, rfl⟩ := h
      obtain ⟨e1, e2⟩ := wtLocal_frame hl
      refine ⟨rfl, rfl, e1, e2, ?_, by simp⟩
      intro hs
      have hs' : (FW.at p').shut = true := hs
      cases p with
      | closing => exact hI.closed (by rw [hfw]; rfl)
      | got it =>
        simp only [wtLocal] at hl
        repeat' split at hl
        all_goals first
          | (cases hl; done)
          | (simp only [Option.some.injEq, Prod.mk.injEq] at hl; obtain ⟨_, rfl⟩ := hl; simp [FW.shut] at hs')
      | fail1 e => simp only [wtLocal, Option.some.injEq, Prod.mk.injEq] at hl; obtain ⟨_, rfl⟩ := hl; simp [FW.shut] at hs'
      | fail2 e => simp only [wtLocal, Option.some.injEq, Prod.mk.injEq] at hl; obtain ⟨_, rfl⟩ := hl; simp [FW.shut] at hs'
      | _ => simp [wtLocal] at hl
    · next hfw =>
      simp only [Option.some.injEq] at h; subst h
      exact ⟨rfl, rfl, rfl, rfl, fun _ => hI.closed (by rw [hfw]; rfl), by simp⟩
    · cases h
  obtain ⟨h1, h2, h3, h4, h5, h6⟩ := hq
  refine ⟨by rw [h1]; exact hI.flagged, by rw [h1]; exact h5, by rw [h1]; exact h6,
    ?_, by rw [h1]; exact hI.room, by rw [h1, h2]; exact hI.ids, by rw [h1]; exact hI.nodup⟩
  intro x hx
  rw [h1] at hx
  rw [h2, h3, h4]
  exact hI.carry x hx

theorem kinv_worker {s s' : FSt κ} {i : Option Nat} (hI : KInv cfg s)
    (h : stepWorkerF s i = some s') : KInv cfg s' := by
  cases i with
  | none =>
    simp only [stepWorkerF] at h
    split at h
    · split at h <;> simp at h
      subst h
      exact ⟨hI.flagged, by simp [FW.shut], by simp, hI.carry, hI.room, hI.ids, hI.nodup⟩
    · cases h
  | some i =>
    simp only [stepWorkerF] at h
    split at h
    · next t fid hit =>
      split at h <;> simp at h
      subst h
      refine ⟨hI.flagged, hI.closed, hI.popping, ?_, hI.room, ?_, hI.nodup⟩
      · intro x hx
        obtain ⟨hlt, a, rest, hc, hcode⟩ := hI.carry x hx
        have hne : x ≠ fid := by
          intro he
          have hnd := hI.nodup
          rw [List.map_append, hx] at hnd
          have hmem : fid ∈ s.qs.items.map (·.2) :=
            List.mem_map.mpr ⟨(t, fid), List.mem_of_getElem? hit, rfl⟩
          have := (List.nodup_append.mp hnd).2.2 fid hmem x (by simp)
          exact this he.symm
        refine ⟨by simpa using hlt, a, rest, hc, ?_⟩
        dsimp only
        rw [look_set_ne _ _ _ _ hne]
        exact hcode
      · intro y hy
        simpa using hI.ids y hy
    · cases h

/-- a push event that moves the producer inside push() without touching the queue's content -/
theorem kinv_pcOnly {s : FSt κ} (hI : KInv cfg s) (qs' : QueueSM.State Nat) (x : Nat)
    (p' : QueueSM.Pc Nat) (hin : QueueSM.inflight s.qs prodT = [(prodT, x)])
    (hcar : QueueSM.carry prodT p' = [(prodT, x)])
    (hpc : qs'.pc = setPc s.qs.pc prodT p') (hitems : qs'.items = s.qs.items)
    (hu : qs'.inUse = s.qs.inUse)
    (hroom : ∀ y, p' = .pushReady y → cfg.qmax ≠ 0 → s.qs.items.length < cfg.qmax) :
    KInv cfg { s with qs := qs' } := by
  refine ⟨?_, ?_, ?_, ?_, ?_, ?_, ?_⟩
  · intro h; simp only [hpc, setPc_prod_at_wt] at h; simpa [hu] using hI.flagged h
  · intro h; simpa [hu] using hI.closed h
  · intro h; simpa [hu] using hI.popping h
  · intro y hy
    simp only [QueueSM.inflight, hpc, setPc_same, hcar, List.cons.injEq, Prod.mk.injEq, true_and,
      and_true] at hy
    subst hy
    exact hI.carry x hin
  · intro y hy
    simp only [hpc, setPc_same] at hy
    simpa [hitems] using hroom y hy
  · intro y hy; simp only [hitems] at hy; exact hI.ids y hy
  · simp only [QueueSM.inflight, hpc, setPc_same, hcar, hitems]
    have := hI.nodup
    rwa [hin] at this

/-- push() returned (enqueued `add`, or nothing if the queue was seen shut down) -/
theorem kinv_pushDone {s : FSt κ} (hI : KInv cfg s) (qs' : QueueSM.State Nat) (x : Nat)
    (add : List (QueueSM.Item Nat)) (hadd : add = [] ∨ add = [(prodT, x)])
    (hin : QueueSM.inflight s.qs prodT = [(prodT, x)])
    (hpc : qs'.pc = setPc s.qs.pc prodT .idle) (hitems : qs'.items = s.qs.items ++ add)
    (hu : qs'.inUse = s.qs.inUse) :
    KInv cfg { s with qs := qs', base := pushDone s.base } := by
  have hc := hI.carry x hin
  refine ⟨?_, ?_, ?_, ?_, ?_, ?_, ?_⟩
  · intro h; simp only [hpc, setPc_prod_at_wt] at h; simpa [hu] using hI.flagged h
  · intro h; simpa [hu] using hI.closed h
  · intro h; simpa [hu] using hI.popping h
  · intro y hy
    simp [QueueSM.inflight, hpc, QueueSM.carry] at hy
  · intro y hy
    simp [hpc] at hy
  · intro y hy
    simp only [hitems, List.mem_append] at hy
    rcases hy with hy | hy
    · exact hI.ids y hy
    · rcases hadd with rfl | rfl
      · cases hy
      · simp only [List.mem_singleton] at hy; subst hy; exact hc.1
  · simp only [QueueSM.inflight, hpc, setPc_same, QueueSM.carry, hitems, List.append_nil]
    have hnd := hI.nodup
    rw [hin] at hnd
    rcases hadd with rfl | rfl
    · rw [List.map_append] at hnd
      simpa using (List.nodup_append.mp hnd).1
    · exact hnd

theorem take_pc (qs : QueueSM.State Nat) (t : Tid) : (QueueSM.take qs t).pc = qs.pc := by
  unfold QueueSM.take; split <;> rfl
theorem take_inUse (qs : QueueSM.State Nat) (t : Tid) : (QueueSM.take qs t).inUse = qs.inUse := by
  unfold QueueSM.take; split <;> rfl
theorem take_items (qs : QueueSM.State Nat) (t : Tid) : (QueueSM.take qs t).items = qs.items.tail := by
  unfold QueueSM.take; split <;> simp [*]

/-- a queue event of the write thread: the producer's push state is untouched, the queue
    content can only shrink -/
theorem kinv_wtq {s : FSt κ} (hI : KInv cfg s) (qs' : QueueSM.State Nat) (b' : St κ) (f' : FW)
    (hpc : qs'.pc prodT = s.qs.pc prodT) (hsub : qs'.items.Sublist s.qs.items)
    (hfl : qs'.pc wtT = .sdFlagged → qs'.inUse = false)
    (hsh : f'.shut = true → qs'.inUse = false) (hpop : f' = .popping → qs'.inUse = true)
    (hcur : b'.cur = s.base.cur) (hcode : b'.code = s.base.code) :
    KInv cfg { s with qs := qs', base := b', fw := f' } := by
  have hinf : QueueSM.inflight qs' prodT = QueueSM.inflight s.qs prodT := by
    simp [QueueSM.inflight, hpc]
  refine ⟨hfl, hsh, hpop, ?_, ?_, ?_, ?_⟩
  · intro x hx
    rw [hinf] at hx
    simpa [hcur, hcode] using hI.carry x hx
  · intro x hx hm
    have := hI.room x (by rw [← hpc]; exact hx) hm
    have := hsub.length_le
    show qs'.items.length < cfg.qmax
    omega
  · intro y hy
    exact hI.ids y (hsub.subset hy)
  · show ((qs'.items ++ QueueSM.inflight qs' prodT).map (·.2)).Nodup
    rw [hinf]
    exact hI.nodup.sublist ((hsub.append (List.Sublist.refl _)).map _)

theorem kinv_q {s s' : FSt κ} {e : QueueSM.Ev Nat} (hI : KInv cfg s)
    (h : stepQ cfg sp s e = some s') : KInv cfg s' := by
  cases e with
  | pushEnter t x =>
    simp only [stepQ] at h
    split at h
    · next a it rest hc hcode =>
      split at h
      · next hg =>
        obtain ⟨rfl, rfl⟩ := hg
        simp only [Option.map_eq_some_iff, QueueSM.step?] at h
        obtain ⟨qs', hq, rfl⟩ := h
        split at hq
        · next hidle =>
          simp only [Option.some.injEq] at hq
          subst hq
          have hin : QueueSM.inflight s.qs prodT = [] := by simp [QueueSM.inflight, hidle, QueueSM.carry]
          have hnd := hI.nodup
          rw [hin, List.append_nil] at hnd
          refine ⟨by simpa using hI.flagged, hI.closed, hI.popping, ?_, ?_, ?_, ?_⟩
          · intro x hx
            simp only [QueueSM.inflight, setPc_same, QueueSM.carry, List.cons.injEq, Prod.mk.injEq,
              true_and, and_true] at hx
            subst hx
            exact ⟨by simp, a, rest, hc, by rw [look_append_self]; exact hcode⟩
          · intro x hx; simp at hx
          · intro y hy
            have := hI.ids y hy
            simp only [List.length_append, List.length_singleton]; omega
          · simp only [QueueSM.inflight, setPc_same, QueueSM.carry, List.map_append, List.map_cons,
              List.map_nil]
            refine List.nodup_append.mpr ⟨hnd, by simp, ?_⟩
            intro a ha b hb
            simp only [List.mem_singleton] at hb
            subst hb
            obtain ⟨y, hy, rfl⟩ := List.mem_map.mp ha
            have := hI.ids y hy
            omega
        · cases hq
      · cases h
    · cases h
  | pushTest t saw =>
    simp only [stepQ] at h
    split at h
    · next ht =>
      subst ht
      simp only [Option.map_eq_some_iff, QueueSM.step?] at h
      obtain ⟨qs', hq, rfl⟩ := h
      split at hq
      · next x hpc =>
        have hin : QueueSM.inflight s.qs prodT = [(prodT, x)] := by simp [QueueSM.inflight, hpc, QueueSM.carry]
        split at hq
        · next hsaw =>
          cases saw with
          | true =>
            simp only [↓reduceIte] at hq ⊢
            split at hq <;> (simp only [Option.some.injEq] at hq; subst hq)
            · next hmax =>
              exact kinv_pcOnly hI _ x (.pushReady x) hin rfl rfl rfl rfl
                (fun y _ hne => absurd hmax hne)
            · exact kinv_pcOnly hI _ x (.pushPolling x) hin rfl rfl rfl rfl (fun y hy => by cases hy)
          | false =>
            simp only [Bool.false_eq_true, ↓reduceIte, Option.some.injEq] at hq ⊢
            subst hq
            exact kinv_pushDone hI _ x [] (.inl rfl) hin rfl (by simp) rfl
        · cases hq
      · cases hq
    · cases h
  | pushSize t n =>
    simp only [stepQ] at h
    split at h
    · next ht =>
      subst ht
      simp only [Option.map_eq_some_iff, QueueSM.step?] at h
      obtain ⟨qs', hq, rfl⟩ := h
      split at hq
      · next x hpc =>
        have hin : QueueSM.inflight s.qs prodT = [(prodT, x)] := by simp [QueueSM.inflight, hpc, QueueSM.carry]
        split at hq
        · next hn =>
          split at hq <;> (simp only [Option.some.injEq] at hq; subst hq)
          · exact kinv_pcOnly hI _ x (.pushMustWait x) hin rfl rfl rfl rfl (fun y hy => by cases hy)
          · next hlt =>
            exact kinv_pcOnly hI _ x (.pushReady x) hin rfl rfl rfl rfl
              (fun y _ _ => by simp only [qcfg] at hlt; omega)
        · cases hq
      · cases hq
    · cases h
  | pushFullWaited t n =>
    simp only [stepQ] at h
    split at h
    · next ht =>
      subst ht
      simp only [Option.map_eq_some_iff, QueueSM.step?] at h
      obtain ⟨qs', hq, rfl⟩ := h
      split at hq
      · next x hpc =>
        have hin : QueueSM.inflight s.qs prodT = [(prodT, x)] := by simp [QueueSM.inflight, hpc, QueueSM.carry]
        split at hq
        · simp only [Option.some.injEq] at hq; subst hq
          exact kinv_pcOnly hI _ x (.pushPolling x) hin rfl rfl rfl rfl (fun y hy => by cases hy)
        · cases hq
      · cases hq
    · cases h
  | pushLocked t n w =>
    simp only [stepQ] at h
    split at h
    · next ht =>
      subst ht
      simp only [Option.map_eq_some_iff, QueueSM.step?] at h
      obtain ⟨qs', hq, rfl⟩ := h
      split at hq
      · next x hpc =>
        have hin : QueueSM.inflight s.qs prodT = [(prodT, x)] := by simp [QueueSM.inflight, hpc, QueueSM.carry]
        split at hq
        · simp only [Option.some.injEq] at hq; subst hq
          exact kinv_pushDone hI _ x [(prodT, x)] (.inr rfl) hin rfl rfl rfl
        · cases hq
      · cases hq
    · cases h
  | popNow t n r =>
    simp only [stepQ] at h
    split at h
    · next hg =>
      obtain ⟨rfl, hfw⟩ := hg
      simp only [Option.map_eq_some_iff, QueueSM.step?] at h
      obtain ⟨qs', hq, rfl⟩ := h
      split at hq
      · next hc =>
        obtain ⟨hidle, rfl, hpred, rfl⟩ := hc
        simp only [Option.some.injEq] at hq; subst hq
        have hu := hI.popping hfw
        split
        · exact kinv_wtq hI _ _ _ (by rw [take_pc]) (by rw [take_items]; exact List.tail_sublist _)
            (by rw [take_pc, hidle]; intro h; cases h) (by simp [FW.shut]) (by simp) rfl rfl
        · next hnone =>
          exfalso
          simp only [QueueSM.pred, hu, Bool.not_true, Bool.false_or, Bool.not_eq_eq_eq_not,
            Bool.not_true, List.isEmpty_eq_false_iff] at hpred
          cases hi : s.qs.items with
          | nil => exact hpred hi
          | cons a l => simp [hi] at hnone
      · cases hq
    · cases h
  | popWake t n r =>
    simp only [stepQ] at h
    split at h
    · next hg =>
      obtain ⟨rfl, hfw⟩ := hg
      simp only [Option.map_eq_some_iff, QueueSM.step?] at h
      obtain ⟨qs', hq, rfl⟩ := h
      split at hq
      · next hc =>
        obtain ⟨hwait, _, rfl, hpred, rfl⟩ := hc
        simp only [Option.some.injEq] at hq; subst hq
        have hu := hI.popping hfw
        split
        · exact kinv_wtq hI _ _ _ (by rw [take_pc]; simp) (by rw [take_items]; exact List.tail_sublist _)
            (by rw [take_pc]; simp) (by simp [FW.shut]) (by simp) rfl rfl
        · next hnone =>
          exfalso
          simp only [QueueSM.pred, hu, Bool.not_true, Bool.false_or, Bool.not_eq_eq_eq_not,
            Bool.not_true, List.isEmpty_eq_false_iff] at hpred
          cases hi : s.qs.items with
          | nil => exact hpred hi
          | cons a l => simp [hi] at hnone
      · cases hq
    · cases h
  | popBlock t =>
    simp only [stepQ] at h
    split at h
    · next hg =>
      obtain ⟨rfl, hfw⟩ := hg
      simp only [Option.map_eq_some_iff, QueueSM.step?] at h
      obtain ⟨qs', hq, rfl⟩ := h
      split at hq
      · simp only [Option.some.injEq] at hq; subst hq
        have hu := hI.popping hfw
        have := kinv_wtq hI { s.qs with pc := setPc s.qs.pc wtT .popWaiting, waiters := s.qs.waiters.wait wtT }
          s.base s.fw (by simp) (List.Sublist.refl _) (by simp) (by rw [hfw]; simp [FW.shut])
          (fun _ => hu) rfl rfl
        exact this
      · cases hq
    · cases h
  | popRewait t =>
    simp only [stepQ] at h
    split at h
    · next hg =>
      obtain ⟨rfl, hfw⟩ := hg
      simp only [Option.map_eq_some_iff, QueueSM.step?] at h
      obtain ⟨qs', hq, rfl⟩ := h
      split at hq
      · simp only [Option.some.injEq] at hq; subst hq
        have hu := hI.popping hfw
        have := kinv_wtq hI { s.qs with waiters := (s.qs.waiters.remove wtT).wait wtT }
          s.base s.fw rfl (List.Sublist.refl _) hI.flagged (by rw [hfw]; simp [FW.shut])
          (fun _ => hu) rfl rfl
        exact this
      · cases hq
    · cases h
  | tryPop t n r => simp [stepQ] at h
  | sdEnter t =>
    simp only [stepQ] at h
    split at h
    · next ht =>
      subst ht
      split at h
      · next it hfw =>
        split at h
        · simp only [Option.map_eq_some_iff, QueueSM.step?] at h
          obtain ⟨qs', hq, rfl⟩ := h
          split at hq
          · simp only [Option.some.injEq] at hq; subst hq
            exact kinv_wtq hI _ _ _ (by simp) (List.Sublist.refl _) (by simp) (by simp [FW.shut])
              (by simp) rfl rfl
          · cases hq
        · cases h
      · next hfw =>
        simp only [Option.map_eq_some_iff, QueueSM.step?] at h
        obtain ⟨qs', hq, rfl⟩ := h
        split at hq
        · simp only [Option.some.injEq] at hq; subst hq
          exact kinv_wtq hI _ _ _ (by simp) (List.Sublist.refl _) (by simp) (by simp [FW.shut])
            (by simp) rfl rfl
        · cases hq
      · next hfw =>
        simp only [Option.map_eq_some_iff, QueueSM.step?] at h
        obtain ⟨qs', hq, rfl⟩ := h
        split at hq
        · simp only [Option.some.injEq] at hq; subst hq
          exact kinv_wtq hI _ _ _ (by simp) (List.Sublist.refl _) (by simp)
            (fun _ => hI.closed (by rw [hfw]; rfl)) (by simp) rfl rfl
        · cases hq
      · cases h
    · cases h
  | sdFlag t =>
    simp only [stepQ] at h
    split at h
    · next ht =>
      subst ht
      have hnp : s.fw ≠ .popping := by
        intro hp; rw [hp] at h; simp at h
      split at h
      all_goals first
        | (cases h; done)
        | (simp only [Option.map_eq_some_iff, QueueSM.step?] at h
           obtain ⟨qs', hq, rfl⟩ := h
           split at hq
           · simp only [Option.some.injEq] at hq; subst hq
             have := kinv_wtq hI { s.qs with pc := setPc s.qs.pc wtT .sdFlagged, inUse := false }
               s.base s.fw (by simp) (List.Sublist.refl _) (fun _ => rfl) (fun _ => rfl)
               (fun hp => absurd hp hnp) rfl rfl
             exact this
           · cases hq)
    · cases h
  | sdLocked t =>
    simp only [stepQ] at h
    split at h
    · next ht =>
      subst ht
      split at h
      all_goals first
        | (cases h; done)
        | (simp only [Option.map_eq_some_iff, QueueSM.step?] at h
           obtain ⟨qs', hq, rfl⟩ := h
           split at hq
           · next hpc =>
             simp only [Option.some.injEq] at hq; subst hq
             have hu := hI.flagged hpc
             exact kinv_wtq hI _ _ _ (by simp) (List.nil_sublist _) (by simp) (fun _ => hu)
               (by simp) rfl rfl
           · cases hq)
    · cases h

theorem kinv_step {s s' : FSt κ} {e : FEv} (hI : KInv cfg s) (h : step? cfg sp s e = some s') :
    KInv cfg s' := by
  cases e with
  | prod => exact kinv_prod hI h
  | wt => exact kinv_wt hI h
  | worker i => exact kinv_worker hI h
  | q e => exact kinv_q hI h

theorem kinv_reachable {k0 : κ} {os0 : OS} {script : List Api} {s : FSt κ}
    (h : (machine cfg sp k0 os0 script).Reachable s) : KInv cfg s := by
  induction h with
  | init => exact kinv_init k0 os0 script
  | step _ hst ih => exact kinv_step ih hst

/-! ## the simulation -/

/-- the non-queue steps of the write thread are the corresponding cases of `WriterSM.stepWt` -/
theorem wtLocal_stepWt {b b' : St κ} {p p' : WPc} (h : wtLocal cfg b p = some (b', p'))
    (Q : List Item) (U : Bool) :
    stepWt cfg { b with q := Q, inUse := U, wpc := p } =
      some { b' with q := Q, inUse := U, wpc := p' } := by
  cases p with
  | got it =>
    simp only [wtLocal] at h
    simp only [stepWt]
    split at h
    · cases h
    · next hr =>
      simp only [hr, if_false]
      split at h
      · simp only [Option.some.injEq, Prod.mk.injEq] at h; obtain ⟨rfl, rfl⟩ := h; simp_all
      · cases h
      · split at h <;> (simp only [Option.some.injEq, Prod.mk.injEq] at h; obtain ⟨rfl, rfl⟩ := h; simp_all)
  | closing =>
    simp only [wtLocal] at h
    simp only [stepWt]
    split at h <;> (simp only [Option.some.injEq, Prod.mk.injEq] at h; obtain ⟨rfl, rfl⟩ := h; simp_all)
  | fail1 e =>
    simp only [wtLocal, Option.some.injEq, Prod.mk.injEq] at h; obtain ⟨rfl, rfl⟩ := h; rfl
  | fail2 e =>
    simp only [wtLocal, Option.some.injEq, Prod.mk.injEq] at h; obtain ⟨rfl, rfl⟩ := h; rfl
  | _ => simp [wtLocal] at h

theorem look_set_self (futs : List Item) (fid : Nat) (v : Item) (h : fid < futs.length) :
    look (futs.set fid v) fid = v := by
  simp [look, h]

/-- setting the shared state of ONE future changes exactly its position in the queue -/
theorem map_look_set (futs : List Item) (v : Item) (fid : Nat) (hf : fid < futs.length) :
    ∀ (l : List (QueueSM.Item Nat)) (i : Nat) (t : Tid), (l.map (·.2)).Nodup → l[i]? = some (t, fid) →
      l.map (fun x => look (futs.set fid v) x.2) = (l.map fun x => look futs x.2).set i v := by
  intro l
  induction l with
  | nil => intro i t _ h; simp at h
  | cons y ys ih =>
    intro i t hnd hi
    simp only [List.map_cons, List.nodup_cons] at hnd
    cases i with
    | zero =>
      simp only [List.getElem?_cons_zero, Option.some.injEq] at hi
      subst hi
      simp only [List.map_cons, List.set_cons_zero, look_set_self _ _ _ hf, List.cons.injEq, true_and]
      apply List.map_congr_left
      intro z hz
      apply look_set_ne
      intro he
      exact hnd.1 (List.mem_map.mpr ⟨z, hz, he⟩)
    | succ j =>
      simp only [List.getElem?_cons_succ] at hi
      simp only [List.map_cons, List.set_cons_succ, List.cons.injEq]
      refine ⟨?_, ih j t hnd.2 hi⟩
      apply look_set_ne
      intro he
      exact hnd.1 (List.mem_map.mpr ⟨(t, fid), List.mem_of_getElem? hi, he.symm⟩)

/-- a fine step is matched by no step or by one step of the atomic-queue machine -/
def Matches (cfg : Cfg κ) (s s' : FSt κ) : Prop :=
  abs s' = abs s ∨ ∃ e', WriterSM.step? cfg (abs s) e' = some (abs s')

theorem sim_prod {s s' : FSt κ} (h : stepProdF cfg s = some s') : Matches cfg s s' := by
  right
  refine ⟨.prod, ?_⟩
  simp only [stepProdF] at h
  split at h
  · cases h
  · next a rest hc hcode =>
    split at h
    · next hfw =>
      simp only [Option.some.injEq] at h; subst h
      simp [WriterSM.step?, stepProd, abs, absQ, absW, hc, hcode, hfw, finish]
    · cases h
  · next hp hj =>
    simp only [Option.map_eq_some_iff] at h
    obtain ⟨b, hb, rfl⟩ := h
    exact stepProd_frame s.base b (absQ s) s.qs.inUse (absW s)
      (fun a it rest hc hcode => hp a it rest hc hcode)
      (fun a rest hc hcode => hj a rest hc hcode) hb

theorem sim_wt {s s' : FSt κ} (hI : KInv cfg s) (h : stepWtF cfg s = some s') : Matches cfg s s' := by
  simp only [stepWtF] at h
  split at h
  · next hfw =>
    split at h <;> (simp only [Option.some.injEq] at h; subst h)
    · left
      simp [abs, absQ, absW, hfw]
    · next hu =>
      right
      refine ⟨.wt, ?_⟩
      simp [WriterSM.step?, stepWt, abs, absQ, absW, hfw, hu]
  · next p hnp hfw =>
    simp only [Option.map_eq_some_iff] at h
    obtain ⟨⟨b, p'⟩, hl, rfl⟩ := h
    right
    refine ⟨.wt, ?_⟩
    have := wtLocal_stepWt hl (absQ s) s.qs.inUse
    simpa [WriterSM.step?, abs, absQ, absW, hfw] using this
  · next hfw =>
    simp only [Option.some.injEq] at h; subst h
    have hu := hI.closed (by rw [hfw]; rfl)
    right
    refine ⟨.wt, ?_⟩
    simp [WriterSM.step?, stepWt, abs, absQ, absW, hfw, hu, shutdownQ]
  · cases h

theorem sim_worker {s s' : FSt κ} {i : Option Nat} (hI : KInv cfg s)
    (h : stepWorkerF s i = some s') : Matches cfg s s' := by
  cases i with
  | none =>
    simp only [stepWorkerF] at h
    split at h
    · next it hfw =>
      split at h <;> simp at h
      next hr =>
      subst h
      right
      refine ⟨.worker none, ?_⟩
      simp [WriterSM.step?, stepWorker, abs, absQ, absW, hfw, hr]
    · cases h
  | some i =>
    simp only [stepWorkerF] at h
    split at h
    · next t fid hit =>
      split at h <;> simp at h
      next hg =>
      obtain ⟨hlt, hr⟩ := hg
      subst h
      cases hu : s.qs.inUse with
      | false =>
        left
        simp [abs, absQ, absW, hu]
      | true =>
        right
        refine ⟨.worker (some i), ?_⟩
        have hnd : (s.qs.items.map (·.2)).Nodup := by
          have := hI.nodup
          rw [List.map_append] at this
          exact (List.nodup_append.mp this).1
        have hm := map_look_set s.futs (setReady (look s.futs fid)) fid hlt s.qs.items i t hnd hit
        simp [WriterSM.step?, stepWorker, abs, absQ, absW, hu, hit, hr, hm]
    · cases h

theorem absQ_append_fut {s : FSt κ} (hI : KInv cfg s) (it : Item) :
    (s.qs.items.map fun x => look (s.futs ++ [it]) x.2) = s.qs.items.map fun x => look s.futs x.2 :=
  List.map_congr_left fun y hy => look_append_lt _ _ _ (hI.ids y hy)

theorem sim_q_push {s s' : FSt κ} {e : QueueSM.Ev Nat} (hI : KInv cfg s)
    (h : stepQ cfg sp s e = some s')
    (he : (∃ t x, e = .pushEnter t x) ∨ (∃ t b, e = .pushTest t b) ∨ (∃ t n, e = .pushSize t n) ∨
      (∃ t n, e = .pushFullWaited t n) ∨ (∃ t n w, e = .pushLocked t n w)) : Matches cfg s s' := by
  rcases he with ⟨t, x, rfl⟩ | ⟨t, saw, rfl⟩ | ⟨t, n, rfl⟩ | ⟨t, n, rfl⟩ | ⟨t, n, w, rfl⟩
  · -- pushEnter
    simp only [stepQ] at h
    split at h
    · split at h
      · simp only [Option.map_eq_some_iff, QueueSM.step?] at h
        obtain ⟨qs', hq, rfl⟩ := h
        split at hq
        · simp only [Option.some.injEq] at hq; subst hq
          left
          simp [abs, absQ, absW, absQ_append_fut hI]
        · cases hq
      · cases h
    · cases h
  · -- pushTest
    simp only [stepQ] at h
    split at h
    · next ht =>
      subst ht
      simp only [Option.map_eq_some_iff, QueueSM.step?] at h
      obtain ⟨qs', hq, rfl⟩ := h
      split at hq
      · next x hpc =>
        have hin : QueueSM.inflight s.qs prodT = [(prodT, x)] := by simp [QueueSM.inflight, hpc, QueueSM.carry]
        obtain ⟨_, a, rest, hc, hcode⟩ := hI.carry x hin
        split at hq
        · next hsaw =>
          cases saw with
          | true =>
            simp only [↓reduceIte] at hq ⊢
            left
            split at hq <;> (simp only [Option.some.injEq] at hq; subst hq; simp [abs, absQ, absW])
          | false =>
            simp only [Bool.false_eq_true, ↓reduceIte, Option.some.injEq] at hq ⊢
            subst hq
            right
            refine ⟨.prod, ?_⟩
            simp [WriterSM.step?, stepProd, abs, absQ, absW, hc, hcode, pushDone, ← hsaw]
        · cases hq
      · cases hq
    · cases h
  · -- pushSize
    simp only [stepQ] at h
    split at h
    · simp only [Option.map_eq_some_iff, QueueSM.step?] at h
      obtain ⟨qs', hq, rfl⟩ := h
      left
      repeat' split at hq
      all_goals first
        | (cases hq; done)
        | (simp only [Option.some.injEq] at hq; subst hq; simp [abs, absQ, absW])
    · cases h
  · -- pushFullWaited
    simp only [stepQ] at h
    split at h
    · simp only [Option.map_eq_some_iff, QueueSM.step?] at h
      obtain ⟨qs', hq, rfl⟩ := h
      left
      repeat' split at hq
      all_goals first
        | (cases hq; done)
        | (simp only [Option.some.injEq] at hq; subst hq; simp [abs, absQ, absW])
    · cases h
  · -- pushLocked
    simp only [stepQ] at h
    split at h
    · next ht =>
      subst ht
      simp only [Option.map_eq_some_iff, QueueSM.step?] at h
      obtain ⟨qs', hq, rfl⟩ := h
      split at hq
      · next x hpc =>
        have hin : QueueSM.inflight s.qs prodT = [(prodT, x)] := by simp [QueueSM.inflight, hpc, QueueSM.carry]
        obtain ⟨_, a, rest, hc, hcode⟩ := hI.carry x hin
        have hroom := hI.room x hpc
        split at hq
        · simp only [Option.some.injEq] at hq; subst hq
          right
          refine ⟨.prod, ?_⟩
          cases hu : s.qs.inUse with
          | false => simp [WriterSM.step?, stepProd, abs, absQ, absW, hc, hcode, pushDone, hu]
          | true =>
            simp [WriterSM.step?, stepProd, abs, absQ, absW, hc, hcode, pushDone, hu]
            intro h1
            exact hroom h1
        · cases hq
      · cases hq
    · cases h

theorem pred_head {qs : QueueSM.State Nat} (hu : qs.inUse = true) (hp : QueueSM.pred qs = true)
    (hn : qs.items.head? = none) : False := by
  cases hi : qs.items with
  | nil => simp [QueueSM.pred, hu, hi] at hp
  | cons a l => simp [hi] at hn

/-- a pop that took the front element -/
theorem sim_take {s s' : FSt κ} (hu : s.qs.inUse = true) (hfw : s.fw = .popping) (qs0 : QueueSM.State Nat)
    (hi : qs0.items = s.qs.items) (hu0 : qs0.inUse = s.qs.inUse) (t : Tid) (fid : Nat)
    (hh : s.qs.items.head? = some (t, fid))
    (h1 : s'.qs = QueueSM.take qs0 wtT) (h2 : s'.fw = FW.at (.got (look s.futs fid)))
    (h3 : s'.base = { s.base with taken := s.base.taken ++ [(look s.futs fid).res] })
    (h4 : s'.futs = s.futs) : Matches cfg s s' := by
  right
  refine ⟨.wt, ?_⟩
  cases hit : s.qs.items with
  | nil => simp [hit] at hh
  | cons y ys =>
    simp only [hit, List.head?_cons, Option.some.injEq] at hh
    subst hh
    simp [WriterSM.step?, stepWt, abs, absQ, absW, hfw, hu, hit, take_inUse, take_items, hi, hu0,
      h1, h2, h3, h4]

theorem sim_q_pop {s s' : FSt κ} {e : QueueSM.Ev Nat} (hI : KInv cfg s)
    (h : stepQ cfg sp s e = some s')
    (he : (∃ t n r, e = .popNow t n r) ∨ (∃ t n r, e = .popWake t n r) ∨ (∃ t, e = .popBlock t) ∨
      (∃ t, e = .popRewait t)) : Matches cfg s s' := by
  rcases he with ⟨t, n, r, rfl⟩ | ⟨t, n, r, rfl⟩ | ⟨t, rfl⟩ | ⟨t, rfl⟩
  · simp only [stepQ] at h
    split at h
    · next hg =>
      obtain ⟨rfl, hfw⟩ := hg
      simp only [Option.map_eq_some_iff, QueueSM.step?] at h
      obtain ⟨qs', hq, rfl⟩ := h
      have hu := hI.popping hfw
      split at hq
      · next hc =>
        obtain ⟨hidle, rfl, hpred, rfl⟩ := hc
        simp only [Option.some.injEq] at hq; subst hq
        split
        · next t fid hh => exact sim_take hu hfw s.qs rfl rfl t fid hh rfl rfl rfl rfl
        · next hnone => exact (pred_head hu hpred hnone).elim
      · cases hq
    · cases h
  · simp only [stepQ] at h
    split at h
    · next hg =>
      obtain ⟨rfl, hfw⟩ := hg
      simp only [Option.map_eq_some_iff, QueueSM.step?] at h
      obtain ⟨qs', hq, rfl⟩ := h
      have hu := hI.popping hfw
      split at hq
      · next hc =>
        obtain ⟨hwait, _, rfl, hpred, rfl⟩ := hc
        simp only [Option.some.injEq] at hq; subst hq
        split
        · next t fid hh => exact sim_take hu hfw ({ s.qs with pc := setPc s.qs.pc wtT .idle, waiters := s.qs.waiters.remove wtT }) rfl rfl t fid hh rfl rfl rfl rfl
        · next hnone => exact (pred_head hu hpred hnone).elim
      · cases hq
    · cases h
  · simp only [stepQ] at h
    split at h
    · simp only [Option.map_eq_some_iff, QueueSM.step?] at h
      obtain ⟨qs', hq, rfl⟩ := h
      left
      split at hq
      · simp only [Option.some.injEq] at hq; subst hq; simp [abs, absQ, absW]
      · cases hq
    · cases h
  · simp only [stepQ] at h
    split at h
    · simp only [Option.map_eq_some_iff, QueueSM.step?] at h
      obtain ⟨qs', hq, rfl⟩ := h
      left
      split at hq
      · simp only [Option.some.injEq] at hq; subst hq; simp [abs, absQ, absW]
      · cases hq
    · cases h

theorem eq_endItem {it : Item} (hr : it.ready = true) (hd : it.res = .data []) : it = endItem := by
  cases it; simp_all [endItem]

theorem sim_q_sd {s s' : FSt κ} {e : QueueSM.Ev Nat} (hI : KInv cfg s)
    (h : stepQ cfg sp s e = some s')
    (he : (∃ t, e = .sdEnter t) ∨ (∃ t, e = .sdFlag t) ∨ (∃ t, e = .sdLocked t)) :
    Matches cfg s s' := by
  rcases he with ⟨t, rfl⟩ | ⟨t, rfl⟩ | ⟨t, rfl⟩
  · -- sdEnter: nothing shared is written yet
    simp only [stepQ] at h
    split at h
    · split at h
      · next it hfw =>
        split at h
        · next hg =>
          obtain ⟨hr, hd⟩ := hg
          have hit := eq_endItem hr hd
          subst hit
          simp only [Option.map_eq_some_iff, QueueSM.step?] at h
          obtain ⟨qs', hq, rfl⟩ := h
          split at hq
          · simp only [Option.some.injEq] at hq; subst hq
            cases hu : s.qs.inUse with
            | true => left; simp [abs, absQ, absW, hfw, hu]
            | false =>
              right
              refine ⟨.wt, ?_⟩
              simp [WriterSM.step?, stepWt, abs, absQ, absW, hfw, hu, shutdownQ, endItem]
          · cases hq
        · cases h
      · next hfw =>
        simp only [Option.map_eq_some_iff, QueueSM.step?] at h
        obtain ⟨qs', hq, rfl⟩ := h
        split at hq
        · simp only [Option.some.injEq] at hq; subst hq
          cases hu : s.qs.inUse with
          | true => left; simp [abs, absQ, absW, hfw, hu]
          | false =>
            right
            refine ⟨.wt, ?_⟩
            simp [WriterSM.step?, stepWt, abs, absQ, absW, hfw, hu, shutdownQ]
        · cases hq
      · next hfw =>
        simp only [Option.map_eq_some_iff, QueueSM.step?] at h
        obtain ⟨qs', hq, rfl⟩ := h
        split at hq
        · simp only [Option.some.injEq] at hq; subst hq
          left; simp [abs, absQ, absW, hfw]
        · cases hq
      · cases h
    · cases h
  · -- sdFlag: `m_in_use = false` — the linearisation point of shutdown()
    simp only [stepQ] at h
    split at h
    · split at h
      · next hfw =>
        simp only [Option.map_eq_some_iff, QueueSM.step?] at h
        obtain ⟨qs', hq, rfl⟩ := h
        split at hq
        · simp only [Option.some.injEq] at hq; subst hq
          cases hu : s.qs.inUse with
          | false => left; simp [abs, absQ, absW, hfw, hu]
          | true =>
            right
            refine ⟨.wt, ?_⟩
            simp [WriterSM.step?, stepWt, abs, absQ, absW, hfw, hu, shutdownQ, endItem]
        · cases hq
      · next hfw =>
        simp only [Option.map_eq_some_iff, QueueSM.step?] at h
        obtain ⟨qs', hq, rfl⟩ := h
        split at hq
        · simp only [Option.some.injEq] at hq; subst hq
          cases hu : s.qs.inUse with
          | false => left; simp [abs, absQ, absW, hfw, hu]
          | true =>
            right
            refine ⟨.wt, ?_⟩
            simp [WriterSM.step?, stepWt, abs, absQ, absW, hfw, hu, shutdownQ]
        · cases hq
      · next hfw =>
        simp only [Option.map_eq_some_iff, QueueSM.step?] at h
        obtain ⟨qs', hq, rfl⟩ := h
        have hu := hI.closed (by rw [hfw]; rfl)
        split at hq
        · simp only [Option.some.injEq] at hq; subst hq
          left; simp [abs, absQ, absW, hfw, hu]
        · cases hq
      · cases h
    · cases h
  · -- sdLocked: draining a queue that already counts as empty
    simp only [stepQ] at h
    split at h
    · next ht =>
      subst ht
      split at h
      all_goals first
        | (cases h; done)
        | (next hfw =>
           simp only [Option.map_eq_some_iff, QueueSM.step?] at h
           obtain ⟨qs', hq, rfl⟩ := h
           split at hq
           · next hpc =>
             have hu := hI.flagged hpc
             simp only [Option.some.injEq] at hq; subst hq
             left; simp [abs, absQ, absW, hfw, hu]
           · cases hq)
    · cases h

/-- **Simulation.**  Every step of the lock-granular machine from a state satisfying the
    invariants is matched by zero or one step of the atomic-queue machine on the abstraction. -/
theorem sim_step {s s' : FSt κ} {e : FEv} (hI : KInv cfg s) (h : step? cfg sp s e = some s') :
    Matches cfg s s' := by
  cases e with
  | prod => exact sim_prod h
  | wt => exact sim_wt hI h
  | worker i => exact sim_worker hI h
  | q e =>
    replace h : stepQ cfg sp s e = some s' := h
    cases e with
    | pushEnter t x => exact sim_q_push hI h (.inl ⟨t, x, rfl⟩)
    | pushTest t b => exact sim_q_push hI h (.inr (.inl ⟨t, b, rfl⟩))
    | pushSize t n => exact sim_q_push hI h (.inr (.inr (.inl ⟨t, n, rfl⟩)))
    | pushFullWaited t n => exact sim_q_push hI h (.inr (.inr (.inr (.inl ⟨t, n, rfl⟩))))
    | pushLocked t n w => exact sim_q_push hI h (.inr (.inr (.inr (.inr ⟨t, n, w, rfl⟩))))
    | popNow t n r => exact sim_q_pop hI h (.inl ⟨t, n, r, rfl⟩)
    | popWake t n r => exact sim_q_pop hI h (.inr (.inl ⟨t, n, r, rfl⟩))
    | popBlock t => exact sim_q_pop hI h (.inr (.inr (.inl ⟨t, rfl⟩)))
    | popRewait t => exact sim_q_pop hI h (.inr (.inr (.inr ⟨t, rfl⟩)))
    | tryPop t n r => simp [stepQ] at h
    | sdEnter t => exact sim_q_sd hI h (.inl ⟨t, rfl⟩)
    | sdFlag t => exact sim_q_sd hI h (.inr (.inl ⟨t, rfl⟩))
    | sdLocked t => exact sim_q_sd hI h (.inr (.inr ⟨t, rfl⟩))

theorem abs_init (k0 : κ) (os0 : OS) (script : List Api) :
    abs (initF k0 os0 script) = initSt k0 os0 script := by
  simp [abs, absQ, absW, initF, initSt, QueueSM.init]

/-- **Refinement.**  The abstraction of every reachable state of the lock-granular machine is
    a reachable state of the atomic-queue machine `WriterSM.machine` — with the same API
    outcomes, OS state, file, compressor state and ghost histories (`abs` only replaces the
    queue, the in-use flag and the write thread's pc). -/
theorem reachable_abs {k0 : κ} {os0 : OS} {script : List Api} {s : FSt κ}
    (h : (machine cfg sp k0 os0 script).Reachable s) :
    (WriterSM.machine cfg k0 os0 script).Reachable (abs s) := by
  induction h with
  | init => exact (abs_init k0 os0 script) ▸ Machine.Reachable.init
  | step hr hst ih =>
    rcases sim_step (kinv_reachable hr) hst with h | ⟨e', h⟩
    · rw [h]; exact ih
    · exact .step ih h

theorem pickF_step {wtFirst : Bool} {s s' : FSt κ} {e : FEv} (h : pickF cfg sp wtFirst s = some (e, s')) :
    step? cfg sp s e = some s' := by
  unfold pickF at h
  obtain ⟨e0, _, h0⟩ := List.exists_of_findSome?_eq_some h
  simp only [Option.map_eq_some_iff] at h0
  obtain ⟨s0, hs0, heq⟩ := h0
  cases heq
  exact hs0

theorem runSchedF_reachable {k0 : κ} {os0 : OS} {script : List Api} (wtFirst : Bool) :
    ∀ (n : Nat) (s : FSt κ), (machine cfg sp k0 os0 script).Reachable s →
      (machine cfg sp k0 os0 script).Reachable (runSchedF cfg sp wtFirst n s).2 := by
  intro n
  induction n with
  | zero => intro s hs; exact hs
  | succ k ih =>
    intro s hs
    unfold runSchedF
    cases hp : pickF cfg sp wtFirst s with
    | none => exact hs
    | some r =>
      obtain ⟨e, s'⟩ := r
      simp only []
      exact ih s' (.step hs (pickF_step hp))

end Osmium.WriterSMQ
