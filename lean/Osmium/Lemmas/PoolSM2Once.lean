/-
PoolSM2Once — exactly-once, state form (C19): in every reachable state of the pool every
submitted job is at exactly one of four places — inside a submitter's push(), in the work
queue, in a worker's hands, done — with run counter 0 at the first three and 1 (future =
its outcome) at the last; jobs that were not submitted never run.
-/
import Osmium.Lemmas.PoolSM2Hands

namespace Osmium.PoolSM

open Osmium.Mon

/-- job `(id, out)` is carried through push() by some submitter -/
def InPush (s : State) (id : Nat) (out : Outcome) : Prop :=
  ∃ t, (t, Task.job id out) ∈ QueueSM.inflight s.q t

/-- … is in the work queue -/
def InQueue (s : State) (id : Nat) (out : Outcome) : Prop :=
  ∃ t, (t, Task.job id out) ∈ s.q.items

/-- … is in the hands of a worker (returned by wait_and_pop, not yet executed) -/
def InHands (s : State) (id : Nat) (out : Outcome) : Prop :=
  ∃ w, Holds s.wpc w id out

/-- job `id` has not been executed and its future is not ready -/
def NotRun (s : State) (id : Nat) : Prop := s.runCount id = 0 ∧ s.future id = none

/-- job `id` has been executed exactly once and its future holds `out` -/
def RanOnce (s : State) (id : Nat) (out : Outcome) : Prop := s.runCount id = 1 ∧ s.future id = some out

section

variable (c : Cfg) (s : State) (h : (machine c).Reachable s)
include h

theorem submitted_called {id : Nat} {out : Outcome} (hs : (id, out) ∈ s.submitted) :
    ∃ t, (t, Task.job id out) ∈ s.q.called := by
  rw [← (inv_submitted c s h).1, List.mem_filterMap] at hs
  obtain ⟨x, hx, hj⟩ := hs
  exact ⟨x.1, by rw [← jobOf_eq_some hj]; exact hx⟩

theorem called_submitted {t : Tid} {id : Nat} {out : Outcome} (hx : (t, Task.job id out) ∈ s.q.called) :
    (id, out) ∈ s.submitted := by
  rw [← (inv_submitted c s h).1, List.mem_filterMap]
  exact ⟨_, hx, rfl⟩

/-- the id of a submitted job determines its outcome -/
theorem submitted_out_unique {id : Nat} {o1 o2 : Outcome} (h1 : (id, o1) ∈ s.submitted)
    (h2 : (id, o2) ∈ s.submitted) : o1 = o2 := by
  obtain ⟨t1, c1⟩ := submitted_called c s h h1
  obtain ⟨t2, c2⟩ := submitted_called c s h h2
  have := id_unique c s h c1 c2 (jid_job _ _ _) (jid_job _ _ _)
  simp only [Prod.mk.injEq, Task.job.injEq, true_and] at this
  exact this.2

/-- no phantom jobs: whatever is in push(), queued or in a worker's hands was submitted -/
theorem located_submitted {id : Nat} {out : Outcome}
    (hl : InPush s id out ∨ InQueue s id out ∨ InHands s id out) : (id, out) ∈ s.submitted := by
  rcases hl with ⟨t, ht⟩ | ⟨t, ht⟩ | ⟨w, hw⟩
  · exact called_submitted c s h (inflight_mem_called c s h ht)
  · exact called_submitted c s h (items_mem_called c s h ht)
  · obtain ⟨⟨t, ht⟩, _⟩ := (inv_hands c s h).1 w id out hw
    exact called_submitted c s h (popped_mem_called c s h ht)

/-- Exactly one place. -/
theorem job_place {id : Nat} {out : Outcome} (hs : (id, out) ∈ s.submitted) :
    (InPush s id out ∧ ¬ InQueue s id out ∧ ¬ InHands s id out ∧ NotRun s id) ∨
    (¬ InPush s id out ∧ InQueue s id out ∧ ¬ InHands s id out ∧ NotRun s id) ∨
    (¬ InPush s id out ∧ ¬ InQueue s id out ∧ InHands s id out ∧ NotRun s id) ∨
    (¬ InPush s id out ∧ ¬ InQueue s id out ∧ ¬ InHands s id out ∧ RanOnce s id out) := by
  obtain ⟨t, hx⟩ := submitted_called c s h hs
  have hcnt := job_once c s h hx (jid_job _ _ _)
  obtain ⟨H1, H2, H3⟩ := inv_hands c s h
  -- the three counters characterise the three queue-side places
  have hpush : InPush s id out ↔ 0 < (QueueSM.inflight s.q t).count (t, Task.job id out) := by
    constructor
    · rintro ⟨t', ht'⟩
      have e := id_unique c s h (inflight_mem_called c s h ht') hx (jid_job _ _ _) (jid_job _ _ _)
      simp only [Prod.mk.injEq, and_true] at e
      subst e
      exact List.count_pos_iff.mpr ht'
    · intro hp; exact ⟨t, List.count_pos_iff.mp hp⟩
  have hqueue : InQueue s id out ↔ 0 < s.q.items.count (t, Task.job id out) := by
    constructor
    · rintro ⟨t', ht'⟩
      have e := id_unique c s h (items_mem_called c s h ht') hx (jid_job _ _ _) (jid_job _ _ _)
      simp only [Prod.mk.injEq, and_true] at e
      subst e
      exact List.count_pos_iff.mpr ht'
    · intro hp; exact ⟨t, List.count_pos_iff.mp hp⟩
  have hpop : ∀ w t' out', (w, (t', Task.job id out')) ∈ s.q.popped →
      0 < (s.q.popped.map (fun p => p.2)).count (t, Task.job id out) := by
    intro w t' out' hm
    have e := id_unique c s h (popped_mem_called c s h hm) hx (jid_job _ _ _) (jid_job _ _ _)
    rw [e] at hm
    exact List.count_pos_iff.mpr (List.mem_map.mpr ⟨_, hm, rfl⟩)
  have hhands : InHands s id out → 0 < (s.q.popped.map (fun p => p.2)).count (t, Task.job id out) ∧ NotRun s id := by
    rintro ⟨w, hw⟩
    obtain ⟨⟨t', ht'⟩, hn⟩ := H1 w id out hw
    exact ⟨hpop _ _ _ ht', hn⟩
  have hnot : (s.q.popped.map (fun p => p.2)).count (t, Task.job id out) = 0 → NotRun s id := by
    intro h0
    apply H3
    intro w t' out' hm
    have := hpop w t' out' hm
    omega
  simp only [QueueSM.inflight] at hcnt hpush
  by_cases hd : 0 < (QueueSM.carry t (s.q.pc t)).count (t, Task.job id out)
  · left
    refine ⟨hpush.mpr hd, fun hq => ?_, fun hh => ?_, hnot (by omega)⟩
    · have := hqueue.mp hq; omega
    · have := (hhands hh).1; omega
  · by_cases hb : 0 < s.q.items.count (t, Task.job id out)
    · right; left
      refine ⟨fun hp => hd (hpush.mp hp), hqueue.mpr hb, fun hh => ?_, hnot (by omega)⟩
      have := (hhands hh).1; omega
    · right; right
      have ha : 0 < (s.q.popped.map (fun p => p.2)).count (t, Task.job id out) := by omega
      obtain ⟨⟨w, x⟩, hm, hx2⟩ := List.mem_map.mp (List.count_pos_iff.mp ha)
      simp only at hx2
      subst hx2
      rcases H2 w t id out hm with hh | hr
      · left
        exact ⟨fun hp => hd (hpush.mp hp), fun hq => hb (hqueue.mp hq), ⟨w, hh⟩, (H1 w id out hh).2⟩
      · right
        refine ⟨fun hp => hd (hpush.mp hp), fun hq => hb (hqueue.mp hq), fun hh => ?_, hr⟩
        have h0 : s.runCount id = 0 := (hhands hh).2.1
        have h1 : s.runCount id = 1 := hr.1
        omega

/-- jobs that were never submitted never run -/
theorem unsubmitted_not_run {id : Nat} (hn : id ∉ s.submitted.map (·.1)) : NotRun s id := by
  apply (inv_hands c s h).2.2
  intro w t out hm
  exact hn (List.mem_map.mpr ⟨_, called_submitted c s h (popped_mem_called c s h hm), rfl⟩)

/-- a job is carried by at most one submitter … -/
theorem inPush_unique {id : Nat} {o1 o2 : Outcome} {t1 t2 : Tid}
    (h1 : (t1, Task.job id o1) ∈ QueueSM.inflight s.q t1) (h2 : (t2, Task.job id o2) ∈ QueueSM.inflight s.q t2) :
    t1 = t2 ∧ o1 = o2 := by
  have e := id_unique c s h (inflight_mem_called c s h h1) (inflight_mem_called c s h h2)
    (jid_job _ _ _) (jid_job _ _ _)
  simpa using e

/-- … is at most once in the queue … -/
theorem items_ids_nodup : (s.q.items.filterMap jid).Nodup := by
  have hp := QueueSM.pushed_keys_nodup c.qc s.q (reachable_q c s h) (inv_inUse c s h) jid (called_ids_nodup c s h)
  rw [QueueSM.pushed_eq c.qc s.q (reachable_q c s h) (inv_inUse c s h), List.filterMap_append] at hp
  exact (List.nodup_append.mp hp).2.1

/-- … and in at most one worker's hands -/
theorem inHands_unique {id : Nat} {o1 o2 : Outcome} {w1 w2 : Tid}
    (h1 : Holds s.wpc w1 id o1) (h2 : Holds s.wpc w2 id o2) : w1 = w2 ∧ o1 = o2 := by
  obtain ⟨⟨t1, p1⟩, _⟩ := (inv_hands c s h).1 w1 id o1 h1
  obtain ⟨⟨t2, p2⟩, _⟩ := (inv_hands c s h).1 w2 id o2 h2
  have := popped_id_unique c s h p1 p2
  exact ⟨this.1, this.2.2⟩

end

end Osmium.PoolSM
