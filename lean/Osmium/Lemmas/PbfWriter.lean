/-
Invariants of the PBF writer state machine (`WState.write`, `store`, `switchTo`): entity count and the
32 MiB guard of `SerializeBlob` (fix 9b8b2e0).
-/
import Osmium.Lemmas.Pbf

namespace Osmium.Pbf

open Osmium.Wire Osmium.PbfMsg Osmium.Osm

theorem frameBlob_some (t msg f : Bytes) (h : frameBlob t msg = some f) :
    msg.length ≤ PbfFraming.maxUncompressedBlobSize := by
  unfold frameBlob at h
  split at h
  · simp at h
  · omega

/-- fix 77d5451: the Blob itself is within the reader's limit, too -/
theorem frameBlob_some_blob (t msg f : Bytes) (h : frameBlob t msg = some f) :
    (encodeFields [fBytes 1 msg]).length ≤ PbfFraming.maxUncompressedBlobSize := by
  unfold frameBlob at h
  split at h
  · simp at h
  · split at h
    · simp at h
    · omega

/-- what holds for every data blob the writer has emitted and for the block under construction -/
def LimitInv (o : Opts) (s : WState) : Prop :=
  (∀ b, s.cur = some b → b.count ≤ maxEntitiesPerBlock) ∧
  ∀ f ∈ s.out, ∃ b : Block, frameBlob PbfFraming.osmData (b.message o) = some f ∧
    b.count ≤ maxEntitiesPerBlock ∧ (b.message o).length ≤ PbfFraming.maxUncompressedBlobSize

theorem canAdd_count (o : Opts) (b : Block) (k : Nat) (h : b.canAdd o k = true) : b.count < maxEntitiesPerBlock := by
  unfold Block.canAdd at h
  split at h
  · simp at h
  · split at h
    · simp at h
    · omega

theorem store_inv (o : Opts) (s : WState) (h : LimitInv o s) : LimitInv o (s.store o) := by
  unfold WState.store
  cases hc : s.cur with
  | none => simpa [hc] using h
  | some b =>
    simp only
    split
    · exact h
    · have hb := h.1 b hc
      cases hf : frameBlob PbfFraming.osmData (b.message o) with
      | none =>
        simp only
        exact ⟨fun _ h' => by simp at h', h.2⟩
      | some f =>
        simp only
        refine ⟨fun _ h' => by simp at h', ?_⟩
        intro g hg
        rcases List.mem_cons.mp hg with rfl | hg
        · exact ⟨b, hf, hb, frameBlob_some _ _ _ hf⟩
        · exact h.2 g hg

theorem switchTo_inv (o : Opts) (s : WState) (k : Nat) (h : LimitInv o s) :
    (∀ f ∈ (s.switchTo o k).1.out, ∃ b : Block, frameBlob PbfFraming.osmData (b.message o) = some f ∧
      b.count ≤ maxEntitiesPerBlock ∧ (b.message o).length ≤ PbfFraming.maxUncompressedBlobSize) ∧
    (s.switchTo o k).2.count < maxEntitiesPerBlock := by
  unfold WState.switchTo
  cases hc : s.cur with
  | none => simp only; exact ⟨h.2, by decide⟩
  | some b =>
    simp only
    by_cases hca : b.canAdd o k = true
    · simp only [hca, ↓reduceIte]; exact ⟨h.2, canAdd_count o b k hca⟩
    · simp only [hca, Bool.false_eq_true, ↓reduceIte]
      exact ⟨(store_inv o s h).2, by simp [maxEntitiesPerBlock]⟩

theorem write_inv (o : Opts) (s : WState) (obj : Object) (h : LimitInv o s) : LimitInv o (s.write o obj) := by
  cases obj with
  | node m l =>
    simp only [WState.write]
    split
    · have := switchTo_inv o s 2 h
      exact ⟨fun b hb => by simp at hb; subst hb; simp only; omega, this.1⟩
    · have := switchTo_inv o s 1 h
      exact ⟨fun b hb => by simp at hb; subst hb; simp only [Block.addItem]; omega, this.1⟩
  | way m ns =>
    simp only [WState.write]
    have := switchTo_inv o s 3 h
    exact ⟨fun b hb => by simp at hb; subst hb; simp only [Block.addItem]; omega, this.1⟩
  | relation m ms =>
    simp only [WState.write]
    have := switchTo_inv o s 4 h
    exact ⟨fun b hb => by simp at hb; subst hb; simp only [Block.addItem]; omega, this.1⟩
  | changeset => simpa [WState.write] using h

theorem foldl_write_inv (o : Opts) : ∀ (objs : List Object) (s : WState), LimitInv o s →
    LimitInv o (objs.foldl (WState.write o) s)
  | [], _, h => h
  | ob :: obs, s, h => foldl_write_inv o obs _ (write_inv o s ob h)

theorem init_inv (o : Opts) : LimitInv o {} := ⟨fun _ h => by simp at h, fun _ h => by simp at h⟩

end Osmium.Pbf
