/-
Bytes level of one object: the serialized Node message (`pbf_builder<OSMFormat::Node>` submessage) read back
by `decode_node(data_view)`.
-/
import Osmium.Lemmas.PbfObj

namespace Osmium.Pbf

open Osmium.Wire Osmium.PbfMsg Osmium.Osm
open Osmium.StringTable (Table lookup)

theorem ld_payload_le (f : Field) (fs : List Field) (h : f ∈ fs) (hw : f.wt = .lengthDelimited) :
    f.payload.length ≤ (encodeFields fs).length := by
  induction fs with
  | nil => simp at h
  | cons g gs ih =>
    simp only [encodeFields, List.flatMap_cons, List.length_append]
    rcases List.mem_cons.mp h with rfl | h'
    · have : f.payload.length ≤ (encodeField f).length := by
        unfold encodeField; simp [hw]; omega
      omega
    · have := ih h'
      simp only [encodeFields] at this
      omega

theorem wf_varint (tag v : Nat) (h0 : 0 < tag) (h1 : tag < 16) (hv : v < 2 ^ 64) : (fVarint tag v).WF := by
  exact ⟨h0, by simp only [fVarint, Nat.reducePow]; omega, by simp only [fVarint]; omega, hv, rfl⟩

theorem wf_bytes (tag : Nat) (p : Bytes) (h0 : 0 < tag) (h1 : tag < 17) (hp : p.length < 2 ^ 32) : (fBytes tag p).WF := by
  exact ⟨h0, by simp only [fBytes, Nat.reducePow]; omega, by simp only [fBytes]; omega, rfl, hp⟩

/-- the Node message of the writer, serialized and parsed again (`withFields` = the `pbf_message` over the
    `data_view`), for messages below 4 GiB (every block is ≤ 32 MiB) -/
theorem node_bytes_roundtrip (o : Opts) (t : Table) (m : Meta) (l : Location) (T : List Bytes)
    (hd : MetaInDomain m) (hid : IdOk m.id) (hl : LocOk l)
    (hT : Ext (encNode o t m l).2.strings T) (hsz : (encNode o t m l).2.size ≤ 2 ^ 31)
    (hlen : (encodeFields (encNode o t m l).1).length < 2 ^ 32) :
    withFields (encodeFields (encNode o t m l).1) (decodeNode { strings := T } {}) = project o (.node m l) := by
  have hwf : ∀ f ∈ (encNode o t m l).1, f.WF := by
    intro f hf
    have hpl : f.wt = .lengthDelimited → f.payload.length < 2 ^ 32 := fun hw =>
      Nat.lt_of_le_of_lt (ld_payload_le f _ hf hw) hlen
    obtain ⟨ks, vs, u, hfs, _⟩ := encMeta_spec o t m
    have e : (encNode o t m l).1 = [fVarint 1 (zigzag64 m.id)] ++ (encMeta o t m).1 ++
        [fVarint 8 (zigzag64 l.y), fVarint 9 (zigzag64 l.x)] := rfl
    rw [e, hfs] at hf
    have zy : zigzag64 l.y < 2 ^ 64 := zigzag_lt _ (by have := hl.2; simp only [Int.reducePow] at *; omega) (by have := hl.2; simp only [Int.reducePow] at *; omega)
    have zx : zigzag64 l.x < 2 ^ 64 := zigzag_lt _ (by have := hl.1; simp only [Int.reducePow] at *; omega) (by have := hl.1; simp only [Int.reducePow] at *; omega)
    simp only [List.mem_append, List.mem_cons, List.not_mem_nil, or_false] at hf
    rcases hf with ((rfl | ((hf | hf) | hf)) | (rfl | rfl))
    · exact wf_varint _ _ (by decide) (by decide) (zigzag_lt _ hid.1 hid.2)
    · unfold fPacked at hf; split at hf <;> simp at hf
      subst hf; exact wf_bytes _ _ (by decide) (by decide) (hpl rfl)
    · unfold fPacked at hf; split at hf <;> simp at hf
      subst hf; exact wf_bytes _ _ (by decide) (by decide) (hpl rfl)
    · split at hf <;> simp at hf
      subst hf; exact wf_bytes _ _ (by decide) (by decide) (hpl rfl)
    · exact wf_varint _ _ (by decide) (by decide) zy
    · exact wf_varint _ _ (by decide) (by decide) zx
  unfold withFields
  rw [readFields_encodeFields _ hwf]
  exact node_fields_roundtrip o t m l T hd hid hl hT hsz

theorem wf_packed (tag : Nat) (L : List Nat) (h0 : 0 < tag) (h1 : tag < 17) (hp : (pack L).length < 2 ^ 32) :
    ∀ f ∈ fPacked tag L, f.WF := by
  intro f hf
  unfold fPacked at hf
  split at hf <;> simp at hf
  subst hf; exact wf_bytes _ _ h0 h1 hp

/-- the Way message of the writer, serialized and parsed again -/
theorem way_bytes_roundtrip (o : Opts) (t : Table) (m : Meta) (ns : List NodeRef) (T : List Bytes)
    (hd : MetaInDomain m) (hid : IdOk m.id) (hn : WayInDomain ns)
    (hT : Ext (encWay o t m ns).2.strings T) (hsz : (encWay o t m ns).2.size ≤ 2 ^ 31)
    (hlen : (encodeFields (encWay o t m ns).1).length < 2 ^ 32) :
    withFields (encodeFields (encWay o t m ns).1) (decodeWay { strings := T } {}) = project o (.way m ns) := by
  have hwf : ∀ f ∈ (encWay o t m ns).1, f.WF := by
    intro f hf
    have hpl : f.wt = .lengthDelimited → f.payload.length < 2 ^ 32 := fun hw =>
      Nat.lt_of_le_of_lt (ld_payload_le f _ hf hw) hlen
    obtain ⟨ks, vs, u, hfs, _⟩ := encMeta_spec o t m
    have e : (encWay o t m ns).1 = [fVarint 1 (u64 m.id)] ++ (encMeta o t m).1 ++
        fPacked 8 ((Delta.encId (ns.map (·.ref))).map zigzag64) ++
        (if o.locationsOnWays then
          fPacked 10 ((Delta.encCoord (ns.map (·.location.x))).map zigzag64) ++
          fPacked 9 ((Delta.encCoord (ns.map (·.location.y))).map zigzag64)
         else []) := rfl
    rw [e, hfs] at hf
    have shape : ∀ (tag : Nat) (L : List Nat), 0 < tag → tag < 17 → f ∈ fPacked tag L → f.WF := fun tag L h0 h1 hm => by
      unfold fPacked at hm
      split at hm <;> simp at hm
      subst hm; exact wf_bytes _ _ h0 h1 (hpl rfl)
    simp only [List.mem_append, List.mem_cons, List.not_mem_nil, or_false] at hf
    rcases hf with (((rfl | ((hf | hf) | hf)) | hf) | hf)
    · exact wf_varint _ _ (by decide) (by decide) (u64_lt _)
    · exact shape 2 _ (by decide) (by decide) hf
    · exact shape 3 _ (by decide) (by decide) hf
    · split at hf <;> simp at hf
      subst hf; exact wf_bytes _ _ (by decide) (by decide) (hpl rfl)
    · exact shape 8 _ (by decide) (by decide) hf
    · split at hf
      · rcases List.mem_append.mp hf with hf | hf
        · exact shape 10 _ (by decide) (by decide) hf
        · exact shape 9 _ (by decide) (by decide) hf
      · simp at hf
  unfold withFields
  rw [readFields_encodeFields _ hwf]
  exact way_fields_roundtrip o t m ns T hd hid hn hT hsz

/-- the Relation message of the writer, serialized and parsed again -/
theorem relation_bytes_roundtrip (o : Opts) (t : Table) (m : Meta) (ms : List Member) (T : List Bytes)
    (hd : MetaInDomain m) (hid : IdOk m.id) (hm : RelInDomain ms)
    (hT : Ext (encRelation o t m ms).2.strings T) (hsz : (encRelation o t m ms).2.size ≤ 2 ^ 31)
    (hlen : (encodeFields (encRelation o t m ms).1).length < 2 ^ 32) :
    withFields (encodeFields (encRelation o t m ms).1) (decodeRelation { strings := T } {}) = project o (.relation m ms) := by
  have hwf : ∀ f ∈ (encRelation o t m ms).1, f.WF := by
    intro f hf
    have hpl : f.wt = .lengthDelimited → f.payload.length < 2 ^ 32 := fun hw =>
      Nat.lt_of_le_of_lt (ld_payload_le f _ hf hw) hlen
    obtain ⟨ks, vs, u, hfs, _⟩ := encMeta_spec o t m
    have e : (encRelation o t m ms).1 = [fVarint 1 (u64 m.id)] ++ (encMeta o t m).1 ++
        fPacked 8 ((((encMeta o t m).2.addAll (ms.map (·.role))).1).map fun r => u64 (toInt32 r)) ++
        fPacked 9 ((Delta.encId (ms.map (·.ref))).map zigzag64) ++
        fPacked 10 (ms.map fun x => u64 (nwrIndex x.type)) := rfl
    rw [e, hfs] at hf
    have shape : ∀ (tag : Nat) (L : List Nat), 0 < tag → tag < 17 → f ∈ fPacked tag L → f.WF := fun tag L h0 h1 hm => by
      unfold fPacked at hm
      split at hm <;> simp at hm
      subst hm; exact wf_bytes _ _ h0 h1 (hpl rfl)
    simp only [List.mem_append, List.mem_cons, List.not_mem_nil, or_false] at hf
    rcases hf with ((((rfl | ((hf | hf) | hf)) | hf) | hf) | hf)
    · exact wf_varint _ _ (by decide) (by decide) (u64_lt _)
    · exact shape 2 _ (by decide) (by decide) hf
    · exact shape 3 _ (by decide) (by decide) hf
    · split at hf <;> simp at hf
      subst hf; exact wf_bytes _ _ (by decide) (by decide) (hpl rfl)
    · exact shape 8 _ (by decide) (by decide) hf
    · exact shape 9 _ (by decide) (by decide) hf
    · exact shape 10 _ (by decide) (by decide) hf
  unfold withFields
  rw [readFields_encodeFields _ hwf]
  exact relation_fields_roundtrip o t m ms T hd hid hm hT hsz

end Osmium.Pbf
