/-
Bytes level of one object: the serialized Node message (`pbf_builder<OSMFormat::Node>` submessage) read back
by `decode_node(data_view)`.
-/
import Osmium.Lemmas.PbfObj

namespace Osmium.Pbf

open Osmium.Wire Osmium.PbfMsg Osmium.Osm
open Osmium.StringTable (Table lookup)

theorem ld_payload_le (f : Field) (fs : List Field) (h : f ∈ fs) (hw : f.wt = .lengthDelimited) :
    f.payload.length ≤ (encodeFields fs).length := by
  induction fs with
  | nil => simp at h
  | cons g gs ih =>
    simp only [encodeFields, List.flatMap_cons, List.length_append]
    rcases List.mem_cons.mp h with rfl | h'
    · have : f.payload.length ≤ (encodeField f).length := by
        unfold encodeField; simp [hw]; omega
      omega
    · have := ih h'
      simp only [encodeFields] at this
      omega

theorem wf_varint (tag v : Nat) (h0 : 0 < tag) (h1 : tag < 16) (hv : v < 2 ^ 64) : (fVarint tag v).WF := by
  exact ⟨h0, by simp only [fVarint, Nat.reducePow]; omega, by simp only [fVarint]; omega, hv, rfl⟩

theorem wf_bytes (tag : Nat) (p : Bytes) (h0 : 0 < tag) (h1 : tag < 17) (hp : p.length < 2 ^ 32) : (fBytes tag p).WF := by
  exact ⟨h0, by simp only [fBytes, Nat.reducePow]; omega, by simp only [fBytes]; omega, rfl, hp⟩

/-- the Node message of the writer, serialized and parsed again (`withFields` = the `pbf_message` over the
    `data_view`), for messages below 4 GiB (every block is ≤ 32 MiB) -/
theorem node_bytes_roundtrip (o : Opts) (t : Table) (m : Meta) (l : Location) (T : List Bytes)
    (hd : MetaInDomain m) (hid : IdOk m.id) (hl : LocOk l)
    (hT : Ext (encNode o t m l).2.strings T) (hsz : (encNode o t m l).2.size ≤ 2 ^ 31)
    (hlen : (encodeFields (encNode o t m l).1).length < 2 ^ 32) :
    withFields (encodeFields (encNode o t m l).1) (decodeNode { strings := T } {}) = project o (.node m l) := by
  have hwf : ∀ f ∈ (encNode o t m l).1, f.WF := by
    intro f hf
    have hpl : f.wt = .lengthDelimited → f.payload.length < 2 ^ 32 := fun hw =>
      Nat.lt_of_le_of_lt (ld_payload_le f _ hf hw) hlen
    obtain ⟨ks, vs, u, hfs, _⟩ := encMeta_spec o t m
    have e : (encNode o t m l).1 = [fVarint 1 (zigzag64 m.id)] ++ (encMeta o t m).1 ++
        [fVarint 8 (zigzag64 l.y), fVarint 9 (zigzag64 l.x)] := rfl
    rw [e, hfs] at hf
    have zy : zigzag64 l.y < 2 ^ 64 := zigzag_lt _ (by have := hl.2; simp only [Int.reducePow] at *; omega) (by have := hl.2; simp only [Int.reducePow] at *; omega)
    have zx : zigzag64 l.x < 2 ^ 64 := zigzag_lt _ (by have := hl.1; simp only [Int.reducePow] at *; omega) (by have := hl.1; simp only [Int.reducePow] at *; omega)
    simp only [List.mem_append, List.mem_cons, List.not_mem_nil, or_false] at hf
    rcases hf with ((rfl | ((hf | hf) | hf)) | (rfl | rfl))
    · exact wf_varint _ _ (by decide) (by decide) (zigzag_lt _ hid.1 hid.2)
    · unfold fPacked at hf; split at hf <;> simp at hf
      subst hf; exact wf_bytes _ _ (by decide) (by decide) (hpl rfl)
    · unfold fPacked at hf; split at hf <;> simp at hf
      subst hf; exact wf_bytes _ _ (by decide) (by decide) (hpl rfl)
    · split at hf <;> simp at hf
      subst hf; exact wf_bytes _ _ (by decide) (by decide) (hpl rfl)
    · exact wf_varint _ _ (by decide) (by decide) zy
    · exact wf_varint _ _ (by decide) (by decide) zx
  unfold withFields
  rw [readFields_encodeFields _ hwf]
  exact node_fields_roundtrip o t m l T hd hid hl hT hsz

end Osmium.Pbf
