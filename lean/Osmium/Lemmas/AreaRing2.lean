/-
C10 stage B, part 2 — `add_new_ring` and `create_rings_simple_case`
(basic_assembler.hpp 411-467, 609-620).

For every segment list in which every location has degree 0 or 2 and every segment has two
different end points, and for EVERY function standing in for `find_enclosing_ring`:
the loops terminate without an assertion failure (unless `find_enclosing_ring` itself fails), every
ring is a closed chain, the rings partition the segments, and each ring is `Closed` on its own
(every location it touches has both its ends in this ring).
-/
import Osmium.Lemmas.AreaRing

namespace Osmium.Area

/-! ## rings -/

def ringItems (r : List SLoc) : List Nat := r.map SLoc.item

/-- the segments (indices) of all rings, ring by ring -/
def allItems (rings : List PRing) : List Nat := rings.flatMap fun r => ringItems r.segs

/-- what every ring produced by `add_new_ring` satisfies -/
structure RingOk (segs : List Seg) (r : List SLoc) : Prop where
  /-- a closed chain: every segment starts where the previous one stopped, the last one stops
      where the first one starts -/
  closed : ∃ a, IsPath segs a r a
  nonempty : r ≠ []
  /-- its segments are distinct, existing segments -/
  items : DoneOk segs (ringItems r)
  /-- every location has none or both of its ends in this ring -/
  closedSet : Closed segs (ringItems r)

theorem ringItems_rev (r : List SLoc) : ringItems (revEntries r) = (ringItems r).reverse := by
  simp [ringItems, revEntries, List.map_reverse, SLoc.flip, Function.comp_def]

theorem doneOk_perm (segs : List Seg) (ds ds' : List Nat) (h : ds.Perm ds') (hd : DoneOk segs ds) :
    DoneOk segs ds' :=
  ⟨h.nodup_iff.mp hd.1, fun i hi => hd.2 i (h.mem_iff.mpr hi)⟩

theorem closed_perm (segs : List Seg) (ds ds' : List Nat) (h : ds.Perm ds') (hc : Closed segs ds) :
    Closed segs ds' := fun v => by rw [← dc_perm segs ds ds' h v]; exact hc v

theorem ringOk_rev (segs : List Seg) (r : List SLoc) (h : RingOk segs r) : RingOk segs (revEntries r) where
  closed := by
    obtain ⟨a, ha⟩ := h.closed
    exact ⟨a, isPath_rev segs a a r ha⟩
  nonempty := by
    intro e
    apply h.nonempty
    simpa [revEntries] using e
  items := by
    rw [ringItems_rev]; exact doneOk_perm segs _ _ (List.reverse_perm _).symm h.items
  closedSet := by
    rw [ringItems_rev]; exact closed_perm segs _ _ (List.reverse_perm _).symm h.closedSet

theorem ringOk_fix (segs : List Seg) (r : List SLoc) (o : Bool) (h : RingOk segs r) :
    RingOk segs (fixEntries segs r o) := by
  unfold fixEntries
  split
  · exact ringOk_rev segs r h
  · exact h

theorem ringItems_fix_perm (segs : List Seg) (r : List SLoc) (o : Bool) :
    (ringItems (fixEntries segs r o)).Perm (ringItems r) := by
  unfold fixEntries
  split
  · rw [ringItems_rev]; exact List.reverse_perm _
  · exact List.Perm.refl _

theorem length_fix (segs : List Seg) (r : List SLoc) (o : Bool) :
    (fixEntries segs r o).length = r.length := by
  unfold fixEntries
  split <;> simp [revEntries]

/-- a subset that is `Closed` together with a `Closed` rest is `Closed` itself -/
theorem closed_of_append (segs : List Seg) (R ds : List Nat) (h2 : Deg2 segs)
    (hnd : DoneOk segs (R ++ ds)) (hc : Closed segs ds) (hc' : Closed segs (R ++ ds)) :
    Closed segs R := by
  intro v
  have hR : R.Nodup := (List.nodup_append.mp hnd.1).1
  have hdis : ∀ i ∈ R, i ∉ ds := fun i hi hj => (List.nodup_append.mp hnd.1).2.2 i hi i hj rfl
  have hlt : ∀ i ∈ R, i < segs.length := fun i hi => hnd.2 i (List.mem_append_left _ hi)
  have := dc_append segs R ds hR hdis hlt v
  have h1 := hc v
  have h1' := hc' v
  have hb := dc_le_deg segs (R ++ ds) v
  rcases h2 v with h | h <;> omega

/-! ## `add_new_ring` -/

/-- "`find_enclosing_ring` failed an assertion somewhere" -/
def EncFails (enc : Enclosing) : Prop := ∃ rings i, enc rings i = none

theorem addNewRing_spec (enc : Enclosing) (segs : List Seg) (hw : WfSegs segs) (h2 : Deg2 segs)
    (rings : List PRing) (ds : List Nat) (node : SLoc) (hd : DoneOk segs ds) (hc : Closed segs ds)
    (hn : node.item < segs.length) (hnd : node.item ∉ ds) :
    (∃ ring ds', addNewRing enc segs (locationsList segs) rings ds node =
        some (rings ++ [ring], ds', ring.segs.length) ∧
      RingOk segs ring.segs ∧ DoneOk segs ds' ∧ Closed segs ds' ∧
      ds'.Perm (ringItems ring.segs ++ ds) ∧ node.item ∈ ringItems ring.segs) ∨
    (addNewRing enc segs (locationsList segs) rings ds node = none ∧ EncFails enc) := by
  unfold addNewRing
  cases henc : (if node.item != 0 then enc rings node.item else some none) with
  | none =>
    right
    refine ⟨rfl, rings, node.item, ?_⟩
    split at henc
    · exact henc
    · cases henc
  | some outer =>
    left
    have hne := segAt_wf segs hw node.item hn
    have hfl : node.loc segs ≠ node.stop segs := by
      unfold SLoc.loc SLoc.stop
      cases node.reverse <;> simp <;> [exact hne; exact fun e => hne e.symm]
    have hdcc := dc_cons segs ds node.item hnd hn
    have hdok : DoneOk segs (node.item :: ds) := by
      refine ⟨List.nodup_cons.mpr ⟨hnd, hd.1⟩, ?_⟩
      intro i hi
      rcases List.mem_cons.mp hi with rfl | hi
      · exact hn
      · exact hd.2 i hi
    have hends : ((segAt segs node.item).first = node.loc segs ∧ (segAt segs node.item).second = node.stop segs) ∨
        ((segAt segs node.item).first = node.stop segs ∧ (segAt segs node.item).second = node.loc segs) := by
      unfold SLoc.loc SLoc.stop
      cases node.reverse <;> simp
    have hcnt : ∀ v, dc segs (node.item :: ds) v =
        dc segs ds v + ((if v = node.loc segs then 1 else 0) + (if v = node.stop segs then 1 else 0)) := by
      intro v
      rw [hdcc v]
      rcases hends with ⟨e1, e2⟩ | ⟨e1, e2⟩ <;> rw [e1, e2] <;>
        by_cases a1 : v = node.loc segs <;> by_cases a2 : v = node.stop segs <;>
        simp [a1, a2, eq_comm, hfl]
    have hopen : OpenAt segs (node.item :: ds) (node.loc segs) (node.stop segs) := by
      have hb : ∀ v, dc segs (node.item :: ds) v ≤ 2 := by
        intro v
        have := dc_le_deg segs (node.item :: ds) v
        rcases h2 v with h | h <;> omega
      refine ⟨hfl, ?_, ?_, ?_⟩
      · have := hcnt (node.loc segs); have := hb (node.loc segs); have := hc (node.loc segs)
        simp [hfl] at *; omega
      · have := hcnt (node.stop segs); have := hb (node.stop segs); have := hc (node.stop segs)
        simp [Ne.symm hfl] at *; omega
      · intro v hv1 hv2
        rw [hcnt v]; simp [hv1, hv2]; exact hc v
    have hpath : IsPath segs (node.loc segs) [node] (node.stop segs) := by simp [IsPath]
    obtain ⟨ds', ext, hrun, hd', hc', hp', hds'⟩ :=
      ringLoop_spec segs hw h2 (segs.length - (ds.length + 1)) (node.loc segs) (node.stop segs)
        (node.item :: ds) [node] hdok (by simp only [List.length_cons]; omega) (Or.inr hopen) hpath
    simp only [hrun]
    -- the done set is the ring's segments in front of the old ones
    have hds2 : ds' = (ringItems ([node] ++ ext)).reverse ++ ds := by
      rw [hds']; simp [ringItems]
    have hbase : RingOk segs ([node] ++ ext) := by
      have hperm : ((ringItems ([node] ++ ext)).reverse ++ ds).Perm (ringItems ([node] ++ ext) ++ ds) :=
        List.Perm.append_right _ (List.reverse_perm _)
      have hdall : DoneOk segs (ringItems ([node] ++ ext) ++ ds) := doneOk_perm segs _ _ (hds2 ▸ hperm) hd'
      refine ⟨⟨_, hp'⟩, by simp, ?_, ?_⟩
      · exact ⟨(List.nodup_append.mp hdall.1).1, fun i hi => hdall.2 i (List.mem_append_left _ hi)⟩
      · exact closed_of_append segs _ ds h2 hdall hc (closed_perm segs _ _ (hds2 ▸ hperm) hc')
    refine ⟨⟨fixEntries segs ([node] ++ ext) outer.isNone, outer⟩, ds', ?_, ringOk_fix segs _ _ hbase, hd', hc', ?_, ?_⟩
    · simp only [length_fix]
    · rw [hds2]
      exact (List.Perm.append_right _ (List.reverse_perm _)).trans
        (List.Perm.append_right _ (ringItems_fix_perm segs _ _).symm)
    · exact (ringItems_fix_perm segs _ _).mem_iff.mpr (by simp [ringItems])

/-! ## `create_rings_simple_case` -/

/-- the state between two rings -/
structure SimpleInv (segs : List Seg) (rings : List PRing) (ds : List Nat) (cnt : Int) : Prop where
  done : DoneOk segs ds
  closed : Closed segs ds
  /-- `count_remaining` is the number of segments that are not in a ring -/
  count : cnt = (segs.length : Int) - ds.length
  /-- the done segments are exactly the segments of the rings -/
  items : (allItems rings).Perm ds
  rings : ∀ r ∈ rings, RingOk segs r.segs

theorem allItems_append (rings : List PRing) (r : PRing) :
    allItems (rings ++ [r]) = allItems rings ++ ringItems r.segs := by
  simp [allItems]

/-- a duplicate-free list of `n` numbers below `n` contains every number below `n` -/
theorem doneOk_full (segs : List Seg) (ds : List Nat) (hd : DoneOk segs ds)
    (hl : ds.length = segs.length) (i : Nat) (hi : i < segs.length) : i ∈ ds := by
  apply Classical.byContradiction
  intro hn
  have := doneOk_length_lt segs ds hd i hn hi
  omega

theorem simpleFor_spec (enc : Enclosing) (segs : List Seg) (hw : WfSegs segs) (h2 : Deg2 segs) :
    ∀ (rest : List SLoc) (rings : List PRing) (ds : List Nat) (cnt : Int),
    (∀ x ∈ rest, x.item < segs.length) → SimpleInv segs rings ds cnt →
    (∃ rings' ds', simpleFor enc segs (locationsList segs) rest rings ds cnt = some (rings', ds') ∧
      (∃ cnt', SimpleInv segs rings' ds' cnt') ∧ (∀ i ∈ ds, i ∈ ds') ∧
      ((∀ x ∈ rest, x.item ∈ ds') ∨ ds'.length = segs.length)) ∨
    (simpleFor enc segs (locationsList segs) rest rings ds cnt = none ∧ EncFails enc) := by
  intro rest
  induction rest with
  | nil =>
    intro rings ds cnt _ hinv
    exact Or.inl ⟨rings, ds, by simp [simpleFor], ⟨cnt, hinv⟩, fun i hi => hi, Or.inl (by simp)⟩
  | cons sl rest ih =>
    intro rings ds cnt hlt hinv
    have hlt' : ∀ x ∈ rest, x.item < segs.length := fun x hx => hlt x (List.mem_cons_of_mem _ hx)
    by_cases hdone : ds.contains sl.item = true
    · have hmem : sl.item ∈ ds := by simpa using hdone
      rcases ih rings ds cnt hlt' hinv with ⟨rings', ds', hrun, hinv', hmono, hall⟩ | ⟨hrun, hf⟩
      · left
        refine ⟨rings', ds', by simp only [simpleFor, hdone, if_true]; exact hrun, hinv', hmono, ?_⟩
        rcases hall with hall | hall
        · left
          intro x hx
          rcases List.mem_cons.mp hx with rfl | hx
          · exact hmono _ hmem
          · exact hall x hx
        · exact Or.inr hall
      · right
        exact ⟨by simp only [simpleFor, hdone, if_true]; exact hrun, hf⟩
    · have hnm : sl.item ∉ ds := by simpa using hdone
      rcases addNewRing_spec enc segs hw h2 rings ds sl hinv.done hinv.closed
          (hlt sl List.mem_cons_self) hnm with ⟨ring, ds1, hadd, hrok, hd1, hc1, hp1, hin⟩ | ⟨hadd, hf⟩
      · have hlen : (ds1.length : Int) = ring.segs.length + ds.length := by
          have := hp1.length_eq
          simp only [List.length_append, ringItems, List.length_map] at this
          omega
        have hinv1 : SimpleInv segs (rings ++ [ring]) ds1 (cnt - ring.segs.length) := by
          refine ⟨hd1, hc1, ?_, ?_, ?_⟩
          · rw [hinv.count]; omega
          · rw [allItems_append]
            exact ((List.Perm.append_right _ hinv.items).trans List.perm_append_comm).trans hp1.symm
          · intro r hr
            rcases List.mem_append.mp hr with hr | hr
            · exact hinv.rings r hr
            · simp only [List.mem_cons, List.not_mem_nil, or_false] at hr
              subst hr; exact hrok
        have hmono1 : ∀ i ∈ ds, i ∈ ds1 := fun i hi => hp1.mem_iff.mpr (List.mem_append_right _ hi)
        have hsl : sl.item ∈ ds1 := hp1.mem_iff.mpr (List.mem_append_left _ hin)
        by_cases hz : (cnt - (ring.segs.length : Int) == 0) = true
        · left
          refine ⟨rings ++ [ring], ds1, ?_, ⟨_, hinv1⟩, hmono1, Or.inr ?_⟩
          · simp only [simpleFor, hdone, Bool.false_eq_true, if_false, hadd, hz, if_true]
          · have hz' : cnt - (ring.segs.length : Int) = 0 := by simpa using hz
            have := hinv1.count
            omega
        · rcases ih (rings ++ [ring]) ds1 (cnt - ring.segs.length) hlt' hinv1 with
            ⟨rings', ds', hrun, hinv', hmono, hall⟩ | ⟨hrun, hf⟩
          · left
            refine ⟨rings', ds', ?_, hinv', fun i hi => hmono i (hmono1 i hi), ?_⟩
            · simp only [simpleFor, hdone, Bool.false_eq_true, if_false, hadd, hz]
              exact hrun
            · rcases hall with hall | hall
              · left
                intro x hx
                rcases List.mem_cons.mp hx with rfl | hx
                · exact hmono _ hsl
                · exact hall x hx
              · exact Or.inr hall
          · right
            refine ⟨?_, hf⟩
            simp only [simpleFor, hdone, Bool.false_eq_true, if_false, hadd, hz]
            exact hrun
      · right
        refine ⟨?_, hf⟩
        simp only [simpleFor, hdone, Bool.false_eq_true, if_false, hadd]

/-- `create_rings_simple_case` on a degree-2 segment list: either `find_enclosing_ring` fails an
    assertion, or the loops terminate (no `get_next_segment` assertion, the fuel "number of segments
    not in a ring" is never exhausted) and: every ring is a closed chain of distinct segments that
    is closed under "shares an end point", and the rings contain every segment exactly once. -/
theorem createRingsSimple_spec (enc : Enclosing) (segs : List Seg) (hw : WfSegs segs) (h2 : Deg2 segs) :
    (∃ rings ds, createRingsSimple enc segs = some (rings, ds) ∧
      (∀ r ∈ rings, RingOk segs r.segs) ∧ (allItems rings).Perm (List.range segs.length) ∧
      ds.Perm (List.range segs.length)) ∨
    (createRingsSimple enc segs = none ∧ EncFails enc) := by
  unfold createRingsSimple
  have hinv0 : SimpleInv segs [] [] segs.length :=
    ⟨⟨List.nodup_nil, by simp⟩, fun v => by simp [dc_nil], by simp, by simp [allItems], by simp⟩
  rcases simpleFor_spec enc segs hw h2 (locationsList segs) [] [] segs.length
      (locations_items_lt segs) hinv0 with ⟨rings, ds, hrun, ⟨cnt, hinv⟩, _, hall⟩ | h
  · left
    have hfull : ∀ i, i < segs.length → i ∈ ds := by
      rcases hall with hall | hall
      · intro i hi
        exact hall ⟨i, false⟩ ((mem_locationsList segs _).mpr hi)
      · exact doneOk_full segs ds hinv.done hall
    have hperm : ds.Perm (List.range segs.length) := by
      rw [List.perm_ext_iff_of_nodup hinv.done.1 List.nodup_range]
      intro i
      rw [List.mem_range]
      exact ⟨hinv.done.2 i, hfull i⟩
    exact ⟨rings, ds, hrun, hinv.rings, hinv.items.trans hperm, hperm⟩
  · exact Or.inr h

end Osmium.Area
