/-
C17 helper lemmas: the independent WKB decoder inverts the encoder.  Core only.
-/
import Osmium.Lemmas.Geom

namespace Osmium.Geom
namespace Wkb

/-! ### decoder ∘ encoder -/

theorem readU32_u32le (n : Nat) (h : n < 4294967296) (rest : List UInt8) :
    readU32 (u32le n ++ rest) = some (n, rest) := by
  simp only [u32le, readU32, List.cons_append, List.nil_append, UInt8.toNat_ofNat']
  congr 2
  omega

theorem readDbl_bytes (d : Dbl) (rest : List UInt8) : readDbl (d.bytes ++ rest) = some (d, rest) := rfl

theorem readPoint_bytes (p : WPoint) (rest : List UInt8) :
    readPoint (pointBytes p ++ rest) = some (p, rest) := by
  simp [readPoint, pointBytes, readDbl_bytes]

theorem readPoints_enc (ps : List WPoint) (rest : List UInt8) :
    readPoints ps.length (encPoints ps ++ rest) = some (ps, rest) := by
  induction ps with
  | nil => rfl
  | cons p ps ih =>
    simp only [List.length_cons, readPoints, encPoints, List.flatMap_cons, List.append_assoc,
      readPoint_bytes]
    simp only [encPoints] at ih
    simp [ih]

theorem readRing_enc (r : List WPoint) (h : r.length < 4294967296) (rest : List UInt8) :
    readRing (encRing r ++ rest) = some (r, rest) := by
  simp [readRing, encRing, readU32_u32le _ h, readPoints_enc]

theorem readRings_enc (rs : List (List WPoint)) (h : ∀ r ∈ rs, r.length < 4294967296)
    (rest : List UInt8) : readRings rs.length (encRings rs ++ rest) = some (rs, rest) := by
  induction rs with
  | nil => rfl
  | cons r rs ih =>
    simp only [List.length_cons, readRings, encRings, List.flatMap_cons, List.append_assoc]
    rw [readRing_enc r (h r (by simp))]
    simp only [encRings] at ih
    simp [ih (fun r' hr => h r' (by simp [hr]))]

theorem readHead_hdr (c : Cfg) (t : GType) (hs : c.srid < 4294967296) (rest : List UInt8) :
    readHead (hdr c t ++ rest) = some (⟨t.code, if c.ewkb then some c.srid else none⟩, rest) := by
  cases he : c.ewkb with
  | false =>
    cases t <;>
      · simp only [hdr, he, readHead, List.cons_append, List.nil_append, Bool.false_eq_true, if_false,
          GType.code]
        rw [readU32_u32le _ (by omega)]
        simp [wkbSRID]
  | true =>
    cases t <;>
      · simp only [hdr, he, readHead, List.cons_append, List.nil_append, List.append_assoc, if_true,
          GType.code, wkbSRID, Nat.reduceAdd]
        rw [readU32_u32le _ (by omega)]
        simp only [bind, Option.bind_some, Nat.reduceDiv, Nat.reduceMod, if_true]
        rw [readU32_u32le _ hs]
        simp

/-- all counts fit their 32-bit fields -/
def PolyOk (p : Poly WPoint) : Prop :=
  1 + p.inners.length < 4294967296 ∧ p.outer.length < 4294967296 ∧ ∀ r ∈ p.inners, r.length < 4294967296

def CountsOk : Geom WPoint → Prop
  | .point _ => True
  | .linestring ps => ps.length < 4294967296
  | .polygon p => PolyOk p
  | .multipolygon ps => ps.length < 4294967296 ∧ ∀ p ∈ ps, PolyOk p

theorem readPolyBody_enc (p : Poly WPoint) (h : PolyOk p) (rest : List UInt8) :
    readPolyBody (encPolyBody p ++ rest) = some (p, rest) := by
  obtain ⟨h1, h2, h3⟩ := h
  simp only [readPolyBody, encPolyBody, List.append_assoc, readU32_u32le _ h1]
  have : 1 + p.inners.length = p.inners.length + 1 := by omega
  simp [this, readRing_enc _ h2, readRings_enc _ h3]

theorem readPolys_enc (c : Cfg) (hs : c.srid < 4294967296) (ps : List (Poly WPoint))
    (h : ∀ p ∈ ps, PolyOk p) (rest : List UInt8) :
    readPolys (if c.ewkb then some c.srid else none) ps.length (encPolys c ps ++ rest)
      = some (ps, rest) := by
  induction ps with
  | nil => rfl
  | cons p ps ih =>
    simp only [List.length_cons, readPolys, encPolys, List.flatMap_cons, List.append_assoc, encPoly,
      readHead_hdr c .polygon hs]
    simp only [encPolys] at ih
    simp [GType.code, readPolyBody_enc p (h p (by simp)), ih (fun q hq => h q (by simp [hq]))]

theorem parseBin_encode (c : Cfg) (hs : c.srid < 4294967296) (g : Geom WPoint) (hg : CountsOk g) :
    parseBin (encode c g) = some (if c.ewkb then some c.srid else none, g) := by
  cases g with
  | point p =>
    have := readHead_hdr c .point hs (pointBytes p)
    simp only [parseBin, encode, this]
    have := readPoint_bytes p []
    simp only [List.append_nil] at this
    simp [GType.code, this]
  | linestring ps =>
    have := readHead_hdr c .linestring hs (u32le ps.length ++ encPoints ps)
    simp only [parseBin, encode, List.append_assoc, this]
    have := readRing_enc ps hg []
    simp only [List.append_nil, encRing] at this
    simp [GType.code, this]
  | polygon p =>
    have := readHead_hdr c .polygon hs (encPolyBody p)
    simp only [parseBin, encode, encPoly, this]
    have := readPolyBody_enc p hg []
    simp only [List.append_nil] at this
    simp [GType.code, this]
  | multipolygon ps =>
    have := readHead_hdr c .multipolygon hs (u32le ps.length ++ encPolys c ps)
    simp only [parseBin, encode, List.append_assoc, this]
    have := readPolys_enc c hs ps hg.2 []
    simp only [List.append_nil] at this
    simp [GType.code, readU32_u32le _ hg.1, this]

theorem hexVal_hexChar : ∀ n, n < 16 → hexVal (hexChar n) = some n := by decide

theorem unHex_toHex (bs : List UInt8) : unHex (toHex bs) = some bs := by
  induction bs with
  | nil => rfl
  | cons b bs ih =>
    have h1 : b.toNat / 16 < 16 := by have := b.toNat_lt; omega
    have h2 : b.toNat % 16 < 16 := by omega
    simp only [toHex, List.flatMap_cons, List.cons_append, List.nil_append, unHex,
      hexVal_hexChar _ h1, hexVal_hexChar _ h2]
    simp only [toHex] at ih
    have h3 : UInt8.ofNat (16 * (b.toNat / 16) + b.toNat % 16) = b := by
      have : 16 * (b.toNat / 16) + b.toNat % 16 = b.toNat := by omega
      rw [this]; exact UInt8.ofNat_toNat
    simp only [bind, Option.bind_some, ih, h3, pure]

theorem parse_emit (c : Cfg) (hs : c.srid < 4294967296) (g : Geom WPoint) (hg : CountsOk g) :
    parse c.hex (emit c g) = some (if c.ewkb then some c.srid else none, g) := by
  cases hh : c.hex <;> simp [parse, emit, out, hh, unHex_toHex, parseBin_encode c hs g hg]

end Wkb

end Osmium.Geom
