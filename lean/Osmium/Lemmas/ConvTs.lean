/-
Lemmas for C13, timestamp part: the civil-date arithmetic behind `timegm` / `gmtime_r`
(H. Hinnant's days_from_civil / civil_from_days are mutually inverse, field ranges), the digit
renderers `add2` / `add4`, the characterisation of `parseTimestamp` on well-formed input and the
round trip `parseTimestamp (toIsoAll t) = t` for every 32-bit timestamp.
-/
import Osmium.Model.Conv

namespace Osmium.Conv

/-! ### civil_from_days / days_from_civil -/

theorem yoe_bounds (doe : Nat) (h : doe < 146097) :
    let yoe := (doe - doe / 1460 + doe / 36524 - doe / 146096) / 365
    yoe ≤ 399 ∧ 365 * yoe + yoe / 4 - yoe / 100 ≤ doe ∧ doe - (365 * yoe + yoe / 4 - yoe / 100) ≤ 365 := by
  intro yoe
  have he : doe / 36524 = 0 ∨ doe / 36524 = 1 ∨ doe / 36524 = 2 ∨ doe / 36524 = 3 ∨ doe / 36524 = 4 := by omega
  have hy : yoe ≤ 399 := by omega
  have hc : yoe / 100 = 0 ∨ yoe / 100 = 1 ∨ yoe / 100 = 2 ∨ yoe / 100 = 3 := by omega
  rcases he with he | he | he | he | he <;> rcases hc with hc | hc | hc | hc <;> omega

/-- `yoe` is the LAST year of the era starting on or before `doe` -/
theorem yoe_upper (doe : Nat) (h : doe < 146097) :
    let yoe := (doe - doe / 1460 + doe / 36524 - doe / 146096) / 365
    yoe ≤ 398 → doe < 365 * (yoe + 1) + (yoe + 1) / 4 - (yoe + 1) / 100 := by
  intro yoe
  have he : doe / 36524 = 0 ∨ doe / 36524 = 1 ∨ doe / 36524 = 2 ∨ doe / 36524 = 3 ∨ doe / 36524 = 4 := by omega
  have hy : yoe ≤ 399 := by omega
  have hc : yoe / 100 = 0 ∨ yoe / 100 = 1 ∨ yoe / 100 = 2 ∨ yoe / 100 = 3 := by omega
  have hc' : (yoe + 1) / 100 = yoe / 100 ∨ (yoe + 1) / 100 = yoe / 100 + 1 := by omega
  rcases he with he | he | he | he | he <;> rcases hc with hc | hc | hc | hc <;>
    rcases hc' with hc' | hc' <;> omega

/-- month number 1..12 from the March-based month index 0..11 -/
def monthOfMp (mp : Nat) : Nat := if mp < 10 then mp + 3 else mp - 9

theorem daysFromCivil_core (era yoe doy doe mp : Nat) (hy : yoe ≤ 399) (hdoy : doy ≤ 365)
    (hdoe : doe = 365 * yoe + yoe / 4 - yoe / 100 + doy) (hmp : mp = (5 * doy + 2) / 153) :
    daysFromCivil (if monthOfMp mp ≤ 2 then yoe + era * 400 + 1 else yoe + era * 400) (monthOfMp mp)
        (doy - (153 * mp + 2) / 5 + 1)
      = ((era * 146097 + doe : Nat) : Int) - 719468 := by
  have hmp11 : mp ≤ 11 := by omega
  by_cases h10 : mp < 10
  · have h1 : ¬ (mp + 3 ≤ 2) := by omega
    have h2 : mp + 3 > 2 := by omega
    simp only [monthOfMp, daysFromCivil, h10, h1, h2, if_false, if_true]
    omega
  · have h1 : mp - 9 ≤ 2 := by omega
    have h2 : ¬ (mp - 9 > 2) := by omega
    simp only [monthOfMp, daysFromCivil, h10, h1, h2, if_false, if_true]
    omega

theorem civilFromDays_spec (z : Nat) : ∃ era yoe doy doe mp : Nat,
    yoe ≤ 399 ∧ doy ≤ 365 ∧ doe = 365 * yoe + yoe / 4 - yoe / 100 + doy ∧ mp = (5 * doy + 2) / 153 ∧
    z + 719468 = era * 146097 + doe ∧
    civilFromDays z = (if monthOfMp mp ≤ 2 then yoe + era * 400 + 1 else yoe + era * 400, monthOfMp mp,
      doy - (153 * mp + 2) / 5 + 1) ∧
    (yoe ≤ 398 → doe < 365 * (yoe + 1) + (yoe + 1) / 4 - (yoe + 1) / 100) := by
  have hdoe : (z + 719468) - (z + 719468) / 146097 * 146097 < 146097 := by omega
  obtain ⟨hy, hle, hdoy⟩ := yoe_bounds _ hdoe
  refine ⟨(z + 719468) / 146097, _, _, (z + 719468) - (z + 719468) / 146097 * 146097, _,
    hy, hdoy, ?_, rfl, ?_, rfl, yoe_upper _ hdoe⟩
  · omega
  · omega

theorem daysFromCivil_civilFromDays (z : Nat) :
    let (y, m, d) := civilFromDays z
    daysFromCivil y m d = (z : Int) := by
  obtain ⟨era, yoe, doy, doe, mp, hy, hdoy, hdoe, hmp, hz, h, -⟩ := civilFromDays_spec z
  rw [h]
  simp only []
  rw [daysFromCivil_core era yoe doy doe mp hy hdoy hdoe hmp]
  omega

theorem civilFromDays_month_day (z : Nat) :
    let (_, m, d) := civilFromDays z
    1 ≤ m ∧ m ≤ 12 ∧ 1 ≤ d ∧ d ≤ monLengths.getD (m - 1) 0 := by
  obtain ⟨era, yoe, doy, doe, mp, hy, hdoy, hdoe, hmp, hz, h, -⟩ := civilFromDays_spec z
  rw [h]
  simp only []
  have hmp11 : mp ≤ 11 := by omega
  have hc : mp = 0 ∨ mp = 1 ∨ mp = 2 ∨ mp = 3 ∨ mp = 4 ∨ mp = 5 ∨ mp = 6 ∨ mp = 7 ∨ mp = 8 ∨
      mp = 9 ∨ mp = 10 ∨ mp = 11 := by omega
  rcases hc with hc | hc | hc | hc | hc | hc | hc | hc | hc | hc | hc | hc <;>
    subst hc <;> simp [monthOfMp, monLengths] <;> omega

theorem civilFromDays_fields (z : Nat) (hz : z ≤ 49710) :
    let (y, m, d) := civilFromDays z
    1970 ≤ y ∧ y ≤ 2106 ∧ 1 ≤ m ∧ m ≤ 12 ∧ 1 ≤ d ∧ d ≤ monLengths.getD (m - 1) 0 := by
  have hmd := civilFromDays_month_day z
  obtain ⟨era, yoe, doy, doe, mp, hy, hdoy, hdoe, hmp, hz', h, -⟩ := civilFromDays_spec z
  rw [h] at hmd ⊢
  simp only [] at hmd ⊢
  refine ⟨?_, ?_, hmd⟩
  · have hmp11 : mp ≤ 11 := by omega
    have he : era = 4 ∨ era = 5 := by omega
    by_cases h10 : mp < 10
    · have h1 : ¬ (mp + 3 ≤ 2) := by omega
      simp only [monthOfMp, h10, h1, if_true, if_false]
      omega
    · have h1 : mp - 9 ≤ 2 := by omega
      simp only [monthOfMp, h10, h1, if_true, if_false]
      omega
  · have hmp11 : mp ≤ 11 := by omega
    have he : era = 4 ∨ era = 5 := by omega
    by_cases h10 : mp < 10
    · have h1 : ¬ (mp + 3 ≤ 2) := by omega
      simp only [monthOfMp, h10, h1, if_true, if_false]
      omega
    · have h1 : mp - 9 ≤ 2 := by omega
      simp only [monthOfMp, h10, h1, if_true, if_false]
      omega

/-! ### digits, `add2`, `add4` -/

theorem digitChar_fin : ∀ k : Fin 10,
    isDigit (digitChar k.val) = true ∧ digitVal (digitChar k.val) = k.val := by decide

theorem digitChar_mod (d : Nat) : digitChar (d % 10) = digitChar d := by
  simp [digitChar]

theorem isDigit_digitChar (d : Nat) : isDigit (digitChar d) = true := by
  rw [← digitChar_mod]
  exact (digitChar_fin ⟨d % 10, Nat.mod_lt _ (by decide)⟩).1

theorem digitVal_digitChar (d : Nat) : digitVal (digitChar d) = d % 10 := by
  rw [← digitChar_mod]
  exact (digitChar_fin ⟨d % 10, Nat.mod_lt _ (by decide)⟩).2

/-- two decimal digits of `v` (total; the value is recovered for `v ≤ 99`) -/
def fmt2 (v : Nat) : List UInt8 := [digitChar (v / 10), digitChar (v % 10)]

/-- four decimal digits of `v` (total; the value is recovered for `v ≤ 9999`) -/
def fmt4 (v : Nat) : List UInt8 :=
  [digitChar (v / 1000), digitChar (v / 100 % 10), digitChar (v / 10 % 10), digitChar (v % 10)]

theorem add2_eq_fmt2 (v : Nat) : add2 v = fmt2 v := by
  unfold add2 fmt2
  split
  · have : v - v / 10 * 10 = v % 10 := by omega
    rw [this]
  · have h1 : v / 10 = 0 := by omega
    have h2 : v % 10 = v := by omega
    rw [h1, h2]; rfl

theorem add4_eq_fmt4 (v : Nat) : add4 v = fmt4 v := by
  have h1 : (v - v / 1000 * 1000) / 100 = v / 100 % 10 := by omega
  have h2 : (v - v / 1000 * 1000 - v / 100 % 10 * 100) / 10 = v / 10 % 10 := by omega
  have h3 : v - v / 1000 * 1000 - v / 100 % 10 * 100 - v / 10 % 10 * 10 = v % 10 := by omega
  simp only [add4, fmt4, h1, h2, h3]

theorem add2_digits (v : Nat) (hv : v ≤ 99) : ∃ a b : UInt8, add2 v = [a, b] ∧
    isDigit a = true ∧ isDigit b = true ∧ digitVal a * 10 + digitVal b = v := by
  refine ⟨_, _, add2_eq_fmt2 v, isDigit_digitChar _, isDigit_digitChar _, ?_⟩
  simp only [digitVal_digitChar]; omega

theorem add4_digits (v : Nat) (hv : v ≤ 9999) : ∃ a b c d : UInt8, add4 v = [a, b, c, d] ∧
    isDigit a = true ∧ isDigit b = true ∧ isDigit c = true ∧ isDigit d = true ∧
    digitVal a * 1000 + digitVal b * 100 + digitVal c * 10 + digitVal d = v := by
  refine ⟨_, _, _, _, add4_eq_fmt4 v, isDigit_digitChar _, isDigit_digitChar _, isDigit_digitChar _,
    isDigit_digitChar _, ?_⟩
  simp only [digitVal_digitChar]; omega

/-! ### parse_timestamp on well-formed input, round trip -/

theorem ts_parse_valid_fields (y mo d h mi s : Nat) (hy : y ≤ 9999) (hmo : mo ≤ 99) (hd : d ≤ 99)
    (hh : h ≤ 99) (hmi : mi ≤ 99) (hs : s ≤ 99) (rest : List UInt8) :
    parseTimestamp (fmt4 y ++ [cMinus] ++ fmt2 mo ++ [cMinus] ++ fmt2 d ++ [cT] ++ fmt2 h ++
        [cColon] ++ fmt2 mi ++ [cColon] ++ fmt2 s ++ [cZ] ++ rest)
      = if 1900 ≤ y ∧ 1 ≤ mo ∧ mo ≤ 12 ∧ 1 ≤ d ∧ d ≤ monLengths.getD (mo - 1) 0 ∧ h ≤ 23 ∧
            mi ≤ 59 ∧ s ≤ 60 then .ok (timegm y mo d h mi s, rest)
        else .error .invalidArgument := by
  have e4 : digitVal (digitChar (y / 1000)) * 1000 + digitVal (digitChar (y / 100 % 10)) * 100 +
      digitVal (digitChar (y / 10 % 10)) * 10 + digitVal (digitChar (y % 10)) = y := by
    simp only [digitVal_digitChar]; omega
  have e2 : ∀ v, v ≤ 99 → digitVal (digitChar (v / 10)) * 10 + digitVal (digitChar (v % 10)) = v := by
    intro v hv; simp only [digitVal_digitChar]; omega
  simp only [fmt4, fmt2, List.cons_append, List.nil_append, parseTimestamp,
    isDigit_digitChar, Bool.and_true, beq_self_eq_true, peek, if_true, e4, e2 _ hmo, e2 _ hd,
    e2 _ hh, e2 _ hmi, e2 _ hs, List.tail_cons]
  simp [and_assoc]
theorem monLengths_le : ∀ k, monLengths.getD k 0 ≤ 31
  | 0 | 1 | 2 | 3 | 4 | 5 | 6 | 7 | 8 | 9 | 10 | 11 => by decide
  | k + 12 => by simp [monLengths]

theorem toIsoAll_eq (t : Nat) :
    toIsoAll t = fmt4 (gmtime t).1 ++ [cMinus] ++ fmt2 (gmtime t).2.1 ++ [cMinus] ++
      fmt2 (gmtime t).2.2.1 ++ [cT] ++ fmt2 (gmtime t).2.2.2.1 ++ [cColon] ++
      fmt2 (gmtime t).2.2.2.2.1 ++ [cColon] ++ fmt2 (gmtime t).2.2.2.2.2 ++ [cZ] := by
  simp only [toIsoAll, add2_eq_fmt2, add4_eq_fmt4]

theorem ts_roundtrip (t : Nat) (ht : t < 4294967296) (rest : List UInt8) :
    parseTimestamp (toIsoAll t ++ rest) = .ok ((t : Int), rest) := by
  have hz : t / 86400 ≤ 49710 := by omega
  have hf := civilFromDays_fields _ hz
  have hr := daysFromCivil_civilFromDays (t / 86400)
  rcases hc : civilFromDays (t / 86400) with ⟨y, m, d⟩
  rw [hc] at hf hr
  simp only [] at hf hr
  obtain ⟨hy1, hy2, hm1, hm2, hd1, hd2⟩ := hf
  have hd3 := monLengths_le (m - 1)
  have hg : gmtime t = (y, m, d, t % 86400 / 3600, t % 86400 % 3600 / 60, t % 86400 % 60) := by
    simp only [gmtime, hc]
  rw [toIsoAll_eq, hg]
  simp only []
  rw [ts_parse_valid_fields y m d _ _ _ (by omega) (by omega) (by omega) (by omega) (by omega)
    (by omega) rest]
  rw [if_pos ⟨by omega, hm1, hm2, hd1, hd2, by omega, by omega, by omega⟩]
  have e : ((t / 86400 : Nat) : Int) * 86400 +
      ((t % 86400 / 3600 * 3600 + t % 86400 % 3600 / 60 * 60 + t % 86400 % 60 : Nat) : Int) = (t : Int) := by
    omega
  simp only [timegm, hr, e]

theorem toU32_of_lt (t : Nat) (ht : t < 4294967296) : toU32 (t : Int) = t := by
  unfold toU32
  rw [Int.emod_eq_of_lt (by omega) (by omega : (t : Int) < 4294967296)]
  rfl

theorem timestampOfString_of_parse (s r : List UInt8) (x : Int)
    (h : parseTimestamp s = .ok (x, r)) : timestampOfString s = .ok (toU32 x) := by
  unfold timestampOfString
  rw [h]

theorem ts_roundtrip_u32 (t : Nat) (ht : t < 4294967296) (rest : List UInt8) :
    timestampOfString (toIsoAll t ++ rest) = .ok t := by
  rw [timestampOfString_of_parse _ _ _ (ts_roundtrip t ht rest), toU32_of_lt t ht]

/-! ### calendar facts about the `timegm` contract -/

/-- Gregorian leap year rule -/
def isLeap (y : Nat) : Bool := y % 4 == 0 && (y % 100 != 0 || y % 400 == 0)

/-- actual length of month `m` (1..12) of year `y` -/
def daysInMonth (y m : Nat) : Nat :=
  if m = 2 then (if isLeap y then 29 else 28)
  else if m = 4 ∨ m = 6 ∨ m = 9 ∨ m = 11 then 30 else 31

theorem daysInMonth_le_monLengths (y m : Nat) (hm1 : 1 ≤ m) (hm : m ≤ 12) :
    daysInMonth y m ≤ monLengths.getD (m - 1) 0 := by
  have hc : m = 1 ∨ m = 2 ∨ m = 3 ∨ m = 4 ∨ m = 5 ∨ m = 6 ∨ m = 7 ∨ m = 8 ∨ m = 9 ∨ m = 10 ∨
      m = 11 ∨ m = 12 := by omega
  rcases hc with h | h | h | h | h | h | h | h | h | h | h | h <;> subst h <;>
    simp [daysInMonth, monLengths] <;> split <;> omega

theorem timegm_is_seconds (y mo d h mi s : Nat) :
    timegm y mo d h mi s = daysFromCivil y mo d * 86400 + (h : Int) * 3600 + (mi : Int) * 60 + (s : Int) := by
  unfold timegm; omega

theorem daysFromCivil_succ_day (y m d : Nat) (hd : 1 ≤ d) :
    daysFromCivil y m (d + 1) = daysFromCivil y m d + 1 := by
  simp only [daysFromCivil]
  omega

theorem daysFromCivil_add_days (y m d k : Nat) (hd : 1 ≤ d) :
    daysFromCivil y m (d + k) = daysFromCivil y m d + k := by
  induction k with
  | zero => simp
  | succ k ih => rw [← Nat.add_assoc, daysFromCivil_succ_day _ _ _ (by omega), ih]; omega

theorem daysFromCivil_next_month (y m : Nat) (hy : 1 ≤ y) (hm1 : 1 ≤ m) (hm : m ≤ 12) :
    daysFromCivil y m (daysInMonth y m + 1)
      = daysFromCivil (if m = 12 then y + 1 else y) (if m = 12 then 1 else m + 1) 1 := by
  have hc : m = 1 ∨ m = 2 ∨ m = 3 ∨ m = 4 ∨ m = 5 ∨ m = 6 ∨ m = 7 ∨ m = 8 ∨ m = 9 ∨ m = 10 ∨
      m = 11 ∨ m = 12 := by omega
  rcases hc with h | h | h | h | h | h | h | h | h | h | h | h <;> subst h <;>
    simp [daysFromCivil, daysInMonth, isLeap] <;> first | omega | (split <;> omega)

theorem daysFromCivil_feb29_nonleap (y : Nat) (hy : 1 ≤ y) (hl : isLeap y = false) :
    daysFromCivil y 2 29 = daysFromCivil y 3 1 := by
  have h := daysFromCivil_next_month y 2 hy (by omega) (by omega)
  simp only [daysInMonth, hl] at h
  simpa using h

/-- the day number 365 of a March-based year exists only before a leap-year March -/
theorem leap_of_doy365 (yoe doe : Nat) (hy : yoe ≤ 399)
    (h1 : doe = 365 * yoe + yoe / 4 - yoe / 100 + 365)
    (h2 : yoe ≤ 398 → doe < 365 * (yoe + 1) + (yoe + 1) / 4 - (yoe + 1) / 100) :
    (yoe + 1) % 4 = 0 ∧ ((yoe + 1) % 100 ≠ 0 ∨ yoe = 399) := by
  by_cases h399 : yoe = 399
  · omega
  · have := h2 (by omega)
    omega

/-- `civilFromDays` (the `gmtime_r` contract) always returns a real calendar date -/
theorem civilFromDays_real (z : Nat) :
    let (y, m, d) := civilFromDays z
    1 ≤ m ∧ m ≤ 12 ∧ 1 ≤ d ∧ d ≤ daysInMonth y m := by
  obtain ⟨era, yoe, doy, doe, mp, hy, hdoy, hdoe, hmp, hz, h, hup⟩ := civilFromDays_spec z
  rw [h]
  simp only []
  have hmp11 : mp ≤ 11 := by omega
  have hc : mp = 0 ∨ mp = 1 ∨ mp = 2 ∨ mp = 3 ∨ mp = 4 ∨ mp = 5 ∨ mp = 6 ∨ mp = 7 ∨ mp = 8 ∨
      mp = 9 ∨ mp = 10 ∨ mp = 11 := by omega
  rcases hc with hc | hc | hc | hc | hc | hc | hc | hc | hc | hc | hc | hc
  case inr.inr.inr.inr.inr.inr.inr.inr.inr.inr.inr =>
    subst hc
    have hl : doy = 365 → (yoe + 1) % 4 = 0 ∧ ((yoe + 1) % 100 ≠ 0 ∨ yoe = 399) :=
      fun h365 => leap_of_doy365 yoe doe hy (by omega) hup
    simp [monthOfMp, daysInMonth, isLeap]
    split <;> omega
  all_goals (subst hc; simp [monthOfMp, daysInMonth]; omega)

end Osmium.Conv
