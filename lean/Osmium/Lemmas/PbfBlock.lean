/-
One PrimitiveBlock: string table + one group of node / way / relation messages, read by
`PBFPrimitiveBlockDecoder::operator()` (both passes), given what each item decodes to.
-/
import Osmium.Lemmas.PbfBytes

namespace Osmium.Pbf

open Osmium.Wire Osmium.Osm Osmium.PbfMsg
open Osmium.StringTable (Table lookup)

/-- the per-item decoder of a group field of kind 1 / 3 / 4 -/
def decKind (k : Nat) (p : Params) : List Field → Option Object :=
  if k == 1 then decodeNode p {} else if k == 3 then decodeWay p {} else decodeRelation p {}

/-- payloads (serialized Node/Way/Relation messages) and the objects they decode to -/
def ItemsDec (k : Nat) (p : Params) : List Bytes → List Object → Prop
  | [], [] => True
  | pl :: pls, ob :: obs => withFields pl (decKind k p) = some ob ∧ ItemsDec k p pls obs
  | _, _ => False

theorem groupStep_item (k : Nat) (hk : k = 1 ∨ k = 3 ∨ k = 4) (p : Params) (acc : List Object) (pl : Bytes) :
    groupStep p {} acc (fBytes k pl) = (withFields pl (decKind k p)).map fun ob => acc ++ [ob] := by
  rcases hk with rfl | rfl | rfl <;> simp [groupStep, fBytes, decKind]

theorem group_fold (k : Nat) (hk : k = 1 ∨ k = 3 ∨ k = 4) (p : Params) : ∀ (pls : List Bytes) (obs acc : List Object),
    ItemsDec k p pls obs → decodeMsg (groupStep p {}) acc (pls.map (fBytes k)) = some (acc ++ obs)
  | [], [], acc, _ => by simp [decodeMsg]
  | [], _ :: _, _, h => by simp [ItemsDec] at h
  | _ :: _, [], _, h => by simp [ItemsDec] at h
  | pl :: pls, ob :: obs, acc, h => by
    obtain ⟨h1, h2⟩ := h
    have ih := group_fold k hk p pls obs (acc ++ [ob]) h2
    unfold decodeMsg at ih ⊢
    simp only [List.map_cons, foldlM_cons', groupStep_item k hk, h1, Option.map_some, Option.bind_some, ih]
    simp

/-- a string `decode_stringtable` accepts (and an OSM string as the C++ API can hold it): at most
    `max_osm_string_length` = 1024 bytes and no embedded NUL byte (the reader rejects NUL since
    repair da64936; `const char*` strings of the builders cannot contain one) -/
def StrOk (s : Bytes) : Prop := s.length ≤ 1024 ∧ s.contains 0 = false

instance (s : Bytes) : Decidable (StrOk s) := by unfold StrOk; infer_instance

theorem strOk_nil : StrOk [] := ⟨by decide, rfl⟩

theorem stringtable_fields_wf (strs : List Bytes) (h : ∀ s ∈ strs, StrOk s) : ∀ f ∈ strs.map (fBytes 1), f.WF := by
  intro f hf
  obtain ⟨s, hs, rfl⟩ := List.mem_map.mp hf
  exact wf_bytes 1 s (by decide) (by decide) (by have := (h s hs).1; simp only [Nat.reducePow]; omega)

/-- `decode_stringtable` returns the strings the writer put in -/
theorem decodeStringTable_enc (strs : List Bytes) (h : ∀ s ∈ strs, StrOk s) :
    decodeStringTable [] (encodeFields (strs.map (fBytes 1))) = some strs := by
  unfold decodeStringTable withFields
  rw [readFields_encodeFields _ (stringtable_fields_wf strs h)]
  have hf : (strs.map (fBytes 1)).filter (fun f => f.tag == 1 && f.wt == .lengthDelimited) = strs.map (fBytes 1) := by
    rw [List.filter_eq_self]; intro f hf; obtain ⟨s, _, rfl⟩ := List.mem_map.mp hf; rfl
  have hm : (strs.map (fBytes 1)).map (·.payload) = strs := by
    rw [List.map_map]
    have : ((fun x => x.payload) ∘ fBytes 1) = id := by funext x; rfl
    rw [this, List.map_id]
  have hany : (strs.any fun s => decide (s.length > maxOsmStringLength) || s.contains 0) = false := by
    rw [List.any_eq_false]; intro s hs; have := (h s hs).1; have hn := (h s hs).2
    have hd : decide (s.length > maxOsmStringLength) = false := decide_eq_false (by unfold maxOsmStringLength; omega)
    rw [hd, hn]; decide
  simp only [hf, hm, hany]
  rfl

/-- both passes of the block decoder over "string table, one group of kind k" -/
theorem block_decode (k : Nat) (hk : k = 1 ∨ k = 3 ∨ k = 4) (strs : List Bytes) (pls : List Bytes) (obs : List Object)
    (hs : ∀ s ∈ strs, StrOk s) (hitems : ItemsDec k { strings := strs } pls obs)
    (hpl : ∀ pl ∈ pls, pl.length < 2 ^ 32) :
    decodeBlock {} [fBytes 1 (encodeFields (strs.map (fBytes 1))), fBytes 2 (encodeFields (pls.map (fBytes k)))] = some obs := by
  have hwf : ∀ f ∈ pls.map (fBytes k), f.WF := by
    intro f hf
    obtain ⟨pl, hp, rfl⟩ := List.mem_map.mp hf
    exact wf_bytes k pl (by rcases hk with rfl | rfl | rfl <;> decide) (by rcases hk with rfl | rfl | rfl <;> decide) (hpl pl hp)
  have hmeta : decodeMsg blockMetaStep {} [fBytes 1 (encodeFields (strs.map (fBytes 1))), fBytes 2 (encodeFields (pls.map (fBytes k)))] =
      some { strings := strs } := by
    simp [decodeMsg, blockMetaStep, fBytes, decodeStringTable_enc strs hs]
  unfold decodeBlock
  rw [hmeta]
  simp only [decodeMsg, List.foldlM_cons, List.foldlM_nil, blockDataStep, fBytes, bind, Option.bind, pure]
  unfold withFields
  rw [readFields_encodeFields _ hwf]
  have g := group_fold k hk { strings := strs } pls obs [] hitems
  simp only [decodeMsg, List.nil_append] at g
  simp [g]

end Osmium.Pbf
