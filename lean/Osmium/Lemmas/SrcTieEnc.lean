/-
`src_tie_*` lemmas for the OPL string ESCAPING of the writer, `osmium::io::detail::append_utf8_encoded_string(std::string& out,
const char* data)` (io/detail/string_util.hpp), TRANSLATED by tools/cxx2lean.py (`Src.StringUtil.append_utf8_encoded_string`
with its loop: `std::strlen`, `next_utf8_codepoint(&data, end_ptr)` called with the by-value parameter as the callee's cursor
cell, the pass-through test, `out.append(prev, data)`, `append_2_hex_digits` / `append_min_4_hex_digits` with the static table
`lookup_hex`), against the model `Opl.escape` / `escapeLoop` (Osmium/Model/Escape.lean) of the C14 theorems.
The array is `s ++ 0 :: t` with `s` free of NULs (the C string), `data` the index `i ≤ s.length`; the static literal
"0123456789abcdef" lies in the array at `lookup_hex` (`append_utf8_encoded_string_lits`, an extra parameter).
-/
import Osmium.Lemmas.Escape
import Osmium.Lemmas.SrcTieUtf8
import Osmium.Lemmas.SrcTieHex

set_option Elab.async false
set_option linter.unusedSimpArgs false

namespace Osmium.SrcTie.Enc

open Osmium.Generated Osmium.CxxSem Osmium.Conv Osmium.Cursor Osmium.SrcTie.Coord Osmium.SrcTie.Esc Osmium.SrcTie.Hex
open Src.StringUtil

/-- `strlen` of a NUL-free string in front of its NUL -/
theorem takeWhile_nonul (u t : List UInt8) (hu : ∀ c ∈ u, c ≠ 0) :
    (u ++ 0 :: t).takeWhile (fun c => c != 0) = u := by
  induction u with
  | nil => simp
  | cons a u ih =>
    have ha : a ≠ 0 := hu a (by simp)
    have : (a != 0) = true := by simp [ha]
    rw [List.cons_append, List.takeWhile_cons, if_pos this, ih (fun c hc => hu c (by simp [hc]))]

theorem strlen_cbuf (s t : List UInt8) (hs : ∀ c ∈ s, c ≠ 0) (i : Nat) (hi : i ≤ s.length) :
    strlen (s ++ 0 :: t) (i : Int) = ((s.length - i : Nat) : Int) := by
  unfold strlen
  rw [Int.toNat_natCast, List.drop_append_of_le_length hi,
      takeWhile_nonul (s.drop i) t (fun c hc => hs c (List.mem_of_mem_drop hc)), List.length_drop]

theorem slice_cbuf (s t : List UInt8) (i n : Nat) (h : i + n ≤ s.length) (a b : Int) (ha : a = (i : Int)) (hb : b = ((i + n : Nat) : Int)) :
    slice (s ++ 0 :: t) a b = (s.drop i).take n ∧ sliceOk (s ++ 0 :: t) a b = true := by
  subst ha hb
  constructor
  · unfold slice
    rw [Int.toNat_natCast, Int.toNat_natCast, List.drop_append_of_le_length (by omega)]
    have e : i + n - i = n := by omega
    rw [e, List.take_append_of_le_length (by rw [List.length_drop]; omega)]
  · simp only [sliceOk, Bool.and_eq_true, decide_eq_true_eq, List.length_append, List.length_cons]
    omega

/-- the literal "0123456789abcdef" at `h` is the model's table of hex digits -/
theorem src_tie_lookup_hex_table (buf out : Buf) (d h : Int) (hl : append_utf8_encoded_string_lits buf out d h = true) : HexTable buf h := by
  unfold append_utf8_encoded_string_lits litAt at hl
  simp only [Bool.and_eq_true, decide_eq_true_eq, beq_iff_eq] at hl
  obtain ⟨h0, hl⟩ := hl
  intro k hk
  have e : h + (k : Int) = ((h.toNat + k : Nat) : Int) := by omega
  have hlen := congrArg List.length hl
  simp only [List.length_take, List.length_drop, List.length_cons, List.length_nil] at hlen
  have hget : ∀ j, j < 17 → buf.getD (h.toNat + j) 0 = ([48, 49, 50, 51, 52, 53, 54, 55, 56, 57, 97, 98, 99, 100, 101, 102, 0] : List UInt8).getD j 0 := by
    intro j hj
    rw [← hl]
    simp only [List.getD_eq_getElem?_getD, List.getElem?_take, List.getElem?_drop]
    have : j < 17 := hj
    simp only [List.length_cons, List.length_nil] at *
    rw [if_pos (by omega)]
  constructor
  · rw [e]; simp only [inB, Bool.and_eq_true, decide_eq_true_eq]; omega
  · rw [e]; unfold rdS rdU; rw [Int.toNat_natCast, hget k (by omega)]
    have : k = 0 ∨ k = 1 ∨ k = 2 ∨ k = 3 ∨ k = 4 ∨ k = 5 ∨ k = 6 ∨ k = 7 ∨ k = 8 ∨ k = 9 ∨ k = 10 ∨ k = 11 ∨ k = 12 ∨ k = 13 ∨
        k = 14 ∨ k = 15 := by omega
    rcases this with h | h | h | h | h | h | h | h | h | h | h | h | h | h | h | h <;> subst h <;> decide

/-- the translated pass-through test is the model's `pass` (the table `Generated.oplPass` is regenerated from the
    compiled code on every run: this lemma also ties that table to the source text) -/
theorem pass_cond (c : Nat) :
    ((((((((le 33 (c : Int)) && (le (c : Int) 36)) || ((le 38 (c : Int)) && (le (c : Int) 43))) || ((le 45 (c : Int)) && (le (c : Int) 60))) ||
      ((le 62 (c : Int)) && (le (c : Int) 63))) || ((le 65 (c : Int)) && (le (c : Int) 126))) || ((le 161 (c : Int)) && (le (c : Int) 172))) ||
      ((le 174 (c : Int)) && (le (c : Int) 1535))) = Opl.pass c := by
  rw [Bool.eq_iff_iff]
  simp only [Opl.pass, Generated.oplPass, List.any_cons, List.any_nil, Bool.or_false, Bool.or_eq_true, Bool.and_eq_true, le_iff,
    decide_eq_true_eq]
  omega

theorem pass_iff (c : Nat) : Opl.pass c = true ↔
    (33 ≤ c ∧ c ≤ 36 ∨ 38 ≤ c ∧ c ≤ 43 ∨ 45 ≤ c ∧ c ≤ 60 ∨ 62 ≤ c ∧ c ≤ 63 ∨ 65 ≤ c ∧ c ≤ 126 ∨ 161 ≤ c ∧ c ≤ 172 ∨ 174 ≤ c ∧ c ≤ 1535) := by
  simp only [Opl.pass, Generated.oplPass, List.any_cons, List.any_nil, Bool.or_false, Bool.or_eq_true, Bool.and_eq_true, decide_eq_true_eq,
    or_assoc]

/-- what the model returns after an iteration that appended `p` -/
def encCont (p : List UInt8) : Except Utf8.Err (List UInt8) → Except Utf8.Err (List UInt8)
  | .error e => .error e
  | .ok r => .ok (p ++ r)

theorem escapeLoop_succ (fm : Nat) (bs : List UInt8) :
    Opl.escapeLoop (fm + 1) bs =
      if bs.isEmpty then .ok []
      else match Utf8.next bs with
        | .error e => .error e
        | .ok (c, len) => encCont (Opl.piece c (bs.take len)) (Opl.escapeLoop fm (bs.drop len)) := by
  rw [Opl.escapeLoop]
  split
  · rfl
  · cases Utf8.next bs with
    | error e => rfl
    | ok q =>
      obtain ⟨c, len⟩ := q
      dsimp only
      cases Opl.escapeLoop fm (bs.drop len) with
      | error e => rfl
      | ok r => rfl

/-- a model result as what the translated loop delivers: everything escaped and appended, the cursor at the NUL; or the
    exception of `next_utf8_codepoint` with the string as far as it was built -/
def EncFlow (s : List UInt8) (out : Buf) : Except Utf8.Err (List UInt8) → Flow Buf (Buf × Int) Unit → Prop
  | .ok r, fl => fl = .next (out ++ r, (s.length : Int))
  | .error .invalid, fl => ∃ r', fl = .exit (.thrown "std::runtime_error" (out ++ r'))
  | .error .incomplete, fl => ∃ r', fl = .exit (.thrown "std::out_of_range" (out ++ r'))
  | .error .oob, _ => False

theorem EncFlow_step (s : List UInt8) (out p : Buf) (m) (fl) (h : EncFlow s (out ++ p) m fl) : EncFlow s out (encCont p m) fl := by
  cases m with
  | ok r => simp only [EncFlow, encCont] at h ⊢; rw [h, List.append_assoc]
  | error e =>
    cases e with
    | invalid => obtain ⟨r', h⟩ := h; exact ⟨p ++ r', by rw [h, List.append_assoc]⟩
    | incomplete => obtain ⟨r', h⟩ := h; exact ⟨p ++ r', by rw [h, List.append_assoc]⟩
    | oob => exact h

theorem EncFlow_eq (s : List UInt8) (out out' : Buf) (m) (fl) (e : out' = out) (h : EncFlow s out' m fl) : EncFlow s out m fl := by
  subst e; exact h

/-- the loop `while (data != end_ptr)` of `append_utf8_encoded_string`: `k` bounds the bytes left -/
theorem src_tie_append_utf8_encoded_string_loop_val (s t : List UInt8) (h : Int) (hT : HexTable (s ++ 0 :: t) h) :
    ∀ (k i fuelM fuel : Nat) (out : Buf) (iI eI : Int), iI = (i : Int) → eI = (s.length : Int) → s.length - i ≤ k → i ≤ s.length →
      k < fuelM → k + 6 ≤ fuel →
      EncFlow s out (Opl.escapeLoop fuelM (s.drop i)) (append_utf8_encoded_string.loop_1 fuel (s ++ 0 :: t) out iI h eI) := by
  intro k
  induction k with
  | zero =>
    intro i fuelM fuel out iI eI hiI heI hk hi hfm hf
    subst hiI heI
    obtain ⟨f, rfl⟩ : ∃ f, fuel = f + 1 := ⟨fuel - 1, by omega⟩
    obtain ⟨fm, rfl⟩ : ∃ f, fuelM = f + 1 := ⟨fuelM - 1, by omega⟩
    have hnil : s.drop i = [] := List.drop_eq_nil_of_le (by omega)
    rw [escapeLoop_succ, hnil]
    simp only [List.isEmpty_nil, if_true]
    unfold append_utf8_encoded_string.loop_1
    repeat' split_n
    all_goals simp only [EncFlow, List.isEmpty_nil, if_true, List.append_nil]
    all_goals (try exact congrArg Flow.next (Prod.ext rfl (by simp only; omega)))
  | succ k ih =>
    intro i fuelM fuel out iI eI hiI heI hk hi hfm hf
    subst hiI heI
    obtain ⟨f, rfl⟩ : ∃ f, fuel = f + 1 := ⟨fuel - 1, by omega⟩
    obtain ⟨fm, rfl⟩ : ∃ f, fuelM = f + 1 := ⟨fuelM - 1, by omega⟩
    rw [escapeLoop_succ]
    by_cases hend : i = s.length
    · have hnil : s.drop i = [] := List.drop_eq_nil_of_le (by omega)
      rw [hnil]
      simp only [List.isEmpty_nil, if_true]
      unfold append_utf8_encoded_string.loop_1
      repeat' split_n
      all_goals simp only [EncFlow, List.isEmpty_nil, if_true, List.append_nil]
      all_goals (try exact congrArg Flow.next (Prod.ext rfl (by simp only; omega)))
    · have hlt : i < s.length := by omega
      have hne : (s.drop i).isEmpty = false := by
        cases hd : s.drop i with
        | nil => have := List.drop_eq_nil_iff.mp hd; omega
        | cons a u => rfl
      rw [hne]
      simp only [Bool.false_eq_true, if_false]
      obtain ⟨hN, _, hoob⟩ := SrcTie.Utf8T.src_tie_next_utf8_codepoint_main s t i hi
      cases hm : Utf8.next (s.drop i) with
      | error e =>
        rw [hm] at hN hoob
        cases e with
        | oob => exact absurd rfl hoob
        | invalid =>
          have hN' : ∀ a b, a = (i : Int) → b = (s.length : Int) → next_utf8_codepoint (s ++ 0 :: t) a b = .thrown "std::runtime_error" (i : Int) := by
            intro a b h1 h2; subst h1 h2; exact hN
          unfold append_utf8_encoded_string.loop_1
          simp (disch := omega) only [hN', Flow.callVia_thrown]
          repeat' split_n
          all_goals (simp only [EncFlow]; exact ⟨[], by rw [List.append_nil]⟩)
        | incomplete =>
          have hN' : ∀ a b, a = (i : Int) → b = (s.length : Int) → next_utf8_codepoint (s ++ 0 :: t) a b = .thrown "std::out_of_range" (i : Int) := by
            intro a b h1 h2; subst h1 h2; exact hN
          unfold append_utf8_encoded_string.loop_1
          simp (disch := omega) only [hN', Flow.callVia_thrown]
          repeat' split_n
          all_goals (simp only [EncFlow]; exact ⟨[], by rw [List.append_nil]⟩)
      | ok q =>
        obtain ⟨c, n⟩ := q
        rw [hm] at hN
        obtain ⟨hn1, hn2⟩ := Opl.next_len (s.drop i) c n hm
        rw [List.length_drop] at hn2
        have hN' : ∀ a b, a = (i : Int) → b = (s.length : Int) → next_utf8_codepoint (s ++ 0 :: t) a b = .normal ((i + n : Nat) : Int) (c : Int) := by
          intro a b h1 h2; subst h1 h2; exact hN
        have hsl : ∀ a b, a = (i : Int) → b = ((i + n : Nat) : Int) → slice (s ++ 0 :: t) a b = (s.drop i).take n := by
          intro a b h1 h2; exact (slice_cbuf s t i n (by omega) a b h1 h2).1
        have h2 := fun o => (src_tie_append_2_hex_digits (s ++ 0 :: t) h hT o c).1
        have h4 := fun o => (src_tie_append_min_4_hex_digits (s ++ 0 :: t) h hT o c f (by omega)).1
        have hpass := pass_iff c
        have ih' := fun o => ih (i + n) fm f o _ _ rfl rfl (by omega) (by omega) (by omega) (by omega)
        simp only [List.drop_drop]
        unfold append_utf8_encoded_string.loop_1
        simp (disch := omega) only [hN', Flow.callVia_normal, hsl, h2, h4, push_pct]
        by_cases hp : Opl.pass c = true
        · have hp' := hpass.mp hp
          simp only [Opl.piece, hp, if_true]
          repeat' split_n
          all_goals exact EncFlow_step s out _ _ _ (ih' _)
        · have hp' : ¬ _ := fun e => hp (hpass.mpr e)
          simp only [Opl.piece, hp, if_false, Bool.false_eq_true, Opl.escaped]
          by_cases h255 : c ≤ 0xff
          · rw [if_pos h255]
            repeat' split_n
            all_goals simp only [Flow.bind_next, push_pct]
            all_goals refine EncFlow_step s out _ _ _ (EncFlow_eq s _ _ _ _ ?_ (ih' _))
            all_goals simp only [List.append_assoc, List.cons_append, List.nil_append]
          · rw [if_neg h255]
            repeat' split_n
            all_goals simp only [Flow.bind_next, push_pct]
            all_goals refine EncFlow_step s out _ _ _ (EncFlow_eq s _ _ _ _ ?_ (ih' _))
            all_goals simp only [List.append_assoc, List.cons_append, List.nil_append]

/-- … and it has no undefined behaviour: `next_utf8_codepoint` is called with `end_ptr` = the NUL, the appended range
    `[prev, data)` lies inside the string, the table reads are inside the literal -/
theorem src_tie_append_utf8_encoded_string_loop_def (s t : List UInt8) (h : Int) (hT : HexTable (s ++ 0 :: t) h) :
    ∀ (k i fuel : Nat) (out : Buf) (iI eI : Int), iI = (i : Int) → eI = (s.length : Int) → s.length - i ≤ k → i ≤ s.length →
      k + 6 ≤ fuel →
      append_utf8_encoded_string.loop_1_defined fuel (s ++ 0 :: t) out iI h eI = true := by
  intro k
  induction k with
  | zero =>
    intro i fuel out iI eI hiI heI hk hi hf
    subst hiI heI
    obtain ⟨f, rfl⟩ : ∃ f, fuel = f + 1 := ⟨fuel - 1, by omega⟩
    unfold append_utf8_encoded_string.loop_1_defined
    repeat' split_n
    all_goals rfl
  | succ k ih =>
    intro i fuel out iI eI hiI heI hk hi hf
    subst hiI heI
    obtain ⟨f, rfl⟩ : ∃ f, fuel = f + 1 := ⟨fuel - 1, by omega⟩
    by_cases hend : i = s.length
    · unfold append_utf8_encoded_string.loop_1_defined
      repeat' split_n
      all_goals rfl
    · have hlt : i < s.length := by omega
      obtain ⟨hN, hND, hoob⟩ := SrcTie.Utf8T.src_tie_next_utf8_codepoint_main s t i hi
      have hND' : ∀ a b, a = (i : Int) → b = (s.length : Int) → next_utf8_codepoint_defined (s ++ 0 :: t) a b = true := by
        intro a b h1 h2; subst h1 h2; exact hND
      cases hm : Utf8.next (s.drop i) with
      | error e =>
        rw [hm] at hN hoob
        cases e with
        | oob => exact absurd rfl hoob
        | invalid =>
          have hN' : ∀ a b, a = (i : Int) → b = (s.length : Int) → next_utf8_codepoint (s ++ 0 :: t) a b = .thrown "std::runtime_error" (i : Int) := by
            intro a b h1 h2; subst h1 h2; exact hN
          unfold append_utf8_encoded_string.loop_1_defined
          simp (disch := omega) only [hN', hND', Outcome.okAnd_thrown, Bool.and_self]
          repeat' split_n
          all_goals rfl
        | incomplete =>
          have hN' : ∀ a b, a = (i : Int) → b = (s.length : Int) → next_utf8_codepoint (s ++ 0 :: t) a b = .thrown "std::out_of_range" (i : Int) := by
            intro a b h1 h2; subst h1 h2; exact hN
          unfold append_utf8_encoded_string.loop_1_defined
          simp (disch := omega) only [hN', hND', Outcome.okAnd_thrown, Bool.and_self]
          repeat' split_n
          all_goals rfl
      | ok q =>
        obtain ⟨c, n⟩ := q
        rw [hm] at hN
        obtain ⟨hn1, hn2⟩ := Opl.next_len (s.drop i) c n hm
        rw [List.length_drop] at hn2
        have hN' : ∀ a b, a = (i : Int) → b = (s.length : Int) → next_utf8_codepoint (s ++ 0 :: t) a b = .normal ((i + n : Nat) : Int) (c : Int) := by
          intro a b h1 h2; subst h1 h2; exact hN
        have hsl : ∀ a b, a = (i : Int) → b = ((i + n : Nat) : Int) → sliceOk (s ++ 0 :: t) a b = true := by
          intro a b h1 h2; exact (slice_cbuf s t i n (by omega) a b h1 h2).2
        have h2 := fun o => (src_tie_append_2_hex_digits (s ++ 0 :: t) h hT o c).1
        have h4 := fun o => (src_tie_append_min_4_hex_digits (s ++ 0 :: t) h hT o c f (by omega)).1
        have h2d := fun o => (src_tie_append_2_hex_digits (s ++ 0 :: t) h hT o c).2
        have h4d := fun o => (src_tie_append_min_4_hex_digits (s ++ 0 :: t) h hT o c f (by omega)).2
        have ih' := fun o => ih (i + n) f o _ _ rfl rfl (by omega) (by omega) (by omega)
        unfold append_utf8_encoded_string.loop_1_defined
        simp (disch := omega) only [hN', hND', Outcome.okAnd_normal, hsl, h2, h4, h2d, h4d, Flow.callVia_normal, Bool.true_and, Bool.and_true]
        repeat' split_n
        all_goals (try simp only [Flow.andThen_next, Bool.true_and, Bool.and_true])
        all_goals exact ih' _

/-- a model result as the outcome of the whole function -/
def EncOut (out : Buf) : Except Utf8.Err (List UInt8) → Outcome Buf Unit → Prop
  | .ok r, o => o = .normal (out ++ r) ()
  | .error .invalid, o => ∃ r', o = .thrown "std::runtime_error" (out ++ r')
  | .error .incomplete, o => ∃ r', o = .thrown "std::out_of_range" (out ++ r')
  | .error .oob, _ => False

theorem EncOut_of_flow (s : List UInt8) (out : Buf) (m) (fl) (k : Buf × Int → Outcome Buf Unit) (h : EncFlow s out m fl)
    (hk : ∀ o d, k (o, d) = .normal o ()) : EncOut out m (Flow.seq fl k) := by
  cases m with
  | ok r => simp only [EncFlow] at h; subst h; simp only [EncOut, Flow.seq_next, hk]
  | error e =>
    cases e with
    | invalid => obtain ⟨r', h⟩ := h; subst h; exact ⟨r', rfl⟩
    | incomplete => obtain ⟨r', h⟩ := h; subst h; exact ⟨r', rfl⟩
    | oob => exact h

/-- `append_utf8_encoded_string(out, data)` on every C string (the NUL-free `s` in front of its NUL, from any start
    position), with the static table where `_lits` says: the model's `Opl.escape`; fuel: the bytes left + 6 -/
theorem src_tie_append_utf8_encoded_string_main (s t : List UInt8) (hs : ∀ c ∈ s, c ≠ 0) (i : Nat) (hi : i ≤ s.length) (h : Int)
    (out : Buf) (hl : append_utf8_encoded_string_lits (s ++ 0 :: t) out (i : Int) h = true) (fuel : Nat) (hf : s.length - i + 6 ≤ fuel) :
    EncOut out (Opl.escape (s.drop i)) (append_utf8_encoded_string fuel (s ++ 0 :: t) out (i : Int) h) ∧
    append_utf8_encoded_string_defined fuel (s ++ 0 :: t) out (i : Int) h = true := by
  have hT := src_tie_lookup_hex_table _ _ _ _ hl
  have hend : (i : Int) + strlen (s ++ 0 :: t) (i : Int) = (s.length : Int) := by rw [strlen_cbuf s t hs i hi]; omega
  constructor
  · unfold append_utf8_encoded_string Opl.escape
    exact EncOut_of_flow s out _ _ _
      (src_tie_append_utf8_encoded_string_loop_val s t h hT (s.length - i) i _ fuel out _ _ rfl hend (Nat.le_refl _) hi (by rw [List.length_drop]; omega) hf)
      (fun _ _ => rfl)
  · unfold append_utf8_encoded_string_defined
    have hc := cstrOk_cbuf s t i hi
    have hp : ptrOk (s ++ 0 :: t) ((i : Int) + strlen (s ++ 0 :: t) (i : Int)) = true := by rw [hend]; exact ptrOk_cbuf s t s.length (by omega)
    simp only [hc, hp, Bool.and_self, Bool.true_and]
    exact src_tie_append_utf8_encoded_string_loop_def s t h hT (s.length - i) i fuel out _ _ rfl hend (Nat.le_refl _) hi hf

/-! ### the UTF-8 encoding of non-zero code points is a C string (no NUL byte) -/

theorem ofNat_or_ne_zero (x k : Nat) (hk : 0 < k) (hk2 : k < 256) : UInt8.ofNat (x ||| k) ≠ 0 := by
  intro h
  have h' := congrArg UInt8.toNat h
  simp only [UInt8.toNat_ofNat', UInt8.toNat_zero] at h'
  have e : (x ||| k) % 2 ^ 8 = x % 2 ^ 8 ||| k % 2 ^ 8 := Nat.or_mod_two_pow
  have hk3 : k % 2 ^ 8 = k := Nat.mod_eq_of_lt hk2
  have : k ≤ x % 2 ^ 8 ||| k % 2 ^ 8 := by rw [hk3]; exact Nat.right_le_or
  omega

theorem encode_ne_zero (c : Nat) (h0 : 0 < c) : ∀ b ∈ Utf8.encode c, b ≠ 0 := by
  intro b hb
  unfold Utf8.encode at hb
  split at hb
  · rename_i h1
    simp only [List.mem_singleton] at hb; subst hb
    intro h
    have h' := congrArg UInt8.toNat h
    simp only [UInt8.toNat_ofNat', UInt8.toNat_zero] at h'
    omega
  · split at hb
    · simp only [List.mem_cons, List.not_mem_nil, or_false] at hb
      rcases hb with rfl | rfl <;> exact ofNat_or_ne_zero _ _ (by decide) (by decide)
    · split at hb
      · simp only [List.mem_cons, List.not_mem_nil, or_false] at hb
        rcases hb with rfl | rfl | rfl <;> exact ofNat_or_ne_zero _ _ (by decide) (by decide)
      · simp only [List.mem_cons, List.not_mem_nil, or_false] at hb
        rcases hb with rfl | rfl | rfl | rfl <;> exact ofNat_or_ne_zero _ _ (by decide) (by decide)

theorem encodeStr_ne_zero (cs : List Nat) (hs : ∀ c ∈ cs, 0 < c) : ∀ b ∈ Utf8.encodeStr cs, b ≠ 0 := by
  intro b hb
  simp only [Utf8.encodeStr, List.mem_flatMap] at hb
  obtain ⟨c, hc, hb⟩ := hb
  exact encode_ne_zero c (hs c hc) b hb

end Osmium.SrcTie.Enc
