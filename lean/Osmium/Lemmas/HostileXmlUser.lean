/-
C03 — the XML reader never hands a user name longer than `max_osm_string_length` to `set_user`
(repair bc6b907 makes `set_user` throw; in the model: `initObject` / `initChangesetAttrs`), so every
object it delivers has a user name of at most 1024 bytes: invariant `UInv` over the event loop.
Core-only.
-/
import Osmium.Lemmas.HostileXml

namespace Osmium.HostileXml

open Osmium.XmlFmt Osmium.Osm Osmium.TextFmt

/-- the user name of an object -/
def objUser : Object → Bytes
  | .node m _ => m.user
  | .way m _ => m.user
  | .relation m _ => m.user
  | .changeset _ _ _ _ _ _ user _ _ _ _ => user

def UserOk (o : Object) : Prop := (objUser o).length ≤ 1024

def notCs : Object → Bool
  | .changeset .. => false
  | _ => true

structure UInv (st : RSt) : Prop where
  out : ∀ o ∈ st.out, UserOk o
  cur : ∀ c, st.cur = some c → UserOk c.obj

theorem uinv_init : UInv {} where
  out := fun o (h : o ∈ ([] : List Object)) => by cases h
  cur := fun c (h : (none : Option Cur) = some c) => by cases h

/-! ### `init_object` -/

theorem mapMeta_notCs (f : Meta → Meta) (o : Object) : notCs (mapMeta f o) = notCs o := by
  cases o <;> rfl

theorem initObjectAttrs_notCs : ∀ (as : List (String × Bytes)) (obj : Object) (loc : Location) (user : Bytes)
    (r : Object × Location × Bytes), initObjectAttrs as obj loc user = .ok r → notCs r.1 = notCs obj
  | [], obj, loc, user, r, h => by simp [initObjectAttrs] at h; subst h; rfl
  | (n, v) :: as, obj, loc, user, r, h => by
    have rec1 : ∀ obj' loc' user', initObjectAttrs as obj' loc' user' = .ok r → notCs obj' = notCs obj →
        notCs r.1 = notCs obj := fun obj' loc' user' e e' => (initObjectAttrs_notCs as obj' loc' user' r e).trans e'
    have recB : ∀ {α : Type} (x : Except XErr α) (g : α → Object) (l : α → Location),
        (bindE x fun a => initObjectAttrs as (g a) (l a) user) = .ok r → (∀ a, notCs (g a) = notCs obj) →
        notCs r.1 = notCs obj := by
      intro α x g l e eg
      rw [bindE_ok_iff] at e
      obtain ⟨a, _, e⟩ := e
      exact rec1 _ _ _ e (eg a)
    unfold initObjectAttrs at h
    by_cases h1 : n = "lon"
    · rw [if_pos h1] at h; exact recB _ (fun _ => obj) _ h (fun _ => rfl)
    rw [if_neg h1] at h
    by_cases h2 : n = "lat"
    · rw [if_pos h2] at h; exact recB _ (fun _ => obj) _ h (fun _ => rfl)
    rw [if_neg h2] at h
    by_cases h3 : n = "user"
    · rw [if_pos h3] at h; exact rec1 _ _ _ h rfl
    rw [if_neg h3] at h
    by_cases h4 : n = "id"
    · rw [if_pos h4] at h; exact recB _ _ (fun _ => loc) h (fun _ => mapMeta_notCs _ _)
    rw [if_neg h4] at h
    by_cases h5 : n = "version"
    · rw [if_pos h5] at h; exact recB _ _ (fun _ => loc) h (fun _ => mapMeta_notCs _ _)
    rw [if_neg h5] at h
    by_cases h6 : n = "changeset"
    · rw [if_pos h6] at h; exact recB _ _ (fun _ => loc) h (fun _ => mapMeta_notCs _ _)
    rw [if_neg h6] at h
    by_cases h7 : n = "timestamp"
    · rw [if_pos h7] at h; exact recB _ _ (fun _ => loc) h (fun _ => mapMeta_notCs _ _)
    rw [if_neg h7] at h
    by_cases h8 : n = "uid"
    · rw [if_pos h8] at h; exact recB _ _ (fun _ => loc) h (fun _ => mapMeta_notCs _ _)
    rw [if_neg h8] at h
    by_cases h9 : n = "visible"
    · rw [if_pos h9] at h
      by_cases ht : v = bTrue
      · rw [if_pos ht] at h; exact rec1 _ _ _ h (mapMeta_notCs _ _)
      rw [if_neg ht] at h
      by_cases hf : v = bFalse
      · rw [if_pos hf] at h; exact rec1 _ _ _ h (mapMeta_notCs _ _)
      rw [if_neg hf] at h; cases h
    rw [if_neg h9] at h
    exact rec1 _ _ _ h rfl

theorem initObject_userOk (empty : Object) (inDelete : Bool) (attrs : List (String × Bytes)) (o : Object)
    (he : notCs empty = true) (h : initObject empty inDelete attrs = .ok o) : UserOk o := by
  unfold initObject at h
  simp only at h
  rw [bindE_ok_iff] at h
  obtain ⟨⟨obj, loc, user⟩, ha, h⟩ := h
  have hn : notCs obj = true := by
    have := initObjectAttrs_notCs _ _ _ _ _ ha
    simp only at this
    rw [this]
    split <;> simp [mapMeta_notCs, he]
  simp only at h
  split at h
  · cases h
  · rename_i hl
    have hl' : user.length ≤ 1024 := by simpa [OplFmt.maxString] using hl
    cases obj with
    | node m l => simp only [mapMeta] at h; injection h with h; subst h; exact hl'
    | way m ns => simp only [mapMeta] at h; injection h with h; subst h; exact hl'
    | relation m ms => simp only [mapMeta] at h; injection h with h; subst h; exact hl'
    | changeset => simp [notCs] at hn

/-! ### `init_changeset` -/

theorem initChangesetAttrs_user : ∀ (as : List (String × Bytes)) (a a' : CsAcc),
    initChangesetAttrs as a = .ok a' → a.user.length ≤ 1024 → a'.user.length ≤ 1024
  | [], a, a', h, hu => by simp [initChangesetAttrs] at h; subst h; exact hu
  | (n, v) :: as, a, a', h, hu => by
    have recB : ∀ {α : Type} (x : Except XErr α) (g : α → CsAcc),
        (bindE x fun b => initChangesetAttrs as (g b)) = .ok a' → (∀ b, (g b).user = a.user) →
        a'.user.length ≤ 1024 := by
      intro α x g e eg
      rw [bindE_ok_iff] at e
      obtain ⟨b, _, e⟩ := e
      exact initChangesetAttrs_user as _ _ e (by rw [eg b]; exact hu)
    unfold initChangesetAttrs at h
    by_cases h1 : n = "min_lon"
    · rw [if_pos h1] at h; exact recB _ _ h (fun _ => rfl)
    rw [if_neg h1] at h
    by_cases h2 : n = "min_lat"
    · rw [if_pos h2] at h; exact recB _ _ h (fun _ => rfl)
    rw [if_neg h2] at h
    by_cases h3 : n = "max_lon"
    · rw [if_pos h3] at h; exact recB _ _ h (fun _ => rfl)
    rw [if_neg h3] at h
    by_cases h4 : n = "max_lat"
    · rw [if_pos h4] at h; exact recB _ _ h (fun _ => rfl)
    rw [if_neg h4] at h
    by_cases h5 : n = "user"
    · rw [if_pos h5] at h
      by_cases hl : v.length > OplFmt.maxString
      · rw [if_pos hl] at h; cases h
      · rw [if_neg hl] at h
        exact initChangesetAttrs_user as _ _ h (by simpa [OplFmt.maxString] using hl)
    rw [if_neg h5] at h
    by_cases h6 : n = "id"
    · rw [if_pos h6] at h; exact recB _ _ h (fun _ => rfl)
    rw [if_neg h6] at h
    by_cases h7 : n = "num_changes"
    · rw [if_pos h7] at h; exact recB _ _ h (fun _ => rfl)
    rw [if_neg h7] at h
    by_cases h8 : n = "comments_count"
    · rw [if_pos h8] at h; exact recB _ _ h (fun _ => rfl)
    rw [if_neg h8] at h
    by_cases h9 : n = "created_at"
    · rw [if_pos h9] at h; exact recB _ _ h (fun _ => rfl)
    rw [if_neg h9] at h
    by_cases h10 : n = "closed_at"
    · rw [if_pos h10] at h; exact recB _ _ h (fun _ => rfl)
    rw [if_neg h10] at h
    by_cases h11 : n = "uid"
    · rw [if_pos h11] at h; exact recB _ _ h (fun _ => rfl)
    rw [if_neg h11] at h
    exact initChangesetAttrs_user as _ _ h hu

theorem initChangeset_userOk (attrs : List (String × Bytes)) (o : Object) (h : initChangeset attrs = .ok o) :
    UserOk o := by
  unfold initChangeset at h
  rw [bindE_ok_iff] at h
  obtain ⟨a, ha, h⟩ := h
  injection h with h; subst h
  exact initChangesetAttrs_user attrs {} a ha (by simp)

/-! ### the builders of sub-items never touch the object's fixed part -/

theorem addTag_obj (c : Cur) (t : Tag) : (addTag c t).obj = c.obj := by unfold addTag; split <;> rfl
theorem addNode_obj (c : Cur) (n : NodeRef) : (addNode c n).obj = c.obj := by unfold addNode; split <;> rfl
theorem addMember_obj (c : Cur) (m : Member) : (addMember c m).obj = c.obj := by unfold addMember; split <;> rfl
theorem openDiscussion_obj (c : Cur) : (openDiscussion c).obj = c.obj := by unfold openDiscussion; split <;> rfl
theorem addComment_obj (c : Cur) (x : Comment) : (XmlFmt.addComment c x).obj = c.obj := by
  unfold XmlFmt.addComment; split <;> rfl
theorem setCommentText_obj (c : Cur) (t : Bytes) : (setCommentText c t).obj = c.obj := by
  unfold setCommentText; split
  · split <;> rfl
  · rfl

theorem getTag_obj (c : Cur) (attrs : List (String × Bytes)) (c' : Cur) (h : getTag c attrs = .ok c') :
    c'.obj = c.obj := by
  unfold getTag at h
  simp only at h
  split at h
  · cases h
  · injection h with h; subst h; exact addTag_obj _ _

theorem assemble_user (c : Cur) : objUser (assemble c) = objUser c.obj := by
  unfold assemble
  split <;> simp_all [objUser]

theorem withCur_uinv (st : RSt) (f : Cur → Except XErr Cur) (st' : RSt)
    (hf : ∀ c c', f c = .ok c' → c'.obj = c.obj) (h : withCur st f = .ok st') (hi : UInv st) : UInv st' := by
  unfold withCur at h
  split at h
  · rename_i c hc
    rw [bindE_ok_iff] at h
    obtain ⟨c', hc', h⟩ := h
    injection h with h; subst h
    exact ⟨hi.out, fun c'' e => by
      simp only [Option.some.injEq] at e; subst e
      have := hi.cur c hc
      unfold UserOk at this ⊢
      rw [hf c c' hc']; exact this⟩
  · injection h with h; subst h; exact hi

theorem uinv_push (st : RSt) (c : Ctx) (hi : UInv st) : UInv (push st c) := ⟨hi.out, hi.cur⟩

theorem uinv_markDone (st : RSt) (hi : UInv st) : UInv (markDone st) := by
  unfold markDone; split
  · exact hi
  · exact ⟨hi.out, hi.cur⟩

theorem uinv_setCur (st : RSt) (o : Object) (hi : UInv st) (ho : UserOk o) :
    UInv { st with cur := some { obj := o } } :=
  ⟨hi.out, fun c e => by simp only [Option.some.injEq] at e; subst e; exact ho⟩

theorem topAttrs_uinv : ∀ (as : List (String × Bytes)) (st st' : RSt), topAttrs as st = .ok st' → UInv st → UInv st'
  | [], st, st', h, hi => by simp [topAttrs] at h; subst h; exact hi
  | (n, v) :: as, st, st', h, hi => by
    unfold topAttrs at h
    split at h
    · split at h
      · exact topAttrs_uinv as _ _ h ⟨hi.out, hi.cur⟩
      · cases h
    · split at h
      · exact topAttrs_uinv as _ _ h ⟨hi.out, hi.cur⟩
      · exact topAttrs_uinv as _ _ h hi

theorem dataLevel_uinv (types : Osmium.OplFmt.Types) (st : RSt) (parent : Ctx) (name : String)
    (attrs : List (String × Bytes)) (inChange : Bool) (st' : RSt)
    (h : dataLevel types st parent name attrs inChange = .ok st') (hi : UInv st) : UInv st' := by
  have hmd : ∀ c : Ctx, UInv (markDone (push st c)) := fun c => uinv_markDone _ (uinv_push st c hi)
  unfold dataLevel at h
  repeat' split at h
  all_goals first
    | (cases h; done)
    | (injection h with h; subst h; first | exact hmd _ | exact ⟨hi.out, hi.cur⟩)
    | (rw [bindE_ok_iff] at h
       obtain ⟨o, ho, h⟩ := h
       injection h with h; subst h
       first
         | exact uinv_setCur _ o (hmd _) (initObject_userOk _ _ _ o rfl ho)
         | exact uinv_setCur _ o (hmd _) (initChangeset_userOk _ o ho)
         | exact ⟨hi.out, hi.cur⟩)

theorem startElement_uinv (types : Osmium.OplFmt.Types) (st : RSt) (name : String)
    (attrs : List (String × Bytes)) (st' : RSt) (h : startElement types st name attrs = .ok st') (hi : UInv st) :
    UInv st' := by
  unfold startElement at h
  split at h
  · rw [bindE_ok_iff] at h
    obtain ⟨st1, h1, h⟩ := h
    rw [bindE_ok_iff] at h
    obtain ⟨st2, h2, h⟩ := h
    have hi1 : UInv st1 := by
      split at h1
      · injection h1 with h1; subst h1; exact uinv_push _ _ hi
      · split at h1
        · injection h1 with h1; subst h1; exact ⟨hi.out, hi.cur⟩
        · cases h1
    split at h
    · cases h
    · injection h with h; subst h; exact topAttrs_uinv _ _ _ h2 hi1
  · rename_i top rest hs
    cases top with
    | osm => exact dataLevel_uinv types st _ name attrs _ st' h hi
    | osmChange => exact dataLevel_uinv types st _ name attrs _ st' h hi
    | createSection => exact dataLevel_uinv types st _ name attrs _ st' h hi
    | modifySection => exact dataLevel_uinv types st _ name attrs _ st' h hi
    | deleteSection => exact dataLevel_uinv types st _ name attrs _ st' h hi
    | tag => cases h
    | nd => cases h
    | member => cases h
    | text => cases h
    | bounds => cases h
    | objBbox => cases h
    | other => cases h
    | node =>
      simp only at h
      repeat' split at h
      all_goals first
        | (cases h; done)
        | (injection h with h; subst h; exact uinv_push _ _ hi)
        | exact withCur_uinv _ _ _ (fun c c' e => getTag_obj c attrs c' e) h (uinv_push _ _ hi)
    | way =>
      simp only at h
      repeat' split at h
      all_goals first
        | (cases h; done)
        | (injection h with h; subst h; exact uinv_push _ _ hi)
        | exact withCur_uinv _ _ _ (fun c c' e => getTag_obj c attrs c' e) h (uinv_push _ _ hi)
        | (refine withCur_uinv _ _ _ ?_ h (uinv_push _ _ hi)
           intro c c' e
           rw [bindE_ok_iff] at e
           obtain ⟨nr, _, e⟩ := e
           injection e with e; subst e; exact addNode_obj _ _)
    | relation =>
      simp only at h
      repeat' split at h
      all_goals first
        | (cases h; done)
        | (injection h with h; subst h; exact uinv_push _ _ hi)
        | exact withCur_uinv _ _ _ (fun c c' e => getTag_obj c attrs c' e) h (uinv_push _ _ hi)
        | (refine withCur_uinv _ _ _ ?_ h (uinv_push _ _ hi)
           intro c c' e
           rw [bindE_ok_iff] at e
           obtain ⟨⟨t, r, s, role⟩, _, e⟩ := e
           simp only at e
           repeat' split at e
           all_goals first
             | (cases e; done)
             | (injection e with e; subst e; exact addMember_obj _ _))
    | changeset =>
      simp only at h
      repeat' split at h
      all_goals first
        | (cases h; done)
        | (injection h with h; subst h; exact uinv_push _ _ hi)
        | exact withCur_uinv _ _ _ (fun c c' e => getTag_obj c attrs c' e) h (uinv_push _ _ hi)
        | (refine withCur_uinv _ _ _ ?_ h (uinv_push _ _ hi)
           intro c c' e
           injection e with e; subst e; exact openDiscussion_obj _)
    | discussion =>
      simp only at h
      repeat' split at h
      all_goals first
        | (cases h; done)
        | (injection h with h; subst h; exact uinv_push _ _ hi)
        | (rw [bindE_ok_iff] at h
           obtain ⟨s1, hw, h⟩ := h
           injection h with h; subst h
           have : UInv s1 := by
             refine withCur_uinv _ _ _ ?_ hw (uinv_push _ _ hi)
             intro c c' e
             rw [bindE_ok_iff] at e
             obtain ⟨x, _, e⟩ := e
             split at e
             · cases e
             · injection e with e; subst e; exact addComment_obj _ _
           exact ⟨this.out, this.cur⟩)
    | comment =>
      simp only at h
      repeat' split at h
      all_goals first
        | (cases h; done)
        | (injection h with h; subst h; exact uinv_push _ _ hi)

theorem commit_uinv (st : RSt) (hi : UInv st) : UInv (commit st) := by
  unfold commit
  split
  · rename_i c hc
    refine ⟨fun o ho => ?_, fun c' e => by cases e⟩
    simp only [List.mem_cons] at ho
    rcases ho with rfl | ho
    · have := hi.cur c hc
      unfold UserOk at this ⊢
      rw [assemble_user]; exact this
    · exact hi.out o ho
  · exact hi

theorem endElement_uinv (types : Osmium.OplFmt.Types) (st st' : RSt) (h : endElement types st = .ok st')
    (hi : UInv st) : UInv st' := by
  unfold endElement at h
  split at h
  · cases h
  · rename_i top rest hs
    injection h with h; subst h
    have key : ∀ s : RSt, UInv s → UInv { s with stack := rest } := fun s hs => ⟨hs.out, hs.cur⟩
    apply key
    cases top <;> simp only
    all_goals first
      | exact hi
      | exact uinv_markDone _ hi
      | (split <;> first | exact commit_uinv _ hi | exact hi)
      | (split <;> first | exact ⟨hi.out, hi.cur⟩ | exact hi)
      | (split
         · split
           · rename_i c hc
             exact ⟨hi.out, fun c' e => by
               simp only [Option.some.injEq] at e; subst e
               have := hi.cur c hc
               unfold UserOk at this ⊢
               rw [setCommentText_obj]; exact this⟩
           · rename_i hc
             exact ⟨hi.out, fun c' e => by simp_all⟩
         · exact hi)

theorem stepEv_uinv (types : Osmium.OplFmt.Types) (st : RSt) (e : Ev) (st' : RSt)
    (h : stepEv types st e = .ok st') (hi : UInv st) : UInv st' := by
  cases e with
  | start n as => exact startElement_uinv types st n as st' h hi
  | stop n => exact endElement_uinv types st st' h hi
  | chars t =>
    simp only [stepEv] at h
    injection h with h; subst h
    unfold characters; split
    · exact ⟨hi.out, hi.cur⟩
    · exact hi

theorem runEvents_uinv (types : Osmium.OplFmt.Types) : ∀ (evs : List Ev) (st st' : RSt),
    runEvents types evs st = .ok st' → UInv st → UInv st'
  | [], st, st', h, hi => by simp [runEvents] at h; subst h; exact hi
  | e :: es, st, st', h, hi => by
    unfold runEvents at h
    rw [bindE_ok_iff] at h
    obtain ⟨s1, h1, h⟩ := h
    exact runEvents_uinv types es s1 st' h (stepEv_uinv types st e s1 h1 hi)

/-- every object the XML reader delivers has a user name of at most 1024 bytes -/
theorem read_user_ok (types : Osmium.OplFmt.Types) (evs : List Ev) (h : Header) (objs : List Object)
    (hr : XmlFmt.read types evs = .ok (h, objs)) : ∀ o ∈ objs, UserOk o := by
  unfold XmlFmt.read at hr
  rw [bindE_ok_iff] at hr
  obtain ⟨st, hs, hr⟩ := hr
  have hi := runEvents_uinv types evs {} st hs uinv_init
  simp only at hr
  injection hr with hr
  injection hr with _ hr
  subst hr
  intro o ho
  have := uinv_markDone st hi
  exact this.out o (List.mem_reverse.mp ho)

end Osmium.HostileXml
