/-
Definitions shared by the Pipeline lemma files (C05, C07): abstraction functions of the central
invariant and the well-formedness of a configuration.  No proofs here.
-/
import Osmium.Model.Pipeline
import Osmium.Lemmas.QueueSM

namespace Osmium.Pipeline

open Osmium.Mon

variable {α : Type}

/-- objects inside the value of a future -/
def flat : Val α → List α
  | .buf levels => levels.flatten
  | _ => []

/-- what the futures of a list of queue items are going to deliver, front first; a future that is
    not ready yet (blob being decoded by a pool worker) counts with the objects of its block -/
def vals (s : State α) (l : List (QueueSM.Item Nat)) : List α := l.flatMap (fun x => flat (s.want x.2))

/-- the value the parser thread is about to hand to push() (not yet visible to the queue machine) -/
def pend (s : State α) : List α :=
  match s.ppc with
  | .push v _ => flat v
  | .pushFut id _ => flat (s.want id)
  | _ => []

/-- the future the consumer has popped inside read() and not yet unpacked -/
def holding (s : State α) : List α :=
  match s.cpc with
  | .readGot id => flat (s.want id)
  | _ => []

/-- everything that is on its way between the parser's buffer and the caller, in delivery order:
    back buffers (oldest nested first), the future held by read(), the osmdata queue front first,
    the future the parser is pushing, the value it is about to push -/
def inTransit (s : State α) : List α :=
  s.back.flatten ++ holding s ++ vals s s.outq.items ++ vals s (QueueSM.inflight s.outq tP) ++ pend s

/-- the parser's own buffer (nested buffers oldest first, then the current one) and what it has
    not parsed yet, projected -/
def upstream (c : Cfg α) (s : State α) : List α :=
  s.nested.flatten ++ s.cur ++ proj c (c.file.drop s.next)

/-- Well-formed configuration: the chunk / blob boundaries are those of the file. -/
structure Cfg.WF (c : Cfg α) : Prop where
  nothing_sel : c.nothing = true → ∀ o, c.sel o = false
  chunk_mono : c.chunkEnd.Pairwise (· ≤ ·)
  chunk_le : ∀ x ∈ c.chunkEnd, x ≤ c.file.length
  chunk_last : c.chunkEnd.getLast? = some c.file.length
  blob_mono : c.blobEnd.Pairwise (· ≤ ·)
  blob_le : ∀ x ∈ c.blobEnd, x ≤ c.file.length
  blob_last : c.pbf = true → c.blobEnd.getLast? = some c.file.length
  /-- PBF: a chunk boundary counts only the objects of COMPLETE blobs -/
  chunk_blob : c.pbf = true → ∀ x ∈ c.chunkEnd, x = 0 ∨ x ∈ c.blobEnd
  workers_ne : c.usePool = true → c.workers ≠ []
  workers_fresh : tC ∉ c.workers ∧ tR ∉ c.workers ∧ tP ∉ c.workers

/-- no fault is configured -/
def Cfg.faultFree (c : Cfg α) : Prop :=
  c.readFault = none ∧ c.closeFault = false ∧ c.parseFault = none ∧ c.blobFault = none

/-- client-call events: the caller starts an API call (everything else is internal to the pipeline) -/
def Ev.isCall : Ev α → Bool
  | .cHeader | .cRead | .cClose | .cDtor => true
  | _ => false

end Osmium.Pipeline
