/-
The moment read() unpacks the end marker (`cpc = readGot id`, `fut id = some .eod`): from the shape
invariant `InvO` of the osmdata queue, FIFO, the consumer discipline `InvD` and the input side
(`in_complete`, `in_done_clean`) everything was delivered and no stage has failed.
-/
import Osmium.Lemmas.PipelineCompleteB
import Osmium.Lemmas.PipelineShapeOutJ
import Osmium.Lemmas.PipelineShapeOutD
import Osmium.Lemmas.PipelineShapeOutF
import Osmium.Lemmas.PipelineShapeOutZ

set_option linter.unusedSimpArgs false
set_option linter.unusedVariables false

namespace Osmium.Pipeline
open Osmium.Mon
variable {α : Type} [DecidableEq α]
namespace Complete

/-- facts at the moment the consumer holds the (ready) end marker -/
theorem at_eod (c : Cfg α) (wf : c.WF) (s : State α) (h : (machine c).Reachable s) (hO : InvO c s)
    (id : Nat) (hc : s.cpc = .readGot id) (hf : s.fut id = some .eod) :
    s.outq.called = s.outq.popped.map (fun p => p.2) ∧ pFin s.ppc ∧ ¬ OutExc s ∧ s.inputDone = true ∧
      upstream c s = [] ∧ s.back = [] ∧ holding s = [] := by
  have hB := (invB c s h).b_R (by rw [hc]; trivial)
  have hN := invN c s h
  have hJ := invJ c s h
  have hD := invD c s h
  have hw : s.want id = .eod := ((hN.n_fut id _ hf).1).symm
  have hu : s.outq.inUse = true := by
    cases hu : s.outq.inUse with
    | true => rfl
    | false =>
      rcases hJ.j_use hu with h1 | h1
      · exact absurd hB.2.1 h1
      · rw [hc] at h1; cases h1
  obtain ⟨l, p, hp, hpid⟩ := hD.d_got id hc
  have hcp := called_eq_popped c s h hu (fun y => s.want y.2 = .eod) hO.o_last l p hp (by rw [hpid]; exact hw)
  have hpm : p ∈ s.outq.popped := by rw [hp]; simp
  have hmem : p.2 ∈ s.outq.called := by rw [hcp]; exact List.mem_map.mpr ⟨p, hpm, rfl⟩
  have hE : OutEod s := ⟨p.2, hmem, by rw [hpid]; exact hw⟩
  have hfin := hO.o_fin hE
  have hnx : ¬ OutExc s := by
    rintro ⟨y, hy, he⟩
    rw [hcp] at hy
    obtain ⟨q, hq, rfl⟩ := List.mem_map.mp hy
    rcases hD.d_end hB.2.1 q hq (.inl he) with h1 | h1 | h1
    · rw [hc] at h1; injection h1 with h1; rw [← h1, hw] at he; exact he
    · rw [hc] at h1; cases h1
    · rw [hc] at h1; cases h1
  obtain ⟨hcur, hnest, h3⟩ := (hO.o_clean hE).resolve_left hnx
  have h3' : s.inputDone = true ∧ s.next = s.avail := by
    rcases h3 with h3 | h3 | h3
    · rw [hB.2.2] at h3; cases h3
    · rw [hu] at h3; cases h3
    · exact h3
  have hav : s.avail = c.file.length := by
    rcases in_complete c wf s h h3'.1 with h4 | h4
    · exact absurd hB.2.1 (hJ.j_stop h4)
    · exact h4
  have hup : upstream c s = [] := by simp [upstream, hcur, hnest, h3'.2, hav, proj]
  have hhold : holding s = [] := by simp [holding, hc, hw, flat]
  exact ⟨hcp, hfin, hnx, h3'.1, hup, hB.1, hhold⟩

omit [DecidableEq α] in
theorem pend_of_pFin (s : State α) (h : pFin s.ppc) : pend s = [] := by
  unfold pend; split <;> simp_all [pFin]

/-- C05: when read() unpacks the end marker everything has been delivered -/
theorem delivered_at_eod (c : Cfg α) (wf : c.WF) (hb : c.blobFault = none) (s : State α) (h : (machine c).Reachable s)
    (hO : InvO c s) (id : Nat) (hc : s.cpc = .readGot id) (hf : s.fut id = some .eod) : s.delivered = deliver c := by
  obtain ⟨hcp, hfin, _, _, hup, hbk, hhold⟩ := at_eod c wf s h hO id hc hf
  have h1 := parser_side c hb s h
  have h2 := consumer_side c s h
  rw [hcp, pend_of_pFin s hfin, hup, ← h2, hbk, hhold] at h1
  simpa using h1

/-- C07: when read() unpacks the end marker no stage has failed -/
theorem no_fault_at_eod (c : Cfg α) (wf : c.WF) (s : State α) (h : (machine c).Reachable s)
    (hO : InvO c s) (id : Nat) (hc : s.cpc = .readGot id) (hf : s.fut id = some .eod) : s.faulted = false := by
  obtain ⟨hcp, hfin, hnx, hin, _, _, _⟩ := at_eod c wf s h hO id hc hf
  have hN := invN c s h
  cases hfl : s.faulted with
  | false => rfl
  | true =>
    exfalso
    rcases (invZ c s h).z hfl with h1 | ⟨code, h1⟩ | ⟨v, h1, h2⟩ | ⟨id', k, h1, _⟩ | h1
    · exact in_done_clean c s h hin h1
    · rw [h1] at hfin; exact hfin
    · cases hp : s.ppc <;> rw [hp] at h1 hfin <;> simp only [pVal, reduceCtorEq, Option.some.injEq] at h1 <;> try (exact hfin)
      · rename_i id' ov k
        cases ov with
        | none => simp [pVal] at h1
        | some v' =>
          simp only [pVal, Option.some.injEq] at h1
          subst h1
          obtain ⟨y, hy, rfl⟩ := hN.n_pin id' _ k hp
          exact hnx ⟨y, hy, by rw [(hN.n_ppc _ v' k (.inl hp)).2.2]; exact h2⟩
      · rename_i id' v' k
        subst h1
        obtain ⟨y, hy, rfl⟩ := hN.n_pin2 id' _ k hp
        exact hnx ⟨y, hy, by rw [(hN.n_ppc _ v' k (.inr hp)).2.2]; exact h2⟩
    · rw [h1] at hfin; exact hfin
    · exact hnx h1

end Complete
end Osmium.Pipeline
