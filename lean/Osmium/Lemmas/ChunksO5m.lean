/-
Lemmas for C06, o5m part: the window logic (`ensure_bytes_available` after the repair of F6)
and the dataset loop depend only on the concatenated stream.
-/
import Osmium.Lemmas.ChunksPbf

namespace Osmium.Chunks

open Osmium.Wire

/-- all chunks still in the queue are non-empty (the end marker is implicit) -/
def Src.NE (s : Src) : Prop := ∀ c ∈ s.chunks, c ≠ []

/-- number of `get_input()` calls after which the queue is certainly shut down -/
def Src.measure (s : Src) : Nat := if s.done then 0 else s.chunks.length + 1

theorem getInput_spec (s : Src) (h : s.NE) :
    (s.getInput).1 ++ (s.getInput).2.pending = s.pending ∧ (s.getInput).2.NE ∧
    ((s.getInput).2.done = true → s.pending = []) ∧
    ((s.getInput).2.done = false → (s.getInput).2.measure < s.measure) := by
  obtain ⟨chunks, done⟩ := s
  cases done with
  | true => simp [Src.getInput, Src.pending, h]
  | false =>
    cases chunks with
    | nil => simp [Src.getInput, Src.pending, Src.NE]
    | cons c cs =>
      have hc : c ≠ [] := h c (List.mem_cons_self)
      have hce : c.isEmpty = false := by cases c <;> simp_all
      refine ⟨by simp [Src.getInput, Src.pending, hce], ?_, by simp [Src.getInput, hce], by simp [Src.getInput, hce, Src.measure]⟩
      intro x hx
      simp only [Src.getInput, Bool.false_eq_true, ↓reduceIte] at hx
      exact h x (List.mem_cons_of_mem _ hx)

theorem pending_of_done (s : Src) (h : s.done = true) : s.pending = [] := by simp [Src.pending, h]

theorem o5mFill_spec : ∀ (fuel : Nat) (inp : Bytes) (s : Src) (need : Nat), s.NE → s.measure ≤ fuel →
    (o5mFill fuel inp s need).2.1 ++ (o5mFill fuel inp s need).2.2.pending = inp ++ s.pending ∧
    (o5mFill fuel inp s need).2.2.NE ∧
    (o5mFill fuel inp s need).1 = decide (need ≤ (inp ++ s.pending).length) ∧
    ((o5mFill fuel inp s need).1 = true → need ≤ (o5mFill fuel inp s need).2.1.length) ∧
    ((o5mFill fuel inp s need).1 = false → (o5mFill fuel inp s need).2.2.pending = [])
  | 0, inp, s, need, hne, hm => by
    have hd : s.done = true := by
      unfold Src.measure at hm
      cases h : s.done <;> simp [h] at hm ⊢
    simp [o5mFill, pending_of_done s hd, hne]
  | fuel + 1, inp, s, need, hne, hm => by
    by_cases hlt : inp.length < need
    · have gi := getInput_spec s hne
      cases hd : (s.getInput).2.done with
      | true =>
        have hp := gi.2.2.1 hd
        have : o5mFill (fuel + 1) inp s need = (false, inp, (s.getInput).2) := by
          simp [o5mFill, hlt, hd]
        rw [this]
        simp [hp, pending_of_done _ hd, gi.2.1]
        omega
      | false =>
        have hlt' := gi.2.2.2 hd
        have ih := o5mFill_spec fuel (inp ++ (s.getInput).1) (s.getInput).2 need gi.2.1 (by omega)
        have : o5mFill (fuel + 1) inp s need = o5mFill fuel (inp ++ (s.getInput).1) (s.getInput).2 need := by
          simp [o5mFill, hlt, hd]
        rw [this]
        have e : inp ++ (s.getInput).1 ++ (s.getInput).2.pending = inp ++ s.pending := by
          rw [List.append_assoc, gi.1]
        rw [e] at ih
        exact ih
    · have : o5mFill (fuel + 1) inp s need = (true, inp, s) := by simp [o5mFill, hlt]
      rw [this]
      refine ⟨rfl, hne, ?_, ?_, ?_⟩
      · simp only [List.length_append]
        exact (decide_eq_true (by omega)).symm
      · intro _; simp only; omega
      · intro h; simp at h

theorem ensure_o5m_spec (o : O5mIn) (n : Nat) (h : o.src.NE) :
    (o.ensure n).2.remaining = o.remaining ∧ (o.ensure n).2.src.NE ∧
    (o.ensure n).1 = decide (n ≤ o.remaining.length) ∧
    ((o.ensure n).1 = true → n ≤ (o.ensure n).2.window.length) ∧
    ((o.ensure n).1 = false → (o.ensure n).2.src.pending = []) := by
  unfold O5mIn.ensure
  by_cases h1 : o.window.length ≥ n
  · simp [h1, h, O5mIn.remaining]; omega
  · simp only [h1, ↓reduceIte]
    by_cases h2 : (o.src.done && decide (o.consumed + o.window.length < n)) = true
    · simp only [h2, ↓reduceIte]
      simp only [Bool.and_eq_true, decide_eq_true_eq] at h2
      simp [h, O5mIn.remaining, pending_of_done _ h2.1]
      omega
    · simp only [h2, Bool.false_eq_true, ↓reduceIte]
      have hm : o.src.measure ≤ o.src.chunks.length + 1 := by
        unfold Src.measure; split <;> omega
      have hf := o5mFill_spec (o.src.chunks.length + 1) o.window o.src n h hm
      exact ⟨hf.1, hf.2.1, hf.2.2.1, hf.2.2.2.1, hf.2.2.2.2⟩

/-! ### varint look-ahead: decoding from the window = decoding from the whole remaining stream -/

theorem decodeVarintGo_append : ∀ (w x : Bytes) (i acc : Nat), i ≤ 9 → (10 ≤ w.length + i ∨ x = []) →
    decodeVarintGo (w ++ x) i acc =
      match decodeVarintGo w i acc with
      | .ok (v, r) => .ok (v, r ++ x)
      | .error e => .error e
  | [], x, i, acc, hi, h => by
    rcases h with h | h
    · simp at h; omega
    · subst h; simp [decodeVarintGo]
  | b :: w, x, i, acc, hi, h => by
    simp only [List.cons_append, decodeVarintGo]
    by_cases hb : b.toNat < 128
    · simp [hb]
    · simp only [hb, ↓reduceIte]
      by_cases h9 : i ≥ 9
      · simp [h9]
      · simp only [h9, ↓reduceIte]
        exact decodeVarintGo_append w x (i + 1) _ (by omega) (by
          rcases h with h | h
          · left; simp at h; omega
          · right; exact h)

theorem decodeVarintGo_suffix : ∀ (w : Bytes) (i acc v : Nat) (r : Bytes),
    decodeVarintGo w i acc = .ok (v, r) → ∃ pre, w = pre ++ r
  | [], _, _, _, _, h => by simp [decodeVarintGo] at h
  | b :: w, i, acc, v, r, h => by
    simp only [decodeVarintGo] at h
    by_cases hb : b.toNat < 128
    · simp only [hb, ↓reduceIte, Except.ok.injEq, Prod.mk.injEq] at h
      exact ⟨[b], by simp [h.2]⟩
    · simp only [hb, ↓reduceIte] at h
      by_cases h9 : i ≥ 9
      · simp [h9] at h
      · simp only [h9, ↓reduceIte] at h
        obtain ⟨pre, hp⟩ := decodeVarintGo_suffix w (i + 1) _ v r h
        exact ⟨b :: pre, by simp [hp]⟩

/-- Specification of the dataset loop on a plain byte stream. -/
def specO5mLoop : Nat → Bytes → List Dataset → List Dataset × Option O5mErr
  | 0, _, acc => (acc.reverse, none)
  | _ + 1, [], acc => (acc.reverse, none)
  | fuel + 1, t :: r1, acc =>
    if t.toNat > 0xef then
      specO5mLoop fuel r1 ((if t.toNat == 0xff then Dataset.reset else Dataset.other t) :: acc)
    else
      match decodeVarint r1 with
      | .error .endOfBuffer => (acc.reverse, some .premature)
      | .error _ => (acc.reverse, some .varintTooLong)
      | .ok (len, r2) =>
        if r2.length < len then (acc.reverse, some .premature)
        else specO5mLoop fuel (r2.drop len) (Dataset.data t (r2.take len) :: acc)

theorem advance_remaining (o : O5mIn) (n : Nat) (h : n ≤ o.window.length) :
    (o.advance n).remaining = o.remaining.drop n ∧ (o.advance n).src = o.src := by
  simp [O5mIn.advance, O5mIn.remaining, List.drop_append_of_le_length h]

theorem o5mLoop_spec : ∀ (fuel : Nat) (o : O5mIn) (acc : List Dataset), o.src.NE →
    o5mLoop fuel o acc = specO5mLoop fuel o.remaining acc
  | 0, _, _, _ => rfl
  | fuel + 1, o, acc, hne => by
    have e1 := ensure_o5m_spec o 1 hne
    generalize ho1 : o.ensure 1 = r1 at e1
    obtain ⟨ok, o1⟩ := r1
    simp only at e1
    obtain ⟨hrem1, hne1, hok1, hwin1, _⟩ := e1
    unfold o5mLoop
    simp only [ho1]
    cases hok : ok with
    | false =>
      rw [hok] at hok1
      have : o.remaining = [] := by
        have := of_decide_eq_false hok1.symm
        exact List.eq_nil_of_length_eq_zero (by omega)
      simp [this, specO5mLoop]
    | true =>
      rw [hok] at hwin1
      have hw := hwin1 rfl
      cases hwd : o1.window with
      | nil => rw [hwd] at hw; simp at hw
      | cons t w =>
        have hrem : o.remaining = t :: (w ++ o1.src.pending) := by
          rw [← hrem1]; simp [O5mIn.remaining, hwd]
        have a2 := advance_remaining o1 1 (by rw [hwd]; simp)
        generalize ho2 : o1.advance 1 = o2 at a2
        have hr2 : o2.remaining = w ++ o1.src.pending := by
          rw [a2.1]; simp [O5mIn.remaining, hwd]
        have hne2 : o2.src.NE := by rw [a2.2]; exact hne1
        simp only [Bool.not_true, Bool.false_eq_true, ↓reduceIte, hrem, specO5mLoop]
        by_cases ht : t.toNat > 0xef
        · simp only [ht, ↓reduceIte]
          rw [o5mLoop_spec fuel o2 _ hne2, hr2]
        · simp only [ht, ↓reduceIte]
          have e3 := ensure_o5m_spec o2 10 hne2
          generalize ho3 : o2.ensure 10 = r3 at e3
          obtain ⟨ok3, o3⟩ := r3
          simp only at e3
          obtain ⟨hrem3, hne3, hok3, hwin3, hpend3⟩ := e3
          have hcond : 10 ≤ o3.window.length + 0 ∨ o3.src.pending = [] := by
            cases ok3 with
            | true => left; simpa using hwin3 rfl
            | false => right; exact hpend3 rfl
          have hR : w ++ o1.src.pending = o3.window ++ o3.src.pending := by
            rw [← hr2, ← hrem3]; rfl
          have hdec := decodeVarintGo_append o3.window o3.src.pending 0 0 (by omega) hcond
          rw [hR]
          simp only [decodeVarint] at hdec ⊢
          rw [hdec]
          cases hd : decodeVarintGo o3.window 0 0 with
          | error e => cases e <;> simp
          | ok vr =>
            obtain ⟨len, restw⟩ := vr
            simp only
            obtain ⟨pre, hpre⟩ := decodeVarintGo_suffix _ _ _ _ _ hd
            have hadv : o3.window.length - restw.length ≤ o3.window.length := by omega
            have a4 := advance_remaining o3 (o3.window.length - restw.length) hadv
            generalize ho4 : o3.advance (o3.window.length - restw.length) = o4 at a4
            have hr4 : o4.remaining = restw ++ o3.src.pending := by
              rw [a4.1, O5mIn.remaining, hpre]
              simp
            have hne4 : o4.src.NE := by rw [a4.2]; exact hne3
            have e5 := ensure_o5m_spec o4 len hne4
            generalize ho5 : o4.ensure len = r5 at e5
            obtain ⟨ok5, o5⟩ := r5
            simp only at e5
            obtain ⟨hrem5, hne5, hok5, hwin5, _⟩ := e5
            rw [hr4] at hok5
            cases hk5 : ok5 with
            | false =>
              rw [hk5] at hok5
              have := of_decide_eq_false hok5.symm
              have hlt : restw.length + o3.src.pending.length < len := by
                simp only [List.length_append] at this; omega
              simp [hlt]
            | true =>
              rw [hk5] at hok5 hwin5
              have hge := of_decide_eq_true hok5.symm
              have hnl : ¬ restw.length + o3.src.pending.length < len := by
                simp only [List.length_append] at hge; omega
              have hw5 := hwin5 rfl
              have hrem5' : o5.window ++ o5.src.pending = restw ++ o3.src.pending := by
                rw [← hr4, ← hrem5]; rfl
              have a6 := advance_remaining o5 len hw5
              simp only [Bool.not_true, Bool.false_eq_true, ↓reduceIte, hnl, List.length_append]
              rw [o5mLoop_spec fuel (o5.advance len) _ (by rw [a6.2]; exact hne5), a6.1]
              simp only [O5mIn.remaining, hrem5']
              rw [← hrem5', List.take_append_of_le_length hw5]

end Osmium.Chunks
