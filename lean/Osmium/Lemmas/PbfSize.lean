/-
The size estimate of `PrimitiveBlock::size()` after fix 9b8b2e0 bounds the serialized block
(node / way / relation blocks; dense blocks: see the `_partial` note in Props/C01Pbf.lean).
-/
import Osmium.Lemmas.PbfWriter

namespace Osmium.Pbf

open Osmium.Wire Osmium.PbfMsg Osmium.Osm

theorem encodeVarintGo_len : ∀ (fuel v k : Nat), 1 ≤ k → v < 128 ^ k → (encodeVarintGo fuel v).length ≤ k
  | 0, _, k, hk, _ => by simp [encodeVarintGo]; omega
  | fuel + 1, v, k, hk, hv => by
    unfold encodeVarintGo
    split
    · simp; omega
    · rename_i h128
      obtain ⟨k', rfl⟩ : ∃ k', k = k' + 1 := ⟨k - 1, by omega⟩
      have hk' : 1 ≤ k' := by
        cases k' with
        | zero => simp at hv; omega
        | succ n => omega
      have : v / 128 < 128 ^ k' := by
        rw [Nat.div_lt_iff_lt_mul (by decide)]; rw [Nat.pow_succ] at hv; exact hv
      have := encodeVarintGo_len fuel (v / 128) k' hk' this
      simp only [List.length_cons]; omega

theorem encodeVarint_len (v k : Nat) (hk : 1 ≤ k) (hv : v < 128 ^ k) (h64 : v < 2 ^ 64) : (encodeVarint v).length ≤ k := by
  unfold encodeVarint
  rw [Nat.mod_eq_of_lt h64]
  exact encodeVarintGo_len 10 v k hk hv

theorem encodeVarint_len_le11 (v : Nat) : (encodeVarint v).length ≤ 11 := by
  unfold encodeVarint
  have : ∀ fuel v, (encodeVarintGo fuel v).length ≤ fuel + 1 := by
    intro fuel
    induction fuel with
    | zero => intro v; simp [encodeVarintGo]
    | succ n ih =>
      intro v; unfold encodeVarintGo
      split
      · simp
      · simp only [List.length_cons]; have := ih (v / 128); omega
  exact this 10 _

/-- a length-delimited field costs at most 12 bytes on top of its payload -/
theorem encodeField_bytes_len (tag : Nat) (p : Bytes) (ht : tag < 16) : (encodeField (fBytes tag p)).length ≤ p.length + 12 := by
  unfold encodeField fBytes
  simp only [WireType.code, List.length_append]
  have h1 : (encodeVarint (tag * 8 + 2)).length ≤ 1 :=
    encodeVarint_len _ 1 (Nat.le_refl _) (by omega) (by omega)
  have h2 := encodeVarint_len_le11 p.length
  omega

/-- one string-table entry of less than 2 MiB: tag byte + at most 3 length bytes + the bytes -/
theorem stEntry_len (s : Bytes) (h : s.length < 2 ^ 21) : (encodeField (fBytes 1 s)).length ≤ s.length + 4 := by
  unfold encodeField fBytes
  simp only [WireType.code, List.length_append]
  have h1 : (encodeVarint (1 * 8 + 2)).length ≤ 1 := encodeVarint_len _ 1 (Nat.le_refl _) (by decide) (by decide)
  have h2 : (encodeVarint s.length).length ≤ 3 :=
    encodeVarint_len _ 3 (by decide) (by simp only [Nat.reducePow] at *; omega) (by simp only [Nat.reducePow] at *; omega)
  omega

theorem stEntries_len : ∀ (ss : List Bytes), (∀ s ∈ ss, s.length < 2 ^ 21) →
    (encodeFields (ss.map (fBytes 1))).length ≤ (ss.map fun s => s.length + 4).sum
  | [], _ => by simp [encodeFields]
  | s :: ss, h => by
    have h1 := stEntry_len s (h s List.mem_cons_self)
    have h2 := stEntries_len ss (fun x hx => h x (List.mem_cons_of_mem _ hx))
    simp only [List.map_cons, encodeFields, List.flatMap_cons, List.length_append, List.sum_cons] at *
    omega

theorem stringtable_len (t : StringTable.Table) (h : ∀ s ∈ t.added, s.length < 2 ^ 21) :
    (encodeFields (t.strings.map (fBytes 1))).length ≤ t.serializedSize := by
  have h0 : (encodeField (fBytes 1 [])).length = 2 := by decide
  have h1 := stEntries_len t.added h
  have e : (encodeFields (t.strings.map (fBytes 1))).length =
      2 + (encodeFields (t.added.map (fBytes 1))).length := by
    simp only [StringTable.Table.strings, List.map_cons, encodeFields, List.flatMap_cons, List.length_append, h0]
  rw [e]
  unfold StringTable.Table.serializedSize
  exact Nat.add_le_add_left h1 2

/-- `m_pbf_primitive_group_data.size()` is what `groupSize` tracks -/
def Block.Consistent (b : Block) : Prop := b.groupSize = (b.items.map List.length).sum

theorem flatten_reverse_length (l : List Bytes) : l.reverse.flatten.length = (l.map List.length).sum := by
  induction l with
  | nil => rfl
  | cons a l ih => simp [List.length_flatten, List.sum_append, Nat.add_comm]

/-- node / way / relation blocks: the serialized PrimitiveBlock is at most `size()` + 24 bytes -/
theorem size_estimate_plain (o : Opts) (b : Block) (hk : (b.kind == 2) = false) (hc : b.Consistent)
    (hs : ∀ s ∈ b.table.added, s.length < 2 ^ 21) : (b.message o).length ≤ b.size o + 24 := by
  unfold Block.message Block.size Block.groupData
  simp only [hk, Bool.false_eq_true, ↓reduceIte, Nat.add_zero]
  have h1 := stringtable_len b.table hs
  have h2 := encodeField_bytes_len 1 (encodeFields (b.table.strings.map (fBytes 1))) (by decide)
  have h3 := encodeField_bytes_len 2 b.items.reverse.flatten (by decide)
  rw [flatten_reverse_length] at h3
  rw [Block.Consistent] at hc
  simp only [encodeFields, List.flatMap_cons, List.flatMap_nil, List.append_nil, List.length_append] at *
  omega

end Osmium.Pbf
