import Osmium.Lemmas.PipelineCompleteA
import Osmium.Lemmas.PipelineCompleteN

set_option linter.unusedSimpArgs false
set_option linter.unusedVariables false

namespace Osmium.Pipeline
open Osmium.Mon
variable {α : Type} [DecidableEq α]
namespace Complete

structure InvO1 (s : State α) : Prop where
  o_next : ∀ v k,
    (s.ppc = .push v k ∨ (∃ id, s.ppc = .pushing id (some v) k) ∨ (∃ id, s.ppc = .pushed id v k)) →
    (k = .eodNext → isExc v) ∧ (v = .eod → k = .dtor)
  o_futv : ∀ id k, s.ppc = .pushFut id k ∨ s.ppc = .pushing id none k → s.want id ≠ .eod ∧ k = .run
  o_sd : ∀ k, s.ppc = .sdIn k ∨ s.ppc = .sdInRun k → k = .run ∨ k = .exit

set_option maxHeartbeats 1600000 in
theorem invO1 (c : Cfg α) : ∀ s, (machine c).Reachable s → InvO1 s := by
  apply Machine.invariant
  · constructor <;> simp [machine, init]
  · intro s e s' hr ih hst
    have hN := (invN c s hr).n_ppcf
    obtain ⟨h1, h2, h3⟩ := ih
    pc_cases e with hst
    all_goals (refine ⟨?_, ?_, ?_⟩ <;> first
      | assumption
      | (simp_all [pCont, setPc_apply, isExc]; done)
      | (simp_all [pCont, setPc_apply, isExc] <;> grind [isExc])
      | skip)

end Complete
end Osmium.Pipeline
