/-
Lemmas about the decompression model (property C09): a generic theorem about the read-thread loop
(`run_spec`), then one "what does one read() do" classification per decompressor.   Core-only.
-/
import Osmium.Model.Decomp

namespace Osmium.Decomp

/-! ## The read-thread loop over any decompressor -/

/-- What a `read()` call can do, relative to ghost data: `rem s` = payload still to be delivered,
    `bad s` = the input ends inside a stream, `sz` = size of the input. -/
def Outcome (d : Dec σ α) (I : σ → Prop) (rem : σ → List α) (bad : σ → Bool) (sz : Nat)
    (s : σ) (res : Except Err (List α × σ)) : Prop :=
    (∃ out s', res = .ok (out, s') ∧ out ≠ [] ∧ rem s = out ++ rem s' ∧ bad s' = bad s ∧ I s' ∧ d.offset s' ≤ sz) ∨
    (∃ s', res = .ok ([], s') ∧ d.offset s' ≤ sz ∧
        ((bad s = false ∧ rem s = [] ∧ d.close s' = .ok ()) ∨
         (bad s = true ∧ ∃ e, d.close s' = .error e ∧ e.cls ≠ .fuel))) ∨
    (∃ e, res = .error e ∧ bad s = true ∧ e.cls ≠ .fuel)

def StepSpec (d : Dec σ α) (I : σ → Prop) (rem : σ → List α) (bad : σ → Bool) (sz : Nat) : Prop :=
  ∀ s, I s → Outcome d I rem bad sz s (d.read s)

/-- an outcome only depends on the ghost data of the state it is stated for -/
theorem Outcome.transfer {d : Dec σ α} {I : σ → Prop} {rem : σ → List α} {bad : σ → Bool} {sz : Nat}
    {s t : σ} {res : Except Err (List α × σ)} (hr : rem s = rem t) (hb : bad s = bad t)
    (h : Outcome d I rem bad sz t res) : Outcome d I rem bad sz s res := by
  unfold Outcome at *
  rw [hr, hb]
  exact h

structure RunOk (r : Run α) (rem : List α) (bad : Bool) (sz : Nat) : Prop where
  good : bad = false → r.err = none ∧ r.chunks.flatten = rem
  bad : bad = true → ∃ e, r.err = some e ∧ e.cls ≠ .fuel
  offs : ∀ o ∈ r.offs, o ≤ sz
  nonempty : ∀ c ∈ r.chunks, c ≠ []

theorem run_spec {d : Dec σ α} {I : σ → Prop} {rem : σ → List α} {bad : σ → Bool} {sz : Nat}
    (h : StepSpec d I rem bad sz) :
    ∀ fuel s, I s → (rem s).length < fuel → RunOk (run d fuel s) (rem s) (bad s) sz := by
  intro fuel
  induction fuel with
  | zero => intro s _ hl; omega
  | succ fuel ih =>
    intro s hI hl
    rcases h s hI with ⟨out, s', hr, hne, hrem, hbad, hI', hoff⟩ | ⟨s', hr, hoff, hc⟩ | ⟨e, hr, hb, hf⟩
    · have hlen : (rem s').length < fuel := by
        have : out.length ≠ 0 := by
          intro h0; exact hne (List.length_eq_zero_iff.mp h0)
        have : (rem s).length = out.length + (rem s').length := by rw [hrem, List.length_append]
        omega
      have r := ih s' hI' hlen
      have hemp : out.isEmpty = false := by
        cases out with
        | nil => exact absurd rfl hne
        | cons _ _ => rfl
      simp only [run, hr, hemp]
      constructor
      · intro hb
        have := r.good (by rw [hbad]; exact hb)
        simp [this.1, this.2, hrem]
      · intro hb
        exact r.bad (by rw [hbad]; exact hb)
      · intro o ho
        simp at ho
        rcases ho with rfl | ho
        · exact hoff
        · exact r.offs o ho
      · intro c hc
        simp at hc
        rcases hc with rfl | hc
        · exact hne
        · exact r.nonempty c hc
    · rcases hc with ⟨hb, hrem, hcl⟩ | ⟨hb, e, hcl, hf⟩
      · simp only [run, hr, hcl]
        constructor
        · intro _; simp [hrem]
        · intro hb'; rw [hb] at hb'; cases hb'
        · intro o ho; simp at ho; rw [ho]; exact hoff
        · intro c hc; simp at hc
      · simp only [run, hr, hcl]
        constructor
        · intro hb'; rw [hb] at hb'; cases hb'
        · intro _; exact ⟨e, by simp, hf⟩
        · intro o ho; simp at ho; rw [ho]; exact hoff
        · intro c hc; simp at hc
    · simp only [run, hr]
      constructor
      · intro hb'; rw [hb] at hb'; cases hb'
      · intro _; exact ⟨e, rfl, hf⟩
      · intro o ho; simp at ho
      · intro c hc; simp at hc

theorem take_ne_nil {l : List α} {n : Nat} (hn : 0 < n) (hl : l ≠ []) : l.take n ≠ [] := by
  cases l with
  | nil => exact absurd rfl hl
  | cons a t =>
    cases n with
    | zero => omega
    | succ n => simp

/-! ## NoDecompressor -/

theorem noFd_step (cfg : Cfg) (hn : 0 < cfg.ibs) (F : Nat) :
    StepSpec (noFdDec (α := α) cfg) (fun s => s.offset + s.file.length = F) (fun s => s.file) (fun _ => false) F := by
  intro s hI
  by_cases hf : s.file = []
  · right; left
    refine ⟨{ file := s.file.drop cfg.ibs, offset := s.offset + (s.file.take cfg.ibs).length }, ?_, ?_, ?_⟩
    · simp [noFdDec, hf]
    · simp [noFdDec, hf] at *; omega
    · left; exact ⟨rfl, hf, rfl⟩
  · left
    refine ⟨s.file.take cfg.ibs, { file := s.file.drop cfg.ibs, offset := s.offset + (s.file.take cfg.ibs).length }, rfl,
      take_ne_nil hn hf, (List.take_append_drop _ _).symm, rfl, ?_, ?_⟩
    · simp only [List.length_take, List.length_drop]; omega
    · simp only [noFdDec, List.length_take]; omega

theorem noBuf_step (F : Nat) :
    StepSpec (noBufDec (α := α))
      (fun s => (s.size = 0 ∧ s.offset ≤ F) ∨ (s.size = s.buffer.length ∧ s.size ≠ 0 ∧ s.offset = 0 ∧ s.buffer.length = F))
      (fun s => if s.size = 0 then [] else s.buffer) (fun _ => false) F := by
  intro s hI
  rcases hI with ⟨h0, ho⟩ | ⟨hs, hne, ho, hF⟩
  · right; left
    refine ⟨s, ?_, ho, ?_⟩
    · simp [noBufDec, h0]
    · left; simp [h0, noBufDec]
  · left
    refine ⟨s.buffer, { s with size := 0, offset := s.offset + s.buffer.length }, ?_, ?_, ?_, rfl, ?_, ?_⟩
    · simp [noBufDec, hne]
    · intro hb; rw [hb] at hs; simp at hs; exact hne hs
    · simp [hne]
    · left; simp; omega
    · simp [noBufDec]; omega

/-! ## GzipDecompressor over the gzread contract -/

/-- will this gzFile make the wrapper raise? -/
def gzBad (fx : Fixes) (s : GzState α) : Bool :=
  s.trunc || s.dataErr || (fx.gzDirect && s.direct && !s.pending.isEmpty)

theorem gzFd_step (cfg : Cfg) (hn : 0 < cfg.ibs) (fx : Fixes) (F : Nat) :
    StepSpec (gzFdDec (α := α) cfg fx)
      (fun s => s.fsize = F ∧ s.off ≤ F ∧ (s.trunc = false → s.bufErr = false))
      (fun s => s.pending) (gzBad fx) F := by
  intro s ⟨hF, ho, hb⟩
  by_cases hd : (s.dataErr && decide (s.pending.length < cfg.ibs)) = true
  · -- gzread returns -1
    right; right
    have hre : gzReadE cfg.ibs s = none := by simp only [gzReadE, hd]; rfl
    refine ⟨⟨.gzip, .read⟩, by simp [gzFdDec, hre], ?_, by simp⟩
    simp only [Bool.and_eq_true] at hd
    simp [gzBad, hd.1]
  have hre : gzReadE cfg.ibs s = some (gzRead cfg.ibs s) := by simp only [gzReadE, hd]; rfl
  by_cases hp : s.pending = []
  · have hde : s.dataErr = false := by
      cases h : s.dataErr
      · rfl
      · exfalso; apply hd; simp [h, hp, hn]
    have hread : (gzFdDec (α := α) cfg fx).read s = .ok (gzRead cfg.ibs s) := by
      simp [gzFdDec, hre, gzRead, hp]
    rw [hread]
    right; left
    refine ⟨(gzRead cfg.ibs s).2, ?_, ?_, ?_⟩
    · simp [gzRead, hp]
    · simp [gzFdDec, gzRead, hp, hn, hF]
    · cases ht : s.trunc
      · left
        refine ⟨by simp [gzBad, ht, hde, hp], hp, ?_⟩
        simp [gzFdDec, gzRead, hp, hn, ht, hb ht]
      · right
        refine ⟨by simp [gzBad, ht], ⟨.gzip, .close⟩, ?_, by simp⟩
        simp [gzFdDec, gzRead, hp, hn, ht]
  · have hne : s.pending.take cfg.ibs ≠ [] := take_ne_nil hn hp
    have hemp : (s.pending.take cfg.ibs).isEmpty = false := by
      cases h : s.pending.take cfg.ibs with
      | nil => exact absurd h hne
      | cons _ _ => rfl
    have hpe : s.pending.isEmpty = false := by
      cases h : s.pending with
      | nil => exact absurd h hp
      | cons _ _ => rfl
    by_cases hdir : (fx.gzDirect && s.direct) = true
    · -- repaired wrapper: gzdirect() after a read that delivered something
      right; right
      have h1 : fx.gzDirect = true ∧ s.direct = true := by simpa using hdir
      refine ⟨⟨.gzip, .read⟩, ?_, ?_, by simp⟩
      · have hc : (fx.gzDirect && s.direct && !(gzRead cfg.ibs s).1.isEmpty) = true := by
          simp only [gzRead, hemp, h1.1, h1.2]; rfl
        simp only [gzFdDec, hre, hc]; rfl
      · simp [gzBad, h1.1, h1.2, hpe]
    · have hdir' : (fx.gzDirect && s.direct) = false := by
        cases h : (fx.gzDirect && s.direct) <;> simp_all
      have hread : (gzFdDec (α := α) cfg fx).read s = .ok (gzRead cfg.ibs s) := by
        have hc : (fx.gzDirect && s.direct && !(gzRead cfg.ibs s).1.isEmpty) = false := by
          rw [hdir']; rfl
        simp only [gzFdDec, hre, hc]; rfl
      rw [hread]
      left
      refine ⟨s.pending.take cfg.ibs, (gzRead cfg.ibs s).2, rfl, hne, ?_, ?_, ?_, ?_⟩
      · simp [gzRead]
      · simp [gzBad, gzRead, hdir']
      · refine ⟨hF, ?_, ?_⟩
        · simp only [gzRead]; split <;> omega
        · intro ht; simp only [gzRead] at ht ⊢; simp [ht, hb ht]
      · simp only [gzFdDec, gzRead]; split <;> omega

/-! ## Ghost data of files -/

def hasTrunc (f : CFile α) : Bool := f.any (·.trunc)

/-- some stream is cut or damaged: the file is not a concatenation of complete valid streams -/
def faulty (f : CFile α) : Bool := f.any (fun s => s.trunc || s.bad != .none)

/-- only the last stream of a file can be cut or damaged (a library never looks beyond such a stream) -/
def truncOnlyLast : CFile α → Bool
  | [] => true
  | [_] => true
  | s :: t => !s.trunc && s.bad == .none && truncOnlyLast t

theorem refPayload_cons (s : Stream α) (t : CFile α) : refPayload (s :: t) = s.payload ++ refPayload t := by
  simp [refPayload]

theorem fileSize_cons (s : Stream α) (t : CFile α) : fileSize (s :: t) = s.csize + fileSize t := by
  simp [fileSize]

theorem truncOnlyLast_tail {s : Stream α} {t : CFile α} (h : truncOnlyLast (s :: t) = true) : truncOnlyLast t = true := by
  cases t with
  | nil => rfl
  | cons a t => simp [truncOnlyLast] at h; exact h.2

theorem truncOnlyLast_head {s : Stream α} {t : CFile α} (h : truncOnlyLast (s :: t) = true) (ht : s.trunc = true) : t = [] := by
  cases t with
  | nil => rfl
  | cons a t => simp [truncOnlyLast, ht] at h

theorem truncOnlyLast_head_bad {s : Stream α} {t : CFile α} (h : truncOnlyLast (s :: t) = true) (hb : s.bad ≠ .none) : t = [] := by
  cases t with
  | nil => rfl
  | cons a t => simp [truncOnlyLast, hb] at h

theorem intact_iff_faulty (f : CFile α) : intact f = !faulty f := by
  induction f with
  | nil => rfl
  | cons s t ih =>
    simp only [intact, faulty, List.all_cons, List.any_cons] at *
    rw [ih]; cases s.trunc <;> cases s.bad <;> first | rfl | simp

theorem faulty_of_hasTrunc {f : CFile α} (h : hasTrunc f = true) : faulty f = true := by
  simp only [hasTrunc, faulty, List.any_eq_true] at *
  obtain ⟨x, hx, ht⟩ := h
  exact ⟨x, hx, by simp [ht]⟩

theorem faulty_cons (s : Stream α) (t : CFile α) : faulty (s :: t) = (s.trunc || s.bad != .none || faulty t) := by
  simp [faulty]

/-- no stream lacks its header -/
def noMagic (f : CFile α) : Bool := f.all (fun s => s.bad != .magic)

/-- what gzread hands out for a file in which every stream has its magic: all payloads; it fails
    (Z_BUF_ERROR at close / Z_DATA_ERROR) exactly when some stream is cut or damaged -/
theorem gzScan_noMagic : ∀ (b : Bool) (f : CFile α), noMagic f = true → truncOnlyLast f = true →
    (gzScan b f).1 = refPayload f ∧ ((gzScan b f).2.1 || (gzScan b f).2.2) = faulty f := by
  intro b f
  induction f generalizing b with
  | nil => intro _ _; simp [gzScan, refPayload, faulty]
  | cons s t ih =>
    intro hm hw
    have hm' : noMagic t = true := by simp only [noMagic, List.all_cons, Bool.and_eq_true] at hm ⊢; exact hm.2
    have hs : (s.bad != .magic) = true := by simp only [noMagic, List.all_cons, Bool.and_eq_true] at hm; exact hm.1
    cases hb : s.bad with
    | magic => simp [hb] at hs
    | data =>
      have ht : t = [] := truncOnlyLast_head_bad hw (by simp [hb])
      subst ht
      simp [gzScan, hb, refPayload, faulty]
    | none =>
      obtain ⟨i1, i2⟩ := ih false hm' (truncOnlyLast_tail hw)
      simp only [gzScan, hb, refPayload_cons, faulty_cons]
      refine ⟨by rw [i1], ?_⟩
      rw [← i2]
      cases s.trunc <;> simp

/-! ## The buffer decompressors over the inflate / BZ2_bzDecompress contract -/

def zRem (z : ZState α) : List α := if z.has then z.cur ++ refPayload z.rest else []
def zBad (z : ZState α) : Bool := !z.has || z.trunc || z.bad != .none || faulty z.rest

def bufRem (s : BufDec α) : List α := if s.live then zRem s.z else []
def bufBad (s : BufDec α) : Bool := s.live && zBad s.z

def BufInv (N : Nat) (s : BufDec α) : Prop :=
  s.live = true → s.z.has = true ∧ (s.z.trunc = true → s.z.rest = []) ∧ truncOnlyLast s.z.rest = true ∧ s.z.rest.length ≤ N ∧
    (s.z.bad ≠ .none → s.z.rest = [])

theorem zOpen_cons_rem (r : Stream α) (rs : CFile α) : zRem (zOpen (r :: rs)) = refPayload (r :: rs) := by
  simp [zRem, zOpen, refPayload_cons]

theorem zOpen_cons_bad (r : Stream α) (rs : CFile α) : zBad (zOpen (r :: rs)) = faulty (r :: rs) := by
  simp [zBad, zOpen, faulty]

theorem bufInv_open (N : Nat) (r : Stream α) (rs : CFile α) (h : truncOnlyLast (r :: rs) = true) (hl : rs.length ≤ N) :
    BufInv N { z := zOpen (r :: rs), live := true } := by
  intro _
  refine ⟨rfl, ?_, truncOnlyLast_tail h, hl, ?_⟩
  · intro ht
    exact truncOnlyLast_head h ht
  · intro hb
    exact truncOnlyLast_head_bad h hb

theorem zInflate_trunc (k : Kind) (room : Nat) (z : ZState α) (hh : z.has = true) (hb : z.bad = .none) (ht : z.trunc = true) :
    ∃ ret b, zInflate k room z = (z.cur.take room, ret, { z with cur := z.cur.drop room, inLeft := b }) ∧
      (ret = .ok ∨ ret = .bufError) := by
  cases k
  · by_cases hc : ((z.cur.take room).isEmpty && !z.inLeft) = true
    · exact ⟨.bufError, _, by simp only [zInflate, hh, hb, ht, hc]; rfl, Or.inr rfl⟩
    · exact ⟨.ok, _, by simp only [zInflate, hh, hb, ht, hc]; rfl, Or.inl rfl⟩
  · exact ⟨.ok, _, by simp only [zInflate, hh, hb, ht]; rfl, Or.inl rfl⟩

/-- the repaired buffer decompressors: one `read()` -/
theorem bufRead_fixed (cfg : Cfg) (k : Kind) (fx : Fixes) (hm : fx.bufMulti = true) (ht : fx.bufTrunc = true)
    (hr : 0 < cfg.ostep) (N : Nat) :
    ∀ fuel (s : BufDec α), BufInv N s → s.z.rest.length < fuel →
      Outcome (bufDec cfg fx k N) (BufInv N) bufRem bufBad 0 s (bufRead cfg fx k fuel s) := by
  intro fuel
  induction fuel with
  | zero => intro s _ h; omega
  | succ fuel ih =>
    intro s hI hfuel
    cases hlive : s.live
    · -- m_buffer == nullptr
      right; left
      refine ⟨s, by simp [bufRead, hlive], Nat.le_refl _, ?_⟩
      left; simp [bufBad, bufRem, hlive, bufDec]
    · obtain ⟨hhas, htr, hwf, hN, hbr⟩ := hI hlive
      by_cases hbad : ¬ s.z.bad = .none
      · -- damaged current stream: the library reports it, the wrapper throws (any stream of the buffer)
        have hbne : (s.z.bad != .none) = true := by simpa using hbad
        have hrest : s.z.rest = [] := hbr hbad
        have hbadS : bufBad s = true := by simp [bufBad, hlive, zBad, hbne]
        by_cases herr : (s.z.bad == .magic || decide (s.z.cur.length < cfg.ostep)) = true
        · right; right
          have hz : zInflate k cfg.ostep s.z = ([], s.z.bad.zret, s.z) := by
            simp only [zInflate, hhas, hbne, herr]; rfl
          have hstep : bufStep cfg fx k s = .error ⟨errOf k, .read⟩ := by
            simp only [bufStep, hz]
            cases hb : s.z.bad
            · exact absurd hb hbad
            · rfl
            · rfl
          exact ⟨⟨errOf k, .read⟩, by simp [bufRead, hlive, hstep], hbadS, by cases k <;> simp [errOf]⟩
        · have hge : cfg.ostep ≤ s.z.cur.length := by
            simp only [Bool.or_eq_true, decide_eq_true_eq, not_or, Nat.not_lt] at herr; exact herr.2
          have hne : s.z.cur.take cfg.ostep ≠ [] := by
            apply take_ne_nil hr
            intro h; rw [h] at hge; simp at hge; omega
          have hemp : (s.z.cur.take cfg.ostep).isEmpty = false := by
            cases h : s.z.cur.take cfg.ostep with
            | nil => exact absurd h hne
            | cons _ _ => rfl
          have hz : zInflate k cfg.ostep s.z = (s.z.cur.take cfg.ostep, .ok, { s.z with cur := s.z.cur.drop cfg.ostep }) := by
            simp only [zInflate, hhas, hbne, herr]; rfl
          have hstep : bufStep cfg fx k s = .ok (s.z.cur.take cfg.ostep, { z := { s.z with cur := s.z.cur.drop cfg.ostep }, live := true }) := by
            simp [bufStep, hz, hhas, List.length_take, Nat.min_eq_left hge]
          left
          refine ⟨s.z.cur.take cfg.ostep, { z := { s.z with cur := s.z.cur.drop cfg.ostep }, live := true }, ?_, hne, ?_, ?_, ?_, Nat.le_refl _⟩
          · simp [bufRead, hlive, hstep, hemp]
          · simp [bufRem, hlive, zRem, hhas, ← List.append_assoc]
          · simp [bufBad, hlive, zBad, hhas, hbne]
          · intro _; exact ⟨hhas, htr, hwf, hN, hbr⟩
      have hbad : s.z.bad = .none := Classical.not_not.mp hbad
      cases htrunc : s.z.trunc
      · -- intact current stream
        by_cases hle : s.z.cur.length ≤ cfg.ostep
        · -- the call that produces the last byte: STREAM_END
          cases hrest : s.z.rest with
          | nil =>
            have hstep : bufStep cfg fx k s = .ok (s.z.cur, { z := { s.z with cur := [] }, live := false }) := by
              simp [bufStep, zInflate, hhas, hbad, htrunc, hle, hrest, List.take_of_length_le hle]
            by_cases hout : s.z.cur = []
            · right; left
              refine ⟨{ z := { s.z with cur := [] }, live := false }, ?_, Nat.le_refl _, ?_⟩
              · simp only [bufRead, hlive, hstep, hm, hout]
                cases fuel <;> simp [bufRead]
              · left; simp [bufBad, bufRem, hlive, zBad, zRem, hhas, hbad, htrunc, hrest, hout, faulty, refPayload, bufDec]
            · left
              refine ⟨s.z.cur, { z := { s.z with cur := [] }, live := false }, ?_, hout, ?_, ?_, ?_, Nat.le_refl _⟩
              · have : s.z.cur.isEmpty = false := by
                  cases h : s.z.cur with
                  | nil => exact absurd h hout
                  | cons _ _ => rfl
                simp [bufRead, hlive, hstep, this]
              · simp [bufRem, hlive, zRem, hhas, hrest, refPayload]
              · simp [bufBad, hlive, zBad, hhas, hbad, htrunc, hrest, faulty]
              · intro h; cases h
          | cons r rs =>
            have hstep : bufStep cfg fx k s = .ok (s.z.cur, { z := zOpen (r :: rs), live := true }) := by
              simp [bufStep, zInflate, hhas, hbad, htrunc, hle, hrest, hm, zNext, List.take_of_length_le hle]
            have hwf' : truncOnlyLast (r :: rs) = true := by rw [← hrest]; exact hwf
            have hlen : rs.length ≤ N := by rw [hrest] at hN; simp at hN; omega
            have hI' : BufInv N { z := zOpen (r :: rs), live := true } := bufInv_open N r rs hwf' hlen
            by_cases hout : s.z.cur = []
            · -- empty payload: go on with the next stream inside the same read()
              have hgo : bufRead cfg fx k (fuel + 1) s = bufRead cfg fx k fuel { z := zOpen (r :: rs), live := true } := by
                simp [bufRead, hlive, hstep, hm, hout]
              rw [hgo]
              apply Outcome.transfer (t := { z := zOpen (r :: rs), live := true })
              · simp [bufRem, hlive, zRem, hhas, hrest, hout, zOpen, refPayload_cons]
              · simp [bufBad, hlive, zBad, hhas, hbad, htrunc, hrest, zOpen, faulty]
              · apply ih _ hI'
                rw [hrest] at hfuel
                simp [zOpen] at hfuel ⊢; omega
            · left
              refine ⟨s.z.cur, { z := zOpen (r :: rs), live := true }, ?_, hout, ?_, ?_, hI', Nat.le_refl _⟩
              · have : s.z.cur.isEmpty = false := by
                  cases h : s.z.cur with
                  | nil => exact absurd h hout
                  | cons _ _ => rfl
                simp [bufRead, hlive, hstep, this]
              · simp [bufRem, hlive, zRem, hhas, hrest, zOpen, refPayload_cons]
              · simp [bufBad, hlive, zBad, hhas, hbad, htrunc, hrest, zOpen, faulty]
        · -- more than one output step left: Z_OK with a full step
          have hgt : cfg.ostep < s.z.cur.length := Nat.lt_of_not_le hle
          have hne : s.z.cur.take cfg.ostep ≠ [] := by
            apply take_ne_nil hr
            intro h; rw [h] at hgt; simp at hgt
          have hstep : bufStep cfg fx k s = .ok (s.z.cur.take cfg.ostep, { z := { s.z with cur := s.z.cur.drop cfg.ostep }, live := true }) := by
            simp [bufStep, zInflate, hhas, hbad, htrunc, hle]
          left
          refine ⟨s.z.cur.take cfg.ostep, { z := { s.z with cur := s.z.cur.drop cfg.ostep }, live := true }, ?_, hne, ?_, ?_, ?_, Nat.le_refl _⟩
          · have : (s.z.cur.take cfg.ostep).isEmpty = false := by
              cases h : s.z.cur.take cfg.ostep with
              | nil => exact absurd h hne
              | cons _ _ => rfl
            simp [bufRead, hlive, hstep, this]
          · simp [bufRem, hlive, zRem, hhas, ← List.append_assoc]
          · simp [bufBad, hlive, zBad, hhas, hbad, htrunc]
          · intro _; exact ⟨hhas, by simp [htrunc], hwf, hN, hbr⟩
      · -- the buffer ends inside the current stream
        have hrest : s.z.rest = [] := htr htrunc
        by_cases hlt : s.z.cur.length < cfg.ostep
        · -- the call cannot fill its output: reported
          right; right
          have hbadS : bufBad s = true := by simp [bufBad, hlive, zBad, htrunc]
          have : ∃ e, bufStep cfg fx k s = .error e ∧ e.cls ≠ .fuel := by
            obtain ⟨ret, b, hz, hret⟩ := zInflate_trunc k cfg.ostep s.z hhas hbad htrunc
            rcases hret with rfl | rfl
            · refine ⟨⟨errOf k, .read⟩, ?_, by cases k <;> simp [errOf]⟩
              simp [bufStep, hz, ht, hhas, htrunc, List.length_take]
              omega
            · refine ⟨⟨errOf k, .read⟩, ?_, by cases k <;> simp [errOf]⟩
              simp [bufStep, hz]
          obtain ⟨e, he, hf⟩ := this
          exact ⟨e, by simp [bufRead, hlive, he], hbadS, hf⟩
        · have hge : cfg.ostep ≤ s.z.cur.length := Nat.le_of_not_lt hlt
          have hne : s.z.cur.take cfg.ostep ≠ [] := by
            apply take_ne_nil hr
            intro h; rw [h] at hge; simp at hge; omega
          have hemp : (s.z.cur.take cfg.ostep).isEmpty = false := by
            cases h : s.z.cur.take cfg.ostep with
            | nil => exact absurd h hne
            | cons _ _ => rfl
          obtain ⟨ret, b, hz, hret⟩ := zInflate_trunc k cfg.ostep s.z hhas hbad htrunc
          have hret' : ret = .ok := by
            rcases hret with h | h
            · exact h
            · -- Z_BUF_ERROR needs an empty output
              exfalso
              cases k
              · rw [h] at hz
                simp only [zInflate, hhas, hbad, htrunc, hemp] at hz
                simp at hz
              · rw [h] at hz
                simp only [zInflate, hhas, hbad, htrunc] at hz
                simp at hz
          subst hret'
          have hstep : bufStep cfg fx k s = .ok (s.z.cur.take cfg.ostep, { z := { s.z with cur := s.z.cur.drop cfg.ostep, inLeft := b }, live := true }) := by
            simp [bufStep, hz, ht, hhas, htrunc, List.length_take, Nat.min_eq_left hge]
          left
          refine ⟨s.z.cur.take cfg.ostep, { z := { s.z with cur := s.z.cur.drop cfg.ostep, inLeft := b }, live := true }, ?_, hne, ?_, ?_, ?_, Nat.le_refl _⟩
          · simp [bufRead, hlive, hstep, hemp]
          · simp [bufRem, hlive, zRem, hhas, ← List.append_assoc]
          · simp [bufBad, hlive, zBad, hhas, hbad, htrunc]
          · intro _; exact ⟨hhas, fun _ => hrest, hwf, hN, hbr⟩

theorem bufDec_fixed_step (cfg : Cfg) (k : Kind) (fx : Fixes) (hm : fx.bufMulti = true) (ht : fx.bufTrunc = true)
    (hr : 0 < cfg.ostep) (N : Nat) :
    StepSpec (bufDec (α := α) cfg fx k N) (BufInv N) bufRem bufBad 0 := by
  intro s hI
  by_cases hl : s.live = true
  · exact bufRead_fixed cfg k fx hm ht hr N (N + 1) s hI (by have := (hI hl).2.2.2.1; omega)
  · have : (bufDec cfg fx k N).read s = bufRead cfg fx k (N + 1) s := rfl
    rw [this]
    have hl' : s.live = false := by cases h : s.live <;> simp_all
    right; left
    refine ⟨s, by simp [bufRead, hl'], Nat.le_refl _, ?_⟩
    left; simp [bufBad, bufRem, hl', bufDec]

/-- The buffer decompressors as they are today: whatever follows, exactly the first stream is delivered. -/
def bufRem0 (s : BufDec α) : List α := if s.live then s.z.cur else []

theorem bufDec_current_step (cfg : Cfg) (k : Kind) (fx : Fixes) (hm : fx.bufMulti = false) (ht : fx.bufTrunc = false)
    (hr : 0 < cfg.ostep) (N : Nat) :
    StepSpec (bufDec (α := α) cfg fx k N) (fun s => s.live = true → s.z.has = true ∧ s.z.trunc = false ∧ s.z.bad = .none)
      bufRem0 (fun _ => false) 0 := by
  intro s hI
  have hread : (bufDec cfg fx k N).read s = bufRead cfg fx k (N + 1) s := rfl
  rw [hread]
  cases hlive : s.live
  · right; left
    refine ⟨s, by simp [bufRead, hlive], Nat.le_refl _, ?_⟩
    left; simp [bufRem0, hlive, bufDec]
  · obtain ⟨hhas, htrunc, hbad⟩ := hI hlive
    by_cases hle : s.z.cur.length ≤ cfg.ostep
    · have hstep : bufStep cfg fx k s = .ok (s.z.cur, { z := { s.z with cur := [] }, live := false }) := by
        simp [bufStep, zInflate, hhas, hbad, htrunc, hle, hm, List.take_of_length_le hle]
      by_cases hout : s.z.cur = []
      · right; left
        refine ⟨{ z := { s.z with cur := [] }, live := false }, ?_, Nat.le_refl _, ?_⟩
        · simp [bufRead, hlive, hstep, hm, hout]
        · left; simp [bufRem0, hlive, hout, bufDec]
      · left
        refine ⟨s.z.cur, { z := { s.z with cur := [] }, live := false }, ?_, hout, ?_, rfl, ?_, Nat.le_refl _⟩
        · simp [bufRead, hlive, hstep, hm]
        · simp [bufRem0, hlive]
        · intro h; cases h
    · have hgt : cfg.ostep < s.z.cur.length := Nat.lt_of_not_le hle
      have hne : s.z.cur.take cfg.ostep ≠ [] := by
        apply take_ne_nil hr
        intro h; rw [h] at hgt; simp at hgt
      have hstep : bufStep cfg fx k s = .ok (s.z.cur.take cfg.ostep, { z := { s.z with cur := s.z.cur.drop cfg.ostep }, live := true }) := by
        simp [bufStep, zInflate, hhas, hbad, htrunc, hle, ht]
      left
      refine ⟨s.z.cur.take cfg.ostep, { z := { s.z with cur := s.z.cur.drop cfg.ostep }, live := true }, ?_, hne, ?_, rfl, ?_, Nat.le_refl _⟩
      · simp [bufRead, hlive, hstep, hm]
      · simp [bufRem0, hlive]
      · intro _; exact ⟨hhas, htrunc, hbad⟩

/-! ## The BZ2_bzRead oracle satisfies its contract -/

theorem bzRefill_frame (cfg : Cfg) (s : BzState α) :
    (bzRefill cfg s).cur = s.cur ∧ (bzRefill cfg s).e = s.e ∧ (bzRefill cfg s).rest = s.rest ∧
    (bzRefill cfg s).trunc = s.trunc ∧ (bzRefill cfg s).fsize = s.fsize ∧ (bzRefill cfg s).pos = s.pos := by
  unfold bzRefill
  split
  · split <;> simp
  · simp

theorem bzRefill_bad (cfg : Cfg) (s : BzState α) : (bzRefill cfg s).bad = s.bad := by
  unfold bzRefill
  split
  · split <;> simp
  · simp

theorem bzProbe_bad (s : BzState α) : (bzProbe s).bad = s.bad := by
  unfold bzProbe
  split <;> simp

/-- one iteration of the BZ2_bzRead loop on a stream that has a header -/
theorem bzReadLoop_succ (cfg : Cfg) (fuel room : Nat) (acc : List α) (s : BzState α) (h : s.bad ≠ .magic) :
    bzReadLoop cfg (fuel + 1) room acc s =
      (if (bzDecompress cfg room (bzRefill cfg s)).2.1 then
        .ok (acc ++ (bzDecompress cfg room (bzRefill cfg s)).1, true, (bzDecompress cfg room (bzRefill cfg s)).2.2)
      else
        if (bzProbe (bzDecompress cfg room (bzRefill cfg s)).2.2).fp == (bzProbe (bzDecompress cfg room (bzRefill cfg s)).2.2).fsize &&
            (bzProbe (bzDecompress cfg room (bzRefill cfg s)).2.2).pos == (bzProbe (bzDecompress cfg room (bzRefill cfg s)).2.2).fp &&
            decide (0 < room - (bzDecompress cfg room (bzRefill cfg s)).1.length) then .error (BzErr.ofBad s.bad)
        else if room - (bzDecompress cfg room (bzRefill cfg s)).1.length == 0 then
          .ok (acc ++ (bzDecompress cfg room (bzRefill cfg s)).1, false, bzProbe (bzDecompress cfg room (bzRefill cfg s)).2.2)
        else bzReadLoop cfg fuel (room - (bzDecompress cfg room (bzRefill cfg s)).1.length)
          (acc ++ (bzDecompress cfg room (bzRefill cfg s)).1) (bzProbe (bzDecompress cfg room (bzRefill cfg s)).2.2)) := by
  have hm : (s.bad == Bad.magic) = false := by
    cases hb : s.bad
    · rfl
    · rfl
    · exact absurd hb h
  rw [bzReadLoop]
  simp only [hm]
  rfl

/-- bytes that do not start with a bzip2 header: BZ_DATA_ERROR_MAGIC from the first call -/
theorem bzReadLoop_magic (cfg : Cfg) (fuel room : Nat) (acc : List α) (s : BzState α) (h : s.bad = .magic) :
    bzReadLoop cfg (fuel + 1) room acc s = .error .dataErrorMagic := by
  rw [bzReadLoop]; simp [h]

theorem bzRefill_fp (cfg : Cfg) (hra : 0 < cfg.ra) (s : BzState α) (h2 : s.fp ≤ s.fsize) :
    s.fp ≤ (bzRefill cfg s).fp ∧ (bzRefill cfg s).fp ≤ s.fsize ∧
    (s.pos = s.fp → s.fp < s.fsize → s.fp < (bzRefill cfg s).fp) := by
  unfold bzRefill
  by_cases h : s.pos = s.fp
  · by_cases h' : s.fp = s.fsize
    · simp [h, h']
    · simp [h, h']; omega
  · simp [h]; omega

theorem bzProbe_frame (s : BzState α) :
    (bzProbe s).cur = s.cur ∧ (bzProbe s).e = s.e ∧ (bzProbe s).rest = s.rest ∧ (bzProbe s).trunc = s.trunc ∧
    (bzProbe s).fsize = s.fsize ∧ (bzProbe s).pos = s.pos ∧ (bzProbe s).fp = s.fp := by
  unfold bzProbe
  split <;> simp

/-- what a successful BZ2_bzRead leaves behind -/
structure BzPost (s s' : BzState α) (room : Nat) (fin : Bool) : Prop where
  cur : s'.cur = s.cur.drop room
  e : s'.e = s.e
  rest : s'.rest = s.rest
  trunc : s'.trunc = s.trunc
  fsize : s'.fsize = s.fsize
  bad : s'.bad = s.bad
  pos_le : s'.pos ≤ s'.fp
  fp_le : s'.fp ≤ s'.fsize
  fin_t : fin = true → s.cur.length ≤ room ∧ s'.pos = s.e
  fin_f : fin = false → room ≤ s.cur.length

/-- Contract of BZ2_bzRead on an intact stream: BZ_OK with exactly `room` bytes, or BZ_STREAM_END with all
    that was left (at most `room`, possibly nothing); the handle then stands at the end of the stream. -/
theorem bzReadLoop_intact (cfg : Cfg) (hra : 0 < cfg.ra) :
    ∀ fuel room acc (s : BzState α), s.trunc = false → s.bad = .none → s.pos ≤ s.fp → s.fp ≤ s.fsize → s.e ≤ s.fsize → 0 < room →
      s.fsize - s.fp + (if s.pos = s.fp then 1 else 2) ≤ fuel →
      ∃ fin s', bzReadLoop cfg fuel room acc s = .ok (acc ++ s.cur.take room, fin, s') ∧ BzPost s s' room fin := by
  intro fuel
  induction fuel with
  | zero => intro room acc s _ _ _ _ _ _ hf; split at hf <;> omega
  | succ fuel ih =>
    intro room acc s htr hb hpos hfp he hroom hfuel
    have hnm : s.bad ≠ .magic := by rw [hb]; intro h; cases h
    have fb := bzRefill_bad cfg s
    obtain ⟨f1, f2, f3, f4, f5, f6⟩ := bzRefill_frame cfg s
    obtain ⟨g1, g2, g3⟩ := bzRefill_fp cfg hra s hfp
    generalize hs1 : bzRefill cfg s = s1 at *
    have hfuel' : s1.fp < s.fsize → s.fsize - s1.fp + 1 ≤ fuel := by
      intro hlt
      split at hfuel
      · rename_i hp
        have := g3 hp (by omega)
        omega
      · omega
    by_cases hA : s1.fp < s.e - cfg.trailer
    · -- block data not yet complete: everything in the read-ahead is consumed, nothing comes out
      have hr : bzDecompress cfg room s1 = ([], false, { s1 with pos := s1.fp }) := by
        simp [bzDecompress, f4, htr, f2, hA]
      have hne : ¬ (s1.fp = s.fsize) := by omega
      have hp3 : bzProbe { s1 with pos := s1.fp } = { s1 with pos := s1.fp } := by
        simp [bzProbe, f5, hne]
      have hgo : bzReadLoop cfg (fuel + 1) room acc s = bzReadLoop cfg fuel room acc { s1 with pos := s1.fp } := by
        simp only [bzReadLoop_succ cfg _ _ _ s hnm, hs1, hr, hp3]
        simp [f5, hne]
        omega
      obtain ⟨fin, s', h1, h2⟩ := ih room acc { s1 with pos := s1.fp } (by simp [f4, htr]) (by simp [fb, hb]) (by simp) (by simp [f5]; omega)
        (by simp [f2, f5]; omega) hroom (by simp [f5]; exact hfuel' (by omega))
      refine ⟨fin, s', ?_, ?_⟩
      · rw [hgo, h1]; simp [f1]
      · exact ⟨(by rw [h2.cur]; simp [f1]), (by rw [h2.e]; simp [f2]), (by rw [h2.rest]; simp [f3]), (by rw [h2.trunc]; simp [f4]), (by rw [h2.fsize]; simp [f5]), (by rw [h2.bad]; simp [fb]), h2.pos_le, h2.fp_le, (by intro h; have := h2.fin_t h; simpa [f1, f2] using this), (by intro h; have := h2.fin_f h; simpa [f1] using this)⟩
    · by_cases hB : room < s.cur.length
      · -- more payload than output space: BZ_OK, avail_out == 0
        have hd : (s.cur.drop room).isEmpty = false := by
          cases h : s.cur.drop room with
          | nil => rw [List.drop_eq_nil_iff] at h; omega
          | cons _ _ => rfl
        have hr : bzDecompress cfg room s1 = (s.cur.take room, false, { s1 with pos := s.e - cfg.trailer, cur := s.cur.drop room }) := by
          simp [bzDecompress, f4, htr, f2, hA, f1, hd]
        have hlen : (s.cur.take room).length = room := by simp [List.length_take]; omega
        refine ⟨false, bzProbe { s1 with pos := s.e - cfg.trailer, cur := s.cur.drop room }, ?_, ?_⟩
        · simp only [bzReadLoop_succ cfg _ _ _ s hnm, hs1, hr, hlen]
          simp
        · obtain ⟨p1, p2, p3, p4, p5, p6, p7⟩ := bzProbe_frame { s1 with pos := s.e - cfg.trailer, cur := s.cur.drop room }
          exact ⟨(by rw [p1]), (by rw [p2]; exact f2), (by rw [p3]; exact f3), (by rw [p4]; exact f4), (by rw [p5]; exact f5), (by rw [bzProbe_bad]; exact fb), (by rw [p6, p7]; simp; omega), (by rw [p7, p5]; simp [f5]; omega), (by intro h; cases h), (by intro _; omega)⟩
      · have hle : s.cur.length ≤ room := Nat.le_of_not_lt hB
        have hd : (s.cur.drop room).isEmpty = true := by
          rw [List.isEmpty_iff, List.drop_eq_nil_iff]; exact hle
        have htake : s.cur.take room = s.cur := List.take_of_length_le hle
        by_cases hC : s1.fp < s.e
        · -- payload exhausted but the trailer is not completely in the read-ahead: BZ_OK
          have hr : bzDecompress cfg room s1 = (s.cur, false, { s1 with pos := s1.fp, cur := [] }) := by
            simp [bzDecompress, f4, htr, f2, hA, f1, hd, hC, htake]
          have hne : ¬ (s1.fp = s.fsize) := by omega
          have hp3 : bzProbe { s1 with pos := s1.fp, cur := [] } = { s1 with pos := s1.fp, cur := [] } := by
            simp [bzProbe, f5, hne]
          by_cases hz : room - s.cur.length = 0
          · refine ⟨false, { s1 with pos := s1.fp, cur := [] }, ?_, ?_⟩
            · simp only [bzReadLoop_succ cfg _ _ _ s hnm, hs1, hr, hp3]
              simp [f5, hz, htake]
            · exact ⟨(by simp [List.drop_eq_nil_iff.mpr hle]), f2, f3, f4, f5, fb, (by simp), (by simp [f5]; omega), (by intro h; cases h), (by intro _; omega)⟩
          · have hgo : bzReadLoop cfg (fuel + 1) room acc s =
                bzReadLoop cfg fuel (room - s.cur.length) (acc ++ s.cur) { s1 with pos := s1.fp, cur := [] } := by
              simp only [bzReadLoop_succ cfg _ _ _ s hnm, hs1, hr, hp3]
              simp [f5, hne, hz]
            obtain ⟨fin, s', h1, h2⟩ := ih (room - s.cur.length) (acc ++ s.cur) { s1 with pos := s1.fp, cur := [] }
              (by simp [f4, htr]) (by simp [fb, hb]) (by simp) (by simp [f5]; omega) (by simp [f2, f5]; omega) (by omega)
              (by simp [f5]; exact hfuel' (by omega))
            have hfin : fin = true := by
              cases fin with
              | true => rfl
              | false => have := h2.fin_f rfl; simp at this; omega
            refine ⟨fin, s', ?_, ?_⟩
            · rw [hgo, h1]; simp [htake]
            · exact ⟨(by rw [h2.cur]; simp [List.drop_eq_nil_iff.mpr hle]), (by rw [h2.e]; simp [f2]), (by rw [h2.rest]; simp [f3]), (by rw [h2.trunc]; simp [f4]), (by rw [h2.fsize]; simp [f5]), (by rw [h2.bad]; simp [fb]), h2.pos_le, h2.fp_le, (by intro h; have := (h2.fin_t h).2; exact ⟨hle, by simpa [f2] using this⟩),
                by intro h; rw [hfin] at h; cases h⟩
        · -- the trailer is there: BZ_STREAM_END in the same call
          have hr : bzDecompress cfg room s1 = (s.cur, true, { s1 with pos := s.e, cur := [] }) := by
            simp [bzDecompress, f4, htr, f2, hA, f1, hd, hC, htake]
          refine ⟨true, { s1 with pos := s.e, cur := [] }, ?_, ?_⟩
          · simp only [bzReadLoop_succ cfg _ _ _ s hnm, hs1, hr]
            simp [htake]
          · exact ⟨(by simp [List.drop_eq_nil_iff.mpr hle]), f2, f3, f4, f5, fb, (by simp; omega), (by simp [f5]; omega), (by intro _; exact ⟨hle, rfl⟩), (by intro h; cases h)⟩

/-- Contract of BZ2_bzRead on a stream inside which the file ends: full buffers as long as there are any,
    then BZ_UNEXPECTED_EOF ("the library reports truncation"). -/
theorem bzReadLoop_trunc (cfg : Cfg) (hra : 0 < cfg.ra) :
    ∀ fuel room acc (s : BzState α), s.trunc = true → s.bad ≠ .magic → s.e = s.fsize → s.pos ≤ s.fp → s.fp ≤ s.fsize → 0 < room →
      s.fsize - s.fp + (if s.pos = s.fp then 1 else 2) ≤ fuel →
      (room ≤ s.cur.length → ∃ s', bzReadLoop cfg fuel room acc s = .ok (acc ++ s.cur.take room, false, s') ∧ BzPost s s' room false) ∧
      (s.cur.length < room → bzReadLoop cfg fuel room acc s = .error (BzErr.ofBad s.bad)) := by
  intro fuel
  induction fuel with
  | zero => intro room acc s _ _ _ _ _ _ hf; split at hf <;> omega
  | succ fuel ih =>
    intro room acc s htr hnm he hpos hfp hroom hfuel
    have fb := bzRefill_bad cfg s
    obtain ⟨f1, f2, f3, f4, f5, f6⟩ := bzRefill_frame cfg s
    obtain ⟨g1, g2, g3⟩ := bzRefill_fp cfg hra s hfp
    generalize hs1 : bzRefill cfg s = s1 at *
    have hfuel' : s1.fp < s.fsize → s.fsize - s1.fp + 1 ≤ fuel := by
      intro hlt
      split at hfuel
      · rename_i hp
        have := g3 hp (by omega)
        omega
      · omega
    by_cases hA : s1.fp < s.fsize
    · have hr : bzDecompress cfg room s1 = ([], false, { s1 with pos := s1.fp }) := by
        simp [bzDecompress, f4, htr, f2, he, hA]
      have hne : ¬ (s1.fp = s.fsize) := by omega
      have hp3 : bzProbe { s1 with pos := s1.fp } = { s1 with pos := s1.fp } := by
        simp [bzProbe, f5, hne]
      have hgo : bzReadLoop cfg (fuel + 1) room acc s = bzReadLoop cfg fuel room acc { s1 with pos := s1.fp } := by
        simp only [bzReadLoop_succ cfg _ _ _ s hnm, hs1, hr, hp3]
        simp [f5, hne]
        omega
      obtain ⟨h1, h2⟩ := ih room acc { s1 with pos := s1.fp } (by simp [f4, htr]) (by simp [fb, hnm]) (by simp [f2, f5, he]) (by simp) (by simp [f5]; omega)
        hroom (by simp [f5]; exact hfuel' hA)
      rw [hgo]
      constructor
      · intro hle
        obtain ⟨s', e1, e2⟩ := h1 (by simpa [f1] using hle)
        refine ⟨s', by rw [e1]; simp [f1], ?_⟩
        exact ⟨(by rw [e2.cur]; simp [f1]), (by rw [e2.e]; simp [f2]), (by rw [e2.rest]; simp [f3]), (by rw [e2.trunc]; simp [f4]),
          (by rw [e2.fsize]; simp [f5]), (by rw [e2.bad]; simp [fb]), e2.pos_le, e2.fp_le, (by intro h; cases h), (by intro _; exact hle)⟩
      · intro hlt
        have := h2 (by simpa [f1] using hlt)
        simpa [fb] using this
    · have hfpF : s1.fp = s.fsize := by omega
      by_cases hB : room < s.cur.length
      · have hd : (s.cur.drop room).isEmpty = false := by
          cases h : s.cur.drop room with
          | nil => rw [List.drop_eq_nil_iff] at h; omega
          | cons _ _ => rfl
        have hr : bzDecompress cfg room s1 = (s.cur.take room, false, { s1 with pos := s.fsize, cur := s.cur.drop room }) := by
          simp [bzDecompress, f4, htr, f2, he, hA, f1, hd]
        have hlen : (s.cur.take room).length = room := by simp [List.length_take]; omega
        constructor
        · intro _
          refine ⟨bzProbe { s1 with pos := s.fsize, cur := s.cur.drop room }, ?_, ?_⟩
          · simp only [bzReadLoop_succ cfg _ _ _ s hnm, hs1, hr, hlen]
            simp
          · obtain ⟨p1, p2, p3, p4, p5, p6, p7⟩ := bzProbe_frame { s1 with pos := s.fsize, cur := s.cur.drop room }
            exact ⟨(by rw [p1]), (by rw [p2]; exact f2), (by rw [p3]; exact f3), (by rw [p4]; exact f4), (by rw [p5]; exact f5), (by rw [bzProbe_bad]; exact fb),
              (by rw [p6, p7]; simp; omega), (by rw [p7, p5]; simp [f5]; omega), (by intro h; cases h), (by intro _; omega)⟩
        · intro h; omega
      · have hle : s.cur.length ≤ room := Nat.le_of_not_lt hB
        have hd : (s.cur.drop room).isEmpty = true := by
          rw [List.isEmpty_iff, List.drop_eq_nil_iff]; exact hle
        have htake : s.cur.take room = s.cur := List.take_of_length_le hle
        have hr : bzDecompress cfg room s1 = (s.cur, false, { s1 with pos := s1.fp, cur := [] }) := by
          simp [bzDecompress, f4, htr, f2, he, hA, f1, hd, htake]
        have hp3 : bzProbe { s1 with pos := s1.fp, cur := [] } = { s1 with pos := s1.fp, cur := [], eof := true } := by
          simp [bzProbe, f5, hfpF]
        constructor
        · intro hge
          have heq : room - s.cur.length = 0 := by omega
          refine ⟨{ s1 with pos := s1.fp, cur := [], eof := true }, ?_, ?_⟩
          · simp only [bzReadLoop_succ cfg _ _ _ s hnm, hs1, hr, hp3]
            simp [heq, htake]
          · exact ⟨(by simp [List.drop_eq_nil_iff.mpr hle]), f2, f3, f4, f5, fb, (by simp), (by simp [f5]; omega),
              (by intro h; cases h), (by intro _; omega)⟩
        · intro hlt
          simp only [bzReadLoop_succ cfg _ _ _ s hnm, hs1, hr, hp3]
          simp [f5, hfpF]
          omega

/-! ## Bzip2Decompressor over the BZ2_bzRead contract -/

def bzRem (s : BzDec α) : List α := if s.streamEnd then [] else s.lib.cur ++ refPayload s.lib.rest
def bzBad (s : BzDec α) : Bool := !s.streamEnd && (s.lib.trunc || faulty s.lib.rest)

/-- invariant of the wrapper; `fx.bzUnused = true ∨ rest = []`: the repaired code on any file, or today's
    code on the last stream -/
def BzDecInv (fx : Fixes) (F N : Nat) (s : BzDec α) : Prop :=
  s.lib.fsize = F ∧ s.lib.fp ≤ F ∧ s.offset ≤ F ∧
  (s.streamEnd = false →
    s.lib.pos ≤ s.lib.fp ∧ s.lib.e + fileSize s.lib.rest = F ∧ (s.lib.trunc = true → s.lib.rest = []) ∧
    truncOnlyLast s.lib.rest = true ∧ (∀ r ∈ s.lib.rest, 0 < r.csize) ∧ s.lib.rest.length ≤ N ∧
    (fx.bzUnused = true ∨ s.lib.rest = []) ∧ (s.lib.trunc = false → s.lib.bad = .none))

theorem fileSize_pos_of_ne_nil {f : CFile α} (h : ∀ r ∈ f, 0 < r.csize) (hne : f ≠ []) : 0 < fileSize f := by
  cases f with
  | nil => exact absurd rfl hne
  | cons a t =>
    rw [fileSize_cons]
    have := h a (by simp)
    omega

theorem bzDecInv_reopen (fx : Fixes) (F N : Nat) (s : BzDec α) (r : Stream α) (rs : CFile α) (fp : Nat) (eof : Bool)
    (hI : BzDecInv fx F N s) (hse : s.streamEnd = false) (hrest : s.lib.rest = r :: rs) (h1 : s.lib.e ≤ fp) (h2 : fp ≤ F) :
    BzDecInv fx F N { s with lib := bzOpenAt F fp eof s.lib.e (r :: rs) } := by
  obtain ⟨i1, i2, i3, i4⟩ := hI
  obtain ⟨j1, j2, j3, j4, j5, j6, j7, j8⟩ := i4 hse
  refine ⟨rfl, h2, i3, ?_⟩
  intro _
  rw [hrest] at j2 j4 j5 j6 j7
  refine ⟨h1, ?_, ?_, truncOnlyLast_tail j4, ?_, ?_, ?_, ?_⟩
  · simp only [bzOpenAt]; rw [fileSize_cons] at j2; omega
  · intro ht
    simp only [bzOpenAt, Bool.or_eq_true, bne_iff_ne] at ht
    rcases ht with ht | ht
    · exact truncOnlyLast_head j4 ht
    · exact truncOnlyLast_head_bad j4 ht
  · intro x hx; exact j5 x (by simp only [bzOpenAt] at hx; simp [hx])
  · simp only [bzOpenAt]; simp at j6; omega
  · rcases j7 with h | h
    · exact Or.inl h
    · cases h
  · intro ht
    simp only [bzOpenAt, Bool.or_eq_false_iff] at ht
    simpa [bzOpenAt] using ht.2

/-- What one pass through the body of `Bzip2Decompressor::read` does. -/
theorem bzStep_spec (cfg : Cfg) (hra : 0 < cfg.ra) (hibs : 0 < cfg.ibs) (fx : Fixes) (F N : Nat) (s : BzDec α)
    (hI : BzDecInv fx F N s) (hse : s.streamEnd = false) :
    (∃ lib', bzStep cfg fx s = .ok (s.lib.cur.take cfg.ibs, { s with lib := lib' }) ∧ cfg.ibs ≤ s.lib.cur.length ∧
        BzPost s.lib lib' cfg.ibs false) ∨
    (s.lib.trunc = false ∧ s.lib.rest = [] ∧ ∃ lib', bzStep cfg fx s = .ok (s.lib.cur, { s with lib := lib', streamEnd := true }) ∧
        lib'.fsize = F ∧ lib'.fp ≤ F) ∨
    (s.lib.trunc = false ∧ ∃ r rs fp eof, s.lib.rest = r :: rs ∧
        bzStep cfg fx s = .ok (s.lib.cur, { s with lib := bzOpenAt F fp eof s.lib.e (r :: rs) }) ∧ s.lib.e ≤ fp ∧ fp ≤ F) ∨
    (s.lib.trunc = true ∧ bzStep cfg fx s = .error ⟨.bzip2, .read⟩) := by
  obtain ⟨i1, i2, i3, i4⟩ := hI
  obtain ⟨j1, j2, j3, j4, j5, j6, j7, j8⟩ := i4 hse
  have hbound : s.lib.fsize - s.lib.fp + (if s.lib.pos = s.lib.fp then 1 else 2) ≤ s.lib.fsize - s.lib.fp + 2 := by
    split <;> omega
  cases htr : s.lib.trunc
  · obtain ⟨fin, lib', h1, h2⟩ := bzReadLoop_intact cfg hra (s.lib.fsize - s.lib.fp + 2) cfg.ibs [] s.lib htr (j8 htr) j1 (by omega) (by omega) hibs hbound
    have hread : bzRead cfg cfg.ibs s.lib = .ok (s.lib.cur.take cfg.ibs, fin, lib') := by
      simp only [bzRead, h1]; simp
    cases fin
    · left
      exact ⟨lib', by simp [bzStep, hread], h2.fin_f rfl, h2⟩
    · right
      obtain ⟨hle, hpos'⟩ := h2.fin_t rfl
      have htake : s.lib.cur.take cfg.ibs = s.lib.cur := List.take_of_length_le hle
      have hfs : lib'.fsize = F := by rw [h2.fsize, i1]
      have hfp' : lib'.fp ≤ F := by have := h2.fp_le; omega
      have hpf : s.lib.e ≤ lib'.fp := by have := h2.pos_le; omega
      cases hrest : s.lib.rest with
      | nil =>
        left
        refine ⟨rfl, rfl, ?_⟩
        have heF : s.lib.e = F := by rw [hrest] at j2; simp [fileSize] at j2; exact j2
        have hun : bzUnused lib' = 0 := by simp [bzUnused]; omega
        have hfpF : lib'.fp = lib'.fsize := by omega
        by_cases hfx : fx.bzUnused = true
        · exact ⟨{ lib' with eof := true }, by simp [bzStep, hread, htake, hfx, hun, hfpF], hfs, hfp'⟩
        · have hfx' : fx.bzUnused = false := by cases h : fx.bzUnused <;> simp_all
          refine ⟨lib', ?_, hfs, hfp'⟩
          simp only [bzStep, hread, htake, hfx', hun]
          cases lib'.eof <;> simp
      | cons r rs =>
        right; left
        have hfx : fx.bzUnused = true := by
          rcases j7 with h | h
          · exact h
          · rw [hrest] at h; cases h
        have hpos : 0 < fileSize (r :: rs) := fileSize_pos_of_ne_nil (by rw [← hrest]; exact j5) (by simp)
        have heF : s.lib.e < F := by rw [hrest] at j2; omega
        refine ⟨rfl, r, rs, lib'.fp, lib'.eof, rfl, ?_, hpf, hfp'⟩
        have hre : bzReopen lib' = bzOpenAt F lib'.fp lib'.eof s.lib.e (r :: rs) := by
          simp [bzReopen, hfs, hpos', h2.rest, hrest]
        by_cases hun : bzUnused lib' = 0
        · have : ¬ (lib'.fp = lib'.fsize) := by simp [bzUnused] at hun; omega
          simp [bzStep, hread, htake, hfx, hun, this, hre]
        · simp [bzStep, hread, htake, hfx, hun, hre]
  · have hrest : s.lib.rest = [] := j3 htr
    have heF : s.lib.e = s.lib.fsize := by rw [hrest] at j2; simp [fileSize] at j2; omega
    by_cases hmag : s.lib.bad = .magic
    · -- no header: BZ_DATA_ERROR_MAGIC, thrown like every other code
      right; right; right
      have hread : bzRead cfg cfg.ibs s.lib = .error .dataErrorMagic := by
        simp only [bzRead]; exact bzReadLoop_magic cfg _ _ _ s.lib hmag
      exact ⟨rfl, by simp [bzStep, hread]⟩
    obtain ⟨h1, h2⟩ := bzReadLoop_trunc cfg hra (s.lib.fsize - s.lib.fp + 2) cfg.ibs [] s.lib htr hmag heF j1 (by omega) hibs hbound
    by_cases hge : cfg.ibs ≤ s.lib.cur.length
    · left
      obtain ⟨lib', e1, e2⟩ := h1 hge
      have hread : bzRead cfg cfg.ibs s.lib = .ok (s.lib.cur.take cfg.ibs, false, lib') := by
        simp only [bzRead, e1]; simp
      exact ⟨lib', by simp [bzStep, hread], hge, e2⟩
    · right; right; right
      have hread : bzRead cfg cfg.ibs s.lib = .error (BzErr.ofBad s.lib.bad) := by
        simp only [bzRead]; exact h2 (by omega)
      refine ⟨rfl, ?_⟩
      cases hb : s.lib.bad <;> simp [bzStep, hread, hb, BzErr.ofBad]

theorem BzDecInv.setOffset {fx : Fixes} {F N : Nat} {s : BzDec α} (h : BzDecInv fx F N s) :
    BzDecInv fx F N { s with offset := s.lib.fp } := by
  obtain ⟨i1, i2, _, i4⟩ := h
  exact ⟨i1, i2, i2, i4⟩

theorem isEmpty_false_of_ne {l : List α} (h : l ≠ []) : l.isEmpty = false := by
  cases l with
  | nil => exact absurd rfl h
  | cons _ _ => rfl

/-- One `Bzip2Decompressor::read()` (repaired code on any file / today's code on the last stream). -/
theorem bzFdRead_spec (cfg : Cfg) (hra : 0 < cfg.ra) (hibs : 0 < cfg.ibs) (fx : Fixes) (F N : Nat) :
    ∀ fuel (s : BzDec α), BzDecInv fx F N s → s.streamEnd = false → s.lib.rest.length < fuel →
      Outcome (bzFdDec cfg fx N) (BzDecInv fx F N) bzRem bzBad F s (bzFdRead cfg fx fuel s) := by
  intro fuel
  induction fuel with
  | zero => intro s _ _ h; omega
  | succ fuel ih =>
    intro s hI hse hfuel
    have hI0 := hI
    obtain ⟨i1, i2, i3, i4⟩ := hI
    obtain ⟨j1, j2, j3, j4, j5, j6, j7, j8⟩ := i4 hse
    rcases bzStep_spec cfg hra hibs fx F N s hI0 hse with
      ⟨lib', hstep, hge, hpost⟩ | ⟨htr, hrest, lib', hstep, hfs, hfp⟩ | ⟨htr, r, rs, fp, eof, hrest, hstep, h1, h2⟩ | ⟨htr, hstep⟩
    · -- a full buffer from the current stream
      have hne : s.lib.cur.take cfg.ibs ≠ [] := by
        apply take_ne_nil hibs
        intro h; rw [h] at hge; simp at hge; omega
      left
      refine ⟨s.lib.cur.take cfg.ibs, { s with lib := lib', offset := lib'.fp }, ?_, hne, ?_, ?_, ?_, ?_⟩
      · simp [bzFdRead, hse, hstep, isEmpty_false_of_ne hne]
      · simp [bzRem, hse, hpost.cur, hpost.rest, ← List.append_assoc]
      · simp [bzBad, hse, hpost.trunc, hpost.rest]
      · have hf : lib'.fsize = F := by rw [hpost.fsize, i1]
        have hfp : lib'.fp ≤ F := by have := hpost.fp_le; omega
        refine ⟨hf, hfp, hfp, ?_⟩
        intro _
        refine ⟨hpost.pos_le, ?_, ?_, ?_, ?_, ?_, ?_, ?_⟩
        · simp only [hpost.e, hpost.rest]; exact j2
        · simp only [hpost.trunc, hpost.rest]; exact j3
        · simp only [hpost.rest]; exact j4
        · simp only [hpost.rest]; exact j5
        · simp only [hpost.rest]; exact j6
        · simp only [hpost.rest]; exact j7
        · simp only [hpost.trunc, hpost.bad]; exact j8
      · have := hpost.fp_le; have := hpost.fsize
        simp only [bzFdDec]; omega
    · -- the last stream ends
      by_cases hout : s.lib.cur = []
      · right; left
        refine ⟨{ s with lib := lib', streamEnd := true, offset := lib'.fp }, ?_, hfp, ?_⟩
        · simp only [bzFdRead, hse, hstep, hout]
          cases fx.bzUnused
          · simp
          · cases fuel <;> simp [bzFdRead]
        · left
          refine ⟨by simp [bzBad, hse, htr, hrest, faulty], by simp [bzRem, hse, hout, hrest, refPayload], rfl⟩
      · left
        refine ⟨s.lib.cur, { s with lib := lib', streamEnd := true, offset := lib'.fp }, ?_, hout, ?_, ?_, ?_, hfp⟩
        · simp [bzFdRead, hse, hstep, isEmpty_false_of_ne hout]
        · simp [bzRem, hse, hrest, refPayload]
        · simp [bzBad, hse, htr, hrest, faulty]
        · exact ⟨hfs, hfp, hfp, by intro h; cases h⟩
    · -- a stream ends and another one follows: reopen
      have hfx : fx.bzUnused = true := by
        rcases j7 with h | h
        · exact h
        · rw [hrest] at h; cases h
      have hI' := bzDecInv_reopen fx F N s r rs fp eof hI0 hse hrest h1 h2
      by_cases hout : s.lib.cur = []
      · have hgo : bzFdRead cfg fx (fuel + 1) s = bzFdRead cfg fx fuel { s with lib := bzOpenAt F fp eof s.lib.e (r :: rs) } := by
          simp [bzFdRead, hse, hstep, hout, hfx]
        rw [hgo]
        apply Outcome.transfer (t := { s with lib := bzOpenAt F fp eof s.lib.e (r :: rs) })
        · simp [bzRem, hse, hout, hrest, bzOpenAt, refPayload_cons]
        · simp [bzBad, hse, htr, hrest, bzOpenAt, faulty]
        · apply ih _ hI' hse
          rw [hrest] at hfuel
          simp [bzOpenAt] at hfuel ⊢; omega
      · left
        refine ⟨s.lib.cur, { s with lib := bzOpenAt F fp eof s.lib.e (r :: rs), offset := fp }, ?_, hout, ?_, ?_, ?_, h2⟩
        · simp [bzFdRead, hse, hstep, isEmpty_false_of_ne hout, bzOpenAt]
        · simp [bzRem, hse, hrest, bzOpenAt, refPayload_cons]
        · simp [bzBad, hse, htr, hrest, bzOpenAt, faulty]
        · have := BzDecInv.setOffset hI'
          simpa [bzOpenAt] using this
    · -- BZ_UNEXPECTED_EOF
      right; right
      exact ⟨⟨.bzip2, .read⟩, by simp [bzFdRead, hse, hstep], by simp [bzBad, hse, htr], by simp⟩

theorem bzFdDec_step (cfg : Cfg) (hra : 0 < cfg.ra) (hibs : 0 < cfg.ibs) (fx : Fixes) (F N : Nat) :
    StepSpec (bzFdDec (α := α) cfg fx N) (BzDecInv fx F N) bzRem bzBad F := by
  intro s hI
  have hread : (bzFdDec cfg fx N).read s = bzFdRead cfg fx (N + 1) s := rfl
  rw [hread]
  cases hse : s.streamEnd
  · apply bzFdRead_spec cfg hra hibs fx F N (N + 1) s hI hse
    have := (hI.2.2.2 hse).2.2.2.2.2.1
    omega
  · right; left
    refine ⟨{ s with offset := s.lib.fp }, by simp [bzFdRead, hse], hI.2.1, ?_⟩
    left
    exact ⟨by simp [bzBad, hse], by simp [bzRem, hse], rfl⟩

/-! ## The offset of Bzip2Decompressor is the FILE position: never past the end, for any `Fixes`, any file -/

theorem bzDecompress_fp (cfg : Cfg) (room : Nat) (s : BzState α) :
    (bzDecompress cfg room s).2.2.fp = s.fp ∧ (bzDecompress cfg room s).2.2.fsize = s.fsize := by
  unfold bzDecompress
  generalize (if s.trunc = true then s.e else s.e - cfg.trailer) = b
  by_cases h1 : s.fp < b
  · simp [h1]
  · by_cases h2 : (List.drop room s.cur).isEmpty = true
    · by_cases h3 : (s.trunc || decide (s.fp < s.e)) = true
      · simp only [h1, h2, h3]; simp
      · simp only [h1, h2, h3]; simp
    · simp only [h1, h2]; simp

theorem bzRefill_le (cfg : Cfg) (s : BzState α) (h : s.fp ≤ s.fsize) :
    (bzRefill cfg s).fp ≤ (bzRefill cfg s).fsize := by
  unfold bzRefill
  split
  · split
    · simpa using h
    · simp; omega
  · exact h

theorem bzReadLoop_fp (cfg : Cfg) : ∀ fuel room acc (s : BzState α), s.fp ≤ s.fsize →
    ∀ out fin s', bzReadLoop cfg fuel room acc s = .ok (out, fin, s') → s'.fp ≤ s'.fsize ∧ s'.fsize = s.fsize := by
  intro fuel
  induction fuel with
  | zero => intro room acc s _ out fin s' h; simp [bzReadLoop] at h
  | succ fuel ih =>
    intro room acc s hle out fin s' h
    have h1 := bzRefill_le cfg s hle
    have h2 := (bzRefill_frame cfg s).2.2.2.2.1
    obtain ⟨d1, d2⟩ := bzDecompress_fp cfg room (bzRefill cfg s)
    obtain ⟨_, _, _, _, p5, _, p7⟩ := bzProbe_frame (bzDecompress cfg room (bzRefill cfg s)).2.2
    simp only [bzReadLoop] at h
    split at h
    · simp at h
    split at h
    · simp at h
      obtain ⟨_, _, rfl⟩ := h
      exact ⟨by rw [d1, d2]; exact h1, by rw [d2, h2]⟩
    · split at h
      · simp at h
      · split at h
        · simp at h
          obtain ⟨_, _, rfl⟩ := h
          exact ⟨by rw [p7, p5, d1, d2]; exact h1, by rw [p5, d2, h2]⟩
        · have := ih _ _ _ (by rw [p7, p5, d1, d2]; exact h1) out fin s' h
          exact ⟨this.1, by rw [this.2, p5, d2, h2]⟩

theorem bzReopen_fp (s : BzState α) : (bzReopen s).fp = s.fp ∧ (bzReopen s).fsize = s.fsize := by
  unfold bzReopen bzOpenAt
  cases s.rest <;> simp

theorem bzStep_fp (cfg : Cfg) (fx : Fixes) (F : Nat) (s : BzDec α) (h : s.lib.fp ≤ s.lib.fsize ∧ s.lib.fsize = F)
    (out : List α) (s' : BzDec α) (hs : bzStep cfg fx s = .ok (out, s')) : s'.lib.fp ≤ s'.lib.fsize ∧ s'.lib.fsize = F := by
  unfold bzStep at hs
  split at hs
  · simp at hs
  · simp at hs
  · simp at hs
  · rename_i o fin lib' hread
    have := bzReadLoop_fp cfg _ _ _ s.lib h.1 o fin lib' (by simpa [bzRead] using hread)
    have hF : lib'.fsize = F := by rw [this.2, h.2]
    obtain ⟨r1, r2⟩ := bzReopen_fp lib'
    repeat' split at hs
    all_goals
      simp at hs
      obtain ⟨_, rfl⟩ := hs
      first
        | exact ⟨by simp [r1, r2]; exact this.1, by simp [r2, hF]⟩
        | exact ⟨by simpa using this.1, by simpa using hF⟩

theorem bzFdRead_fp (cfg : Cfg) (fx : Fixes) (F : Nat) : ∀ fuel (s : BzDec α), (s.lib.fp ≤ s.lib.fsize ∧ s.lib.fsize = F) →
    ∀ out s', bzFdRead cfg fx fuel s = .ok (out, s') → (s'.lib.fp ≤ s'.lib.fsize ∧ s'.lib.fsize = F) ∧ s'.offset ≤ F := by
  intro fuel
  induction fuel with
  | zero =>
    intro s h out s' hs
    simp [bzFdRead] at hs
    obtain ⟨_, rfl⟩ := hs
    exact ⟨h, by simp; omega⟩
  | succ fuel ih =>
    intro s h out s' hs
    simp only [bzFdRead] at hs
    split at hs
    · simp at hs
      obtain ⟨_, rfl⟩ := hs
      exact ⟨h, by simp; omega⟩
    · split at hs
      · simp at hs
      · rename_i o s1 hstep
        have h1 := bzStep_fp cfg fx F s h o s1 hstep
        split at hs
        · exact ih s1 h1 out s' hs
        · simp at hs
          obtain ⟨_, rfl⟩ := hs
          exact ⟨h1, by simp; omega⟩

theorem run_offs_inv (d : Dec σ α) (J : σ → Prop) (sz : Nat)
    (hstep : ∀ s out s', J s → d.read s = .ok (out, s') → J s' ∧ d.offset s' ≤ sz) :
    ∀ fuel s, J s → ∀ o ∈ (run d fuel s).offs, o ≤ sz := by
  intro fuel
  induction fuel with
  | zero => intro s _ o ho; simp [run] at ho
  | succ fuel ih =>
    intro s hJ o ho
    simp only [run] at ho
    split at ho
    · simp at ho
    · rename_i data s' hr
      have := hstep s data s' hJ hr
      split at ho
      · simp at ho; rw [ho]; exact this.2
      · simp at ho
        rcases ho with rfl | ho
        · exact this.2
        · exact ih s' this.1 o ho

/-- today's (and the repaired) Bzip2Decompressor on ANY file: every reported offset ≤ file size -/
theorem bzFd_offsets (cfg : Cfg) (fx : Fixes) (f : CFile α) :
    ∀ o ∈ (readFile cfg fx .bzip2 .fd f).offs, o ≤ fileSize f := by
  apply run_offs_inv (bzFdDec cfg fx f.length) (fun s => s.lib.fp ≤ s.lib.fsize ∧ s.lib.fsize = fileSize f) (fileSize f)
  · intro s out s' hJ hr
    exact bzFdRead_fp cfg fx (fileSize f) _ s hJ out s' hr
  · cases f <;> simp [bzOpen, bzOpenAt]

end Osmium.Decomp
