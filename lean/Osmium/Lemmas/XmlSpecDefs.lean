/-
The EVENT stream an XML 1.0 parser reports for a document of the specification renderer
`XmlSpec.render` (C02, `xml_decode_spec`).  Definitions only; mirrors `XmlSpec.element`, `objectEl`,
`render` construct by construct:

* attributes arrive DECODED (the references `XmlSpec.esc` writes are undone by the parser) in the order the
  renderer chose (`OplSpec.pick ch.attrOrder`);
* `<a/>` and `<a></a>` are the same two events;
* white space between elements arrives as character data: `wsE level` is the list of `chars` events for
  the indentation of `level` (empty list if the renderer writes none).

The two halves of `xml_decode_spec`:
  Lemmas/XmlSpecRead*.lean   reader:  `read {} (renderEvs ch wsE h objs) = .ok (…)` for EVERY `wsE` made of `chars` events
  Lemmas/XmlSpecTok*.lean    lexical: `tokenize (XmlSpec.render ch h objs) = some (renderEvs ch (wsOf ch) h objs)`
-/
import Osmium.Model.XmlFmt

namespace Osmium.XmlFmt.XmlSpec
open Osmium.Osm Osmium.TextFmt Osmium.Conv Osmium.XmlFmt

/-- events of `element ch level name as children` -/
def elEvs (ch : Choices) (wsE : Nat → List Ev) (level : Nat) (name : String) (as : List (String × Bytes))
    (children : List (List Ev)) : List Ev :=
  wsE level ++ Ev.start name (OplFmt.OplSpec.pick ch.attrOrder as) ::
    ((if children.isEmpty then [] else children.flatten ++ wsE level) ++ [Ev.stop name])

def tagEvs (ch : Choices) (wsE : Nat → List Ev) (level : Nat) (ts : List Tag) : List (List Ev) :=
  ts.map fun t => elEvs ch wsE level "tag" [("k", t.key), ("v", t.value)] []

/-- the `<text>…</text>` child of a comment -/
def textEvs (wsE : Nat → List Ev) (level : Nat) (t : Bytes) : List Ev :=
  wsE level ++ Ev.start "text" [] :: ((if t.isEmpty then [] else [Ev.chars t]) ++ [Ev.stop "text"])

/-- events of `objectEl ch level obj` -/
def objectEvs (ch : Choices) (wsE : Nat → List Ev) (level : Nat) : Object → List Ev
  | .node m l =>
    elEvs ch wsE level "node" (metaAttrs ch m ++ (if bothDefined l then latLon "lat" "lon" l else [])) (tagEvs ch wsE (level + 1) m.tags)
  | .way m ns =>
    let nds := ns.map fun n => elEvs ch wsE (level + 1) "nd"
      (("ref", num n.ref) :: (if bothDefined n.location then latLon "lat" "lon" n.location else [])) []
    let tags := tagEvs ch wsE (level + 1) m.tags
    elEvs ch wsE level "way" (metaAttrs ch m) (if ch.tagsFirst then tags ++ nds else nds ++ tags)
  | .relation m ms =>
    let mem := ms.map fun x => elEvs ch wsE (level + 1) "member"
      [("type", typeName x.type), ("ref", num x.ref), ("role", x.role)] []
    let tags := tagEvs ch wsE (level + 1) m.tags
    elEvs ch wsE level "relation" (metaAttrs ch m) (if ch.tagsFirst then tags ++ mem else mem ++ tags)
  | .changeset id ca cl nc ncm uid user bl tr tags cs =>
    let as := [("id", num id)] ++ (if ca == 0 then [] else [("created_at", toIso ca)]) ++
      (if cl == 0 then [("open", bTrue)] else [("closed_at", toIso cl), ("open", bFalse)]) ++
      (if uid == 0 then [] else [("user", user), ("uid", num uid)]) ++
      (if isUndefined bl && isUndefined tr then [] else latLon "min_lat" "min_lon" bl ++ latLon "max_lat" "max_lon" tr) ++
      [("num_changes", num nc), ("comments_count", num ncm)]
    let disc := if cs.isEmpty then [] else
      [elEvs ch wsE (level + 1) "discussion" [] (cs.map fun c =>
        elEvs ch wsE (level + 2) "comment" [("uid", num c.uid), ("user", c.user), ("date", toIsoAll c.date)]
          [textEvs wsE (level + 3) c.text])]
    elEvs ch wsE level "changeset" as (tagEvs ch wsE (level + 1) tags ++ disc)

/-- events of the document `render ch h objs`: the white space in front of the root element and
    behind its end tag is not character data -/
def renderEvs (ch : Choices) (wsE : Nat → List Ev) (h : Header) (objs : List Object) : List Ev :=
  let bounds := h.boxes.map fun (bl, tr) =>
    elEvs ch wsE 1 "bounds" (latLon "minlat" "minlon" bl ++ latLon "maxlat" "maxlon" tr) []
  let body :=
    if ch.osc then (sections objs).map fun (op, grp) => elEvs ch wsE 1 (opName op) [] (grp.map (objectEvs ch wsE 2))
    else objs.map (objectEvs ch wsE 1)
  let root := if ch.osc then "osmChange" else "osm"
  Ev.start root (OplFmt.OplSpec.pick ch.attrOrder [("version", bVersion), ("generator", h.generator)]) ::
    ((if (bounds ++ body).isEmpty then [] else (bounds ++ body).flatten ++ wsE 0) ++ [Ev.stop root])

/-- the indentation of `level` as the parser reports it (line ends normalised to LF) -/
def wsOf (ch : Choices) (level : Nat) : List Ev :=
  if ch.wsMode = 0 then [Ev.chars (0x0a :: List.replicate (2 * level) 0x20)]
  else if ch.wsMode = 1 then []
  else [Ev.chars (0x0a :: List.replicate level 0x09)]

/-- every event of `wsE` is character data -/
def WsOnly (wsE : Nat → List Ev) : Prop := ∀ n, ∀ e ∈ wsE n, ∃ t, e = Ev.chars t

/-- what the reader returns for a spec-rendered document: everything is written, so nothing is
    dropped except what the format cannot carry (`XmlFmt.project`: locations that are not completely
    defined; user of an anonymous changeset; the visible flag unless the file is a change file or
    carries `visible` attributes) -/
def specOpts (ch : Choices) : Opts :=
  { locationsOnWays := true, forceVisible := ch.visibleAttr, changeOps := ch.osc }

end Osmium.XmlFmt.XmlSpec
