/-
Input side of the shape invariants, part G: after the parser has seen the end of its input (`invD`):
the calls of push() on the input queue were chunk 0 … chunk (k-1) and the clean end marker, the parser
has unpacked all k chunks, the read thread is past its last push, and `stop` or all chunks; and
(`invFR`) every future handed to push() except the one in the read thread's hands is set.
-/
import Osmium.Lemmas.PipelineShapeInF

set_option linter.unusedSimpArgs false
set_option linter.unusedVariables false

namespace Osmium.Pipeline.ShapeIn

open Osmium.Mon Osmium.Pipeline

variable {α : Type} [DecidableEq α]

section rfin
omit [DecidableEq α]
@[simp] theorem rFin_pushing (id : Nat) (v : Val α) (kk : RK) : rFin (.pushing id v kk) ↔ v = .eod ∧ kk = .exit := by
  cases v <;> cases kk <;> simp [rFin]
@[simp] theorem rFin_pushed (id : Nat) (v : Val α) (kk : RK) : rFin (.pushed id v kk) ↔ v = .eod ∧ kk = .exit := by
  cases v <;> cases kk <;> simp [rFin]
@[simp] theorem rFin_rCont (kk : RK) : rFin (rCont kk : RPc α) ↔ kk = .exit := by
  cases kk <;> simp [rFin, rCont]
@[simp] theorem rFin_push (v : Val α) (kk : RK) : rFin (.push v kk) ↔ False := by simp [rFin]
@[simp] theorem rFin_loop : rFin (.loop : RPc α) ↔ False := by simp [rFin]
@[simp] theorem rFin_reading : rFin (.reading : RPc α) ↔ False := by simp [rFin]
@[simp] theorem rFin_closing : rFin (.closing : RPc α) ↔ False := by simp [rFin]
@[simp] theorem rFin_done : rFin (.done : RPc α) ↔ True := by simp [rFin]

theorem rFin_held {r : RPc α} (h : rFin r) (v : Val α) (hv : rHeld r = some v) : v = .eod := by
  cases r <;> simp_all [rHeld]
end rfin

/-- the id of the future in the read thread's hands -/
def rIn : RPc α → Option Nat
  | .pushing id _ _ | .pushed id _ _ => some id
  | _ => none

omit [DecidableEq α] in
@[simp] theorem rIn_rCont (kk : RK) : rIn (rCont kk : RPc α) = none := by cases kk <;> rfl

def InvD (c : Cfg α) (s : State α) : Prop :=
  s.inputDone = true → ∃ k, inW s = chunks k ++ [.eod] ∧ s.avail = availOf c k ∧
    (s.stop = true ∨ k = c.chunkEnd.length) ∧ rFin s.rpc

omit [DecidableEq α] in
theorem pget_eod (c : Cfg α) (s : State α) (hR : InvR c s) (hPre : InvPre s) (hN : InvN s) (hP : InvP c s)
    (hK : InvK s) (id : Nat) (hp : s.ppc = .got id) (hf : s.fut id = some .eod) :
    ∃ k, inW s = chunks k ++ [.eod] ∧ s.avail = availOf c k ∧ (s.stop = true ∨ k = c.chunkEnd.length) ∧ rFin s.rpc := by
  have hw := (pget_id s hPre hN id hp).2 _ hf
  obtain ⟨j, ha, hPW⟩ := hP.p_run (by rw [hp]; rfl) (hK.k_m (.inr ⟨id, hp⟩)).2
  rw [hp] at hPW
  simp only [gotW, ← hw] at hPW
  obtain ⟨k, tail, hW, hk, hS⟩ := hR
  have hpre : PW s <+: inW s := wmap_prefix _ _ _ hPre.pre
  rw [hPW, hW] at hpre
  rcases chunks_prefix j k _ tail (RS_noChunk hS) hpre with ⟨h1, h2⟩ | ⟨h1, h2⟩
  · simp at h2
  · obtain ⟨e1, e2, e3⟩ := RS_head_eod hS h2
    subst h1; subst e1
    exact ⟨j, hW, ha, e2, e3⟩

set_option maxHeartbeats 3200000 in
theorem invD (c : Cfg α) : ∀ s, (machine c).Reachable s → InvD c s := by
  apply Machine.invariant
  · intro h; simp [machine, init] at h
  · intro s e s' hr ih hst
    have hN := invN c s hr
    have hPre := invPre c s hr
    have hR := invR c s hr
    have hP := invP c s hr
    have hK := invK c s hr
    have hfo : ∀ n v, wmap (setPc s.want (2 * n + 1) v) s.inq.called = wmap s.want s.inq.called := fun n v =>
      wmap_setPc _ _ _ _ (fresh_odd s hN.n_ic n)
    obtain ⟨k1, k2, k3, k4, k5⟩ := id hK
    unfold InvD at *
    si_cases e with hst
    all_goals first
      | exact ih
      | (intro hd; (try simp only [afterPop_inputDone, afterClose_inputDone] at hd)
         change s.inputDone = true at hd
         obtain ⟨k, hW, ha, hs, hf⟩ := ih hd; exact ⟨k, by simpa [inW] using hW, ha, hs, hf⟩)
      | (intro _; exact pget_eod c s hR hPre hN hP hK _ ‹s.ppc = _› ‹s.fut _ = _›)
      | (intro hd; change s.inputDone = true at hd; obtain ⟨k, hW, ha, hs, hf⟩ := ih hd; subst_vars
         refine ⟨k, ?_, ?_, ?_, ?_⟩ <;> simp_all [inW, hfo] <;> grind)
      | (intro hd; simp only [afterPop_inputDone, afterClose_inputDone] at hd
         change s.inputDone = true at hd
         obtain ⟨k, hW, ha, hs, hf⟩ := ih hd
         exact ⟨k, by simpa [inW] using hW, by simpa using ha, by simpa using hs, by simpa using hf⟩)
      | (exfalso
         have hpw : s.ppc = PPc.popWait := by grind
         have hu := (k4 (.inl hpw)).1
         have hpred : QueueSM.pred s.inq = true := by grind
         have hnone : s.inq.items.head? = none := by grind
         simp only [QueueSM.pred, hu] at hpred
         cases hi : s.inq.items <;> simp_all)
      | (exfalso
         have hpw : s.ppc = PPc.run := by grind
         have h3 := k3 (by rw [hpw]; rfl)
         grind)
      | skip

structure InvFR (s : State α) : Prop where
  fr : ∀ x ∈ s.inq.called, rIn s.rpc ≠ some x.2 → s.fut x.2 ≠ none

set_option maxHeartbeats 3200000 in
theorem invFR (c : Cfg α) : ∀ s, (machine c).Reachable s → InvFR s := by
  apply Machine.invariant
  · constructor; simp [machine, init, QueueSM.init]
  · intro s e s' hr ih hst
    have hN := (invN c s hr).n_ic
    have hfe := fresh_even s hN
    obtain ⟨h1⟩ := ih
    si_cases e with hst
    all_goals (refine ⟨?_⟩; first
      | assumption
      | (simp only [QueueSM.take_called]; assumption)
      | (simp_all [rIn, setPc_apply] <;> grind)
      | skip)

end Osmium.Pipeline.ShapeIn
