/-
Direct-fd configuration, part 6: ranking function and termination statements for the direct-fd machine
(the run theorems of PipelineTerm.lean again, for runs that start in a reachable state of `machineD c`;
`Term.MaxRun` does not mention the initial state, so it is the same notion of run), and what the
destructor has joined.
-/
import Osmium.Lemmas.PipelineDirect5
import Osmium.Lemmas.PipelineTerm

set_option linter.unusedSimpArgs false
set_option linter.unusedVariables false
set_option linter.unnecessarySeqFocus false
set_option linter.unusedTactic false
set_option linter.unreachableTactic false

namespace Osmium.Pipeline

open Osmium.Mon

variable {α : Type} [DecidableEq α]

namespace Direct

open Rank in
/-- `rank_decreases` with the one invariant it uses as a hypothesis -/
theorem rank_decreases' (c : Cfg α) (s s' : State α) (e : Ev α) (hinv : ∀ w, s.wpc w ≠ none → w ∈ c.workers)
    (hst : step? c s e = some s') (hc : e.isCall = false) (hs : isStutter c s e = false) :
    rank c s' < rank c s := by
  cases e with
  | qi e => exact dec_qi c s s' e hst hs
  | qo e => exact dec_qo c s s' e hst hs
  | rTestDone saw => exact dec_rTestDone c s s' saw hst
  | rRead v => exact dec_rRead c s s' v hst
  | rCloseDec ok => exact dec_rCloseDec c s s' ok hst
  | rSet => exact dec_rSet c s s' hst
  | pInUse saw => exact dec_pInUse c s s' saw hst
  | pGet v => exact dec_pGet c s s' v hst
  | pHeader => exact dec_pHeader c s s' hst
  | pObj g => exact dec_pObj c s s' g hst
  | pThrow => exact dec_pThrow c s s' hst
  | pFlushNested => exact dec_pFlushNested c s s' hst
  | pNewBuf => exact dec_pNewBuf c s s' hst
  | pFlushFinal => exact dec_pFlushFinal c s s' hst
  | pRunEnd => exact dec_pRunEnd c s s' hst
  | pBlob sp => exact dec_pBlob c s s' sp hst
  | pCatch => exact dec_pCatch c s s' hst
  | pSet => exact dec_pSet c s s' hst
  | wStart w => exact dec_wStart c s s' w hst
  | wDone w => exact dec_wDone c s s' w hinv hst
  | cHeader => cases hc
  | cHeaderGet => exact dec_cHeaderGet c s s' hst
  | cRead => cases hc
  | cInUse saw => exact dec_cInUse c s s' saw hst
  | cGet v => exact dec_cGet c s s' v hst
  | cClose => cases hc
  | cDtor => cases hc
  | cJoinR => exact dec_cJoinR c s s' hst
  | cJoinP => exact dec_cJoinP c s s' hst
  | cRet r => exact dec_cRet c s s' r hst

open Rank in
theorem rank_stutter' (c : Cfg α) (s s' : State α) (e : Ev α) (hst : step? c s e = some s')
    (hs : isStutter c s e = true) : rank c s' = rank c s := by
  cases e with
  | qi e => exact stut_qi c s s' e hst hs
  | qo e => exact stut_qo c s s' e hst hs
  | _ => simp [isStutter] at hs

/-- only pool workers run jobs (through the simulation) -/
theorem wpc_workers (c : Cfg α) (hd : IsDirect c) (sd : State α) (h : (machineD c).Reachable sd) :
    ∀ w, sd.wpc w ≠ none → w ∈ c.workers := by
  obtain ⟨_, s, hreach, hs⟩ := sim c hd sd h
  intro w hw
  exact Rank.wpc_workers (fed c) s hreach w (by rw [hs.wpc]; exact hw)

/-- `bounded_progress` for the direct-fd machine -/
theorem bounded_progress (c : Cfg α) (hd : IsDirect c) (sd sd' : State α) (e : Ev α)
    (h : (machineD c).Reachable sd) (hst : (machineD c).Step sd e sd') :
    (e.isCall = false → isStutter c sd e = false → rank c sd' < rank c sd) ∧
    (isStutter c sd e = true → rank c sd' = rank c sd) :=
  ⟨fun hc hs => rank_decreases' c sd sd' e (wpc_workers c hd sd h) hst hc hs,
   fun hs => rank_stutter' c sd sd' e hst hs⟩

section runs
open Term
variable {c : Cfg α} {σ : Nat → State α} {ε : Nat → Option (Ev α)}

theorem run_reachable (hrun : MaxRun c σ ε) (h0 : (machineD c).Reachable (σ 0)) :
    ∀ i, (machineD c).Reachable (σ i) := by
  intro i
  induction i with
  | zero => exact h0
  | succ i ih =>
    cases he : ε i with
    | none => rw [(hrun.halt i he).1]; exact ih
    | some e => exact .step ih (hrun.step i e he).2

theorem run_rank_step (hd : IsDirect c) (hrun : MaxRun c σ ε) (h0 : (machineD c).Reachable (σ 0)) (i : Nat) :
    rank c (σ (i + 1)) + (if progressAt c σ ε i then 1 else 0) ≤ rank c (σ i) := by
  have hr := run_reachable hrun h0 i
  cases he : ε i with
  | none => simp [progressAt, he, (hrun.halt i he).1]
  | some e =>
    obtain ⟨hc, hst⟩ := hrun.step i e he
    cases hs : isStutter c (σ i) e with
    | true => simp [progressAt, he, hs, rank_stutter' c _ _ e hst hs]
    | false =>
      have := rank_decreases' c _ _ e (wpc_workers c hd _ hr) hst hc hs
      simp [progressAt, he, hs]; omega

theorem run_rank_mono (hd : IsDirect c) (hrun : MaxRun c σ ε) (h0 : (machineD c).Reachable (σ 0)) (i j : Nat)
    (hij : i ≤ j) : rank c (σ j) ≤ rank c (σ i) := by
  induction j with
  | zero => have : i = 0 := by omega
            subst this; exact Nat.le_refl _
  | succ j ih =>
    by_cases h : i = j + 1
    · subst h; exact Nat.le_refl _
    · have := ih (by omega)
      have := run_rank_step hd hrun h0 j
      omega

theorem run_work_le (hd : IsDirect c) (hrun : MaxRun c σ ε) (h0 : (machineD c).Reachable (σ 0)) (n : Nat) :
    work c σ ε n + rank c (σ n) ≤ rank c (σ 0) := by
  induction n with
  | zero => simp [work]
  | succ n ih =>
    have := run_rank_step hd hrun h0 n
    simp only [work, List.range_succ, List.filter_append, List.length_append] at ih ⊢
    cases hp : progressAt c σ ε n <;> simp [hp] at this ⊢ <;> omega

theorem run_eventually (hd : IsDirect c) (hrun : MaxRun c σ ε) (h0 : (machineD c).Reachable (σ 0)) :
    ∀ r k, rank c (σ k) ≤ r → ∃ N, k ≤ N ∧ ∀ i, N ≤ i → progressAt c σ ε i = false := by
  intro r
  induction r with
  | zero =>
    intro k hk
    refine ⟨k, Nat.le_refl _, fun i hi => ?_⟩
    have h1 := run_rank_mono hd hrun h0 k i hi
    have h2 := run_rank_step hd hrun h0 i
    cases hp : progressAt c σ ε i
    · rfl
    · simp [hp] at h2; omega
  | succ r ih =>
    intro k hk
    by_cases hex : ∃ i, k ≤ i ∧ progressAt c σ ε i = true
    · obtain ⟨i, hi, hp⟩ := hex
      have h1 := run_rank_mono hd hrun h0 k i hi
      have h2 := run_rank_step hd hrun h0 i
      simp [hp] at h2
      obtain ⟨N, hN, hall⟩ := ih (i + 1) (by omega)
      exact ⟨N, by omega, hall⟩
    · refine ⟨k, Nat.le_refl _, fun i hi => ?_⟩
      cases hp : progressAt c σ ε i
      · rfl
      · exact absurd ⟨i, hi, hp⟩ hex

/-- `call_returns_or_spins` for the direct-fd machine -/
theorem call_returns_or_spins (c : Cfg α) (hd : IsDirect c) (wf : (fed c).WF) (σ : Nat → State α)
    (ε : Nat → Option (Ev α)) (hrun : MaxRun c σ ε) (h0 : (machineD c).Reachable (σ 0)) :
    (∃ n, ¬ InCall (σ n) ∧ (∀ i, i < n → InCall (σ i)) ∧ work c σ ε n + rank c (σ n) ≤ rank c (σ 0)) ∨
    (∃ N, ∀ i, N ≤ i → ∃ e, ε i = some e ∧ isStutter c (σ i) e = true) := by
  by_cases hret : ∃ n, ¬ InCall (σ n)
  · left
    obtain ⟨n, hn, hmin⟩ := exists_first _ hret
    exact ⟨n, hn, fun i hi => Classical.not_not.mp (hmin i hi), run_work_le hd hrun h0 n⟩
  · right
    obtain ⟨N, _, hN⟩ := run_eventually hd hrun h0 (rank c (σ 0)) 0 (Nat.le_refl _)
    refine ⟨N, fun i hi => ?_⟩
    have hp := hN i hi
    cases he : ε i with
    | none =>
      exfalso
      apply hret
      refine ⟨i, fun hin => ?_⟩
      obtain ⟨e, s', hc, hst⟩ := no_stuck_state c hd wf (σ i) (run_reachable hrun h0 i) hin.1 hin.2
      exact (hrun.halt i he).2 e s' hc hst
    | some e =>
      refine ⟨e, rfl, ?_⟩
      simpa [progressAt, he] using hp

/-- `call_returns` for the direct-fd machine (hypothesis `Term.Fair`: busy-wait iterations do not repeat
    for ever) -/
theorem call_returns (c : Cfg α) (hd : IsDirect c) (wf : (fed c).WF) (σ : Nat → State α)
    (ε : Nat → Option (Ev α)) (hrun : MaxRun c σ ε) (h0 : (machineD c).Reachable (σ 0)) (hfair : Fair c σ ε) :
    ∃ n, ¬ InCall (σ n) ∧ (∀ i, i < n → InCall (σ i)) ∧ work c σ ε n + rank c (σ n) ≤ rank c (σ 0) := by
  rcases call_returns_or_spins c hd wf σ ε hrun h0 with h | ⟨N, hN⟩
  · exact h
  · exfalso
    obtain ⟨j, hj, hs⟩ := hfair N
    obtain ⟨e, he, hst⟩ := hN j hj
    simp [stutterAt, he, hst] at hs

end runs

/-! ## what the destructor has joined -/

set_option maxHeartbeats 1600000 in
theorem d_joinR (c : Cfg α) : ∀ sd, (machineD c).Reachable sd → Term.afterJoinR sd.cpc = true → sd.rpc = .done := by
  apply Machine.invariant
  · simp [machineD, initD, init, Term.afterJoinR]
  · intro s e s' _ ih hst
    have hst : (machine c).Step s e s' := hst
    plv_cases e with hst q hq
    all_goals jn_close s ih

/-- when the destructor of a direct-fd Reader has returned, both threads have returned and both queues are
    shut down -/
theorem destructor_joins_all (c : Cfg α) (hd : IsDirect c) (sd : State α) (h : (machineD c).Reachable sd)
    (hdes : sd.destroyed = true) :
    sd.cpc = .dead ∧ sd.rpc = .done ∧ sd.ppc = .done ∧ sd.outq.inUse = false := by
  obtain ⟨_, s, hreach, hs⟩ := sim c hd sd h
  have hj := Term.joined (fed c) s hreach
  have hc : s.cpc = .dead := hj.jd.mp (by rw [hs.destroyed]; exact hdes)
  have hcd : sd.cpc = .dead := by rw [← hs.cpc]; exact hc
  refine ⟨hcd, d_joinR c sd h (by rw [hcd]; rfl), ?_, ?_⟩
  · rw [← hs.ppc]; exact hj.jp (by rw [hc]; rfl)
  · rw [← hs.outq]; exact hj.jo hc

end Direct

end Osmium.Pipeline
