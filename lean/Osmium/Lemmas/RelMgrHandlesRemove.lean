/-
C11, member-handle invariant: `MembersDatabaseCommon::remove` and `remove_members`.  Core-only.
-/
import Osmium.Lemmas.RelMgrHandlesDefs
namespace Osmium.RelMgr
open Osmium.Order (Kind CheckState checkStep)

theorem map_zap_of_mid (b : Bool) (id : Int) (l : List Elem) (h : ∀ e ∈ l, e.mid = id) :
    l.map (zap b id) = if b then l.map (fun e : Elem => { e with h := 0 }) else l := by
  cases b
  · have : zap false id = fun e => e := by funext e; simp [zap]
    simp [this]
  · simp only [if_true]
    apply List.map_congr_left
    intro e he
    simp [zap, h e he]

theorem map_zap_of_ne (b : Bool) (id : Int) (l : List Elem) (h : ∀ e ∈ l, e.mid ≠ id) :
    l.map (zap b id) = l := by
  conv => rhs; rw [← List.map_id l]
  apply List.map_congr_left
  intro e he
  simp [zap, h e he]

theorem dbRemove_eq (c : Cfg) (s : State) (k : Kind) (id relid : Int) (pre rest post : List Elem) (e0 : Elem)
    (h : splitRange (s.getDb k) id = (pre, e0 :: rest, post)) (hmid : ∀ e ∈ e0 :: rest, e.mid = id) :
    dbRemove c s k id relid =
      ({ s with
          stash := if countNotRemoved (e0 :: rest) = 1 then stashRemove s.stash e0.h else s.stash,
          ub := s.ub || (decide (countNotRemoved (e0 :: rest) = 1) && (stashGet s.stash e0.h).isNone) } : State).setDb k
        (pre ++ markFirst (fun p => (s.relAt p).map (·.id)) relid
          ((e0 :: rest).map (zap (decide (countNotRemoved (e0 :: rest) = 1) && c.fixed) id)) ++ post) := by
  unfold dbRemove
  rw [h]
  simp only []
  rw [map_zap_of_mid _ _ _ hmid]
  by_cases hl : countNotRemoved (e0 :: rest) = 1
  · simp [hl]
  · have : (countNotRemoved (e0 :: rest) == 1) = false := by simpa using hl
    simp [hl, this]

theorem zap_mark (b : Bool) (id : Int) (e : Elem) :
    zap b id { e with num := none } = { zap b id e with num := none } := by
  unfold zap; split <;> rfl

/-- `remove(id, relid)` for the relation at position `q`, which still has a non-removed element
    in the range: that element (the first such) is marked; when it was the only non-removed
    element of the range the stash item is released (and, repaired code, the range zapped). -/
theorem dbRemove_shape (c : Cfg) (s : State) (k : Kind) (id relid : Int) (q : Nat)
    (hs : SortedById (s.getDb k))
    (hrel : ∀ e ∈ s.getDb k, (s.relAt e.rpos).map (·.id) = some relid ↔ e.rpos = q)
    (hP : ∃ e ∈ s.getDb k, e.mid = id ∧ e.num.isSome = true ∧ e.rpos = q) :
    ∃ (l1 : List Elem) (e : Elem) (l2 : List Elem) (e0 : Elem) (ub : Bool),
      s.getDb k = l1 ++ e :: l2 ∧ e.mid = id ∧ e.num.isSome = true ∧ e.rpos = q ∧
      e0 ∈ s.getDb k ∧ e0.mid = id ∧
      dbRemove c s k id relid =
        ({ s with stash := if liveRefs (s.getDb k) id = 1 then stashRemove s.stash e0.h else s.stash, ub := ub } : State).setDb k
          ((l1 ++ { e with num := none } :: l2).map (zap (decide (liveRefs (s.getDb k) id = 1) && c.fixed) id)) := by
  have hsplit := splitRange_sorted (s.getDb k) id hs
  have happ := splitRange_append (s.getDb k) id
  rw [hsplit] at happ
  simp only [] at happ
  have hmidmem : ∀ e ∈ (s.getDb k).filter (fun e => e.mid == id), e ∈ s.getDb k ∧ e.mid = id := by
    intro e he
    have := List.mem_filter.mp he
    exact ⟨this.1, by simpa using this.2⟩
  have hcnt := countNotRemoved_filter (s.getDb k) id
  have hpre : ∀ e ∈ (s.getDb k).filter (fun e => decide (e.mid < id)), e.mid ≠ id := by
    intro e he
    have := (List.mem_filter.mp he).2
    simp at this; omega
  have hpost : ∀ e ∈ (s.getDb k).filter (fun e => decide (id < e.mid)), e.mid ≠ id := by
    intro e he
    have := (List.mem_filter.mp he).2
    simp at this; omega
  generalize (s.getDb k).filter (fun e => decide (e.mid < id)) = pre at *
  generalize (s.getDb k).filter (fun e => decide (id < e.mid)) = post at *
  generalize hmid : (s.getDb k).filter (fun e => e.mid == id) = mid at *
  cases mid with
  | nil =>
    exfalso
    obtain ⟨e, he, h1, _⟩ := hP
    have : e ∈ (s.getDb k).filter (fun e => e.mid == id) := List.mem_filter.mpr ⟨he, by simpa using h1⟩
    rw [hmid] at this; cases this
  | cons e0 rest =>
    have hmidid : ∀ e ∈ e0 :: rest, e.mid = id := fun e he => (hmidmem e he).2
    rw [dbRemove_eq c s k id relid pre rest post e0 hsplit hmidid, hcnt]
    -- the element markFirst finds
    have hex : ∃ e ∈ e0 :: rest, e.num.isSome = true ∧ (fun p => (s.relAt p).map (·.id)) e.rpos = some relid := by
      obtain ⟨e, he, h1, h2, h3⟩ := hP
      have : e ∈ (s.getDb k).filter (fun e => e.mid == id) := List.mem_filter.mpr ⟨he, by simpa using h1⟩
      rw [hmid] at this
      exact ⟨e, this, h2, (hrel e he).mpr h3⟩
    obtain ⟨m1, e, m2, hm, h1, h2, hmark⟩ := markFirst_of_exists (fun p => (s.relAt p).map (·.id)) relid (e0 :: rest) hex
    have hemem : e ∈ e0 :: rest := by rw [hm]; simp
    have he := hmidmem e hemem
    rw [markFirst_map _ relid (zap _ id) (fun e => (zap_fields _ _ e).2.1) (fun e => (zap_fields _ _ e).2.2.1)
      (fun e => zap_mark _ _ e), hmark]
    refine ⟨pre ++ m1, e, m2 ++ post, e0,
      (s.ub || decide (liveRefs (s.getDb k) id = 1) && (stashGet s.stash e0.h).isNone), ?_, he.2, h1, (hrel e he.1).mp h2, (hmidmem e0 (List.mem_cons_self ..)).1,
      (hmidmem e0 (List.mem_cons_self ..)).2, ?_⟩
    · rw [← happ, hm]; simp
    · congr 1
      simp only [List.map_cons, List.map_append, map_zap_of_ne _ _ post hpost, map_zap_of_ne _ _ pre hpre,
        List.append_assoc, List.cons_append]

/-! ### the database after one `remove` -/

theorem mem_marked {l1 l2 : List Elem} {e x : Elem} {b : Bool} {id : Int}
    (hx : x ∈ (l1 ++ { e with num := none } :: l2).map (zap b id)) :
    ∃ y ∈ l1 ++ e :: l2, x.mid = y.mid ∧ x.rpos = y.rpos ∧ (x.num = y.num ∨ (y = e ∧ x.num = none)) ∧
      x.h = if b && y.mid == id then 0 else y.h := by
  obtain ⟨y', hy', rfl⟩ := List.mem_map.mp hx
  have zf := zap_fields b id y'
  rcases List.mem_append.mp hy' with h | h
  · exact ⟨y', by simp [h], zf.1, zf.2.2.1, Or.inl zf.2.1, zf.2.2.2⟩
  · rcases List.mem_cons.mp h with rfl | h
    · exact ⟨e, by simp, zf.1, zf.2.2.1, Or.inr ⟨rfl, zf.2.1⟩, zf.2.2.2⟩
    · exact ⟨y', by simp [h], zf.1, zf.2.2.1, Or.inl zf.2.1, zf.2.2.2⟩

theorem countP_marked (l1 l2 : List Elem) (e : Elem) (b : Bool) (id : Int) (P : Elem → Bool)
    (hP : ∀ y, P (zap b id y) = P y) (hE : P { e with num := none } = false) :
    ((l1 ++ { e with num := none } :: l2).map (zap b id)).countP P + (if P e then 1 else 0) =
      (l1 ++ e :: l2).countP P := by
  rw [List.countP_map]
  have : (P ∘ zap b id) = P := by funext y; exact hP y
  rw [this]
  simp only [List.countP_append, List.countP_cons, hE]
  simp
  omega

theorem sorted_of_skel {base : Base} {s : State} (hsk : ∀ k, skel (s.getDb k) = base k)
    (h0 : ∀ k, (base k).Pairwise (fun a b => a.1 ≤ b.1)) (k : Kind) : SortedById (s.getDb k) := by
  have h := h0 k
  rw [← hsk k] at h
  exact (List.pairwise_map (f := fun e : Elem => (e.mid, e.rpos)) (R := fun a b => a.1 ≤ b.1)).mp h

theorem rpos_lt_of_skel {n : Nat} {base : Base} {s : State} (hsk : ∀ k, skel (s.getDb k) = base k)
    (h0 : ∀ k, ∀ x ∈ base k, x.2 < n) (k : Kind) (e : Elem) (he : e ∈ s.getDb k) : e.rpos < n := by
  have : (e.mid, e.rpos) ∈ base k := by rw [← hsk k]; exact List.mem_map.mpr ⟨e, he, rfl⟩
  exact h0 k _ this

theorem mem_base_of_mem {base : Base} {s : State} (hsk : ∀ k, skel (s.getDb k) = base k)
    (k : Kind) (e : Elem) (he : e ∈ s.getDb k) : (e.mid, e.rpos) ∈ base k := by
  rw [← hsk k]; exact List.mem_map.mpr ⟨e, he, rfl⟩

theorem relAt_of_wf {Rm : Nat → Rel} {n : Nat} {s : State} (w : WF Rm n s) (p : Nat) (hp : p < n) :
    s.relAt p = if deadB s p then none else some (Rm p) := by
  rcases w.slot p hp with ⟨⟨m, h1⟩, _⟩ | ⟨m, h0⟩
  · rw [w.relAt p m h1]; simp [deadB, h1]
  · simp [State.relAt, deadB, h0, stashGet]


theorem exists_obj_of_key {SO : List Obj} {k : Kind} {id : Int} (h : (k, id) ∈ SO.map okey) :
    ∃ o ∈ SO, o.kind = k ∧ o.id = id := by
  obtain ⟨o, ho, hk⟩ := List.mem_map.mp h
  simp only [okey, Prod.mk.injEq] at hk
  exact ⟨o, ho, hk.1, hk.2⟩

/-- one `remove(member_id, relation_id)` inside `remove_members` of relation `q` -/
theorem rem_dbRemove {Rm : Nat → Rel} {n : Nat} {base : Base} (cx : Ctx Rm n base) (c : Cfg) {SO : List Obj}
    {s : State} (q : Nat) (hq : q < n) (w : WF Rm n s) (hsk : ∀ k, skel (s.getDb k) = base k)
    (hlive : ∃ mq, s.rdb[q]? = some ⟨q + 1, mq⟩) (harr : Arrived base SO q)
    (hi : HInv c.fixed SO s) (hx : XInv s) (m : Member) (ms : List Member) (r : RemInv q (m :: ms) s) (hm : m.ref ≠ 0) :
    HInv c.fixed SO (dbRemove c s m.kind m.ref (Rm q).id) ∧ RemInv q ms (dbRemove c s m.kind m.ref (Rm q).id) ∧
    XInv (dbRemove c s m.kind m.ref (Rm q).id) := by
  have hs := sorted_of_skel hsk cx.sorted0 m.kind
  have hqlive : deadB s q = false := by obtain ⟨mq, h⟩ := hlive; simp [deadB, h]
  have hrel : ∀ e ∈ s.getDb m.kind, (s.relAt e.rpos).map (·.id) = some (Rm q).id ↔ e.rpos = q := by
    intro e he
    have hlt := rpos_lt_of_skel hsk cx.rposlt m.kind e he
    rw [relAt_of_wf w e.rpos hlt]
    constructor
    · intro h
      by_cases hd : deadB s e.rpos = true
      · simp [hd] at h
      · simp [hd] at h
        exact cx.uniq _ _ hlt hq h
    · intro h; rw [h, hqlive]; rfl
  have hP : ∃ e ∈ s.getDb m.kind, e.mid = m.ref ∧ e.num.isSome = true ∧ e.rpos = q := by
    have := r.mine m.kind m.ref hm
    have hpos : 0 < (s.getDb m.kind).countP (fun e => e.mid == m.ref && e.rpos == q && e.num.isSome) := by
      rw [this]; simp
    obtain ⟨e, he, hpe⟩ := List.countP_pos_iff.mp hpos
    simp only [Bool.and_eq_true, beq_iff_eq] at hpe
    exact ⟨e, he, hpe.1.1, hpe.2, hpe.1.2⟩
  obtain ⟨l1, e, l2, e0, ub, hes, hemid, henum, herpos, he0, he0mid, heq⟩ :=
    dbRemove_shape c s m.kind m.ref (Rm q).id q hs hrel hP
  rw [heq]
  generalize hb : (decide (liveRefs (s.getDb m.kind) m.ref = 1) && c.fixed) = b at *
  generalize hst : (if liveRefs (s.getDb m.kind) m.ref = 1 then stashRemove s.stash e0.h else s.stash) = st at *
  have hf := setDb_fields ({ s with stash := st, ub := ub } : State) m.kind
    ((l1 ++ { e with num := none } :: l2).map (zap b m.ref))
  have hdb : ∀ k', (({ s with stash := st, ub := ub } : State).setDb m.kind
      ((l1 ++ { e with num := none } :: l2).map (zap b m.ref))).getDb k' =
      if k' = m.kind then (l1 ++ { e with num := none } :: l2).map (zap b m.ref) else s.getDb k' := by
    intro k'; rw [getDb_setDb]; split
    · rfl
    · cases k' <;> rfl
  have hemem : e ∈ s.getDb m.kind := by rw [hes]; simp
  -- live references after the call
  have hlr : ∀ id', liveRefs ((l1 ++ { e with num := none } :: l2).map (zap b m.ref)) id' +
      (if id' = m.ref then 1 else 0) = liveRefs (s.getDb m.kind) id' := by
    intro id'
    have := countP_marked l1 l2 e b m.ref (fun e => e.mid == id' && e.num.isSome)
      (fun y => by rw [(zap_fields b m.ref y).1, (zap_fields b m.ref y).2.1]) (by simp)
    have hPe : (e.mid == id' && e.num.isSome) = decide (id' = m.ref) := by
      rw [hemid, henum]
      by_cases h : id' = m.ref
      · subst h; simp
      · have : ¬ m.ref = id' := fun x => h x.symm
        simp [h, this]
    rw [hes]
    unfold liveRefs
    rw [← this, hPe]
    simp
  -- the object the range belongs to
  have hkey : (m.kind, m.ref) ∈ SO.map okey := by
    have := harr m.kind _ (mem_base_of_mem hsk m.kind e hemem) herpos
    rw [hemid] at this; exact this
  obtain ⟨o0, ho0, ho0k, ho0i⟩ := exists_obj_of_key hkey
  have hlr_pos : 0 < liveRefs (s.getDb m.kind) m.ref := by have := hlr m.ref; simp at this; omega
  have he0live := hi.live m.kind e0 he0 (by rw [he0mid]; exact hlr_pos) o0 ho0 ho0k (by rw [he0mid]; exact ho0i)
  -- the stash after the call, at a handle of a different live range
  have hstash : ∀ (h' : Nat) (o : Obj), stashGet s.stash h' = some (.obj o) → (o.kind ≠ m.kind ∨ o.id ≠ m.ref) →
      stashGet st h' = some (.obj o) := by
    intro h' o hg hne
    rw [← hst]
    split
    · rw [stashGet_stashRemove, if_neg]
      · exact hg
      · intro heq'
        rw [heq', he0live.2] at hg
        have : o0 = o := by simpa using hg
        subst this
        rcases hne with h | h
        · exact h ho0k
        · exact h ho0i
    · exact hg
  refine ⟨?_, ?_, ?_⟩
  · refine ⟨?_, ?_, ?_⟩
    · intro k' x hx hpos o ho hok hoi
      rw [hdb] at hx hpos
      rw [hf.1]
      show x.h ≠ 0 ∧ stashGet st x.h = some (.obj o)
      split at hx
      · rename_i hk; subst hk
        obtain ⟨y, hy, hmid, hrp, hnum, hh⟩ := mem_marked hx
        rw [← hes] at hy
        rw [if_pos rfl, hmid] at hpos
        by_cases hyid : y.mid = m.ref
        · -- same range: it still has a non-removed element, so this was not the last reference
          have h2 := hlr m.ref
          rw [hyid] at hpos
          simp only [if_true] at h2
          have hnl : ¬ liveRefs (s.getDb m.kind) m.ref = 1 := by omega
          have hbf : b = false := by rw [← hb]; simp [hnl]
          have hsts : st = s.stash := by rw [← hst, if_neg hnl]
          have := hi.live m.kind y hy (by rw [hyid]; exact hlr_pos) o ho hok (by rw [hoi, hmid])
          rw [hh, hbf, hsts]
          simpa using this
        · have h2 := hlr y.mid
          rw [if_neg hyid] at h2
          have := hi.live m.kind y hy (by omega) o ho hok (by rw [hoi, hmid])
          have hbid : (b && y.mid == m.ref) = false := by simp [hyid]
          rw [hh, hbid]
          simp only [Bool.false_eq_true, if_false]
          exact ⟨this.1, hstash _ _ this.2 (Or.inr (by rw [hoi, hmid]; exact hyid))⟩
      · rename_i hk
        rw [if_neg hk] at hpos
        have := hi.live k' x hx hpos o ho hok hoi
        exact ⟨this.1, hstash _ _ this.2 (Or.inl (by rw [hok]; exact hk))⟩
    · intro k' x hx hnot
      rw [hdb] at hx
      split at hx
      · rename_i hk; subst hk
        obtain ⟨y, hy, hmid, hrp, hnum, hh⟩ := mem_marked hx
        rw [← hes] at hy
        have := hi.fresh m.kind y hy (by rw [← hmid]; exact hnot)
        rw [hh]; split <;> simp [this]
      · exact hi.fresh k' x hx hnot
    · intro hfix k' x hx hzero
      rw [hdb] at hx hzero
      split at hx
      · rename_i hk; subst hk
        obtain ⟨y, hy, hmid, hrp, hnum, hh⟩ := mem_marked hx
        rw [← hes] at hy
        rw [if_pos rfl, hmid] at hzero
        by_cases hyid : y.mid = m.ref
        · have h2 := hlr m.ref
          rw [hyid] at hzero
          simp only [if_true] at h2
          have hl : liveRefs (s.getDb m.kind) m.ref = 1 := by omega
          have hbt : b = true := by rw [← hb]; simp [hl, hfix]
          rw [hh, hbt]; simp [hyid]
        · have h2 := hlr y.mid
          rw [if_neg hyid] at h2
          have := hi.gone hfix m.kind y hy (by omega)
          rw [hh]; split <;> simp [this]
      · rename_i hk
        rw [if_neg hk] at hzero
        exact hi.gone hfix k' x hx hzero
  · have hdead : ∀ p, deadB (({ s with stash := st, ub := ub } : State).setDb m.kind
        ((l1 ++ { e with num := none } :: l2).map (zap b m.ref))) p = deadB s p := by
      intro p; unfold deadB; rw [hf.2.1]
    refine ⟨?_, ?_, ?_⟩
    · intro k' x hx hne
      rw [hdb] at hx
      rw [hdead]
      split at hx
      · rename_i hk; subst hk
        obtain ⟨y, hy, hmid, hrp, hnum, hh⟩ := mem_marked hx
        rw [← hes] at hy
        rcases hnum with hnum | ⟨rfl, _⟩
        · rw [hnum, hmid, hrp]; exact r.other m.kind y hy (by rw [← hrp]; exact hne)
        · exact absurd (hrp.trans herpos) hne
      · exact r.other k' x hx hne
    · intro k' x hx h0
      rw [hdb] at hx
      split at hx
      · rename_i hk; subst hk
        obtain ⟨y, hy, hmid, hrp, hnum, hh⟩ := mem_marked hx
        rw [← hes] at hy
        rcases hnum with hnum | ⟨rfl, _⟩
        · rw [hnum]; exact r.zero m.kind y hy (by rw [← hmid]; exact h0)
        · exact absurd (hmid.symm.trans h0 ▸ hemid.symm) hm
      · exact r.zero k' x hx h0
    · intro k' id' hid'
      rw [hdb]
      have hmine := r.mine k' id' hid'
      split
      · rename_i hk; subst hk
        have := countP_marked l1 l2 e b m.ref (fun e => e.mid == id' && e.rpos == q && e.num.isSome)
          (fun y => by rw [(zap_fields b m.ref y).1, (zap_fields b m.ref y).2.1, (zap_fields b m.ref y).2.2.1]) (by simp)
        have hPe : (e.mid == id' && e.rpos == q && e.num.isSome) = decide (m.ref = id') := by
          rw [hemid, henum, herpos]
          by_cases h : m.ref = id' <;> simp [h]
        have hMm : (m.kind == m.kind && m.ref == id') = decide (m.ref = id') := by
          by_cases h : m.ref = id' <;> simp [h]
        rw [hes, ← this, List.countP_cons, hPe, hMm] at hmine
        omega
      · rename_i hk
        have hk' : ¬ m.kind = k' := fun h => hk h.symm
        simpa [List.countP_cons, hk'] using hmine

  · -- uniform handles, nothing leaks
    refine ⟨?_, ?_⟩
    · intro k' x hx' x' hx'' hmm
      rw [hdb] at hx' hx''
      split at hx'
      · rename_i hk; subst hk
        rw [if_pos rfl] at hx''
        obtain ⟨y, hy, hmid, _, _, hh⟩ := mem_marked hx'
        obtain ⟨y', hy', hmid', _, _, hh'⟩ := mem_marked hx''
        rw [← hes] at hy hy'
        have hyy : y.mid = y'.mid := by rw [← hmid, ← hmid', hmm]
        rw [hh, hh', hyy, hx.uniform m.kind y hy y' hy' hyy]
      · rename_i hk
        rw [if_neg hk] at hx''
        exact hx.uniform k' x hx' x' hx'' hmm
    · intro h' o hg
      rw [hf.1] at hg
      have hg' : stashGet st h' = some (.obj o) := hg
      -- the item was live before, and is not the released one
      have hold : stashGet s.stash h' = some (.obj o) ∧ (liveRefs (s.getDb m.kind) m.ref = 1 → h' ≠ e0.h) := by
        rw [← hst] at hg'
        split at hg'
        · rw [stashGet_stashRemove] at hg'
          split at hg'
          · cases hg'
          · rename_i hne; exact ⟨hg', fun _ => hne⟩
        · rename_i hnl; exact ⟨hg', fun h1 => absurd h1 hnl⟩
      obtain ⟨k0, y, hy, hyh, hynum⟩ := hx.noleak h' o hold.1
      by_cases hk0 : k0 = m.kind
      · subst hk0
        by_cases hyid : y.mid = m.ref
        · -- same range as the removed reference
          have hyh0 : y.h = e0.h := hx.uniform m.kind y hy e0 he0 (by rw [hyid, he0mid])
          by_cases hl : liveRefs (s.getDb m.kind) m.ref = 1
          · exact absurd (hyh.symm.trans hyh0) (hold.2 hl)
          · have hbf : b = false := by rw [← hb]; simp [hl]
            have h2 := hlr m.ref
            simp only [if_true] at h2
            have hpos' : 0 < liveRefs ((l1 ++ { e with num := none } :: l2).map (zap b m.ref)) m.ref := by omega
            obtain ⟨x, hxm, hpx⟩ := List.countP_pos_iff.mp hpos'
            simp only [Bool.and_eq_true, beq_iff_eq] at hpx
            obtain ⟨y', hy', hmid', _, _, hh'⟩ := mem_marked hxm
            rw [← hes] at hy'
            refine ⟨m.kind, x, by rw [hdb, if_pos rfl]; exact hxm, ?_, hpx.2⟩
            rw [hh', hbf]
            simp only [Bool.false_and, Bool.false_eq_true, if_false]
            rw [hx.uniform m.kind y' hy' y hy (by rw [← hmid', hpx.1, hyid]), hyh]
        · -- another range of the same database: the element is untouched
          have hyne : y ≠ e := fun h => hyid (h ▸ hemid)
          have hzy : zap b m.ref y = y := by simp [zap, hyid]
          have hmem : y ∈ (l1 ++ { e with num := none } :: l2).map (zap b m.ref) := by
            rw [hes] at hy
            apply List.mem_map.mpr
            refine ⟨y, ?_, hzy⟩
            rcases List.mem_append.mp hy with h | h
            · simp [h]
            · rcases List.mem_cons.mp h with h | h
              · exact absurd h hyne
              · simp [h]
          exact ⟨m.kind, y, by rw [hdb, if_pos rfl]; exact hmem, hyh, hynum⟩
      · exact ⟨k0, y, by rw [hdb, if_neg hk0]; exact hy, hyh, hynum⟩

/-- `remove_members` of relation `q`: afterwards no element of `q` (member id ≠ 0) is left
    non-removed, every other element is as before, and the handle invariant holds. -/
theorem rem_removeMembers {Rm : Nat → Rel} {n : Nat} {base : Base} (cx : Ctx Rm n base) (c : Cfg) {SO : List Obj}
    (q : Nat) (hq : q < n) (harr : Arrived base SO q) (ms : List Member) :
    ∀ {s : State}, WF Rm n s → (∀ k, skel (s.getDb k) = base k) →
      (∃ mq, s.rdb[q]? = some ⟨q + 1, mq⟩) → HInv c.fixed SO s → XInv s → RemInv q ms s →
      HInv c.fixed SO (removeMembers c (Rm q).id s ms) ∧ RemInv q [] (removeMembers c (Rm q).id s ms) ∧
      XInv (removeMembers c (Rm q).id s ms) := by
  induction ms with
  | nil => intro s _ _ _ hi hx r; exact ⟨hi, r, hx⟩
  | cons m ms ih =>
    intro s w hsk hlive hi hx r
    simp only [removeMembers]
    split
    · rename_i hm
      obtain ⟨hi1, r1, hx1⟩ := rem_dbRemove cx c q hq w hsk hlive harr hi hx m ms r hm
      obtain ⟨w1, g1, _⟩ := w.dbRemove c m.kind m.ref (Rm q).id
      have hlive1 : ∃ mq, (dbRemove c s m.kind m.ref (Rm q).id).rdb[q]? = some ⟨q + 1, mq⟩ := by
        rw [(dbRemove_frame c s m.kind m.ref (Rm q).id).1]; exact hlive
      exact ih w1 (fun k => (g1 k).trans (hsk k)) hlive1 hi1 hx1 r1
    · rename_i hm
      have hm0 : m.ref = 0 := by simpa using hm
      refine ih w hsk hlive hi hx ⟨r.other, r.zero, ?_⟩
      intro k id hid
      have := r.mine k id hid
      have hne : ¬ (0 : Int) = id := fun h => hid h.symm
      simpa [List.countP_cons, hm0, hne] using this

end Osmium.RelMgr
